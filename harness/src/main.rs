mod props;
mod rng;
mod runner;
mod tok;

use runner::{Opts, Tier};
use std::path::PathBuf;

fn usage() -> ! {
    eprintln!("usage: bvharness run <id> [--tier quick|thorough] [--seed N] [--driver PATH] [--stats FILE] [--replay FILE] [--search]\n       bvharness child <id> <tokens...>\n       bvharness list");
    std::process::exit(2)
}

fn main() {
    let args: Vec<String> = std::env::args().collect();
    if args.len() < 2 { usage(); }
    // sorts with several hundred runs keep one descriptor per run: lift the soft limit to what the hard limit allows
    unsafe {
        let mut r = libc::rlimit { rlim_cur: 0, rlim_max: 0 };
        if libc::getrlimit(libc::RLIMIT_NOFILE, &mut r) == 0 && r.rlim_cur < 8192 { r.rlim_cur = r.rlim_max.min(8192); libc::setrlimit(libc::RLIMIT_NOFILE, &r); }
    }
    let props = props::all();
    match args[1].as_str() {
        "list" => { for p in &props { println!("{}", p.id); } }
        "child" => {
            if args.len() < 3 { usage(); }
            let p = props.iter().find(|p| p.id == args[2]).unwrap_or_else(|| usage());
            let f = p.child.unwrap_or_else(|| usage());
            // a child that does not return is abandoned by the parent's watchdog; make sure it dies too
            std::thread::spawn(|| {
                let limit = std::env::var("VERIF_CASE_TIMEOUT_S").ok().and_then(|s| s.parse().ok()).unwrap_or(120u64);
                std::thread::sleep(std::time::Duration::from_secs(limit + 5));
                std::process::exit(3);
            });
            // `child <id> -` : the tokens come on stdin (one line), for cases too large for an argument list
            if args.len() == 4 && args[3] == "-" {
                let mut line = String::new();
                std::io::Read::read_to_string(&mut std::io::stdin(), &mut line).ok();
                let toks: Vec<String> = line.split_whitespace().map(|s| s.to_string()).collect();
                props::common::set_case_mode(&toks);
                println!("{}", f(&toks));
            } else {
                props::common::set_case_mode(&args[3..]);
                println!("{}", f(&args[3..]));
            }
        }
        "run" => {
            if args.len() < 3 { usage(); }
            let p = props.iter().find(|p| p.id == args[2]).unwrap_or_else(|| { eprintln!("unknown property {}", args[2]); std::process::exit(2) });
            let verif = PathBuf::from(std::env::var("VERIF_DIR").unwrap_or_else(|_| "/verif".into()));
            let mut o = Opts {
                tier: Tier::Quick,
                seed: std::env::var("VERIF_SEED").ok().and_then(|s| s.parse().ok()).unwrap_or(1),
                driver: verif.join("lean/.lake/build/bin/bvdriver"),
                stats: None,
                replay_dir: verif.join("replays"),
                corpus_dir: verif.join("corpus"),
                known: verif.join("known_findings.txt"),
                run_dir: verif.join(format!("harness/run/{}", std::process::id())),
                replay: None,
                search: false,
            };
            let mut i = 3;
            while i < args.len() {
                let a = args[i].as_str();
                let mut val = || { i += 1; args.get(i).cloned().unwrap_or_else(|| usage()) };
                match a {
                    "--tier" => { o.tier = if val() == "thorough" { Tier::Thorough } else { Tier::Quick }; }
                    "--seed" => { o.seed = val().parse().unwrap_or(1); }
                    "--driver" => { o.driver = PathBuf::from(val()); }
                    "--stats" => { o.stats = Some(PathBuf::from(val())); }
                    "--replay" => { o.replay = Some(PathBuf::from(val())); }
                    "--search" => { o.search = true; }
                    _ => usage(),
                }
                i += 1;
            }
            // panics of the code under test are observables, not noise
            if std::env::var("VERIF_SHOW_PANICS").is_err() { std::panic::set_hook(Box::new(|_| {})); }
            let code = runner::run_prop(p, &o);
            std::process::exit(code);
        }
        _ => usage(),
    }
}
