//! Aborted operations: calls into the library that end in a panic of USER-SUPPLIED code (an input iterator, a
//! comparator, a payload's `Clone`, an item's `Serialize`/`Deserialize`, a record's `Display`, a reader's `read`) or in
//! an error, caught by the caller — who then goes on using the library on the same thread. Whatever the aborted call
//! left behind (a thread-local scratch buffer, a cache, a pool) must not influence any later, unrelated call: every
//! property is stated per call. The harness runs these before a share of its cases (a function of the case, so that a
//! case replays); their own results are discarded.
use bed_utils::bed::io::{Reader, Writer};
use bed_utils::bed::map::{GIntervalIndexMap, GIntervalIndexSet, GIntervalMap};
use bed_utils::bed::{merge_sorted_bed, merge_sorted_bed_with, merge_sorted_bedgraph, BEDLike, BedGraph, GenomicRange};
use bed_utils::extsort::ExternalSorterBuilder;
use bed_utils::verif_hooks::{Interval, Lapper};
use std::panic::{catch_unwind, AssertUnwindSafe};

thread_local! { static ROUND: std::cell::Cell<u64> = std::cell::Cell::new(0); }

/// a payload whose `Clone` panics on the k-th clone made on this thread since it was armed
#[derive(Debug)]
struct Bomb(u64);
thread_local! { static FUSE: std::cell::Cell<i64> = std::cell::Cell::new(i64::MAX); }
impl Clone for Bomb {
    fn clone(&self) -> Self {
        let left = FUSE.with(|f| { let v = f.get() - 1; f.set(v); v });
        if left <= 0 { FUSE.with(|f| f.set(i64::MAX)); panic!("payload clone panics"); }
        Bomb(self.0)
    }
}

/// an item whose serialisation fails (mode 1) or panics (mode 2) after its first field, or whose deserialisation fails (3)
#[derive(Clone, Debug)]
struct Brittle { a: u64, mode: u8, b: Vec<u8> }
impl serde::Serialize for Brittle {
    fn serialize<S: serde::Serializer>(&self, s: S) -> Result<S::Ok, S::Error> {
        use serde::ser::SerializeTuple;
        let mut t = s.serialize_tuple(3)?;
        t.serialize_element(&self.a)?;
        match self.mode { 1 => return Err(serde::ser::Error::custom("item refuses to be serialised")), 2 => panic!("item panics while being serialised"), _ => {} }
        t.serialize_element(&self.mode)?;
        t.serialize_element(&self.b)?;
        t.end()
    }
}
impl<'de> serde::Deserialize<'de> for Brittle {
    fn deserialize<D: serde::Deserializer<'de>>(d: D) -> Result<Self, D::Error> {
        let (a, mode, b): (u64, u8, Vec<u8>) = serde::Deserialize::deserialize(d)?;
        if mode == 3 { return Err(serde::de::Error::custom("item refuses to be deserialised")); }
        Ok(Brittle { a, mode, b })
    }
}

struct PanicDisplay(GenomicRange);
impl std::fmt::Display for PanicDisplay {
    fn fmt(&self, f: &mut std::fmt::Formatter<'_>) -> std::fmt::Result { write!(f, "{}\t", self.0.chrom())?; panic!("record panics while being displayed") }
}
impl BEDLike for PanicDisplay {
    fn chrom(&self) -> &str { self.0.chrom() }
    fn set_chrom(&mut self, c: &str) -> &mut Self { self.0.set_chrom(c); self }
    fn start(&self) -> u64 { self.0.start() }
    fn set_start(&mut self, s: u64) -> &mut Self { self.0.set_start(s); self }
    fn end(&self) -> u64 { self.0.end() }
    fn set_end(&mut self, e: u64) -> &mut Self { self.0.set_end(e); self }
}

struct PanicRead { data: Vec<u8>, pos: usize, at: usize }
impl std::io::Read for PanicRead {
    fn read(&mut self, buf: &mut [u8]) -> std::io::Result<usize> {
        if self.pos >= self.at { panic!("byte source panics"); }
        let n = buf.len().min(self.at - self.pos).min(7);
        buf[..n].copy_from_slice(&self.data[self.pos..self.pos + n]);
        self.pos += n;
        Ok(n)
    }
}

/// an iterator that panics after `k` items
fn fused_bomb<T>(v: Vec<T>, k: usize) -> impl Iterator<Item = T> {
    v.into_iter().enumerate().map(move |(i, x)| { if i >= k { panic!("input iterator panics"); } x })
}

fn recs(r: u64, n: u64) -> Vec<GenomicRange> {
    // names and coordinates that DO occur in the generated cases (the common pool, small coordinates): whatever an aborted
    // build leaves behind then shows up in the answers of the case that follows
    let names = super::common::CHROMS;
    (0..n).map(|i| GenomicRange::new(names[((r + i) % 5) as usize].to_string(), 3 * i, 3 * i + 8 + (i % 4))).collect()
}

/// Run one round of aborted operations on the current thread. `which` selects the areas (bit mask): 1 Lapper, 2 maps and
/// index sets, 4 stream merges, 8 external sort, 16 reader / writer. In every area exactly ONE aborted operation is run per
/// round (which one rotates with the round number) and nothing of that area runs after it: a later successful call of the same
/// kind could clean up what the aborted one left, and hide it from the case that follows.
pub fn aborted_operations(which: u32) {
    let r = ROUND.with(|c| { let v = c.get(); c.set(v + 1); v });
    let k = ((r / 7) % 4) as usize + 1;
    if which & 1 != 0 {
        match r % 3 {
            0 => {
                // merge_overlaps clones payloads: the clone of the k-th one panics
                let ivs: Vec<Interval<u64, Bomb>> = (0..8u64).map(|i| Interval { start: 1_000_000 + 3 * i, stop: 1_000_000 + 3 * i + 5, val: Bomb(i) }).collect();
                let mut l = Lapper::new(ivs);
                FUSE.with(|f| f.set(k as i64));
                let _ = catch_unwind(AssertUnwindSafe(|| l.merge_overlaps()));
            }
            1 => {
                let mut l2: Lapper<u64, Bomb> = Lapper::new((0..6u64).map(|i| Interval { start: 2_000_000 + i, stop: 2_000_000 + i + 2 + i % 2, val: Bomb(i) }).collect());
                FUSE.with(|f| f.set(2 * k as i64));
                let _ = catch_unwind(AssertUnwindSafe(|| { let c = l2.clone(); l2.insert(Interval { start: 2_000_001, stop: 2_000_009, val: Bomb(99) }); l2.merge_overlaps(); let _ = c.find(0, u64::MAX).map(|x| x.val.clone()).count(); }));
            }
            _ => {
                // iterators dropped half-way
                let l: Lapper<u64, u64> = Lapper::new((0..9u64).map(|i| Interval { start: 3_000_000 + 2 * i, stop: 3_000_000 + 2 * i + 5, val: i }).collect());
                let _ = l.find(0, u64::MAX).nth(k);
                let mut cur = 0usize;
                let _ = l.seek(3_000_004, 3_000_009, &mut cur).next();
                let _ = l.depth().nth(k);
            }
        }
        FUSE.with(|f| f.set(i64::MAX));
    }
    if which & 2 != 0 {
        match r % 4 {
            0 => { let _ = catch_unwind(AssertUnwindSafe(|| { let s: GIntervalIndexSet = fused_bomb(recs(r, 9), 2 + k).collect(); s.len() })); }
            1 => { let _ = catch_unwind(AssertUnwindSafe(|| { let s: GIntervalIndexMap<u64> = fused_bomb(recs(r, 9), 2 + k).map(|g| (g, 7u64)).collect(); s.len() })); }
            2 => { let _ = catch_unwind(AssertUnwindSafe(|| { let s: GIntervalMap<u64> = fused_bomb(recs(r, 9), 2 + k).map(|g| (g, 7u64)).collect(); s.len() })); }
            _ => {
                // query iterators dropped half-way
                let s: GIntervalIndexSet = recs(r, 9).into_iter().collect();
                let q = GenomicRange::new(format!("aborted{}", r % 3), 0, u64::MAX);
                let _ = s.find_index_of(&q).next();
                let _ = s.find(&q).nth(1);
            }
        }
    }
    if which & 4 != 0 {
        let mut v = recs(r, 9);
        v.sort_by(|a, b| a.compare(b));
        match r % 6 {
            0 => { let _ = catch_unwind(AssertUnwindSafe(|| merge_sorted_bed(fused_bomb(v, 2 + k)).count())); }
            1 => { let _ = catch_unwind(AssertUnwindSafe(|| merge_sorted_bed_with(v, |g| { if g.len() > 1 { panic!("merger closure panics"); } g.len() }).count())); }
            // unsorted input: the library panics by itself ("input is not sorted")
            2 => { v.reverse(); let _ = catch_unwind(AssertUnwindSafe(|| merge_sorted_bed(v).count())); }
            // an iterator dropped after its first item
            3 => { let _ = merge_sorted_bed(v).next(); }
            4 => { let bg: Vec<BedGraph<i64>> = v.iter().map(|g| BedGraph::new(g.chrom().to_string(), g.start(), g.end(), 3)).collect(); let _ = catch_unwind(AssertUnwindSafe(|| merge_sorted_bedgraph(fused_bomb(bg, 2 + k)).count())); }
            // a value type that overflows inside the sweep (i8 pile-up), and a bedGraph iterator dropped after its first item
            _ => { let bg: Vec<BedGraph<i8>> = (0..6).map(|_| BedGraph::new("aborted0".to_string(), 1_000_000, 1_000_050, 100i8)).collect(); let _ = catch_unwind(AssertUnwindSafe(|| merge_sorted_bedgraph(bg).count()));
                   let bg2: Vec<BedGraph<i64>> = v.iter().map(|g| BedGraph::new(g.chrom().to_string(), g.start(), g.end(), 3)).collect(); let _ = merge_sorted_bedgraph(bg2).next(); }
        }
    }
    if which & 8 != 0 {
        if let Ok(sorter) = ExternalSorterBuilder::new().with_chunk_size(3).num_threads(1).with_compression((r % 2) as u32).build() {
            let items = |mode: u8| -> Vec<Brittle> { (0..10u64).map(|i| Brittle { a: 1_000_000 + (7 * i) % 10, mode: if i == 4 + k as u64 { mode } else { 0 }, b: vec![0xEE; 40 + i as usize] }).collect() };
            let by_a = |a: &Brittle, b: &Brittle| a.a.cmp(&b.a);
            match r % 6 {
                0 | 1 | 2 => { let v = items((r % 6) as u8 + 1); let _ = catch_unwind(AssertUnwindSafe(|| sorter.sort_by(v, by_a).map(|it| it.count()))); }
                3 => { let v = items(0); let _ = catch_unwind(AssertUnwindSafe(|| sorter.sort_by(fused_bomb(v, 4 + k), by_a).map(|it| it.count()))); }
                4 => {
                    let v = items(0);
                    let calls = std::sync::atomic::AtomicUsize::new(0);
                    let _ = catch_unwind(AssertUnwindSafe(|| sorter.sort_by(v, |a: &Brittle, b: &Brittle| { if calls.fetch_add(1, std::sync::atomic::Ordering::SeqCst) == 3 + k { panic!("comparator panics"); } a.a.cmp(&b.a) }).map(|it| it.count())));
                }
                // a result that is dropped after its first item
                _ => { let v = items(0); if let Ok(mut it) = sorter.sort_by(v, by_a) { let _ = it.next(); } }
            }
        }
    }
    if which & 16 != 0 {
        let text = b"aborted0\t1\t2\naborted1\t3\t4\naborted2\t5\t6\n".to_vec();
        let at = 9 + 5 * k;
        match r % 5 {
            0 => { let _ = catch_unwind(AssertUnwindSafe(|| Reader::new(PanicRead { data: text.clone(), pos: 0, at }, None).into_records::<GenomicRange>().count())); }
            1 => { let _ = catch_unwind(AssertUnwindSafe(|| { let mut rd = Reader::new(PanicRead { data: text.clone(), pos: 0, at }, Some("#".into())); rd.records::<GenomicRange>().count() })); }
            2 => { let _ = catch_unwind(AssertUnwindSafe(|| { let mut out: Vec<u8> = vec![]; let mut w = Writer::new(&mut out); let _ = w.write_record(&GenomicRange::new("aborted0", 1, 2)); let _ = w.write_record(&PanicDisplay(GenomicRange::new("aborted1", 3, 4))); })); }
            3 => { let _ = "aborted0\tx\t2".parse::<GenomicRange>(); let _ = "aborted0\t1".parse::<bed_utils::bed::BED<6>>(); }
            // a reader abandoned in the middle of a line
            _ => { let mut rd = Reader::new(&text[..at.min(text.len())], None); let _ = rd.records::<GenomicRange>().next(); }
        }
    }
}

/// Iterators of the library that stay alive ACROSS cases on this thread and are polled one step before a share of the cases (and
/// re-created when exhausted): calls into the library interleave with the polling of unrelated, half-consumed iterators — two
/// merges, a sorted stream that still owns its runs, a walk over a long-lived index. Independent iterators must not interfere.
struct Bystanders {
    merge: Box<dyn Iterator<Item = GenomicRange>>,
    graph: Box<dyn Iterator<Item = BedGraph<i64>>>,
    sorted: Box<dyn Iterator<Item = bool>>,
    depth: Box<dyn Iterator<Item = u64>>,
}
fn bystander_recs(n: u64) -> Vec<GenomicRange> {
    let names = super::common::CHROMS;
    let mut v: Vec<GenomicRange> = (0..n).map(|i| GenomicRange::new(names[(i / 40 % 3) as usize].to_string(), 4 * (i % 40), 4 * (i % 40) + 2 + i % 5)).collect();
    v.sort_by(|a, b| a.compare(b));
    v
}
fn new_bystanders() -> Bystanders {
    let recs = bystander_recs(120);
    let bg: Vec<BedGraph<i64>> = recs.iter().map(|g| BedGraph::new(g.chrom().to_string(), g.start(), g.end(), 2)).collect();
    let sorted: Box<dyn Iterator<Item = bool>> = match ExternalSorterBuilder::new().with_chunk_size(7).num_threads(1).build() {
        Ok(s) => match s.sort((0..60u64).rev().collect::<Vec<u64>>()) { Ok(it) => Box::new(it.map(|x| x.is_ok())), Err(_) => Box::new(std::iter::empty()) },
        Err(_) => Box::new(std::iter::empty()),
    };
    let l: &'static Lapper<u64, u64> = Box::leak(Box::new(Lapper::new((0..30u64).map(|i| Interval { start: 3 * i, stop: 3 * i + 5, val: i }).collect())));
    Bystanders { merge: Box::new(merge_sorted_bed(recs)), graph: Box::new(merge_sorted_bedgraph(bg)), sorted, depth: Box::new(l.depth().map(|r| r.val)) }
}
thread_local! { static BYSTANDERS: std::cell::RefCell<Option<Bystanders>> = std::cell::RefCell::new(None); }
fn poll_bystanders() {
    BYSTANDERS.with(|b| {
        let mut b = b.borrow_mut();
        if b.is_none() { *b = Some(new_bystanders()); }
        let done = { let x = b.as_mut().unwrap(); let a = x.merge.next().is_none(); let c = x.graph.next().is_none(); let d = x.sorted.next().is_none(); let e = x.depth.next().is_none(); a && c && d && e };
        if done { *b = None; }
    });
}

/// the share of cases that is preceded by a round of aborted operations (and by one step of the bystander iterators): a function
/// of the case's tokens
pub fn maybe_abort(t: &[String], which: u32) {
    let m = super::common::mode_of(t);
    if m % 4 == 1 { aborted_operations(which); }
    if m % 3 == 0 { let _ = catch_unwind(AssertUnwindSafe(poll_bystanders)); }
}
