//! C01: ExternalSorter::sort / sort_by returns the sorted permutation of its input.
use super::c10::{cmp_key, get_sitem, put_sitem, SItem};
use super::common::*;
use super::text::{gen_wf, Ty};
use crate::rng::Rng;
use crate::runner::{Case, PropDef, Tier};
use crate::tok::{R, W};
use bed_utils::bed::{BEDLike, BedGraph, GenomicRange, NarrowPeak, OptionalFields, Score, Strand, BED};
use bed_utils::extsort::{ExternalChunkError, ExternalSorterBuilder};
use bincode::Options;
use serde::{de::DeserializeOwned, Serialize};

#[derive(Clone)]
struct C { rev: bool, chunk: usize, threads: usize, comp: Option<u32>, tmp: bool, ty: String, border: u64, xs: Vec<SItem> }

fn enc(c: &C) -> Vec<String> {
    let mut w = W::new();
    w.flag(c.rev).n(c.chunk).n(c.threads);
    match c.comp { None => { w.n(0); } Some(l) => { w.n(1).n(l); } }
    w.flag(c.tmp).s(&c.ty).n(c.border).n(c.xs.len());
    for x in &c.xs { put_sitem(&mut w, x); }
    w.0
}
fn dec(t: &[String]) -> Option<C> {
    let mut r = R::new(t);
    let rev = r.flag()?; let chunk = r.usize()?; let threads = r.usize()?;
    let comp = if r.u64()? != 0 { Some(r.u64()? as u32) } else { None };
    let tmp = r.flag()?; let ty = r.tok()?.to_string(); let border = r.u64()?;
    let xs = r.list(get_sitem)?;
    Some(C { rev, chunk, threads, comp, tmp, ty, border, xs })
}
fn n_chunks(c: &C) -> usize { if c.chunk <= 1 { c.xs.len() } else { c.xs.len().div_ceil(c.chunk) } }
fn valid(c: &C) -> bool { c.threads >= 1 && n_chunks(c) <= 700 }

/// Field-for-field image of a record, written and read by the HARNESS from the record's public fields (not by the library's
/// `Serialize`, which is what the sort itself uses: a `Serialize` that forgets a field would forget it in the expectation too).
pub trait Fields: Sized {
    fn ser_fields(&self) -> Vec<u8>;
    fn de_fields(b: &[u8]) -> Option<Self>;
}
fn ser<T: Fields>(x: &T) -> Vec<u8> { x.ser_fields() }
fn de<T: Fields>(b: &[u8]) -> Option<T> { T::de_fields(b) }
fn toks(b: &[u8]) -> Option<Vec<String>> { Some(std::str::from_utf8(b).ok()?.split(' ').map(|s| s.to_string()).collect()) }
fn put_common(w: &mut W, chrom: &str, start: u64, end: u64, name: &Option<String>, score: &Option<Score>, strand: &Option<Strand>) {
    w.b(chrom.as_bytes()).n(start).n(end);
    match name { None => { w.n(0); } Some(s) => { w.n(1).b(s.as_bytes()); } }
    match score { None => { w.n(0); } Some(s) => { w.n(1).n(u16::from(*s)); } }
    w.n(match strand { None => 0, Some(Strand::Forward) => 1, Some(Strand::Reverse) => 2 });
}
fn get_common(r: &mut R) -> Option<(String, u64, u64, Option<String>, Option<Score>, Option<Strand>)> {
    let chrom = r.string()?; let start = r.u64()?; let end = r.u64()?;
    let name = if r.u64()? != 0 { Some(r.string()?) } else { None };
    let score = if r.u64()? != 0 { Some(Score::try_from(r.u64()? as u16).ok()?) } else { None };
    let strand = match r.u64()? { 0 => None, 1 => Some(Strand::Forward), _ => Some(Strand::Reverse) };
    Some((chrom, start, end, name, score, strand))
}
fn put_of(w: &mut W, o: Option<f64>) { match o { None => { w.n(0); } Some(x) => { w.n(1).n(x.to_bits()); } } }
fn get_of(r: &mut R) -> Option<Option<f64>> { Some(if r.u64()? != 0 { Some(f64::from_bits(r.u64()?)) } else { None }) }
impl Fields for GenomicRange {
    fn ser_fields(&self) -> Vec<u8> { let mut w = W::new(); w.b(self.chrom().as_bytes()).n(self.start()).n(self.end()); w.join().into_bytes() }
    fn de_fields(b: &[u8]) -> Option<Self> { let t = toks(b)?; let mut r = R::new(&t); Some(GenomicRange::new(r.string()?, r.u64()?, r.u64()?)) }
}
impl<const N: u8> Fields for BED<N> {
    fn ser_fields(&self) -> Vec<u8> {
        let mut w = W::new();
        put_common(&mut w, self.chrom(), self.start(), self.end(), &self.name, &self.score, &self.strand);
        w.n(self.optional_fields.len());
        for f in self.optional_fields.iter() { w.b(f.as_bytes()); }
        w.join().into_bytes()
    }
    fn de_fields(b: &[u8]) -> Option<Self> {
        let t = toks(b)?; let mut r = R::new(&t);
        let (chrom, start, end, name, score, strand) = get_common(&mut r)?;
        let of = r.list(|r| r.string())?;
        Some(BED::new(chrom, start, end, name, score, strand, OptionalFields::from(of)))
    }
}
impl Fields for NarrowPeak {
    fn ser_fields(&self) -> Vec<u8> {
        let mut w = W::new();
        put_common(&mut w, &self.chrom, self.start, self.end, &self.name, &self.score, &self.strand);
        w.n(self.signal_value.to_bits()); put_of(&mut w, self.p_value); put_of(&mut w, self.q_value); w.n(self.peak);
        w.join().into_bytes()
    }
    fn de_fields(b: &[u8]) -> Option<Self> {
        let t = toks(b)?; let mut r = R::new(&t);
        let (chrom, start, end, name, score, strand) = get_common(&mut r)?;
        Some(NarrowPeak { chrom, start, end, name, score, strand, signal_value: f64::from_bits(r.u64()?), p_value: get_of(&mut r)?, q_value: get_of(&mut r)?, peak: r.u64()? })
    }
}
impl Fields for BedGraph<f64> {
    fn ser_fields(&self) -> Vec<u8> { let mut w = W::new(); w.b(self.chrom.as_bytes()).n(self.start).n(self.end).n(self.value.to_bits()); w.join().into_bytes() }
    fn de_fields(b: &[u8]) -> Option<Self> { let t = toks(b)?; let mut r = R::new(&t); Some(BedGraph::new(r.string()?, r.u64()?, r.u64()?, f64::from_bits(r.u64()?))) }
}
pub fn rec_key<B: BEDLike>(b: &B) -> Vec<u64> {
    let mut k: Vec<u64> = b.chrom().bytes().map(|x| x as u64 + 1).collect();
    k.push(0); k.push(b.start()); k.push(b.end());
    k
}

static CASE_NO: std::sync::atomic::AtomicUsize = std::sync::atomic::AtomicUsize::new(0);

/// environment mode of a case = (border / 96) % 3 (such cases run in a child process: the working directory and the
/// environment are process-wide). 1: the temporary directory is given as a RELATIVE path and the working directory
/// changes between `build()` and the sort. 2: `TMPDIR` points to a directory that does not exist from `build()` on.
/// The sorter fixed its directory in `build()`; neither may matter afterwards.
fn env_mode(c: &C) -> u64 { (c.border / 96) % 3 }
fn after_build(c: &C) {
    match env_mode(c) {
        1 => { std::env::set_current_dir("/").ok(); }
        2 => { std::env::set_var("TMPDIR", "/nonexistent-verif-tmpdir"); }
        _ => {}
    }
}

fn builder(c: &C) -> (ExternalSorterBuilder, Option<std::path::PathBuf>) {
    let mut dir = None;
    if c.tmp || env_mode(c) == 1 {
        let base = std::env::var("VERIF_DIR").unwrap_or_else(|_| "/verif".into());
        let d = std::path::PathBuf::from(base).join(format!("harness/run/sort-{}-{}", std::process::id(), CASE_NO.fetch_add(1, std::sync::atomic::Ordering::SeqCst)));
        std::fs::create_dir_all(&d).ok();
        dir = Some(d);
    }
    // setters applied in the order given by the case: the configuration must not depend on it
    let mut b = ExternalSorterBuilder::new();
    for k in permutation4(c.border) {
        b = match k {
            0 => b.with_chunk_size(c.chunk),
            1 => b.num_threads(c.threads),
            2 => if let Some(l) = c.comp { b.with_compression(l) } else { b },
            _ => match &dir {
                Some(d) if env_mode(c) == 1 => { std::env::set_current_dir(d.parent().unwrap()).ok(); b.with_tmp_dir(d.file_name().unwrap()) }
                Some(d) => b.with_tmp_dir(d),
                None => b,
            },
        };
    }
    (b, dir)
}

fn emit<T>(it: Result<impl ExactSizeIterator<Item = Result<T, ExternalChunkError>>, bed_utils::extsort::SortError>, key: impl Fn(&T) -> Vec<u64>, dig: impl Fn(&T) -> Vec<u8>) -> String {
    match it {
        Err(_) => "sorterr".to_string(),
        Ok(mut it) => {
            let len = it.len();
            let mut w = W::new();
            w.n(len);
            let mut items: Vec<Option<T>> = vec![];
            while let Some(x) = it.next() { items.push(x.ok()); if items.len() > 10_000_000 { break; } }
            w.n(items.len());
            for x in &items { match x { Some(x) => { w.s("o"); put_sitem(&mut w, &(key(x), dig(x))); } None => { w.s("e").n(1); } } }
            w.join()
        }
    }
}

/// reuse mode of a case = (border / 24) % 3. 0: one sort per sorter. 1: the observed sort is the FIRST of
/// two on one sorter; the second (every second record, reversed order) runs and is drained while the first
/// result is still unread. 2: the observed sort is the SECOND; the first result, unread so far, is
/// drained afterwards. `sort(&self)` lends the sorter, so every call must meet the property on its own.
/// 3: one sort, and the sorter is dropped BEFORE the first item of the result is read (the returned iterator does
/// not borrow the sorter, so this order is legal: `let it = builder.build()?.sort(xs)?;`).
fn reuse_mode(c: &C) -> u64 { CONCURRENT.with(|f| f.set((c.border / 288) % 2 == 1)); (c.border / 24) % 4 }
thread_local! { static CONCURRENT: std::cell::Cell<bool> = std::cell::Cell::new(false); }

fn sort_reusing<T, F>(sorter: bed_utils::extsort::ExternalSorter, xs: Vec<T>, cmp: F, mode: u64, key: impl Fn(&T) -> Vec<u64>, dig: impl Fn(&T) -> Vec<u8>) -> String
where T: Serialize + DeserializeOwned + Send + Clone, F: Fn(&T, &T) -> std::cmp::Ordering + Sync + Send + Copy {
    // the other sort gets a different input (every second record, reversed): were the two sorts to share
    // anything on disk, the observed one would lose or gain records
    let mut other: Vec<T> = xs.iter().step_by(2).cloned().collect();
    other.reverse();
    match mode {
        1 if CONCURRENT.with(|c| c.get()) => {
            // the two sorts run at the same time on one sorter (`sort_by` takes `&self` and the sorter is `Sync`)
            let sref = &sorter;
            let first = std::thread::scope(|sc| {
                let h = sc.spawn(move || { if let Ok(second) = sref.sort_by(other, cmp) { for _ in second {} } });
                let first = sref.sort_by(xs, cmp);
                let _ = h.join();
                first
            });
            emit(first, key, dig)
        }
        1 => {
            let first = sorter.sort_by(xs, cmp);
            if let Ok(second) = sorter.sort_by(other, cmp) { for _ in second {} }
            emit(first, key, dig)
        }
        2 => {
            let first = sorter.sort_by(other, cmp);
            let out = emit(sorter.sort_by(xs, cmp), key, dig);
            if let Ok(first) = first { for _ in first {} }
            out
        }
        3 => {
            let it = sorter.sort_by(xs, cmp);
            drop(sorter);
            emit(it, key, dig)
        }
        _ => emit(sorter.sort_by(xs, cmp), key, dig),
    }
}

fn run_real<T: Serialize + DeserializeOwned + Send + BEDLike + Clone + Fields>(c: &C) -> Option<String> {
    let recs: Vec<T> = c.xs.iter().map(|x| de::<T>(&x.1)).collect::<Option<Vec<T>>>()?;
    let (b, dir) = builder(c);
    let sorter = b.build().ok()?;
    after_build(c);
    let rev = c.rev;
    let out = sort_reusing(sorter, recs, move |a: &T, b: &T| if rev { b.compare(a) } else { a.compare(b) }, reuse_mode(c), |x| rec_key(x), |x| ser(x));
    if let Some(d) = dir { std::fs::remove_dir_all(d).ok(); }
    Some(out)
}

/// a chunk size that large may make the sorter ask for memory it cannot get: an allocation failure aborts
/// the process, so such cases run in a child of the harness
fn exec(t: &[String]) -> Option<String> {
    let c = dec(t)?;
    if c.chunk >= 1 << 28 || env_mode(&c) != 0 { return Some(crate::runner::run_in_child("C01", t, &[])); }
    exec_here(t)
}
fn child(t: &[String]) -> String {
    match std::panic::catch_unwind(|| exec_here(t)) { Ok(Some(s)) => s, Ok(None) => "abort".into(), Err(_) => "panic".into() }
}
fn exec_here(t: &[String]) -> Option<String> {
    let c = dec(t)?;
    match c.ty.as_str() {
        "kv" => {
            let (b, dir) = builder(&c);
            let sorter = b.build().ok()?;
            after_build(&c);
            let out = sort_reusing(sorter, c.xs.clone(), cmp_key(c.rev), reuse_mode(&c), |x: &SItem| x.0.clone(), |x: &SItem| x.1.clone());
            if let Some(d) = dir { std::fs::remove_dir_all(d).ok(); }
            Some(out)
        }
        "gr" if !c.rev && reuse_mode(&c) == 0 => {
            // `sort` with the derived Ord of GenomicRange
            let recs: Vec<GenomicRange> = c.xs.iter().map(|x| de::<GenomicRange>(&x.1)).collect::<Option<Vec<_>>>()?;
            let (b, dir) = builder(&c);
            let sorter = b.build().ok()?;
            after_build(&c);
            let out = emit(sorter.sort(recs), |x| rec_key(x), |x| ser(x));
            drop(sorter);
            if let Some(d) = dir { std::fs::remove_dir_all(d).ok(); }
            Some(out)
        }
        "gr" => run_real::<GenomicRange>(&c),
        "bed6" => run_real::<BED<6>>(&c),
        // BED<N> for small N carrying name / score / strand all the same (`BED::new` and the public fields allow it), BED<12>
        "bed3" => run_real::<BED<3>>(&c),
        "bed4" => run_real::<BED<4>>(&c),
        "bed5" => run_real::<BED<5>>(&c),
        "bed12" => run_real::<BED<12>>(&c),
        "np" => run_real::<NarrowPeak>(&c),
        "bg" => run_real::<BedGraph<f64>>(&c),
        _ => None,
    }
}

fn shrink(t: &[String]) -> Vec<Vec<String>> {
    let Some(c) = dec(t) else { return vec![] };
    let mut out = vec![];
    for xs in shrink_vec(&c.xs) { out.push(C { xs, ..c.clone() }); }
    for ch in shrink_u64(c.chunk as u64) { out.push(C { chunk: ch as usize, ..c.clone() }); }
    if c.threads > 1 { out.push(C { threads: 1, ..c.clone() }); }
    if c.comp.is_some() { out.push(C { comp: None, ..c.clone() }); }
    if c.tmp { out.push(C { tmp: false, ..c.clone() }); }
    if c.ty == "kv" { for i in 0..c.xs.len() { if c.xs[i].1.len() > 2 { let mut d = c.clone(); d.xs[i].1.truncate(2); out.push(d); } } }
    out.into_iter().filter(valid).map(|c| enc(&c)).collect()
}

fn real_items(rng: &mut Rng, ty: &str, n: usize) -> Vec<SItem> {
    let chroms = ["chr1", "chr2", "chr10", "chr", "chrX"];
    (0..n).map(|_| {
        let chrom = rng.pick(&chroms[..]).to_string();
        let start = rng.below(40);
        let end = start + rng.below(10);
        match ty {
            "gr" => { let g = GenomicRange::new(chrom, start, end); (rec_key(&g), ser(&g)) }
            "bed3" | "bed4" | "bed5" | "bed12" => {
                let x = gen_wf(rng, Ty::Bed(6));
                let name = if rng.chance(2, 3) { x.name.clone().or(Some("nm".into())) } else { None };
                let score = if rng.chance(2, 3) { Score::try_from(x.score.unwrap_or(7)).ok() } else { None };
                let strand = match rng.below(3) { 0 => None, 1 => Some(Strand::Forward), _ => Some(Strand::Reverse) };
                let of = OptionalFields::from(if rng.chance(1, 2) { vec!["1000".to_string(), "5000".into(), "0".into(), "2".into(), "600,400,".into(), "0,3600,".into()] } else { vec![] });
                macro_rules! mk { ($n:literal) => {{ let g: BED<$n> = BED::new(chrom, start, end, name, score, strand, of); (rec_key(&g), ser(&g)) }}; }
                match ty { "bed3" => mk!(3), "bed4" => mk!(4), "bed5" => mk!(5), _ => mk!(12) }
            }
            "bed6" => {
                let x = gen_wf(rng, Ty::Bed(6));
                let g: BED<6> = BED::new(chrom, start, end, x.name.clone(), x.score.map(|s| Score::try_from(s).unwrap()), match x.strand { Some(1) => Some(Strand::Forward), Some(2) => Some(Strand::Reverse), _ => None }, OptionalFields::from(if rng.chance(1, 3) { vec!["opt".to_string(), "x".to_string()] } else { vec![] }));
                (rec_key(&g), ser(&g))
            }
            "np" => {
                let x = gen_wf(rng, Ty::NarrowPeak);
                let g = NarrowPeak { chrom, start, end, name: x.name.clone(), score: x.score.map(|s| Score::try_from(s).unwrap()), strand: None, signal_value: f64::from_bits(x.signal.unwrap()), p_value: x.p.map(f64::from_bits), q_value: x.q.map(f64::from_bits), peak: x.peak.unwrap() };
                (rec_key(&g), ser(&g))
            }
            _ => { let g = BedGraph::new(chrom, start, end, f64::from_bits(super::text::gen_float(rng, true))); (rec_key(&g), ser(&g)) }
        }
    }).collect()
}

/// Sorts through the REAL chunk files (create, dump, reopen, read back: `ExternalChunk::new`, which the fault-injecting
/// seams of C09 bypass) of records that compress extremely well or not at all, with every compression setting: C01 cases,
/// also run and judged (as C01 cases) under C09 — "chunks survive" includes the healthy path through real files.
pub fn real_file_cases(rng: &mut Rng, tier: Tier) -> Vec<Vec<String>> {
    let mut out = vec![];
    let reps = match tier { Tier::Quick => 1, Tier::Thorough => 4 };
    for _ in 0..reps {
        for comp in [None, Some(0u32), Some(1), Some(4), Some(9), Some(16)] {
            for shape in 0..4u64 {
                let n = rng.range(2, 9) as usize;
                let xs: Vec<SItem> = (0..n).map(|i| {
                    let len = match shape { 0 => 4096, 1 => if i == 0 { 200_000 } else { 30 }, 2 => 70_000, _ => rng.range(1, 600) as usize };
                    let payload: Vec<u8> = match shape { 3 => (0..len).map(|_| rng.below(256) as u8).collect(), 0 => (0..len).map(|j| if j % 2 == 0 { b'A' } else { b'C' }).collect(), _ => vec![b'N'; len] };
                    (vec![rng.below(5)], payload)
                }).collect();
                let chunk = match rng.below(3) { 0 => 1, 1 => n, _ => rng.range(1, n as u64) as usize };
                let c = C { rev: false, chunk, threads: 1 + rng.below(3) as usize, comp, tmp: rng.chance(1, 2), ty: "kv".into(), border: rng.below(24), xs };
                if valid(&c) { out.push(enc(&c)); }
            }
        }
    }
    out
}
pub fn exec_tokens(t: &[String]) -> Option<String> { exec(t) }

fn gen(rng: &mut Rng, tier: Tier) -> Vec<Case> {
    let mut out = vec![];
    let mut push = |stream: &str, c: C| { if valid(&c) { out.push(Case::new(stream, enc(&c))); } };
    let comps = [None, Some(0u32), Some(1), Some(4), Some(9), Some(16)];
    let threads = [1usize, 2, 3, 8, 16];
    let kv = |rng: &mut Rng, n: usize, shape: u64| -> Vec<SItem> {
        let mut v: Vec<SItem> = (0..n).map(|i| {
            let key = match shape { 0 => i as u64, 1 => (n - i) as u64, 2 => 7, 3 => rng.below(3), _ => rng.below(1000) };
            (vec![key], (i as u32).to_be_bytes().to_vec())
        }).collect();
        if shape == 5 && !v.is_empty() { let i = rng.below(v.len() as u64) as usize; v[i].1 = vec![0xAB; 9000]; let j = rng.below(v.len() as u64) as usize; if j != i { v[j].1 = vec![0xCD; 70000]; } }
        v
    };
    // boundary: lengths around multiples of the chunk size
    let reps = match tier { Tier::Quick => 1, Tier::Thorough => 6 };
    for _ in 0..reps {
        for c in [0usize, 1, 2, 3, 7, 64] {
            for k in 0..=4usize {
                for d in [-1i64, 0, 1] {
                    let n = (k as i64 * c.max(1) as i64 + d).max(0) as usize;
                    if n > 300 { continue; }
                    let shape = rng.below(6);
                    push("boundary", C { rev: rng.chance(1, 4), chunk: c, threads: *rng.pick(&threads), comp: *rng.pick(&comps), tmp: rng.chance(1, 2), ty: "kv".into(), border: rng.below(24) + 24 * (if rng.chance(1, 3) { rng.range(1, 3) } else { 0 }), xs: kv(rng, n, shape) });
                }
            }
        }
        for n in [0usize, 1, 2, 5, 50] {
            for c in [n, n + 1, 1_000_000, 1 << 33, 1 << 40, usize::MAX / 16, usize::MAX] { let shape = rng.below(6); push("boundary", C { rev: false, chunk: c, threads: *rng.pick(&threads), comp: *rng.pick(&comps), tmp: rng.chance(1, 2), ty: "kv".into(), border: rng.below(24) + 24 * (if rng.chance(1, 3) { rng.range(1, 3) } else { 0 }), xs: kv(rng, n, shape) }); }
        }
    }
    // the process environment changes between build() and the sort (relative tmp dir + chdir; TMPDIR gone)
    for i in 0..(match tier { Tier::Quick => 8, Tier::Thorough => 60 }) {
        let n = rng.range(3, 40) as usize;
        let shape = rng.below(5);
        push("environment", C { rev: false, chunk: rng.range(1, 9) as usize, threads: *rng.pick(&threads), comp: *rng.pick(&comps), tmp: i % 4 != 3, ty: "kv".into(), border: rng.below(96) + 96 * (1 + (i % 2)), xs: kv(rng, n, shape) });
    }
    // two sorts at the same time on one sorter
    for _ in 0..(match tier { Tier::Quick => 6, Tier::Thorough => 60 }) {
        let n = rng.range(3, 200) as usize;
        let shape = rng.below(6);
        push("concurrent", C { rev: rng.chance(1, 4), chunk: rng.range(1, 40) as usize, threads: *rng.pick(&threads), comp: *rng.pick(&comps), tmp: rng.chance(1, 2), ty: "kv".into(), border: rng.below(24) + 24 + 288, xs: kv(rng, n, shape) });
    }
    for t in real_file_cases(rng, tier) { if let Some(c) = dec(&t) { push("real-files", c); } }
    let nr = match tier { Tier::Quick => 120, Tier::Thorough => 1500 };
    for _ in 0..nr {
        let ty = *rng.pick(&["kv", "gr", "bed6", "np", "bg", "bed3", "bed4", "bed5", "bed12"]);
        let n = rng.range(0, 400) as usize;
        let chunk = match rng.below(4) { 0 => (n / 3).max(2), 1 => n.max(2), 2 => 1000, _ => rng.range(2, 60) as usize };
        let shape = rng.below(6);
        let xs = if ty == "kv" { kv(rng, n, shape) } else { real_items(rng, ty, n) };
        push("random", C { rev: rng.chance(1, 4), chunk, threads: *rng.pick(&threads), comp: *rng.pick(&comps), tmp: rng.chance(1, 2), ty: ty.into(), border: rng.below(24) + 24 * (if rng.chance(1, 3) { rng.range(1, 3) } else { 0 }), xs });
    }
    // rayon's parallel quicksort path starts above 2000 elements per run: a few such inputs in every tier
    for (n, chunk, th) in [(5_000usize, 2_500usize, 8usize), (4_100, 4_100, 3)] {
        let xs: Vec<SItem> = (0..n).map(|i| (vec![rng.below(700)], (i as u32).to_be_bytes().to_vec())).collect();
        push("parallel-sort", C { rev: rng.chance(1, 2), chunk, threads: th, comp: Some(4), tmp: true, ty: "kv".into(), border: rng.below(24) + 24 * (if rng.chance(1, 3) { rng.range(1, 3) } else { 0 }), xs });
    }
    // many runs: more than 2^8 of them (a fan-in limit, an intermediate merge pass, a u8 run counter); <= 700 because every
    // run is an open file
    for (n, chunk) in [(300usize, 1usize), (521, 2), (700, 1)] {
        let xs: Vec<SItem> = (0..n).map(|i| (vec![rng.below(90)], (i as u32).to_be_bytes().to_vec())).collect();
        push("many-runs", C { rev: rng.chance(1, 2), chunk, threads: *rng.pick(&threads), comp: *rng.pick(&comps), tmp: rng.chance(1, 2), ty: "kv".into(), border: rng.below(24), xs });
    }
    if tier == Tier::Thorough {
        // large enough for par_sort_unstable_by to take its parallel path
        // (rayon's parallel quicksort starts above 2000 elements; the model's run formation is quadratic in the chunk size)
        for (n, chunk) in [(30_000usize, 5_000usize), (24_000, 12_000), (9_000, 3_000)] {
            let xs: Vec<SItem> = (0..n).map(|i| (vec![rng.below(5000)], (i as u32).to_be_bytes().to_vec())).collect();
            push("large", C { rev: false, chunk, threads: 8, comp: Some(1), tmp: true, ty: "kv".into(), border: 5, xs });
        }
    }
    out
}

pub fn prop() -> PropDef {
    PropDef {
        id: "C01",
        rule: "corpus, then (a) lengths k*c-1, k*c, k*c+1 for chunk sizes c in {0,1,2,3,7,64} and k <= 4, and chunk sizes n, n+1, 1e6, 2^33, 2^40, usize::MAX/16, usize::MAX for n in {0,1,2,5,50} (chunk sizes from 2^28 run in a child process); (b) random inputs of 0-400 records with chunk sizes n/3, n, 1000, 2..60; inputs sorted / reversed / constant key / 3 keys (many ties) / random / with a 9 KiB and a 70 KiB record; record types (key,payload) compared by key only or reversed, GenomicRange (sort with its Ord, and sort_by), BED<6> with optional fields, NarrowPeak with float fields, BedGraph<f64>; threads in {1,2,3,8,16}, compression in {none,0,1,4,9,16}, explicit or default tmp dir; in a third of the cases the sorter is used for two sorts and the observed one is the first (second sort run and drained while the first result is unread) or the second (first result drained afterwards), or the sorter is dropped before the first item of its result is read; a few pairs of sorts running at the same time on one sorter; a few sorts in a child process whose environment changes between build() and the sort (tmp dir given as a relative path and the working directory changed; TMPDIR pointing to a missing directory); thorough adds inputs of 9e3 to 3e4 records in chunks of 3e3 to 1.2e4 (above rayon's sequential cut-off of 2000). three sorts of 300-700 records in runs of 1-2 records (more than 2^8 runs); the number of runs is kept <= 700 (every run is an open file). Non-trivial: >= 2 records and (>= 2 runs or a tie under the comparator). Distinct = distinct input token sequence.",
        observable: "initial len() and the item sequence as (comparator key, full bincode serialisation) or error items; ties compared as classes",
        gen, exec, shrink, child: Some(child),
    }
}
