//! C02: GIntervalMap lookup returns exactly the overlapping records.
use super::common::*;
use crate::rng::Rng;
use crate::runner::{Case, PropDef, Tier};
use crate::tok::{R, W};
use bed_utils::bed::map::GIntervalMap;
use bed_utils::bed::BEDLike;

#[derive(Clone)]
struct C { bulk: Vec<(Rec, u64)>, ins: Vec<(Rec, u64)>, qs: Vec<Rec> }

fn enc(c: &C) -> Vec<String> {
    let mut w = W::new();
    w.n(c.bulk.len());
    for (r, v) in &c.bulk { r.put(&mut w); w.n(*v); }
    w.n(c.ins.len());
    for (r, v) in &c.ins { r.put(&mut w); w.n(*v); }
    w.n(c.qs.len());
    for q in &c.qs { q.put(&mut w); }
    w.0
}

fn dec(t: &[String]) -> Option<C> {
    let (t, _) = split_flavour(t);
    let mut r = R::new(t);
    let bulk = r.list(|r| Some((Rec::get(r)?, r.u64()?)))?;
    let ins = r.list(|r| Some((Rec::get(r)?, r.u64()?)))?;
    let qs = r.list(Rec::get)?;
    Some(C { bulk, ins, qs })
}

fn valid(c: &C) -> bool { c.qs.iter().all(|q| q.start < q.end) }

fn exec(t: &[String]) -> Option<String> {
    let c = dec(t)?;
    let fl = split_flavour(t).1;
    // records and queries carried by the flavour's BEDLike implementor (the map keys on chrom/start/end only)
    let bulk_recs: Vec<Rec> = c.bulk.iter().map(|x| x.0.clone()).collect();
    let mut m: GIntervalMap<u64> = crate::with_bedlikes!(fl, &bulk_recs, |xs| xs.into_iter().zip(c.bulk.iter().map(|x| x.1)).collect());
    for (i, (r, v)) in c.ins.iter().enumerate() {
        crate::with_bedlike!(rot_flavour(fl, i), r, |x| m.insert(&x, *v));
        // read-only calls between inserts (results discarded) must not influence any later answer
        if i % 2 == 0 { if let Some(q) = c.qs.get(i % c.qs.len().max(1)) { let q = q.gr(); let _ = m.is_overlapped(&q); let _ = m.find(&q).count(); let _ = m.len(); } }
    }
    let mut w = W::new();
    w.n(m.len());
    let mode = mode_of(t);
    let it: Vec<_> = drain_mode(m.iter(), mode);
    w.n(it.len());
    for (g, v) in it { put_gr(&mut w, &g); w.n(*v); }
    w.n(c.qs.len());
    for (i, q) in c.qs.iter().enumerate() {
        crate::with_bedlike!(rot_flavour(fl, i), q, |q| {
            w.flag(m.is_overlapped(&q));
            let f: Vec<_> = drain_mode(m.find(&q), mode + i as u64);
            w.n(f.len());
            for (g, v) in f { w.b(g.chrom().as_bytes()).n(g.start()).n(g.end()).n(*v); }
        });
    }
    Some(w.join())
}

fn shrink(t: &[String]) -> Vec<Vec<String>> { shrink_flavoured(t, shrink0) }
fn shrink0(t: &[String]) -> Vec<Vec<String>> {
    let Some(c) = dec(t) else { return vec![] };
    let mut out = vec![];
    for qs in shrink_vec(&c.qs) { if !qs.is_empty() { out.push(C { qs, ..c.clone() }); } }
    for bulk in shrink_vec(&c.bulk) { out.push(C { bulk, ..c.clone() }); }
    for ins in shrink_vec(&c.ins) { out.push(C { ins, ..c.clone() }); }
    // move an insert into the bulk load
    if !c.ins.is_empty() { let mut d = c.clone(); let x = d.ins.remove(0); d.bulk.push(x); out.push(d); }
    // shift everything towards zero
    let min = c.bulk.iter().chain(c.ins.iter()).map(|x| x.0.start).chain(c.qs.iter().map(|q| q.start)).min().unwrap_or(0);
    if min > 0 {
        for d in [min, min / 2, 1] {
            if d == 0 { continue; }
            let mut e = c.clone();
            for x in e.bulk.iter_mut().chain(e.ins.iter_mut()) { x.0.start -= d; x.0.end -= d; }
            for q in e.qs.iter_mut() { q.start -= d; q.end -= d; }
            out.push(e);
        }
    }
    let nb = c.bulk.len();
    for i in 0..nb + c.ins.len() {
        let edit = |f: &dyn Fn(&mut Rec) -> bool| -> Option<C> {
            let mut d = c.clone();
            let r = if i < nb { &mut d.bulk[i].0 } else { &mut d.ins[i - nb].0 };
            if f(r) { Some(d) } else { None }
        };
        if let Some(d) = edit(&|r| if r.end > r.start + 1 { r.end = r.start + (r.end - r.start) / 2; true } else { false }) { out.push(d); }
        if let Some(d) = edit(&|r| if r.chrom != "c" { r.chrom = "c".into(); true } else { false }) { out.push(d); }
    }
    for i in 0..c.qs.len() {
        let mut d = c.clone();
        if d.qs[i].chrom != "c" { d.qs[i].chrom = "c".into(); out.push(d); }
    }
    out.into_iter().filter(valid).map(|c| enc(&c)).collect()
}

fn queries_around(rng: &mut Rng, recs: &[(Rec, u64)], chroms: &[&str], cap: usize) -> Vec<Rec> {
    let mut qs = vec![];
    for ch in chroms {
        let pts: Vec<u64> = recs.iter().filter(|r| r.0.chrom == *ch).flat_map(|r| [r.0.start, r.0.end]).collect();
        let a = around(&pts);
        for &s in &a { for &e in &a { if s < e { qs.push(Rec::new(ch, s, e)); } } }
    }
    rng.shuffle(&mut qs);
    qs.truncate(cap);
    qs
}

fn split_history(rng: &mut Rng, recs: Vec<(Rec, u64)>) -> (Vec<(Rec, u64)>, Vec<(Rec, u64)>) {
    let mode = rng.below(6);
    let k = match mode { 0 => recs.len(), 1 => 0, _ => rng.below(recs.len() as u64 + 1) as usize };
    let bulk = recs[..k].to_vec();
    let mut ins = recs[k..].to_vec();
    match rng.below(3) {
        0 => ins.sort_by_key(|x| (x.0.start, x.0.end)),
        1 => { ins.sort_by_key(|x| (x.0.start, x.0.end)); ins.reverse(); }
        _ => rng.shuffle(&mut ins),
    }
    (bulk, ins)
}

fn gen(rng: &mut Rng, tier: Tier) -> Vec<Case> {
    let mut out = vec![];
    let (nb, nr) = match tier { Tier::Quick => (250, 120), Tier::Thorough => (4000, 1500) };
    // boundary-directed: small structures, all queries around the endpoints
    for _ in 0..nb {
        let nch = rng.range(1, 3) as usize;
        let chroms: Vec<&str> = gen_chroms(rng, nch);
        let n = rng.range(0, 7) as usize;
        let ivs = gen_intervals(rng, n, 24, true);
        let recs: Vec<(Rec, u64)> = ivs.iter().enumerate().map(|(i, (s, e))| (Rec::new(*rng.pick(&chroms[..]), *s, *e), i as u64)).collect();
        let mut qs = queries_around(rng, &recs, &chroms, 60);
        if rng.chance(1, 3) { qs.push(Rec::new("chrUnknown", 0, 10)); }
        if qs.is_empty() { qs.push(Rec::new(chroms[0], 0, 5)); }
        let (bulk, ins) = split_history(rng, recs);
        out.push(Case::new("boundary", enc(&C { bulk, ins, qs })));
    }
    // random structured: larger sets, one very long record among many short, large coordinates
    for _ in 0..nr {
        let nch = rng.range(1, 4) as usize;
        let chroms: Vec<&str> = gen_chroms(rng, nch);
        let n = rng.range(2, 120) as usize;
        let big = rng.chance(1, 4);
        let base = if big { u64::MAX - 4000 } else if rng.chance(1, 3) { rng.below(1 << 40) } else { 0 };
        let mut recs: Vec<(Rec, u64)> = vec![];
        for i in 0..n {
            let s = base + rng.below(3000);
            let len = if rng.chance(1, 20) { rng.below(3000) } else { rng.below(40) };
            let e = s.saturating_add(len);
            recs.push((Rec::new(*rng.pick(&chroms[..]), s, e), i as u64));
        }
        if rng.chance(1, 2) { let ch = *rng.pick(&chroms); recs.push((Rec::new(ch, base, base.saturating_add(3900)), n as u64)); }
        if big { recs.push((Rec::new(chroms[0], u64::MAX - 1, u64::MAX), n as u64 + 1)); recs.push((Rec::new(chroms[0], 0, u64::MAX), n as u64 + 2)); }
        let mut qs = queries_around(rng, &recs, &chroms, 25);
        for _ in 0..10 {
            let s = base + rng.below(3500);
            let e = s.saturating_add(rng.range(1, 300));
            if s < e { qs.push(Rec::new(*rng.pick(&chroms[..]), s, e)); }
        }
        if big { qs.push(Rec::new(chroms[0], u64::MAX - 1, u64::MAX)); qs.push(Rec::new(chroms[0], 0, u64::MAX)); qs.push(Rec::new(chroms[0], 0, 1)); }
        let (bulk, ins) = split_history(rng, recs);
        out.push(Case::new("random", enc(&C { bulk, ins, qs })));
    }
    if tier == Tier::Thorough {
        // BLOCKS: a few hundred records on one chromosome, long records sitting (in start order) just before a multiple of a
        // power-of-two block size 2^4..2^8, then ONE or two inserts in front of them (every later record moves one place up,
        // across the block boundary), queries deep inside the long records — a per-block summary maintained on insert shows here
        for rep in 0..12u64 {
            let n = *rng.pick(&[100usize, 200, 300, 600]);
            let mut seams: Vec<u64> = vec![];
            for b in [16u64, 32, 64, 128, 256] { for k in 1..4u64 { if k * b + 5 < n as u64 { seams.push(k * b - 1 - (rep % 2)); } } }
            seams.sort(); seams.dedup();
            let mut recs: Vec<(Rec, u64)> = vec![];
            let mut qs: Vec<Rec> = vec![];
            let mut short = 0u64;
            for i in 0..n as u64 {
                if seams.binary_search(&i).is_ok() {
                    let s = 100 + 10 * short - 2;
                    let e = s + 10 * rng.range(8, 30);
                    recs.push((Rec::new("chr1", s, e), i));
                    qs.push(Rec::new("chr1", e - 7, e - 3));
                    qs.push(Rec::new("chr1", s + 40, s + 41));
                } else { recs.push((Rec::new("chr1", 100 + 10 * short, 100 + 10 * short + 3), i)); short += 1; }
            }
            let ins: Vec<(Rec, u64)> = (0..1 + rep % 2).map(|j| (Rec::new("chr1", 5 + j, 9 + j), 100_000 + j)).collect();
            qs.truncate(60);
            out.push(Case::new("blocks", enc(&C { bulk: recs, ins, qs })));
        }
    }
    add_flavours(rng, &mut out);
    out
}

pub fn prop() -> PropDef {
    PropDef {
        id: "C02",
        rule: "corpus, then boundary-directed cases (0-7 records on 1-3 chromosomes, coordinates 0..24+, every query with endpoints in {e-1,e,e+1 : e a record endpoint} ∪ {0}), then random structured cases (2-120 records, optional very long record, coordinates up to u64::MAX); each case = bulk load + inserts (any split, ascending/descending/random insert order) + up to 60 queries. Non-trivial: >= 2 records and some query has a hit and a non-hit on its chromosome. Distinct = distinct input token sequence.",
        observable: "GIntervalMap::{len,iter,is_overlapped,find} as sorted multisets",
        gen, exec, shrink, child: None,
    }
}
