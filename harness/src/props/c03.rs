//! C03: BED text formats round-trip and follow the standard column layout.
use super::common::*;
use super::text::*;
use crate::rng::Rng;
use crate::runner::{Case, PropDef, Tier};
use crate::tok::{R, W};
use bed_utils::bed::{GenomicRange, Score};

fn enc(ty: Ty, x: &TRec) -> Vec<String> {
    let mut w = W::new();
    w.n(ty.code());
    x.put(&mut w);
    let fl = x.floats();
    put_rtab(&mut w, &fl);
    let texts: Vec<String> = fl.iter().map(|b| format!("{}", f64::from_bits(*b))).collect();
    let refs: Vec<&str> = texts.iter().map(|s| s.as_str()).collect();
    put_ptab(&mut w, &refs);
    w.0
}
fn dec(t: &[String]) -> Option<(Ty, TRec)> { let mut r = R::new(t); Some((Ty::from(r.u64()?)?, TRec::get(&mut r)?)) }

fn exec(t: &[String]) -> Option<String> {
    if t.first().map(|s| s.as_str()) == Some("score") {
        let n: u32 = t.get(1)?.parse().ok()?;
        let mut w = W::new();
        match Score::try_from(n) { Ok(s) => { w.n(1).n(u16::from(s)); } Err(_) => { w.n(0); } }
        match n.to_string().parse::<Score>() { Ok(s) => { w.n(1).n(u16::from(s)); } Err(_) => { w.n(0); } }
        w.b(n.to_string().as_bytes());
        return Some(w.join());
    }
    let (ty, x) = dec(t)?;
    let text = to_text(ty, &x);
    let mut w = W::new();
    w.b(text.as_bytes());
    put_pres(&mut w, ty, &text);
    if ty == Ty::Gr {
        let p = GenomicRange::new(x.chrom.clone(), x.start, x.end).pretty_show();
        w.n(1).b(p.as_bytes());
        put_pres(&mut w, ty, &p);
    } else { w.n(0); }
    Some(w.join())
}

fn shrink(t: &[String]) -> Vec<Vec<String>> {
    if t.first().map(|s| s.as_str()) == Some("score") { return vec![]; }
    let Some((ty, x)) = dec(t) else { return vec![] };
    let mut out = vec![];
    let mut push = |y: TRec| out.push(enc(ty, &y));
    if x.chrom != "c" { push(TRec { chrom: "c".into(), ..x.clone() }); }
    for s in shrink_u64(x.start) { push(TRec { start: s, ..x.clone() }); }
    for e in shrink_u64(x.end) { push(TRec { end: e, ..x.clone() }); }
    if let Some(n) = &x.name { if n != "n" { push(TRec { name: Some("n".into()), ..x.clone() }); } }
    if matches!(ty, Ty::Bed(_)) {
        if x.name.is_some() { push(TRec { name: None, ..x.clone() }); }
        if x.score.is_some() { push(TRec { score: None, ..x.clone() }); }
        if x.strand.is_some() { push(TRec { strand: None, ..x.clone() }); }
    }
    for (i, fl) in [x.signal, x.p, x.q].iter().enumerate() {
        if let Some(b) = fl { if *b != 1.0f64.to_bits() { let mut y = x.clone(); match i { 0 => y.signal = Some(1.0f64.to_bits()), 1 => y.p = Some(1.0f64.to_bits()), _ => y.q = Some(1.0f64.to_bits()) } push(y); } }
    }
    out
}

fn gen(rng: &mut Rng, tier: Tier) -> Vec<Case> {
    let mut out = vec![];
    let reps = match tier { Tier::Quick => 120, Tier::Thorough => 3000 };
    for ty in Ty::ALL {
        for _ in 0..reps { out.push(Case::new("random", enc(ty, &gen_wf(rng, ty)))); }
        // all 2^3 presence combinations of name / score / strand for BED6
        if ty == Ty::Bed(6) {
            for m in 0..8u8 {
                let x = TRec { chrom: "chr1".into(), start: 0, end: u64::MAX, name: if m & 1 != 0 { Some("n".into()) } else { None }, score: if m & 2 != 0 { Some(1000) } else { None }, strand: if m & 4 != 0 { Some(2) } else { None }, ..Default::default() };
                out.push(Case::new("boundary", enc(ty, &x)));
            }
        }
    }
    for n in [0u32, 1, 999, 1000, 1001, 65535, 65536, u32::MAX - 1, u32::MAX].into_iter().chain((0..match tier { Tier::Quick => 40, Tier::Thorough => 2000 }).map(|_| rng.next() as u32 >> rng.below(32))) {
        out.push(Case::new("boundary", vec!["score".into(), n.to_string()]));
    }
    out
}

pub fn prop() -> PropDef {
    PropDef {
        id: "C03",
        rule: "corpus, then records the text format can carry, for each of the 9 record types: chrom/name from a pool with spaces, empty strings and non-ASCII (no TAB/CR/LF; no ':' '-' for GenomicRange; name never '.'), start/end in {0, u64::MAX, random u64, < 1e6}, every presence combination of name/score/strand, scores 0/1000/random, signal values 0, -0, inf, subnormal, 1e300, random non-NaN bit patterns, p/q absent or >= 0, i64 extremes for BedGraph<i64>; plus Score::try_from / from_str for u32 values around 1000 and up to u32::MAX. Non-trivial: an optional column is present or the type has a float column. Distinct = distinct input token sequence.",
        observable: "to_string() bytes, parse::<T>() of that text, and for GenomicRange pretty_show() and its parse; Score::try_from(n), n.to_string().parse::<Score>()",
        gen, exec, shrink, child: None,
    }
}
