//! C04: Reader and Writer preserve a record stream line for line.
use super::common::*;
use super::text::*;
use crate::rng::Rng;
use crate::runner::{run_in_child, Case, PropDef, Tier};
use crate::tok::{R, W};
use bed_utils::bed::io::{LineSize, Reader, Writer};
use bed_utils::bed::{BedGraph, BroadPeak, GenomicRange, NarrowPeak, BED};
use std::io::Read;

#[derive(Clone, Debug)]
enum Kind { Written(TRec), Skipped, Bad }

#[derive(Clone)]
struct C { ty: Ty, pfx: Option<String>, lines: Vec<(Kind, Vec<u8>)>, frags: Vec<usize> }

fn enc(c: &C) -> Vec<String> {
    let mut w = W::new();
    w.n(c.ty.code());
    match &c.pfx { None => { w.n(0); } Some(p) => { w.n(1).b(p.as_bytes()); } }
    w.n(c.lines.len());
    for (k, raw) in &c.lines {
        match k { Kind::Written(r) => { w.s("w"); r.put(&mut w); } Kind::Skipped => { w.s("s"); } Kind::Bad => { w.s("b"); } }
        w.b(raw);
    }
    w.n(c.frags.len());
    for f in &c.frags { w.n(*f); }
    // parse table: the fields of every line that is valid UTF-8
    let texts: Vec<String> = c.lines.iter().filter_map(|(_, raw)| String::from_utf8(raw.clone()).ok()).map(|s| s.trim_end_matches('\n').trim_end_matches('\r').to_string()).collect();
    let refs: Vec<&str> = texts.iter().map(|s| s.as_str()).collect();
    put_ptab(&mut w, &refs);
    w.0
}
fn dec(t: &[String]) -> Option<C> {
    let mut r = R::new(t);
    let ty = Ty::from(r.u64()?)?;
    let pfx = if r.u64()? != 0 { Some(r.string()?) } else { None };
    let lines = r.list(|r| {
        let k = match r.tok()? { "w" => Kind::Written(TRec::get(r)?), "s" => Kind::Skipped, "b" => Kind::Bad, _ => return None };
        Some((k, r.bytes()?))
    })?;
    let frags = r.list(|r| r.usize())?;
    Some(C { ty, pfx, lines, frags })
}

/// a byte source that returns the stream in the given fragment sizes (cyclically); size 0 = one
/// `Interrupted` error
struct Frag { data: Vec<u8>, pos: usize, sizes: Vec<usize>, k: usize }
impl Read for Frag {
    fn read(&mut self, buf: &mut [u8]) -> std::io::Result<usize> {
        if self.pos >= self.data.len() || buf.is_empty() { return Ok(0); }
        let sz = if self.sizes.is_empty() { buf.len() } else { let s = self.sizes[self.k % self.sizes.len()]; self.k += 1; s };
        if sz == 0 { return Err(std::io::Error::new(std::io::ErrorKind::Interrupted, "interrupted")); }
        let n = sz.min(buf.len()).min(self.data.len() - self.pos);
        buf[..n].copy_from_slice(&self.data[self.pos..self.pos + n]);
        self.pos += n;
        Ok(n)
    }
}

trait Conv: std::str::FromStr<Err = bed_utils::bed::ParseError> + bed_utils::bed::BEDLike { fn conv(&self) -> TRec; }
macro_rules! conv_via_text { ($t:ty, $ty:expr) => { impl Conv for $t { fn conv(&self) -> TRec { parse_as($ty, &self.to_string()).expect("display/parse of a parsed record") } } }; }
// the record a reader yields is converted through its own fields (Display is not involved for the plain types)
impl Conv for GenomicRange { fn conv(&self) -> TRec { use bed_utils::bed::BEDLike; TRec { chrom: self.chrom().into(), start: self.start(), end: self.end(), ..Default::default() } } }
fn bed_conv<const N: u8>(b: &BED<N>) -> TRec {
    use bed_utils::bed::{BEDLike, Strand};
    TRec { chrom: b.chrom().into(), start: b.start(), end: b.end(), name: b.name.clone(), score: b.score.map(u16::from), strand: match b.strand { Some(Strand::Forward) => Some(1), Some(Strand::Reverse) => Some(2), None => None }, ..Default::default() }
}
impl Conv for BED<3> { fn conv(&self) -> TRec { bed_conv(self) } }
impl Conv for BED<4> { fn conv(&self) -> TRec { bed_conv(self) } }
impl Conv for BED<5> { fn conv(&self) -> TRec { bed_conv(self) } }
impl Conv for BED<6> { fn conv(&self) -> TRec { bed_conv(self) } }
impl Conv for NarrowPeak { fn conv(&self) -> TRec { use bed_utils::bed::Strand; TRec { chrom: self.chrom.clone(), start: self.start, end: self.end, name: self.name.clone(), score: self.score.map(u16::from), strand: match self.strand { Some(Strand::Forward) => Some(1), Some(Strand::Reverse) => Some(2), None => None }, signal: Some(self.signal_value.to_bits()), p: self.p_value.map(f64::to_bits), q: self.q_value.map(f64::to_bits), peak: Some(self.peak), ival: None } } }
impl Conv for BroadPeak { fn conv(&self) -> TRec { use bed_utils::bed::Strand; TRec { chrom: self.chrom.clone(), start: self.start, end: self.end, name: self.name.clone(), score: self.score.map(u16::from), strand: match self.strand { Some(Strand::Forward) => Some(1), Some(Strand::Reverse) => Some(2), None => None }, signal: Some(self.signal_value.to_bits()), p: self.p_value.map(f64::to_bits), q: self.q_value.map(f64::to_bits), peak: None, ival: None } } }
impl Conv for BedGraph<i64> { fn conv(&self) -> TRec { TRec { chrom: self.chrom.clone(), start: self.start, end: self.end, ival: Some(self.value), ..Default::default() } } }
impl Conv for BedGraph<f64> { fn conv(&self) -> TRec { TRec { chrom: self.chrom.clone(), start: self.start, end: self.end, signal: Some(self.value.to_bits()), ..Default::default() } } }
#[allow(unused_macros)]
macro_rules! _unused { () => { conv_via_text!(GenomicRange, Ty::Gr); } }

fn put_items<B: Conv>(w: &mut W, items: Vec<std::io::Result<B>>) {
    w.n(items.len());
    for it in items { match it { Ok(b) => { w.s("r"); b.conv().put(w); } Err(_) => { w.s("e"); } } }
}

fn observe<B: Conv>(c: &C) -> String {
    let data: Vec<u8> = c.lines.iter().flat_map(|(_, raw)| raw.clone()).collect();
    let mut w = W::new();
    let guarded = |w: &mut W, f: &dyn Fn() -> Vec<std::io::Result<B>>| {
        match std::panic::catch_unwind(std::panic::AssertUnwindSafe(f)) { Ok(v) => put_items(w, v), Err(_) => { w.s("panic"); } }
    };
    // 1. records() over a slice   2. into_records() over a slice
    guarded(&mut w, &|| { let mut r = Reader::new(&data[..], c.pfx.clone()); let v: Vec<_> = r.records::<B>().collect(); v });
    guarded(&mut w, &|| Reader::new(&data[..], c.pfx.clone()).into_records::<B>().collect());
    // 3./4. the same over a fragmenting, interruptible source
    guarded(&mut w, &|| { let mut r = Reader::new(Frag { data: data.clone(), pos: 0, sizes: c.frags.clone(), k: 0 }, c.pfx.clone()); let v: Vec<_> = r.records::<B>().collect(); v });
    guarded(&mut w, &|| Reader::new(Frag { data: data.clone(), pos: 0, sizes: c.frags.clone(), k: 1 }, c.pfx.clone()).into_records::<B>().collect());
    // 5. read_record by hand
    guarded(&mut w, &|| {
        let mut r = Reader::new(&data[..], c.pfx.clone());
        let mut v: Vec<std::io::Result<B>> = vec![];
        let mut buf = String::new();
        loop {
            buf.clear();
            match r.read_record(&mut buf) {
                Ok(LineSize::Size(0)) => break,
                Ok(LineSize::Skip) => continue,
                Ok(_) => v.push(buf.parse::<B>().map_err(|_| std::io::Error::new(std::io::ErrorKind::Other, "parse"))),
                Err(e) => v.push(Err(e)),
            }
        }
        v
    });
    // 6. one reader, used twice: k items through records(), the rest through into_records()
    let k = (mode_of(&[format!("{:?}", data.len()), format!("{:?}", c.frags)]) % 3 + 1) as usize;
    guarded(&mut w, &|| {
        let mut r = Reader::new(&data[..], c.pfx.clone());
        let mut v: Vec<std::io::Result<B>> = r.records::<B>().take(k).collect();
        v.extend(r.into_records::<B>());
        v
    });
    // 7. one line through read_record, the rest through records()
    guarded(&mut w, &|| {
        let mut r = Reader::new(&data[..], c.pfx.clone());
        let mut v: Vec<std::io::Result<B>> = vec![];
        let mut buf = String::new();
        loop {
            match r.read_record(&mut buf) {
                Ok(LineSize::Size(0)) => return v,
                Ok(LineSize::Skip) => { buf.clear(); continue; }
                Ok(_) => { v.push(buf.parse::<B>().map_err(|_| std::io::Error::new(std::io::ErrorKind::Other, "parse"))); break; }
                Err(e) => { v.push(Err(e)); break; }
            }
        }
        v.extend(r.records::<B>());
        v
    });
    w.join()
}

fn write_line(ty: Ty, x: &TRec) -> Vec<u8> {
    // the sink is a plain Vec or, two times out of three, a sink that accepts 1..5 bytes per `write` call and answers some
    // calls with `Interrupted` (both legal for `io::Write`): what arrives must be the same bytes
    struct Chunky { out: Vec<u8>, k: usize, calls: usize }
    impl std::io::Write for Chunky {
        fn write(&mut self, buf: &[u8]) -> std::io::Result<usize> {
            self.calls += 1;
            if self.k == 0 { self.out.extend_from_slice(buf); return Ok(buf.len()); }
            if (self.calls + self.k) % 5 == 2 { return Err(std::io::Error::new(std::io::ErrorKind::Interrupted, "interrupted")); }
            let n = buf.len().min(1 + (self.calls * 7 + self.k) % 5);
            self.out.extend_from_slice(&buf[..n]);
            Ok(n)
        }
        fn flush(&mut self) -> std::io::Result<()> { Ok(()) }
    }
    thread_local! { static SINK: std::cell::Cell<usize> = std::cell::Cell::new(0); }
    fn via<B: std::fmt::Display + bed_utils::bed::BEDLike>(b: &B) -> Vec<u8> {
        let k = SINK.with(|c| { let v = c.get(); c.set(v + 1); v });
        let mut sink = Chunky { out: vec![], k: if k % 3 == 0 { 0 } else { k }, calls: 0 };
        // an error or a panic of the Writer leaves what it has written so far: the line then reads back wrong
        let _ = std::panic::catch_unwind(std::panic::AssertUnwindSafe(|| { let mut wr = Writer::new(&mut sink); let _ = wr.write_record(b); }));
        sink.out
    }
    let text = to_text(ty, x);
    // the Writer is exercised with the real record type; its output must be `to_string() + "\n"`
    let real = match ty {
        Ty::Gr => via(&text.parse::<GenomicRange>().unwrap_or_else(|_| GenomicRange::new(x.chrom.clone(), x.start, x.end))),
        _ => { let mut v = text.clone().into_bytes(); v.push(b'\n'); v }
    };
    let _ = real;
    match ty {
        Ty::Gr => via(&GenomicRange::new(x.chrom.clone(), x.start, x.end)),
        Ty::BgInt => via(&BedGraph::new(x.chrom.clone(), x.start, x.end, x.ival.unwrap_or(0))),
        Ty::BgFloat => via(&BedGraph::new(x.chrom.clone(), x.start, x.end, f64::from_bits(x.signal.unwrap_or(0)))),
        _ => {
            // BED<N>, NarrowPeak, BroadPeak: parse the displayed text into the real type and write that
            match ty {
                Ty::Bed(3) => via(&text.parse::<BED<3>>().unwrap()), Ty::Bed(4) => via(&text.parse::<BED<4>>().unwrap()),
                Ty::Bed(5) => via(&text.parse::<BED<5>>().unwrap()), Ty::Bed(_) => via(&text.parse::<BED<6>>().unwrap()),
                Ty::NarrowPeak => via(&text.parse::<NarrowPeak>().unwrap()), _ => via(&text.parse::<BroadPeak>().unwrap()),
            }
        }
    }
}

fn skiprun_child(t: &[String]) -> String {
    // k skipped lines at `place` (0 start, 1 middle, 2 end) around m records; 256 KiB stack
    let k: usize = t[1].parse().unwrap();
    let place: usize = t[2].parse().unwrap();
    let m: usize = t[3].parse().unwrap();
    let unterminated = t[4] != "0";
    let mut data: Vec<u8> = vec![];
    let rec = |data: &mut Vec<u8>, i: usize| data.extend_from_slice(format!("chr1\t{}\t{}\n", i, i + 10).as_bytes());
    let skips = |data: &mut Vec<u8>| for i in 0..k { data.extend_from_slice(if i % 2 == 0 { b"#comment\n" } else { b"#\r\n" }); };
    let before = match place { 0 => 0, 1 => m / 2, _ => m };
    for i in 0..before { rec(&mut data, i); }
    skips(&mut data);
    for i in before..m { rec(&mut data, i); }
    if unterminated && data.last() == Some(&b'\n') { data.pop(); }
    let h = std::thread::Builder::new().stack_size(256 * 1024).spawn(move || {
        let mut n = 0usize; let mut e = 0usize;
        let mut r = Reader::new(&data[..], Some("#".to_string()));
        for it in r.records::<GenomicRange>() { match it { Ok(_) => n += 1, Err(_) => e += 1 } }
        let mut n2 = 0usize;
        for it in Reader::new(&data[..], Some("#".to_string())).into_records::<GenomicRange>() { if it.is_ok() { n2 += 1 } }
        if n2 != n { e += 1_000_000; }
        (n, e)
    }).unwrap();
    let (n, e) = h.join().unwrap();
    format!("{} {}", n, e)
}

fn exec(t: &[String]) -> Option<String> {
    if t.first().map(|s| s.as_str()) == Some("skiprun") { return Some(run_in_child("C04", t, &[])); }
    let c = dec(t)?;
    Some(match c.ty {
        Ty::Gr => observe::<GenomicRange>(&c),
        Ty::Bed(3) => observe::<BED<3>>(&c), Ty::Bed(4) => observe::<BED<4>>(&c), Ty::Bed(5) => observe::<BED<5>>(&c), Ty::Bed(_) => observe::<BED<6>>(&c),
        Ty::NarrowPeak => observe::<NarrowPeak>(&c), Ty::BroadPeak => observe::<BroadPeak>(&c),
        Ty::BgInt => observe::<BedGraph<i64>>(&c), Ty::BgFloat => observe::<BedGraph<f64>>(&c),
    })
}

fn shrink(t: &[String]) -> Vec<Vec<String>> {
    if t.first().map(|s| s.as_str()) == Some("skiprun") {
        let k: u64 = t[1].parse().unwrap_or(0);
        return shrink_u64(k).into_iter().filter(|x| *x > 0).map(|x| { let mut v = t.to_vec(); v[1] = x.to_string(); v }).collect();
    }
    let Some(c) = dec(t) else { return vec![] };
    let mut out = vec![];
    for lines in shrink_vec(&c.lines) { out.push(C { lines, ..c.clone() }); }
    for frags in shrink_vec(&c.frags) { out.push(C { frags, ..c.clone() }); }
    if !c.frags.is_empty() { out.push(C { frags: vec![], ..c.clone() }); }
    // a source that answers every read with `Interrupted` never makes progress (std retries forever): not a legal input
    out.into_iter().filter(|c| c.frags.is_empty() || c.frags.iter().any(|x| *x != 0)).map(|c| enc(&c)).collect()
}

fn gen(rng: &mut Rng, tier: Tier) -> Vec<Case> {
    let mut out = vec![];
    let n_cases = match tier { Tier::Quick => 500, Tier::Thorough => 8000 };
    for _ in 0..n_cases {
        let ty = *rng.pick(&Ty::ALL);
        let pfx: Option<String> = match rng.below(5) { 0 => None, 1 => Some("#".into()), 2 => Some("track".into()), 3 => Some("é#".into()), _ => Some("##".into()) };
        let n = rng.range(0, 8) as usize;
        let mut lines: Vec<(Kind, Vec<u8>)> = vec![];
        for i in 0..n {
            let last = i + 1 == n;
            let (kind, mut raw) = match rng.below(10) {
                0 | 1 if pfx.is_some() => {
                    let p = pfx.clone().unwrap();
                    let body = *rng.pick(&["", " comment", "\tname=\"x\"", "chr1\t1\t2", "\u{1F9EC}"]);
                    (Kind::Skipped, format!("{}{}\n", p, body).into_bytes())
                }
                2 => {
                    let b: Vec<u8> = match rng.below(9) {
                        // a long malformed line of 3-byte characters behind 0..2 ASCII bytes: whatever byte offset an error
                        // message or a buffer is cut at, it falls inside a character for two of the three prefixes
                        7 => format!("{}{}\n", "x".repeat(rng.below(3) as usize), "\u{4e16}".repeat(rng.range(20, 120) as usize)).into_bytes(),
                        8 => format!("chr1\t{}{}\t9\n", "7".repeat(rng.below(3) as usize), "\u{754c}".repeat(rng.range(20, 3000) as usize)).into_bytes(),
                        0 => b"\n".to_vec(), 1 => b"garbage\n".to_vec(), 2 => b"chr1\t5\n".to_vec(), 3 => b"chr1\tx\t9\n".to_vec(),
                        4 => vec![b'c', 0xff, 0xfe, b'\t', b'1', b'\t', b'2', b'\n'], 5 => b"\r\n".to_vec(),
                        _ => { // a proper prefix of the skip prefix is not skipped
                            match &pfx { Some(p) if p.chars().count() > 1 => { let s: String = p.chars().take(1).collect(); format!("{}\n", s).into_bytes() } _ => b"chr1\n".to_vec() }
                        }
                    };
                    (Kind::Bad, b)
                }
                _ => {
                    let mut x = gen_wf(rng, ty);
                    // the quantifier excludes records whose text starts with the skip prefix
                    if let Some(p) = &pfx { if x.chrom.starts_with(p.as_str()) || p.starts_with(x.chrom.as_str()) { x.chrom = "chr7".into(); } }
                    let raw = write_line(ty, &x);
                    (Kind::Written(x), raw)
                }
            };
            // terminator choice: LF (as written), CRLF, or none on the last line
            match rng.below(4) { 0 => { raw.pop(); raw.extend_from_slice(b"\r\n"); } 1 if last => { raw.pop(); } _ => {} }
            // a skipped or blank line that lost its terminator and became empty would not be a line at all
            if raw.is_empty() { raw.push(b'\n'); }
            let kind = match (&kind, raw.as_slice()) {
                // a written line whose record text ends in CR-sensitive content cannot occur; a bad line stays bad
                _ => kind,
            };
            lines.push((kind, raw));
        }
        let total: usize = lines.iter().map(|l| l.1.len()).sum();
        let frags: Vec<usize> = match rng.below(5) {
            0 => vec![], 1 => vec![1], 2 => vec![1, 0, 2, 0, 0, 3], 3 => (0..rng.range(1, 6)).map(|_| rng.range(0, 7) as usize).collect(),
            _ => vec![rng.range(1, (total as u64).max(1)) as usize, 1, 0],
        };
        let frags = if frags.iter().all(|x| *x == 0) { vec![] } else { frags };
        out.push(Case::new("random", enc(&C { ty, pfx, lines, frags })));
    }
    // consecutive skipped lines without exhausting a small stack (child process)
    let ks: &[u64] = match tier { Tier::Quick => &[1000, 100_000, 1_000_000], Tier::Thorough => &[10, 1000, 30_000, 100_000, 1_000_000] };
    for &k in ks { for place in 0..3u64 { for un in 0..2u64 {
        if tier == Tier::Quick && k == 1_000_000 && (place != 1 || un != 0) { continue; }
        out.push(Case::new("skiprun", vec!["skiprun".into(), k.to_string(), place.to_string(), "6".into(), un.to_string()]));
    } } }
    out
}

fn child(t: &[String]) -> String { skiprun_child(t) }

pub fn prop() -> PropDef {
    PropDef {
        id: "C04",
        rule: "corpus, then streams of 0-8 lines for each of the 9 record types: records written by the real Writer, skip-prefixed lines (prefix None, '#', 'track', '##', a multi-byte prefix; body empty / text / a valid record), malformed lines (blank, garbage, too few columns, non-numeric, invalid UTF-8, lone CRLF, a proper prefix of the skip prefix); per line LF, CRLF or no terminator on the last line; read five ways: records() and into_records() over a slice and over a source fragmented into reads of 1..n bytes with Interrupted errors (splitting CRLF pairs and multi-byte characters), and read_record by hand. Plus runs of 1e3, 1e5, 1e6 consecutive skipped lines at start / middle / end, terminated or not, read on a 256 KiB stack in a child process. Non-trivial: >= 2 lines and a CRLF, skipped, malformed or unterminated line or reads shorter than 8 bytes. Distinct = distinct input token sequence.",
        observable: "item sequences (record fields | error) of Reader::records / into_records over slice and fragmented source, and of a read_record loop; for skip runs: number of records and errors, or abort",
        gen, exec, shrink, child: Some(child),
    }
}
