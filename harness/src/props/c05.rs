//! C05: Coverage / SparseCoverage hold the exact overlap-weighted tag sums.
use super::common::*;
use crate::rng::Rng;
use crate::runner::{Case, PropDef, Tier};
use crate::tok::{R, W};
use bed_utils::bed::map::GIntervalIndexSet;
use bed_utils::bed::GenomicRange;
use bed_utils::coverage::{Coverage, SparseCoverage};

#[derive(Clone, Debug)]
pub enum Op { Tag(Rec, i64), At(usize, i64), Reset }

#[derive(Clone)]
struct C { ty: u64, regions: Vec<Rec>, ops: Vec<Op> }

fn enc(c: &C) -> Vec<String> {
    let mut w = W::new();
    w.n(c.ty).n(c.regions.len());
    for r in &c.regions { r.put(&mut w); }
    w.n(c.ops.len());
    for o in &c.ops {
        match o {
            Op::Tag(r, k) => { w.s("t"); r.put(&mut w); w.n(*k); }
            Op::At(i, k) => { w.s("a").n(*i).n(*k); }
            Op::Reset => { w.s("r"); }
        }
    }
    w.0
}
fn dec(t: &[String]) -> Option<C> {
    let (t, _) = split_flavour(t);
    let mut r = R::new(t);
    let ty = r.u64()?;
    let regions = r.list(Rec::get)?;
    let ops = r.list(|r| match r.tok()? {
        "t" => Some(Op::Tag(Rec::get(r)?, r.i64()?)),
        "a" => Some(Op::At(r.usize()?, r.i64()?)),
        "r" => Some(Op::Reset),
        _ => None,
    })?;
    Some(C { ty, regions, ops })
}
/// counter types: 0 i64, 1 u64, 2 u8, 3 u16, 4 i32, 5 f32, 6 f64, 7 i8, 8 u32. (signed, greatest count that is exact in the type)
pub fn ty_range(ty: u64) -> (bool, i128) {
    match ty { 0 => (true, i64::MAX as i128), 1 => (false, u64::MAX as i128), 2 => (false, 255), 3 => (false, 65535), 4 => (true, i32::MAX as i128),
               5 => (true, 1 << 24), 6 => (true, 1 << 53), 7 => (true, 127), _ => (false, u32::MAX as i128) }
}
pub const N_TYPES: u64 = 9;
fn valid(c: &C) -> bool {
    let (signed, max) = ty_range(c.ty);
    let ok_k = |k: i64| (signed || k >= 0) && (k as i128).abs() <= max;
    if !(c.regions.iter().all(|r| r.start < r.end) && c.ops.iter().all(|o| match o {
        Op::Tag(t, k) => t.start < t.end && ok_k(*k),
        Op::At(i, k) => *i < c.regions.len() && ok_k(*k),
        Op::Reset => true,
    })) { return false; }
    if c.ty < 2 { return true; }
    // narrow counter types: no region's count may leave the type's exact range (whatever the resets); the TOTAL may —
    // total_count is an f64 whatever the counter type
    c.regions.iter().enumerate().all(|(i, r)| {
        let s: i128 = c.ops.iter().map(|o| match o {
            Op::Tag(t, k) if t.chrom == r.chrom && t.start < r.end && r.start < t.end => (*k as i128).abs(),
            Op::At(j, k) if *j == i => (*k as i128).abs(),
            _ => 0 }).sum();
        s <= max
    })
}

pub fn f64_tok(x: f64) -> String { if x.fract() == 0.0 && x.abs() < 9.0e15 { format!("{}", x as i64) } else { format!("{:?}", x) } }

macro_rules! run_typed {
    ($n:ty, $c:expr, $fl:expr) => {{
        let c = $c;
        let fl: u64 = $fl;
        // regions and tags carried by the flavour's BEDLike implementor (field variant rotating per record)
        let set: GIntervalIndexSet = crate::with_bedlikes!(fl, &c.regions, |xs| xs.into_iter().collect());
        let mut d: Coverage<$n> = Coverage::new(&set);
        let mut s: SparseCoverage<$n> = SparseCoverage::new(&set);
        let mut w = W::new();
        w.n(c.ops.len());
        for (oi, o) in c.ops.iter().enumerate() {
            match o {
                Op::Tag(t, k) => { crate::with_bedlike!(rot_flavour(fl, oi), t, |x| { d.insert(&x, *k as $n); s.insert(&x, *k as $n); }); }
                Op::At(i, k) => { d.insert_at_index::<GenomicRange>(*i, *k as $n); s.insert_at_index::<GenomicRange>(*i, *k as $n); }
                Op::Reset => { d.reset(); s.reset(); }
            }
            let dv = d.get_coverage();
            w.n(dv.len());
            for x in dv { w.n(*x); }
            let sv = s.get_coverage_as_vec();
            w.n(sv.len());
            for x in &sv { w.n(*x); }
            w.s(&f64_tok(d.total_count())).s(&f64_tok(s.total_count())).n(d.len()).n(s.len());
        }
        w.join()
    }};
}

fn exec(t: &[String]) -> Option<String> {
    let c = dec(t)?;
    let fl = split_flavour(t).1;
    Some(match c.ty { 0 => run_typed!(i64, &c, fl), 1 => run_typed!(u64, &c, fl), 2 => run_typed!(u8, &c, fl), 3 => run_typed!(u16, &c, fl), 4 => run_typed!(i32, &c, fl),
                      5 => run_typed!(f32, &c, fl), 6 => run_typed!(f64, &c, fl), 7 => run_typed!(i8, &c, fl), _ => run_typed!(u32, &c, fl) })
}

fn shrink(t: &[String]) -> Vec<Vec<String>> { shrink_flavoured(t, shrink0) }
fn shrink0(t: &[String]) -> Vec<Vec<String>> {
    let Some(c) = dec(t) else { return vec![] };
    let mut out = vec![];
    for ops in shrink_vec(&c.ops) { out.push(C { ops, ..c.clone() }); }
    for (i, _) in c.regions.iter().enumerate() {
        // dropping a region shifts the indices of insert_at_index
        let mut d = c.clone();
        d.regions.remove(i);
        d.ops = d.ops.into_iter().filter_map(|o| match o { Op::At(j, k) => if j == i { None } else { Some(Op::At(if j > i { j - 1 } else { j }, k)) }, o => Some(o) }).collect();
        out.push(d);
    }
    for i in 0..c.ops.len() {
        if let Op::Tag(t, k) = &c.ops[i] {
            if *k != 1 { let mut d = c.clone(); d.ops[i] = Op::Tag(t.clone(), 1); out.push(d); }
            if t.end > t.start + 1 { let mut d = c.clone(); d.ops[i] = Op::Tag(Rec { end: t.start + (t.end - t.start) / 2, ..t.clone() }, *k); out.push(d); }
        }
        if let Op::At(j, k) = &c.ops[i] { if *k != 1 { let mut d = c.clone(); d.ops[i] = Op::At(*j, 1); out.push(d); } }
    }
    for i in 0..c.regions.len() {
        let r = &c.regions[i];
        if r.end > r.start + 1 { let mut d = c.clone(); d.regions[i].end = r.start + (r.end - r.start) / 2; out.push(d); }
    }
    if c.ty >= 2 { out.push(C { ty: if ty_range(c.ty).0 { 0 } else { 1 }, ..c.clone() }); } else if c.ty != 0 { out.push(C { ty: 0, ..c.clone() }); }
    out.into_iter().filter(valid).map(|c| enc(&c)).collect()
}

pub fn gen_regions(rng: &mut Rng, n: usize, max: u64, base: u64, chroms: &[&str]) -> Vec<Rec> {
    gen_intervals(rng, n, max, false).iter().map(|(s, e)| Rec::new(*rng.pick(chroms), base + s, base + e)).collect()
}

pub fn gen_tag(rng: &mut Rng, regions: &[Rec], max: u64, base: u64, chroms: &[&str]) -> Rec {
    if !regions.is_empty() && rng.chance(3, 4) {
        // around a region boundary
        let r = rng.pick(regions).clone();
        let pts = around(&[r.start, r.end]);
        let s = *rng.pick(&pts);
        let e = match rng.below(3) { 0 => s + 1, 1 => *rng.pick(&pts), _ => s + rng.range(1, max) };
        let (s, e) = if s < e { (s, e) } else { (s, s + 1) };
        Rec::new(&r.chrom, s, e)
    } else {
        let s = base + rng.below(max + 4);
        let ch = if rng.chance(1, 6) { "chrNoRegion" } else { *rng.pick(chroms) };
        Rec::new(ch, s, s + rng.range(1, max))
    }
}

fn gen(rng: &mut Rng, tier: Tier) -> Vec<Case> {
    let mut out = vec![];
    let n_cases = match tier { Tier::Quick => 600, Tier::Thorough => 10000 };
    for i in 0..n_cases {
        let small = i % 4 != 0;
        let ty = if i % 3 == 2 { rng.below(N_TYPES) } else { rng.below(2) };
        let (signed, tmax) = ty_range(ty);
        let nch = rng.range(1, 3) as usize;
        let chroms: Vec<&str> = gen_chroms(rng, nch);
        let n = if i % 30 == 0 { 0 } else if small { rng.range(1, 6) as usize } else { rng.range(5, 60) as usize };
        let max = if small { 16 } else { 2000 };
        let base = if !small && rng.chance(1, 4) { u64::MAX - 100_000 } else { 0 };
        let regions = gen_regions(rng, n, max, base, &chroms);
        // a narrow counter type gets a long history whose TOTAL leaves the type's range while no region's count does
        let long_total = ty >= 2 && tmax <= 65535 && rng.chance(2, 3);
        let nops = if long_total { rng.range(100, 260) } else if small { rng.range(1, 8) } else { rng.range(3, 30) } as usize;
        let mut ops = vec![];
        if rng.chance(1, 8) { ops.push(Op::Reset); }
        for _ in 0..nops {
            let k = match rng.below(8) { 0 => 0, 1 if tmax > 2_000_000_000 => 1_000_000_007, 2 if signed => -(rng.range(1, 5) as i64), _ => rng.range(1, 4) as i64 };
            match rng.below(10) {
                0 if !long_total || rng.chance(1, 20) => { ops.push(Op::Reset); if rng.chance(1, 4) { ops.push(Op::Reset); } }
                1 | 2 if n > 0 && !long_total => ops.push(Op::At(rng.below(n as u64) as usize, k)),
                _ if long_total && rng.chance(9, 10) => ops.push(Op::Tag(Rec::new("chrNoRegion", 5, 9), if tmax <= 255 { rng.range(1, 4) as i64 } else { rng.range(200, 400) as i64 })),
                _ => ops.push(Op::Tag(gen_tag(rng, &regions, max, base, &chroms), k)),
            }
            // multiplicities that cancel exactly (signed / float counters), then a reset: the total is 0 while counts are not
            if signed && n > 0 && rng.chance(1, 12) {
                let kk = rng.range(1, 4) as i64;
                let r = ops.iter().rposition(|o| matches!(o, Op::Reset)).map(|p| p + 1).unwrap_or(0);
                let bal: i64 = ops[r..].iter().map(|o| match o { Op::Tag(_, k) | Op::At(_, k) => *k, _ => 0 }).sum();
                ops.push(Op::Tag(gen_tag(rng, &regions, max, base, &chroms), kk));
                ops.push(Op::At(rng.below(n as u64) as usize, -(bal + kk)));
                ops.push(Op::Reset);
                ops.push(Op::Tag(gen_tag(rng, &regions, max, base, &chroms), 1));
            }
        }
        let mut c = C { ty, regions, ops };
        if !valid(&c) { c.ty = if signed { 0 } else { 1 }; }
        out.push(Case::new(if small { "boundary" } else { "random" }, enc(&c)));
    }
    if tier == Tier::Thorough {
        // LARGE region lists: more than 2^16 regions; the driver evaluates only the spec on these
        for (n, ty) in [(9_000usize, 0u64), (70_000, 1), (66_000, 4)] {
            let regions: Vec<Rec> = (0..n as u64).map(|i| Rec::new(if i % 3 == 0 { "chrA" } else { "chrB" }, 10 * i, 10 * i + rng.range(1, 14))).collect();
            let mut ops = vec![];
            for k in 0..6u64 {
                let r = if k < 2 { regions[n - 1 - k as usize].clone() } else { rng.pick(&regions).clone() };
                ops.push(Op::Tag(Rec::new(&r.chrom, r.start.saturating_sub(rng.below(40)), r.end + rng.below(40)), 1 + k as i64));
                if k == 3 { ops.push(Op::At(n - 1, 5)); ops.push(Op::At(65_536.min(n - 1), 7)); }
            }
            out.push(Case::new("large", enc(&C { ty, regions, ops })));
        }
    }
    add_flavours(rng, &mut out);
    out
}

pub fn prop() -> PropDef {
    PropDef {
        id: "C05",
        rule: "corpus, then region lists (0-60 non-empty regions: duplicates, overlapping, nested, 1-3 chromosomes, offsets up to u64::MAX-1e5) with histories of insert(tag,k) / insert_at_index(i,k) / reset (1-30 ops; tags built around region boundaries {e-1,e,e+1}, spanning several regions, on a chromosome without regions; multiplicities 0, 1..3, 1e9+7, negative for i64), counters over i64 and u64; dense and sparse counters, both totals and len observed after every operation. Non-trivial: >= 2 inserts and some count non-zero at some point. Distinct = distinct input token sequence.",
        observable: "after every op: Coverage::get_coverage, SparseCoverage::get_coverage_as_vec, both total_count, both len",
        gen, exec, shrink, child: None,
    }
}
