//! C06: BinnedCoverage / SparseBinnedCoverage count every bin a tag overlaps, and only those.
use super::c05::{f64_tok, gen_regions, gen_tag, ty_range, N_TYPES};
use super::common::*;
use crate::rng::Rng;
use crate::runner::{Case, PropDef, Tier};
use crate::tok::{R, W};
use bed_utils::bed::map::GIntervalIndexSet;
use bed_utils::bed::GenomicRange;
use bed_utils::coverage::{BinnedCoverage, SparseBinnedCoverage};

#[derive(Clone, Debug)]
enum Op { Tag(Rec, i64), Reset }

#[derive(Clone)]
struct C { ty: u64, regions: Vec<Rec>, bin: u64, ops: Vec<Op> }

fn enc(c: &C) -> Vec<String> {
    let mut w = W::new();
    w.n(c.ty).n(c.regions.len());
    for r in &c.regions { r.put(&mut w); }
    w.n(c.bin).n(c.ops.len());
    for o in &c.ops {
        match o { Op::Tag(r, k) => { w.s("t"); r.put(&mut w); w.n(*k); } Op::Reset => { w.s("r"); } }
    }
    w.0
}
fn dec(t: &[String]) -> Option<C> {
    let (t, _) = split_flavour(t);
    let mut r = R::new(t);
    let ty = r.u64()?;
    let regions = r.list(Rec::get)?;
    let bin = r.u64()?;
    let ops = r.list(|r| match r.tok()? { "t" => Some(Op::Tag(Rec::get(r)?, r.i64()?)), "r" => Some(Op::Reset), _ => None })?;
    Some(C { ty, regions, bin, ops })
}
fn valid(c: &C) -> bool {
    // the observable is the whole matrix after every op: keep (total bins) x (ops) enumerable
    c.bin >= 1 && c.regions.iter().all(|r| r.start < r.end && (r.end - r.start).div_ceil(c.bin) <= 3000)
        && c.regions.iter().map(|r| (r.end - r.start).div_ceil(c.bin)).sum::<u64>() * (c.ops.len() as u64 + 1) <= 12_000
        && c.ops.iter().all(|o| match o { Op::Tag(t, k) => t.start < t.end && (ty_range(c.ty).0 || *k >= 0) && (*k as i128).abs() <= ty_range(c.ty).1, Op::Reset => true })
        // narrow counter types: no bin's count can leave the type's exact range (bound: the sum of all |k|); the total may
        && (c.ty < 2 || c.ops.iter().map(|o| match o { Op::Tag(t, k) if c.regions.iter().any(|r| r.chrom == t.chrom && t.start < r.end && r.start < t.end) => (*k as i128).abs(), _ => 0 }).sum::<i128>() <= ty_range(c.ty).1)
}

macro_rules! run_typed {
    ($n:ty, $c:expr, $fl:expr) => {{
        let c = $c;
        let fl: u64 = $fl;
        // regions and tags carried by the flavour's BEDLike implementor (field variant rotating per record)
        let set: GIntervalIndexSet = crate::with_bedlikes!(fl, &c.regions, |xs| xs.into_iter().collect());
        let mut d: BinnedCoverage<$n> = BinnedCoverage::new(&set, c.bin);
        let mut s: SparseBinnedCoverage<$n> = SparseBinnedCoverage::new(&set, c.bin);
        let mut w = W::new();
        w.n(c.ops.len());
        for (oi, o) in c.ops.iter().enumerate() {
            match o {
                Op::Tag(t, k) => { crate::with_bedlike!(rot_flavour(fl, oi), t, |x| { d.insert(&x, *k as $n); s.insert(&x, *k as $n); }); }
                Op::Reset => { d.reset(); s.reset(); }
            }
            let dv = d.get_coverage();
            w.n(dv.len());
            for row in dv { w.n(row.len()); for x in row { w.n(*x); } }
            let sv = s.get_coverage_as_vec();
            w.n(sv.len());
            for x in &sv { w.n(*x); }
            w.s(&f64_tok(d.total_count())).s(&f64_tok(s.total_count()));
        }
        w.n(d.len()).n(s.len());
        let dr: Vec<GenomicRange> = d.regions().flatten().collect();
        w.n(dr.len());
        for g in &dr { put_gr(&mut w, g); }
        let sr: Vec<GenomicRange> = s.regions().flatten().collect();
        w.n(sr.len());
        for g in &sr { put_gr(&mut w, g); }
        let n = s.len() + 4;
        w.n(n);
        // get_region / get_chrom are asked in an order that is a function of the case (ascending, descending, from the middle
        // outwards) and reported in ascending order: a lookup must not depend on the lookups made before it
        let order: Vec<usize> = match mode_of(&[c.bin.to_string(), c.ops.len().to_string(), c.regions.len().to_string()]) % 3 {
            0 => (0..n).collect(), 1 => (0..n).rev().collect(), _ => { let m = n / 2; (0..n).map(|k| if k % 2 == 0 { (m + k / 2) % n } else { (m + n - 1 - k / 2) % n }).collect() } };
        let mut looked: Vec<Vec<String>> = vec![vec![]; n];
        for &i in &order {
            let mut w2 = W::new();
            match std::panic::catch_unwind(std::panic::AssertUnwindSafe(|| s.get_region(i))) {
                Err(_) => { w2.s("P"); }
                Ok(None) => { w2.s("0"); }
                Ok(Some(g)) => { w2.s("1"); put_gr(&mut w2, &g); }
            }
            match std::panic::catch_unwind(std::panic::AssertUnwindSafe(|| s.get_chrom(i).map(|x| x.to_string()))) {
                Err(_) => { w2.s("P"); }
                Ok(None) => { w2.s("0"); }
                Ok(Some(ch)) => { w2.s("1").b(ch.as_bytes()); }
            }
            looked[i] = w2.0;
        }
        for l in looked { for x in l { w.s(&x); } }
        w.join()
    }};
}

fn exec(t: &[String]) -> Option<String> {
    let c = dec(t)?;
    let fl = split_flavour(t).1;
    Some(match c.ty { 0 => run_typed!(i64, &c, fl), 1 => run_typed!(u64, &c, fl), 2 => run_typed!(u8, &c, fl), 3 => run_typed!(u16, &c, fl), 4 => run_typed!(i32, &c, fl),
                      5 => run_typed!(f32, &c, fl), 6 => run_typed!(f64, &c, fl), 7 => run_typed!(i8, &c, fl), _ => run_typed!(u32, &c, fl) })
}

fn shrink(t: &[String]) -> Vec<Vec<String>> { shrink_flavoured(t, shrink0) }
fn shrink0(t: &[String]) -> Vec<Vec<String>> {
    let Some(c) = dec(t) else { return vec![] };
    let mut out = vec![];
    for ops in shrink_vec(&c.ops) { out.push(C { ops, ..c.clone() }); }
    for regions in shrink_vec(&c.regions) { out.push(C { regions, ..c.clone() }); }
    for b in shrink_u64(c.bin) { out.push(C { bin: b, ..c.clone() }); }
    for i in 0..c.ops.len() {
        if let Op::Tag(t, k) = &c.ops[i] {
            if *k != 1 { let mut d = c.clone(); d.ops[i] = Op::Tag(t.clone(), 1); out.push(d); }
            if t.end > t.start + 1 { let mut d = c.clone(); d.ops[i] = Op::Tag(Rec { end: t.start + (t.end - t.start) / 2, ..t.clone() }, *k); out.push(d); }
        }
    }
    for i in 0..c.regions.len() {
        let r = &c.regions[i];
        if r.end > r.start + 1 { let mut d = c.clone(); d.regions[i].end = r.start + (r.end - r.start) / 2; out.push(d); }
        if r.start > 0 { let mut d = c.clone(); let s = r.start / 2; let dd = r.start - s; d.regions[i].start = s; d.regions[i].end -= dd; out.push(d); }
    }
    if c.ty >= 2 { out.push(C { ty: if ty_range(c.ty).0 { 0 } else { 1 }, ..c.clone() }); } else if c.ty != 0 { out.push(C { ty: 0, ..c.clone() }); }
    out.into_iter().filter(valid).map(|c| enc(&c)).collect()
}

fn gen(rng: &mut Rng, tier: Tier) -> Vec<Case> {
    let mut out = vec![];
    let n_cases = match tier { Tier::Quick => 600, Tier::Thorough => 10000 };
    for i in 0..n_cases {
        let small = i % 4 != 0;
        let ty = if i % 3 == 2 { rng.below(N_TYPES) } else { rng.below(2) };
        let (signed, tmax) = ty_range(ty);
        let long_total = ty >= 2 && tmax <= 65535 && rng.chance(2, 3);
        let nch = rng.range(1, 2) as usize;
        let chroms: Vec<&str> = gen_chroms(rng, nch);
        let n = if i % 30 == 0 { 0 } else if small { rng.range(1, 4) as usize } else { rng.range(3, 25) as usize };
        let max = if small { 14 } else { 1500 };
        let base = if !small && rng.chance(1, 4) { u64::MAX / 2 } else { 0 };
        let regions = gen_regions(rng, n, max, base, &chroms);
        let some_len = regions.first().map(|r| r.end - r.start).unwrap_or(5);
        let bin = match rng.below(6) { 0 => 1, 1 => some_len, 2 => some_len + rng.range(1, 3), 3 if some_len > 1 => (some_len / rng.range(2, 4)).max(1), _ => rng.range(1, max / 2 + 1) };
        let nops = if long_total { rng.range(100, 260) } else if small { rng.range(1, 6) } else { rng.range(3, 20) } as usize;
        let mut ops = vec![];
        for _ in 0..nops {
            let k = match rng.below(6) { 0 => 0, 1 if signed => -(rng.range(1, 5) as i64), _ => rng.range(1, 4) as i64 };
            if rng.chance(1, if long_total { 100 } else { 10 }) { ops.push(Op::Reset); continue; }
            // a long history whose TOTAL leaves a narrow counter type's range while no bin's count does
            if long_total && rng.chance(19, 20) { ops.push(Op::Tag(Rec::new("chrNoRegion", 5, 9), if tmax <= 255 { rng.range(1, 4) as i64 } else { rng.range(200, 400) as i64 })); continue; }
            // multiplicities that cancel exactly in different bins, then a reset: the total is 0 while counts are not
            if signed && !regions.is_empty() && rng.chance(1, 10) {
                let r = ops.iter().rposition(|o| matches!(o, Op::Reset)).map(|p| p + 1).unwrap_or(0);
                let bal: i64 = ops[r..].iter().map(|o| match o { Op::Tag(_, k) => *k, _ => 0 }).sum();
                let kk = rng.range(1, 4) as i64;
                ops.push(Op::Tag(gen_tag(rng, &regions, max, base, &chroms), kk));
                ops.push(Op::Tag(gen_tag(rng, &regions, max, base, &chroms), -(bal + kk)));
                ops.push(Op::Reset);
                ops.push(Op::Tag(gen_tag(rng, &regions, max, base, &chroms), 1));
                continue;
            }
            // tags whose ends sit exactly on bin edges, single-base tags, tags spanning everything
            let tag = if !regions.is_empty() && rng.chance(1, 2) {
                let r = rng.pick(&regions).clone();
                let nb = (r.end - r.start).div_ceil(bin);
                let edge = |rng: &mut Rng| (r.start + rng.below(nb + 1) * bin).min(r.end);
                match rng.below(5) {
                    0 => { let s = edge(rng); Rec::new(&r.chrom, s, s + 1) }
                    1 => { let e = edge(rng).max(r.start + 1); Rec::new(&r.chrom, e - 1, e) }
                    2 => Rec::new(&r.chrom, r.start.saturating_sub(rng.below(3)), r.end + rng.below(3)),
                    3 => { let s = edge(rng); let e = edge(rng); if s < e { Rec::new(&r.chrom, s, e) } else { Rec::new(&r.chrom, r.end - 1, r.end) } }
                    _ => { let s = edge(rng); Rec::new(&r.chrom, s.saturating_sub(1), s + 1) }
                }
            } else { gen_tag(rng, &regions, max, base, &chroms) };
            ops.push(Op::Tag(tag, k));
        }
        let mut c = C { ty, regions, bin, ops };
        // top of the coordinate range: the whole case is moved so that its greatest coordinate is u64::MAX - {0,1,2}
        // (start + bin_size then exceeds u64::MAX for the last bins)
        if base == 0 && rng.chance(1, 5) {
            let m = c.regions.iter().map(|r| r.end).chain(c.ops.iter().filter_map(|o| if let Op::Tag(t, _) = o { Some(t.end) } else { None })).max().unwrap_or(0);
            let d = u64::MAX - rng.below(3) - m;
            for r in c.regions.iter_mut() { r.start += d; r.end += d; }
            for o in c.ops.iter_mut() { if let Op::Tag(t, _) = o { t.start += d; t.end += d; } }
        }
        if !valid(&c) { c.ty = if signed { 0 } else { 1 }; }
        if valid(&c) { out.push(Case::new(if small { "boundary" } else { "random" }, enc(&c))); }
    }
    add_flavours(rng, &mut out);
    out
}

pub fn prop() -> PropDef {
    PropDef {
        id: "C06",
        rule: "corpus, then region lists (0-25 non-empty regions, duplicates, 1-2 chromosomes, offsets up to 2^63) x bin sizes (1, = a region length, > length, divisors, non-divisors) x histories of insert(tag,k)/reset (tags starting before / ending after the region, starting or ending exactly on a bin edge, single-base tags in the first and last bin, tags spanning all bins; multiplicities 0, 1..3, negative for i64), counters over i64 and u64; dense matrix, sparse vector and totals observed after every op; at the end len, regions() of both counters, get_region(i) and get_chrom(i) for every i in 0..len+3. Non-trivial: >= 2 tags, some count non-zero, some tag spans >= 2 bins or touches a bin edge. Distinct = distinct input token sequence.",
        observable: "after every op: BinnedCoverage::get_coverage, SparseBinnedCoverage::get_coverage_as_vec, totals; finally len, regions, get_region(i), get_chrom(i) for i in 0..len+3",
        gen, exec, shrink, child: None,
    }
}
