//! C07: merge_sorted_bed_with groups the maximal chained runs; merge_sorted_bed emits their ranges.
use super::common::*;
use crate::rng::Rng;
use crate::runner::{Case, PropDef, Tier};
use crate::tok::{R, W};
use bed_utils::bed::{merge_sorted_bed, merge_sorted_bed_with, GenomicRange};

fn enc(xs: &[Rec]) -> Vec<String> { let mut w = W::new(); w.n(xs.len()); for r in xs { r.put(&mut w); } w.0 }
fn dec(t: &[String]) -> Option<Vec<Rec>> { let (t, _) = split_flavour(t); let mut r = R::new(t); r.list(Rec::get) }

pub fn sort_recs(xs: &mut Vec<Rec>) { xs.sort_by(|a, b| a.chrom.as_bytes().cmp(b.chrom.as_bytes()).then(a.start.cmp(&b.start)).then(a.end.cmp(&b.end))); }
fn valid(xs: &[Rec]) -> bool {
    xs.iter().all(|r| r.start <= r.end) && xs.windows(2).all(|w| (w[0].chrom.as_bytes(), w[0].start, w[0].end) <= (w[1].chrom.as_bytes(), w[1].start, w[1].end))
}

fn exec(t: &[String]) -> Option<String> {
    let xs = dec(t)?;
    let fl = split_flavour(t).1;
    // grouping and merged ranges depend on (chrom, start, end) only, whatever type carries them
    let (groups, merged): (Vec<Vec<GenomicRange>>, Vec<GenomicRange>) = crate::with_bedlikes!(fl, &xs, |recs| {
        use bed_utils::bed::BEDLike;
        // the iterators are consumed in the mode of the case (collect / next / next then fold / for_each / size_hint)
        let mode = mode_of(t);
        // the groups must be runs of the input IN INPUT ORDER, record for record (records with equal coordinates are told apart
        // by their other fields): compared through the Debug images of the records
        let images: Vec<String> = recs.iter().map(|x| format!("{:?}", x)).collect();
        let raw: Vec<Vec<_>> = drain_mode(merge_sorted_bed_with(recs.clone(), |g| g), mode);
        let flat: Vec<String> = raw.iter().flatten().map(|x| format!("{:?}", x)).collect();
        assert!(flat == images, "the groups, flattened, are not the input records in input order");
        let groups = raw.into_iter().map(|g| g.iter().map(|x| x.to_genomic_range()).collect()).collect();
        (groups, drain_mode(merge_sorted_bed(recs), mode / 5))
    });
    let mut w = W::new();
    w.n(groups.len());
    for g in &groups { w.n(g.len()); for x in g { put_gr(&mut w, x); } }
    w.n(merged.len());
    for x in &merged { put_gr(&mut w, x); }
    Some(w.join())
}

fn shrink(t: &[String]) -> Vec<Vec<String>> {
    let Some(xs) = dec(t) else { return vec![] };
    let mut out = vec![];
    for v in shrink_vec(&xs) { out.push(v); }
    for i in 0..xs.len() {
        for s in shrink_u64(xs[i].start) { let mut d = xs.clone(); d[i].start = s; out.push(d); }
        for e in shrink_u64(xs[i].end) { let mut d = xs.clone(); d[i].end = e; out.push(d); }
    }
    let fl = split_flavour(t).1;
    let mut res: Vec<Vec<String>> = vec![];
    if fl != 0 { res.push(enc(&xs)); }
    res.extend(out.into_iter().filter(|v| valid(v)).map(|v| push_flavour(enc(&v), fl)));
    res
}

pub fn gen_sorted_recs(rng: &mut Rng, n: usize, max: u64, base: u64, zero_len: bool) -> Vec<Rec> {
    let nch = rng.range(1, 3) as usize;
    let chroms: Vec<&str> = gen_chroms(rng, nch);
    let ivs = gen_intervals(rng, n, max, zero_len);
    let mut xs: Vec<Rec> = ivs.iter().map(|(s, e)| Rec::new(*rng.pick(&chroms[..]), base + s, base + e)).collect();
    // gaps of exactly one base and same coordinates on the next chromosome
    if n >= 2 && rng.chance(1, 3) { let p = xs[0].clone(); xs.push(Rec::new(&p.chrom, p.end + 1, p.end + 1 + rng.range(1, 3))); }
    if n >= 1 && nch >= 2 && rng.chance(1, 3) { let p = xs[0].clone(); let other = chroms.iter().find(|c| **c != p.chrom).copied().unwrap_or(chroms[0]); xs.push(Rec::new(other, p.start, p.end)); }
    // a record (or a chain of two) whose length is around a power of two up to 2^63: a quantity derived from the
    // coordinates (offset from a group's start, length, extent) that is narrowed to a smaller integer type wraps here
    if n >= 1 && rng.chance(1, 6) {
        let p = xs[rng.below(xs.len() as u64) as usize].clone();
        let len = (1u64 << *rng.pick(&[8u32, 16, 31, 32, 33, 63])) + rng.below(5) - 2;
        let e = p.start.saturating_add(len);
        if e > p.start { xs.push(Rec::new(&p.chrom, p.start, e)); }
        if rng.chance(1, 2) { xs.push(Rec::new(&p.chrom, e.saturating_sub(rng.below(2)), e.saturating_add(rng.range(1, 50)))); }
        if rng.chance(1, 2) { let s2 = p.start.saturating_add(len / 2); xs.push(Rec::new(&p.chrom, s2, s2.saturating_add(rng.range(1, 9)))); }
    }
    sort_recs(&mut xs);
    xs
}

fn gen(rng: &mut Rng, tier: Tier) -> Vec<Case> {
    let mut out = vec![];
    let (nb, nr) = match tier { Tier::Quick => (1200, 200), Tier::Thorough => (20000, 4000) };
    if tier == Tier::Thorough {
        // LARGE groups: more than 2^16 book-ended or overlapping records in ONE group (a cap on the size of a group, a 16-bit
        // counter); the driver compares with the model's linear grouping, which the spec determines uniquely
        for (k, n) in [(0u64, 70_000u64), (1, 66_000), (2, 9_000)] {
            let xs: Vec<Rec> = (0..n).map(|i| match k {
                0 => Rec::new("chr1", 10 * i, 10 * i + 10),
                1 => Rec::new("chr1", 10 * i, 10 * i + 9 + if i % 3 == 0 { 4 } else { 1 }),
                _ => Rec::new(if i < 4500 { "chr1" } else { "chr2" }, 7 * (i % 4500), 7 * (i % 4500) + if i % 500 == 499 { 3 } else { 9 }),
            }).collect();
            out.push(Case::new("large", enc(&xs)));
        }
        // exhaustive small scope: every sorted sequence of <= 4 records over 2 chromosomes, coordinates 0..=3 (zero-length included)
        let mut univ: Vec<Rec> = vec![];
        for ch in ["c", "cc"] { for s in 0..=3u64 { for e in s..=3u64 { univ.push(Rec::new(ch, s, e)); } } }
        let mut frontier: Vec<Vec<usize>> = vec![vec![]];
        for _ in 0..4 {
            let mut next = vec![];
            for f in &frontier { let lo = f.last().copied().unwrap_or(0); for k in lo..univ.len() { let mut g = f.clone(); g.push(k); next.push(g); } }
            for g in &next { out.push(Case::new("exhaustive", enc(&g.iter().map(|k| univ[*k].clone()).collect::<Vec<_>>()))); }
            frontier = next;
        }
    }
    for i in 0..nb {
        let n = match i % 20 { 0 => 0, 1 => 1, _ => rng.range(2, 8) as usize };
        let f = gen_flavour(rng);
        out.push(Case::new("boundary", push_flavour(enc(&gen_sorted_recs(rng, n, 16, 0, true)), f)));
    }
    for _ in 0..nr {
        let n = rng.range(5, 150) as usize;
        let base = match rng.below(4) { 0 => u64::MAX - 100_000, 1 => rng.below(1 << 50), _ => 0 };
        let f = gen_flavour(rng);
        out.push(Case::new("random", push_flavour(enc(&gen_sorted_recs(rng, n, 3000, base, true)), f)));
    }
    out
}

pub fn prop() -> PropDef {
    PropDef {
        id: "C07",
        rule: "corpus, then sorted record sequences: small (0-9 records, coordinates 0..20, 1-3 chromosomes incl. prefix names; duplicates, nested, book-ended, zero-length, gap of one base, same coordinates on consecutive chromosomes) and large (5-150 records, offsets up to u64::MAX-1e5). Non-trivial: >= 2 records, >= 2 groups, some group of size >= 2. Thorough adds the exhaustive small scope: every sorted sequence of <= 4 records over 2 chromosomes with coordinates 0..=3. Distinct = distinct input token sequence.",
        observable: "groups handed to the closure of merge_sorted_bed_with (in order), and the output of merge_sorted_bed; the records are carried by every BEDLike implementor and field variant",
        gen, exec, shrink, child: None,
    }
}
