//! C08: merge_sorted_bedgraph is the run-length encoded pointwise sum.
use super::common::*;
use crate::rng::Rng;
use crate::runner::{Case, PropDef, Tier};
use crate::tok::{R, W};
use bed_utils::bed::{merge_sorted_bedgraph, BEDLike, BedGraph};

#[derive(Clone, Debug)]
struct B { r: Rec, v: i64 }

fn enc(xs: &[B]) -> Vec<String> { let mut w = W::new(); w.n(xs.len()); for b in xs { b.r.put(&mut w); w.n(b.v); } w.0 }
fn dec(t: &[String]) -> Option<Vec<B>> { let (t, _) = split_flavour(t); let mut r = R::new(t); r.list(|r| Some(B { r: Rec::get(r)?, v: r.i64()? })) }
/// value type of the instantiation, carried as the flavour token: 0 i64, 1 i32, 2 f64, 3 f32, 4 i128, 5 i16, 6 isize
const N_VTYPES: u64 = 7;
fn vmax(ty: u64) -> i128 { match ty { 0 | 6 => i64::MAX as i128, 1 => i32::MAX as i128, 2 => 1 << 53, 3 => 1 << 24, 4 => i128::MAX, _ => i16::MAX as i128 } }
/// no partial sum can leave the type's exact range
fn fits(xs: &[B], ty: u64) -> bool { xs.iter().map(|b| (b.v as i128).abs()).sum::<i128>() <= vmax(ty) }
fn valid(xs: &[B]) -> bool {
    xs.iter().all(|b| b.r.start < b.r.end) && xs.windows(2).all(|w| (w[0].r.chrom.as_bytes(), w[0].r.start, w[0].r.end) <= (w[1].r.chrom.as_bytes(), w[1].r.start, w[1].r.end))
}

macro_rules! run_v {
    ($v:ty, $xs:expr, $t:expr) => {{
        let input: Vec<BedGraph<$v>> = $xs.iter().map(|b| BedGraph::new(b.r.chrom.clone(), b.r.start, b.r.end, b.v as $v)).collect();
        let out: Vec<BedGraph<$v>> = drain_mode(merge_sorted_bedgraph(input), mode_of($t));
        let mut w = W::new();
        w.n(out.len());
        for o in &out { w.b(o.chrom().as_bytes()).n(o.start()).n(o.end()).n(o.value as i128); }
        w.join()
    }};
}
fn exec(t: &[String]) -> Option<String> {
    let xs = dec(t)?;
    let ty = split_flavour(t).1;
    if !fits(&xs, ty) { return None; }
    Some(match ty { 0 => run_v!(i64, &xs, t), 1 => run_v!(i32, &xs, t), 2 => run_v!(f64, &xs, t), 3 => run_v!(f32, &xs, t), 4 => run_v!(i128, &xs, t), 5 => run_v!(i16, &xs, t), _ => run_v!(isize, &xs, t) })
}

fn shrink(t: &[String]) -> Vec<Vec<String>> { shrink_flavoured(t, shrink0) }
fn shrink0(t: &[String]) -> Vec<Vec<String>> {
    let Some(xs) = dec(t) else { return vec![] };
    let mut out = vec![];
    for v in shrink_vec(&xs) { out.push(v); }
    for i in 0..xs.len() {
        for s in shrink_u64(xs[i].r.start) { let mut d = xs.clone(); d[i].r.start = s; out.push(d); }
        for e in shrink_u64(xs[i].r.end) { let mut d = xs.clone(); d[i].r.end = e; out.push(d); }
        for v in [0i64, 1, -1, xs[i].v / 2] { if v != xs[i].v && v.abs() <= xs[i].v.abs() { let mut d = xs.clone(); d[i].v = v; out.push(d); } }
        if xs[i].r.chrom != "c" { let mut d = xs.clone(); for b in d.iter_mut() { if b.r.chrom == xs[i].r.chrom { b.r.chrom = "c".into(); } } out.push(d); }
    }
    out.into_iter().filter(|v| valid(v)).map(|v| enc(&v)).collect()
}

fn gen(rng: &mut Rng, tier: Tier) -> Vec<Case> {
    let mut out = vec![];
    let (nb, nr) = match tier { Tier::Quick => (1500, 200), Tier::Thorough => (25000, 4000) };
    if tier == Tier::Thorough {
        // exhaustive small scope: every sorted sequence of <= 3 non-empty records over 2 chromosomes, coordinates 0..=3, values in {-1,0,2}
        let mut univ: Vec<B> = vec![];
        for ch in ["c", "cc"] { for s in 0..=3u64 { for e in s + 1..=3u64 { for v in [-1i64, 0, 2] { univ.push(B { r: Rec::new(ch, s, e), v }); } } } }
        let key = |b: &B| (b.r.chrom.clone().into_bytes(), b.r.start, b.r.end);
        let mut frontier: Vec<Vec<usize>> = vec![vec![]];
        for _ in 0..3 {
            let mut next = vec![];
            for f in &frontier { for k in 0..univ.len() { if let Some(l) = f.last() { if key(&univ[*l]) > key(&univ[k]) { continue; } } let mut g = f.clone(); g.push(k); next.push(g); } }
            for g in &next { out.push(Case::new("exhaustive", enc(&g.iter().map(|k| univ[*k].clone()).collect::<Vec<_>>()))); }
            frontier = next;
        }
    }
    if tier == Tier::Thorough {
        // LARGE connected runs: more than 2^16 book-ended or overlapping records in ONE run (a cap on the size of a run, a
        // 16-bit counter); the driver checks the output-only clauses in full and cover / value at sampled breakpoints
        for (k, n) in [(0u64, 70_000u64), (1, 66_000), (2, 9_000)] {
            let xs: Vec<B> = (0..n).map(|i| match k {
                0 => B { r: Rec::new("chr1", 10 * i, 10 * i + 10), v: 5 },                                   // a binned constant track
                1 => B { r: Rec::new("chr1", 10 * i, 10 * i + 10 + if i % 1000 == 7 { 25 } else { 0 }), v: 1 + (i / 20_000) as i64 },  // steps, a few overlaps
                _ => B { r: Rec::new(if i < 4500 { "chr1" } else { "chr2" }, 7 * (i % 4500), 7 * (i % 4500) + 9), v: if i % 2 == 0 { 3 } else { -3 } },
            }).collect();
            out.push(Case::new("large", enc(&xs)));
        }
    }
    for i in 0..(nb + nr) {
        let small = i < nb;
        let n = if small { rng.range(1, 7) as usize } else { rng.range(5, 120) as usize };
        let base = if small { 0 } else { match rng.below(4) { 0 => u64::MAX - 100_000, 1 => rng.below(1 << 50), _ => 0 } };
        let recs = super::c07::gen_sorted_recs(rng, n, if small { 14 } else { 2000 }, base, false);
        // values of great magnitude (a few records only, so that no sum overflows): sums that differ by 1 at 2^53 .. 2^59
        let vals: &[i64] = match rng.below(if small { 5 } else { 3 }) { 0 => &[1, -1, 2, -2, 0], 1 => &[1, 2, 3], 2 => &[-5, -1, 0, 1, 5, 1000, -1000],
            3 => &[1 << 59, -(1 << 59), 1, -1, (1 << 59) + 1, 2], _ => &[1 << 53, (1 << 53) + 1, -(1 << 53), 1, -1, 1 << 24, (1 << 24) + 1, 1 << 31, -(1 << 31)] };
        let mut xs: Vec<B> = recs.into_iter().filter(|r| r.start < r.end).map(|r| B { r, v: *rng.pick(vals) }).collect();
        // several records starting at one position with mixed signs
        if !xs.is_empty() && rng.chance(1, 3) {
            let p = xs[0].clone();
            xs.push(B { r: p.r.clone(), v: -p.v });
            xs.push(B { r: Rec::new(&p.r.chrom, p.r.start, p.r.end + 2), v: -1 });
        }
        xs.sort_by(|a, b| a.r.chrom.as_bytes().cmp(b.r.chrom.as_bytes()).then(a.r.start.cmp(&b.r.start)).then(a.r.end.cmp(&b.r.end)));
        if xs.is_empty() { continue; }
        // the value type of the instantiation (when every possible sum is exact in it)
        let ty = if rng.chance(1, 2) { 0 } else { rng.below(N_VTYPES) };
        let ty = if fits(&xs, ty) { ty } else if fits(&xs, 0) { 0 } else { 4 };
        out.push(Case::new(if small { "boundary" } else { "random" }, push_flavour(enc(&xs), ty)));
    }
    out
}

pub fn prop() -> PropDef {
    PropDef {
        id: "C08",
        rule: "corpus, then sorted non-empty bedGraph sequences with values in Z: small (1-9 records, coordinates 0..18, 1-3 chromosomes) and large (5-120 records, offsets up to u64::MAX-1e5); identical, nested, partially overlapping, book-ended records, several records starting/ending at one position with mixed signs, sums cancelling to zero, zero values. Non-trivial: >= 2 records, >= 2 groups, some group of size >= 2. Thorough adds the exhaustive small scope: every sorted sequence of <= 3 non-empty records over 2 chromosomes, coordinates 0..=3, values in {-1,0,2}. Distinct = distinct input token sequence.",
        observable: "output records of merge_sorted_bedgraph (BedGraph<i64>)",
        gen, exec, shrink, child: None,
    }
}
