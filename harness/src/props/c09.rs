//! C09: sort chunks survive short writes, short reads and surface I/O errors.
use super::common::*;
use crate::rng::Rng;
use crate::runner::{Case, PropDef, Tier};
use crate::tok::{R, W};
use bed_utils::extsort::{verif_dump, ExternalChunk};
use bincode::Options;
use serde::{de::DeserializeOwned, Serialize};
use std::io::{BufReader, BufWriter, Read, Write};

#[derive(Clone, Copy, Debug, PartialEq)]
enum WF { Accept(u64), Fail }
#[derive(Clone, Copy, Debug, PartialEq)]
enum RF { Give(u64), Interrupted, Fail }

struct FaultyWrite { data: Vec<u8>, plan: Vec<WF>, i: usize, calls: Vec<usize> }
impl Write for FaultyWrite {
    fn write(&mut self, buf: &[u8]) -> std::io::Result<usize> {
        self.calls.push(buf.len());
        if buf.is_empty() { return Ok(0); }
        let f = self.plan.get(self.i).copied();
        self.i += 1;
        match f {
            None => { self.data.extend_from_slice(buf); Ok(buf.len()) }
            Some(WF::Fail) => Err(std::io::Error::new(std::io::ErrorKind::Other, "injected write error")),
            Some(WF::Accept(k)) => { let n = (k.max(1) as usize).min(buf.len()); self.data.extend_from_slice(&buf[..n]); Ok(n) }
        }
    }
    fn flush(&mut self) -> std::io::Result<()> { Ok(()) }
}

struct FaultyRead { data: Vec<u8>, pos: usize, plan: Vec<RF>, i: usize, calls: std::rc::Rc<std::cell::RefCell<Vec<usize>>> }
impl Read for FaultyRead {
    fn read(&mut self, buf: &mut [u8]) -> std::io::Result<usize> {
        if buf.is_empty() { return Ok(0); }
        self.calls.borrow_mut().push(buf.len());
        let f = self.plan.get(self.i).copied();
        self.i += 1;
        let rem = self.data.len() - self.pos;
        let n = match f {
            None => buf.len().min(rem),
            Some(RF::Fail) => return Err(std::io::Error::new(std::io::ErrorKind::Other, "injected read error")),
            Some(RF::Interrupted) => return Err(std::io::Error::new(std::io::ErrorKind::Interrupted, "interrupted")),
            Some(RF::Give(k)) => (k.max(1) as usize).min(buf.len()).min(rem),
        };
        buf[..n].copy_from_slice(&self.data[self.pos..self.pos + n]);
        self.pos += n;
        Ok(n)
    }
}

#[derive(Clone)]
enum C {
    Wr { stack: u64, cap: usize, kind: u64, plan: Vec<WF>, ps: Vec<Vec<u8>> },
    Rd { stack: u64, kind: u64, plan: Vec<RF>, ps: Vec<Vec<u8>> },
}

fn enc(c: &C) -> Vec<String> {
    let mut w = W::new();
    match c {
        C::Wr { stack, cap, kind, plan, ps } => {
            w.s("w").n(*stack).n(*cap).n(*kind).n(plan.len());
            for f in plan { match f { WF::Accept(k) => { w.s("a").n(*k); } WF::Fail => { w.s("f"); } } }
            w.n(ps.len()); for p in ps { w.b(p); }
        }
        C::Rd { stack, kind, plan, ps } => {
            w.s("r").n(*stack).n(*kind).n(plan.len());
            for f in plan { match f { RF::Give(k) => { w.s("g").n(*k); } RF::Interrupted => { w.s("i"); } RF::Fail => { w.s("f"); } } }
            w.n(ps.len()); for p in ps { w.b(p); }
        }
    }
    w.0
}
fn dec(t: &[String]) -> Option<C> {
    let mut r = R::new(t);
    match r.tok()? {
        "w" => {
            let stack = r.u64()?; let cap = r.usize()?; let kind = r.u64()?;
            let plan = r.list(|r| match r.tok()? { "a" => Some(WF::Accept(r.u64()?)), "f" => Some(WF::Fail), _ => None })?;
            let ps = r.list(|r| r.bytes())?;
            Some(C::Wr { stack, cap, kind, plan, ps })
        }
        "r" => {
            let stack = r.u64()?; let kind = r.u64()?;
            let plan = r.list(|r| match r.tok()? { "g" => Some(RF::Give(r.u64()?)), "i" => Some(RF::Interrupted), "f" => Some(RF::Fail), _ => None })?;
            let ps = r.list(|r| r.bytes())?;
            Some(C::Rd { stack, kind, plan, ps })
        }
        _ => None,
    }
}

fn ser<T: Serialize>(x: &T) -> Vec<u8> { bincode::DefaultOptions::new().serialize(x).unwrap() }
fn items_of<T: DeserializeOwned>(ps: &[Vec<u8>]) -> Option<Vec<T>> { ps.iter().map(|p| bincode::DefaultOptions::new().deserialize::<T>(p).ok()).collect() }
fn res_tok(ok: bool) -> &'static str { if ok { "ok" } else { "err" } }

fn read_items<T: Serialize + DeserializeOwned>(reader: Box<dyn Read>, cap: usize, w: &mut W) {
    let chunk = ExternalChunk::<T>::verif_from_reader(reader);
    let mut out: Vec<Option<Vec<u8>>> = vec![];
    for it in chunk {
        match it { Ok(x) => out.push(Some(ser(&x))), Err(_) => { out.push(None); break; } }
        if out.len() > cap { break; }
    }
    w.n(out.len());
    for o in out { match o { Some(b) => { w.s("o").b(&b); } None => { w.s("e"); } } }
}

fn frames(ps: &[Vec<u8>]) -> Vec<u8> { let mut v = vec![]; for p in ps { v.extend_from_slice(&(p.len() as u64).to_le_bytes()); v.extend_from_slice(p); } v }
fn lz4_compress(data: &[u8]) -> Vec<u8> {
    let mut e = lz4::EncoderBuilder::new().level(1).build(Vec::new()).unwrap();
    e.write_all(data).unwrap();
    let (v, r) = e.finish(); r.unwrap(); v
}

/// returns the observable and the per-call buffer sizes seen by the storage
fn run_typed<T: Serialize + DeserializeOwned + Clone>(c: &C) -> Option<(String, Vec<usize>)> {
    let mut w = W::new();
    match c {
        C::Wr { stack, cap, plan, ps, .. } => {
            let items: Vec<T> = items_of(ps)?;
            let fw = FaultyWrite { data: vec![], plan: plan.clone(), i: 0, calls: vec![] };
            match stack {
                0 => {
                    let mut fw = fw;
                    let d = verif_dump(&mut fw, items).is_ok();
                    w.s(res_tok(d)).n(0).b(&fw.data).n(0);
                    Some((w.join(), fw.calls))
                }
                1 => {
                    let mut bw = BufWriter::with_capacity(*cap, fw);
                    let d = verif_dump(&mut bw, items).is_ok();
                    let f = if d { bw.flush().is_ok() } else { false };
                    let (fw, _) = bw.into_parts();
                    w.s(res_tok(d)).n(1).s(res_tok(f)).b(&fw.data).n(0);
                    Some((w.join(), fw.calls))
                }
                _ => {
                    let mut e = match lz4::EncoderBuilder::new().level(1).build(fw) {
                        Ok(e) => e,
                        // the encoder writes its header at construction: a failure there is a failed dump
                        Err(_) => { w.s("err").n(1).s("err").b(&[]).n(0); return Some((w.join(), vec![])); }
                    };
                    let d = verif_dump(&mut e, items).is_ok();
                    let (fw, r) = e.finish();
                    let f = d && r.is_ok();
                    w.s(res_tok(d)).n(1).s(res_tok(f)).b(&[]);
                    // read back what reached the storage: decode with the real decoder, check that the
                    // framing is walkable (a garbage length would make the chunk reader allocate
                    // without bound), then let the real chunk reader yield the items
                    let mut decoded = vec![];
                    let dec_ok = lz4::Decoder::new(std::io::Cursor::new(fw.data.clone())).and_then(|mut d| d.read_to_end(&mut decoded)).is_ok();
                    let mut pos = 0usize; let mut walkable = dec_ok;
                    while walkable && pos < decoded.len() {
                        if pos + 8 > decoded.len() { break; }
                        let n = u64::from_le_bytes(decoded[pos..pos + 8].try_into().unwrap()) as usize;
                        if n > decoded.len() - pos - 8 { walkable = false; } else { pos += 8 + n; }
                    }
                    if f && walkable { read_items::<T>(Box::new(std::io::Cursor::new(decoded)), ps.len() + 2, &mut w); }
                    else if f { w.n(1).s("e"); }
                    else { w.n(0); }
                    Some((w.join(), fw.calls))
                }
            }
        }
        C::Rd { stack, plan, ps, .. } => {
            let _: Vec<T> = items_of(ps)?;
            let calls = std::rc::Rc::new(std::cell::RefCell::new(vec![]));
            let content = if *stack == 2 { lz4_compress(&frames(ps)) } else { frames(ps) };
            let fr = FaultyRead { data: content, pos: 0, plan: plan.clone(), i: 0, calls: calls.clone() };
            match stack {
                0 => read_items::<T>(Box::new(fr), ps.len() + 2, &mut w),
                1 => read_items::<T>(Box::new(BufReader::new(fr)), ps.len() + 2, &mut w),
                // 100 + cap: BufReader of capacity cap (0 included: every read bypasses the buffer)
                s if *s >= 100 => read_items::<T>(Box::new(BufReader::with_capacity((*s - 100) as usize, fr)), ps.len() + 2, &mut w),
                _ => match lz4::Decoder::new(fr) { Ok(d) => read_items::<T>(Box::new(d), ps.len() + 2, &mut w), Err(_) => { w.n(1).s("e"); } },
            }
            let v = calls.borrow().clone();
            Some((w.join(), v))
        }
    }
}

fn run(c: &C) -> Option<(String, Vec<usize>)> {
    let kind = match c { C::Wr { kind, .. } | C::Rd { kind, .. } => *kind };
    if kind == 1 { run_typed::<()>(c) } else { run_typed::<Vec<u8>>(c) }
}

fn exec(t: &[String]) -> Option<String> {
    // a sort through the real chunk files, judged by the driver as a C01 case (see c01::real_file_cases)
    if t.first().map(|s| s.as_str()) == Some("sorter") { return super::c01::exec_tokens(&t[1..]); }
    run(&dec(t)?).map(|x| x.0)
}

fn shrink(t: &[String]) -> Vec<Vec<String>> {
    let Some(c) = dec(t) else { return vec![] };
    let mut out = vec![];
    let small = |ps: &Vec<Vec<u8>>| -> Vec<Vec<Vec<u8>>> {
        let mut v = shrink_vec(ps);
        for i in 0..ps.len() {
            // shorter payloads of the same shape (a Vec<u8> of n bytes)
            if let Ok(item) = bincode::DefaultOptions::new().deserialize::<Vec<u8>>(&ps[i]) {
                for n in shrink_u64(item.len() as u64) { let mut d = ps.clone(); d[i] = ser(&item[..n as usize].to_vec()); v.push(d); }
            }
        }
        v
    };
    match &c {
        C::Wr { stack, cap, kind, plan, ps } => {
            for p in shrink_vec(plan) { out.push(C::Wr { stack: *stack, cap: *cap, kind: *kind, plan: p, ps: ps.clone() }); }
            if *kind == 0 { for q in small(ps) { out.push(C::Wr { stack: *stack, cap: *cap, kind: *kind, plan: plan.clone(), ps: q }); } }
            else { for q in shrink_vec(ps) { out.push(C::Wr { stack: *stack, cap: *cap, kind: *kind, plan: plan.clone(), ps: q }); } }
            for cp in [16usize, 64, 1024] { if cp < *cap && *stack == 1 { out.push(C::Wr { stack: *stack, cap: cp, kind: *kind, plan: plan.clone(), ps: ps.clone() }); } }
        }
        C::Rd { stack, kind, plan, ps } => {
            for p in shrink_vec(plan) { out.push(C::Rd { stack: *stack, kind: *kind, plan: p, ps: ps.clone() }); }
            if *kind == 0 { for q in small(ps) { out.push(C::Rd { stack: *stack, kind: *kind, plan: plan.clone(), ps: q }); } }
            else { for q in shrink_vec(ps) { out.push(C::Rd { stack: *stack, kind: *kind, plan: plan.clone(), ps: q }); } }
        }
    }
    out.into_iter().map(|c| enc(&c)).collect()
}

fn payloads(sizes: &[usize], rng: &mut Rng) -> Vec<Vec<u8>> {
    // a Vec<u8> item whose *serialisation* (varint length + bytes) has exactly the wanted size where possible
    sizes.iter().map(|&s| {
        let n = if s == 0 { 0 } else if s <= 251 { s - 1 } else if s <= 65538 { s - 3 } else { s - 5 };
        let item: Vec<u8> = (0..n).map(|_| rng.next() as u8).collect();
        ser(&item)
    }).collect()
}

fn gen(rng: &mut Rng, tier: Tier) -> Vec<Case> {
    let mut out = vec![];
    for t in super::c01::real_file_cases(rng, tier) { let mut v = vec!["sorter".to_string()]; v.extend(t); out.push(Case::new("real-files", v)); }
    let size_sets: Vec<Vec<usize>> = match tier {
        Tier::Quick => vec![vec![10, 9000, 5], vec![1], vec![8191], vec![8192], vec![8193, 3], vec![70000], vec![3, 4, 5, 6], vec![]],
        Tier::Thorough => vec![vec![10, 9000, 5], vec![1], vec![2, 1], vec![8191], vec![8192], vec![8193, 3], vec![65536], vec![70000, 9], vec![3, 4, 5, 6], vec![], vec![200, 8000, 200, 8000], vec![8183], vec![8184], vec![8185]],
    };
    let cap_per_call = match tier { Tier::Quick => 5usize, Tier::Thorough => 40 };
    for sizes in &size_sets {
        let ps = payloads(sizes, rng);
        for stack in 0..3u64 {
            // --- write side: dry run to learn the sequence of storage write calls
            let base = C::Wr { stack, cap: 8192, kind: 0, plan: vec![], ps: ps.clone() };
            out.push(Case::new("no-fault", enc(&base)));
            if let Some((_, calls)) = run(&base) {
                let mut idxs: Vec<usize> = (0..calls.len()).collect();
                if idxs.len() > cap_per_call { rng.shuffle(&mut idxs); idxs.truncate(cap_per_call); idxs.sort(); }
                for i in idxs {
                    let n = calls[i] as u64;
                    let mut ks = vec![1u64, n / 2, n.saturating_sub(1)];
                    ks.retain(|k| *k >= 1 && *k < n); ks.dedup();
                    for k in ks {
                        let mut plan = vec![WF::Accept(u64::MAX); i]; plan.push(WF::Accept(k));
                        out.push(Case::new("single-short-write", enc(&C::Wr { stack, cap: 8192, kind: 0, plan, ps: ps.clone() })));
                    }
                    let mut plan = vec![WF::Accept(u64::MAX); i]; plan.push(WF::Fail);
                    out.push(Case::new("single-hard-write-error", enc(&C::Wr { stack, cap: 8192, kind: 0, plan, ps: ps.clone() })));
                }
            }
            // --- read side
            let base = C::Rd { stack, kind: 0, plan: vec![], ps: ps.clone() };
            out.push(Case::new("no-fault", enc(&base)));
            if let Some((_, calls)) = run(&base) {
                let mut idxs: Vec<usize> = (0..calls.len()).collect();
                if idxs.len() > cap_per_call { rng.shuffle(&mut idxs); idxs.truncate(cap_per_call); idxs.sort(); }
                for i in idxs {
                    let n = calls[i] as u64;
                    let mut ks = vec![1u64, n / 2, n.saturating_sub(1)];
                    ks.retain(|k| *k >= 1 && *k < n); ks.dedup();
                    for k in ks {
                        let mut plan = vec![RF::Give(u64::MAX); i]; plan.push(RF::Give(k));
                        out.push(Case::new("single-short-read", enc(&C::Rd { stack, kind: 0, plan, ps: ps.clone() })));
                    }
                    for f in [RF::Interrupted, RF::Fail] {
                        let mut plan = vec![RF::Give(u64::MAX); i]; plan.push(f);
                        out.push(Case::new(if f == RF::Fail { "single-hard-read-error" } else { "single-interrupt" }, enc(&C::Rd { stack, kind: 0, plan, ps: ps.clone() })));
                    }
                }
            }
        }
    }
    // zero-byte payloads (unit items), small BufWriter capacities, random multi-fault plans
    let nr = match tier { Tier::Quick => 300, Tier::Thorough => 6000 };
    for _ in 0..nr {
        let kind = if rng.chance(1, 6) { 1 } else { 0 };
        let n = rng.range(0, 5) as usize;
        let ps: Vec<Vec<u8>> = if kind == 1 { vec![vec![]; n] } else { let sizes: Vec<usize> = (0..n).map(|_| *rng.pick(&[1usize, 2, 7, 15, 16, 17, 40, 300, 8200])).collect(); payloads(&sizes, rng) };
        let stack = rng.below(3);
        if rng.chance(1, 2) {
            let cap = *rng.pick(&[8usize, 16, 17, 64, 8192]);
            let plan: Vec<WF> = (0..rng.range(0, 8)).map(|_| match rng.below(8) { 0 => WF::Fail, 1 | 2 => WF::Accept(u64::MAX), _ => WF::Accept(rng.range(1, 20)) }).collect();
            out.push(Case::new("random-multi-fault", enc(&C::Wr { stack, cap, kind, plan, ps })));
        } else {
            let plan: Vec<RF> = (0..rng.range(0, 10)).map(|_| match rng.below(10) { 0 => RF::Fail, 1 | 2 | 3 => RF::Interrupted, 4 => RF::Give(u64::MAX), _ => RF::Give(rng.range(1, 12)) }).collect();
            // the buffered reader also with small capacities (below, at and above the 8-byte header and the payloads)
            let stack = if stack == 1 && rng.chance(2, 3) { 100 + *rng.pick(&[0u64, 1, 2, 7, 8, 9, 16, 41, 64, 8192]) } else { stack };
            out.push(Case::new("random-multi-fault", enc(&C::Rd { stack, kind, plan, ps })));
        }
    }
    out
}

pub fn prop() -> PropDef {
    PropDef {
        id: "C09",
        rule: "corpus, then for record-size lists with payloads of 0 (unit items), 1, 8191/8192/8193 (around the BufWriter capacity), 9000, 65536, 70000 bytes and for each writer stack (bare storage, BufWriter, lz4 encoder) and reader stack (bare, BufReader, lz4 decoder): a dry run learns the sequence of storage write/read calls, then EVERY call (sampled to 5, thorough 40, per configuration when there are more) gets a single short write (accept 1, n/2, n-1 of n bytes), a single hard error, a single short read (1, n/2, n-1), a single Interrupted, a single hard read error; plus random multi-fault plans with BufWriter capacities 8..8192 and BufReader capacities 0..8192. Non-trivial: at least one fault of the plan is actually reached (for the modelled stacks: the model consumed a plan entry). Distinct = distinct input token sequence.",
        observable: "write side: Ok/Err of dump and flush/finish and, when Ok, the bytes that reached the storage (lz4: the items read back by the real decoder); read side: the item sequence up to and including the first error item",
        gen, exec, shrink, child: None,
    }
}
