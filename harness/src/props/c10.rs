//! C10: BinaryHeapMerger is ordered and complete, or it reports an error.
use super::common::*;
use crate::rng::Rng;
use crate::runner::{Case, PropDef, Tier};
use crate::tok::{R, W};
use bed_utils::extsort::BinaryHeapMerger;
use std::cmp::Ordering;

pub type SItem = (Vec<u64>, Vec<u8>);

#[derive(Debug)]
pub struct E(pub u64);
impl std::fmt::Display for E { fn fmt(&self, f: &mut std::fmt::Formatter<'_>) -> std::fmt::Result { write!(f, "E{}", self.0) } }
impl std::error::Error for E {}

#[derive(Clone, Debug, PartialEq)]
pub enum CI { Ok(SItem), Err(u64) }

#[derive(Clone)]
struct C { rev: bool, n: usize, chunks: Vec<Vec<CI>> }

pub fn put_sitem(w: &mut W, x: &SItem) { w.n(x.0.len()); for k in &x.0 { w.n(*k); } w.b(&x.1); }
pub fn get_sitem(r: &mut R) -> Option<SItem> { Some((r.list(|r| r.u64())?, r.bytes()?)) }
fn put_ci(w: &mut W, c: &CI) { match c { CI::Ok(x) => { w.s("o"); put_sitem(w, x); } CI::Err(e) => { w.s("e").n(*e); } } }

fn enc(c: &C) -> Vec<String> {
    let mut w = W::new();
    w.flag(c.rev).n(c.n).n(c.chunks.len());
    for ch in &c.chunks { w.n(ch.len()); for x in ch { put_ci(&mut w, x); } }
    w.0
}
fn dec(t: &[String]) -> Option<C> {
    let mut r = R::new(t);
    let rev = r.flag()?; let n = r.usize()?;
    let chunks = r.list(|r| r.list(|r| match r.tok()? { "o" => Some(CI::Ok(get_sitem(r)?)), "e" => Some(CI::Err(r.u64()?)), _ => None }))?;
    Some(C { rev, n, chunks })
}
pub fn cmp_key(rev: bool) -> impl Fn(&SItem, &SItem) -> Ordering + Copy + Send + Sync { move |a: &SItem, b: &SItem| if rev { b.0.cmp(&a.0) } else { a.0.cmp(&b.0) } }
fn valid(c: &C) -> bool {
    let f = cmp_key(c.rev);
    c.chunks.iter().all(|ch| { let oks: Vec<&SItem> = ch.iter().filter_map(|x| if let CI::Ok(i) = x { Some(i) } else { None }).collect(); oks.windows(2).all(|w| f(w[0], w[1]) != Ordering::Greater) })
}

/// A chunk stream that is not fused: after its (genuine) end every further `next()` yields an item that is in no
/// chunk. `Iterator` allows that; a merger that polls a chunk again after it has ended delivers the foreign item.
pub struct NonFused { items: std::vec::IntoIter<Result<SItem, E>>, ended: bool, fused: bool }
impl Iterator for NonFused {
    type Item = Result<SItem, E>;
    fn next(&mut self) -> Option<Self::Item> {
        match self.items.next() {
            Some(x) => Some(x),
            None if self.ended && !self.fused => Some(Ok((vec![7, 7, 7], b"polled-after-end".to_vec()))),
            None => { self.ended = true; None }
        }
    }
}

fn exec(t: &[String]) -> Option<String> {
    let c = dec(t)?;
    let total: usize = c.chunks.iter().map(|x| x.len()).sum();
    // (when some chunk holds an error the original polls the chunks again after delivering it; what a stream does
    // after its first error is not part of the property, so only error-free cases get non-fused chunks)
    let fused = mode_of(t) % 2 == 0 || c.chunks.iter().any(|ch| ch.iter().any(|x| matches!(x, CI::Err(_))));
    let chunks: Vec<NonFused> = c.chunks.iter().map(|ch| NonFused { items: ch.iter().map(|x| match x { CI::Ok(i) => Ok(i.clone()), CI::Err(e) => Err(E(*e)) }).collect::<Vec<_>>().into_iter(), ended: false, fused }).collect();
    let mut m = BinaryHeapMerger::new(c.n, chunks, cmp_key(c.rev));
    let len = m.len();
    let mut outs: Vec<CI> = vec![];
    let cap = total + c.chunks.len() + 5;
    let mut ended = false;
    for _ in 0..cap {
        match m.next() { None => { ended = true; break; } Some(Ok(x)) => outs.push(CI::Ok(x)), Some(Err(e)) => outs.push(CI::Err(e.0)) }
    }
    let mut w = W::new();
    w.n(outs.len());
    for x in &outs { put_ci(&mut w, x); }
    if ended { w.n(2); for _ in 0..2 { w.flag(m.next().is_some()); } } else { w.n(1).flag(true); }
    w.n(len);
    Some(w.join())
}

fn shrink(t: &[String]) -> Vec<Vec<String>> {
    let Some(c) = dec(t) else { return vec![] };
    let mut out = vec![];
    for chunks in shrink_vec(&c.chunks) { let n = chunks.iter().map(|c| c.iter().filter(|x| matches!(x, CI::Ok(_))).count()).sum(); out.push(C { chunks, n, rev: c.rev }); }
    // (per-chunk shrinking only once the number of chunks is small: every candidate is a copy of the whole case)
    if c.chunks.len() <= 200 { for i in 0..c.chunks.len() { for ch in shrink_vec(&c.chunks[i]) { let mut d = c.clone(); d.chunks[i] = ch; out.push(d); } } }
    if c.rev { out.push(C { rev: false, chunks: c.chunks.iter().map(|ch| { let mut v = ch.clone(); v.reverse(); v }).collect(), ..c.clone() }); }
    out.into_iter().filter(valid).map(|c| enc(&c)).collect()
}

fn gen(rng: &mut Rng, tier: Tier) -> Vec<Case> {
    let mut out = vec![];
    let n_cases = match tier { Tier::Quick => 1200, Tier::Thorough => 25000 };
    for i in 0..n_cases {
        let rev = rng.chance(1, 4);
        let k = match i % 12 { 0 => 0, 1 => 1, _ => rng.range(2, 6) as usize };
        let keys = if rng.chance(1, 2) { 3 } else { 50 };
        let with_err = rng.chance(1, 2);
        let mut tag = 0u64;
        let mut chunks = vec![];
        for _ in 0..k {
            let len = if rng.chance(1, 5) { 0 } else { rng.range(1, 6) as usize };
            let mut items: Vec<SItem> = (0..len).map(|_| { tag += 1; (vec![rng.below(keys)], tag.to_be_bytes()[6..].to_vec()) }).collect();
            items.sort_by(|a, b| a.0.cmp(&b.0));
            if rev { items.reverse(); }
            let mut ch: Vec<CI> = items.into_iter().map(CI::Ok).collect();
            if with_err && rng.chance(1, 2) {
                let pos = match rng.below(3) { 0 => 0, 1 => ch.len(), _ => rng.below(ch.len() as u64 + 1) as usize };
                ch.insert(pos, CI::Err(100 + rng.below(5)));
                if rng.chance(1, 5) { ch.push(CI::Err(200)); }
            }
            chunks.push(ch);
        }
        let n = chunks.iter().map(|c| c.iter().filter(|x| matches!(x, CI::Ok(_))).count()).sum();
        out.push(Case::new(if i % 2 == 0 { "boundary" } else { "random" }, enc(&C { rev, n, chunks })));
    }
    // many chunk streams: just above 2^8 and 2^16 of them, one or two items each (the later chunks included)
    let ks: &[usize] = match tier { Tier::Quick => &[257, 65_537], Tier::Thorough => &[256, 257, 300, 65_536, 65_537, 70_000] };
    for &k in ks {
        let rev = rng.chance(1, 3);
        let mut tag = 0u64;
        let chunks: Vec<Vec<CI>> = (0..k).map(|_| {
            let len = rng.range(1, 2) as usize;
            let mut items: Vec<SItem> = (0..len).map(|_| { tag += 1; (vec![rng.below(1000)], tag.to_be_bytes()[4..].to_vec()) }).collect();
            items.sort_by(|a, b| a.0.cmp(&b.0));
            if rev { items.reverse(); }
            items.into_iter().map(CI::Ok).collect()
        }).collect();
        let n = chunks.iter().map(|c| c.len()).sum();
        out.push(Case::new("many-chunks", enc(&C { rev, n, chunks })));
    }
    out
}

pub fn prop() -> PropDef {
    PropDef {
        id: "C10",
        rule: "corpus, then tuples of 0-6 individually sorted chunk streams of 0-6 items ((key, tag) compared by key only: ties within and across chunks; keys from 3 or 50 values; normal or reversed comparator), in half of the cases with error items placed at the first position (error while priming), in the middle, at the end, in several chunks at once; the stream is drained, two further next() calls are made after the end, len() is read; and merges of 257 and 65 537 chunk streams of one or two items (thorough: 256..70 000). Non-trivial: >= 2 non-empty chunks. Distinct = distinct input token sequence.",
        observable: "merged items up to the first error (tie classes canonicalised), the first error, two next() calls after the end, len()",
        gen, exec, shrink, child: None,
    }
}
