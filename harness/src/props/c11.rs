//! C11: GIntervalIndexSet / GIntervalIndexMap keep positional identity.
use super::common::*;
use crate::rng::Rng;
use crate::runner::{Case, PropDef, Tier};
use crate::tok::{R, W};
use bed_utils::bed::map::{GIntervalIndexMap, GIntervalIndexSet};
use bed_utils::bed::{BEDLike, GenomicRange};

#[derive(Clone)]
struct C { xs: Vec<Rec>, qs: Vec<Rec> }

fn enc(c: &C) -> Vec<String> {
    let mut w = W::new();
    w.n(c.xs.len());
    for r in &c.xs { r.put(&mut w); }
    w.n(c.qs.len());
    for q in &c.qs { q.put(&mut w); }
    w.0
}
fn dec(t: &[String]) -> Option<C> {
    let (t, _) = split_flavour(t);
    let mut r = R::new(t);
    Some(C { xs: r.list(Rec::get)?, qs: r.list(Rec::get)? })
}

fn put_opt(w: &mut W, g: Option<&GenomicRange>) {
    match g { None => { w.n(0); } Some(g) => { w.n(1); put_gr(w, g); } }
}

fn exec(t: &[String]) -> Option<String> {
    let c = dec(t)?;
    let n = c.xs.len();
    let fl = split_flavour(t).1;
    // regions and queries carried by the flavour's BEDLike implementor
    let set: GIntervalIndexSet = crate::with_bedlikes!(fl, &c.xs, |xs| xs.into_iter().collect());
    let mut w = W::new();
    w.n(set.len());
    let mode = mode_of(t);
    let it: Vec<&GenomicRange> = drain_mode(set.iter(), mode);
    w.n(it.len());
    for g in it { put_gr(&mut w, g); }
    let into: Vec<GenomicRange> = drain_mode(set.clone().into_iter(), mode / 5);
    w.n(into.len());
    for g in &into { put_gr(&mut w, g); }
    w.n(n + 3);
    for i in 0..n + 3 {
        put_opt(&mut w, set.get(i));
        let idx = std::panic::catch_unwind(std::panic::AssertUnwindSafe(|| set[i].clone())).ok();
        put_opt(&mut w, idx.as_ref());
    }
    w.n(c.qs.len());
    for (qi, q) in c.qs.iter().enumerate() {
      crate::with_bedlike!(rot_flavour(fl, qi), q, |q| {
        w.flag(set.is_overlapped(&q));
        let f: Vec<GenomicRange> = drain_mode(set.find(&q), mode + qi as u64);
        w.n(f.len());
        for g in &f { put_gr(&mut w, g); }
        let fi: Vec<usize> = drain_mode(set.find_index_of(&q), mode / 5 + qi as u64);
        w.n(fi.len());
        for i in fi { w.n(i); }
        let ff: Vec<(GenomicRange, usize)> = drain_mode(set.find_full(&q).map(|(g, i)| (g, *i)), mode / 25 + qi as u64);
        w.n(ff.len());
        for (g, i) in &ff { put_gr(&mut w, g); w.n(*i); }
      });
    }
    let map: GIntervalIndexMap<u64> = crate::with_bedlikes!(fl, &c.xs, |xs| xs.into_iter().enumerate().map(|(i, r)| (r, 1000 + i as u64)).collect());
    w.n(map.len());
    w.n(n + 3);
    for i in 0..n + 3 {
        match map.get(i) { None => { w.n(0); } Some(v) => { w.n(1).n(*v); } }
    }
    w.n(c.qs.len());
    for (qi, q) in c.qs.iter().enumerate() {
      crate::with_bedlike!(rot_flavour(fl, qi), q, |q| {
        let f: Vec<(GenomicRange, u64)> = drain_mode(map.find(&q).map(|(g, v)| (g, *v)), mode / 125 + qi as u64);
        w.n(f.len());
        for (g, v) in &f { put_gr(&mut w, g); w.n(*v); }
        let fi: Vec<(GenomicRange, usize)> = map.find_index_of(&q).map(|(g, i)| (g, *i)).collect();
        w.n(fi.len());
        for (g, i) in &fi { w.b(g.chrom().as_bytes()).n(g.start()).n(g.end()).n(*i); }
      });
    }
    Some(w.join())
}

fn shrink(t: &[String]) -> Vec<Vec<String>> { shrink_flavoured(t, shrink0) }
fn shrink0(t: &[String]) -> Vec<Vec<String>> {
    let Some(c) = dec(t) else { return vec![] };
    let mut out = vec![];
    for qs in shrink_vec(&c.qs) { out.push(C { xs: c.xs.clone(), qs }); }
    for xs in shrink_vec(&c.xs) { out.push(C { xs, qs: c.qs.clone() }); }
    for i in 0..c.xs.len() {
        let r = &c.xs[i];
        if r.end > r.start + 1 { let mut d = c.clone(); d.xs[i].end = r.start + (r.end - r.start) / 2; out.push(d); }
        if r.start > 0 { let mut d = c.clone(); d.xs[i].start = r.start / 2; out.push(d); }
    }
    out.into_iter().filter(|c| c.qs.iter().all(|q| q.start < q.end)).map(|c| enc(&c)).collect()
}

fn gen(rng: &mut Rng, tier: Tier) -> Vec<Case> {
    let mut out = vec![];
    let n_cases = match tier { Tier::Quick => 400, Tier::Thorough => 6000 };
    for i in 0..n_cases {
        let small = i % 3 != 0;
        let nch = rng.range(1, 3) as usize;
        let chroms: Vec<&str> = gen_chroms(rng, nch);
        let n = if i % 40 == 0 { 0 } else if small { rng.range(1, 7) as usize } else { rng.range(5, 80) as usize };
        let max = if small { 20 } else { 3000 };
        let base = if !small && rng.chance(1, 5) { u64::MAX - 10_000 } else { 0 };
        let ivs = gen_intervals(rng, n, max, true);
        let xs: Vec<Rec> = ivs.iter().map(|(s, e)| Rec::new(*rng.pick(&chroms[..]), base + s, base + e)).collect();
        let mut qs = vec![];
        for ch in &chroms {
            let pts: Vec<u64> = xs.iter().filter(|r| r.chrom == *ch).flat_map(|r| [r.start, r.end]).collect();
            let a = around(&pts);
            for _ in 0..12 { let s = *rng.pick(&a); let e = *rng.pick(&a); if s < e { qs.push(Rec::new(ch, s, e)); } }
        }
        if rng.chance(1, 4) { qs.push(Rec::new("nochrom", 0, 100)); }
        out.push(Case::new(if small { "boundary" } else { "random" }, enc(&C { xs, qs })));
    }
    if tier == Tier::Thorough {
        // a LONG-LIVED index: 1100-1500 queries answered by one object (anything that adapts itself to the queries it has seen
        // — statistics, self-tuning, lazily built side tables — has changed by then); one long region over many short ones
        for k in 0..2u64 {
            let mut xs: Vec<Rec> = vec![Rec::new("chr1", 0, 5000)];
            for i in 0..40u64 { xs.push(Rec::new("chr1", 100 * i + 10, 100 * i + 10 + rng.range(1, 30))); }
            if k == 1 { xs.push(Rec::new("chr2", 5, 50)); rng.shuffle(&mut xs); }
            let qs: Vec<Rec> = (0..rng.range(1100, 1500)).map(|_| { let s = rng.below(5200); Rec::new("chr1", s, s + rng.range(1, 8)) }).collect();
            out.push(Case::new("long-lived", enc(&C { xs, qs })));
        }
        // LARGE region sets: more than 2^16 regions (a 16-bit position, a block-wise build), on one, two or 300 chromosomes;
        // the driver evaluates only the spec on these (array-based), not the quadratic model
        for (n, nch) in [(9_000usize, 2usize), (70_000, 1), (66_000, 300)] {
            let xs: Vec<Rec> = (0..n as u64).map(|i| { let ch = format!("ctg{}", if nch == 300 { i % 300 } else { (i * nch as u64) / n as u64 }); Rec::new(&ch, 10 * (i / if nch == 300 { 300 } else { 1 }), 10 * (i / if nch == 300 { 300 } else { 1 }) + rng.range(1, 14)) }).collect();
            let mut qs = vec![];
            for _ in 0..30 {
                let r = rng.pick(&xs).clone();
                let s = r.start.saturating_sub(rng.below(25)); qs.push(Rec::new(&r.chrom, s, s + rng.range(1, 60)));
            }
            // the last regions (positions above 2^16) in particular
            for k in 1..6 { let r = xs[n - k].clone(); qs.push(Rec::new(&r.chrom, r.start, r.end)); }
            out.push(Case::new("large", enc(&C { xs, qs })));
        }
    }
    add_flavours(rng, &mut out);
    out
}

pub fn prop() -> PropDef {
    PropDef {
        id: "C11",
        rule: "corpus, then region sequences (0-80 regions incl. duplicates, zero-length, interleaved chromosomes, unsorted coordinates, offsets up to u64::MAX-1e4) with queries whose endpoints are drawn from {e-1,e,e+1} ∪ {0}; positional accessors probed for every index 0..len+2. Non-trivial: >= 2 regions and a query hits some but not all positions. Distinct = distinct input token sequence.",
        observable: "GIntervalIndexSet::{len,iter,into_iter,get,index,is_overlapped,find,find_index_of,find_full}, GIntervalIndexMap::{len,get,find,find_index_of}; query results as sorted multisets",
        gen, exec, shrink, child: None,
    }
}
