//! C12: record parsers are total and name the offending column.
use super::common::*;
use super::text::*;
use crate::rng::Rng;
use crate::runner::{Case, PropDef, Tier};
use crate::tok::{R, W};

fn enc(ty: Ty, line: &str) -> Vec<String> {
    let mut w = W::new();
    w.n(ty.code()).b(line.as_bytes());
    put_ptab(&mut w, &[line]);
    w.0
}
fn dec(t: &[String]) -> Option<(Ty, String)> { let mut r = R::new(t); Some((Ty::from(r.u64()?)?, r.string()?)) }

fn exec(t: &[String]) -> Option<String> {
    let (ty, line) = dec(t)?;
    let mut w = W::new();
    put_pres(&mut w, ty, &line);
    // the same line between two well-formed lines of a Reader (the property also observes the reader's items: the
    // line gets its one item, the blank line included, and its neighbours are unaffected); a line with CR or LF
    // inside is several lines to a reader and stays with C04
    if !line.contains('\n') && !line.contains('\r') {
        let (a, b) = reader_status(ty, &line);
        w.s("rd").s(&a).s(&b);
    }
    Some(w.join())
}

fn shrink(t: &[String]) -> Vec<Vec<String>> {
    let Some((ty, line)) = dec(t) else { return vec![] };
    let mut out = vec![];
    let cols: Vec<&str> = line.split('\t').collect();
    for v in shrink_vec(&cols) { if !v.is_empty() || cols.len() == 1 { out.push(enc(ty, &v.join("\t"))); } }
    for i in 0..cols.len() {
        let cs: Vec<char> = cols[i].chars().collect();
        for v in shrink_vec(&cs) { let mut c2: Vec<String> = cols.iter().map(|s| s.to_string()).collect(); c2[i] = v.into_iter().collect(); out.push(enc(ty, &c2.join("\t"))); }
    }
    out
}

const BAD: &[&str] = &["", "x", "-1", "1.5", "18446744073709551616", " 1", "1 ", "+1", "007", "1e3", "NaN", "inf", "-", "+", ".", "4294967296", "1000", "1001", "９", "-0", "0x10", "1\u{0}"];

fn gen(rng: &mut Rng, tier: Tier) -> Vec<Case> {
    let mut out = vec![];
    let mut push = |stream: &str, ty: Ty, line: String| out.push(Case::new(stream, enc(ty, &line)));
    let reps = match tier { Tier::Quick => 6, Tier::Thorough => 80 };
    for ty in Ty::ALL {
        for _ in 0..reps {
            let rec = gen_wf(rng, ty);
            let mut valid = to_text(ty, &rec);
            if ty == Ty::Gr && rng.chance(1, 2) { valid = format!("{}:{}-{}", rec.chrom, rec.start, rec.end); }
            let cols: Vec<String> = valid.split('\t').map(|s| s.to_string()).collect();
            push("boundary", ty, valid.clone());
            // every prefix of the valid line
            for k in 0..cols.len() { push("boundary", ty, cols[..k].join("\t")); }
            // each single-column corruption
            for i in 0..cols.len() {
                for _ in 0..3 { let mut c = cols.clone(); c[i] = (*rng.pick(BAD)).to_string(); push("boundary", ty, c.join("\t")); }
            }
            // trailing extra columns
            push("boundary", ty, format!("{}\textra", valid));
            push("boundary", ty, format!("{}\t\t\t", valid));
            push("boundary", ty, format!("{}\t{}", valid, *rng.pick(BAD)));
        }
        for s in ["", "\t", "\t\t", "\t\t\t\t\t\t\t\t\t\t", "\u{1F9EC}", "chr1", "chr1\t", "\n", "chr1\t1\t2\n", ":", "-", "::--", "chr1:1-2-3", "chr1:1:2:3"] {
            push("boundary", ty, s.to_string());
        }
        // long lines: a multi-byte character straddling every byte offset 1..200 (in a malformed line, in a valid
        // line's name column, and in a trailing extra column)
        {
            let rec = gen_wf(rng, ty);
            let valid = to_text(ty, &rec);
            let cols: Vec<String> = valid.split('\t').map(|s| s.to_string()).collect();
            let step = match tier { Tier::Quick => 7, Tier::Thorough => 1 };
            let mut k = (rng.below(step) + 1) as usize;
            while k <= 200 {
                let wide = *rng.pick(&["\u{221e}", "\u{e9}", "\u{1F9EC}", "\u{67d3}"][..]);
                let pad = "a".repeat(k);
                push("boundary", ty, format!("{}{}{}", pad, wide, "b".repeat(8)));                               // one column: missing start
                push("boundary", ty, format!("{}{}\t12\tx{}", pad, wide, wide));                              // invalid end, long chrom
                push("boundary", ty, format!("{}\t{}{}z", valid, pad, wide));                                  // valid + long extra column
                if cols.len() >= 3 { let mut c = cols.clone(); let last = c.len() - 1; c[last] = format!("{}{}", pad, wide); push("boundary", ty, c.join("\t")); } // last required column corrupted
                k += step as usize;
            }
        }
        // random soup
        let nr = match tier { Tier::Quick => 60, Tier::Thorough => 1500 };
        for _ in 0..nr {
            let n = rng.range(0, 12);
            let mut s = String::new();
            for _ in 0..n {
                match rng.below(4) { 0 => s.push('\t'), 1 => s.push_str(*rng.pick(BAD)), 2 => s.push_str(*rng.pick(&["chr1", "5", "100", ".", "+", "-", "0.5", "-1", "2.5e-3"][..])), _ => s.push(*rng.pick(&['1', '9', 'x', '.', '-', '+', ':', 'é', ' '][..])) }
                if rng.chance(1, 2) { s.push('\t'); }
            }
            push("random", ty, s);
        }
    }
    if tier == Tier::Thorough {
        // exhaustive: all strings over a 6-letter alphabet up to length 5, for every type
        let alpha = ['\t', '1', '-', '.', '+', 'x'];
        for len in 0..=5usize {
            let total = alpha.len().pow(len as u32);
            for mut k in 0..total {
                let mut s = String::new();
                for _ in 0..len { s.push(alpha[k % alpha.len()]); k /= alpha.len(); }
                for ty in Ty::ALL { push("exhaustive", ty, s.clone()); }
            }
        }
    }
    out
}

pub fn prop() -> PropDef {
    PropDef {
        id: "C12",
        rule: "corpus, then for each of the 9 record types (GenomicRange, BED<3..6>, NarrowPeak, BroadPeak, BedGraph<i64>, BedGraph<f64>): valid lines of random records, every prefix of them (0..N columns), every single-column corruption drawn from 22 malformed tokens (empty, non-numeric, negative, fractional, > u64::MAX, padded, '+1', '007', bad strand, non-ASCII digits ...), trailing extra columns, empty string, lone separators, Unicode, random token soup, lines of 10-220 bytes with a 2-4-byte UTF-8 character at every byte offset; thorough adds ALL strings over {TAB,1,-,.,+,x} up to length 5 for every type. Non-trivial: the line must be rejected, or has extra columns. Distinct = distinct (type, line).",
        observable: "str::parse::<T>(): Ok(fields) | Err(class of ParseError) | panic; and for the same line fed to Reader::records / into_records: for the line between two well-formed lines, three items with the middle one Ok | Err, or a neighbour lost, another count, a panic",
        gen, exec, shrink, child: None,
    }
}
