//! C13: overlap, n_overlap, len, compare follow half-open set semantics (all record types).
use super::common::*;
use crate::rng::Rng;
use crate::runner::{Case, PropDef, Tier};
use crate::tok::{R, W};
use bed_utils::bed::{BEDLike, BedGraph, BroadPeak, NarrowPeak, OptionalFields, BED};

#[derive(Clone)]
struct C { ty: u64, ty2: u64, xs: Vec<Rec> }

fn enc(c: &C) -> Vec<String> {
    let mut w = W::new();
    w.n(c.ty).n(c.ty2).n(c.xs.len());
    for r in &c.xs { r.put(&mut w); }
    w.0
}
fn dec(t: &[String]) -> Option<C> {
    let mut r = R::new(t);
    Some(C { ty: r.u64()?, ty2: r.u64()?, xs: r.list(Rec::get)? })
}

pub fn mk_bed<const N: u8>(r: &Rec) -> BED<N> {
    BED::new(r.chrom.clone(), r.start, r.end, Some("n".into()), None, None, OptionalFields::default())
}
pub fn mk_np(r: &Rec) -> NarrowPeak {
    NarrowPeak { chrom: r.chrom.clone(), start: r.start, end: r.end, name: None, score: None, strand: None, signal_value: 1.5, p_value: None, q_value: Some(0.5), peak: 3 }
}
pub fn mk_bp(r: &Rec) -> BroadPeak {
    BroadPeak { chrom: r.chrom.clone(), start: r.start, end: r.end, name: None, score: None, strand: None, signal_value: 1.5, p_value: None, q_value: None }
}
pub fn mk_bg(r: &Rec) -> BedGraph<i64> { BedGraph::new(r.chrom.clone(), r.start, r.end, -7) }

fn ord(o: std::cmp::Ordering) -> &'static str {
    match o { std::cmp::Ordering::Less => "lt", std::cmp::Ordering::Equal => "eq", std::cmp::Ordering::Greater => "gt" }
}

fn observe<A: BEDLike + Clone, B: BEDLike + Clone>(xs: &[A], ys: &[B]) -> String {
    // every second record is REBUILT IN PLACE through the setters from a record of the other flavour (its name buffer, if the
    // type keeps one, is overwritten): what was computed for the old content must not stick to the new one
    let mut rebuilt: Vec<A> = xs.to_vec();
    let mut pre: std::collections::HashMap<(usize, usize), std::cmp::Ordering> = Default::default();
    if !ys.is_empty() {
        for i in (1..xs.len()).step_by(2) {
            let src = &xs[i];
            let z = &mut rebuilt[i - 1];
            // (every other time) first compare the old content, so that anything remembered about these two buffers is fresh;
            // then overwrite it, compare (now remembered for the NEW content), and put the old content back
            if (src.start() ^ src.end() ^ i as u64) % 2 == 0 { let _ = z.compare(src); let _ = src.compare(z); let _ = z.overlap(src); }
            let old = xs[i - 1].to_genomic_range();
            z.set_chrom(src.chrom()).set_start(src.start()).set_end(src.end());
            let _ = z.compare(src); let _ = z.n_overlap(src);
            z.set_chrom(old.chrom()).set_start(old.start()).set_end(old.end());
            // the very next question about these two records, asked before anything else is compared, is the one reported for
            // this pair below
            let first = z.compare(src);
            pre.insert((i - 1, i), first);
        }
    }
    let xs: &[A] = &rebuilt;
    let mut w = W::new();
    w.n(xs.len());
    for a in xs { w.n(a.len()); }
    w.n(xs.len());
    // the range of a record, read directly (even positions) or from a record of the OTHER flavour that was given
    // this one's chromosome, start and end through the setters (odd positions)
    for (i, a) in xs.iter().enumerate() {
        if i % 2 == 0 { put_gr(&mut w, &a.to_genomic_range()); }
        else { let mut z = ys[(i + 1) % ys.len()].clone(); z.set_chrom(a.chrom()).set_start(a.start()).set_end(a.end()); put_gr(&mut w, &z.to_genomic_range()); }
    }
    w.n(xs.len() * xs.len());
    for (i, a) in xs.iter().enumerate() {
        for (j, b) in ys.iter().enumerate() {
            match a.overlap(b) { None => { w.n(0); } Some(g) => { w.n(1); put_gr(&mut w, &g); } }
            w.n(a.n_overlap(b));
            w.s(ord(match pre.get(&(i, j)) { Some(o) => *o, None => a.compare(&xs[j]) }));
            w.s(ord(a.to_genomic_range().cmp(&xs[j].to_genomic_range())));
            let _ = i;
        }
    }
    w.join()
}

fn exec(t: &[String]) -> Option<String> {
    let c = dec(t)?;
    // ty, ty2: flavours (type x strand/name/score variant) of `self` and of `other`
    Some(crate::with_bedlikes!(c.ty, &c.xs, |xs| crate::with_bedlikes!(c.ty2, &c.xs, |ys| observe(&xs, &ys))))
}

fn shrink(t: &[String]) -> Vec<Vec<String>> {
    let Some(c) = dec(t) else { return vec![] };
    let mut out = vec![];
    for xs in shrink_vec(&c.xs) { out.push(C { xs, ..c.clone() }); }
    if c.ty != 0 { out.push(C { ty: 0, ..c.clone() }); }
    if c.ty2 != 0 { out.push(C { ty2: 0, ..c.clone() }); }
    for i in 0..c.xs.len() {
        for s in shrink_u64(c.xs[i].start) { let mut d = c.clone(); d.xs[i].start = s; out.push(d); }
        for e in shrink_u64(c.xs[i].end) { let mut d = c.clone(); d.xs[i].end = e; out.push(d); }
        if c.xs[i].chrom != "c" { let mut d = c.clone(); d.xs[i].chrom = "c".into(); out.push(d); }
    }
    out.into_iter().map(|c| enc(&c)).collect()
}

fn gen(rng: &mut Rng, tier: Tier) -> Vec<Case> {
    let mut out = vec![];
    let n_cases = match tier { Tier::Quick => 1500, Tier::Thorough => 30000 };
    for i in 0..n_cases {
        let k = if i % 4 == 0 { 2 } else { 3 };
        let base = match rng.below(5) { 0 => u64::MAX - 12, 1 => rng.below(1 << 50), _ => 0 };
        let chroms: Vec<&str> = gen_chroms(rng, 2);
        let mut xs: Vec<Rec> = vec![];
        for _ in 0..k {
            let ch = if rng.chance(3, 4) { chroms[0] } else { chroms[1] };
            let r = match rng.below(10) {
                // long records: lengths whose sum, or start + length, exceeds u64::MAX
                8 => { let s = rng.below(4); Rec::new(ch, s, u64::MAX - rng.below(3)) }
                9 => { let s = rng.below(4) + if rng.chance(1, 2) { 1 << 62 } else { 0 }; Rec::new(ch, s, (1u64 << 63) + rng.below(5) - 2) }
                0 if !xs.is_empty() => xs[0].clone(),
                1 if !xs.is_empty() => { let p = &xs[0]; Rec::new(ch, p.end, p.end.saturating_add(rng.below(4))) }        // adjacent
                2 if !xs.is_empty() => { let p = &xs[0]; Rec::new(ch, p.end.saturating_sub(1), p.end.saturating_add(rng.below(4))) } // one-base overlap
                3 if !xs.is_empty() => { let p = &xs[0]; Rec::new(ch, p.start.saturating_add(1), p.end.saturating_sub(1)) }      // nested (or inverted when short)
                4 => { let s = base + rng.below(12); Rec::new(ch, s, s) }
                5 => { let s = base + rng.below(12); Rec::new(ch, s, s.saturating_sub(rng.below(3))) }                      // end < start
                _ => { let s = base + rng.below(12); Rec::new(ch, s, s.saturating_add(rng.below(8)).min(u64::MAX)) }
            };
            xs.push(r);
        }
        out.push(Case::new(if base == 0 { "boundary" } else { "random" }, enc(&C { ty: gen_flavour(rng), ty2: gen_flavour(rng), xs })));
    }
    out
}

pub fn prop() -> PropDef {
    PropDef {
        id: "C13",
        rule: "corpus, then pairs and triples of records (same/different chromosome incl. prefix names, disjoint, adjacent, one-base overlap, nested, identical, zero-length, end < start, coordinates at 0, around 2^50 and up to u64::MAX, records spanning almost the whole u64 range so that len+len and start+len exceed u64::MAX) for every record type and field variant as `self` and as `other` (GenomicRange, BED<3,4,5,6,12>, NarrowPeak, BroadPeak, BedGraph<i64/f64> x strand none/+/- x name/score present or absent); all ordered pairs observed. Non-trivial: >= 2 records of which two distinct ones share a chromosome and touch, overlap or nest. Distinct = distinct input token sequence.",
        observable: "BEDLike::{len,to_genomic_range,overlap,n_overlap,compare} and Ord for GenomicRange on all ordered pairs",
        gen, exec, shrink, child: None,
    }
}
