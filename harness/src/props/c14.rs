//! C14: split_by_len / rsplit_by_len tile a record exactly.
use super::common::*;
use crate::rng::Rng;
use crate::runner::{Case, PropDef, Tier};
use crate::tok::{R, W};
use bed_utils::bed::map::GIntervalIndexSet;
use bed_utils::bed::{BEDLike, GenomicRange};
use bed_utils::coverage::{BinnedCoverage, SparseBinnedCoverage};

fn enc(r: &Rec, bin: u64) -> Vec<String> { let mut w = W::new(); r.put(&mut w); w.n(bin); w.0 }
fn dec(t: &[String]) -> Option<(Rec, u64)> { let (t, _) = split_flavour(t); let mut r = R::new(t); Some((Rec::get(&mut r)?, r.u64()?)) }

fn guarded(f: impl FnOnce() -> Vec<GenomicRange>) -> String {
    match std::panic::catch_unwind(std::panic::AssertUnwindSafe(f)) {
        Err(_) => "panic".to_string(),
        Ok(v) => { let mut w = W::new(); w.n(v.len()); for g in &v { put_gr(&mut w, g); } w.join() }
    }
}

fn exec(t: &[String]) -> Option<String> {
    let (r, bin) = dec(t)?;
    let fl = split_flavour(t).1;
    let g = r.gr();
    // the tiling is a function of (chrom, start, end, bin) for every implementor of BEDLike, whatever its other fields hold
    let (a, b) = crate::with_bedlike!(fl, &r, |x| (guarded(|| drain_mode(x.split_by_len(bin), mode_of(t))), guarded(|| drain_mode(x.rsplit_by_len(bin), mode_of(t) / 5))));
    // the coverage counters allocate one counter per bin: only build them for small tilings
    let nb = (r.end - r.start).div_ceil(bin.max(1));
    let (c, d) = if nb <= 100_000 {
        let set: GIntervalIndexSet = vec![g.clone()].into_iter().collect();
        (guarded(|| { let bc: BinnedCoverage<u32> = BinnedCoverage::new(&set, bin); let v: Vec<GenomicRange> = bc.regions().flatten().collect(); v }),
         guarded(|| { let bc: SparseBinnedCoverage<u32> = SparseBinnedCoverage::new(&set, bin); let v: Vec<GenomicRange> = bc.regions().flatten().collect(); v }))
    } else { (a.clone(), a.clone()) };
    Some(format!("{} {} {} {}", a, b, c, d))
}

fn valid(r: &Rec, bin: u64) -> bool {
    // keep the number of pieces enumerable
    r.start <= r.end && bin >= 1 && (r.end - r.start).div_ceil(bin) <= 5000
}

fn shrink(t: &[String]) -> Vec<Vec<String>> {
    let Some((r, bin)) = dec(t) else { return vec![] };
    let mut out = vec![];
    for s in shrink_u64(r.start) { out.push((Rec { start: s, ..r.clone() }, bin)); let d = r.start - s; out.push((Rec { start: s, end: r.end - d, ..r.clone() }, bin)); }
    for e in shrink_u64(r.end) { out.push((Rec { end: e, ..r.clone() }, bin)); }
    for b in shrink_u64(bin) { out.push((r.clone(), b)); }
    if r.chrom != "c" { out.push((Rec { chrom: "c".into(), ..r.clone() }, bin)); }
    let fl = split_flavour(t).1;
    let mut v: Vec<Vec<String>> = vec![];
    if fl != 0 { v.push(enc(&r, bin)); }
    v.extend(out.into_iter().filter(|(r, b)| valid(r, *b)).map(|(r, b)| push_flavour(enc(&r, b), fl)));
    v
}

fn gen(rng: &mut Rng, tier: Tier) -> Vec<Case> {
    let mut out = vec![];
    let mut frng = rng.fork();
    let mut push = |stream: &str, r: Rec, bin: u64| { if valid(&r, bin) { let f = gen_flavour(&mut frng); out.push(Case::new(stream, push_flavour(enc(&r, bin), f))); } };
    // boundary: small exhaustive grid, at offset 0 and just below u64::MAX
    let lim = match tier { Tier::Quick => 9, Tier::Thorough => 24 };
    for off in [0u64, 3, u64::MAX - 40] {
        for s in [0u64, 1, 5] {
            for len in 0..=lim {
                for bin in (1..=lim + 2).chain([u64::MAX, u64::MAX - 1, 1 << 63]) {
                    let start = off + s;
                    if let Some(end) = start.checked_add(len) { push("boundary", Rec::new("chr1", start, end), bin); }
                }
            }
        }
    }
    for len in 0..=12u64 { push("boundary", Rec::new("chrM", u64::MAX - len, u64::MAX), 1 + len / 2); push("boundary", Rec::new("chrM", u64::MAX - len, u64::MAX), u64::MAX); }
    // LONG records (above 2^24, 2^32, 2^53 bases, up to the whole coordinate range) in a few to a few thousand pieces, the bin
    // size a quotient of the length or next to one: arithmetic that is exact only below some magnitude (f32 / f64 / u32)
    let nl = match tier { Tier::Quick => 150, Tier::Thorough => 1000 };
    for _ in 0..nl {
        let e = *rng.pick(&[24u32, 31, 32, 52, 53, 54, 60, 63]);
        let len = match rng.below(4) { 0 => (1u64 << e) + rng.below(3), 1 => (1u64 << e) - 1 - rng.below(2), 2 => ((1u64 << e) + 1).saturating_mul(rng.range(1, 7)), _ => (1u64 << e) + rng.below(1 << (e - 1)) };
        let start = match rng.below(3) { 0 => 0, 1 => rng.below(1000), _ => (u64::MAX - len).min(rng.below(1 << 62)) };
        let Some(end) = start.checked_add(len) else { continue };
        let kmax = if rng.chance(1, 4) { 4000 } else { 9 };
        let k = rng.range(1, kmax);
        let bin = match rng.below(6) { 0 => len / k, 1 => len / k + 1, 2 => (len / k).saturating_sub(1), 3 => 1u64 << (e - 1), 4 => (1u64 << e) + 1, _ => len.div_ceil(k) };
        if bin == 0 { continue; }
        push("long", Rec::new(*rng.pick(CHROMS), start, end), bin);
    }
    let nr = match tier { Tier::Quick => 400, Tier::Thorough => 8000 };
    for _ in 0..nr {
        let start = match rng.below(4) { 0 => 0, 1 => rng.below(1000), 2 => rng.below(1 << 60), _ => u64::MAX - rng.below(100_000) };
        let len = rng.below(50_000).min(u64::MAX - start);
        let bin = match rng.below(6) { 0 => 1 + rng.below(10), 1 => len.max(1), 2 => len + 1 + rng.below(5), 3 => u64::MAX - rng.below(3), 4 if len > 0 => { let k = 1 + rng.below(50); (len / k).max(1) } _ => 1 + rng.below(len.max(1)) };
        let bin = if len / bin.max(1) > 4000 { len / 4000 + 1 } else { bin };
        push("random", Rec::new(*rng.pick(CHROMS), start, start + len), bin);
    }
    out
}

pub fn prop() -> PropDef {
    PropDef {
        id: "C14",
        rule: "corpus, then an exhaustive grid (start in {0,1,5}+{0,3,u64::MAX-40}, length 0..9 (thorough 0..24), bin 1..length+2 and bins 2^63, u64::MAX-1, u64::MAX), records ending at u64::MAX, then random records (start up to u64::MAX, length up to 5e4, bins 1, divisors, non-divisors, = length, > length, ~u64::MAX). Non-trivial: >= 2 pieces or bin > length. Distinct = distinct (record, bin).",
        observable: "BEDLike::split_by_len, BEDLike::rsplit_by_len, BinnedCoverage::regions, SparseBinnedCoverage::regions (piece lists, or panic); the record is carried by every BEDLike implementor (GenomicRange, BED<3..6,12>, NarrowPeak, BroadPeak, BedGraph) with strand none/+/-, name and score present or absent",
        gen, exec, shrink, child: None,
    }
}
