//! C15: external sort leaves no temporary files behind.
use crate::rng::Rng;
use crate::runner::{run_in_child, Case, PropDef, Tier};
use bed_utils::extsort::ExternalSorterBuilder;
use std::collections::BTreeSet;
use std::path::{Path, PathBuf};

#[derive(Clone, Debug)]
struct C { tmp: u64, n: usize, c: usize, comp: Option<u32>, fail: u64, fail_at: usize, consume: usize, order: u64, obs_at: usize, border: u64,
    /// 0: items are u64; k > 0: items are (u64, String of k bytes) — records that own heap data, so that a run is megabytes on disk
    heavy: usize }

fn enc(c: &C) -> Vec<String> {
    let mut v = vec![c.tmp.to_string(), c.n.to_string(), c.c.to_string()];
    match c.comp { None => v.push("0".into()), Some(l) => { v.push("1".into()); v.push(l.to_string()); } }
    v.extend([c.fail.to_string(), c.fail_at.to_string(), c.consume.to_string(), c.order.to_string(), c.obs_at.to_string(), c.border.to_string()]);
    if c.heavy != 0 { v.push(c.heavy.to_string()); }
    v
}
fn dec(t: &[String]) -> Option<C> {
    let mut it = t.iter();
    let mut n = || -> Option<u64> { it.next()?.parse().ok() };
    let tmp = n()?; let nn = n()? as usize; let c = n()? as usize;
    let comp = if n()? != 0 { Some(n()? as u32) } else { None };
    Some(C { tmp, n: nn, c, comp, fail: n()?, fail_at: n()? as usize, consume: n()? as usize, order: n()?, obs_at: n()? as usize, border: n().unwrap_or(0), heavy: n().unwrap_or(0) as usize })
}
fn valid(c: &C) -> bool { c.n.div_ceil(c.c.max(1)) <= 700 && c.n * c.heavy <= 64 << 20 && c.obs_at < c.n.max(1) && (c.fail != 1 || c.obs_at < c.fail_at) }

fn listing(d: &Path) -> BTreeSet<(String, bool)> {
    let mut s = BTreeSet::new();
    if let Ok(rd) = std::fs::read_dir(d) { for e in rd.flatten() { s.insert((e.file_name().to_string_lossy().to_string(), e.path().is_dir())); } }
    s
}
fn count_recursive(d: &Path) -> usize {
    let mut n = 0;
    if let Ok(rd) = std::fs::read_dir(d) { for e in rd.flatten() { n += 1; if e.path().is_dir() { n += count_recursive(&e.path()); } } }
    n
}
fn fds_under(d: &Path) -> usize {
    let mut n = 0;
    if let Ok(rd) = std::fs::read_dir("/proc/self/fd") {
        for e in rd.flatten() { if let Ok(t) = std::fs::read_link(e.path()) { if t.starts_with(d) { n += 1; } } }
    }
    n
}

/// open descriptors (fd number, target) that refer to a file-system path
fn fd_paths() -> BTreeSet<(String, String)> {
    let mut s = BTreeSet::new();
    if let Ok(rd) = std::fs::read_dir("/proc/self/fd") {
        for e in rd.flatten() {
            if let Ok(t) = std::fs::read_link(e.path()) {
                let t = t.to_string_lossy().to_string();
                if t.starts_with('/') && !t.starts_with("/dev/") && !t.starts_with("/proc/") && !t.starts_with("/sys/") { s.insert((e.file_name().to_string_lossy().to_string(), t)); }
            }
        }
    }
    s
}
/// descriptors opened since `before` whose file (possibly already unlinked) is not under `d`
fn fds_outside(d: &Path, before: &BTreeSet<(String, String)>) -> usize {
    fd_paths().difference(before).filter(|(_, t)| !Path::new(t).starts_with(d)).count()
}

/// runs in a child process: `TMPDIR` points to a fresh directory
fn child(t: &[String]) -> String {
    let Some(c) = dec(t) else { return "abort".into() };
    if c.heavy == 0 { child_typed::<u64>(&c, |i, _| ((i * 7919) % 1000) as u64, |x| *x) }
    else { child_typed::<(u64, String)>(&c, |i, k| (((i * 7919) % 1000) as u64, "x".repeat(k)), |x| x.0) }
}

fn child_typed<T: serde::Serialize + serde::de::DeserializeOwned + Send>(c: &C, mk: fn(usize, usize) -> T, key: fn(&T) -> u64) -> String {
    let tdir = PathBuf::from(std::env::var("TMPDIR").unwrap_or_else(|_| "/nonexistent".into()));
    let base = tdir.parent().unwrap().to_path_buf();
    let explicit = base.join("d");
    std::fs::create_dir_all(&explicit).unwrap();
    // pre-existing content in both directories
    for d in [&explicit, &tdir] {
        std::fs::write(d.join("keep.txt"), b"x").unwrap();
        std::fs::create_dir_all(d.join("sub")).unwrap();
        std::fs::write(d.join("sub/inner"), b"y").unwrap();
    }
    let (d, other) = if c.tmp == 1 { (explicit.clone(), tdir.clone()) } else { (tdir.clone(), explicit.clone()) };
    let base0 = listing(&d);
    let other0 = count_recursive(&other);
    let fds0 = fd_paths();
    let fds_out = std::cell::Cell::new(0usize);
    // the builder's setters are applied in the order given by the case (a permutation index): the
    // configuration must not depend on the order of the calls
    let mut b = ExternalSorterBuilder::new();
    for k in super::common::permutation4(c.border) {
        b = match k {
            0 => b.with_chunk_size(c.c),
            // fail == 4: a worker pool that cannot be built (usize::MAX threads under an address-space limit)
            1 => b.num_threads(if c.fail == 4 && c.fail_at == 0 { 200_000 } else { 2 }),
            2 => if let Some(l) = c.comp { b.with_compression(l) } else { b },
            _ => if c.tmp == 1 { b.with_tmp_dir(&d) } else { b },
        };
    }
    if c.fail == 4 && c.fail_at >= 1 {
        // the configured directory does not exist: two sorters are built on it, are alive at the same time, each sorts a
        // little, and are dropped in either order. Whether build() refuses a missing directory or creates it, once both
        // sorters are gone nothing of theirs may be left under the existing parent.
        let cfg = d.join("missing").join("spill");
        let mk = || ExternalSorterBuilder::new().with_chunk_size(2).with_tmp_dir(&cfg).build();
        let s1 = mk();
        let s2 = mk();
        for s in [&s1, &s2] { if let Ok(s) = s { if let Ok(it) = s.sort(vec![5u64, 3, 9, 1, 7]) { let _ = it.count(); } } }
        let code = if s1.is_ok() || s2.is_ok() { 5 } else { 4 };
        if c.order == 0 { drop(s1); drop(s2); } else { drop(s2); drop(s1); }
        let fin = listing(&d);
        return format!("{} 0 0 0 0 0 0 {} {} {} {} 0 0 0", base0.len(), fin.difference(&base0).count(), base0.difference(&fin).count(), count_recursive(&other).abs_diff(other0), code);
    }
    if c.fail == 4 {
        unsafe { let lim = libc::rlimit { rlim_cur: 3 << 30, rlim_max: 3 << 30 }; libc::setrlimit(libc::RLIMIT_AS, &lim); }
    }
    let built = b.build();
    if c.fail == 4 {
        // build() is expected to fail (thread spawning runs into the limit); whether it fails or not, once its
        // result is dropped both directories must be as they were
        let code = if built.is_ok() { 5 } else { 4 };
        drop(built);
        let fin = listing(&d);
        return format!("{} 0 0 0 0 0 0 {} {} {} {} 0 0 0", base0.len(), fin.difference(&base0).count(), base0.difference(&fin).count(), count_recursive(&other).abs_diff(other0), code);
    }
    let sorter = match built { Ok(s) => s, Err(_) => return "abort".into() };
    let after_build = listing(&d);
    let new1: Vec<&(String, bool)> = after_build.difference(&base0).collect();
    let new_dirs = new1.iter().filter(|x| x.1).count();
    let new_files = new1.len() - new_dirs;
    let other_after_build = count_recursive(&other).abs_diff(other0);
    let other_during = std::cell::Cell::new(0usize);

    let during = std::cell::Cell::new(None::<(usize, usize, usize)>);
    let calls = std::sync::atomic::AtomicUsize::new(0);
    let input = (0..c.n).map(|i| {
        if c.fail == 1 && i == c.fail_at { panic!("input iterator panics"); }
        if i == c.obs_at {
            let now = listing(&d);
            let top: Vec<&(String, bool)> = now.difference(&base0).collect();
            let inside: usize = top.iter().map(|x| count_recursive(&d.join(&x.0))).sum();
            during.set(Some((top.len(), inside, fds_under(&d))));
            other_during.set(count_recursive(&other).abs_diff(other0));
            fds_out.set(fds_out.get().max(fds_outside(&d, &fds0)));
        }
        if c.fail == 3 && i == c.fail_at {
            // exhaust the descriptor table: the next chunk file cannot be created
            unsafe {
                let mut r = libc::rlimit { rlim_cur: 0, rlim_max: 0 };
                libc::getrlimit(libc::RLIMIT_NOFILE, &mut r);
                let open = std::fs::read_dir("/proc/self/fd").map(|x| x.count()).unwrap_or(64) as u64;
                r.rlim_cur = open.saturating_sub(1).max(3);
                libc::setrlimit(libc::RLIMIT_NOFILE, &r);
            }
        }
        mk(i, c.heavy)
    });
    let fail = c.fail; let fail_at = c.fail_at;
    let cmp = |a: &T, b: &T| {
        if fail == 2 && calls.fetch_add(1, std::sync::atomic::Ordering::SeqCst) == fail_at { panic!("comparator panics"); }
        key(a).cmp(&key(b))
    };
    // order 2: the sorter is owned by the code that panics (a local of the closure), so it is dropped WHILE the thread is
    // unwinding — `let s = build()?; s.sort_by(..)` inside a function whose caller catches the panic
    let mut sorter = Some(sorter);
    let res = if c.order == 2 {
        std::panic::catch_unwind(std::panic::AssertUnwindSafe(|| { let s = sorter.take().unwrap(); let r = s.sort_by(input, &cmp); sorter = Some(s); r }))
    } else {
        std::panic::catch_unwind(std::panic::AssertUnwindSafe(|| sorter.as_ref().unwrap().sort_by(input, &cmp)))
    };
    let sorter = sorter;
    if c.fail == 3 { unsafe { let mut r = libc::rlimit { rlim_cur: 0, rlim_max: 0 }; libc::getrlimit(libc::RLIMIT_NOFILE, &mut r); r.rlim_cur = r.rlim_max.min(4096); libc::setrlimit(libc::RLIMIT_NOFILE, &r); } }
    let mut yielded = 0usize;
    let result = match res {
        Err(_) => { drop(sorter); 2 }
        Ok(Err(_)) => { drop(sorter); 1 }
        Ok(Ok(mut it)) => {
            // the runs are open now (owned by the iterator): none of them may live outside the configured directory
            fds_out.set(fds_out.get().max(fds_outside(&d, &fds0)));
            // the comparator may also panic while merging: unwinding out of next() must not leak either
            let r = std::panic::catch_unwind(std::panic::AssertUnwindSafe(|| {
                let mut y = 0usize;
                for _ in 0..c.consume { if it.next().is_none() { break; } y += 1; }
                y
            }));
            let code = match r { Ok(y) => { yielded = y; 0 } Err(_) => 3 };
            if c.order == 0 { drop(it); drop(sorter); } else { drop(sorter); drop(it); }
            code
        }
    };
    let fin = listing(&d);
    let after_new = fin.difference(&base0).count();
    let after_missing = base0.difference(&fin).count();
    let other_new = count_recursive(&other).abs_diff(other0);
    let (taken, top, inside, fds) = match during.get() { Some((a, b, f)) => (1, a, b, f), None => (0, 0, 0, 0) };
    let other_while_alive = other_after_build.max(other_during.get());
    format!("{} {} {} {} {} {} {} {} {} {} {} {} {} {}", base0.len(), new_dirs, new_files, taken, top, inside, fds, after_new, after_missing, other_new, result, yielded, other_while_alive, fds_out.get())
}

static CASE_NO: std::sync::atomic::AtomicUsize = std::sync::atomic::AtomicUsize::new(0);

fn exec(t: &[String]) -> Option<String> {
    dec(t)?;
    let base = PathBuf::from(std::env::var("VERIF_DIR").unwrap_or_else(|_| "/verif".into()))
        .join(format!("harness/run/c15-{}-{}", std::process::id(), CASE_NO.fetch_add(1, std::sync::atomic::Ordering::SeqCst)));
    let tdir = base.join("t");
    std::fs::create_dir_all(&tdir).ok()?;
    let mut out = run_in_child("C15", t, &[("TMPDIR", tdir.to_string_lossy().to_string())]);
    // a child that runs into its own address-space limit while failing to build a pool dies by an allocation failure (an
    // abort, not a result): that says nothing about the property; such a run is repeated in a fresh directory
    let c = dec(t)?;
    let mut tries = 0;
    while out == "abort" && c.fail == 4 && tries < 3 {
        tries += 1;
        std::fs::remove_dir_all(&base).ok();
        std::fs::create_dir_all(&tdir).ok()?;
        out = run_in_child("C15", t, &[("TMPDIR", tdir.to_string_lossy().to_string())]);
    }
    std::fs::remove_dir_all(&base).ok();
    Some(out)
}

fn shrink(t: &[String]) -> Vec<Vec<String>> {
    let Some(c) = dec(t) else { return vec![] };
    let mut out = vec![];
    for n in super::common::shrink_u64(c.n as u64) { out.push(C { n: n as usize, ..c.clone() }); }
    for k in super::common::shrink_u64(c.consume as u64) { out.push(C { consume: k as usize, ..c.clone() }); }
    if c.comp.is_some() { out.push(C { comp: None, ..c.clone() }); }
    if c.fail != 0 { out.push(C { fail: 0, ..c.clone() }); }
    out.into_iter().filter(valid).map(|c| enc(&c)).collect()
}

fn gen(rng: &mut Rng, tier: Tier) -> Vec<Case> {
    let mut out = vec![];
    let n_cases = match tier { Tier::Quick => 160, Tier::Thorough => 2500 };
    for i in 0..n_cases {
        let c_size = *rng.pick(&[1usize, 2, 3, 10, 50]);
        let n = rng.range(c_size as u64 + 1, (c_size as u64 * 8).min(300)) as usize;
        let fail = match i % 8 { 0 => 1, 1 => 2, 2 => 3, _ => 0 };
        let obs_at = (c_size * rng.range(1, 2) as usize).min(n - 1);
        let fail_at = match fail { 1 => rng.range(obs_at as u64 + 1, n as u64 + 3) as usize, 2 => rng.below(3 * n as u64) as usize, 3 => obs_at, _ => 0 };
        let c = C { tmp: rng.below(2), n, c: c_size, comp: if rng.chance(1, 3) { Some(*rng.pick(&[0u32, 1, 9])) } else { None }, fail, fail_at,
            consume: match rng.below(4) { 0 => 0, 1 => n + 5, _ => rng.below(n as u64) as usize }, order: if fail == 1 || fail == 2 { rng.below(3) } else { rng.below(2) }, obs_at, border: rng.below(24), heavy: 0 };
        if valid(&c) { out.push(Case::new("lifetime", enc(&c))); }
    }
    // records that own heap data: runs of 1-12 MiB on disk (a threshold on the in-memory or on-disk size of a
    // run is invisible to kilobyte-sized sorts)
    // build() itself fails: nothing may be left behind either
    for i in 0..(match tier { Tier::Quick => 2, Tier::Thorough => 6 }) {
        let c = C { tmp: (i % 2) as u64, n: 4, c: 2, comp: None, fail: 4, fail_at: 0, consume: 0, order: 0, obs_at: 0, border: rng.below(24), heavy: 0 };
        out.push(Case::new("build-fails", enc(&c)));
    }
    // the configured directory does not exist; two sorters on it at the same time, dropped in either order
    for i in 0..4u64 {
        let c = C { tmp: i / 2, n: 4, c: 2, comp: None, fail: 4, fail_at: 1, consume: 0, order: i % 2, obs_at: 0, border: rng.below(24), heavy: 0 };
        out.push(Case::new("missing-dir", enc(&c)));
    }
    // many runs: more than 2^8 of them exist when the snapshot is taken (a fan-in limit or an intermediate merge pass that
    // puts its output somewhere else shows only then)
    for (i, (n, c_size)) in [(300usize, 1usize), (640, 2)].into_iter().enumerate() {
        let c = C { tmp: 1, n, c: c_size, comp: if i == 1 { Some(1) } else { None }, fail: 0, fail_at: 0, consume: if i == 0 { n + 5 } else { 3 }, order: i as u64, obs_at: n - 1, border: rng.below(24), heavy: 0 };
        if valid(&c) { out.push(Case::new("many-runs", enc(&c))); }
    }
    let n_heavy = match tier { Tier::Quick => 3, Tier::Thorough => 16 };
    for i in 0..n_heavy {
        let heavy = *rng.pick(&[512usize, 2048, 3000]);
        let c_size = *rng.pick(&[2048usize, 4096]);
        let n = c_size + rng.range(1, c_size as u64) as usize;
        let c = C { tmp: if i % 3 == 2 { 0 } else { 1 }, n, c: c_size, comp: if i % 2 == 1 { Some(1) } else { None }, fail: 0, fail_at: 0,
            consume: if rng.chance(1, 2) { n + 5 } else { rng.below(n as u64) as usize }, order: rng.below(2), obs_at: c_size, border: rng.below(24), heavy };
        if valid(&c) { out.push(Case::new("heavy", enc(&c))); }
    }
    out
}

pub fn prop() -> PropDef {
    PropDef {
        id: "C15",
        rule: "corpus, then lifetime scripts run in a child process whose TMPDIR is a fresh directory: explicit or default tmp dir (both pre-populated with a file and a sub-directory), the builder's four setters called in every order, inputs of c+1..8c records for chunk sizes c in {1,2,3,10,50}, with or without compression; the input iterator snapshots the directory (and /proc/self/fd) after at least one chunk exists; then either a normal sort followed by draining / dropping after k items / never consuming, with the iterator dropped before or after the sorter, or a panic raised by the input iterator at item j, a panic raised by the comparator at its m-th call, or sort_by returning an error (descriptor limit lowered mid-sort); listing compared before build, after build, during the sort and after the drops; /proc/self/fd compared before build, during the sort and when sort_by has returned; a few sorts of records owning heap data (0.5-3 KiB strings, runs of 1-12 MiB); a build() that fails (200 000 worker threads under a 3 GiB address-space limit); two sorters built on a configured directory that does not exist, alive at the same time, dropped in either order; two sorts that have more than 2^8 runs open when the snapshot is taken. Non-trivial: the during-snapshot was taken with >= 1 chunk created. Distinct = distinct input token sequence.",
        observable: "entries created under the configured directory by build(), during sort_by (top level, inside the temporary directory), after the drops (new and missing entries), entries created under the other temporary directory, descriptors opened during the sort on files (linked or already unlinked) outside the configured directory, result of sort_by",
        gen, exec, shrink, child: Some(child),
    }
}
