//! C16: Lapper::count equals the number of intervals find returns.
use super::common::*;
use super::lap::*;
use crate::rng::Rng;
use crate::runner::{Case, PropDef, Tier};
use crate::tok::{R, W};

#[derive(Clone)]
struct C { h: Hist, qs: Vec<(u64, u64)> }

fn enc(c: &C) -> Vec<String> {
    let mut w = W::new();
    c.h.put(&mut w);
    w.n(c.qs.len());
    for (s, e) in &c.qs { w.n(*s).n(*e); }
    w.0
}
fn dec(t: &[String]) -> Option<C> {
    let mut r = R::new(t);
    let h = Hist::get(&mut r)?;
    let qs = r.list(|r| Some((r.u64()?, r.u64()?)))?;
    Some(C { h, qs })
}
fn valid(c: &C) -> bool { c.qs.iter().all(|q| q.0 < q.1) && c.h.all_intervals().iter().all(|x| x.0 <= x.1) }

fn exec(t: &[String]) -> Option<String> {
    let c = dec(t)?;
    // the coordinate type of the instantiation is the case's flavour (u64 when the case does not fit the type)
    let qc: Vec<u64> = c.qs.iter().flat_map(|q| [q.0, q.1]).collect();
    let l = AnyLapper::build(&c.h, split_flavour(t).1, &qc);
    let mut w = W::new();
    w.n(c.qs.len());
    for (s, e) in &c.qs { w.n(l.count(*s, *e)).n(l.find(*s, *e).len()); }
    Some(w.join())
}

fn shrink(t: &[String]) -> Vec<Vec<String>> { shrink_flavoured(t, shrink0) }
fn shrink0(t: &[String]) -> Vec<Vec<String>> {
    let Some(c) = dec(t) else { return vec![] };
    let mut out = vec![];
    for qs in shrink_vec(&c.qs) { if !qs.is_empty() { out.push(C { h: c.h.clone(), qs }); } }
    for h in shrink_hist(&c.h) { out.push(C { h, qs: c.qs.clone() }); }
    let min = c.h.min_start().min(c.qs.iter().map(|q| q.0).min().unwrap_or(0));
    for d in [min, min / 2, 1] {
        if d == 0 || d > min { continue; }
        let mut e = c.clone();
        e.h.shift(d);
        for q in e.qs.iter_mut() { q.0 -= d; q.1 -= d; }
        out.push(e);
    }
    out.into_iter().filter(valid).map(|c| enc(&c)).collect()
}

fn gen(rng: &mut Rng, tier: Tier) -> Vec<Case> {
    let mut out = vec![];
    let (nb, nr) = match tier { Tier::Quick => (400, 150), Tier::Thorough => (6000, 2000) };
    for i in 0..nb {
        let n = if i % 25 == 0 { 0 } else { rng.range(1, 7) as usize };
        let h = gen_hist(rng, n, 20, true, true, 0);
        // zero-length intervals and merges together are within the property (start <= stop, any history):
        // every third case with a merge gets a zero-length insert at an existing endpoint after it
        let mut h = h;
        if i % 3 == 0 && h.ops.contains(&Op::Merge) {
            let e = h.endpoints();
            if !e.is_empty() {
                let p = *rng.pick(&e);
                let at = h.ops.iter().rposition(|o| *o == Op::Merge).unwrap() + 1;
                h.ops.insert(at, Op::Insert(p, p, 77));
                if rng.chance(1, 3) { h.ops.insert(at, Op::Insert(p, p, 78)); }
            }
        }
        let a = around(&h.endpoints());
        let mut qs = vec![];
        for &s in &a { for &e in &a { if s < e { qs.push((s, e)); } } }
        rng.shuffle(&mut qs);
        qs.truncate(80);
        if qs.is_empty() { qs.push((0, 5)); qs.push((3, 4)); }
        out.push(Case::new("boundary", enc(&C { h, qs })));
    }
    if tier == Tier::Thorough {
        // exhaustive small scope: all sequences of <= 3 intervals over 0..=3 (zero-length included) in bulk / insert-only / mixed / merged / merged-then-insert histories, every query over 0..=5
        for h in exhaustive_hists(3, 3, true, true) { out.push(Case::new("exhaustive", enc(&C { h, qs: all_queries(3) }))); }
    }
    for _ in 0..nr {
        let n = rng.range(2, 150) as usize;
        let base = match rng.below(4) { 0 => u64::MAX - 100_000, 1 => rng.below(1 << 45), _ => 0 };
        let zl = rng.chance(1, 2);
        let mut h = gen_hist(rng, n, 5000, zl, true, base);
        if base == 0 && rng.chance(1, 4) { h.lift_to_top(rng.below(4)); }
        let a = around(&h.endpoints());
        let mut qs = vec![];
        for _ in 0..40 {
            let s = *rng.pick(&a);
            let e = if rng.chance(1, 2) { *rng.pick(&a) } else { s.saturating_add(rng.range(1, 500)) };
            if s < e { qs.push((s, e)); }
        }
        if qs.is_empty() { qs.push((base, base + 1)); }
        out.push(Case::new("random", enc(&C { h, qs })));
    }
    if tier == Tier::Thorough {
        // a LONG-LIVED set: 1100-1500 queries answered by one object (one long interval over many short ones)
        for k in 0..2u64 {
            let mut init: Vec<(u64, u64, u64)> = vec![(0, 5000, 0)];
            for i in 0..40u64 { init.push((100 * i + 10, 100 * i + 10 + rng.range(1, 30), i + 1)); }
            let mut starts: Vec<u64> = (0..rng.range(1100, 1500)).map(|_| rng.below(5200)).collect();
            starts.sort();
            let qs: Vec<(u64, u64)> = starts.into_iter().map(|s| (s, s + rng.range(1, 8))).collect();
            let ops = if k == 1 { vec![Op::Insert(20, 4000, 77), Op::SetCov] } else { vec![] };
            out.push(Case::new("long-lived", enc(&C { h: Hist { init, ops }, qs })));
        }
        // LARGE sets (see lap::gen_large_hist): above every power-of-two threshold up to 2^16, seam-bridging intervals
        for &n in LARGE_SIZES {
            let (h, pts) = gen_large_hist(rng, n, 0);
            let qs = large_queries(rng, &pts, n, 40);
            out.push(Case::new("large", push_flavour(enc(&C { h, qs }), large_ltype(rng))));
        }
    }
    // coordinate-type flavours: every generated (non-exhaustive) case is, half of the time, run over another instantiation of
    // `Lapper<I, _>`; for the narrow types a far-away interval is added so that the set spans more than half of the type's range
    for c in out.iter_mut() {
        if c.stream == "exhaustive" || c.stream == "large" { continue; }
        let ty = gen_ltype(rng);
        if ty == 0 { continue; }
        if let Some(mut d) = dec(&c.input) { if rng.chance(1, 2) { spread_for_type(rng, &mut d.h, ty, true); } c.input = push_flavour(enc(&d), ty); }
    }
    out
}

pub fn prop() -> PropDef {
    PropDef {
        id: "C16",
        rule: "corpus, then boundary-directed histories (0-7 intervals incl. zero-length, coordinates 0..25; new(prefix) + inserts in ascending/descending/random order interleaved with merge_overlaps/set_cov; every query with endpoints in {e-1,e,e+1} ∪ {0}, up to 80 per case), then random histories (2-150 intervals, zero-length and merges together, offsets up to u64::MAX-1e5, one in four of the rest lifted so that the greatest stop is u64::MAX-1-{0,1,2}); one in three boundary histories with a merge gets a zero-length insert at an existing endpoint after the last merge. Non-trivial: >= 2 stored intervals and a query endpoint coincides with an interval endpoint. Thorough adds the exhaustive small scope: every sequence of <= 3 intervals over 0..=3 in bulk / insert-only / mixed / merged / merged-then-insert histories with every query over 0..=5. Distinct = distinct input token sequence.",
        observable: "Lapper::count and Lapper::find().count() per query",
        gen, exec, shrink, child: None,
    }
}
