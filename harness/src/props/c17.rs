//! C17: cursor-based seek agrees with find on ascending query sequences.
use super::common::*;
use super::lap::*;
use crate::rng::Rng;
use crate::runner::{Case, PropDef, Tier};
use crate::tok::{R, W};

#[derive(Clone)]
struct C { h: Hist, qs: Vec<(u64, u64)> }

fn enc(c: &C) -> Vec<String> {
    let mut w = W::new();
    c.h.put(&mut w);
    w.n(c.qs.len());
    for (s, e) in &c.qs { w.n(*s).n(*e); }
    w.0
}
fn dec(t: &[String]) -> Option<C> {
    let mut r = R::new(t);
    let h = Hist::get(&mut r)?;
    let qs = r.list(|r| Some((r.u64()?, r.u64()?)))?;
    Some(C { h, qs })
}
fn valid(c: &C) -> bool {
    c.qs.windows(2).all(|w| w[0].0 <= w[1].0)
        && c.h.all_intervals().iter().all(|x| x.0 <= x.1)
}

fn exec(t: &[String]) -> Option<String> {
    let c = dec(t)?;
    let qc: Vec<u64> = c.qs.iter().flat_map(|q| [q.0, q.1]).collect();
    let l = AnyLapper::build(&c.h, split_flavour(t).1, &qc);
    let mut w = W::new();
    w.n(c.qs.len());
    let mut cursor = 0usize;
    let put = |w: &mut W, v: Vec<Iv>| { w.n(v.len()); for i in v { w.n(i.start).n(i.stop).n(i.val); } };
    for (s, e) in &c.qs {
        put(&mut w, l.seek(*s, *e, &mut cursor));
        put(&mut w, l.find(*s, *e));
    }
    Some(w.join())
}

fn shrink(t: &[String]) -> Vec<Vec<String>> { shrink_flavoured(t, shrink0) }
fn shrink0(t: &[String]) -> Vec<Vec<String>> {
    let Some(c) = dec(t) else { return vec![] };
    let mut out = vec![];
    for qs in shrink_vec(&c.qs) { if !qs.is_empty() { out.push(C { h: c.h.clone(), qs }); } }
    for h in shrink_hist(&c.h) { out.push(C { h, qs: c.qs.clone() }); }
    let min = c.h.min_start().min(c.qs.iter().map(|q| q.0).min().unwrap_or(0));
    for d in [min, min / 2, 1] {
        if d == 0 || d > min { continue; }
        let mut e = c.clone();
        e.h.shift(d);
        for q in e.qs.iter_mut() { q.0 -= d; q.1 -= d; }
        out.push(e);
    }
    for i in 0..c.qs.len() {
        let (s, e) = c.qs[i];
        if e > s + 1 { let mut d = c.clone(); d.qs[i].1 = s + (e - s) / 2; out.push(d); }
    }
    out.into_iter().filter(valid).map(|c| enc(&c)).collect()
}

fn asc_queries(rng: &mut Rng, pts: &[u64], n: usize, far: u64) -> Vec<(u64, u64)> {
    let mut starts: Vec<u64> = (0..n).map(|_| if rng.chance(1, 10) { far.saturating_add(rng.below(50)) } else { *rng.pick(pts) }).collect();
    starts.sort();
    let mut qs = vec![];
    for s in starts {
        let e = match rng.below(4) { 0 => s.saturating_add(1), 1 => s.saturating_add(rng.range(1, 40)), 2 => s.saturating_add(rng.range(1, 5000)), _ => { let p = *rng.pick(pts); if p > s { p } else { s.saturating_add(1) } } };
        // "arbitrary stops": one query in eight is empty or backward (stop <= start) — find and seek must still agree
        let e = if rng.chance(1, 8) { if rng.chance(1, 2) { s } else { let p = *rng.pick(pts); p.min(s) } } else { e };
        qs.push((s, e));
        if rng.chance(1, 6) { qs.push((s, e)); } // repeat
    }
    qs
}

fn gen(rng: &mut Rng, tier: Tier) -> Vec<Case> {
    let mut out = vec![];
    let (nb, nr) = match tier { Tier::Quick => (500, 200), Tier::Thorough => (8000, 3000) };
    for i in 0..nb {
        let n = if i % 30 == 0 { 0 } else { rng.range(1, 8) as usize };
        let mut h = gen_hist(rng, n, 20, false, true, 0);
        // every sixth case sits at the top of the coordinate type, every seventh has a catch-all interval
        let top = i % 6 == 5;
        if top { h.lift_to_top(rng.below(4)); }
        if i % 7 == 6 { h.init.push((if rng.chance(1, 2) { 0 } else { h.min_start() }, u64::MAX - rng.below(2), 4040)); }
        let a = around(&h.endpoints());
        let k = rng.range(1, 8) as usize;
        let qs = asc_queries(rng, &a, k, if top { u64::MAX - 40 } else { 60 });
        if qs.is_empty() { continue; }
        out.push(Case::new("boundary", enc(&C { h, qs })));
    }
    if tier == Tier::Thorough {
        // exhaustive small scope: all sequences of <= 2 non-empty intervals over 0..=3 in several histories,
        // every ascending-start sequence of <= 3 queries over 0..=4 through one cursor
        let qs1 = all_queries(2);
        let mut seqs: Vec<Vec<(u64, u64)>> = vec![];
        for a in &qs1 { seqs.push(vec![*a]); for b in &qs1 { if b.0 >= a.0 { seqs.push(vec![*a, *b]); for c in &qs1 { if c.0 >= b.0 { seqs.push(vec![*a, *b, *c]); } } } } }
        for h in exhaustive_hists(2, 3, false, true) { for q in &seqs { out.push(Case::new("exhaustive", enc(&C { h: h.clone(), qs: q.clone() }))); } }
    }
    for _ in 0..nr {
        let n = rng.range(2, 120) as usize;
        let base = match rng.below(4) { 0 => u64::MAX - 100_000, 1 => rng.below(1 << 45), _ => 0 };
        let mut h = gen_hist(rng, n, 4000, false, true, base);
        if rng.chance(1, 2) { h.init.push((base, base + 9000, 9999)); } // one huge interval over many small ones
        if rng.chance(1, 3) { for k in 0..6 { h.init.push((base + 100, base + 101 + k * 3, 5000 + k)); } } // equal starts, growing stops
        let top = base == 0 && rng.chance(1, 4);
        if top { h.lift_to_top(rng.below(4)); }
        if rng.chance(1, 8) { h.init.push((0, u64::MAX - rng.below(2), 4040)); } // catch-all interval
        let a = around(&h.endpoints());
        let k = rng.range(2, 40) as usize;
        let qs = asc_queries(rng, &a, k, if top { u64::MAX - 40 } else { base + 20_000 });
        if qs.is_empty() { continue; }
        out.push(Case::new("random", enc(&C { h, qs })));
    }
    if tier == Tier::Thorough {
        // a LONG-LIVED set: 1100-1500 queries answered by one object (one long interval over many short ones)
        for k in 0..2u64 {
            let mut init: Vec<(u64, u64, u64)> = vec![(0, 5000, 0)];
            for i in 0..40u64 { init.push((100 * i + 10, 100 * i + 10 + rng.range(1, 30), i + 1)); }
            let mut starts: Vec<u64> = (0..rng.range(1100, 1500)).map(|_| rng.below(5200)).collect();
            starts.sort();
            let qs: Vec<(u64, u64)> = starts.into_iter().map(|s| (s, s + rng.range(1, 8))).collect();
            let ops = if k == 1 { vec![Op::Insert(20, 4000, 77), Op::SetCov] } else { vec![] };
            out.push(Case::new("long-lived", enc(&C { h: Hist { init, ops }, qs })));
        }
        // LARGE sets (see lap::gen_large_hist): above every power-of-two threshold up to 2^16, seam-bridging intervals
        for &n in LARGE_SIZES {
            let (h, pts) = gen_large_hist(rng, n, 0);
            let qs = large_queries(rng, &pts, n, 40);
            out.push(Case::new("large", push_flavour(enc(&C { h, qs }), large_ltype(rng))));
        }
    }
    // coordinate-type flavours: every generated (non-exhaustive) case is, half of the time, run over another instantiation of
    // `Lapper<I, _>`; for the narrow types a far-away interval is added so that the set spans more than half of the type's range
    for c in out.iter_mut() {
        if c.stream == "exhaustive" || c.stream == "large" { continue; }
        let ty = gen_ltype(rng);
        if ty == 0 { continue; }
        if let Some(mut d) = dec(&c.input) { if rng.chance(1, 2) { spread_for_type(rng, &mut d.h, ty, true); } c.input = push_flavour(enc(&d), ty); }
    }
    out
}

pub fn prop() -> PropDef {
    PropDef {
        id: "C17",
        rule: "corpus, then boundary-directed histories (0-8 intervals, coordinates 0..25, inserts/merges/set_cov) with 1-8 queries of non-decreasing start drawn from {e-1,e,e+1} ∪ {0} and far beyond the last interval, with repeats; then random histories (2-130 intervals, optional huge interval over many small ones, equal starts with growing stops, offsets up to u64::MAX-1e5) with 2-40 ascending queries through ONE cursor starting at 0; every sixth boundary history and one in four zero-offset random ones are lifted to the top of u64 (greatest stop u64::MAX-1-{0,1,2}), every seventh / eighth has a catch-all interval [0 or min start, u64::MAX-{0,1}). Non-trivial: >= 2 stored intervals and >= 2 queries. Thorough adds the exhaustive small scope: every sequence of <= 2 intervals over 0..=3 in several histories with every ascending-start sequence of <= 3 queries. Distinct = distinct input token sequence.",
        observable: "per query: Lapper::seek (carried cursor) and Lapper::find results as sorted multisets, or panic",
        gen, exec, shrink, child: None,
    }
}
