//! C18: merge_overlaps produces the canonical disjoint cover; later queries and inserts work.
use super::common::*;
use super::lap::*;
use crate::rng::Rng;
use crate::runner::{Case, PropDef, Tier};
use crate::tok::{R, W};

#[derive(Clone)]
struct C { h: Hist, qs: Vec<(u64, u64)>, probe: (u64, u64, u64) }

fn enc(c: &C) -> Vec<String> {
    let mut w = W::new();
    c.h.put(&mut w);
    w.n(c.qs.len());
    for (s, e) in &c.qs { w.n(*s).n(*e); }
    w.n(c.probe.0).n(c.probe.1).n(c.probe.2);
    w.0
}
fn dec(t: &[String]) -> Option<C> {
    let mut r = R::new(t);
    let h = Hist::get(&mut r)?;
    let qs = r.list(|r| Some((r.u64()?, r.u64()?)))?;
    Some(C { h, qs, probe: (r.u64()?, r.u64()?, r.u64()?) })
}
fn valid(c: &C) -> bool { c.qs.iter().all(|q| q.0 < q.1) && c.h.all_intervals().iter().all(|x| x.0 < x.1) && c.probe.0 < c.probe.1 }

fn put_se(w: &mut W, v: Vec<Iv>) {
    w.n(v.len());
    for i in v { w.n(i.start).n(i.stop); }
}

fn exec(t: &[String]) -> Option<String> {
    let c = dec(t)?;
    let mut qc: Vec<u64> = c.qs.iter().flat_map(|q| [q.0, q.1]).collect();
    qc.push(c.probe.0); qc.push(c.probe.1);
    // the probe interval is inserted at the end: it counts for the lengths the type must hold
    let mut all = c.h.all_intervals(); all.push((c.probe.0, c.probe.1));
    let ty = split_flavour(t).1;
    let mut l = AnyLapper::build_with(&c.h, ty, type_offset(ty, &all, &qc));
    let mut w = W::new();
    put_se(&mut w, l.iter());
    w.n(l.cov());
    w.n(c.qs.len());
    for (s, e) in &c.qs {
        put_se(&mut w, l.find(*s, *e));
        w.n(l.count(*s, *e));
        let mut cur = 0usize;
        put_se(&mut w, l.seek(*s, *e, &mut cur));
    }
    l.merge_overlaps();
    put_se(&mut w, l.iter());
    w.n(l.cov());
    let mut l2 = l.duplicate();
    l2.merge_overlaps();
    put_se(&mut w, l2.iter());
    l.insert(Iv { start: c.probe.0, stop: c.probe.1, val: c.probe.2 });
    put_se(&mut w, l.find(c.probe.0, c.probe.1));
    w.n(l.count(c.probe.0, c.probe.1));
    Some(w.join())
}

fn shrink(t: &[String]) -> Vec<Vec<String>> { shrink_flavoured(t, shrink0) }
fn shrink0(t: &[String]) -> Vec<Vec<String>> {
    let Some(c) = dec(t) else { return vec![] };
    let mut out = vec![];
    for qs in shrink_vec(&c.qs) { out.push(C { qs, ..c.clone() }); }
    for h in shrink_hist(&c.h) { out.push(C { h, ..c.clone() }); }
    let min = c.h.min_start().min(c.qs.iter().map(|q| q.0).min().unwrap_or(u64::MAX)).min(c.probe.0);
    for d in [min, min / 2, 1] {
        if d == 0 || d > min { continue; }
        let mut e = c.clone();
        e.h.shift(d);
        for q in e.qs.iter_mut() { q.0 -= d; q.1 -= d; }
        e.probe.0 -= d; e.probe.1 -= d;
        out.push(e);
    }
    if c.probe.1 > c.probe.0 + 1 { let mut d = c.clone(); d.probe.1 = c.probe.0 + 1; out.push(d); }
    out.into_iter().filter(valid).map(|c| enc(&c)).collect()
}

fn gen(rng: &mut Rng, tier: Tier) -> Vec<Case> {
    let mut out = vec![];
    let (nb, nr) = match tier { Tier::Quick => (500, 150), Tier::Thorough => (8000, 2500) };
    if tier == Tier::Thorough {
        // exhaustive small scope: all sequences of <= 3 non-empty intervals over 0..=4, several histories with merges
        for h in exhaustive_hists(3, 4, false, true) {
            out.push(Case::new("exhaustive", enc(&C { h, qs: all_queries(4), probe: (2, 3, 4242) })));
        }
    }
    for i in 0..(nb + nr) {
        let small = i < nb;
        let n = if small { if i % 25 == 0 { 0 } else { rng.range(1, 7) as usize } } else { rng.range(5, 100) as usize };
        let base = if small { 0 } else { match rng.below(4) { 0 => u64::MAX - 100_000, 1 => rng.below(1 << 45), _ => 0 } };
        let mut h = gen_hist(rng, n, if small { 16 } else { 3000 }, false, true, base);
        if rng.chance(1, 4) && n > 0 { // a chain of book-ended intervals, one interval spanning all
            let s0 = base + rng.below(10);
            for k in 0..4u64 { h.init.push((s0 + 2 * k, s0 + 2 * k + 2, 700 + k)); }
            if rng.chance(1, 2) { h.init.push((s0, s0 + 40, 800)); }
        }
        if i % 6 == 5 { h.lift_to_top(rng.below(4)); } // at the top of the coordinate type
        let a = around(&h.endpoints());
        let mut qs = vec![];
        for _ in 0..(if small { 12 } else { 20 }) { let s = *rng.pick(&a); let e = *rng.pick(&a); if s < e { qs.push((s, e)); } }
        let ps = *rng.pick(&a);
        let probe = (ps, ps.saturating_add(rng.range(1, 6)).max(ps + 0), 4242);
        if probe.0 >= probe.1 { continue; }
        out.push(Case::new(if small { "boundary" } else { "random" }, enc(&C { h, qs, probe })));
    }
    if tier == Tier::Thorough {
        // LARGE sets (see lap::gen_large_hist): above every power-of-two threshold up to 2^16, seam-bridging intervals
        for &n in LARGE_SIZES {
            let (h, pts) = gen_large_hist(rng, n, 0);
            let qs = large_queries(rng, &pts, n, 40);
            out.push(Case::new("large", push_flavour(enc(&C { h, qs, probe: (77, 10_000, 4242) }), large_ltype(rng))));
        }
    }
    // coordinate-type flavours: every generated (non-exhaustive) case is, half of the time, run over another instantiation of
    // `Lapper<I, _>`; for the narrow types a far-away interval is added so that the set spans more than half of the type's range
    for c in out.iter_mut() {
        if c.stream == "exhaustive" || c.stream == "large" { continue; }
        let ty = gen_ltype(rng);
        if ty == 0 { continue; }
        if let Some(mut d) = dec(&c.input) { if rng.chance(1, 2) { spread_for_type(rng, &mut d.h, ty, false); } c.input = push_flavour(enc(&d), ty); }
    }
    out
}

pub fn prop() -> PropDef {
    PropDef {
        id: "C18",
        rule: "corpus, then histories new/insert*/merge_overlaps/set_cov in any order and number over non-empty intervals (small: 0-7 intervals + book-ended chains and a spanning interval, coordinates 0..60; large: 5-100 intervals, offsets up to u64::MAX-1e5); every sixth history lifted to the top of u64; observed: iter, cov, find/count/seek for queries with endpoints in {e-1,e,e+1} ∪ {0}; then one more merge_overlaps (iter, cov), a second one (idempotence), then the insert of a probe interval into the merged set followed by find/count. Non-trivial: two supplied intervals touch/overlap/nest and the history contains a merge. Thorough adds the exhaustive small scope: every sequence of <= 3 non-empty intervals over 0..=4 in several histories with merges, every query. Distinct = distinct input token sequence.",
        observable: "Lapper::{iter,cov,find,count,seek} before and after merge_overlaps, merge twice, insert after merge",
        gen, exec, shrink, child: None,
    }
}
