//! C19: cov, union and intersect are cardinalities of covered position sets.
use super::common::*;
use super::lap::*;
use crate::rng::Rng;
use crate::runner::{Case, PropDef, Tier};
use crate::tok::{R, W};

#[derive(Clone)]
struct C { a: Hist, b: Hist }

fn enc(c: &C) -> Vec<String> { let mut w = W::new(); c.a.put(&mut w); c.b.put(&mut w); w.0 }
fn dec(t: &[String]) -> Option<C> { let mut r = R::new(t); Some(C { a: Hist::get(&mut r)?, b: Hist::get(&mut r)? }) }
fn valid(c: &C) -> bool { c.a.all_intervals().iter().chain(c.b.all_intervals().iter()).all(|x| x.0 < x.1) }

fn exec(t: &[String]) -> Option<String> {
    let c = dec(t)?;
    // both sets over the same coordinate type and offset; the type must hold cov(a) + cov(b)
    let ty = split_flavour(t).1;
    let mut all = c.a.all_intervals(); all.extend(c.b.all_intervals());
    let off = type_offset(ty, &all, &[]);
    let a = AnyLapper::build_with(&c.a, ty, off);
    let b = AnyLapper::build_with(&c.b, ty, off);
    let mut w = W::new();
    w.n(a.cov()).n(b.cov());
    let (u1, i1) = a.union_and_intersect(&b);
    let (u2, i2) = b.union_and_intersect(&a);
    w.n(u1).n(i1).n(u2).n(i2).n(a.union(&b)).n(a.intersect(&b));
    Some(w.join())
}

fn shrink(t: &[String]) -> Vec<Vec<String>> { shrink_flavoured(t, shrink0) }
fn shrink0(t: &[String]) -> Vec<Vec<String>> {
    let Some(c) = dec(t) else { return vec![] };
    let mut out = vec![];
    for a in shrink_hist(&c.a) { out.push(C { a, b: c.b.clone() }); }
    for b in shrink_hist(&c.b) { out.push(C { a: c.a.clone(), b }); }
    let min = c.a.min_start().min(c.b.min_start());
    let min = if c.a.all_intervals().is_empty() { c.b.min_start() } else if c.b.all_intervals().is_empty() { c.a.min_start() } else { min };
    for d in [min, min / 2, 1] {
        if d == 0 || d > min { continue; }
        let mut e = c.clone();
        e.a.shift(d); e.b.shift(d);
        out.push(e);
    }
    out.into_iter().filter(valid).map(|c| enc(&c)).collect()
}

fn gen(rng: &mut Rng, tier: Tier) -> Vec<Case> {
    let mut out = vec![];
    let (nb, nr) = match tier { Tier::Quick => (600, 150), Tier::Thorough => (10000, 2500) };
    if tier == Tier::Thorough {
        // exhaustive small scope: all pairs of sequences of <= 2 non-empty intervals over 0..=3, histories with merges and set_cov
        let hs = exhaustive_hists(2, 3, false, true);
        for a in &hs { for b in &hs { out.push(Case::new("exhaustive", enc(&C { a: a.clone(), b: b.clone() }))); } }
    }
    for i in 0..(nb + nr) {
        let small = i < nb;
        let (na, nbv) = if small { (rng.range(0, 5) as usize, rng.range(0, 5) as usize) } else { (rng.range(3, 60) as usize, rng.range(3, 60) as usize) };
        let base = if small { 0 } else { match rng.below(4) { 0 => u64::MAX / 2 - 100_000, 1 => rng.below(1 << 45), _ => 0 } };
        let max = if small { 14 } else { 2500 };
        let mut a = gen_hist(rng, na, max, false, true, base);
        let mut b = match rng.below(6) { 0 => a.clone(), _ => gen_hist(rng, nbv, max, false, true, base) };
        // force each of the four merged/unmerged combinations regularly
        match i % 5 { 0 => { a.ops.push(Op::Merge); b.ops.push(Op::Merge); } 1 => { a.ops.push(Op::Merge); } 2 => { b.ops.push(Op::Merge); } _ => {} }
        if rng.chance(1, 3) { a.ops.push(Op::SetCov); }
        if rng.chance(1, 3) { b.ops.insert(0, Op::SetCov); }
        if i % 6 == 5 { // both sets at the top of the coordinate type, same shift
            let m = a.max_stop().max(b.max_stop());
            let d = u64::MAX - 1 - rng.below(3) - m;
            a.shift_up(d); b.shift_up(d);
        }
        if i % 7 == 3 { // each set also gets an interval longer than half the coordinate range: cov(a) + cov(b) > u64::MAX
            let va = a.init.len() as u64 + 100; let vb = b.init.len() as u64 + 100;
            let (sa, sb) = (rng.below(6), rng.below(6));
            let (ea, eb) = ((1u64 << 63) + rng.below(9), if rng.chance(1, 3) { u64::MAX - rng.below(3) } else { (1u64 << 63) + rng.below(9) });
            if rng.chance(1, 2) { a.init.push((sa, ea, va)); } else { a.ops.insert(0, Op::Insert(sa, ea, va)); }
            if rng.chance(1, 2) { b.init.push((sb, eb, vb)); } else { b.ops.push(Op::Insert(sb, eb, vb)); }
        }
        out.push(Case::new(if small { "boundary" } else { "random" }, enc(&C { a, b })));
    }
    if tier == Tier::Thorough {
        // LARGE sets (see lap::gen_large_hist), the second one a shifted variant of the same construction
        for &n in LARGE_SIZES {
            let (a, _) = gen_large_hist(rng, n, 0);
            let (mut b, _) = gen_large_hist(rng, n / 2 + 4500, 0);
            b.shift_up(rng.range(1, 9));
            if rng.chance(1, 2) { b.ops.push(Op::Merge); }
            out.push(Case::new("large", push_flavour(enc(&C { a, b }), large_ltype(rng))));
        }
    }
    // coordinate-type flavours: every generated (non-exhaustive) case is, half of the time, run over another instantiation of
    // `Lapper<I, _>`; for the narrow types a far-away interval is added so that the set spans more than half of the type's range
    for c in out.iter_mut() {
        if c.stream == "exhaustive" || c.stream == "large" { continue; }
        let ty = gen_ltype(rng);
        if ty == 0 { continue; }
        if let Some(mut d) = dec(&c.input) { if rng.chance(1, 2) { spread_for_type(rng, &mut d.a, ty, false); } c.input = push_flavour(enc(&d), ty); }
    }
    out
}

pub fn prop() -> PropDef {
    PropDef {
        id: "C19",
        rule: "corpus, then pairs of histories new/insert*/merge_overlaps/set_cov (set_cov before later inserts and merges included) over non-empty intervals: small (0-5 intervals each, coordinates 0..20, incl. empty, identical, disjoint, interleaved, nested) and large (3-60 each, offsets up to 2^63); all four merged/unmerged combinations forced in rotation; every sixth pair lifted together to the top of u64; every seventh pair gets on each side an interval longer than half the u64 range (cov(a) + cov(b) > u64::MAX). Non-trivial: both sides non-empty and some side has two touching/overlapping intervals. Thorough adds the exhaustive small scope: all pairs of sequences of <= 2 non-empty intervals over 0..=3 in histories with merges and set_cov. Distinct = distinct input token sequence.",
        observable: "Lapper::cov of both sets, union_and_intersect both ways, union, intersect",
        gen, exec, shrink, child: None,
    }
}
