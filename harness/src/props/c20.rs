//! C20: depth() run-length encodes the pointwise interval depth.
use super::common::*;
use super::lap::*;
use crate::rng::Rng;
use crate::runner::{Case, PropDef, Tier};
use crate::tok::{R, W};
use bed_utils::verif_hooks::Interval;

fn enc(h: &Hist) -> Vec<String> { let mut w = W::new(); h.put(&mut w); w.0 }
fn dec(t: &[String]) -> Option<Hist> { let mut r = R::new(t); Hist::get(&mut r) }
fn valid(h: &Hist) -> bool { h.all_intervals().iter().all(|x| x.0 < x.1) }

fn exec(t: &[String]) -> Option<String> {
    let h = dec(t)?;
    let l = AnyLapper::build_nonneg(&h, split_flavour(t).1, &[]);
    let runs: Vec<Iv> = l.depth();
    let mut w = W::new();
    w.n(runs.len());
    for r in &runs { w.n(r.start).n(r.stop).n(r.val); }
    Some(w.join())
}

fn shrink(t: &[String]) -> Vec<Vec<String>> { shrink_flavoured(t, shrink0) }
fn shrink0(t: &[String]) -> Vec<Vec<String>> {
    let Some(h) = dec(t) else { return vec![] };
    let mut out = shrink_hist(&h);
    let min = h.min_start();
    for d in [min, min / 2, 1] { if d > 0 && d <= min { let mut e = h.clone(); e.shift(d); out.push(e); } }
    out.into_iter().filter(valid).map(|h| enc(&h)).collect()
}

fn gen(rng: &mut Rng, tier: Tier) -> Vec<Case> {
    let mut out = vec![];
    let (nb, nr) = match tier { Tier::Quick => (700, 120), Tier::Thorough => (12000, 2000) };
    if tier == Tier::Thorough {
        for h in exhaustive_hists(3, 5, false, true) { out.push(Case::new("exhaustive", enc(&h))); }
    }
    for i in 0..(nb + nr) {
        let small = i < nb;
        let n = if small { match i % 20 { 0 => 0, 1 => 1, _ => rng.range(2, 7) as usize } } else { rng.range(5, 40) as usize };
        // depth() walks every covered position: keep every cluster short, place clusters at small and large offsets
        let base = if small { if rng.chance(1, 4) { rng.below(3) } else { 0 } } else { match rng.below(4) { 0 => u64::MAX / 2, 1 => rng.below(1 << 45), _ => 0 } };
        let mg = rng.chance(1, 4);
        let mut h = gen_hist(rng, n, if small { 14 } else { 600 }, false, mg, base);
        if !small && rng.chance(1, 2) { let off = base + 50_000 + rng.below(1000); for k in 0..3u64 { h.init.push((off + k, off + 5 + 2 * k, 900 + k)); } } // a separated nested stack
        if i % 6 == 5 { h.lift_to_top(rng.below(4)); } // at the top of the coordinate type
        out.push(Case::new(if small { "boundary" } else { "random" }, enc(&h)));
    }
    if tier == Tier::Thorough {
        // LARGE sets (see lap::gen_large_hist)
        for &n in LARGE_SIZES { let (h, _) = gen_large_hist(rng, n, 0); out.push(Case::new("large", push_flavour(enc(&h), large_ltype(rng)))); }
    }
    for c in out.iter_mut() {
        if c.stream == "exhaustive" || c.stream == "large" { continue; }
        let ty = gen_ltype(rng);
        if ty == 0 { continue; }
        if let Some(mut d) = dec(&c.input) { if rng.chance(1, 2) { spread_for_type(rng, &mut d, ty, false); } c.input = push_flavour(enc(&d), ty); }
    }
    out
}

pub fn prop() -> PropDef {
    PropDef {
        id: "C20",
        rule: "corpus, then histories over non-empty intervals: small (0-7 intervals, coordinates 0..20, intervals starting at 0, duplicates, nested stacks, book-ended chains) and large (5-40 intervals of length <= 1200 in separated clusters at offsets 0, < 2^45 and 2^63; optional merge in the history; every sixth history lifted so that its greatest stop is u64::MAX-1-{0,1,2}). Non-trivial: two stored intervals touch, overlap or nest. Thorough adds the exhaustive small scope: every sequence of <= 3 non-empty intervals over 0..=5 in several histories. Distinct = distinct input token sequence.",
        observable: "Lapper::depth() collected: (start, stop, depth) runs, or panic",
        gen, exec, shrink, child: None,
    }
}
