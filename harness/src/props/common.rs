//! Shared generators, shrink helpers and conversions.
use crate::rng::Rng;
use crate::tok::{R, W};
use bed_utils::bed::GenomicRange;

pub const CHROMS: &[&str] = &["chr1", "chr2", "chr10", "chr", "c", "chrX", "chr1_alt"];

#[derive(Clone, Debug, PartialEq, Eq)]
pub struct Rec { pub chrom: String, pub start: u64, pub end: u64 }

impl Rec {
    pub fn new(c: &str, s: u64, e: u64) -> Self { Rec { chrom: c.to_string(), start: s, end: e } }
    pub fn gr(&self) -> GenomicRange { GenomicRange::new(self.chrom.clone(), self.start, self.end) }
    pub fn put(&self, w: &mut W) { w.b(self.chrom.as_bytes()).n(self.start).n(self.end); }
    pub fn get(r: &mut R) -> Option<Rec> { Some(Rec { chrom: r.string()?, start: r.u64()?, end: r.u64()? }) }
}

pub fn put_gr(w: &mut W, g: &GenomicRange) {
    use bed_utils::bed::BEDLike;
    w.b(g.chrom().as_bytes()).n(g.start()).n(g.end());
}

/// all single deletions, plus dropping either half (for long lists)
pub fn shrink_vec<T: Clone>(v: &[T]) -> Vec<Vec<T>> {
    let mut out = vec![];
    if v.len() > 3 {
        out.push(v[..v.len() / 2].to_vec());
        out.push(v[v.len() / 2..].to_vec());
    }
    for i in 0..v.len() {
        let mut c = v.to_vec();
        c.remove(i);
        out.push(c);
    }
    out
}

/// smaller values of a number: 0, n/2, n-1 (distinct, < n)
pub fn shrink_u64(n: u64) -> Vec<u64> {
    let mut v = vec![];
    for c in [0, n / 2, n.saturating_sub(1)] { if c < n && !v.contains(&c) { v.push(c); } }
    v
}

/// small coordinate near interesting edges
pub fn coord(rng: &mut Rng, max: u64) -> u64 { rng.below(max + 1) }

/// endpoints ±1 of a set of numbers, plus 0
pub fn around(points: &[u64]) -> Vec<u64> {
    let mut v = vec![0u64];
    for &p in points {
        for q in [p.saturating_sub(1), p, p.saturating_add(1)] { if !v.contains(&q) { v.push(q); } }
    }
    v.sort();
    v
}

/// intervals (start, stop): mixture of shapes used by all Lapper properties
pub fn gen_intervals(rng: &mut Rng, n: usize, max: u64, allow_zero_len: bool) -> Vec<(u64, u64)> {
    let mut v: Vec<(u64, u64)> = vec![];
    for _ in 0..n {
        let shape = rng.below(10);
        let (s, e) = match shape {
            0 if !v.is_empty() => *rng.pick(&v),                                   // duplicate
            1 if !v.is_empty() => { let p = *rng.pick(&v); (p.1, p.1 + rng.range(1, 4)) } // book-ended
            2 if !v.is_empty() => { let p = *rng.pick(&v); if p.1 - p.0 >= 2 { (p.0 + 1, p.1 - 1) } else { p } } // nested
            3 => { let s = coord(rng, max); (s, s + rng.range(max / 2, max)) }     // long
            4 if allow_zero_len => { let s = coord(rng, max); (s, s) }
            _ => { let s = coord(rng, max); (s, s + rng.range(1, 1 + max / 4)) }
        };
        let (s, e) = if !allow_zero_len && s == e { (s, e + 1) } else { (s, e) };
        v.push((s, e));
    }
    v
}

/// the k-th permutation of [0,1,2,3] (k mod 24)
pub fn permutation4(k: u64) -> [usize; 4] {
    let mut items = vec![0usize, 1, 2, 3];
    let mut k = (k % 24) as usize;
    let mut out = [0usize; 4];
    for (i, f) in [6usize, 2, 1, 1].iter().enumerate() {
        let idx = k / f; k %= f;
        out[i] = items.remove(idx.min(items.len() - 1));
    }
    out
}
