//! Shared generators, shrink helpers and conversions.
use crate::rng::Rng;
use crate::tok::{R, W};
use bed_utils::bed::GenomicRange;

pub const CHROMS: &[&str] = &["chr1", "chr2", "chr10", "chr", "c", "chrX", "chr1_alt", "chrUn_KI270302v1_a", "HLA-DRB1*15:01:01:01",
    "scaffold_0000000000000000000000000000000000000000000000000000000000000001", ""];
/// names that are DIFFERENT chromosomes but equal under some common normalisation of another name in the pool
/// (leading zeros inside a digit run, letter case, surrounding white space, Unicode look-alikes, prefix/suffix)
pub const CHROM_VARIANTS: &[(&str, &[&str])] = &[
    ("chr1", &["chr01", "chr001", "Chr1", "CHR1", "chr1 ", " chr1", "chr１", "chr1.", "1", "chr1_", "chr11"]),
    ("chr2", &["chr02", "chr2\u{301}", "Chr2", "chr2 ", "2"]),
    ("chr10", &["chr010", "chr1０", "chr100", "CHR10"]),
    ("chr", &["CHR", "chr ", "ch"]),
    ("c", &["C", "c ", "\u{441}"]),
    ("chrX", &["chrx", "chrX ", "chr23", "X"]),
    ("chr1_alt", &["chr01_alt", "chr1_ALT", "chr1_alt2"]),
    // the empty name and names that look like "nothing" (a sentinel for "no chromosome yet", a placeholder column)
    ("", &[" ", ".", "*", "0", "-", "NA", "None"]),
    // long names that agree on a long prefix (8, 16, 32, 64 bytes) or on a long suffix, or differ only in length
    ("chrUn_KI270302v1_a", &["chrUn_KI270302v1_b", "chrUn_KI270302v1_aa", "chrUn_KI270302v1_", "chrUn_KI270302v1", "chrUn_KI270302v2_a", "chrUn_KJ270302v1_a", "ahrUn_KI270302v1_a"]),
    ("HLA-DRB1*15:01:01:01", &["HLA-DRB1*15:01:01:02", "HLA-DRB1*15:01:01:011", "HLA-DRB1*15:01:01:0", "HLA-DRB1*15:01:02:01", "HLA-DRB1*15:01:01:01 "]),
    ("scaffold_0000000000000000000000000000000000000000000000000000000000000001", &[
        "scaffold_0000000000000000000000000000000000000000000000000000000000000002",
        "scaffold_00000000000000000000000000000000000000000000000000000000000000001",
        "scaffold_0000000000000000000000000000000100000000000000000000000000000001",
        "scaffold_000000000000000000000000000000000000000000000000000000000000001",
        "Scaffold_0000000000000000000000000000000000000000000000000000000000000001"]),
];
/// `n` chromosome names: from the pool; each further one is, half of the time, a near-miss variant of an earlier one
static FRESH: std::sync::atomic::AtomicU64 = std::sync::atomic::AtomicU64::new(0);
pub fn gen_chroms(rng: &mut Rng, n: usize) -> Vec<&'static str> {
    let mut v: Vec<&'static str> = vec![];
    for i in 0..n {
        // a name that has never occurred before in this process (a table of names that fills up, or is keyed by something
        // that gets reused, meets a new entry)
        if rng.chance(1, 6) { v.push(Box::leak(format!("ctg{}_{}", rng.below(1 << 30), FRESH.fetch_add(1, std::sync::atomic::Ordering::Relaxed)).into_boxed_str())); continue; }
        if i > 0 && rng.chance(1, 2) {
            let base = *rng.pick(&v);
            if let Some((_, vars)) = CHROM_VARIANTS.iter().find(|(b, _)| *b == base) { v.push(*rng.pick(vars)); continue; }
        }
        v.push(*rng.pick(CHROMS));
    }
    v
}

#[derive(Clone, Debug, PartialEq, Eq)]
pub struct Rec { pub chrom: String, pub start: u64, pub end: u64 }

impl Rec {
    pub fn new(c: &str, s: u64, e: u64) -> Self { Rec { chrom: c.to_string(), start: s, end: e } }
    pub fn gr(&self) -> GenomicRange { GenomicRange::new(self.chrom.clone(), self.start, self.end) }
    pub fn put(&self, w: &mut W) { w.b(self.chrom.as_bytes()).n(self.start).n(self.end); }
    pub fn get(r: &mut R) -> Option<Rec> { Some(Rec { chrom: r.string()?, start: r.u64()?, end: r.u64()? }) }
}

pub fn put_gr(w: &mut W, g: &GenomicRange) {
    use bed_utils::bed::BEDLike;
    w.b(g.chrom().as_bytes()).n(g.start()).n(g.end());
}

/// all single deletions, plus dropping either half (for long lists)
pub fn shrink_vec<T: Clone>(v: &[T]) -> Vec<Vec<T>> {
    let mut out = vec![];
    if v.len() > 3 {
        out.push(v[..v.len() / 2].to_vec());
        out.push(v[v.len() / 2..].to_vec());
    }
    if v.len() > 200 {
        // long lists: sixteen slices instead of every single deletion (the candidates of a 10^5-element list
        // would not fit in memory)
        let step = v.len() / 16;
        for k in 0..16 { let mut c = v[..k * step].to_vec(); c.extend_from_slice(&v[(k + 1) * step..]); out.push(c); }
        return out;
    }
    for i in 0..v.len() {
        let mut c = v.to_vec();
        c.remove(i);
        out.push(c);
    }
    out
}

/// smaller values of a number: 0, n/2, n-1 (distinct, < n)
pub fn shrink_u64(n: u64) -> Vec<u64> {
    let mut v = vec![];
    for c in [0, n / 2, n.saturating_sub(1)] { if c < n && !v.contains(&c) { v.push(c); } }
    v
}

/// small coordinate near interesting edges
pub fn coord(rng: &mut Rng, max: u64) -> u64 { rng.below(max + 1) }

/// endpoints ±1 of a set of numbers, plus 0
pub fn around(points: &[u64]) -> Vec<u64> {
    let mut v = vec![0u64];
    for &p in points {
        for q in [p.saturating_sub(1), p, p.saturating_add(1)] { if !v.contains(&q) { v.push(q); } }
    }
    v.sort();
    v
}

/// intervals (start, stop): mixture of shapes used by all Lapper properties
pub fn gen_intervals(rng: &mut Rng, n: usize, max: u64, allow_zero_len: bool) -> Vec<(u64, u64)> {
    let mut v: Vec<(u64, u64)> = vec![];
    for _ in 0..n {
        let shape = rng.below(10);
        let (s, e) = match shape {
            0 if !v.is_empty() => *rng.pick(&v),                                   // duplicate
            1 if !v.is_empty() => { let p = *rng.pick(&v); (p.1, p.1 + rng.range(1, 4)) } // book-ended
            2 if !v.is_empty() => { let p = *rng.pick(&v); if p.1 - p.0 >= 2 { (p.0 + 1, p.1 - 1) } else { p } } // nested
            3 => { let s = coord(rng, max); (s, s + rng.range(max / 2, max)) }     // long
            4 if allow_zero_len => { let s = coord(rng, max); (s, s) }
            _ => { let s = coord(rng, max); (s, s + rng.range(1, 1 + max / 4)) }
        };
        let (s, e) = if !allow_zero_len && s == e { (s, e + 1) } else { (s, e) };
        v.push((s, e));
    }
    v
}

/// the k-th permutation of [0,1,2,3] (k mod 24)
pub fn permutation4(k: u64) -> [usize; 4] {
    let mut items = vec![0usize, 1, 2, 3];
    let mut k = (k % 24) as usize;
    let mut out = [0usize; 4];
    for (i, f) in [6usize, 2, 1, 1].iter().enumerate() {
        let idx = k / f; k %= f;
        out[i] = items.remove(idx.min(items.len() - 1));
    }
    out
}

/// Flavour of a case: which `BEDLike` implementor carries the coordinates, and how its other fields are
/// filled (strand none/+/-, name and score present or absent). The properties over `BEDLike` hold for
/// every implementor, so the flavour never changes the expected observable; it is carried as an optional
/// trailing token `~f<n>` of the case (flavour 0 = `GenomicRange`, and is not written).
pub fn split_flavour(t: &[String]) -> (&[String], u64) {
    if let Some(last) = t.last() {
        if let Some(n) = last.strip_prefix("~f").and_then(|s| s.parse::<u64>().ok()) { return (&t[..t.len() - 1], n); }
    }
    (t, 0)
}
pub fn push_flavour(mut t: Vec<String>, f: u64) -> Vec<String> { if f != 0 { t.push(format!("~f{}", f)); } t }
/// the six BED12 columns after strand (thickStart, thickEnd, itemRgb, blockCount, blockSizes, blockStarts) for two records
/// out of three: a spliced record whose blocks do NOT add up to end - start (an intron), a single block, or no columns.
/// `len`, `overlap`, the tilings and everything else over `BEDLike` are functions of chrom / start / end alone.
pub fn bed12_columns(r: &Rec, i: usize) -> bed_utils::bed::OptionalFields {
    let len = r.end.saturating_sub(r.start);
    let v: Vec<String> = match i % 3 {
        0 => vec![],
        1 => vec![r.start.to_string(), r.end.to_string(), "255,0,0".into(), "2".into(), format!("{},{},", len / 3 + 1, len / 4 + 1), format!("0,{},", len - len / 4)],
        _ => vec![r.start.to_string(), r.start.to_string(), "0".into(), "1".into(), format!("{},", len), "0,".into()],
    };
    bed_utils::bed::OptionalFields::from(v)
}
pub const N_KINDS: u64 = 10;
pub const N_FLAVOURS: u64 = N_KINDS * 12;
/// same type, field variant advanced by `i` (per-record variation inside one case)
pub fn rot_flavour(fl: u64, i: usize) -> u64 { (fl % N_KINDS) + N_KINDS * ((fl / N_KINDS + i as u64) % 12) }
pub fn gen_flavour(rng: &mut Rng) -> u64 { if rng.chance(1, 3) { 0 } else { rng.below(N_FLAVOURS) } }

/// `with_bedlike!(flavour, &rec, |x| expr)`: evaluates `expr` with `x` bound to a record of the flavour's type
#[macro_export]
macro_rules! with_bedlike {
    ($fl:expr, $rec:expr, |$x:ident| $body:expr) => {{
        use bed_utils::bed::{BedGraph, BroadPeak, NarrowPeak, OptionalFields, Score, Strand, BED};
        let fl: u64 = $fl; let r: &$crate::props::common::Rec = $rec;
        let var = fl / $crate::props::common::N_KINDS;
        let strand = match var % 3 { 0 => None, 1 => Some(Strand::Forward), _ => Some(Strand::Reverse) };
        let name = if (var / 3) % 2 == 0 { None } else { Some("nm".to_string()) };
        let score: Option<Score> = if (var / 6) % 2 == 0 { None } else { Score::try_from(500u16).ok() };
        match fl % $crate::props::common::N_KINDS {
            0 => { let $x = r.gr(); $body }
            1 => { let $x: BED<3> = BED::new(r.chrom.clone(), r.start, r.end, name, score, strand, OptionalFields::default()); $body }
            2 => { let $x: BED<4> = BED::new(r.chrom.clone(), r.start, r.end, name, score, strand, OptionalFields::default()); $body }
            3 => { let $x: BED<5> = BED::new(r.chrom.clone(), r.start, r.end, name, score, strand, OptionalFields::default()); $body }
            4 => { let $x: BED<6> = BED::new(r.chrom.clone(), r.start, r.end, name, score, strand, OptionalFields::default()); $body }
            5 => { let $x: BED<12> = BED::new(r.chrom.clone(), r.start, r.end, name, score, strand, $crate::props::common::bed12_columns(r, var as usize)); $body }
            6 => { let $x = NarrowPeak { chrom: r.chrom.clone(), start: r.start, end: r.end, name, score, strand, signal_value: 1.5, p_value: None, q_value: Some(0.5), peak: 3 }; $body }
            7 => { let $x = BroadPeak { chrom: r.chrom.clone(), start: r.start, end: r.end, name, score, strand, signal_value: 1.5, p_value: Some(2.0), q_value: None }; $body }
            8 => { let $x: BedGraph<i64> = BedGraph::new(r.chrom.clone(), r.start, r.end, -7); $body }
            _ => { let $x: BedGraph<f64> = BedGraph::new(r.chrom.clone(), r.start, r.end, 0.25); $body }
        }
    }};
}
/// `with_bedlikes!(flavour, &recs, |xs| expr)`: `xs: Vec<T>` of the flavour's type, the field variant rotating per record
#[macro_export]
macro_rules! with_bedlikes {
    ($fl:expr, $recs:expr, |$xs:ident| $body:expr) => {{
        use bed_utils::bed::{BedGraph, BroadPeak, NarrowPeak, OptionalFields, Score, Strand, BED};
        let fl: u64 = $fl; let rs: &[$crate::props::common::Rec] = $recs;
        let fields = |i: usize| {
            let var = fl / $crate::props::common::N_KINDS + i as u64;
            (match var % 3 { 0 => None, 1 => Some(Strand::Forward), _ => Some(Strand::Reverse) },
             if (var / 3) % 2 == 0 { None } else { Some(format!("nm{}", i)) },
             if (var / 6) % 2 == 0 { None } else { Score::try_from(500u16).ok() })
        };
        macro_rules! bed12 { () => { rs.iter().enumerate().map(|(i, r)| { let (st, nm, sc) = fields(i); let b: BED<12> = BED::new(r.chrom.clone(), r.start, r.end, nm, sc, st, $crate::props::common::bed12_columns(r, i)); b }).collect::<Vec<_>>() }; }
        macro_rules! bedn { ($n:literal) => { rs.iter().enumerate().map(|(i, r)| { let (st, nm, sc) = fields(i); let b: BED<$n> = BED::new(r.chrom.clone(), r.start, r.end, nm, sc, st, OptionalFields::default()); b }).collect::<Vec<_>>() }; }
        match fl % $crate::props::common::N_KINDS {
            0 => { let $xs = rs.iter().map(|r| r.gr()).collect::<Vec<_>>(); $body }
            1 => { let $xs = bedn!(3); $body }
            2 => { let $xs = bedn!(4); $body }
            3 => { let $xs = bedn!(5); $body }
            4 => { let $xs = bedn!(6); $body }
            5 => { let $xs = bed12!(); $body }
            6 => { let $xs = rs.iter().enumerate().map(|(i, r)| { let (strand, name, score) = fields(i); NarrowPeak { chrom: r.chrom.clone(), start: r.start, end: r.end, name, score, strand, signal_value: 1.5 + i as f64, p_value: if i % 2 == 0 { None } else { Some(i as f64) }, q_value: Some(0.5 + (i % 3) as f64), peak: 3 } }).collect::<Vec<_>>(); $body }
            7 => { let $xs = rs.iter().enumerate().map(|(i, r)| { let (strand, name, score) = fields(i); BroadPeak { chrom: r.chrom.clone(), start: r.start, end: r.end, name, score, strand, signal_value: 1.5 + i as f64, p_value: Some(2.0 + i as f64), q_value: if i % 2 == 0 { None } else { Some(i as f64) } } }).collect::<Vec<_>>(); $body }
            8 => { let $xs = rs.iter().map(|r| BedGraph::<i64>::new(r.chrom.clone(), r.start, r.end, -7)).collect::<Vec<_>>(); $body }
            _ => { let $xs = rs.iter().map(|r| BedGraph::<f64>::new(r.chrom.clone(), r.start, r.end, 0.25)).collect::<Vec<_>>(); $body }
        }
    }};
}

/// append a random flavour to every generated case (the exhaustive small-scope streams keep flavour 0)
pub fn add_flavours(rng: &mut Rng, cases: &mut Vec<crate::runner::Case>) {
    for c in cases.iter_mut() {
        if c.stream != "exhaustive" { let f = gen_flavour(rng); if f != 0 { c.input.push(format!("~f{}", f)); } }
    }
}
/// shrink candidates of a flavoured case: flavour 0 first, then the property's own candidates with the flavour kept
pub fn shrink_flavoured(t: &[String], inner: impl Fn(&[String]) -> Vec<Vec<String>>) -> Vec<Vec<String>> {
    let (base, fl) = split_flavour(t);
    let mut out = vec![];
    if fl != 0 { out.push(base.to_vec()); }
    out.extend(inner(base).into_iter().map(|c| push_flavour(c, fl)));
    out
}

/// The ways a caller may consume an iterator the library returns. All of them must yield the same item
/// sequence: 0 `collect`; 1 `next()` until `None` (and twice more: it must stay ended); 2 a few `next()` then
/// `fold`; 3 a few `next()` then `for_each`; 4 `size_hint` before every `next()`; 5 a few `next()` then
/// `by_ref().count()` compared with the remaining length (the items themselves re-read by a second pass are
/// not available, so this mode returns what it saw plus `None` markers — use only with `drain_checked`).
pub fn drain_mode<I: Iterator>(mut it: I, mode: u64) -> Vec<I::Item> {
    // an iterator that never ends (a broken `nth`, say) must not exhaust memory: it is cut off and reported
    const CAP: usize = 120_000;
    let k = ((mode / 8) % 3 + 1) as usize;
    let mut v = vec![];
    macro_rules! push { ($x:expr) => {{ assert!(v.len() < CAP, "iterator yielded more than {} items", CAP); v.push($x); }}; }
    match mode % 10 {
        0 => { for x in it { push!(x); } }
        1 => { while let Some(x) = it.next() { push!(x); } assert!(it.next().is_none() && it.next().is_none(), "iterator yields again after None"); }
        2 => { for _ in 0..k { match it.next() { Some(x) => push!(x), None => return v } } return it.fold(v, |mut v, x| { assert!(v.len() < CAP, "iterator yielded more than {} items", CAP); v.push(x); v }); }
        3 => { for _ in 0..k { match it.next() { Some(x) => push!(x), None => return v } } it.for_each(|x| push!(x)); }
        // 5: a few `next()`, then `nth(0)` until None; 6: `next()` and `nth(0)` alternating; 7: `by_ref().take(k)` then the rest;
        // 8: a few `next()`, then `find(|_| true)` until None (try_fold); 9: a few `next()`, then `by_ref().step_by(1)`
        5 => { for _ in 0..k { match it.next() { Some(x) => push!(x), None => return v } } while let Some(x) = it.nth(0) { push!(x); } }
        6 => { loop { match it.next() { Some(x) => push!(x), None => break } match it.nth(0) { Some(x) => push!(x), None => break } } }
        7 => { for x in it.by_ref().take(k) { push!(x); } for x in it { push!(x); } }
        8 => { for _ in 0..k { match it.next() { Some(x) => push!(x), None => return v } } while let Some(x) = it.find(|_| true) { push!(x); } }
        9 => { for _ in 0..k { match it.next() { Some(x) => push!(x), None => return v } } for x in it.by_ref().step_by(1) { push!(x); } }
        _ => { loop { let (lo, hi) = it.size_hint(); match it.next() { Some(x) => { assert!(hi.map_or(true, |h| h >= 1), "size_hint upper bound 0 but an item follows"); let _ = lo; push!(x); } None => { assert!(lo == 0, "size_hint lower bound {} but the iterator is exhausted", lo); break; } } } }
    }
    v
}
/// consumption mode of a case: a function of its tokens (so that it replays), spread over the modes
pub fn mode_of(t: &[String]) -> u64 {
    let mut h: u64 = 1469598103934665603;
    for s in t { for b in s.bytes() { h ^= b as u64; h = h.wrapping_mul(1099511628211); } h ^= 0x20; h = h.wrapping_mul(1099511628211); }
    h >> 7
}

thread_local! { static CASE_MODE: std::cell::Cell<u64> = std::cell::Cell::new(0); }
/// start of a case: the consumption modes used inside it are a function of its tokens
pub fn set_case_mode(t: &[String]) { CASE_MODE.with(|m| m.set(mode_of(t))); }
/// the next consumption mode of the running case
pub fn next_mode() -> u64 { CASE_MODE.with(|m| { let v = m.get(); m.set(v.wrapping_mul(6364136223846793005).wrapping_add(1442695040888963407)); v >> 11 }) }
