//! Lapper operation histories shared by C16–C20.
use super::common::*;
use crate::rng::Rng;
use crate::tok::{R, W};
use bed_utils::verif_hooks::{Interval, Lapper};

pub type Iv = Interval<u64, u64>;

#[derive(Clone, Debug, PartialEq)]
pub enum Op { Insert(u64, u64, u64), Merge, SetCov }

#[derive(Clone, Debug, PartialEq)]
pub struct Hist { pub init: Vec<(u64, u64, u64)>, pub ops: Vec<Op> }

impl Hist {
    pub fn put(&self, w: &mut W) {
        w.n(self.init.len());
        for (s, e, v) in &self.init { w.n(*s).n(*e).n(*v); }
        w.n(self.ops.len());
        for o in &self.ops {
            match o {
                Op::Insert(s, e, v) => { w.s("i").n(*s).n(*e).n(*v); }
                Op::Merge => { w.s("m"); }
                Op::SetCov => { w.s("c"); }
            }
        }
    }
    pub fn get(r: &mut R) -> Option<Hist> {
        let init = r.list(|r| Some((r.u64()?, r.u64()?, r.u64()?)))?;
        let ops = r.list(|r| match r.tok()? {
            "i" => Some(Op::Insert(r.u64()?, r.u64()?, r.u64()?)),
            "m" => Some(Op::Merge),
            "c" => Some(Op::SetCov),
            _ => None,
        })?;
        Some(Hist { init, ops })
    }
    pub fn build(&self) -> Lapper<u64, u64> {
        let mut l = Lapper::new(self.init.iter().map(|(s, e, v)| Iv { start: *s, stop: *e, val: *v }).collect());
        // "however it was built": a copy (Clone) or a serde round trip (bincode) of the set answers exactly like the set
        // itself; the places where one is taken are a function of the history (so that a case replays)
        fn identity(l: Lapper<u64, u64>, k: usize) -> Lapper<u64, u64> {
            match k % 7 {
                3 => l.clone(),
                5 => bincode::deserialize(&bincode::serialize(&l).expect("serialize Lapper")).expect("deserialize Lapper"),
                _ => l,
            }
        }
        l = identity(l, self.init.len() * 5 + 3 * self.ops.len());
        for (i, o) in self.ops.iter().enumerate() {
            match o {
                Op::Insert(s, e, v) => l.insert(Iv { start: *s, stop: *e, val: *v }),
                Op::Merge => l.merge_overlaps(),
                Op::SetCov => { l.set_cov(); }
            }
            l = identity(l, i * 3 + self.init.len());
            // read-only calls in the middle of a history (results discarded): they take &self and must not
            // influence any later answer
            if (i + self.init.len()) % 2 == 0 {
                let (qs, qe) = match o { Op::Insert(s, e, _) => (*s, e.saturating_add(1)), _ => (0, 1) };
                let _ = l.find(qs, qe).count();
                if !l.intervals.iter().any(|x| x.start > x.stop) { let _ = l.count(qs, qe); }
                let mut cur = 0usize;
                let _ = l.seek(qs, qe, &mut cur).count();
                let _ = l.iter().count();
                if !l.intervals.iter().any(|x| x.start >= x.stop) {
                    let _ = l.cov();
                    let _ = l.union_and_intersect(&l);
                    let mut d = l.depth();
                    if l.intervals.iter().all(|x| x.stop - x.start < 5_000) { let _ = d.next(); }
                }
            }
        }
        l
    }
    pub fn all_intervals(&self) -> Vec<(u64, u64)> {
        self.init.iter().map(|x| (x.0, x.1)).chain(self.ops.iter().filter_map(|o| if let Op::Insert(s, e, _) = o { Some((*s, *e)) } else { None })).collect()
    }
    pub fn endpoints(&self) -> Vec<u64> { self.all_intervals().iter().flat_map(|x| [x.0, x.1]).collect() }
    pub fn shift(&mut self, d: u64) {
        for x in self.init.iter_mut() { x.0 -= d; x.1 -= d; }
        for o in self.ops.iter_mut() { if let Op::Insert(s, e, _) = o { *s -= d; *e -= d; } }
    }
    pub fn shift_up(&mut self, d: u64) {
        for x in self.init.iter_mut() { x.0 += d; x.1 += d; }
        for o in self.ops.iter_mut() { if let Op::Insert(s, e, _) = o { *s += d; *e += d; } }
    }
    pub fn max_stop(&self) -> u64 { self.all_intervals().iter().map(|x| x.1).max().unwrap_or(0) }
    /// move the whole history so that its greatest stop is `u64::MAX - slack` (slack 0: the last interval
    /// ends at u64::MAX itself): start + max_len then exceeds the coordinate type for every interval shorter
    /// than the longest one, and position + 1 does at the end of the last interval
    pub fn lift_to_top(&mut self, slack: u64) {
        let m = self.max_stop();
        self.shift_up(u64::MAX - slack - m);
    }
    pub fn min_start(&self) -> u64 { self.all_intervals().iter().map(|x| x.0).min().unwrap_or(0) }
}

/// history: `new(prefix)`, then inserts of the rest interleaved with merge / set_cov
pub fn gen_hist(rng: &mut Rng, n: usize, max: u64, zero_len: bool, merges: bool, base: u64) -> Hist {
    let ivs = gen_intervals(rng, n, max, zero_len);
    let k = match rng.below(5) { 0 => ivs.len(), 1 => 0, _ => rng.below(ivs.len() as u64 + 1) as usize };
    let init: Vec<(u64, u64, u64)> = ivs[..k].iter().enumerate().map(|(i, x)| (base + x.0, base + x.1, i as u64)).collect();
    let mut rest: Vec<(u64, u64, u64)> = ivs[k..].iter().enumerate().map(|(i, x)| (base + x.0, base + x.1, (k + i) as u64)).collect();
    match rng.below(3) { 0 => rest.sort(), 1 => { rest.sort(); rest.reverse(); } _ => rng.shuffle(&mut rest) }
    let mut ops = vec![];
    if merges && rng.chance(1, 4) { ops.push(Op::Merge); }
    for x in rest {
        ops.push(Op::Insert(x.0, x.1, x.2));
        if merges && rng.chance(1, 6) { ops.push(Op::Merge); }
        if rng.chance(1, 8) { ops.push(Op::SetCov); }
    }
    if merges && rng.chance(1, 3) { ops.push(Op::Merge); }
    if rng.chance(1, 6) { ops.push(Op::SetCov); }
    if merges && rng.chance(1, 8) { ops.push(Op::Merge); ops.push(Op::Merge); }
    Hist { init, ops }
}

pub fn shrink_hist(h: &Hist) -> Vec<Hist> {
    let mut out = vec![];
    for init in shrink_vec(&h.init) { out.push(Hist { init, ops: h.ops.clone() }); }
    for ops in shrink_vec(&h.ops) { out.push(Hist { init: h.init.clone(), ops }); }
    // an insert becomes part of the initial load
    if let Some(i) = h.ops.iter().position(|o| matches!(o, Op::Insert(..))) {
        let mut d = h.clone();
        if let Op::Insert(s, e, v) = d.ops.remove(i) { d.init.push((s, e, v)); }
        out.push(d);
    }
    for i in 0..h.init.len() {
        let (s, e, _) = h.init[i];
        if e > s + 1 { let mut d = h.clone(); d.init[i].1 = s + (e - s) / 2; out.push(d); }
    }
    out
}

pub fn put_ivs<'a>(w: &mut W, it: impl Iterator<Item = &'a Iv>) {
    let v: Vec<&Iv> = drain_mode(it, next_mode());
    w.n(v.len());
    for i in v { w.n(i.start).n(i.stop).n(i.val); }
}

/// exhaustive small scope: every sequence (with repetition) of at most `max_n` intervals over
/// coordinates 0..=`m`, each in several build histories
pub fn exhaustive_hists(max_n: usize, m: u64, zero_len: bool, merges: bool) -> Vec<Hist> {
    let mut ivs: Vec<(u64, u64)> = vec![];
    for s in 0..=m { for e in s..=m { if zero_len || s < e { ivs.push((s, e)); } } }
    let mut seqs: Vec<Vec<(u64, u64)>> = vec![vec![]];
    let mut frontier: Vec<Vec<(u64, u64)>> = vec![vec![]];
    for _ in 0..max_n {
        let mut next = vec![];
        for f in &frontier { for iv in &ivs { let mut g = f.clone(); g.push(*iv); next.push(g); } }
        seqs.extend(next.iter().cloned());
        frontier = next;
    }
    let mut out = vec![];
    for sq in seqs {
        let with_vals: Vec<(u64, u64, u64)> = sq.iter().enumerate().map(|(i, x)| (x.0, x.1, i as u64)).collect();
        // bulk
        out.push(Hist { init: with_vals.clone(), ops: vec![] });
        if !sq.is_empty() {
            // insert-only, in the given order (all orders are enumerated since sequences are ordered)
            out.push(Hist { init: vec![], ops: with_vals.iter().map(|x| Op::Insert(x.0, x.1, x.2)).collect() });
            // first one in bulk, rest inserted
            out.push(Hist { init: with_vals[..1].to_vec(), ops: with_vals[1..].iter().map(|x| Op::Insert(x.0, x.1, x.2)).collect() });
            if merges {
                let mut ops: Vec<Op> = vec![Op::Merge];
                out.push(Hist { init: with_vals.clone(), ops: ops.clone() });
                ops = with_vals[1..].iter().map(|x| Op::Insert(x.0, x.1, x.2)).collect();
                ops.insert(0, Op::Merge); ops.push(Op::SetCov); ops.push(Op::Merge);
                out.push(Hist { init: with_vals[..1].to_vec(), ops });
                // all but the last in bulk, merged, then the last one inserted into the merged set
                let k = with_vals.len() - 1;
                out.push(Hist { init: with_vals[..k].to_vec(), ops: vec![Op::Merge, Op::Insert(with_vals[k].0, with_vals[k].1, with_vals[k].2)] });
            }
        }
    }
    out
}

pub fn all_queries(m: u64) -> Vec<(u64, u64)> {
    let mut qs = vec![];
    for s in 0..=m + 1 { for e in s + 1..=m + 2 { qs.push((s, e)); } }
    qs
}
