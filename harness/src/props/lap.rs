//! Lapper operation histories shared by C16–C20.
use super::common::*;
use crate::rng::Rng;
use crate::tok::{R, W};
use bed_utils::verif_hooks::{Interval, Lapper};

pub type Iv = Interval<u64, u64>;

/// coordinate types the index is instantiated with (`Lapper<I, T>` is generic over `I: PrimInt`)
pub trait Coord: num_traits::PrimInt + serde::Serialize + serde::de::DeserializeOwned + std::fmt::Debug + std::fmt::Display + Default + std::hash::Hash + Send + Sync + 'static {
    const MIN_: i128; const MAX_: i128;
    fn of(x: i128) -> Self;
    fn to(self) -> i128;
}
macro_rules! coord { ($($t:ty),*) => { $(impl Coord for $t { const MIN_: i128 = <$t>::MIN as i128; const MAX_: i128 = <$t>::MAX as i128; fn of(x: i128) -> Self { <$t>::try_from(x).expect("coordinate out of the type's range") } fn to(self) -> i128 { self as i128 } })* }; }
coord!(u8, u16, u32, u64, usize, i8, i16, i32, i64, isize);

/// type flavours: 0 u64 (as stored by the library's own maps), then i64, i32, i8, u8, u16, u32, i16, usize, isize
pub const N_LTYPES: u64 = 10;
fn bounds(ty: u64) -> (i128, i128) {
    match ty { 1 => (i64::MIN_, i64::MAX_), 2 => (i32::MIN_, i32::MAX_), 3 => (i8::MIN_, i8::MAX_), 4 => (u8::MIN_, u8::MAX_), 5 => (u16::MIN_, u16::MAX_),
               6 => (u32::MIN_, u32::MAX_), 7 => (i16::MIN_, i16::MAX_), 8 => (usize::MIN_, usize::MAX_), 9 => (isize::MIN_, isize::MAX_), _ => (0, u64::MAX as i128) }
}
/// The offset under which a case fits the coordinate type `ty`, if it does: every coordinate (of the intervals and of the
/// queries) is representable; `start - max_len` does not leave a SIGNED type at its lower end (the library's
/// `checked_sub(..).unwrap_or(zero)` idiom is written for unsigned underflow); every length, the sum of all lengths (cov,
/// union) and the number of intervals (a depth) are representable. Signed types get the lowest possible placement, so
/// that the coordinates straddle zero and gaps wider than `I::MAX` occur; unsigned types are shifted down to zero.
pub fn type_offset(ty: u64, intervals: &[(u64, u64)], other_coords: &[u64]) -> Option<i128> { type_offset_at(ty, intervals, other_coords, true) }
/// length of the longest block of the canonical cover (book-ended intervals fused): no stored interval, merged or not, is longer
fn longest_block(intervals: &[(u64, u64)]) -> u64 {
    let mut v: Vec<(u64, u64)> = intervals.to_vec();
    v.sort();
    let mut best = 0u64;
    let mut cur: Option<(u64, u64)> = None;
    for (s, e) in v {
        cur = match cur { Some((a, b)) if s <= b => Some((a, b.max(e))), Some((a, b)) => { best = best.max(b - a); let _ = a; Some((s, e.max(s))) } None => Some((s, e.max(s))) };
    }
    if let Some((a, b)) = cur { best = best.max(b - a); }
    best
}
/// `negative`: signed types are placed at their lower end (coordinates below zero); otherwise at zero
pub fn type_offset_at(ty: u64, intervals: &[(u64, u64)], other_coords: &[u64], negative: bool) -> Option<i128> {
    if ty == 0 { return Some(0); }
    let (min, max) = bounds(ty);
    let coords = || intervals.iter().flat_map(|x| [x.0, x.1]).chain(other_coords.iter().copied());
    let lo = coords().min().unwrap_or(0) as i128;
    let hi = coords().max().unwrap_or(0) as i128;
    // (a merge makes stored intervals as long as a block of the cover: that is the `max_len` the margin must hold)
    let maxlen = longest_block(intervals) as i128;
    let sumlen: i128 = intervals.iter().map(|x| x.1.saturating_sub(x.0) as i128).sum();
    let off = if min < 0 && negative { min + maxlen + 1 - lo } else { -lo };
    if hi + off + 1 > max || sumlen > max || intervals.len() as i128 > max { return None; }
    Some(off)
}

/// A `Lapper<I, u64>` for one of the coordinate types, with an interface in the case's own (u64) coordinates
pub enum AnyLapper { U64(Lapper<u64, u64>, i128), I64(Lapper<i64, u64>, i128), I32(Lapper<i32, u64>, i128), I8(Lapper<i8, u64>, i128), U8(Lapper<u8, u64>, i128),
    U16(Lapper<u16, u64>, i128), U32(Lapper<u32, u64>, i128), I16(Lapper<i16, u64>, i128), Usize(Lapper<usize, u64>, i128), Isize(Lapper<isize, u64>, i128) }
macro_rules! any_lapper {
    ($self:expr, $l:ident, $off:ident, $I:ident, $body:expr) => {
        match $self {
            AnyLapper::U64($l, $off) => { #[allow(dead_code)] type $I = u64; $body } AnyLapper::I64($l, $off) => { #[allow(dead_code)] type $I = i64; $body }
            AnyLapper::I32($l, $off) => { #[allow(dead_code)] type $I = i32; $body } AnyLapper::I8($l, $off) => { #[allow(dead_code)] type $I = i8; $body }
            AnyLapper::U8($l, $off) => { #[allow(dead_code)] type $I = u8; $body } AnyLapper::U16($l, $off) => { #[allow(dead_code)] type $I = u16; $body }
            AnyLapper::U32($l, $off) => { #[allow(dead_code)] type $I = u32; $body } AnyLapper::I16($l, $off) => { #[allow(dead_code)] type $I = i16; $body }
            AnyLapper::Usize($l, $off) => { #[allow(dead_code)] type $I = usize; $body } AnyLapper::Isize($l, $off) => { #[allow(dead_code)] type $I = isize; $body }
        }
    };
}
fn back<I: Coord>(x: I, off: i128) -> u64 { (x.to() - off) as u64 }
fn ivs_back<'a, I: Coord>(it: impl Iterator<Item = &'a Interval<I, u64>>, off: i128) -> Vec<Iv> {
    drain_mode(it, next_mode()).into_iter().map(|x| Iv { start: back(x.start, off), stop: back(x.stop, off), val: x.val }).collect()
}
impl AnyLapper {
    /// the history over the coordinate type of flavour `ty` (u64 when the case does not fit that type)
    pub fn build(h: &Hist, ty: u64, other_coords: &[u64]) -> AnyLapper { Self::build_with(h, ty, type_offset(ty, &h.all_intervals(), other_coords)) }
    /// signed types placed at zero (for `depth`, whose iterator uses the coordinate 0 as its "not started" marker)
    pub fn build_nonneg(h: &Hist, ty: u64, other_coords: &[u64]) -> AnyLapper { Self::build_with(h, ty, type_offset_at(ty, &h.all_intervals(), other_coords, false)) }
    pub fn build_with(h: &Hist, ty: u64, off: Option<i128>) -> AnyLapper {
        let Some(off) = off else { return AnyLapper::U64(h.build_t::<u64>(0), 0) };
        match ty {
            1 => AnyLapper::I64(h.build_t(off), off), 2 => AnyLapper::I32(h.build_t(off), off), 3 => AnyLapper::I8(h.build_t(off), off), 4 => AnyLapper::U8(h.build_t(off), off),
            5 => AnyLapper::U16(h.build_t(off), off), 6 => AnyLapper::U32(h.build_t(off), off), 7 => AnyLapper::I16(h.build_t(off), off), 8 => AnyLapper::Usize(h.build_t(off), off),
            9 => AnyLapper::Isize(h.build_t(off), off), _ => AnyLapper::U64(h.build_t(0), 0),
        }
    }
    pub fn find(&self, s: u64, e: u64) -> Vec<Iv> { any_lapper!(self, l, off, I, ivs_back(l.find(I::of(s as i128 + *off), I::of(e as i128 + *off)), *off)) }
    pub fn seek(&self, s: u64, e: u64, cursor: &mut usize) -> Vec<Iv> { any_lapper!(self, l, off, I, ivs_back(l.seek(I::of(s as i128 + *off), I::of(e as i128 + *off), cursor), *off)) }
    pub fn count(&self, s: u64, e: u64) -> usize { any_lapper!(self, l, off, I, l.count(I::of(s as i128 + *off), I::of(e as i128 + *off))) }
    pub fn iter(&self) -> Vec<Iv> { any_lapper!(self, l, off, I, ivs_back(l.iter(), *off)) }
    pub fn cov(&self) -> u64 { any_lapper!(self, l, _off, I, l.cov().to() as u64) }
    pub fn set_cov(&mut self) { any_lapper!(self, l, _off, I, { l.set_cov(); }) }
    pub fn merge_overlaps(&mut self) { any_lapper!(self, l, _off, I, l.merge_overlaps()) }
    pub fn insert(&mut self, iv: Iv) { any_lapper!(self, l, off, I, l.insert(Interval { start: I::of(iv.start as i128 + *off), stop: I::of(iv.stop as i128 + *off), val: iv.val })) }
    pub fn depth(&self) -> Vec<Iv> {
        any_lapper!(self, l, off, I, drain_mode(l.depth(), next_mode()).into_iter().map(|x| Iv { start: back(x.start, *off), stop: back(x.stop, *off), val: x.val.to() as u64 }).collect())
    }
    pub fn duplicate(&self) -> AnyLapper {
        match self {
            AnyLapper::U64(l, o) => AnyLapper::U64(l.clone(), *o), AnyLapper::I64(l, o) => AnyLapper::I64(l.clone(), *o), AnyLapper::I32(l, o) => AnyLapper::I32(l.clone(), *o),
            AnyLapper::I8(l, o) => AnyLapper::I8(l.clone(), *o), AnyLapper::U8(l, o) => AnyLapper::U8(l.clone(), *o), AnyLapper::U16(l, o) => AnyLapper::U16(l.clone(), *o),
            AnyLapper::U32(l, o) => AnyLapper::U32(l.clone(), *o), AnyLapper::I16(l, o) => AnyLapper::I16(l.clone(), *o), AnyLapper::Usize(l, o) => AnyLapper::Usize(l.clone(), *o),
            AnyLapper::Isize(l, o) => AnyLapper::Isize(l.clone(), *o),
        }
    }
    /// (union, intersect) of two sets built over the same coordinate type with the same offset
    pub fn union_and_intersect(&self, other: &AnyLapper) -> (u64, u64) {
        macro_rules! pair { ($($v:ident),*) => { match (self, other) { $((AnyLapper::$v(a, _), AnyLapper::$v(b, _)) => { let (u, i) = a.union_and_intersect(b); (u.to() as u64, i.to() as u64) })* _ => panic!("harness: two sets over different coordinate types") } }; }
        pair!(U64, I64, I32, I8, U8, U16, U32, I16, Usize, Isize)
    }
    pub fn union(&self, other: &AnyLapper) -> u64 {
        macro_rules! pair { ($($v:ident),*) => { match (self, other) { $((AnyLapper::$v(a, _), AnyLapper::$v(b, _)) => a.union(b).to() as u64,)* _ => panic!("harness: two sets over different coordinate types") } }; }
        pair!(U64, I64, I32, I8, U8, U16, U32, I16, Usize, Isize)
    }
    pub fn intersect(&self, other: &AnyLapper) -> u64 {
        macro_rules! pair { ($($v:ident),*) => { match (self, other) { $((AnyLapper::$v(a, _), AnyLapper::$v(b, _)) => a.intersect(b).to() as u64,)* _ => panic!("harness: two sets over different coordinate types") } }; }
        pair!(U64, I64, I32, I8, U8, U16, U32, I16, Usize, Isize)
    }
}
/// a random coordinate-type flavour for a Lapper case (u64 half of the time)
pub fn gen_ltype(rng: &mut Rng) -> u64 { if rng.chance(1, 2) { 0 } else { rng.range(1, N_LTYPES - 1) } }
/// for a narrow flavour: a far-away interval, so that the set spans more than half of the type's range (two runs further
/// apart than `I::MAX` of the signed types)
pub fn spread_for_type(rng: &mut Rng, h: &mut Hist, ty: u64, zero_len_ok: bool) {
    let far: u64 = match ty { 3 | 4 => 150 + rng.below(60), 5 | 7 => 40_000 + rng.below(20_000), 2 | 6 => (1u64 << 31) + 1000 + rng.below(1 << 20), 1 | 9 => (1u64 << 63) + 1000 + rng.below(1 << 40), _ => return };
    let lo = h.min_start();
    let len = if zero_len_ok { rng.below(6) } else { rng.range(1, 6) };
    if let Some(s) = lo.checked_add(far) { if let Some(e) = s.checked_add(len) { h.init.push((s, e, 7070)); } }
}

#[derive(Clone, Debug, PartialEq)]
pub enum Op { Insert(u64, u64, u64), Merge, SetCov }

#[derive(Clone, Debug, PartialEq)]
pub struct Hist { pub init: Vec<(u64, u64, u64)>, pub ops: Vec<Op> }

impl Hist {
    pub fn put(&self, w: &mut W) {
        w.n(self.init.len());
        for (s, e, v) in &self.init { w.n(*s).n(*e).n(*v); }
        w.n(self.ops.len());
        for o in &self.ops {
            match o {
                Op::Insert(s, e, v) => { w.s("i").n(*s).n(*e).n(*v); }
                Op::Merge => { w.s("m"); }
                Op::SetCov => { w.s("c"); }
            }
        }
    }
    pub fn get(r: &mut R) -> Option<Hist> {
        let init = r.list(|r| Some((r.u64()?, r.u64()?, r.u64()?)))?;
        let ops = r.list(|r| match r.tok()? {
            "i" => Some(Op::Insert(r.u64()?, r.u64()?, r.u64()?)),
            "m" => Some(Op::Merge),
            "c" => Some(Op::SetCov),
            _ => None,
        })?;
        Some(Hist { init, ops })
    }
    pub fn build(&self) -> Lapper<u64, u64> { self.build_t::<u64>(0) }
    /// the same history over the coordinate type `I`: every coordinate x is stored as `x + off`
    pub fn build_t<I: Coord>(&self, off: i128) -> Lapper<I, u64> {
        let cv = |x: u64| I::of(x as i128 + off);
        let mut l: Lapper<I, u64> = Lapper::new(self.init.iter().map(|(s, e, v)| Interval { start: cv(*s), stop: cv(*e), val: *v }).collect());
        // "however it was built": a copy (Clone) or a serde round trip (bincode) of the set answers exactly like the set
        // itself; the places where one is taken are a function of the history (so that a case replays)
        fn identity<I: Coord>(l: Lapper<I, u64>, k: usize) -> Lapper<I, u64> {
            match k % 7 {
                3 => l.clone(),
                5 => bincode::deserialize(&bincode::serialize(&l).expect("serialize Lapper")).expect("deserialize Lapper"),
                _ => l,
            }
        }
        l = identity(l, self.init.len() * 5 + 3 * self.ops.len());
        for (i, o) in self.ops.iter().enumerate() {
            match o {
                Op::Insert(s, e, v) => l.insert(Interval { start: cv(*s), stop: cv(*e), val: *v }),
                Op::Merge => l.merge_overlaps(),
                Op::SetCov => { l.set_cov(); }
            }
            l = identity(l, i * 3 + self.init.len());
            // read-only calls in the middle of a history (results discarded): they take &self and must not
            // influence any later answer
            if (i + self.init.len()) % 2 == 0 {
                let (qs, qe) = match o { Op::Insert(s, e, _) => (cv(*s), cv(*e)), _ => match self.all_intervals().first() { Some(x) => (cv(x.0), cv(x.0)), None => continue } };
                let qe = qe.saturating_add(I::one());
                let _ = l.find(qs, qe).count();
                if !l.intervals.iter().any(|x| x.start > x.stop) { let _ = l.count(qs, qe); }
                let mut cur = 0usize;
                let _ = l.seek(qs, qe, &mut cur).count();
                let _ = l.iter().count();
                if !l.intervals.iter().any(|x| x.start >= x.stop) {
                    let _ = l.cov();
                    let _ = l.union_and_intersect(&l);
                    let mut d = l.depth();
                    if l.intervals.iter().all(|x| (x.stop - x.start).to() < 5_000) { let _ = d.next(); }
                }
            }
        }
        l
    }
    pub fn all_intervals(&self) -> Vec<(u64, u64)> {
        self.init.iter().map(|x| (x.0, x.1)).chain(self.ops.iter().filter_map(|o| if let Op::Insert(s, e, _) = o { Some((*s, *e)) } else { None })).collect()
    }
    pub fn endpoints(&self) -> Vec<u64> { self.all_intervals().iter().flat_map(|x| [x.0, x.1]).collect() }
    pub fn shift(&mut self, d: u64) {
        for x in self.init.iter_mut() { x.0 -= d; x.1 -= d; }
        for o in self.ops.iter_mut() { if let Op::Insert(s, e, _) = o { *s -= d; *e -= d; } }
    }
    pub fn shift_up(&mut self, d: u64) {
        for x in self.init.iter_mut() { x.0 += d; x.1 += d; }
        for o in self.ops.iter_mut() { if let Op::Insert(s, e, _) = o { *s += d; *e += d; } }
    }
    pub fn max_stop(&self) -> u64 { self.all_intervals().iter().map(|x| x.1).max().unwrap_or(0) }
    /// move the whole history so that its greatest stop is `u64::MAX - slack` (slack 0: the last interval
    /// ends at u64::MAX itself): start + max_len then exceeds the coordinate type for every interval shorter
    /// than the longest one, and position + 1 does at the end of the last interval
    pub fn lift_to_top(&mut self, slack: u64) {
        let m = self.max_stop();
        self.shift_up(u64::MAX - slack - m);
    }
    pub fn min_start(&self) -> u64 { self.all_intervals().iter().map(|x| x.0).min().unwrap_or(0) }
}

/// history: `new(prefix)`, then inserts of the rest interleaved with merge / set_cov
pub fn gen_hist(rng: &mut Rng, n: usize, max: u64, zero_len: bool, merges: bool, base: u64) -> Hist {
    let ivs = gen_intervals(rng, n, max, zero_len);
    let k = match rng.below(5) { 0 => ivs.len(), 1 => 0, _ => rng.below(ivs.len() as u64 + 1) as usize };
    let init: Vec<(u64, u64, u64)> = ivs[..k].iter().enumerate().map(|(i, x)| (base + x.0, base + x.1, i as u64)).collect();
    let mut rest: Vec<(u64, u64, u64)> = ivs[k..].iter().enumerate().map(|(i, x)| (base + x.0, base + x.1, (k + i) as u64)).collect();
    match rng.below(3) { 0 => rest.sort(), 1 => { rest.sort(); rest.reverse(); } _ => rng.shuffle(&mut rest) }
    let mut ops = vec![];
    if merges && rng.chance(1, 4) { ops.push(Op::Merge); }
    for x in rest {
        ops.push(Op::Insert(x.0, x.1, x.2));
        if merges && rng.chance(1, 6) { ops.push(Op::Merge); }
        if rng.chance(1, 8) { ops.push(Op::SetCov); }
    }
    if merges && rng.chance(1, 3) { ops.push(Op::Merge); }
    if rng.chance(1, 6) { ops.push(Op::SetCov); }
    if merges && rng.chance(1, 8) { ops.push(Op::Merge); ops.push(Op::Merge); }
    Hist { init, ops }
}

/// A LARGE set (thorough tier; the driver judges such cases with sweep-based spec evaluation, not with the model): `n` short
/// intervals `[10i, 10i + 2..6)` in start order, loaded in bulk, plus long intervals that bridge the SEAMS of every
/// power-of-two block size from 2^8 to 2^13 (an interval starting 1..9 places before a multiple of the block size and reaching
/// ~10 places beyond it) — a threshold on the number of intervals, or work split into blocks and stitched together, shows
/// only here. Returns the history and query points around the seams.
pub fn gen_large_hist(rng: &mut Rng, n: usize, val0: u64) -> (Hist, Vec<u64>) {
    // positions IN START ORDER at which a seam-bridging interval sits: 1..9 places before a multiple of a block size
    let mut targets: Vec<(u64, u64)> = vec![];
    for p in [256u64, 512, 1024, 2048, 4096, 8192, 65536] {
        for k in [1u64, 2, 3, 5, 16] { let seam = k * p; if seam + 40 < n as u64 { targets.push((seam - rng.range(1, 9), seam)); } }
    }
    targets.sort();
    targets.dedup_by_key(|x| x.0);
    let last_seam = targets.last().map(|x| x.1).unwrap_or(0);
    let mut init: Vec<(u64, u64, u64)> = vec![];
    let mut pts = vec![];
    let mut b = 0u64; // next short interval
    let mut ti = 0usize;
    while init.len() < n {
        if ti < targets.len() && init.len() as u64 == targets[ti].0 {
            // starts just before short interval b, reaches 2..8 short intervals beyond the seam
            let (at, seam) = targets[ti];
            let s = 10 * b - rng.range(1, 3);
            let e = 10 * (b + (seam - at) + rng.range(2, 8)) + rng.below(9);
            init.push((s, e, val0 + 1_000_000 + seam));
            pts.extend([s, e, 10 * b, e - 1]);
            ti += 1;
        } else {
            init.push((10 * b, 10 * b + 2 + if b % 7 == 0 { 4 } else { 0 }, val0 + b));
            b += 1;
        }
    }
    // beyond the last seam (so that the positions above stay where they are): nested and duplicated intervals, random bridges,
    // and one long interval over several hundred short ones
    let lo = last_seam + 30;
    if b > lo + 450 {
        for _ in 0..25 { let i = lo + rng.below(b - lo - 420); let len = if rng.chance(1, 3) { rng.range(30, 140) } else { rng.range(1, 25) }; init.push((10 * i + 1, 10 * i + 1 + len, val0 + 2_000_000 + i)); pts.push(10 * i + 1); }
        let i = lo + rng.below(b - lo - 420); init.push((10 * i + 3, 10 * (i + 300) + 1, val0 + 3_000_000)); pts.push(10 * i + 3); pts.push(10 * (i + 300) + 1);
    }
    if rng.chance(1, 2) { rng.shuffle(&mut init); }
    // sometimes ONE insert at the very front after the bulk load: every interval moves one place up in start order (a seam-
    // bridging interval crosses its block boundary)
    let mut ops = if rng.chance(1, 3) { vec![Op::SetCov] } else { vec![] };
    if rng.chance(1, 2) { ops.push(Op::Insert(0, 1, val0 + 9_000_000)); }
    (Hist { init, ops }, pts)
}
/// ascending queries around the given points and at random places of a large set
pub fn large_queries(rng: &mut Rng, pts: &[u64], n: usize, k: usize) -> Vec<(u64, u64)> {
    let mut starts: Vec<u64> = (0..k).map(|_| if rng.chance(2, 3) { let p = *rng.pick(pts); p.saturating_sub(rng.below(3)) + rng.below(3) } else { rng.below(10 * n as u64 + 50) }).collect();
    starts.sort();
    starts.into_iter().map(|s| (s, s + match rng.below(4) { 0 => 1, 1 => rng.range(2, 30), 2 => rng.range(30, 400), _ => rng.range(400, 100_000) })).collect()
}
/// a coordinate type that can hold a large set (coordinates up to ~10 n, sums of lengths up to ~10 n)
pub fn large_ltype(rng: &mut Rng) -> u64 { *rng.pick(&[0u64, 0, 1, 2, 6, 8, 9]) }
pub const LARGE_SIZES: &[usize] = &[9_000, 20_001, 70_000];

pub fn shrink_hist(h: &Hist) -> Vec<Hist> {
    let mut out = vec![];
    for init in shrink_vec(&h.init) { out.push(Hist { init, ops: h.ops.clone() }); }
    for ops in shrink_vec(&h.ops) { out.push(Hist { init: h.init.clone(), ops }); }
    // an insert becomes part of the initial load
    if let Some(i) = h.ops.iter().position(|o| matches!(o, Op::Insert(..))) {
        let mut d = h.clone();
        if let Op::Insert(s, e, v) = d.ops.remove(i) { d.init.push((s, e, v)); }
        out.push(d);
    }
    for i in 0..h.init.len() {
        let (s, e, _) = h.init[i];
        if e > s + 1 { let mut d = h.clone(); d.init[i].1 = s + (e - s) / 2; out.push(d); }
    }
    out
}

pub fn put_ivs<'a>(w: &mut W, it: impl Iterator<Item = &'a Iv>) {
    let v: Vec<&Iv> = drain_mode(it, next_mode());
    w.n(v.len());
    for i in v { w.n(i.start).n(i.stop).n(i.val); }
}

/// exhaustive small scope: every sequence (with repetition) of at most `max_n` intervals over
/// coordinates 0..=`m`, each in several build histories
pub fn exhaustive_hists(max_n: usize, m: u64, zero_len: bool, merges: bool) -> Vec<Hist> {
    let mut ivs: Vec<(u64, u64)> = vec![];
    for s in 0..=m { for e in s..=m { if zero_len || s < e { ivs.push((s, e)); } } }
    let mut seqs: Vec<Vec<(u64, u64)>> = vec![vec![]];
    let mut frontier: Vec<Vec<(u64, u64)>> = vec![vec![]];
    for _ in 0..max_n {
        let mut next = vec![];
        for f in &frontier { for iv in &ivs { let mut g = f.clone(); g.push(*iv); next.push(g); } }
        seqs.extend(next.iter().cloned());
        frontier = next;
    }
    let mut out = vec![];
    for sq in seqs {
        let with_vals: Vec<(u64, u64, u64)> = sq.iter().enumerate().map(|(i, x)| (x.0, x.1, i as u64)).collect();
        // bulk
        out.push(Hist { init: with_vals.clone(), ops: vec![] });
        if !sq.is_empty() {
            // insert-only, in the given order (all orders are enumerated since sequences are ordered)
            out.push(Hist { init: vec![], ops: with_vals.iter().map(|x| Op::Insert(x.0, x.1, x.2)).collect() });
            // first one in bulk, rest inserted
            out.push(Hist { init: with_vals[..1].to_vec(), ops: with_vals[1..].iter().map(|x| Op::Insert(x.0, x.1, x.2)).collect() });
            if merges {
                let mut ops: Vec<Op> = vec![Op::Merge];
                out.push(Hist { init: with_vals.clone(), ops: ops.clone() });
                ops = with_vals[1..].iter().map(|x| Op::Insert(x.0, x.1, x.2)).collect();
                ops.insert(0, Op::Merge); ops.push(Op::SetCov); ops.push(Op::Merge);
                out.push(Hist { init: with_vals[..1].to_vec(), ops });
                // all but the last in bulk, merged, then the last one inserted into the merged set
                let k = with_vals.len() - 1;
                out.push(Hist { init: with_vals[..k].to_vec(), ops: vec![Op::Merge, Op::Insert(with_vals[k].0, with_vals[k].1, with_vals[k].2)] });
            }
        }
    }
    out
}

pub fn all_queries(m: u64) -> Vec<(u64, u64)> {
    let mut qs = vec![];
    for s in 0..=m + 1 { for e in s + 1..=m + 2 { qs.push((s, e)); } }
    qs
}
