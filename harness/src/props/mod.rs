pub mod common;
pub mod lap;
pub mod aborts;
pub mod c01;
pub mod c02;
pub mod text;
pub mod c03;
pub mod c04;
pub mod c05;
pub mod c06;
pub mod c07;
pub mod c08;
pub mod c09;
pub mod c10;
pub mod c11;
pub mod c12;
pub mod c13;
pub mod c14;
pub mod c15;
pub mod c16;
pub mod c17;
pub mod c18;
pub mod c19;
pub mod c20;

use crate::runner::PropDef;

pub fn all() -> Vec<PropDef> {
    vec![c01::prop(), c02::prop(), c09::prop(), c10::prop(), c03::prop(), c04::prop(), c12::prop(), c05::prop(), c06::prop(), c07::prop(), c08::prop(), c11::prop(), c13::prop(), c14::prop(), c15::prop(), c16::prop(), c17::prop(), c18::prop(), c19::prop(), c20::prop()]
}
