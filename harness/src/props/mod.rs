pub mod common;
pub mod lap;
pub mod c02;
pub mod c16;

use crate::runner::PropDef;

pub fn all() -> Vec<PropDef> {
    vec![c02::prop(), c16::prop()]
}
