pub mod common;
pub mod lap;
pub mod c02;
pub mod c11;
pub mod c16;
pub mod c17;

use crate::runner::PropDef;

pub fn all() -> Vec<PropDef> {
    vec![c02::prop(), c11::prop(), c16::prop(), c17::prop()]
}
