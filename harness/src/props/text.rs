//! Shared by C03, C04, C12: the column view of every record type, real `Display` / `FromStr`.
use crate::rng::Rng;
use crate::tok::{R, W};
use bed_utils::bed::{BedGraph, BroadPeak, GenomicRange, NarrowPeak, OptionalFields, ParseError, Score, Strand, BED, BEDLike};

#[derive(Clone, Copy, Debug, PartialEq, Eq)]
pub enum Ty { Gr, Bed(u8), NarrowPeak, BroadPeak, BgInt, BgFloat }

impl Ty {
    pub fn code(self) -> u64 { match self { Ty::Gr => 0, Ty::Bed(n) => n as u64, Ty::NarrowPeak => 10, Ty::BroadPeak => 11, Ty::BgInt => 12, Ty::BgFloat => 13 } }
    pub fn from(c: u64) -> Option<Ty> { Some(match c { 0 => Ty::Gr, 3..=6 => Ty::Bed(c as u8), 10 => Ty::NarrowPeak, 11 => Ty::BroadPeak, 12 => Ty::BgInt, 13 => Ty::BgFloat, _ => return None }) }
    pub const ALL: [Ty; 9] = [Ty::Gr, Ty::Bed(3), Ty::Bed(4), Ty::Bed(5), Ty::Bed(6), Ty::NarrowPeak, Ty::BroadPeak, Ty::BgInt, Ty::BgFloat];
}

#[derive(Clone, Debug, PartialEq, Default)]
pub struct TRec {
    pub chrom: String, pub start: u64, pub end: u64,
    pub name: Option<String>, pub score: Option<u16>, pub strand: Option<u8>,
    pub signal: Option<u64>, pub p: Option<u64>, pub q: Option<u64>, pub peak: Option<u64>, pub ival: Option<i64>,
}

fn put_opt_u64(w: &mut W, o: Option<u64>) { match o { None => { w.n(0); } Some(x) => { w.n(1).n(x); } } }
impl TRec {
    pub fn put(&self, w: &mut W) {
        w.b(self.chrom.as_bytes()).n(self.start).n(self.end);
        match &self.name { None => { w.n(0); } Some(s) => { w.n(1).b(s.as_bytes()); } }
        match self.score { None => { w.n(0); } Some(s) => { w.n(1).n(s); } }
        w.n(self.strand.unwrap_or(0));
        put_opt_u64(w, self.signal); put_opt_u64(w, self.p); put_opt_u64(w, self.q); put_opt_u64(w, self.peak);
        match self.ival { None => { w.n(0); } Some(x) => { w.n(1).n(x); } }
    }
    pub fn get(r: &mut R) -> Option<TRec> {
        let chrom = r.string()?; let start = r.u64()?; let end = r.u64()?;
        let name = if r.u64()? != 0 { Some(r.string()?) } else { None };
        let score = if r.u64()? != 0 { Some(r.u64()? as u16) } else { None };
        let strand = match r.u64()? { 0 => None, x => Some(x as u8) };
        let mut o = || -> Option<Option<u64>> { Some(if r.u64()? != 0 { Some(r.u64()?) } else { None }) };
        let signal = o()?; let p = o()?; let q = o()?; let peak = o()?;
        let ival = if r.u64()? != 0 { Some(r.i64()?) } else { None };
        Some(TRec { chrom, start, end, name, score, strand, signal, p, q, peak, ival })
    }
    pub fn floats(&self) -> Vec<u64> { [self.signal, self.p, self.q].iter().flatten().copied().chain([(-1.0f64).to_bits()]).collect() }
}

fn strand_of(s: Option<u8>) -> Option<Strand> { match s { Some(1) => Some(Strand::Forward), Some(2) => Some(Strand::Reverse), _ => None } }
fn strand_to(s: Option<Strand>) -> Option<u8> { match s { Some(Strand::Forward) => Some(1), Some(Strand::Reverse) => Some(2), None => None } }
fn score_of(s: Option<u16>) -> Option<Score> { s.map(|x| Score::try_from(x).expect("score in range")) }
fn f(b: Option<u64>) -> Option<f64> { b.map(f64::from_bits) }

fn mk_bed<const N: u8>(x: &TRec) -> BED<N> { BED::new(x.chrom.clone(), x.start, x.end, x.name.clone(), score_of(x.score), strand_of(x.strand), OptionalFields::default()) }
fn mk_np(x: &TRec) -> NarrowPeak { NarrowPeak { chrom: x.chrom.clone(), start: x.start, end: x.end, name: x.name.clone(), score: score_of(x.score), strand: strand_of(x.strand), signal_value: f(x.signal).unwrap_or(0.0), p_value: f(x.p), q_value: f(x.q), peak: x.peak.unwrap_or(0) } }
fn mk_bp(x: &TRec) -> BroadPeak { BroadPeak { chrom: x.chrom.clone(), start: x.start, end: x.end, name: x.name.clone(), score: score_of(x.score), strand: strand_of(x.strand), signal_value: f(x.signal).unwrap_or(0.0), p_value: f(x.p), q_value: f(x.q) } }

/// real `to_string()` of the record as type `ty`
pub fn to_text(ty: Ty, x: &TRec) -> String {
    match ty {
        Ty::Gr => GenomicRange::new(x.chrom.clone(), x.start, x.end).to_string(),
        Ty::Bed(3) => mk_bed::<3>(x).to_string(), Ty::Bed(4) => mk_bed::<4>(x).to_string(),
        Ty::Bed(5) => mk_bed::<5>(x).to_string(), Ty::Bed(_) => mk_bed::<6>(x).to_string(),
        Ty::NarrowPeak => mk_np(x).to_string(), Ty::BroadPeak => mk_bp(x).to_string(),
        Ty::BgInt => BedGraph::new(x.chrom.clone(), x.start, x.end, x.ival.unwrap_or(0)).to_string(),
        Ty::BgFloat => BedGraph::new(x.chrom.clone(), x.start, x.end, f(x.signal).unwrap_or(0.0)).to_string(),
    }
}

fn of_bed<const N: u8>(b: &BED<N>) -> TRec {
    TRec { chrom: b.chrom().into(), start: b.start(), end: b.end(), name: b.name.clone(), score: b.score.map(u16::from), strand: strand_to(b.strand), ..Default::default() }
}

pub fn err_class(e: &ParseError) -> &'static str {
    match e {
        ParseError::MissingReferenceSequenceName => "missingChrom",
        ParseError::MissingStartPosition => "missingStart", ParseError::InvalidStartPosition(_) => "invalidStart",
        ParseError::MissingEndPosition => "missingEnd", ParseError::InvalidEndPosition(_) => "invalidEnd",
        ParseError::MissingName => "missingName",
        ParseError::MissingScore => "missingScore", ParseError::InvalidScore(_) => "invalidScore",
        ParseError::MissingStrand => "missingStrand", ParseError::InvalidStrand(_) => "invalidStrand",
        #[allow(unreachable_patterns)]
        _ => "other",
    }
}

/// real `str::parse::<T>()`; a panic is caught by the caller
pub fn parse_as(ty: Ty, s: &str) -> Result<TRec, ParseError> {
    Ok(match ty {
        Ty::Gr => { let g: GenomicRange = s.parse()?; TRec { chrom: g.chrom().into(), start: g.start(), end: g.end(), ..Default::default() } }
        Ty::Bed(3) => of_bed(&s.parse::<BED<3>>()?), Ty::Bed(4) => of_bed(&s.parse::<BED<4>>()?),
        Ty::Bed(5) => of_bed(&s.parse::<BED<5>>()?), Ty::Bed(_) => of_bed(&s.parse::<BED<6>>()?),
        Ty::NarrowPeak => { let b: NarrowPeak = s.parse()?; TRec { chrom: b.chrom.clone(), start: b.start, end: b.end, name: b.name.clone(), score: b.score.map(u16::from), strand: strand_to(b.strand), signal: Some(b.signal_value.to_bits()), p: b.p_value.map(f64::to_bits), q: b.q_value.map(f64::to_bits), peak: Some(b.peak), ival: None } }
        Ty::BroadPeak => { let b: BroadPeak = s.parse()?; TRec { chrom: b.chrom.clone(), start: b.start, end: b.end, name: b.name.clone(), score: b.score.map(u16::from), strand: strand_to(b.strand), signal: Some(b.signal_value.to_bits()), p: b.p_value.map(f64::to_bits), q: b.q_value.map(f64::to_bits), peak: None, ival: None } }
        Ty::BgInt => { let b: BedGraph<i64> = s.parse()?; TRec { chrom: b.chrom.clone(), start: b.start, end: b.end, ival: Some(b.value), ..Default::default() } }
        Ty::BgFloat => { let b: BedGraph<f64> = s.parse()?; TRec { chrom: b.chrom.clone(), start: b.start, end: b.end, signal: Some(b.value.to_bits()), ..Default::default() } }
    })
}

/// `ok <fields>` | `err <class>` | `panic`
pub fn put_pres(w: &mut W, ty: Ty, s: &str) {
    match std::panic::catch_unwind(|| parse_as(ty, s)) {
        Err(_) => { w.s("panic"); }
        Ok(Err(e)) => { w.s("err").s(err_class(&e)); }
        Ok(Ok(r)) => { w.s("ok"); r.put(w); }
    }
}

/// the line fed to a `Reader` between two well-formed lines (all LF-terminated): status of the item sequence
/// of `records()` and of `into_records()`: `ok` / `err` = three items, the outer two Ok, the middle one Ok / Err |
/// `ctx` = three items but a neighbour of the line did not come back Ok | `n<k>` = k != 3 items | `panic`
pub fn reader_status(ty: Ty, line: &str) -> (String, String) {
    use bed_utils::bed::io::Reader;
    fn st<B>(v: Result<Vec<std::io::Result<B>>, Box<dyn std::any::Any + Send>>) -> String {
        match v {
            Err(_) => "panic".into(),
            Ok(v) => if v.len() != 3 { format!("n{}", v.len()) } else if !(v[0].is_ok() && v[2].is_ok()) { "ctx".into() } else if v[1].is_ok() { "ok".into() } else { "err".into() },
        }
    }
    fn both<B: std::str::FromStr<Err = ParseError> + BEDLike>(data: &[u8]) -> (String, String) {
        let a = std::panic::catch_unwind(|| { let mut r = Reader::new(data, None); let v: Vec<std::io::Result<B>> = r.records::<B>().collect(); v });
        let b = std::panic::catch_unwind(|| Reader::new(data, None).into_records::<B>().collect::<Vec<std::io::Result<B>>>());
        (st(a), st(b))
    }
    let good = match ty {
        Ty::Gr | Ty::Bed(3) => "chr1\t1\t2", Ty::Bed(4) => "chr1\t1\t2\tn", Ty::Bed(5) => "chr1\t1\t2\tn\t5", Ty::Bed(_) => "chr1\t1\t2\tn\t5\t+",
        Ty::NarrowPeak => "chr1\t1\t2\tn\t5\t+\t1.5\t2\t3\t4", Ty::BroadPeak => "chr1\t1\t2\tn\t5\t+\t1.5\t2\t3",
        Ty::BgInt => "chr1\t1\t2\t7", Ty::BgFloat => "chr1\t1\t2\t0.5",
    };
    let data = format!("{}\n{}\n{}\n", good, line, good).into_bytes();
    match ty {
        Ty::Gr => both::<GenomicRange>(&data),
        Ty::Bed(3) => both::<BED<3>>(&data), Ty::Bed(4) => both::<BED<4>>(&data), Ty::Bed(5) => both::<BED<5>>(&data), Ty::Bed(_) => both::<BED<6>>(&data),
        Ty::NarrowPeak => both::<NarrowPeak>(&data), Ty::BroadPeak => both::<BroadPeak>(&data),
        Ty::BgInt => both::<BedGraph<i64>>(&data), Ty::BgFloat => both::<BedGraph<f64>>(&data),
    }
}

/// parse table: every TAB-separated field of the text with std's f64 parse (bit pattern)
pub fn put_ptab(w: &mut W, texts: &[&str]) {
    let mut fields: Vec<&str> = vec![];
    for t in texts { for f in t.split('\t') { if !fields.contains(&f) { fields.push(f); } } }
    w.n(fields.len());
    for f in fields {
        w.b(f.as_bytes());
        match f.parse::<f64>() { Ok(x) => { w.n(1).n(x.to_bits()); } Err(_) => { w.n(0); } }
    }
}
pub fn put_rtab(w: &mut W, bits: &[u64]) {
    let mut v: Vec<u64> = vec![];
    for b in bits { if !v.contains(b) { v.push(*b); } }
    w.n(v.len());
    for b in v { w.n(b).b(format!("{}", f64::from_bits(b)).as_bytes()); }
}

pub const NAMES: &[&str] = &["r1", "peak_1", "", "a b", "x.y", "..", "gène", "名前", "-", "+", "0"];
pub const CHROMN: &[&str] = &["chr1", "chr2", "chrX", "", "scaffold 12", "染色体", "c", "chr1_KI270706v1_random"];

pub fn gen_float(rng: &mut Rng, allow_neg: bool) -> u64 {
    let x: f64 = match rng.below(12) {
        0 => 0.0, 1 => -0.0, 2 => 1e300, 3 => f64::MIN_POSITIVE / 4.0, 4 => f64::INFINITY, 5 => 1.5, 6 => 0.1 + 0.2,
        7 => 123456789.125, 8 => 5e-324, 9 => (rng.below(1000) as f64) / 8.0,
        _ => { loop { let b = rng.next(); let v = f64::from_bits(b); if !v.is_nan() { break v; } } }
    };
    let x = if !allow_neg && x < 0.0 { -x } else { x };
    let x = if allow_neg && rng.chance(1, 6) { -x } else { x };
    x.to_bits()
}

/// a string the text format can carry in a chrom / name column: from the pool, or 1-6 characters drawn
/// from all printable ASCII (punctuation, digits, space at either end) plus a few non-ASCII and
/// white-space-like code points; never TAB, CR or LF
pub fn gen_text(rng: &mut Rng, pool: &[&str]) -> String {
    if rng.chance(1, 2) { return rng.pick(pool).to_string(); }
    const EXTRA: &[char] = &['\u{b}', '\u{c}', '\u{a0}', '\u{85}', '\u{2028}', 'é', '名', '\u{1f9ec}'];
    let n = rng.range(1, 6);
    let mut t = String::new();
    for _ in 0..n {
        let c = match rng.below(8) {
            0 => *rng.pick(EXTRA),
            1 => *rng.pick(&[',', ';', ' ', '#', '"', '\'', '\\', '/', '|', '=', '%', '+', '.', '0', '-', ':']),
            _ => char::from(0x20u8 + rng.below(0x5f) as u8),
        };
        t.push(c);
    }
    t
}

/// a record the text format of `ty` can carry (the quantifier of C03)
pub fn gen_wf(rng: &mut Rng, ty: Ty) -> TRec {
    let mut chrom = gen_text(rng, CHROMN);
    if ty == Ty::Gr { chrom = chrom.replace(['-', ':'], "_"); }
    let coord = |rng: &mut Rng| match rng.below(6) { 0 => 0, 1 => u64::MAX, 2 => rng.next(), _ => rng.below(1_000_000) };
    let mut x = TRec { chrom, start: coord(rng), end: coord(rng), ..Default::default() };
    let n = match ty { Ty::Bed(n) => n, Ty::NarrowPeak | Ty::BroadPeak => 6, _ => 3 };
    if n > 3 && rng.chance(2, 3) { let nm = gen_text(rng, NAMES); x.name = Some(if nm == "." { "..".into() } else { nm }); }
    if n > 4 && rng.chance(2, 3) { x.score = Some(match rng.below(4) { 0 => 0, 1 => 1000, _ => rng.below(1001) as u16 }); }
    if n > 5 && rng.chance(2, 3) { x.strand = Some(1 + rng.below(2) as u8); }
    match ty {
        Ty::NarrowPeak | Ty::BroadPeak => {
            x.signal = Some(gen_float(rng, true));
            if rng.chance(2, 3) { x.p = Some(gen_float(rng, false)); }
            if rng.chance(2, 3) { x.q = Some(gen_float(rng, false)); }
            if ty == Ty::NarrowPeak { x.peak = Some(coord(rng)); }
        }
        Ty::BgInt => { x.ival = Some(match rng.below(5) { 0 => 0, 1 => i64::MIN, 2 => i64::MAX, 3 => -(rng.below(1000) as i64), _ => rng.below(1000) as i64 }); }
        Ty::BgFloat => { x.signal = Some(gen_float(rng, true)); }
        _ => {}
    }
    x
}
