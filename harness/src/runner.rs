//! Generic case runner: corpus + generated cases → real code → Lean driver → verdicts,
//! shrinking, known findings, replay files, statistics for the evidence file.
use crate::rng::Rng;
use std::collections::{BTreeMap, HashSet};
use std::hash::{Hash, Hasher};
use std::io::Write;
use std::path::{Path, PathBuf};
use std::process::{Command, Stdio};
use std::time::Instant;

#[derive(Clone, Copy, PartialEq, Eq, Debug)]
pub enum Tier { Quick, Thorough }

#[derive(Clone, Debug)]
pub struct Case { pub stream: String, pub input: Vec<String> }

impl Case {
    pub fn new(stream: &str, input: Vec<String>) -> Self { Case { stream: stream.to_string(), input } }
}

pub struct PropDef {
    pub id: &'static str,
    /// how cases are generated and what makes one non-trivial (copied into the evidence)
    pub rule: &'static str,
    /// name of the observable compared (names the correspondence in replay files)
    pub observable: &'static str,
    pub gen: fn(&mut Rng, Tier) -> Vec<Case>,
    /// run the real code on the input tokens; `None` = unparsable input
    pub exec: fn(&[String]) -> Option<String>,
    /// smaller variants of an input
    pub shrink: fn(&[String]) -> Vec<Vec<String>>,
    /// entry point for `bvharness child <id> <tokens>` (cases whose failure mode is an abort)
    pub child: Option<fn(&[String]) -> String>,
}

pub struct Opts {
    pub tier: Tier,
    pub seed: u64,
    pub driver: PathBuf,
    pub stats: Option<PathBuf>,
    pub replay_dir: PathBuf,
    pub corpus_dir: PathBuf,
    pub known: PathBuf,
    pub run_dir: PathBuf,
    pub replay: Option<PathBuf>,
    /// widen the search (used when a proof obligation no longer checks)
    pub search: bool,
}

#[derive(Clone, Debug)]
pub struct Verdict { pub kind: String, pub nontrivial: bool, pub classes: Vec<String>, pub detail: String }

#[derive(Clone, Debug)]
pub struct Done { pub case: Case, pub obs: String, pub v: Verdict }

pub fn exec_guarded(p: &PropDef, input: &[String]) -> String {
    // a share of the cases is preceded by aborted operations on this thread (props/aborts.rs): they must leave nothing behind
    let mask = match p.id { "C01" | "C09" | "C10" => 8, "C02" | "C05" | "C06" | "C11" => 3, "C03" | "C04" | "C12" => 16, "C07" | "C08" | "C13" | "C14" => 4, "C16" | "C17" | "C18" | "C19" | "C20" => 1, _ => 0 };
    if mask != 0 { let _ = std::panic::catch_unwind(|| crate::props::aborts::maybe_abort(input, mask)); }
    crate::props::common::set_case_mode(input);
    let r = std::panic::catch_unwind(std::panic::AssertUnwindSafe(|| (p.exec)(input)));
    match r {
        Ok(Some(s)) => s,
        Ok(None) => "unparsable".to_string(),
        Err(_) => "panic".to_string(),
    }
}

/// Run `bvharness child <id> <tokens>` and return its stdout, or `abort` if it died by signal
/// or exited non-zero.
pub fn run_in_child(id: &str, tokens: &[String], envs: &[(&str, String)]) -> String {
    let exe = std::env::current_exe().expect("current_exe");
    let mut cmd = Command::new(exe);
    let big = tokens.iter().map(|t| t.len() + 1).sum::<usize>() > 60_000;   // argument lists are limited (128 KiB per argument)
    if big { cmd.arg("child").arg(id).arg("-").stdin(Stdio::piped()).stdout(Stdio::piped()).stderr(Stdio::null()); }
    else { cmd.arg("child").arg(id).args(tokens).stdin(Stdio::null()).stderr(Stdio::null()); }
    for (k, v) in envs { cmd.env(k, v); }
    let res = if big {
        cmd.spawn().and_then(|mut ch| {
            if let Some(mut si) = ch.stdin.take() { let _ = si.write_all(tokens.join(" ").as_bytes()); }
            ch.wait_with_output()
        })
    } else { cmd.output() };
    match res {
        Ok(o) => {
            if o.status.success() { String::from_utf8_lossy(&o.stdout).trim().to_string() } else { "abort".to_string() }
        }
        Err(_) => "abort".to_string(),
    }
}

fn hash_input(input: &[String]) -> u64 {
    let mut h = std::collections::hash_map::DefaultHasher::new();
    input.hash(&mut h);
    h.finish()
}

pub fn case_line(id: &str, cid: &str, input: &[String], obs: &str) -> String {
    format!("{} {} {} | {}", id, cid, input.join(" "), obs)
}

static BATCH: std::sync::atomic::AtomicUsize = std::sync::atomic::AtomicUsize::new(0);

/// the case currently executing on the real code (for the watchdog): (case line without observable, start)
static CURRENT: std::sync::Mutex<Option<(String, Instant)>> = std::sync::Mutex::new(None);

/// A case on which the implementation does not return is reported with that case as the replay.
fn start_watchdog(id: &'static str, replay_dir: PathBuf, seed: u64) {
    let limit = std::time::Duration::from_secs(std::env::var("VERIF_CASE_TIMEOUT_S").ok().and_then(|s| s.parse().ok()).unwrap_or(120));
    std::thread::spawn(move || loop {
        std::thread::sleep(std::time::Duration::from_millis(250));
        let cur = CURRENT.lock().map(|g| g.clone()).unwrap_or(None);
        if let Some((line, t0)) = cur {
            if t0.elapsed() > limit {
                let path = replay_dir.join(format!("{}-{}-{}-hang.case", id, seed, std::process::id()));
                if let Ok(mut f) = std::fs::File::create(&path) {
                    writeln!(f, "# property {}", id).ok();
                    writeln!(f, "# verdict hang: the implementation did not return within {} s on this case", limit.as_secs()).ok();
                    writeln!(f, "# replay with: ./check {} --replay {}", id, path.display()).ok();
                    writeln!(f, "{} | hang", line).ok();
                }
                println!("VIOLATION property={} replay={}", id, path.display());
                println!("  hang: the implementation did not return within {} s on the case recorded in the replay file", limit.as_secs());
                std::process::exit(1);
            }
        }
    });
}

/// Execute the real code on every case, ask the driver, return the verdicts.
pub fn evaluate(p: &PropDef, o: &Opts, cases: Vec<Case>) -> Vec<Done> {
    if cases.is_empty() { return vec![]; }
    let n = BATCH.fetch_add(1, std::sync::atomic::Ordering::SeqCst);
    let path = o.run_dir.join(format!("batch-{}.txt", n));
    let mut obs = Vec::with_capacity(cases.len());
    {
        let mut f = std::io::BufWriter::new(std::fs::File::create(&path).expect("create batch"));
        for (i, c) in cases.iter().enumerate() {
            if let Ok(mut g) = CURRENT.lock() { *g = Some((format!("{} {}:{} {}", p.id, c.stream, i, c.input.join(" ")), Instant::now())); }
            let ob = exec_guarded(p, &c.input);
            if let Ok(mut g) = CURRENT.lock() { *g = None; }
            writeln!(f, "{}", case_line(p.id, &format!("{}:{}", c.stream, i), &c.input, &ob)).unwrap();
            obs.push(ob);
        }
    }
    // the driver writes to a file; it is killed if it does not finish in time
    let out_path = o.run_dir.join(format!("batch-{}.out", n));
    let limit = std::time::Duration::from_secs(std::env::var("VERIF_DRIVER_TIMEOUT_S").ok().and_then(|s| s.parse().ok()).unwrap_or(1500));
    let started = Instant::now();
    let mut child = Command::new(&o.driver).arg(&path)
        .stdout(Stdio::from(std::fs::File::create(&out_path).expect("driver output file")))
        .stderr(Stdio::null()).spawn().expect("run driver");
    let mut code: Option<i32> = None;
    let mut timed_out = false;
    loop {
        match child.try_wait() {
            Ok(Some(st)) => { code = st.code(); break; }
            Ok(None) => {
                if started.elapsed() > limit { let _ = child.kill(); let _ = child.wait(); timed_out = true; break; }
                std::thread::sleep(std::time::Duration::from_millis(20));
            }
            Err(_) => break,
        }
    }
    let text = std::fs::read_to_string(&out_path).unwrap_or_default();
    let lines: Vec<&str> = text.lines().collect();
    let _ = std::fs::remove_file(&path);
    let _ = std::fs::remove_file(&out_path);
    let mut res = Vec::with_capacity(cases.len());
    for (i, c) in cases.into_iter().enumerate() {
        let v = match lines.get(i) {
            Some(l) => parse_verdict(l),
            None => Verdict { kind: "badcase".into(), nontrivial: false, classes: vec![],
                detail: format!("driver produced no answer for this case (exit {:?}{})", code, if timed_out { ", killed after timeout" } else { "" }) },
        };
        res.push(Done { case: c, obs: obs[i].clone(), v });
    }
    res
}

fn parse_verdict(l: &str) -> Verdict {
    let (head, detail) = match l.find(" | ") { Some(k) => (&l[..k], &l[k + 3..]), None => (l, "") };
    let t: Vec<&str> = head.split(' ').collect();
    if t.len() < 4 { return Verdict { kind: "badcase".into(), nontrivial: false, classes: vec![], detail: format!("bad verdict line: {}", l) }; }
    Verdict {
        kind: t[1].to_string(),
        nontrivial: t[2] == "1",
        classes: if t[3] == "-" { vec![] } else { t[3].split(',').map(|s| s.to_string()).collect() },
        detail: detail.to_string(),
    }
}

fn is_fail(d: &Done) -> bool { d.v.kind != "ok" }

fn load_case_file(id: &str, path: &Path) -> Vec<Case> {
    let mut v = vec![];
    if let Ok(text) = std::fs::read_to_string(path) {
        for line in text.lines() {
            let line = line.trim();
            if line.is_empty() || line.starts_with('#') { continue; }
            let toks: Vec<String> = line.split(' ').filter(|s| !s.is_empty()).map(|s| s.to_string()).collect();
            if toks.len() < 2 || toks[0] != id { continue; }
            let input: Vec<String> = toks[2..].iter().take_while(|s| s.as_str() != "|").cloned().collect();
            let stem = path.file_stem().map(|s| s.to_string_lossy().to_string()).unwrap_or_default();
            v.push(Case { stream: format!("corpus/{}", stem), input });
        }
    }
    v
}

fn load_corpus(p: &PropDef, o: &Opts) -> Vec<Case> {
    let dir = o.corpus_dir.join(p.id);
    let mut files: Vec<PathBuf> = match std::fs::read_dir(&dir) {
        Ok(rd) => rd.filter_map(|e| e.ok()).map(|e| e.path()).filter(|p| p.extension().map_or(false, |x| x == "case")).collect(),
        Err(_) => vec![],
    };
    files.sort();
    files.iter().flat_map(|f| load_case_file(p.id, f)).collect()
}

/// open findings: lines `open: property=<id> input=<tokens separated by ,> <text>`
fn load_known(id: &str, path: &Path) -> Vec<(String, String)> {
    let mut v = vec![];
    if let Ok(text) = std::fs::read_to_string(path) {
        for line in text.lines() {
            let line = line.trim();
            if !line.starts_with("open:") { continue; }
            let rest = line[5..].trim();
            let mut parts = rest.splitn(3, ' ');
            let (Some(a), Some(b)) = (parts.next(), parts.next()) else { continue };
            let what = parts.next().unwrap_or("").to_string();
            if a != format!("property={}", id) { continue; }
            if let Some(inp) = b.strip_prefix("input=") { v.push((inp.replace(',', " "), what)); }
        }
    }
    v
}

fn shrink_case(p: &PropDef, o: &Opts, start: &Done) -> Done {
    let mut best = start.clone();
    let want = best.v.kind.clone();
    let mut budget = 2000usize;
    let mut seen: HashSet<u64> = HashSet::new();
    seen.insert(hash_input(&best.case.input));
    loop {
        // a case of 10^5 tokens is not shrunk: the per-element candidates of a property's shrinker are copies of the whole
        // case, and tens of thousands of them do not fit in memory; it is reported as found
        if best.case.input.len() > 40_000 { break; }
        let cands: Vec<Vec<String>> = (p.shrink)(&best.case.input).into_iter().filter(|c| !seen.contains(&hash_input(c))).collect();
        if cands.is_empty() || budget == 0 { break; }
        let take = cands.len().min(budget).min(300);
        budget -= take;
        let cases: Vec<Case> = cands.into_iter().take(take).map(|i| Case { stream: "shrink".into(), input: i }).collect();
        for c in &cases { seen.insert(hash_input(&c.input)); }
        let res = evaluate(p, o, cases);
        // a candidate failing the same way; a spec failure always beats a divergence
        let next = res.iter().find(|d| d.v.kind == "specfail" && want != "specfail").or_else(|| res.iter().find(|d| d.v.kind == want));
        match next {
            Some(d) => { best = d.clone(); }
            None => break,
        }
    }
    best
}

fn json_str(s: &str) -> String {
    let mut o = String::from("\"");
    for c in s.chars() {
        match c {
            '"' => o.push_str("\\\""),
            '\\' => o.push_str("\\\\"),
            '\n' => o.push_str("\\n"),
            '\t' => o.push_str("\\t"),
            c if (c as u32) < 0x20 => o.push_str(&format!("\\u{:04x}", c as u32)),
            c => o.push(c),
        }
    }
    o.push('"');
    o
}

fn truncate(s: &str, n: usize) -> String { if s.len() <= n { s.to_string() } else { format!("{}…[{} bytes]", &s[..s.char_indices().take_while(|(i, _)| *i < n).last().map_or(0, |(i, c)| i + c.len_utf8())], s.len()) } }

pub fn run_prop(p: &PropDef, o: &Opts) -> i32 {
    let t0 = Instant::now();
    std::fs::create_dir_all(&o.run_dir).ok();
    std::fs::create_dir_all(&o.replay_dir).ok();
    let mut rng = Rng::new(o.seed);
    let known = load_known(p.id, &o.known);
    start_watchdog(p.id, o.replay_dir.clone(), o.seed);

    let mut cases: Vec<Case> = vec![];
    if let Some(rp) = &o.replay {
        cases.extend(load_case_file(p.id, rp).into_iter().map(|mut c| { c.stream = "replay".into(); c }));
        if cases.is_empty() { eprintln!("no case for {} in {}", p.id, rp.display()); return 2; }
    } else {
        cases.extend(load_corpus(p, o));
        cases.extend((p.gen)(&mut rng, o.tier));
        if o.search {
            for k in 0..4u64 { let mut r2 = Rng::new(o.seed.wrapping_add(1000 + k)); cases.extend((p.gen)(&mut r2, Tier::Thorough)); }
        }
    }

    let mut done = evaluate(p, o, cases);

    // a divergence without a spec failure: widen the search for a concrete failing input
    let mut searched = 0usize;
    if o.replay.is_none() && done.iter().any(|d| d.v.kind == "diverge" || d.v.kind == "badcase") && !done.iter().any(|d| d.v.kind == "specfail") {
        for k in 0..6u64 {
            let mut r2 = Rng::new(o.seed.wrapping_mul(31).wrapping_add(7 + k));
            let extra = evaluate(p, o, (p.gen)(&mut r2, Tier::Thorough));
            searched += extra.len();
            let hit = extra.iter().any(|d| d.v.kind == "specfail");
            done.extend(extra);
            if hit { break; }
        }
    }

    // statistics
    let mut distinct: HashSet<u64> = HashSet::new();
    let mut distinct_nt = 0usize;
    let mut classes: BTreeMap<String, usize> = BTreeMap::new();
    let mut streams: BTreeMap<String, usize> = BTreeMap::new();
    let mut kinds: BTreeMap<String, usize> = BTreeMap::new();
    for d in &done {
        let first = distinct.insert(hash_input(&d.case.input));
        if first && d.v.nontrivial { distinct_nt += 1; }
        for c in &d.v.classes { *classes.entry(c.clone()).or_insert(0) += 1; }
        let s = d.case.stream.split('/').next().unwrap_or("").to_string();
        *streams.entry(s).or_insert(0) += 1;
        *kinds.entry(d.v.kind.clone()).or_insert(0) += 1;
    }

    // failures
    let mut violations: Vec<(Done, Done)> = vec![]; // (original, shrunk)
    let mut known_hits: Vec<String> = vec![];
    let mut fails: Vec<&Done> = done.iter().filter(|d| is_fail(d)).collect();
    fails.sort_by_key(|d| (if d.v.kind == "specfail" { 0 } else { 1 }, d.case.input.join(" ").len()));
    let mut shrinks = 0;
    for d in fails.iter() {
        let inp = d.case.input.join(" ");
        if let Some((_, what)) = known.iter().find(|(k, _)| *k == inp) {
            let msg = format!("KNOWN-FINDING: property={} {}", p.id, what);
            if !known_hits.contains(&msg) { known_hits.push(msg); }
            continue;
        }
        if shrinks >= 6 { violations.push(((*d).clone(), (*d).clone())); break; }
        shrinks += 1;
        let s = shrink_case(p, o, d);
        let sinp = s.case.input.join(" ");
        if let Some((_, what)) = known.iter().find(|(k, _)| *k == sinp) {
            let msg = format!("KNOWN-FINDING: property={} {}", p.id, what);
            if !known_hits.contains(&msg) { known_hits.push(msg); }
            continue;
        }
        violations.push(((*d).clone(), s));
        break;
    }
    for m in &known_hits { println!("{}", m); }

    let mut exit = 0;
    let mut replay_path = String::new();
    if let Some((orig, s)) = violations.first() {
        exit = 1;
        let specfail = s.v.kind == "specfail";
        let name = format!("{}-{}-{}.case", p.id, o.seed, std::process::id());
        let path = o.replay_dir.join(name);
        let mut f = std::fs::File::create(&path).expect("replay file");
        writeln!(f, "# property {}", p.id).ok();
        writeln!(f, "# verdict {}", s.v.kind).ok();
        if !specfail { writeln!(f, "# correspondence {}/{} no longer checks: model and implementation observables differ; no input violating the spec itself was found ({} further cases searched)", p.id, p.observable, searched).ok(); }
        writeln!(f, "# detail {}", s.v.detail).ok();
        writeln!(f, "# found-as {} (stream {})", truncate(&orig.case.input.join(" "), 400), orig.case.stream).ok();
        writeln!(f, "# replay with: ./check {} --replay {}", p.id, path.display()).ok();
        writeln!(f, "{}", case_line(p.id, "replay:0", &s.case.input, &s.obs)).ok();
        replay_path = path.display().to_string();
        println!("VIOLATION property={} replay={}{}", p.id, replay_path, if specfail { "" } else { " no-failing-input-found" });
        println!("  {}: {}", s.v.kind, truncate(&s.v.detail, 600));
    }

    if let Some(sp) = &o.stats {
        let samples: Vec<String> = done.iter().filter(|d| d.v.nontrivial).take(3)
            .chain(done.iter().take(2))
            .map(|d| json_str(&truncate(&case_line(p.id, &d.case.stream, &d.case.input, &d.obs), 320))).collect();
        let cls: Vec<String> = classes.iter().map(|(k, v)| format!("{}: {}", json_str(k), v)).collect();
        let st: Vec<String> = streams.iter().map(|(k, v)| format!("{}: {}", json_str(k), v)).collect();
        let js = format!(
            "{{\n \"evaluations\": {},\n \"distinct\": {},\n \"distinct_nontrivial\": {},\n \"rule\": {},\n \"observable\": {},\n \"samples\": [{}],\n \"classes\": {{{}}},\n \"streams\": {{{}}},\n \"spec_failures\": {},\n \"divergences\": {},\n \"badcases\": {},\n \"known_findings_hit\": {},\n \"violations\": {},\n \"replay\": {},\n \"search_cases\": {},\n \"harness_wall_s\": {:.3}\n}}\n",
            done.len(), distinct.len(), distinct_nt, json_str(p.rule), json_str(p.observable), samples.join(", "),
            cls.join(", "), st.join(", "),
            kinds.get("specfail").copied().unwrap_or(0), kinds.get("diverge").copied().unwrap_or(0), kinds.get("badcase").copied().unwrap_or(0),
            known_hits.len(), if exit == 0 { 0 } else { 1 }, json_str(&replay_path), searched, t0.elapsed().as_secs_f64());
        std::fs::write(sp, js).expect("write stats");
    }
    let _ = std::fs::remove_dir_all(&o.run_dir);
    exit
}
