//! Token protocol shared with the Lean driver: decimal integers, hex byte strings (`-` = empty),
//! length-prefixed lists.
pub fn hex(b: &[u8]) -> String {
    if b.is_empty() { return "-".into(); }
    let mut s = String::with_capacity(b.len() * 2);
    for x in b { s.push_str(&format!("{:02x}", x)); }
    s
}
pub fn unhex(s: &str) -> Option<Vec<u8>> {
    if s == "-" { return Some(vec![]); }
    if s.len() % 2 != 0 { return None; }
    (0..s.len() / 2).map(|i| u8::from_str_radix(&s[2 * i..2 * i + 2], 16).ok()).collect()
}

/// Token writer
#[derive(Default, Clone)]
pub struct W(pub Vec<String>);
impl W {
    pub fn new() -> Self { W(Vec::new()) }
    pub fn n<T: std::fmt::Display>(&mut self, x: T) -> &mut Self { self.0.push(x.to_string()); self }
    pub fn s(&mut self, x: &str) -> &mut Self { self.0.push(x.to_string()); self }
    pub fn b(&mut self, x: &[u8]) -> &mut Self { self.0.push(hex(x)); self }
    pub fn flag(&mut self, x: bool) -> &mut Self { self.0.push(if x { "1" } else { "0" }.into()); self }
    pub fn join(&self) -> String { self.0.join(" ") }
}

/// Token reader
pub struct R<'a> { pub t: &'a [String], pub i: usize }
impl<'a> R<'a> {
    pub fn new(t: &'a [String]) -> Self { R { t, i: 0 } }
    pub fn tok(&mut self) -> Option<&'a str> { let x = self.t.get(self.i)?; self.i += 1; Some(x.as_str()) }
    pub fn peek(&self) -> Option<&'a str> { self.t.get(self.i).map(|x| x.as_str()) }
    pub fn u64(&mut self) -> Option<u64> { self.tok()?.parse().ok() }
    pub fn i64(&mut self) -> Option<i64> { self.tok()?.parse().ok() }
    pub fn usize(&mut self) -> Option<usize> { self.tok()?.parse().ok() }
    pub fn bytes(&mut self) -> Option<Vec<u8>> { unhex(self.tok()?) }
    pub fn string(&mut self) -> Option<String> { String::from_utf8(self.bytes()?).ok() }
    pub fn flag(&mut self) -> Option<bool> { Some(self.u64()? != 0) }
    pub fn list<T>(&mut self, mut f: impl FnMut(&mut R<'a>) -> Option<T>) -> Option<Vec<T>> {
        let n = self.usize()?;
        let mut v = Vec::with_capacity(n.min(1 << 20));
        for _ in 0..n { v.push(f(self)?); }
        Some(v)
    }
    pub fn done(&self) -> bool { self.i >= self.t.len() }
}
