import BedVerif.Basic
import BedVerif.Model.Lapper
import BedVerif.Model.GMap
import BedVerif.Spec.Lapper
