import BedVerif.Basic
import BedVerif.Model.Lapper
import BedVerif.Model.GMap
import BedVerif.Spec.Lapper
import BedVerif.Lemmas.FastCover
import BedVerif.Props.C18Fast
