import BedVerif.Basic
import BedVerif.Model.Lapper
import BedVerif.Model.GMap
import BedVerif.Spec.Lapper
import BedVerif.Lemmas.FastCover
import BedVerif.Props.C18Fast
import BedVerif.Lemmas.FastCount
import BedVerif.Props.C19Fast
