/-!
Shared vocabulary of all models. Imports nothing outside core, so that the driver
(`bvdriver`) links as a plain `lean_exe`.
-/
namespace BV

abbrev Bytes := List UInt8

def U64MAX : Nat := 2^64 - 1
/-- `u64::saturating_add` -/
def satAdd (a b : Nat) : Nat := min (a + b) U64MAX
def U32MAX : Nat := 2^32 - 1

/-- Result of a Rust expression that may panic. -/
inductive Out (β : Type) | ok (b : β) | panic
deriving Repr, DecidableEq, Inhabited

/-- Result of a Rust expression that may return `Err` or panic. -/
inductive Outcome (ε β : Type) | ok (b : β) | err (e : ε) | panic
deriving Repr, DecidableEq, Inhabited

/-- stable insertion sort (structural, kernel-reducible). Any stable sort returns the same
list, so this is exactly the result of Rust's `Vec::sort` / `sort_by`. -/
def insertBy {β : Type} (le : β → β → Bool) (x : β) : List β → List β
  | [] => [x]
  | y :: ys => if le x y then x :: y :: ys else y :: insertBy le x ys

def isort {β : Type} (le : β → β → Bool) (l : List β) : List β := l.foldr (insertBy le) []

def sortNat (l : List Nat) : List Nat := isort (fun a b => decide (a ≤ b)) l

/-- byte-lexicographic comparison: Rust's `str::cmp` / `String::cmp`. -/
def cmpBytes : Bytes → Bytes → Ordering
  | [], [] => .eq
  | [], _ :: _ => .lt
  | _ :: _, [] => .gt
  | a :: as, b :: bs => if a < b then .lt else if a > b then .gt else cmpBytes as bs

def listMax (l : List Nat) : Nat := l.foldl max 0
def listMin (l : List Nat) : Nat := l.foldl min (l.headD 0)

end BV
