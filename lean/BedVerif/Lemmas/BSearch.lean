import BedVerif.Model.Lapper
import BedVerif.Lemmas.Sort
/-! `bsearch_seq_ref` (as repaired: `elems[0] >= key → 0`) returns the number of elements that
compare less than the key, whenever "compares less than the key" is prefix-closed along the
slice — in particular on a sorted slice. -/
namespace BV
variable {κ : Type}

theorem bsLoop_countP (cmp : κ → κ → Ordering) (key : κ) (l : Array κ)
    (hpc : PrefixClosed (fun x => cmp x key == .lt) l.toList) :
    ∀ fuel low high, high - low ≤ fuel + 1 → low < high → high ≤ l.size →
      (∀ h : low < l.size, (cmp l[low] key == .lt) = true) → (∀ h : high < l.size, ¬ (cmp l[high] key == .lt) = true) →
      bsLoop cmp key l fuel low high = l.toList.countP (fun x => cmp x key == .lt) := by
  intro fuel
  have hc : l.toList.countP (fun x => cmp x key == .lt) ≤ l.size := by simpa using (List.countP_le_length (l := l.toList))
  have key1 := fun i hi => idx_lt_countP (fun x => cmp x key == .lt) l.toList hpc i hi
  have fin : ∀ low high, low < high → high ≤ l.size → ¬ high - low > 1 →
      (∀ h : low < l.size, (cmp l[low] key == .lt) = true) → (∀ h : high < l.size, ¬ (cmp l[high] key == .lt) = true) →
      high = l.toList.countP (fun x => cmp x key == .lt) := by
    intro low high hlh hhl hgap hlow hhigh
    have h1 := (key1 low (by simp; omega)).mp (by simpa using hlow (by omega))
    by_cases hh : high < l.size
    · have h2 := mt (key1 high (by simpa using hh)).mpr (by simpa using hhigh hh)
      omega
    · omega
  induction fuel with
  | zero =>
    intro low high hf hlh hhl hlow hhigh
    simp only [bsLoop]
    exact fin low high hlh hhl (by omega) hlow hhigh
  | succ n ih =>
    intro low high hf hlh hhl hlow hhigh
    simp only [bsLoop]
    split
    · have hmid : (high + low) / 2 < l.size := by omega
      have hget : l[(high + low) / 2]? = some l[(high + low) / 2] := by simp [hmid]
      rw [hget]; simp only
      split
      · rename_i hlt
        apply ih <;> first | omega | assumption | (intro _; exact hlt)
      · rename_i hge
        apply ih <;> first | omega | assumption | (intro _; exact hge)
    · rename_i hgap
      exact fin low high hlh hhl hgap hlow hhigh

theorem bsearchSeq_countP (cmp : κ → κ → Ordering) (key : κ) (l : Array κ)
    (hpc : PrefixClosed (fun x => cmp x key == .lt) l.toList) :
    bsearchSeq cmp key l = l.toList.countP (fun x => cmp x key == .lt) := by
  unfold bsearchSeq
  cases hsz : l.size with
  | zero =>
    have : l = #[] := Array.eq_empty_of_size_eq_zero hsz
    subst this; simp
  | succ n =>
    have h0 : l[0]? = some l[0] := by simp [hsz]
    rw [h0]; simp only
    by_cases hlt : (cmp l[0] key == .lt) = true
    · have : (cmp l[0] key != Ordering.lt) = false := by simp [bne, hlt]
      simp only [this, Bool.false_eq_true, if_false]
      rw [← hsz]
      apply bsLoop_countP cmp key l hpc <;> first | omega | (intro _; exact hlt) | (intro h; omega)
    · have : (cmp l[0] key != Ordering.lt) = true := by simp [bne] at hlt ⊢; exact hlt
      simp only [this, if_true]
      have := mt (idx_lt_countP (fun x => cmp x key == .lt) l.toList hpc 0 (by simp; omega)).mpr (by simpa using hlt)
      omega

end BV
