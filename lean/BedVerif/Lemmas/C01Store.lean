import BedVerif.Model.SortStore
import BedVerif.Props.C01
import BedVerif.Props.C09
/-!
End-to-end behaviour of `sort_by` over a misbehaving storage (`Model/SortStore.lean`): composition of the
run formation (C01), the chunk dump behind `BufWriter` and the read-back through `BufReader` (C09) and the
k-way merge (C10).
-/
namespace BV
variable {α : Type}

/-- the serialisation contract (bincode + serde): decoding an encoding returns the value; payloads fit a u64 length -/
structure Codec (enc : α → Bytes) (dec : Bytes → Option α) : Prop where
  roundtrip : ∀ x, dec (enc x) = some x
  fits : ∀ x, (enc x).length < 2^64

/-! ### one chunk -/

theorem C01s_decode_map {enc : α → Bytes} {dec : Bytes → Option α} (hc : Codec enc dec) (l : List α) :
    ((l.map enc).map IoRes.ok).map (decodeItem dec) = l.map (Item.ok (ε := Unit)) := by
  induction l with
  | nil => rfl
  | cons a t ih =>
    simp only [List.map_cons, decodeItem, hc.roundtrip, ih]

theorem C01s_hasErr_snoc (dec : Bytes → Option α) (l : List (IoRes Bytes)) :
    hasErr ((l ++ [IoRes.err]).map (decodeItem dec)) = true := by
  simp [hasErr, decodeItem]

theorem C01s_hasErr_map_ok (l : List α) : hasErr (l.map (Item.ok (ε := Unit))) = false :=
  C10_aux_hasErr_false (C01_allOk_map_ok l)

/-- the outcome of one chunk: `create_chunk` fails only on a hard write error; otherwise the chunk is the
complete run, or it contains an error item and the read plan holds a hard error -/
def ChunkGood (f : RunFaults) (run : List α) : Option (List (Item Unit α)) → Prop
  | none => WFault.fail ∈ f.wplan
  | some c => c = run.map .ok ∨ (hasErr c = true ∧ RFault.fail ∈ f.rplan)

theorem C01s_chunkOfRun {enc : α → Bytes} {dec : Bytes → Option α} (hc : Codec enc dec)
    (f : RunFaults) (run : List α) : ChunkGood f run (chunkOfRun enc dec f run) := by
  have hd := dumpBuf_spec (run.map enc) ⟨f.wcap, [], ⟨[], f.wplan⟩⟩
  have hfit : ∀ p ∈ run.map enc, p.length < 2^64 := by
    intro p hp
    obtain ⟨x, _, rfl⟩ := List.mem_map.mp hp
    exact hc.fits x
  have hlen : run.length + 1 = (run.map enc).length + 1 := by rw [List.length_map]
  unfold chunkOfRun
  generalize dumpBuf ⟨f.wcap, [], ⟨[], f.wplan⟩⟩ (run.map enc) = q at hd ⊢
  obtain ⟨r, w⟩ := q
  obtain ⟨used, e, h⟩ := hd
  simp only at e h
  cases r with
  | err =>
    simp only [ChunkGood]
    rcases h with ⟨h, _⟩ | ⟨_, h⟩
    · cases h
    · rw [e]; exact List.mem_append.mpr (.inl h)
  | ok u =>
    cases u
    simp only [ChunkGood]
    rcases h with ⟨_, ⟨hdata, _⟩, _⟩ | ⟨h, _⟩
    · simp only [List.append_nil, List.nil_append] at hdata
      rw [hdata, hlen]
      by_cases hf : RFault.fail ∈ f.rplan
      · obtain ⟨k, _, hk⟩ := chunkItemsBuf_any f.rcap (run.map enc) f.rplan hfit
        rcases hk with hk | ⟨hk, hkl⟩
        · right
          rw [hk]
          exact ⟨C01s_hasErr_snoc dec _, hf⟩
        · left
          rw [hk, hkl, List.take_length]
          exact C01s_decode_map hc run
      · left
        rw [chunkItemsBuf_ok f.rcap (run.map enc) f.rplan (fun g hg hgf => hf (hgf ▸ hg)) hfit]
        exact C01s_decode_map hc run
    · cases h

/-! ### all chunks -/

/-- the outcome of `chunksOf` -/
def ChunksGood (faults : Nat → RunFaults) (rs : List (List α)) : Option (List (List (Item Unit α))) → Prop
  | none => ∃ j, WFault.fail ∈ (faults j).wplan
  | some cs =>
    (cs = rs.map (fun r => r.map .ok) ∨ ∃ c ∈ cs, hasErr c = true) ∧
    (∀ c ∈ cs, hasErr c = true → ∃ j, RFault.fail ∈ (faults j).rplan)

theorem C01s_chunksOf {enc : α → Bytes} {dec : Bytes → Option α} (hc : Codec enc dec)
    (faults : Nat → RunFaults) (rs : List (List α)) :
    ∀ i, ChunksGood faults rs (chunksOf enc dec faults i rs) := by
  induction rs with
  | nil =>
    intro i
    simp only [chunksOf, ChunksGood]
    exact ⟨.inl rfl, fun c hc' => by cases hc'⟩
  | cons r rs ih =>
    intro i
    have h1 := C01s_chunkOfRun hc (faults i) r
    have h2 := ih (i + 1)
    unfold chunksOf
    generalize chunkOfRun enc dec (faults i) r = o1 at h1 ⊢
    generalize chunksOf enc dec faults (i + 1) rs = o2 at h2 ⊢
    cases o1 with
    | none => exact ⟨i, h1⟩
    | some c =>
      cases o2 with
      | none => exact h2
      | some cs =>
        simp only [Option.map_some, ChunksGood] at h1 h2 ⊢
        simp only [ChunkGood] at h1
        obtain ⟨h2a, h2b⟩ := h2
        refine ⟨?_, ?_⟩
        · rcases h1 with h1 | ⟨h1, _⟩
          · rcases h2a with h2a | ⟨c', hc', he⟩
            · left; rw [h1, h2a, List.map_cons]
            · right; exact ⟨c', List.mem_cons_of_mem _ hc', he⟩
          · right; exact ⟨c, List.mem_cons_self .., h1⟩
        · intro c' hc' he
          rcases List.mem_cons.mp hc' with rfl | hc'
          · rcases h1 with h1 | ⟨_, h1⟩
            · rw [h1, C01s_hasErr_map_ok] at he; cases he
            · exact ⟨i, h1⟩
          · exact h2b c' hc' he

/-- no hard fault anywhere: every chunk is created and is the complete run -/
theorem C01s_chunksOf_ok {enc : α → Bytes} {dec : Bytes → Option α} (hc : Codec enc dec)
    (faults : Nat → RunFaults) (hw : ∀ i, ∀ f ∈ (faults i).wplan, f ≠ WFault.fail)
    (hr : ∀ i, ∀ f ∈ (faults i).rplan, f ≠ RFault.fail) (rs : List (List α)) (i : Nat) :
    chunksOf enc dec faults i rs = some (rs.map (fun r => r.map .ok)) := by
  have h := C01s_chunksOf hc faults rs i
  generalize chunksOf enc dec faults i rs = o at h ⊢
  cases o with
  | none =>
    obtain ⟨j, hj⟩ := h
    exact absurd rfl (hw j _ hj)
  | some cs =>
    obtain ⟨ha, hb⟩ := h
    rcases ha with ha | ⟨c, hc', he⟩
    · rw [ha]
    · obtain ⟨j, hj⟩ := hb c hc' he
      exact absurd rfl (hr j _ hj)

/-! ### the merge of complete chunks -/

theorem C01s_merge_complete (cmp : α → α → Ordering) (h : TotalPreorder cmp)
    (srt : (α → α → Ordering) → List α → List α) (hsrt : SortSpec cmp (srt cmp)) (c : Nat) (xs : List α) :
    AllOk (drain cmp (((runs c xs).map (srt cmp)).map (fun r => r.map (Item.ok (ε := Unit))))).1 ∧
    (okItems (drain cmp (((runs c xs).map (srt cmp)).map (fun r => r.map (Item.ok (ε := Unit))))).1).Perm xs ∧
    (okItems (drain cmp (((runs c xs).map (srt cmp)).map (fun r => r.map (Item.ok (ε := Unit))))).1).Pairwise (le cmp) := by
  have := C01_sortBy (ε := Unit) cmp h srt hsrt (fun l => l.map .ok) (fun _ => rfl) c xs
  simp only [sortBy] at this
  rw [List.map_map]
  exact this.2

/-! ### the theorems -/

end BV
