import BedVerif.Lemmas.C03Num
import BedVerif.Lemmas.C03Layout
/-! C03 helpers: each column parser inverts its column; every column is clean -/
namespace BV
namespace C03
variable {F : Type}

theorem bindP_ok {β γ : Type} (b : β) (r : List Bytes) (k : β → List Bytes → Outcome PErr γ) :
    bindP (.ok (b, r)) k = k b r := rfl

theorem pChrom_cons (f : Bytes) (r : List Bytes) : pChrom (f :: r) = .ok (f, r) := rfl

theorem pStart_show (n : Nat) (r : List Bytes) (h : n ≤ U64MAX) : pStart (showNat n :: r) = .ok (n, r) := by
  simp only [pStart, parseUnsigned_showNat _ _ h]
theorem pEnd_show (n : Nat) (r : List Bytes) (h : n ≤ U64MAX) : pEnd (showNat n :: r) = .ok (n, r) := by
  simp only [pEnd, parseUnsigned_showNat _ _ h]
theorem pPeak_show (n : Nat) (r : List Bytes) (h : n ≤ U64MAX) : pPeak (showNat n :: r) = .ok (n, r) := by
  simp only [pPeak, parseUnsigned_showNat _ _ h]
theorem pI64_show (i : Int) (r : List Bytes) (h : -(2^63 : Int) ≤ i ∧ i < 2^63) : pI64 (showInt i :: r) = .ok (i, r) := by
  simp only [pI64, parseI64_showInt _ h]

theorem pName_show (name : Option Bytes) (r : List Bytes) (h : ∀ nm, name = some nm → Clean nm ∧ nm ≠ DOT) :
    pName (optCol name :: r) = .ok (name, r) := by
  cases name with
  | none => simp [pName, optCol]
  | some nm => simp [pName, optCol, (h nm rfl).2]

theorem pScore_show (score : Option Nat) (r : List Bytes) (h : ∀ s, score = some s → s ≤ 1000) :
    pScore (optCol (score.map showNat) :: r) = .ok (score, r) := by
  cases score with
  | none => simp [pScore, optCol]
  | some s =>
    have h1 := h s rfl
    have hp := parseScore_showNat s (by simp [U32MAX]; omega)
    rw [Nat.min_eq_left h1] at hp
    simp [pScore, optCol, showNat_ne_DOT, hp]

theorem pStrand_show (strand : Option Strand) (r : List Bytes) :
    pStrand (optCol (strand.map showStrand) :: r) = .ok (strand, r) := by
  cases strand with
  | none => simp [pStrand, optCol]
  | some s => cases s <;> simp [pStrand, optCol, showStrand, DOT, parseStrand]

theorem pFloat_show (fc : FloatCodec F) (hfc : fc.Lawful) (s : F) (r : List Bytes) (h : fc.isNaN s = false) :
    pFloat fc (fc.render s :: r) = .ok (s, r) := by
  simp only [pFloat, hfc.roundtrip s h]

theorem pPValue_show (fc : FloatCodec F) (hfc : fc.Lawful) (o : Option F) (r : List Bytes) (h : PvalOk fc o) :
    pPValue fc (fc.render (o.getD fc.negOne) :: r) = .ok (o, r) := by
  cases o with
  | none =>
    simp only [pPValue, Option.getD_none, hfc.roundtrip _ hfc.negOne_lt.2, hfc.negOne_lt.1]
    rfl
  | some v =>
    obtain ⟨h1, h2⟩ := h v rfl
    simp only [pPValue, Option.getD_some, hfc.roundtrip _ h2, h1]
    rfl

/-! cleanliness of columns -/
theorem Clean_of_digits (s : Bytes) (h : ∀ c ∈ s, isDigit c = true) : Clean s := by
  refine ⟨?_, ?_, ?_⟩ <;> intro hm
  · exact (isDigit_ne (h _ hm)).2.2.1 rfl
  · exact (isDigit_ne (h _ hm)).2.2.2.1 rfl
  · exact (isDigit_ne (h _ hm)).2.2.2.2.1 rfl

theorem Clean_showNat (n : Nat) : Clean (showNat n) := Clean_of_digits _ (showNat_mem_digit n)
theorem Clean_DOT : Clean DOT := by simp [Clean, DOT, TAB, LF, CR]
theorem Clean_showInt (i : Int) : Clean (showInt i) := by
  unfold showInt
  split
  · obtain ⟨a, b, c⟩ := Clean_showNat i.natAbs
    refine ⟨?_, ?_, ?_⟩ <;> simp [DASH, TAB, LF, CR] <;> assumption
  · exact Clean_showNat _
theorem Clean_name (name : Option Bytes) (h : ∀ nm, name = some nm → Clean nm ∧ nm ≠ DOT) : Clean (optCol name) := by
  cases name with
  | none => exact Clean_DOT
  | some nm => exact (h nm rfl).1
theorem Clean_score (score : Option Nat) : Clean (optCol (score.map showNat)) := by
  cases score with
  | none => exact Clean_DOT
  | some s => exact Clean_showNat s
theorem Clean_strand (strand : Option Strand) : Clean (optCol (strand.map showStrand)) := by
  cases strand with
  | none => exact Clean_DOT
  | some s => cases s <;> simp [Clean, optCol, showStrand, TAB, LF, CR]
theorem Clean_float (fc : FloatCodec F) (hfc : fc.Lawful) (v : F) : Clean (fc.render v) := hfc.clean v

end C03
end BV
