import BedVerif.Lemmas.C03Split
namespace BV
namespace C03
variable {F : Type}

theorem layout (fc : FloatCodec F) (ty : Ty) (x : TRec F) :
    showT fc ty x = intercalate [TAB] (columnsT fc ty x) := by
  obtain ⟨chrom, start, stop, name, score, strand, signal, p, q, peak, ival⟩ := x
  cases ty with
  | bed n =>
    by_cases h3 : n > 3 <;> by_cases h4 : n > 4 <;> by_cases h5 : n > 5 <;>
      first
      | (exfalso; omega)
      | (cases score <;> cases strand <;> simp [showT, columnsT, optCol, h3, h4, h5, intercalate])
  | _ => cases score <;> cases strand <;> simp [showT, columnsT, optCol, intercalate]

end C03
end BV
