import BedVerif.Spec.Text
/-! C03 helpers: decimal rendering / parsing of numbers -/
namespace BV
namespace C03

/-- specification of the decimal digits, by well-founded recursion -/
def dig (n : Nat) : Bytes :=
  if h : n < 10 then [48 + n.toUInt8] else dig (n / 10) ++ [48 + (n % 10).toUInt8]
termination_by n
decreasing_by omega

theorem digitsAux_eq_dig : ∀ (fuel n : Nat) (acc : Bytes), n < fuel → digitsAux fuel n acc = dig n ++ acc := by
  intro fuel
  induction fuel with
  | zero => intro n acc h; omega
  | succ fuel ih =>
    intro n acc h
    rw [digitsAux]
    by_cases h10 : n < 10
    · rw [if_pos h10, dig, dif_pos h10]; rfl
    · rw [if_neg h10, ih _ _ (by omega)]
      conv => rhs; rw [dig, dif_neg h10]
      simp

theorem showNat_eq_dig (n : Nat) : showNat n = dig n := by
  rw [showNat, digitsAux_eq_dig _ _ _ (by omega)]; simp

theorem digit_toNat : ∀ d : Nat, d < 10 → (48 + d.toUInt8 : UInt8).toNat = 48 + d := by
  intro d h
  have : ∀ d : Fin 10, (48 + d.val.toUInt8 : UInt8).toNat = 48 + d.val := by decide
  exact this ⟨d, h⟩

theorem digit_isDigit (d : Nat) (h : d < 10) : isDigit (48 + d.toUInt8) = true := by
  have : ∀ d : Fin 10, isDigit (48 + d.val.toUInt8) = true := by decide
  exact this ⟨d, h⟩

theorem dig_ne_nil (n : Nat) : dig n ≠ [] := by
  rw [dig]; split <;> simp

theorem dig_all (n : Nat) : (dig n).all isDigit = true := by
  induction n using Nat.strongRecOn with
  | _ n ih =>
    rw [dig]; split
    · simp [digit_isDigit _ ‹_›]
    · rw [List.all_append, ih _ (by omega)]
      simp [digit_isDigit _ (Nat.mod_lt n (by omega : 10 > 0))]

theorem digitsVal_snoc (l : Bytes) (c : UInt8) : digitsVal (l ++ [c]) = digitsVal l * 10 + (c.toNat - 48) := by
  simp [digitsVal, List.foldl_append]

theorem digitsVal_dig (n : Nat) : digitsVal (dig n) = n := by
  induction n using Nat.strongRecOn with
  | _ n ih =>
    rw [dig]; split
    · rename_i h
      simp [digitsVal, digit_toNat _ h]
    · rw [digitsVal_snoc, ih _ (by omega), digit_toNat _ (Nat.mod_lt n (by omega))]
      omega

theorem showNat_all (n : Nat) : (showNat n).all isDigit = true := by rw [showNat_eq_dig]; exact dig_all n
theorem showNat_ne_nil (n : Nat) : showNat n ≠ [] := by rw [showNat_eq_dig]; exact dig_ne_nil n
theorem digitsVal_showNat (n : Nat) : digitsVal (showNat n) = n := by rw [showNat_eq_dig]; exact digitsVal_dig n

/-- any byte of `showNat n` is a digit -/
theorem showNat_mem_digit (n : Nat) (c : UInt8) (h : c ∈ showNat n) : isDigit c = true :=
  List.all_eq_true.mp (showNat_all n) c h

theorem isDigit_ne {c : UInt8} (h : isDigit c = true) :
    c ≠ 43 ∧ c ≠ 45 ∧ c ≠ 9 ∧ c ≠ 10 ∧ c ≠ 13 ∧ c ≠ 58 ∧ c ≠ 46 := by
  refine ⟨?_, ?_, ?_, ?_, ?_, ?_, ?_⟩ <;> (intro he; subst he; revert h; decide)

theorem parseUnsigned_digits (max : Nat) (s : Bytes) (hne : s ≠ []) (hall : s.all isDigit = true)
    (hle : digitsVal s ≤ max) : parseUnsigned max s = some (digitsVal s) := by
  cases s with
  | nil => exact absurd rfl hne
  | cons c t =>
    have hc : isDigit c = true := by simp at hall; exact hall.1
    have hc43 : c ≠ 43 := (isDigit_ne hc).1
    unfold parseUnsigned
    split
    · rename_i heq; simp at heq; exact absurd heq.1 hc43
    · simp only [hall]
      simp [hle]

theorem parseUnsigned_showNat (max n : Nat) (h : n ≤ max) : parseUnsigned max (showNat n) = some n := by
  rw [parseUnsigned_digits max _ (showNat_ne_nil n) (showNat_all n) (by rw [digitsVal_showNat]; exact h),
    digitsVal_showNat]

/-- `showNat n` starts with a digit -/
theorem showNat_cons (n : Nat) : ∃ c t, showNat n = c :: t ∧ isDigit c = true := by
  have hne := showNat_ne_nil n
  have hall := showNat_all n
  cases hs : showNat n with
  | nil => exact absurd hs hne
  | cons c t => rw [hs] at hall; simp at hall; exact ⟨c, t, rfl, hall.1⟩

theorem parseI64_showNat (n : Nat) (h : n < 2^63) : parseI64 (showNat n) = some (n : Int) := by
  obtain ⟨c, t, hs, hc⟩ := showNat_cons n
  have hp := parseUnsigned_showNat (2^63 - 1) n (by omega)
  rw [hs] at hp ⊢
  unfold parseI64
  split
  · rename_i heq; simp at heq; exact absurd heq.1 (isDigit_ne hc).2.1
  · rw [hp]; rfl

theorem parseI64_neg (n : Nat) (h : n ≤ 2^63) : parseI64 (DASH :: showNat n) = some (-(n : Int)) := by
  have hne := showNat_ne_nil n
  have hall := showNat_all n
  show parseI64 (45 :: showNat n) = _
  simp only [parseI64, hall, digitsVal_showNat]
  simp [hne, h]

theorem parseI64_showInt (i : Int) (h : -(2^63 : Int) ≤ i ∧ i < 2^63) : parseI64 (showInt i) = some i := by
  unfold showInt
  split
  · rw [parseI64_neg _ (by omega)]; congr 1; omega
  · rw [parseI64_showNat _ (by omega)]; congr 1; omega

theorem showNat_ne_DOT (n : Nat) : showNat n ≠ DOT := by
  obtain ⟨c, t, hs, hc⟩ := showNat_cons n
  rw [hs, DOT]; intro he; simp at he; exact (isDigit_ne hc).2.2.2.2.2.2 he.1

theorem parseScore_showNat (n : Nat) (h : n ≤ U32MAX) : parseScore (showNat n) = some (min n 1000) := by
  rw [parseScore, parseUnsigned_showNat _ _ h]
  simp only [Option.map_some]
  congr 1
  split <;> omega

theorem parseScore_le (s : Bytes) (v : Nat) (h : parseScore s = some v) : v ≤ 1000 := by
  unfold parseScore at h
  cases hp : parseUnsigned U32MAX s with
  | none => rw [hp] at h; simp at h
  | some n =>
    rw [hp] at h; simp only [Option.map_some, Option.some.injEq] at h
    subst h; split <;> omega

theorem scoreTryFrom_iff (n v : Nat) : scoreTryFrom n = some v ↔ n ≤ 1000 ∧ v = n := by
  unfold scoreTryFrom
  split
  · simp; omega
  · simp; omega

end C03
end BV
