import BedVerif.Lemmas.C03Cols
/-! C03 helpers: all columns are clean; the round trip per record type -/
namespace BV
namespace C03
variable {F : Type}

theorem cols_clean (fc : FloatCodec F) (hfc : fc.Lawful) (ty : Ty) (x : TRec F) (hwf : WF fc ty x) :
    ∀ f ∈ columnsT fc ty x, Clean f := by
  obtain ⟨hc, -, -, hrest⟩ := hwf
  have hbase : ∀ f ∈ [x.chrom, showNat x.start, showNat x.stop], Clean f := by
    intro f hf
    simp only [List.mem_cons, List.not_mem_nil, or_false] at hf
    rcases hf with rfl | rfl | rfl
    · exact hc
    · exact Clean_showNat _
    · exact Clean_showNat _
  cases ty with
  | gr => exact hbase
  | bed n =>
    simp only [BedColsOk] at hrest
    obtain ⟨-, ⟨hname, -⟩, -⟩ := hrest
    intro f hf
    simp only [columnsT, List.mem_append] at hf
    rcases hf with ((hf | hf) | hf) | hf
    · exact hbase f hf
    · split at hf
      · simp only [List.mem_cons, List.not_mem_nil, or_false] at hf; subst hf; exact Clean_name _ hname
      · simp at hf
    · split at hf
      · simp only [List.mem_cons, List.not_mem_nil, or_false] at hf; subst hf; exact Clean_score _
      · simp at hf
    · split at hf
      · simp only [List.mem_cons, List.not_mem_nil, or_false] at hf; subst hf; exact Clean_strand _
      · simp at hf
  | narrowPeak =>
    simp only [BedColsOk] at hrest
    obtain ⟨⟨hname, -⟩, -⟩ := hrest
    intro f hf
    simp only [columnsT, List.mem_append] at hf
    rcases hf with hf | hf
    · exact hbase f hf
    · simp only [List.mem_cons, List.not_mem_nil, or_false] at hf
      rcases hf with rfl | rfl | rfl | rfl | rfl | rfl | rfl
      · exact Clean_name _ hname
      · exact Clean_score _
      · exact Clean_strand _
      · exact Clean_float fc hfc _
      · exact Clean_float fc hfc _
      · exact Clean_float fc hfc _
      · exact Clean_showNat _
  | broadPeak =>
    simp only [BedColsOk] at hrest
    obtain ⟨⟨hname, -⟩, -⟩ := hrest
    intro f hf
    simp only [columnsT, List.mem_append] at hf
    rcases hf with hf | hf
    · exact hbase f hf
    · simp only [List.mem_cons, List.not_mem_nil, or_false] at hf
      rcases hf with rfl | rfl | rfl | rfl | rfl | rfl
      · exact Clean_name _ hname
      · exact Clean_score _
      · exact Clean_strand _
      · exact Clean_float fc hfc _
      · exact Clean_float fc hfc _
      · exact Clean_float fc hfc _
  | bgInt =>
    intro f hf
    simp only [columnsT, List.mem_append] at hf
    rcases hf with hf | hf
    · exact hbase f hf
    · simp only [List.mem_cons, List.not_mem_nil, or_false] at hf
      subst hf; exact Clean_showInt _
  | bgFloat =>
    intro f hf
    simp only [columnsT, List.mem_append] at hf
    rcases hf with hf | hf
    · exact hbase f hf
    · simp only [List.mem_cons, List.not_mem_nil, or_false] at hf
      subst hf; exact Clean_float fc hfc _

theorem cols_ne_nil (fc : FloatCodec F) (ty : Ty) (x : TRec F) : columnsT fc ty x ≠ [] := by
  cases ty <;> simp [columnsT]

/-- the TAB split of the formatted record is its column list -/
theorem split_showT (fc : FloatCodec F) (hfc : fc.Lawful) (ty : Ty) (x : TRec F) (hwf : WF fc ty x) :
    splitOn (· == TAB) (showT fc ty x) = columnsT fc ty x := by
  rw [layout]
  exact split_intercalate_tab _ (cols_ne_nil fc ty x) (fun f hf => (cols_clean fc hfc ty x hwf f hf).1)

theorem gr_delim_free (chrom : Bytes) (a b : Nat) (hc : Clean chrom) (h1 : COLON ∉ chrom) (h2 : DASH ∉ chrom) :
    ∀ f ∈ [chrom, showNat a, showNat b], ∀ c ∈ f, (c == TAB || c == COLON || c == DASH) = false := by
  have hd : ∀ n : Nat, ∀ c ∈ showNat n, (c == TAB || c == COLON || c == DASH) = false := by
    intro n c hc
    have h := isDigit_ne (showNat_mem_digit n c hc)
    simp [TAB, COLON, DASH, h.2.1, h.2.2.1, h.2.2.2.2.2.1]
  intro f hf
  simp only [List.mem_cons, List.not_mem_nil, or_false] at hf
  rcases hf with rfl | rfl | rfl
  · intro c hcm
    have e1 : c ≠ TAB := fun e => hc.1 (e ▸ hcm)
    have e2 : c ≠ COLON := fun e => h1 (e ▸ hcm)
    have e3 : c ≠ DASH := fun e => h2 (e ▸ hcm)
    simp [e1, e2, e3]
  · exact hd _
  · exact hd _

theorem rt_gr (fc : FloatCodec F) (x : TRec F) (hwf : WF fc .gr x) :
    parseT fc .gr (showT fc .gr x) = .ok x := by
  obtain ⟨chrom, start, stop, name, score, strand, signal, p, q, peak, ival⟩ := x
  obtain ⟨hc, hs, he, h1, h2, rfl, rfl, rfl, rfl, rfl, rfl, rfl, rfl⟩ := hwf
  rw [layout]
  simp only [parseT, columnsT]
  rw [splitOn_intercalate _ TAB (by simp) _ (by simp) (gr_delim_free chrom start stop hc h1 h2)]
  simp only [pChrom_cons, bindP_ok, pStart_show _ _ hs, pEnd_show _ _ he]

theorem rt_pretty (fc : FloatCodec F) (x : TRec F) (hwf : WF fc .gr x) :
    parseT fc .gr (prettyShow x) = .ok x := by
  obtain ⟨chrom, start, stop, name, score, strand, signal, p, q, peak, ival⟩ := x
  obtain ⟨hc, hs, he, h1, h2, rfl, rfl, rfl, rfl, rfl, rfl, rfl, rfl⟩ := hwf
  have hd := gr_delim_free chrom start stop hc h1 h2
  have hsplit : splitOn (fun c => c == TAB || c == COLON || c == DASH)
      (chrom ++ COLON :: (showNat start ++ DASH :: showNat stop)) = [chrom, showNat start, showNat stop] := by
    rw [splitOn_sep _ _ _ _ (hd chrom (by simp)) (by simp),
      splitOn_sep _ _ _ _ (hd (showNat start) (by simp)) (by simp),
      splitOn_single _ _ (hd (showNat stop) (by simp))]
  simp only [parseT, prettyShow, List.append_assoc, List.cons_append, List.nil_append, hsplit]
  simp only [pChrom_cons, bindP_ok, pStart_show _ _ hs, pEnd_show _ _ he]

theorem rt_bgInt (fc : FloatCodec F) (hfc : fc.Lawful) (x : TRec F) (hwf : WF fc .bgInt x) :
    parseT fc .bgInt (showT fc .bgInt x) = .ok x := by
  have hsp := split_showT fc hfc _ x hwf
  obtain ⟨chrom, start, stop, name, score, strand, signal, p, q, peak, ival⟩ := x
  obtain ⟨hc, hs, he, rfl, rfl, rfl, rfl, rfl, rfl, rfl, v, rfl, hv⟩ := hwf
  simp only [parseT, hsp, columnsT, List.cons_append, List.nil_append, Option.getD_some]
  simp only [pChrom_cons, bindP_ok, pStart_show _ _ hs, pEnd_show _ _ he, pI64_show _ _ hv]

theorem rt_bgFloat (fc : FloatCodec F) (hfc : fc.Lawful) (x : TRec F) (hwf : WF fc .bgFloat x) :
    parseT fc .bgFloat (showT fc .bgFloat x) = .ok x := by
  have hsp := split_showT fc hfc _ x hwf
  obtain ⟨chrom, start, stop, name, score, strand, signal, p, q, peak, ival⟩ := x
  obtain ⟨hc, hs, he, rfl, rfl, rfl, ⟨v, rfl, hv⟩, rfl, rfl, rfl, rfl⟩ := hwf
  simp only [parseT, hsp, columnsT, List.cons_append, List.nil_append, Option.getD_some]
  simp only [pChrom_cons, bindP_ok, pStart_show _ _ hs, pEnd_show _ _ he, pFloat_show fc hfc _ _ hv]

theorem rt_narrowPeak (fc : FloatCodec F) (hfc : fc.Lawful) (x : TRec F) (hwf : WF fc .narrowPeak x) :
    parseT fc .narrowPeak (showT fc .narrowPeak x) = .ok x := by
  have hsp := split_showT fc hfc _ x hwf
  obtain ⟨chrom, start, stop, name, score, strand, signal, p, q, peak, ival⟩ := x
  obtain ⟨hc, hs, he, ⟨hname, hscore, -⟩, ⟨v, rfl, hv⟩, hp, hq, ⟨k, rfl, hk⟩, rfl⟩ := hwf
  simp only [parseT, hsp, columnsT, List.cons_append, List.nil_append, Option.getD_some]
  simp only [pChrom_cons, bindP_ok, pStart_show _ _ hs, pEnd_show _ _ he, pName_show _ _ hname,
    pScore_show _ _ hscore, pStrand_show, pFloat_show fc hfc _ _ hv, pPValue_show fc hfc _ _ hp,
    pPValue_show fc hfc _ _ hq, pPeak_show _ _ hk]

theorem rt_broadPeak (fc : FloatCodec F) (hfc : fc.Lawful) (x : TRec F) (hwf : WF fc .broadPeak x) :
    parseT fc .broadPeak (showT fc .broadPeak x) = .ok x := by
  have hsp := split_showT fc hfc _ x hwf
  obtain ⟨chrom, start, stop, name, score, strand, signal, p, q, peak, ival⟩ := x
  obtain ⟨hc, hs, he, ⟨hname, hscore, -⟩, ⟨v, rfl, hv⟩, hp, hq, rfl, rfl⟩ := hwf
  simp only [parseT, hsp, columnsT, List.cons_append, List.nil_append, Option.getD_some]
  simp only [pChrom_cons, bindP_ok, pStart_show _ _ hs, pEnd_show _ _ he, pName_show _ _ hname,
    pScore_show _ _ hscore, pStrand_show, pFloat_show fc hfc _ _ hv, pPValue_show fc hfc _ _ hp,
    pPValue_show fc hfc _ _ hq]

theorem rt_bed (fc : FloatCodec F) (hfc : fc.Lawful) (n : Nat) (x : TRec F) (hwf : WF fc (.bed n) x) :
    parseT fc (.bed n) (showT fc (.bed n) x) = .ok x := by
  have hsp := split_showT fc hfc _ x hwf
  obtain ⟨chrom, start, stop, name, score, strand, signal, p, q, peak, ival⟩ := x
  obtain ⟨hc, hs, he, h3, ⟨hname, hscore, hn3, hn4, hn5⟩, rfl, rfl, rfl, rfl, rfl⟩ := hwf
  simp only at hname hscore hn3 hn4 hn5
  simp only [parseT, hsp, columnsT]
  by_cases g3 : n > 3 <;> by_cases g4 : n > 4 <;> by_cases g5 : n > 5
  all_goals first
    | (exfalso; omega)
    | skip
  all_goals
    try (have := hn3 (by omega); subst this)
    try (have := hn4 (by omega); subst this)
    try (have := hn5 (by omega); subst this)
    simp only [g3, g4, g5, if_true, if_false, List.cons_append, List.nil_append, List.append_nil]
    simp only [pChrom_cons, bindP_ok, pStart_show _ _ hs, pEnd_show _ _ he, pName_show _ _ hname,
      pScore_show _ _ hscore, pStrand_show]

theorem roundtrip (fc : FloatCodec F) (hfc : fc.Lawful) (ty : Ty) (x : TRec F) (hwf : WF fc ty x) :
    parseT fc ty (showT fc ty x) = .ok x := by
  cases ty with
  | gr => exact rt_gr fc x hwf
  | bed n => exact rt_bed fc hfc n x hwf
  | narrowPeak => exact rt_narrowPeak fc hfc x hwf
  | broadPeak => exact rt_broadPeak fc hfc x hwf
  | bgInt => exact rt_bgInt fc hfc x hwf
  | bgFloat => exact rt_bgFloat fc hfc x hwf

theorem single_line (fc : FloatCodec F) (hfc : fc.Lawful) (ty : Ty) (x : TRec F) (hwf : WF fc ty x) :
    LF ∉ showT fc ty x ∧ CR ∉ showT fc ty x := by
  rw [layout]
  constructor <;> intro hm
  · rcases mem_intercalate _ _ _ hm with h | ⟨f, hf, hc⟩
    · revert h; decide
    · exact (cols_clean fc hfc ty x hwf f hf).2.1 hc
  · rcases mem_intercalate _ _ _ hm with h | ⟨f, hf, hc⟩
    · revert h; decide
    · exact (cols_clean fc hfc ty x hwf f hf).2.2 hc

end C03
end BV
