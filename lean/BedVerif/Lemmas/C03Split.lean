import BedVerif.Spec.Text
/-! C03 helpers: `splitOn` / `intercalate` -/
namespace BV
namespace C03

theorem splitOn_ne_nil (d : UInt8 → Bool) (s : Bytes) : splitOn d s ≠ [] := by
  cases s with
  | nil => simp [splitOn]
  | cons c cs =>
    rw [splitOn]
    split
    · simp
    · split <;> simp

theorem splitOn_single (d : UInt8 → Bool) (f : Bytes) (h : ∀ c ∈ f, d c = false) : splitOn d f = [f] := by
  induction f with
  | nil => rfl
  | cons c f ih =>
    rw [splitOn, ih (fun x hx => h x (List.mem_cons_of_mem _ hx))]
    simp [h c (List.mem_cons_self)]

theorem splitOn_sep (d : UInt8 → Bool) (f : Bytes) (sep : UInt8) (rest : Bytes)
    (h : ∀ c ∈ f, d c = false) (hs : d sep = true) :
    splitOn d (f ++ sep :: rest) = f :: splitOn d rest := by
  induction f with
  | nil =>
    rw [List.nil_append, splitOn]
    cases hr : splitOn d rest with
    | nil => exact absurd hr (splitOn_ne_nil d rest)
    | cons p ps => simp [hs]
  | cons c f ih =>
    rw [List.cons_append, splitOn, ih (fun x hx => h x (List.mem_cons_of_mem _ hx))]
    simp [h c (List.mem_cons_self)]

theorem intercalate_cons_cons (sep : UInt8) (x y : Bytes) (xs : List Bytes) :
    intercalate [sep] (x :: y :: xs) = x ++ sep :: intercalate [sep] (y :: xs) := by
  simp [intercalate]

theorem splitOn_intercalate (d : UInt8 → Bool) (sep : UInt8) (hs : d sep = true) (fs : List Bytes) (hne : fs ≠ [])
    (h : ∀ f ∈ fs, ∀ c ∈ f, d c = false) : splitOn d (intercalate [sep] fs) = fs := by
  induction fs with
  | nil => exact absurd rfl hne
  | cons x xs ih =>
    cases xs with
    | nil => simp only [intercalate]; exact splitOn_single d x (h x (List.mem_cons_self))
    | cons y ys =>
      rw [intercalate_cons_cons, splitOn_sep d x sep _ (h x (List.mem_cons_self)) hs,
        ih (by simp) (fun f hf => h f (List.mem_cons_of_mem _ hf))]

theorem split_intercalate_tab (fs : List Bytes) (hne : fs ≠ []) (h : ∀ f ∈ fs, TAB ∉ f) :
    splitOn (· == TAB) (intercalate [TAB] fs) = fs := by
  apply splitOn_intercalate _ TAB (by simp) fs hne
  intro f hf c hc
  simp only [beq_eq_false_iff_ne, ne_eq]
  intro he; subst he; exact h f hf hc

theorem mem_intercalate (sep : UInt8) (fs : List Bytes) (c : UInt8) (h : c ∈ intercalate [sep] fs) :
    c = sep ∨ ∃ f ∈ fs, c ∈ f := by
  induction fs with
  | nil => simp [intercalate] at h
  | cons x xs ih =>
    cases xs with
    | nil => simp only [intercalate] at h; exact Or.inr ⟨x, List.mem_cons_self, h⟩
    | cons y ys =>
      rw [intercalate_cons_cons, List.mem_append, List.mem_cons] at h
      rcases h with h | h | h
      · exact Or.inr ⟨x, List.mem_cons_self, h⟩
      · exact Or.inl h
      · rcases ih h with h | ⟨f, hf, hc⟩
        · exact Or.inl h
        · exact Or.inr ⟨f, List.mem_cons_of_mem _ hf, hc⟩

end C03
end BV
