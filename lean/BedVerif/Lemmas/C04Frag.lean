import BedVerif.Lemmas.C04Lines
/-!
Helper lemmas for C04: `splitAtLF`, `readUntilLF`.
-/
namespace BV

theorem splitAtLF_none (b : Bytes) (h : splitAtLF b = none) : LF ∉ b := by
  induction b with
  | nil => simp
  | cons c cs ih =>
    simp only [splitAtLF] at h
    split at h
    · simp at h
    · rename_i hc
      have hc' : ¬ c = LF := by simpa using hc
      simp only [Option.map_eq_none_iff] at h
      simp only [List.mem_cons, not_or]
      exact ⟨fun e => hc' e.symm, ih h⟩

theorem splitAtLF_some (b pre post : Bytes) (h : splitAtLF b = some (pre, post)) :
    ∃ l, LF ∉ l ∧ pre = l ++ [LF] ∧ b = l ++ LF :: post := by
  induction b generalizing pre with
  | nil => simp [splitAtLF] at h
  | cons c cs ih =>
    simp only [splitAtLF] at h
    split at h
    · rename_i hc
      have hc' : c = LF := by simpa using hc
      simp only [Option.some.injEq, Prod.mk.injEq] at h
      refine ⟨[], by simp, ?_, ?_⟩
      · rw [← h.1, hc']; rfl
      · rw [← h.2, hc']; rfl
    · rename_i hc
      have hc' : ¬ c = LF := by simpa using hc
      simp only [Option.map_eq_some_iff] at h
      obtain ⟨⟨q1, q2⟩, hq, he⟩ := h
      simp only [Prod.mk.injEq] at he
      obtain ⟨l, h1, h2, h3⟩ := ih q1 (by rw [hq, he.2])
      refine ⟨c :: l, ?_, ?_, ?_⟩
      · simp only [List.mem_cons, not_or]; exact ⟨fun e => hc' e.symm, h1⟩
      · rw [← he.1, h2]; rfl
      · rw [h3]; rfl

theorem readUntilLF_spec (fuel : Nat) : ∀ (src : List Chunk) (acc : Bytes), src.length ≤ fuel →
    (∀ c ∈ src, ∀ b, c = .data b → b ≠ []) →
    (readUntilLF fuel src acc).1 = acc ++ (takeLine (flattenChunks src)).1 ∧
    flattenChunks (readUntilLF fuel src acc).2 = (takeLine (flattenChunks src)).2 ∧
    (∀ c ∈ (readUntilLF fuel src acc).2, ∀ b, c = .data b → b ≠ []) := by
  induction fuel with
  | zero =>
    intro src acc hlen _
    have : src = [] := List.length_eq_zero_iff.mp (by omega)
    subst this
    simp [readUntilLF, flattenChunks, takeLine]
  | succ n ih =>
    intro src acc hlen hne
    cases src with
    | nil => simp [readUntilLF, flattenChunks, takeLine]
    | cons c rest =>
      have hrest : ∀ c ∈ rest, ∀ b, c = .data b → b ≠ [] :=
        fun c hc => hne c (List.mem_cons_of_mem _ hc)
      have hl : rest.length ≤ n := by simp at hlen; omega
      cases c with
      | interrupted =>
        simp only [readUntilLF, flattenChunks]
        exact ih rest acc hl hrest
      | data b =>
        have hb : b ≠ [] := hne (.data b) (List.mem_cons_self) b rfl
        have hbe : b.isEmpty = false := by simpa using hb
        simp only [readUntilLF, hbe, flattenChunks, Bool.false_eq_true, ↓reduceIte]
        cases hs : splitAtLF b with
        | none =>
          have hno := splitAtLF_none b hs
          simp only []
          have := ih rest (acc ++ b) hl hrest
          rw [takeLine_append_noLF b _ hno]
          simpa [List.append_assoc] using this
        | some pq =>
          obtain ⟨pre, post⟩ := pq
          obtain ⟨l, h1, h2, h3⟩ := splitAtLF_some b pre post hs
          simp only []
          rw [h3, List.append_assoc, List.cons_append, takeLine_LF l _ h1, ← h2]
          refine ⟨rfl, ?_, ?_⟩
          · by_cases hp : post = []
            · subst hp; simp
            · have : post.isEmpty = false := by simpa using hp
              simp [this, flattenChunks]
          · by_cases hp : post = []
            · subst hp; simpa using hrest
            · have : post.isEmpty = false := by simpa using hp
              simp only [this, Bool.false_eq_true, ↓reduceIte]
              intro c hc b' hb'
              rw [List.mem_cons] at hc
              rcases hc with hc | hc
              · subst hc
                injection hb' with e; subst e; exact hp
              · exact hrest c hc b' hb'

end BV
