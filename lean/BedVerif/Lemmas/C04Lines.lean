import BedVerif.Spec.Text
/-!
Helper lemmas for C04: `takeLine`, `rawLines`, `items`.
-/
namespace BV
variable {β : Type}

/-! ### takeLine -/

theorem takeLine_append (s : Bytes) : (takeLine s).1 ++ (takeLine s).2 = s := by
  induction s with
  | nil => rfl
  | cons c cs ih =>
    simp only [takeLine]
    split
    · simp
    · simp [ih]

theorem takeLine_ne_nil (s : Bytes) (h : s ≠ []) : (takeLine s).1 ≠ [] := by
  cases s with
  | nil => contradiction
  | cons c cs => simp only [takeLine]; split <;> simp

theorem takeLine_rest_length (s : Bytes) (h : s ≠ []) : (takeLine s).2.length < s.length := by
  have h1 := takeLine_append s
  have h2 := takeLine_ne_nil s h
  have h3 : ((takeLine s).1 ++ (takeLine s).2).length = s.length := by rw [h1]
  rw [List.length_append] at h3
  have h4 : 0 < (takeLine s).1.length := List.length_pos_iff.mpr h2
  omega

theorem takeLine_noLF (l : Bytes) (h : LF ∉ l) : takeLine l = (l, []) := by
  induction l with
  | nil => rfl
  | cons c cs ih =>
    simp only [List.mem_cons, not_or] at h
    have hc : (c == LF) = false := by simp; exact fun e => h.1 e.symm
    simp [takeLine, hc, ih h.2]

theorem takeLine_append_noLF (b rest : Bytes) (h : LF ∉ b) :
    takeLine (b ++ rest) = (b ++ (takeLine rest).1, (takeLine rest).2) := by
  induction b with
  | nil => rfl
  | cons c cs ih =>
    simp only [List.mem_cons, not_or] at h
    have hc : (c == LF) = false := by simp; exact fun e => h.1 e.symm
    simp [takeLine, hc, ih h.2]

theorem takeLine_LF (l rest : Bytes) (h : LF ∉ l) : takeLine (l ++ LF :: rest) = (l ++ [LF], rest) := by
  rw [takeLine_append_noLF l _ h]
  simp [takeLine]

/-- the shape of the first line -/
theorem takeLine_cases (s : Bytes) :
    (LF ∉ s ∧ takeLine s = (s, [])) ∨
    ∃ l r, LF ∉ l ∧ s = l ++ LF :: r ∧ takeLine s = (l ++ [LF], r) := by
  induction s with
  | nil => left; exact ⟨by simp, rfl⟩
  | cons c cs ih =>
    by_cases hc : c = LF
    · right
      refine ⟨[], cs, by simp, by simp [hc], ?_⟩
      simp [takeLine, hc]
    · have hc' : (c == LF) = false := by simp [hc]
      rcases ih with ⟨h1, h2⟩ | ⟨l, r, h1, h2, h3⟩
      · left
        refine ⟨?_, ?_⟩
        · simp only [List.mem_cons, not_or]; exact ⟨fun e => hc e.symm, h1⟩
        · simp [takeLine, hc', h2]
      · right
        refine ⟨c :: l, r, ?_, ?_, ?_⟩
        · simp only [List.mem_cons, not_or]; exact ⟨fun e => hc e.symm, h1⟩
        · simp [h2]
        · simp [takeLine, hc', h3]

/-! ### rawLines -/

theorem rawLines_nil (fuel : Nat) : rawLines fuel [] = [] := by
  cases fuel <;> simp [rawLines]

theorem rawLines_succ (fuel : Nat) (input : Bytes) (h : input ≠ []) :
    rawLines (fuel + 1) input = (takeLine input).1 :: rawLines fuel (takeLine input).2 := by
  have : input.isEmpty = false := by simpa using h
  simp [rawLines, this]

theorem rawLines_flatten (fuel : Nat) : ∀ input : Bytes, input.length ≤ fuel →
    (rawLines fuel input).flatten = input := by
  induction fuel with
  | zero =>
    intro input h
    have : input = [] := List.length_eq_zero_iff.mp (by omega)
    subst this; rfl
  | succ n ih =>
    intro input h
    by_cases he : input = []
    · subst he; rfl
    · rw [rawLines_succ n input he, List.flatten_cons, ih]
      · exact takeLine_append input
      · have := takeLine_rest_length input he; omega

theorem rawLines_mem (fuel : Nat) : ∀ input : Bytes, ∀ l ∈ rawLines fuel input,
    l ≠ [] ∧ LF ∉ l.dropLast := by
  induction fuel with
  | zero => intro input l hl; simp [rawLines] at hl
  | succ n ih =>
    intro input l hl
    by_cases he : input = []
    · subst he; simp [rawLines] at hl
    · rw [rawLines_succ n input he, List.mem_cons] at hl
      rcases hl with hl | hl
      · subst hl
        refine ⟨takeLine_ne_nil input he, ?_⟩
        rcases takeLine_cases input with ⟨h1, h2⟩ | ⟨l, r, h1, h2, h3⟩
        · rw [h2]; exact fun hm => h1 (List.dropLast_subset _ hm)
        · rw [h3]; simpa using h1
      · exact ih _ l hl

theorem rawLines_dropLast (fuel : Nat) : ∀ input : Bytes, ∀ l ∈ (rawLines fuel input).dropLast,
    l.getLast? = some LF := by
  induction fuel with
  | zero => intro input l hl; simp [rawLines] at hl
  | succ n ih =>
    intro input l hl
    by_cases he : input = []
    · subst he; simp [rawLines] at hl
    · rw [rawLines_succ n input he] at hl
      by_cases hr : (takeLine input).2 = []
      · rw [hr, rawLines_nil] at hl; simp at hl
      · cases hL : rawLines n (takeLine input).2 with
        | nil => rw [hL] at hl; simp at hl
        | cons a L =>
          rw [hL, List.dropLast_cons_cons, List.mem_cons] at hl
          rcases hl with hl | hl
          · subst hl
            rcases takeLine_cases input with ⟨h1, h2⟩ | ⟨l, r, h1, h2, h3⟩
            · rw [h2] at hr; exact absurd rfl hr
            · rw [h3]; simp
          · apply ih (takeLine input).2; rw [hL]; exact hl

theorem rawLines_fuel (f1 : Nat) : ∀ (f2 : Nat) (input : Bytes), input.length ≤ f1 → input.length ≤ f2 →
    rawLines f1 input = rawLines f2 input := by
  induction f1 with
  | zero =>
    intro f2 input h1 _
    have : input = [] := List.length_eq_zero_iff.mp (by omega)
    subst this; rw [rawLines_nil, rawLines_nil]
  | succ n ih =>
    intro f2 input h1 h2
    by_cases he : input = []
    · subst he; rw [rawLines_nil, rawLines_nil]
    · have hlt := takeLine_rest_length input he
      cases f2 with
      | zero =>
        have : input = [] := List.length_eq_zero_iff.mp (by omega)
        exact absurd this he
      | succ m =>
        rw [rawLines_succ n input he, rawLines_succ m input he, ih m _ (by omega) (by omega)]

/-- the raw lines with canonical fuel -/
def lines (input : Bytes) : List Bytes := rawLines input.length input

theorem rawLines_eq_lines (fuel : Nat) (input : Bytes) (h : input.length ≤ fuel) :
    rawLines fuel input = lines input :=
  rawLines_fuel fuel input.length input h (Nat.le_refl _)

theorem lines_nil : lines [] = [] := rfl

theorem lines_step (input : Bytes) (h : input ≠ []) :
    lines input = (takeLine input).1 :: lines (takeLine input).2 := by
  have hlt := takeLine_rest_length input h
  unfold lines
  obtain ⟨n, hn⟩ : ∃ n, input.length = n + 1 := ⟨input.length - 1, by omega⟩
  rw [hn, rawLines_succ n input h, rawLines_fuel n _ _ (by omega) (Nat.le_refl _)]

theorem lines_cons (l rest : Bytes) (h : LF ∉ l) : lines (l ++ LF :: rest) = (l ++ [LF]) :: lines rest := by
  rw [lines_step _ (by simp), takeLine_LF l rest h]

theorem lines_single (l : Bytes) (h : LF ∉ l) (hne : l ≠ []) : lines l = [l] := by
  rw [lines_step _ hne, takeLine_noLF l h, lines_nil]

/-- a stream that ends with LF (or is empty) can be split off line-wise -/
theorem lines_append (n : Nat) : ∀ pre rest : Bytes, pre.length ≤ n → (pre = [] ∨ pre.getLast? = some LF) →
    lines (pre ++ rest) = lines pre ++ lines rest := by
  induction n with
  | zero =>
    intro pre rest h _
    have : pre = [] := List.length_eq_zero_iff.mp (by omega)
    subst this; simp [lines_nil]
  | succ n ih =>
    intro pre rest hlen hpre
    rcases hpre with hpre | hpre
    · subst hpre; simp [lines_nil]
    · have hmem : LF ∈ pre := List.mem_of_getLast? hpre
      rcases takeLine_cases pre with ⟨h1, _⟩ | ⟨l, r, h1, h2, _⟩
      · exact absurd hmem h1
      · subst h2
        have hr : r = [] ∨ r.getLast? = some LF := by
          by_cases hre : r = []
          · left; exact hre
          · right
            rcases List.eq_nil_or_concat r with hr' | ⟨r', a, hr'⟩
            · exact absurd hr' hre
            · subst hr'
              rw [List.concat_eq_append] at hpre ⊢
              have e : l ++ LF :: (r' ++ [a]) = (l ++ LF :: r') ++ [a] := by simp
              rw [e, List.getLast?_concat] at hpre
              rw [List.getLast?_concat]; exact hpre
        have hrl : r.length ≤ n := by simp at hlen; omega
        rw [List.append_assoc, List.cons_append, lines_cons l _ h1, lines_cons l _ h1, ih r rest hrl hr]
        rfl

/-! ### items -/

theorem items_eq_filterMap (parse : Bytes → Outcome PErr β) (pfx : Option Bytes) (fuel : Nat) :
    ∀ input : Bytes, items parse pfx fuel input = (rawLines fuel input).filterMap (classifyLine parse pfx) := by
  induction fuel with
  | zero => intro input; rfl
  | succ n ih =>
    intro input
    by_cases he : input = []
    · subst he; rfl
    · have hemp : input.isEmpty = false := by simpa using he
      rw [rawLines_succ n input he, List.filterMap_cons]
      simp only [items, hemp]
      rw [ih]
      cases classifyLine parse pfx (takeLine input).1 <;> rfl

theorem readAll_eq_lines (parse : Bytes → Outcome PErr β) (pfx : Option Bytes) (input : Bytes) :
    readAll parse pfx input = (lines input).filterMap (classifyLine parse pfx) := by
  unfold readAll
  rw [items_eq_filterMap, rawLines_eq_lines _ _ (Nat.le_succ _)]

end BV
