import BedVerif.Spec.Text
/-!
Helper lemmas for C04: `stripEol`, `isPrefix`.
-/
namespace BV

theorem stripEol_crlf (t : Bytes) : stripEol (t ++ [CR, LF]) = t := by
  simp [stripEol, CR, LF]

theorem stripEol_lf (t : Bytes) (h : t.getLast? ≠ some CR) : stripEol (t ++ [LF]) = t := by
  unfold stripEol
  rw [List.reverse_append]
  cases hr : t.reverse with
  | nil =>
    have : t = [] := by simpa using hr
    subst this; simp [LF]
  | cons a r =>
    have ht : t = r.reverse ++ [a] := by
      have := congrArg List.reverse hr
      simpa using this
    subst ht
    have ha : a ≠ 13 := by
      intro e; apply h; simp [e, CR]
    simp only [List.reverse_cons, List.reverse_nil, List.nil_append, LF, List.cons_append]
    split
    · rename_i heq
      simp only [List.cons.injEq, true_and] at heq
      exact absurd heq.1 ha
    · rename_i heq
      simp only [List.cons.injEq, true_and] at heq
      subst heq; simp
    · rename_i h1 h2
      exact absurd rfl (h2 _)

theorem stripEol_noLF (t : Bytes) (h : t.getLast? ≠ some LF) : stripEol t = t := by
  unfold stripEol
  cases hr : t.reverse with
  | nil => rfl
  | cons a r =>
    have ht : t = r.reverse ++ [a] := by
      have := congrArg List.reverse hr
      simpa using this
    have ha : a ≠ 10 := by
      intro e; apply h; rw [ht]; simp [e, LF]
    split
    · rename_i heq
      simp only [List.cons.injEq] at heq
      exact absurd heq.1 ha
    · rename_i heq
      simp only [List.cons.injEq] at heq
      exact absurd heq.1 ha
    · rfl

theorem getLast?_ne_of_not_mem (t : Bytes) (c : UInt8) (h : c ∉ t) : t.getLast? ≠ some c :=
  fun e => h (List.mem_of_getLast? e)

theorem isPrefix_append (p b : Bytes) : isPrefix p (p ++ b) = true := by
  induction p with
  | nil => simp [isPrefix]
  | cons a as ih => simp [isPrefix, ih]

/-- stripping a comment line never cuts into the prefix -/
theorem isPrefix_stripEol_comment (p body : Bytes) (hcr : CR ∉ p) :
    isPrefix p (stripEol (p ++ body ++ [LF])) = true := by
  rcases List.eq_nil_or_concat body with hb | ⟨b', a, hb⟩
  · subst hb
    rw [List.append_nil, stripEol_lf p (getLast?_ne_of_not_mem p CR hcr)]
    have := isPrefix_append p []
    simpa using this
  · subst hb
    rw [List.concat_eq_append]
    by_cases ha : a = CR
    · subst ha
      have e : p ++ (b' ++ [CR]) ++ [LF] = (p ++ b') ++ [CR, LF] := by simp
      rw [e, stripEol_crlf]
      exact isPrefix_append p b'
    · rw [stripEol_lf]
      · exact isPrefix_append p _
      · rw [← List.append_assoc, List.getLast?_concat]
        simpa using ha

end BV
