import BedVerif.Lemmas.C06Arith
/-! C06: `accu_size` prefix sums, flat indexing, and the index-to-region lookups. -/
namespace BV

/-- the bins of one region -/
def binsOf (r : Rec) (bin : Nat) : List Rec := (List.range (nbins r bin)).map (binOf r bin)

theorem binsOf_length (r : Rec) (bin : Nat) : (binsOf r bin).length = nbins r bin := by
  simp [binsOf]

theorem allBins_nil (bin : Nat) : allBins [] bin = [] := rfl
theorem allBins_cons (r : Rec) (rs : List Rec) (bin : Nat) :
    allBins (r :: rs) bin = binsOf r bin ++ allBins rs bin := by
  simp [allBins, binsOf]

/-- exclusive prefix sums of the bin counts, starting at `n` -/
def psums (bin : Nat) : List Rec → Nat → List Nat
  | [], _ => []
  | r :: rs, n => n :: psums bin rs (n + nbins r bin)

theorem psums_length (bin : Nat) (rs : List Rec) (n : Nat) : (psums bin rs n).length = rs.length := by
  induction rs generalizing n with
  | nil => rfl
  | cons r rs ih => simp [psums, ih]

theorem accu_gen (bin : Nat) (rs : List Rec) (l : List Nat) (n : Nat) :
    rs.foldl (fun (acc : List Nat × Nat) r => (acc.1 ++ [acc.2], acc.2 + nbins r bin)) (l, n)
      = (l ++ psums bin rs n, n + (allBins rs bin).length) := by
  induction rs generalizing l n with
  | nil => simp [psums, allBins_nil]
  | cons r rs ih =>
    rw [List.foldl_cons, ih, allBins_cons, List.length_append, binsOf_length]
    simp [psums, Nat.add_assoc]

theorem accu_eq (rs : List Rec) (bin : Nat) :
    accu rs bin = (psums bin rs 0, (allBins rs bin).length) := by
  unfold accu
  rw [accu_gen]
  simp

theorem psums_ge (bin : Nat) (rs : List Rec) (n : Nat) : ∀ x ∈ psums bin rs n, n ≤ x := by
  induction rs generalizing n with
  | nil => intro x hx; simp [psums] at hx
  | cons r rs ih =>
    intro x hx
    simp only [psums, List.mem_cons] at hx
    rcases hx with rfl | hx
    · exact Nat.le_refl _
    · have := ih _ x hx; omega

/-- flat index, generalised over the starting offset -/
theorem flat_index_gen (bin : Nat) (rs : List Rec) (n i b : Nat) (hi : i < rs.length)
    (hb : b < nbins rs[i] bin) :
    ∃ k, (psums bin rs n)[i]? = some (n + k) ∧ (allBins rs bin)[k + b]? = some (binOf rs[i] bin b) := by
  induction rs generalizing n i with
  | nil => simp at hi
  | cons r rs ih =>
    cases i with
    | zero =>
      refine ⟨0, by simp [psums], ?_⟩
      simp only [List.getElem_cons_zero] at hb ⊢
      rw [allBins_cons, Nat.zero_add, List.getElem?_append_left (by rw [binsOf_length]; exact hb)]
      simp [binsOf, hb]
    | succ i =>
      simp only [List.getElem_cons_succ] at hb ⊢
      obtain ⟨k, h1, h2⟩ := ih (n + nbins r bin) i (by simpa using hi) hb
      refine ⟨nbins r bin + k, ?_, ?_⟩
      · simp only [psums, List.getElem?_cons_succ]
        rw [h1, Nat.add_assoc]
      · rw [allBins_cons, List.getElem?_append_right (by rw [binsOf_length]; omega), binsOf_length]
        have : nbins r bin + k + b - nbins r bin = k + b := by omega
        rw [this, h2]

/-- where the binary search lands, generalised over the starting offset -/
theorem locate_gen (bin : Nat) (rs : List Rec) (hpos : ∀ r ∈ rs, 0 < nbins r bin) (n idx : Nat)
    (h1 : n ≤ idx) (h2 : idx < n + (allBins rs bin).length) :
    (∃ j, (psums bin rs n).findIdx? (· == idx) = some j ∧ j < rs.length ∧
        (psums bin rs n)[j]? = some idx ∧ n + j ≤ idx) ∨
    ((psums bin rs n).findIdx? (· == idx) = none ∧
      ∃ c p, (psums bin rs n).countP (· < idx) = c + 1 ∧ ∃ hc : c < rs.length,
        (psums bin rs n)[c]? = some p ∧ n + c ≤ p ∧ p < idx ∧ idx - p < nbins rs[c] bin) := by
  induction rs generalizing n with
  | nil => simp [allBins_nil] at h2; omega
  | cons r rs ih =>
    have hr := hpos r List.mem_cons_self
    have hrs : ∀ r ∈ rs, 0 < nbins r bin := fun x hx => hpos x (List.mem_cons_of_mem _ hx)
    rw [allBins_cons, List.length_append, binsOf_length] at h2
    by_cases he : n = idx
    · left
      refine ⟨0, ?_, ?_, ?_, ?_⟩
      · simp [psums, List.findIdx?_cons, he]
      · simp
      · simp [psums, he]
      · omega
    · have hlt : n < idx := by omega
      have hne : (n == idx) = false := by simp [he]
      by_cases hin : idx < n + nbins r bin
      · right
        have hall : ∀ x ∈ psums bin rs (n + nbins r bin), idx < x := by
          intro x hx
          have := psums_ge bin rs _ x hx
          omega
        constructor
        · simp only [psums, List.findIdx?_cons, hne]
          have : (psums bin rs (n + nbins r bin)).findIdx? (· == idx) = none := by
            rw [List.findIdx?_eq_none_iff]
            intro x hx
            have := hall x hx
            simp; omega
          simp [this]
        · refine ⟨0, n, ?_, by simp, ?_, ?_, hlt, ?_⟩
          · simp only [psums, List.countP_cons, hlt, decide_true, if_true]
            have : (psums bin rs (n + nbins r bin)).countP (· < idx) = 0 := by
              rw [List.countP_eq_zero]
              intro x hx
              have := hall x hx
              simp; omega
            rw [this]
          · simp [psums]
          · omega
          · simp only [List.getElem_cons_zero]; omega
      · have h1' : n + nbins r bin ≤ idx := by omega
        have h2' : idx < n + nbins r bin + (allBins rs bin).length := by omega
        rcases ih hrs (n + nbins r bin) h1' h2' with ⟨j, a1, a2, a3, a4⟩ | ⟨a0, c, p, a1, hc, a2, a3, a4, a5⟩
        · left
          refine ⟨j + 1, ?_, ?_, ?_, ?_⟩
          · simp [psums, List.findIdx?_cons, hne, a1]
          · simp; omega
          · simp [psums, a3]
          · omega
        · right
          constructor
          · simp [psums, List.findIdx?_cons, hne, a0]
          · refine ⟨c + 1, p, ?_, by simp; omega, ?_, ?_, a4, ?_⟩
            · simp only [psums, List.countP_cons, hlt, decide_true, if_true]
              rw [a1]
            · simp [psums, a2]
            · omega
            · simpa using a5

end BV

namespace BV

theorem binOf_zero (r : Rec) (bin : Nat) : binOf r bin 0 = ⟨r.chrom, r.start, min (r.start + bin) r.stop⟩ := by
  simp [binOf]

theorem binOf_eq (r : Rec) (bin b : Nat) :
    binOf r bin b = ⟨r.chrom, r.start + b * bin, min (r.start + b * bin + bin) r.stop⟩ := by
  simp [binOf, Nat.add_mul, Nat.add_assoc]

/-- the common core of `get_region` / `get_chrom`: which region and which bin an index denotes -/
theorem locate (regions : List Rec) (bin idx : Nat) (hbin : 0 < bin) (hr : ∀ r ∈ regions, r.start < r.stop)
    (hlt : idx < (allBins regions bin).length) :
    (∃ j, binarySearch (psums bin regions 0) idx = .ok j ∧ j < (allBins regions bin).length ∧
        ∃ hj : j < regions.length, (allBins regions bin)[idx]? = some (binOf regions[j] bin 0)) ∨
    (∃ c p, binarySearch (psums bin regions 0) idx = .error (c + 1) ∧ c < (allBins regions bin).length ∧
        (psums bin regions 0)[c]? = some p ∧
        ∃ hc : c < regions.length, (allBins regions bin)[idx]? = some (binOf regions[c] bin (idx - p))) := by
  have hpos : ∀ r ∈ regions, 0 < nbins r bin := fun r h => nbins_pos r bin hbin (hr r h)
  rcases locate_gen bin regions hpos 0 idx (Nat.zero_le _) (by omega) with
    ⟨j, a1, a2, a3, a4⟩ | ⟨a0, c, p, a1, hc, a2, a3, a4, a5⟩
  · left
    refine ⟨j, by simp [binarySearch, a1], by omega, a2, ?_⟩
    obtain ⟨k, h1, h2⟩ := flat_index_gen bin regions 0 j 0 a2 (hpos _ (List.getElem_mem a2))
    rw [a3] at h1
    simp only [Nat.zero_add, Option.some.injEq] at h1
    subst h1
    simpa using h2
  · right
    refine ⟨c, p, by simp [binarySearch, a0, a1], by omega, a2, hc, ?_⟩
    obtain ⟨k, h1, h2⟩ := flat_index_gen bin regions 0 c (idx - p) hc a5
    rw [a2] at h1
    simp only [Nat.zero_add, Option.some.injEq] at h1
    subst h1
    have : p + (idx - p) = idx := by omega
    rwa [this] at h2

end BV
