import BedVerif.Spec.Coverage
import BedVerif.Props.C14
/-! C06, arithmetic core: the bin range computed by the code is the set of bins the tag overlaps. -/
namespace BV

/-- explicit lower bin index -/
def binLo (r tag : Rec) (bin : Nat) : Nat := (tag.start - r.start) / bin
/-- explicit upper bin index -/
def binHi (r tag : Rec) (bin : Nat) : Nat := (min (tag.stop - 1 - r.start) (r.blen - 1)) / bin

theorem ov_iff (r q : Rec) : r.ov q = true ↔ r.chrom = q.chrom ∧ r.start < q.stop ∧ q.start < r.stop := by
  simp [Rec.ov, and_assoc]

theorem binRange_ok (r tag : Rec) (bin : Nat) (hbin : 0 < bin) (hr : r.start < r.stop)
    (hov : r.ov tag = true) : binRange r tag bin = .ok (binLo r tag bin, binHi r tag bin) := by
  rw [ov_iff] at hov
  unfold binRange binLo binHi Rec.blen
  have h1 : ¬ bin = 0 := by omega
  have h2 : ¬ tag.stop < 1 + r.start := by omega
  have h3 : ¬ r.stop - r.start < 1 := by omega
  simp only [h1, h2, h3, if_false]

theorem nbins_eq (r : Rec) (bin : Nat) (hbin : 0 < bin) (hr : r.start < r.stop) :
    nbins r bin = (r.blen - 1) / bin + 1 := by
  unfold nbins
  have : r.blen + bin - 1 = (r.blen - 1) + bin := by unfold Rec.blen; omega
  rw [this, Nat.add_div_right _ hbin]

theorem nbins_pos (r : Rec) (bin : Nat) (hbin : 0 < bin) (hr : r.start < r.stop) : 0 < nbins r bin := by
  rw [nbins_eq r bin hbin hr]; exact Nat.succ_pos _

theorem binHi_lt (r tag : Rec) (bin : Nat) (hbin : 0 < bin) (hr : r.start < r.stop) :
    binHi r tag bin < nbins r bin := by
  rw [nbins_eq r bin hbin hr]
  unfold binHi
  have : min (tag.stop - 1 - r.start) (r.blen - 1) / bin ≤ (r.blen - 1) / bin :=
    Nat.div_le_div_right (Nat.min_le_right _ _)
  omega

theorem binLo_le_hi (r tag : Rec) (bin : Nat) (hr : r.start < r.stop) (ht : tag.start < tag.stop)
    (hov : r.ov tag = true) : binLo r tag bin ≤ binHi r tag bin := by
  rw [ov_iff] at hov
  unfold binLo binHi Rec.blen
  apply Nat.div_le_div_right
  omega

theorem bin_mem_iff (r tag : Rec) (bin b : Nat) (hbin : 0 < bin) (hr : r.start < r.stop)
    (hov : r.ov tag = true) (hb : b < nbins r bin) :
    (binLo r tag bin ≤ b ∧ b ≤ binHi r tag bin) ↔ (binOf r bin b).ov tag = true := by
  rw [nbins_eq r bin hbin hr] at hb
  have hb' : b ≤ (r.blen - 1) / bin := by omega
  rw [Nat.le_div_iff_mul_le hbin] at hb'
  rw [ov_iff] at hov
  rw [ov_iff]
  unfold binLo binHi binOf
  simp only
  have e1 : (tag.start - r.start) / bin ≤ b ↔ tag.start - r.start < (b + 1) * bin := by
    rw [← Nat.div_lt_iff_lt_mul hbin]; omega
  rw [e1, Nat.le_div_iff_mul_le hbin]
  rw [Nat.add_mul, Nat.one_mul]
  unfold Rec.blen at hb' ⊢
  generalize b * bin = p at *
  constructor
  · intro ⟨h1, h2⟩
    refine ⟨hov.1, ?_, ?_⟩ <;> omega
  · intro ⟨_, h1, h2⟩
    constructor <;> omega

theorem binOf_ov_imp (r tag : Rec) (bin b : Nat) (h : (binOf r bin b).ov tag = true) : r.ov tag = true := by
  rw [ov_iff] at h ⊢
  unfold binOf at h
  simp only at h
  have := Nat.le_add_right r.start (b * bin)
  refine ⟨h.1, ?_, ?_⟩ <;> omega

theorem binOf_chrom (r : Rec) (bin b : Nat) : (binOf r bin b).chrom = r.chrom := rfl

end BV
