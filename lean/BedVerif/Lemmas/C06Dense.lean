import BedVerif.Lemmas.C06Arith
import BedVerif.Props.C11
/-! C06: the dense binned counter computes the specification. -/
namespace BV

/-! ## pointwise behaviour of `addAt` / `addRange` -/

theorem addAt_getElem? (l : List Int) (s b : Nat) (k : Int) :
    (addAt l s k)[b]? = l[b]?.map (· + if b = s then k else 0) := by
  unfold addAt
  cases hs : l[s]? with
  | none =>
    simp only
    by_cases hbs : b = s
    · subst hbs; simp [hs]
    · simp [hbs]
  | some x =>
    simp only [List.getElem?_set]
    have hlt : s < l.length := by
      rcases Nat.lt_or_ge s l.length with h | h
      · exact h
      · rw [List.getElem?_eq_none h] at hs; cases hs
    by_cases hbs : b = s
    · subst hbs; rw [hs]; simp [hlt]
    · have : ¬ s = b := fun e => hbs e.symm
      simp [hbs, this]

theorem addAt_length (l : List Int) (s : Nat) (k : Int) : (addAt l s k).length = l.length := by
  unfold addAt
  split <;> simp

theorem foldl_addAt_range' (k : Int) (n : Nat) : ∀ (s : Nat) (l : List Int) (b : Nat),
    ((List.range' s n).foldl (fun c b => addAt c b k) l)[b]? =
      l[b]?.map (· + if s ≤ b ∧ b < s + n then k else 0) := by
  induction n with
  | zero =>
    intro s l b
    have : ¬ (s ≤ b ∧ b < s + 0) := by omega
    simp only [List.range'_zero, List.foldl_nil, this, if_false]
    cases l[b]? <;> simp
  | succ n ih =>
    intro s l b
    rw [List.range'_succ, List.foldl_cons, ih, addAt_getElem?, Option.map_map]
    congr 1
    funext x
    simp only [Function.comp]
    by_cases h1 : b = s
    · subst h1
      have h2 : ¬ (b + 1 ≤ b ∧ b < b + 1 + n) := by omega
      have h3 : b ≤ b ∧ b < b + (n + 1) := by omega
      simp [h2, h3]
    · by_cases h2 : s + 1 ≤ b ∧ b < s + 1 + n
      · have h3 : s ≤ b ∧ b < s + (n + 1) := by omega
        simp [h1, h2, h3]
      · have h3 : ¬ (s ≤ b ∧ b < s + (n + 1)) := by omega
        simp [h1, h2, h3]

theorem addRange_getElem? (l : List Int) (i j b : Nat) (k : Int) :
    (addRange l i j k)[b]? = l[b]?.map (· + if i ≤ b ∧ b ≤ j then k else 0) := by
  unfold addRange
  rw [foldl_addAt_range']
  by_cases h : i ≤ b ∧ b ≤ j
  · have h' : i ≤ b ∧ b < i + (j + 1 - i) := by omega
    simp [h, h']
  · have h' : ¬ (i ≤ b ∧ b < i + (j + 1 - i)) := by omega
    simp [h, h']

theorem foldl_addAt_length (k : Int) (bs : List Nat) : ∀ (l : List Int),
    (bs.foldl (fun c b => addAt c b k) l).length = l.length := by
  induction bs with
  | nil => intro l; rfl
  | cons b bs ih => intro l; rw [List.foldl_cons, ih, addAt_length]

theorem addRange_length (l : List Int) (i j : Nat) (k : Int) : (addRange l i j k).length = l.length :=
  foldl_addAt_length k _ l

theorem addRange_map_range (n : Nat) (f : Nat → Int) (i j : Nat) (k : Int) :
    addRange ((List.range n).map f) i j k =
      (List.range n).map (fun b => f b + if i ≤ b ∧ b ≤ j then k else 0) := by
  apply List.ext_getElem?
  intro b
  rw [addRange_getElem?, List.getElem?_map, List.getElem?_map]
  by_cases hb : b < n
  · simp [List.getElem?_range hb]
  · simp [List.getElem?_eq_none (l := List.range n) (by simpa using hb)]

/-! ## the table built from a function -/

def mkCov (regions : List Rec) (bin : Nat) (F : Nat → Nat → Int) : List (List Int) :=
  (List.range regions.length).map (fun i => (List.range (nbins (regions.getD i default) bin)).map (F i))

theorem mkCov_getElem? (regions : List Rec) (bin : Nat) (F : Nat → Nat → Int) (i : Nat) :
    (mkCov regions bin F)[i]? =
      if i < regions.length then some ((List.range (nbins (regions.getD i default) bin)).map (F i)) else none := by
  unfold mkCov
  rw [List.getElem?_map]
  by_cases hi : i < regions.length
  · simp [hi]
  · simp [hi]

theorem mkCov_length (regions : List Rec) (bin : Nat) (F : Nat → Nat → Int) :
    (mkCov regions bin F).length = regions.length := by simp [mkCov]

theorem mkCov_congr (regions : List Rec) (bin : Nat) (F F' : Nat → Nat → Int)
    (h : ∀ i, i < regions.length → ∀ b, b < nbins (regions.getD i default) bin → F i b = F' i b) :
    mkCov regions bin F = mkCov regions bin F' := by
  unfold mkCov
  apply List.map_congr_left
  intro i hi
  apply List.map_congr_left
  intro b hb
  exact h i (by simpa using hi) b (by simpa using hb)

theorem map_eq_range_map {β : Type} (l : List Rec) (f : Rec → β) :
    l.map f = (List.range l.length).map (fun i => f (l.getD i default)) := by
  apply List.ext_getElem?
  intro i
  rw [List.getElem?_map, List.getElem?_map]
  by_cases hi : i < l.length
  · simp [hi]
  · simp [List.getElem?_eq_none (l := List.range l.length) (by simpa using hi),
      List.getElem?_eq_none (l := l) (by simpa using hi)]

theorem specBinned_eq_mkCov (regions : List Rec) (bin : Nat) (ops : List BOp) :
    specBinned regions bin ops =
      mkCov regions bin (fun i b => ((bsinceReset ops).map (bcontrib (regions.getD i default) bin b)).sum) := by
  unfold specBinned mkCov
  rw [map_eq_range_map]

theorem init_eq_mkCov (regions : List Rec) (bin : Nat) :
    (BDense.init regions bin).cov = mkCov regions bin (fun _ _ => 0) := by
  unfold BDense.init mkCov
  simp only
  rw [map_eq_range_map]
  apply List.map_congr_left
  intro i _
  apply List.ext_getElem?
  intro b
  generalize nbins (regions.getD i default) bin = n
  rw [List.getElem?_replicate, List.getElem?_map]
  by_cases hb : b < n
  · simp [hb]
  · simp [hb]

/-! ## one hit, and a list of hits -/

def dHit (tag : Rec) (k : Int) (bin : Nat) (acc : Out BDense) (hit : Rec × Nat) : Out BDense :=
  match acc with
  | .panic => .panic
  | .ok a =>
    match binRange hit.1 tag bin, a.cov[hit.2]? with
    | .ok (i, j), some row =>
      if j < row.length then .ok { a with cov := a.cov.set hit.2 (addRange row i j k) } else .panic
    | _, _ => .panic

theorem step_insert_eq (ix : IndexSet) (bin : Nat) (s : BDense) (tag : Rec) (k : Int) :
    BDense.step ix bin (.ok s) (.insert tag k) =
      (ix.findFull tag).foldl (dHit tag k bin) (.ok { s with total := s.total + k }) := rfl

theorem dHit_mkCov (regions : List Rec) (bin : Nat) (hbin : 0 < bin) (tag : Rec) (k : Int)
    (F : Nat → Nat → Int) (t : Int) (g : Rec) (i0 : Nat)
    (hg : regions[i0]? = some g) (hr : g.start < g.stop) (hov : g.ov tag = true) :
    dHit tag k bin (.ok ⟨mkCov regions bin F, t⟩) (g, i0) =
      .ok ⟨mkCov regions bin (fun i b => F i b + if i = i0 ∧ (binOf g bin b).ov tag = true then k else 0), t⟩ := by
  have hi0 : i0 < regions.length := by
    rcases Nat.lt_or_ge i0 regions.length with h | h
    · exact h
    · rw [List.getElem?_eq_none h] at hg; cases hg
  have hgd : regions.getD i0 default = g := by
    rw [List.getD_eq_getElem?_getD, hg]; rfl
  unfold dHit
  simp only [binRange_ok g tag bin hbin hr hov, mkCov_getElem?, hi0, if_true, hgd, List.length_map,
    List.length_range, binHi_lt g tag bin hbin hr]
  congr 2
  apply List.ext_getElem?
  intro i
  simp only [List.getElem?_set, mkCov_getElem?]
  by_cases hi : i0 = i
  · subst hi
    simp only [if_true, mkCov_length, hi0, hgd, true_and]
    rw [addRange_map_range]
    congr 1
    apply List.map_congr_left
    intro b hb
    have hb' : b < nbins g bin := by simpa using hb
    have := bin_mem_iff g tag bin b hbin hr hov hb'
    by_cases hm : (binOf g bin b).ov tag = true
    · simp [hm, this.mpr hm]
    · have h2 : ¬ (binLo g tag bin ≤ b ∧ b ≤ binHi g tag bin) := fun h => hm (this.mp h)
      simp [hm, h2]
  · simp only [hi, if_false]
    by_cases hlt : i < regions.length
    · have : ¬ i = i0 := fun e => hi e.symm
      simp [hlt, this]
    · simp [hlt]

theorem foldl_dHit_mkCov (regions : List Rec) (bin : Nat) (hbin : 0 < bin) (tag : Rec) (k : Int) (t : Int)
    (hs : List (Rec × Nat)) :
    ∀ (F : Nat → Nat → Int),
    (∀ h ∈ hs, regions[h.2]? = some h.1 ∧ h.1.start < h.1.stop ∧ h.1.ov tag = true) →
    hs.foldl (dHit tag k bin) (.ok ⟨mkCov regions bin F, t⟩) =
      .ok ⟨mkCov regions bin (fun i b => F i b +
        (hs.map (fun h => if i = h.2 ∧ (binOf h.1 bin b).ov tag = true then k else 0)).sum), t⟩ := by
  induction hs with
  | nil => intro F _; simp
  | cons h hs ih =>
    intro F hh
    obtain ⟨h1, h2, h3⟩ := hh h List.mem_cons_self
    rw [List.foldl_cons, dHit_mkCov regions bin hbin tag k F t h.1 h.2 h1 h2 h3,
      ih _ (fun x hx => hh x (List.mem_cons_of_mem _ hx))]
    congr 2
    apply mkCov_congr
    intro i _ b _
    simp only [List.map_cons, List.sum_cons]
    omega

/-! ## sums -/

theorem perm_sum_int {l₁ l₂ : List Int} (h : l₁.Perm l₂) : l₁.sum = l₂.sum := by
  induction h with
  | nil => rfl
  | cons x _ ih => simp [ih]
  | swap x y l => simp only [List.sum_cons]; omega
  | trans _ _ ih1 ih2 => exact ih1.trans ih2

theorem sum_filter_of_zero {β : Type} (l : List β) (p : β → Bool) (f : β → Int)
    (h : ∀ x ∈ l, p x = false → f x = 0) : ((l.filter p).map f).sum = (l.map f).sum := by
  induction l with
  | nil => rfl
  | cons x l ih =>
    have ih' := ih (fun y hy => h y (List.mem_cons_of_mem _ hy))
    rw [List.filter_cons]
    cases hp : p x with
    | true => simp [ih']
    | false =>
      have := h x List.mem_cons_self hp
      simp [ih', this]

theorem sum_range_single (n i : Nat) (P : Nat → Prop) [DecidablePred P] (k : Int) :
    ((List.range n).map (fun j => if i = j ∧ P j then k else 0)).sum = if i < n ∧ P i then k else 0 := by
  induction n with
  | zero => simp
  | succ n ih =>
    rw [List.range_succ, List.map_append, List.sum_append, ih]
    simp only [List.map_cons, List.map_nil, List.sum_cons, List.sum_nil]
    by_cases h1 : i = n
    · subst h1
      by_cases h2 : P i
      · simp [h2]
      · simp [h2]
    · by_cases h2 : i < n
      · have : i < n + 1 := by omega
        simp [h1, h2, this]
      · have : ¬ i < n + 1 := by omega
        simp [h1, h2, this]

/-- the summed contribution of the hits of one insert to bin `(i, b)` -/
theorem hits_sum (regions : List Rec) (bin : Nat) (tag : Rec) (k : Int) (i b : Nat) (hi : i < regions.length) :
    (((IndexSet.fromIter regions).findFull tag).map
        (fun h => if i = h.2 ∧ (binOf h.1 bin b).ov tag = true then k else 0)).sum =
      if (binOf (regions.getD i default) bin b).ov tag = true then k else 0 := by
  rw [perm_sum_int ((findFull_perm regions tag).map _)]
  rw [sum_filter_of_zero]
  · rw [enumFrom_eq_range, List.map_map]
    simp only [Function.comp_def, Nat.add_zero]
    rw [sum_range_single regions.length i (fun j => (binOf (regions.getD j default) bin b).ov tag = true) k]
    simp [hi]
  · intro x _ hx
    have : ¬ (binOf x.1 bin b).ov tag = true := by
      intro h
      rw [binOf_ov_imp x.1 tag bin b h] at hx
      cases hx
    simp [this]

/-! ## the run -/

theorem bsinceReset_snoc_reset (pre : List BOp) : bsinceReset (pre ++ [.reset]) = [] := by
  simp [bsinceReset, List.foldl_append]

theorem bsinceReset_snoc_insert (pre : List BOp) (t : Rec) (k : Int) :
    bsinceReset (pre ++ [.insert t k]) = bsinceReset pre ++ [.insert t k] := by
  simp [bsinceReset, List.foldl_append]

theorem dense_step_spec (regions : List Rec) (bin : Nat) (hbin : 0 < bin)
    (hr : ∀ r ∈ regions, r.start < r.stop) (pre : List BOp) (o : BOp) :
    BDense.step (IndexSet.fromIter regions) bin (.ok ⟨specBinned regions bin pre, specBTotal pre⟩) o =
      .ok ⟨specBinned regions bin (pre ++ [o]), specBTotal (pre ++ [o])⟩ := by
  cases o with
  | reset =>
    simp only [BDense.step, specBinned, specBTotal, bsinceReset_snoc_reset, List.map_nil, List.sum_nil,
      List.map_map]
    simp [Function.comp_def]
  | insert tag k =>
    rw [step_insert_eq]
    simp only
    rw [specBinned_eq_mkCov, foldl_dHit_mkCov regions bin hbin]
    · congr 2
      · rw [specBinned_eq_mkCov]
        apply mkCov_congr
        intro i hi b _
        rw [hits_sum regions bin tag k i b hi, bsinceReset_snoc_insert, List.map_append, List.sum_append]
        simp [bcontrib]
      · simp [specBTotal, bsinceReset_snoc_insert, List.sum_append, bmult]
    · intro h hh
      have h1 := C11_findFull regions tag h hh
      have h2 := (findFull_perm regions tag).mem_iff.mp hh
      refine ⟨h1, hr _ (List.mem_of_getElem? h1), (List.mem_filter.mp h2).2⟩

theorem dense_run_gen (regions : List Rec) (bin : Nat) (hbin : 0 < bin)
    (hr : ∀ r ∈ regions, r.start < r.stop) (ops : List BOp) : ∀ (pre : List BOp),
    ops.foldl (BDense.step (IndexSet.fromIter regions) bin)
        (.ok ⟨specBinned regions bin pre, specBTotal pre⟩) =
      .ok ⟨specBinned regions bin (pre ++ ops), specBTotal (pre ++ ops)⟩ := by
  induction ops with
  | nil => intro pre; simp
  | cons o ops ih =>
    intro pre
    rw [List.foldl_cons, dense_step_spec regions bin hbin hr, ih]
    simp

theorem init_eq_spec (regions : List Rec) (bin : Nat) :
    BDense.init regions bin = ⟨specBinned regions bin [], specBTotal []⟩ := by
  have h := init_eq_mkCov regions bin
  have h2 : specBinned regions bin [] = mkCov regions bin (fun _ _ => 0) := by
    rw [specBinned_eq_mkCov]
    apply mkCov_congr
    intro i _ b _
    simp [bsinceReset]
  rw [h2, ← h]
  rfl

theorem dense_run (regions : List Rec) (bin : Nat) (ops : List BOp) (hbin : 0 < bin)
    (hr : ∀ r ∈ regions, r.start < r.stop) :
    BDense.run regions bin ops = .ok ⟨specBinned regions bin ops, specBTotal ops⟩ := by
  unfold BDense.run
  rw [init_eq_spec, dense_run_gen regions bin hbin hr]
  simp

end BV
