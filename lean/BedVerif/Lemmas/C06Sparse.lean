import BedVerif.Lemmas.C06Dense
import BedVerif.Lemmas.C06Accu
/-! C06: the sparse binned counter simulates the dense one (`asVec m = cov.flatten`). -/
namespace BV

/-! ## the `BTreeMap` model: sorted unique keys, pointwise lookup -/

def KSorted (m : List (Nat × Int)) : Prop := (m.map (·.1)).Pairwise (· < ·)

def mget : List (Nat × Int) → Nat → Int
  | [], _ => 0
  | (a, x) :: m, j => if j = a then x else mget m j

theorem mget_of_not_mem (m : List (Nat × Int)) (j : Nat) (h : j ∉ m.map (·.1)) : mget m j = 0 := by
  induction m with
  | nil => rfl
  | cons p m ih =>
    obtain ⟨a, x⟩ := p
    simp only [List.map_cons, List.mem_cons, not_or] at h
    simp [mget, h.1, ih h.2]

theorem mem_mapAdd_key (m : List (Nat × Int)) (i : Nat) (k : Int) :
    ∀ c ∈ (mapAdd m i k).map (·.1), c = i ∨ c ∈ m.map (·.1) := by
  induction m with
  | nil => intro c hc; simp [mapAdd] at hc; exact Or.inl hc
  | cons p m ih =>
    obtain ⟨a, x⟩ := p
    intro c hc
    unfold mapAdd at hc
    split at hc
    · simp only [List.map_cons, List.mem_cons] at hc ⊢
      rcases hc with h | h | h
      · exact Or.inl h
      · exact Or.inr (Or.inl h)
      · exact Or.inr (Or.inr h)
    · split at hc
      · simp only [List.map_cons, List.mem_cons] at hc ⊢
        exact Or.inr hc
      · simp only [List.map_cons, List.mem_cons] at hc ⊢
        rcases hc with h | h
        · exact Or.inr (Or.inl h)
        · rcases ih c h with h' | h'
          · exact Or.inl h'
          · exact Or.inr (Or.inr h')

theorem mapAdd_sorted (m : List (Nat × Int)) (i : Nat) (k : Int) (h : KSorted m) : KSorted (mapAdd m i k) := by
  induction m with
  | nil => simp [mapAdd, KSorted]
  | cons p m ih =>
    obtain ⟨a, x⟩ := p
    unfold KSorted at h ih ⊢
    simp only [List.map_cons, List.pairwise_cons] at h
    unfold mapAdd
    split
    · rename_i hlt
      simp only [List.map_cons, List.pairwise_cons, List.mem_cons]
      refine ⟨?_, h.1, h.2⟩
      intro c hc
      rcases hc with rfl | hc
      · exact hlt
      · exact Nat.lt_trans hlt (h.1 c hc)
    · split
      · simp only [List.map_cons, List.pairwise_cons]
        exact h
      · rename_i h1 h2
        simp only [List.map_cons, List.pairwise_cons]
        refine ⟨?_, ih h.2⟩
        intro c hc
        rcases mem_mapAdd_key m i k c hc with rfl | hc'
        · omega
        · exact h.1 c hc'

theorem mget_mapAdd (m : List (Nat × Int)) (i j : Nat) (k : Int) (h : KSorted m) :
    mget (mapAdd m i k) j = mget m j + if j = i then k else 0 := by
  induction m with
  | nil => simp [mapAdd, mget]
  | cons p m ih =>
    obtain ⟨a, x⟩ := p
    unfold KSorted at h ih
    simp only [List.map_cons, List.pairwise_cons] at h
    unfold mapAdd
    split
    · rename_i hlt
      by_cases hj : j = i
      · subst hj
        have : j ∉ ((a, x) :: m).map (·.1) := by
          simp only [List.map_cons, List.mem_cons, not_or]
          refine ⟨by omega, fun hm => ?_⟩
          have := h.1 j hm
          omega
        rw [mget_of_not_mem _ _ this]
        simp [mget]
      · simp [mget, hj]
    · split
      · rename_i h1 h2
        subst h2
        by_cases hj : j = i
        · simp [mget, hj]
        · simp [mget, hj]
      · rename_i h1 h2
        by_cases hj : j = a
        · subst hj
          have : ¬ j = i := by omega
          simp [mget, this]
        · simp only [mget, hj, if_false]
          exact ih h.2

theorem foldl_set_getElem? (m : List (Nat × Int)) (j : Nat) (h : KSorted m) : ∀ (v : List Int),
    (m.foldl (fun v (ix : Nat × Int) => v.set ix.1 ix.2) v)[j]? =
      v[j]?.map (fun y => if j ∈ m.map (·.1) then mget m j else y) := by
  induction m with
  | nil => intro v; simp
  | cons p m ih =>
    obtain ⟨a, x⟩ := p
    unfold KSorted at h ih
    simp only [List.map_cons, List.pairwise_cons] at h
    intro v
    rw [List.foldl_cons, ih h.2, List.getElem?_set]
    by_cases hj : a = j
    · subst hj
      have hn : a ∉ m.map (·.1) := fun hm => Nat.lt_irrefl _ (h.1 a hm)
      by_cases hlt : a < v.length
      · simp [hn, hlt, mget]
      · simp [hlt]
    · have hj' : ¬ j = a := fun e => hj e.symm
      simp only [hj, if_false, List.map_cons, List.mem_cons, hj', false_or, mget]

theorem asVec_getElem? (n : Nat) (m : List (Nat × Int)) (j : Nat) (h : KSorted m) :
    (asVec n m)[j]? = if j < n then some (mget m j) else none := by
  unfold asVec
  rw [foldl_set_getElem? m j h, List.getElem?_replicate]
  by_cases hj : j < n
  · by_cases hm : j ∈ m.map (·.1)
    · simp [hj, hm]
    · simp only [hj, if_true, Option.map_some, hm, if_false, mget_of_not_mem m j hm]
  · simp [hj]

theorem foldl_mapAdd_range' (off : Nat) (k : Int) (n : Nat) : ∀ (s : Nat) (m : List (Nat × Int)), KSorted m →
    KSorted ((List.range' s n).foldl (fun m b => mapAdd m (off + b) k) m) ∧
    ∀ j, mget ((List.range' s n).foldl (fun m b => mapAdd m (off + b) k) m) j =
      mget m j + if off + s ≤ j ∧ j < off + s + n then k else 0 := by
  induction n with
  | zero =>
    intro s m hm
    refine ⟨hm, fun j => ?_⟩
    have : ¬ (off + s ≤ j ∧ j < off + s + 0) := by omega
    rw [if_neg this]; simp
  | succ n ih =>
    intro s m hm
    rw [List.range'_succ, List.foldl_cons]
    obtain ⟨h1, h2⟩ := ih (s + 1) _ (mapAdd_sorted m (off + s) k hm)
    refine ⟨h1, fun j => ?_⟩
    rw [h2 j, mget_mapAdd m (off + s) j k hm]
    by_cases e : j = off + s
    · have a1 : ¬ (off + (s + 1) ≤ j ∧ j < off + (s + 1) + n) := by omega
      have a2 : off + s ≤ j ∧ j < off + s + (n + 1) := by omega
      rw [if_pos e, if_neg a1, if_pos a2]; omega
    · by_cases a1 : off + (s + 1) ≤ j ∧ j < off + (s + 1) + n
      · have a2 : off + s ≤ j ∧ j < off + s + (n + 1) := by omega
        rw [if_neg e, if_pos a1, if_pos a2]; omega
      · have a2 : ¬ (off + s ≤ j ∧ j < off + s + (n + 1)) := by omega
        rw [if_neg e, if_neg a1, if_neg a2]; omega

/-- the sparse update of one hit, seen through `asVec`, is `addRange` at the shifted positions -/
theorem asVec_foldl_mapAdd (T off lo hi : Nat) (k : Int) (m : List (Nat × Int)) (hm : KSorted m) :
    KSorted ((List.range' lo (hi + 1 - lo)).foldl (fun m b => mapAdd m (off + b) k) m) ∧
    asVec T ((List.range' lo (hi + 1 - lo)).foldl (fun m b => mapAdd m (off + b) k) m) =
      addRange (asVec T m) (off + lo) (off + hi) k := by
  obtain ⟨h1, h2⟩ := foldl_mapAdd_range' off k (hi + 1 - lo) lo m hm
  refine ⟨h1, ?_⟩
  apply List.ext_getElem?
  intro j
  rw [asVec_getElem? _ _ _ h1, addRange_getElem?, asVec_getElem? _ _ _ hm, h2 j]
  by_cases hj : j < T
  · by_cases a1 : off + lo ≤ j ∧ j ≤ off + hi
    · have a2 : off + lo ≤ j ∧ j < off + lo + (hi + 1 - lo) := by omega
      simp only [hj, a1, a2, if_true, Option.map_some]
    · have a2 : ¬ (off + lo ≤ j ∧ j < off + lo + (hi + 1 - lo)) := by omega
      simp only [hj, a1, a2, if_true, if_false, Option.map_some]
  · simp [hj]

/-! ## `addRange` against `flatten` -/

theorem addRange_append_left (row B : List Int) (lo hi : Nat) (k : Int) (h : hi < row.length) :
    addRange (row ++ B) lo hi k = addRange row lo hi k ++ B := by
  apply List.ext_getElem?
  intro j
  rw [addRange_getElem?, List.getElem?_append, List.getElem?_append, addRange_length, addRange_getElem?]
  by_cases hj : j < row.length
  · simp [hj]
  · have : ¬ (lo ≤ j ∧ j ≤ hi) := by omega
    simp only [hj, if_false, this]
    cases B[j - row.length]? <;> simp

theorem addRange_append_right (c X : List Int) (a b : Nat) (k : Int) :
    addRange (c ++ X) (c.length + a) (c.length + b) k = c ++ addRange X a b k := by
  apply List.ext_getElem?
  intro j
  rw [addRange_getElem?, List.getElem?_append, List.getElem?_append, addRange_getElem?]
  by_cases hj : j < c.length
  · have : ¬ (c.length + a ≤ j ∧ j ≤ c.length + b) := by omega
    simp only [hj, if_true, this, if_false]
    cases c[j]? <;> simp
  · simp only [hj, if_false]
    by_cases a1 : a ≤ j - c.length ∧ j - c.length ≤ b
    · have a2 : c.length + a ≤ j ∧ j ≤ c.length + b := by omega
      simp only [a1, a2]
    · have a2 : ¬ (c.length + a ≤ j ∧ j ≤ c.length + b) := by omega
      simp only [a1, a2, if_false]

theorem flatten_set_addRange (cov : List (List Int)) (lo hi : Nat) (k : Int) : ∀ (i0 : Nat) (row : List Int),
    cov[i0]? = some row → hi < row.length →
    (cov.set i0 (addRange row lo hi k)).flatten =
      addRange cov.flatten ((cov.take i0).flatten.length + lo) ((cov.take i0).flatten.length + hi) k := by
  induction cov with
  | nil => intro i0 row h; simp at h
  | cons c cs ih =>
    intro i0 row h hh
    cases i0 with
    | zero =>
      simp only [List.getElem?_cons_zero, Option.some.injEq] at h
      subst h
      simp only [List.set_cons_zero, List.flatten_cons, List.take_zero, List.flatten_nil, List.length_nil,
        Nat.zero_add]
      rw [addRange_append_left _ _ _ _ _ hh]
    | succ i =>
      simp only [List.getElem?_cons_succ] at h
      simp only [List.set_cons_succ, List.flatten_cons, List.take_succ_cons, List.length_append]
      rw [ih i row h hh, Nat.add_assoc, Nat.add_assoc, addRange_append_right]

/-! ## shape of the dense table and the prefix sums -/

def Shape (regions : List Rec) (bin : Nat) (cov : List (List Int)) : Prop :=
  cov.map List.length = regions.map (fun r => nbins r bin)

theorem psums_shape (bin : Nat) (regions : List Rec) : ∀ (cov : List (List Int)) (n i : Nat),
    Shape regions bin cov → i < regions.length →
    (psums bin regions n)[i]? = some (n + (cov.take i).flatten.length) := by
  induction regions with
  | nil => intro cov n i _ hi; simp at hi
  | cons r rs ih =>
    intro cov n i hs hi
    cases cov with
    | nil => simp [Shape] at hs
    | cons c cs =>
      simp only [Shape, List.map_cons, List.cons.injEq] at hs
      cases i with
      | zero => simp [psums]
      | succ i =>
        simp only [psums, List.getElem?_cons_succ, List.take_succ_cons, List.flatten_cons, List.length_append]
        rw [ih cs (n + nbins r bin) i hs.2 (by simpa using hi), hs.1, Nat.add_assoc]

theorem shape_set (regions : List Rec) (bin : Nat) (cov : List (List Int)) (i0 : Nat) (row row' : List Int)
    (hs : Shape regions bin cov) (h : cov[i0]? = some row) (hl : row'.length = row.length) :
    Shape regions bin (cov.set i0 row') := by
  unfold Shape at hs ⊢
  rw [← hs]
  apply List.ext_getElem?
  intro j
  rw [List.getElem?_map, List.getElem?_set, List.getElem?_map]
  by_cases hj : i0 = j
  · subst hj
    have hlt : i0 < cov.length := by
      rcases Nat.lt_or_ge i0 cov.length with h' | h'
      · exact h'
      · rw [List.getElem?_eq_none h'] at h; cases h
    have e : cov[i0] = row := by
      rw [List.getElem?_eq_getElem hlt] at h; exact Option.some.inj h
    simp [hlt, e, hl]
  · simp [hj]

theorem shape_zero_flatten (bin : Nat) (regions : List Rec) : ∀ (cov : List (List Int)),
    Shape regions bin cov →
    (cov.map (fun v => v.map (fun _ => (0 : Int)))).flatten = List.replicate (allBins regions bin).length 0 := by
  induction regions with
  | nil =>
    intro cov hs
    cases cov with
    | nil => simp [allBins_nil]
    | cons c cs => simp [Shape] at hs
  | cons r rs ih =>
    intro cov hs
    cases cov with
    | nil => simp [Shape] at hs
    | cons c cs =>
      simp only [Shape, List.map_cons, List.cons.injEq] at hs
      rw [List.map_cons, List.flatten_cons, ih cs hs.2, allBins_cons, List.length_append, binsOf_length,
        ← List.replicate_append_replicate, ← hs.1]
      congr 1
      simp [List.eq_replicate_iff]

theorem shape_zero (regions : List Rec) (bin : Nat) (cov : List (List Int)) (hs : Shape regions bin cov) :
    Shape regions bin (cov.map (fun v => v.map (fun _ => (0 : Int)))) := by
  unfold Shape at hs ⊢
  rw [← hs, List.map_map]
  apply List.map_congr_left
  intro v _
  simp

/-! ## the simulation -/

def sHit (regions : List Rec) (tag : Rec) (k : Int) (bin : Nat) (acc : Out BSparse) (hit : Rec × Nat) : Out BSparse :=
  match acc with
  | .panic => .panic
  | .ok a =>
    match binRange hit.1 tag bin, (accu regions bin).1[hit.2]? with
    | .ok (i, j), some n =>
      .ok { a with m := (List.range' i (j + 1 - i)).foldl (fun m b => mapAdd m (n + b) k) a.m }
    | _, _ => .panic

theorem sstep_insert_eq (ix : IndexSet) (regions : List Rec) (bin : Nat) (s : BSparse) (tag : Rec) (k : Int) :
    BSparse.step ix regions bin (.ok s) (.insert tag k) =
      (ix.findFull tag).foldl (sHit regions tag k bin) (.ok { s with total := s.total + k }) := rfl

structure Sim (regions : List Rec) (bin : Nat) (d : BDense) (s : BSparse) : Prop where
  shape : Shape regions bin d.cov
  sorted : KSorted s.m
  vec : asVec (accu regions bin).2 s.m = d.cov.flatten
  total : s.total = d.total

theorem foldl_dHit_panic (tag : Rec) (k : Int) (bin : Nat) (hs : List (Rec × Nat)) :
    hs.foldl (dHit tag k bin) .panic = .panic := by
  induction hs with
  | nil => rfl
  | cons h hs ih => rw [List.foldl_cons]; exact ih

theorem foldl_dstep_panic (ix : IndexSet) (bin : Nat) (ops : List BOp) :
    ops.foldl (BDense.step ix bin) .panic = .panic := by
  induction ops with
  | nil => rfl
  | cons o ops ih =>
    rw [List.foldl_cons]
    cases o <;> exact ih

theorem sim_hit (regions : List Rec) (bin : Nat) (tag : Rec) (k : Int) (d d' : BDense) (s : BSparse)
    (h : Rec × Nat) (hsim : Sim regions bin d s) (hd : dHit tag k bin (.ok d) h = .ok d') :
    ∃ s', sHit regions tag k bin (.ok s) h = .ok s' ∧ Sim regions bin d' s' := by
  unfold dHit at hd
  unfold sHit
  cases hbr : binRange h.1 tag bin with
  | panic => simp [hbr] at hd
  | ok ij =>
    obtain ⟨lo, hi⟩ := ij
    cases hrow : d.cov[h.2]? with
    | none => simp [hbr, hrow] at hd
    | some row =>
      simp only [hbr, hrow] at hd
      by_cases hlt : hi < row.length
      · simp only [hlt, if_true, Out.ok.injEq] at hd
        subst hd
        have hi2 : h.2 < regions.length := by
          have h1 : h.2 < d.cov.length := by
            rcases Nat.lt_or_ge h.2 d.cov.length with h' | h'
            · exact h'
            · rw [List.getElem?_eq_none h'] at hrow; cases hrow
          have h2 : d.cov.length = regions.length := by
            have := congrArg List.length hsim.shape
            simpa using this
          omega
        have hps := psums_shape bin regions d.cov 0 h.2 hsim.shape hi2
        rw [accu_eq]
        simp only [hps, Nat.zero_add]
        obtain ⟨a1, a2⟩ := asVec_foldl_mapAdd (allBins regions bin).length
          (d.cov.take h.2).flatten.length lo hi k s.m hsim.sorted
        refine ⟨_, rfl, ?_, a1, ?_, hsim.total⟩
        · exact shape_set regions bin d.cov h.2 row _ hsim.shape hrow (addRange_length _ _ _ _)
        · have hv := hsim.vec
          rw [accu_eq] at hv ⊢
          simp only at hv ⊢
          rw [a2, hv, flatten_set_addRange d.cov lo hi k h.2 row hrow hlt]
      · simp [hlt] at hd

theorem sim_fold (regions : List Rec) (bin : Nat) (tag : Rec) (k : Int) (hs : List (Rec × Nat)) :
    ∀ (d d' : BDense) (s : BSparse), Sim regions bin d s →
    hs.foldl (dHit tag k bin) (.ok d) = .ok d' →
    ∃ s', hs.foldl (sHit regions tag k bin) (.ok s) = .ok s' ∧ Sim regions bin d' s' := by
  induction hs with
  | nil =>
    intro d d' s hsim hd
    simp only [List.foldl_nil, Out.ok.injEq] at hd
    subst hd
    exact ⟨s, rfl, hsim⟩
  | cons h hs ih =>
    intro d d' s hsim hd
    rw [List.foldl_cons] at hd
    cases h1 : dHit tag k bin (.ok d) h with
    | panic => rw [h1, foldl_dHit_panic] at hd; cases hd
    | ok d1 =>
      rw [h1] at hd
      obtain ⟨s1, e1, sim1⟩ := sim_hit regions bin tag k d d1 s h hsim h1
      obtain ⟨s', e2, sim2⟩ := ih d1 d' s1 sim1 hd
      exact ⟨s', by rw [List.foldl_cons, e1, e2], sim2⟩

theorem sim_step (regions : List Rec) (bin : Nat) (ix : IndexSet) (d d' : BDense) (s : BSparse) (o : BOp)
    (hsim : Sim regions bin d s) (hd : BDense.step ix bin (.ok d) o = .ok d') :
    ∃ s', BSparse.step ix regions bin (.ok s) o = .ok s' ∧ Sim regions bin d' s' := by
  cases o with
  | reset =>
    simp only [BDense.step, Out.ok.injEq] at hd
    subst hd
    refine ⟨⟨[], 0⟩, rfl, shape_zero regions bin d.cov hsim.shape, by simp [KSorted], ?_, rfl⟩
    rw [accu_eq]
    simp only [asVec, List.foldl_nil]
    rw [shape_zero_flatten bin regions d.cov hsim.shape]
  | insert tag k =>
    rw [step_insert_eq] at hd
    rw [sstep_insert_eq]
    apply sim_fold regions bin tag k _ _ d' _ _ hd
    exact ⟨hsim.shape, hsim.sorted, hsim.vec, by simp [hsim.total]⟩

theorem sim_run (regions : List Rec) (bin : Nat) (ix : IndexSet) (ops : List BOp) :
    ∀ (d d' : BDense) (s : BSparse), Sim regions bin d s →
    ops.foldl (BDense.step ix bin) (.ok d) = .ok d' →
    ∃ s', ops.foldl (BSparse.step ix regions bin) (.ok s) = .ok s' ∧ Sim regions bin d' s' := by
  induction ops with
  | nil =>
    intro d d' s hsim hd
    simp only [List.foldl_nil, Out.ok.injEq] at hd
    subst hd
    exact ⟨s, rfl, hsim⟩
  | cons o ops ih =>
    intro d d' s hsim hd
    rw [List.foldl_cons] at hd
    cases h1 : BDense.step ix bin (.ok d) o with
    | panic => rw [h1, foldl_dstep_panic] at hd; cases hd
    | ok d1 =>
      rw [h1] at hd
      obtain ⟨s1, e1, sim1⟩ := sim_step regions bin ix d d1 s o hsim h1
      obtain ⟨s', e2, sim2⟩ := ih d1 d' s1 sim1 hd
      exact ⟨s', by rw [List.foldl_cons, e1, e2], sim2⟩

theorem sim_init (regions : List Rec) (bin : Nat) : Sim regions bin (BDense.init regions bin) ⟨[], 0⟩ := by
  have hs : Shape regions bin (BDense.init regions bin).cov := by
    simp [Shape, BDense.init, Function.comp_def]
  refine ⟨hs, by simp [KSorted], ?_, rfl⟩
  have h0 : (BDense.init regions bin).cov =
      (BDense.init regions bin).cov.map (fun v => v.map (fun _ => (0 : Int))) := by
    simp [BDense.init, Function.comp_def]
  rw [h0, shape_zero_flatten bin regions _ hs, accu_eq]
  simp [asVec]

theorem sparse_run (regions : List Rec) (bin : Nat) (ops : List BOp) (hbin : 0 < bin)
    (hr : ∀ r ∈ regions, r.start < r.stop) :
    ∃ s, BSparse.run regions bin ops = .ok s ∧
      asVec (accu regions bin).2 s.m = (specBinned regions bin ops).flatten ∧ s.total = specBTotal ops := by
  have hd := dense_run regions bin ops hbin hr
  unfold BDense.run at hd
  obtain ⟨s', e, sim⟩ := sim_run regions bin _ ops _ _ ⟨[], 0⟩ (sim_init regions bin) hd
  exact ⟨s', e, sim.vec, sim.total⟩

end BV
