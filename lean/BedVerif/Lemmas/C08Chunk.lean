import BedVerif.Spec.Rec
import BedVerif.Lemmas.Sort
/-! C08, part 1: `chunkBy` on breakpoints, per-position sums, order independence. -/
namespace BV.C08

abbrev Pt := Nat × Int

/-- the `chunks` of `sweepGroup` -/
def chunkSums (pts : List Pt) : List Pt :=
  (chunkBy (fun (x : Nat × Int) => x.1) pts).map (fun kg => (kg.1, (kg.2.map (·.2)).sum))

/-- sum of the values of the points whose position satisfies `P` -/
def fsum (P : Nat → Bool) (l : List Pt) : Int := ((l.filter (fun x => P x.1)).map (·.2)).sum

theorem fsum_nil (P : Nat → Bool) : fsum P [] = 0 := rfl
theorem fsum_cons (P : Nat → Bool) (x : Pt) (l : List Pt) :
    fsum P (x :: l) = (if P x.1 then x.2 else 0) + fsum P l := by
  unfold fsum
  by_cases h : P x.1 = true <;> simp [h]
theorem fsum_append (P : Nat → Bool) (l1 l2 : List Pt) : fsum P (l1 ++ l2) = fsum P l1 + fsum P l2 := by
  unfold fsum
  simp [List.filter_append, List.sum_append]

theorem sum_perm {l1 l2 : List Int} (h : l1.Perm l2) : l1.sum = l2.sum := by
  induction h with
  | nil => rfl
  | cons x _ ih => simp [ih]
  | swap x y l => simp only [List.sum_cons]; omega
  | trans _ _ ih1 ih2 => exact ih1.trans ih2

theorem fsum_perm (P : Nat → Bool) {l1 l2 : List Pt} (h : l1.Perm l2) : fsum P l1 = fsum P l2 :=
  sum_perm ((h.filter _).map _)

theorem chunkSums_nil : chunkSums [] = [] := rfl

theorem chunkSums_cons (x : Pt) (xs : List Pt) :
    chunkSums (x :: xs) = match chunkSums xs with
      | (k, s) :: rest => if x.1 = k then (k, x.2 + s) :: rest else (x.1, x.2) :: (k, s) :: rest
      | [] => [(x.1, x.2)] := by
  unfold chunkSums
  simp only [chunkBy]
  cases h : chunkBy (fun (x : Nat × Int) => x.1) xs with
  | nil => simp
  | cons kg rest =>
    obtain ⟨k, g⟩ := kg
    simp only [List.map_cons]
    split <;> simp

theorem chunkSums_fsum (P : Nat → Bool) (l : List Pt) : fsum P (chunkSums l) = fsum P l := by
  induction l with
  | nil => rfl
  | cons x xs ih =>
    rw [chunkSums_cons, fsum_cons, ← ih]
    cases h : chunkSums xs with
    | nil => simp [fsum_cons, fsum_nil]
    | cons ks rest =>
      obtain ⟨k, s⟩ := ks
      simp only
      split
      · rename_i hk
        subst hk
        simp only [fsum_cons]
        split <;> omega
      · simp only [fsum_cons]

/-- positions of the chunks are positions of points -/
theorem chunkSums_key_mem (l : List Pt) : ∀ ks ∈ chunkSums l, ∃ x ∈ l, x.1 = ks.1 := by
  induction l with
  | nil => intro ks h; simp [chunkSums_nil] at h
  | cons x xs ih =>
    intro ks hks
    rw [chunkSums_cons] at hks
    cases h : chunkSums xs with
    | nil =>
      rw [h] at hks
      simp at hks
      exact ⟨x, by simp, by simp [hks]⟩
    | cons ks0 rest =>
      obtain ⟨k, s⟩ := ks0
      rw [h] at hks ih
      simp only at hks
      split at hks
      · rename_i hk
        rcases List.mem_cons.mp hks with rfl | hr
        · exact ⟨x, by simp, hk⟩
        · obtain ⟨y, hy, e⟩ := ih ks (List.mem_cons_of_mem _ hr)
          exact ⟨y, List.mem_cons_of_mem _ hy, e⟩
      · rcases List.mem_cons.mp hks with rfl | hr
        · exact ⟨x, by simp, rfl⟩
        · obtain ⟨y, hy, e⟩ := ih ks hr
          exact ⟨y, List.mem_cons_of_mem _ hy, e⟩

theorem mem_chunkSums_key (l : List Pt) : ∀ x ∈ l, ∃ s, (x.1, s) ∈ chunkSums l := by
  induction l with
  | nil => intro x h; simp at h
  | cons y ys ih =>
    intro x hx
    rw [chunkSums_cons]
    cases h : chunkSums ys with
    | nil =>
      rcases List.mem_cons.mp hx with rfl | hx
      · exact ⟨x.2, by simp⟩
      · obtain ⟨s, hs⟩ := ih x hx
        rw [h] at hs; simp at hs
    | cons ks0 rest =>
      obtain ⟨k, s⟩ := ks0
      rw [h] at ih
      simp only
      split
      · rename_i hk
        rcases List.mem_cons.mp hx with rfl | hx
        · exact ⟨x.2 + s, by simp [hk]⟩
        · obtain ⟨s', hs'⟩ := ih x hx
          rcases List.mem_cons.mp hs' with e | hr
          · exact ⟨y.2 + s, by simp [(Prod.mk.inj e).1]⟩
          · exact ⟨s', List.mem_cons_of_mem _ hr⟩
      · rcases List.mem_cons.mp hx with rfl | hx
        · exact ⟨x.2, by simp⟩
        · obtain ⟨s', hs'⟩ := ih x hx
          exact ⟨s', List.mem_cons_of_mem _ hs'⟩

/-- on position-sorted points, the chunk positions are strictly increasing -/
theorem chunkSums_strict (l : List Pt) (hs : l.Pairwise (fun a b => a.1 ≤ b.1)) :
    (chunkSums l).Pairwise (fun a b => a.1 < b.1) := by
  induction l with
  | nil => simp [chunkSums_nil]
  | cons x xs ih =>
    have hp := List.pairwise_cons.mp hs
    have ih := ih hp.2
    have hk := chunkSums_key_mem xs
    rw [chunkSums_cons]
    cases h : chunkSums xs with
    | nil => simp
    | cons ks0 rest =>
      obtain ⟨k, s⟩ := ks0
      rw [h] at ih hk
      have ihp := List.pairwise_cons.mp ih
      simp only
      split
      · exact List.pairwise_cons.mpr ⟨fun b hb => ihp.1 b hb, ihp.2⟩
      · rename_i hne
        obtain ⟨y, hy, e⟩ := hk (k, s) (by simp)
        have h1 := hp.1 y hy
        simp only at e
        have hlt : x.1 < k := by omega
        refine List.pairwise_cons.mpr ⟨?_, ih⟩
        intro b hb
        rcases List.mem_cons.mp hb with rfl | hb
        · exact hlt
        · have := ihp.1 b hb
          simp only at this ⊢
          omega

theorem fsum_eq_of_strict (cs : List Pt) (hs : cs.Pairwise (fun a b => a.1 < b.1)) :
    ∀ ks ∈ cs, fsum (fun k => decide (k = ks.1)) cs = ks.2 := by
  induction cs with
  | nil => intro ks h; simp at h
  | cons c cs ih =>
    have hp := List.pairwise_cons.mp hs
    intro ks hks
    rw [fsum_cons]
    rcases List.mem_cons.mp hks with rfl | hr
    · have : fsum (fun k => decide (k = ks.1)) cs = 0 := by
        unfold fsum
        rw [List.filter_eq_nil_iff.mpr]
        · rfl
        · intro a ha
          have := hp.1 a ha
          simp; omega
      simp [this]
    · have := hp.1 ks hr
      have hne : ¬ c.1 = ks.1 := by omega
      simp [hne, ih hp.2 ks hr]

theorem strict_ext (l1 l2 : List Pt) (h1 : l1.Pairwise (fun a b => a.1 < b.1))
    (h2 : l2.Pairwise (fun a b => a.1 < b.1)) (hm : ∀ x, x ∈ l1 ↔ x ∈ l2) : l1 = l2 := by
  induction l1 generalizing l2 with
  | nil =>
    cases l2 with
    | nil => rfl
    | cons y ys => exact absurd ((hm y).mpr (by simp)) (by simp)
  | cons x xs ih =>
    cases l2 with
    | nil => exact absurd ((hm x).mp (by simp)) (by simp)
    | cons y ys =>
      have p1 := List.pairwise_cons.mp h1
      have p2 := List.pairwise_cons.mp h2
      have hxy : x = y := by
        rcases List.mem_cons.mp ((hm x).mp (by simp)) with e | hx
        · exact e
        · rcases List.mem_cons.mp ((hm y).mpr (by simp)) with e | hy
          · exact e.symm
          · have := p1.1 y hy
            have := p2.1 x hx
            omega
      subst hxy
      congr 1
      apply ih ys p1.2 p2.2
      intro z
      constructor
      · intro hz
        rcases List.mem_cons.mp ((hm z).mp (List.mem_cons_of_mem _ hz)) with e | h
        · have := p1.1 z hz; subst e; omega
        · exact h
      · intro hz
        rcases List.mem_cons.mp ((hm z).mpr (List.mem_cons_of_mem _ hz)) with e | h
        · have := p2.1 z hz; subst e; omega
        · exact h

theorem chunkSums_perm (pts pts' : List Pt) (hp : pts'.Perm pts)
    (hs : pts.Pairwise (fun a b => a.1 ≤ b.1)) (hs' : pts'.Pairwise (fun a b => a.1 ≤ b.1)) :
    chunkSums pts' = chunkSums pts := by
  have key : ∀ (l l' : List Pt), l'.Perm l → l.Pairwise (fun a b => a.1 ≤ b.1) →
      l'.Pairwise (fun a b => a.1 ≤ b.1) → ∀ x, x ∈ chunkSums l' → x ∈ chunkSums l := by
    intro l l' hperm hl hl' x hx
    obtain ⟨y, hy, e⟩ := chunkSums_key_mem l' x hx
    obtain ⟨s, hs2⟩ := mem_chunkSums_key l y (hperm.mem_iff.mp hy)
    have e1 := fsum_eq_of_strict _ (chunkSums_strict l' hl') x hx
    have e2 := fsum_eq_of_strict _ (chunkSums_strict l hl) _ hs2
    rw [chunkSums_fsum] at e1 e2
    simp only at e2
    rw [e] at e2
    rw [fsum_perm _ hperm] at e1
    have : x = (y.1, s) := by
      apply Prod.ext
      · exact e.symm
      · simp only; rw [← e1, ← e2]
    rw [this]; exact hs2
  apply strict_ext _ _ (chunkSums_strict _ hs') (chunkSums_strict _ hs)
  intro x
  exact ⟨key pts pts' hp hs hs' x, key pts' pts hp.symm hs' hs x⟩

theorem sweepGroup_eq (chrom : Bytes) (pts : List Pt) :
    sweepGroup chrom pts = match chunkSums pts with
      | [] => .panic
      | (p0, s0) :: rest =>
        let st := rest.foldl (sweepStep chrom) ⟨p0, s0, ⟨chrom, p0, p0, s0⟩, []⟩
        .ok ((st.prev :: st.out).reverse) := rfl

theorem order_independent (chrom : Bytes) (pts pts' : List (Nat × Int)) (hp : pts'.Perm pts)
    (hs : pts.Pairwise (fun a b => a.1 ≤ b.1)) (hs' : pts'.Pairwise (fun a b => a.1 ≤ b.1)) :
    sweepGroup chrom pts' = sweepGroup chrom pts := by
  rw [sweepGroup_eq, sweepGroup_eq, chunkSums_perm pts pts' hp hs hs']

end BV.C08
