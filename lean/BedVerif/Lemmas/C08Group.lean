import BedVerif.Spec.Rec
/-! C08, part 3: comparator facts and the grouping invariant of `groupsAux view`, generic in `view`. -/
namespace BV.C08

/-! ### `cmpBytes` / `Rec.compare` -/
theorem cmpBytes_refl (a : Bytes) : cmpBytes a a = .eq := by
  induction a with
  | nil => rfl
  | cons x t ih => simp [cmpBytes, ih, UInt8.lt_irrefl]

theorem cmpBytes_antisymm : ∀ (a b : Bytes), cmpBytes a b ≠ .gt → cmpBytes b a ≠ .gt → a = b := by
  intro a
  induction a with
  | nil => intro b h1 h2; cases b with
    | nil => rfl
    | cons y t => simp [cmpBytes] at h2
  | cons x t ih =>
    intro b h1 h2
    cases b with
    | nil => simp [cmpBytes] at h1
    | cons y u =>
      simp only [cmpBytes] at h1 h2
      by_cases hxy : x < y
      · have : ¬ y < x := UInt8.lt_asymm hxy
        simp [this, hxy] at h2
      · by_cases hyx : y < x
        · simp [hxy, hyx] at h1
        · have e : x = y := UInt8.le_antisymm (UInt8.not_lt.mp hyx) (UInt8.not_lt.mp hxy)
          subst e
          simp [hxy] at h1 h2
          rw [ih u h1 h2]

theorem cmpBytes_eq : ∀ (a b : Bytes), cmpBytes a b = .eq → a = b := by
  intro a
  induction a with
  | nil => intro b h; cases b with
    | nil => rfl
    | cons y t => simp [cmpBytes] at h
  | cons x t ih =>
    intro b h
    cases b with
    | nil => simp [cmpBytes] at h
    | cons y u =>
      simp only [cmpBytes] at h
      by_cases hxy : x < y
      · simp [hxy] at h
      · by_cases hyx : y < x
        · simp [hxy, hyx] at h
        · have e : x = y := UInt8.le_antisymm (UInt8.not_lt.mp hyx) (UInt8.not_lt.mp hxy)
          subst e
          simp [hxy] at h
          rw [ih u h]

theorem compare_chrom (a b : Rec) (h : Rec.compare a b ≠ .gt) : cmpBytes a.chrom b.chrom ≠ .gt := by
  intro e
  apply h
  simp [Rec.compare, e, Ordering.then]

theorem compare_start (a b : Rec) (h : Rec.compare a b ≠ .gt) (hc : a.chrom = b.chrom) : a.start ≤ b.start := by
  apply Nat.le_of_not_lt
  intro hlt
  apply h
  have : compare a.start b.start = .gt := Nat.compare_eq_gt.mpr hlt
  simp [Rec.compare, hc, cmpBytes_refl, Ordering.then, this]

theorem compare_lt_of_chrom (a b : Rec) (h : cmpBytes a.chrom b.chrom ≠ .gt) (hne : a.chrom ≠ b.chrom) :
    Rec.compare a b = .lt := by
  cases e : cmpBytes a.chrom b.chrom with
  | lt => simp [Rec.compare, e, Ordering.then]
  | gt => exact absurd e h
  | eq => exact absurd (cmpBytes_eq _ _ e) hne

theorem compare_lt_of_start (a b : Rec) (hc : a.chrom = b.chrom) (h : a.start < b.start) :
    Rec.compare a b = .lt := by
  have : compare a.start b.start = .lt := Nat.compare_eq_lt.mpr h
  simp [Rec.compare, hc, cmpBytes_refl, Ordering.then, this]

/-! ### groups -/
variable {β : Type}

/-- a group: non-empty, on one chromosome, covering exactly the stretch `[s, e)` -/
structure GroupOK (view : β → Rec) (g : List β) (c : Bytes) (s e : Nat) : Prop where
  ne : g ≠ []
  chrom : ∀ b ∈ g, (view b).chrom = c
  bounds : ∀ b ∈ g, s ≤ (view b).start ∧ (view b).stop ≤ e
  cover : ∀ p, s ≤ p → p < e → ∃ b ∈ g, (view b).start ≤ p ∧ p < (view b).stop

theorem GroupOK.reverse {view : β → Rec} {g : List β} {c : Bytes} {s e : Nat} (h : GroupOK view g c s e) :
    GroupOK view g.reverse c s e := by
  obtain ⟨h1, h2, h3, h4⟩ := h
  refine ⟨by simpa using h1, fun b hb => h2 b (List.mem_reverse.mp hb), fun b hb => h3 b (List.mem_reverse.mp hb), ?_⟩
  intro p hp1 hp2
  obtain ⟨b, hb, e⟩ := h4 p hp1 hp2
  exact ⟨b, List.mem_reverse.mpr hb, e⟩

/-- two groups are separated: different chromosome or a gap -/
def Sep (view : β → Rec) (g g' : List β) : Prop :=
  ∀ a ∈ g, ∀ b ∈ g', (view a).chrom ≠ (view b).chrom ∨ (view a).stop < (view b).start

theorem groupsAux_ok (view : β → Rec) (rest : List β) : ∀ (a : Acc β) (out : List (List β)),
    (rest.Pairwise (fun x y => Rec.compare (view x) (view y) ≠ .gt)) →
    (∀ r ∈ rest, (view r).start < (view r).stop) →
    GroupOK view a.recs a.chrom a.s a.e → a.s < a.e →
    (∀ b ∈ a.recs, ∀ r ∈ rest, Rec.compare (view b) (view r) ≠ .gt) →
    (∀ g ∈ out, ∃ c s e, GroupOK view g c s e) →
    out.Pairwise (fun g' g => Sep view g g') →
    (∀ g ∈ out, ∀ x ∈ g, ∀ r, (r ∈ a.recs ∨ r ∈ rest) →
      (view x).chrom ≠ (view r).chrom ∨ (view x).stop < (view r).start) →
    ∃ gs, groupsAux view (some a) rest out = .ok gs ∧ (∀ g ∈ gs, ∃ c s e, GroupOK view g c s e) ∧
      gs.Pairwise (Sep view) ∧ gs.flatten = out.reverse.flatten ++ a.recs.reverse ++ rest := by
  induction rest with
  | nil =>
    intro a out _ _ hg _ _ hout hsep hfs
    refine ⟨(a.recs.reverse :: out).reverse, rfl, ?_, ?_, ?_⟩
    · intro g hg'
      rcases List.mem_cons.mp (List.mem_reverse.mp hg') with rfl | hg'
      · exact ⟨_, _, _, hg.reverse⟩
      · exact hout g hg'
    · rw [List.reverse_cons, List.pairwise_append]
      refine ⟨List.pairwise_reverse.mpr hsep, by simp, ?_⟩
      intro g hg' g' hg''
      simp at hg''
      subst hg''
      intro x hx b hb
      exact hfs g (List.mem_reverse.mp hg') x hx b (Or.inl (List.mem_reverse.mp hb))
    · simp
  | cons r rest ih =>
    intro a out hsorted hne hg hse hcmp hout hsep hfs
    have hp := List.pairwise_cons.mp hsorted
    have hr := hne r (by simp)
    have hne' : ∀ r' ∈ rest, (view r').start < (view r').stop := fun r' h => hne r' (List.mem_cons_of_mem _ h)
    unfold groupsAux
    by_cases hnew : (a.chrom != (view r).chrom || decide ((view r).start > a.e)) = true
    · rw [if_pos hnew]
      have hnew' : a.chrom ≠ (view r).chrom ∨ a.e < (view r).start := by simpa using hnew
      obtain ⟨gs, e1, e2, e3, e4⟩ := ih ⟨(view r).chrom, (view r).start, (view r).stop, [r]⟩ (a.recs.reverse :: out)
        hp.2 hne'
        ⟨by simp, by simp, by simp, fun p h1 h2 => ⟨r, by simp, h1, h2⟩⟩ hr
        (fun b hb r' hr' => by simp at hb; subst hb; exact hp.1 r' hr')
        (fun g hg' => by
          rcases List.mem_cons.mp hg' with rfl | hg'
          · exact ⟨_, _, _, hg.reverse⟩
          · exact hout g hg')
        (List.pairwise_cons.mpr ⟨fun g hg' x hx b hb => hfs g hg' x hx b (Or.inl (List.mem_reverse.mp hb)), hsep⟩)
        (by
          intro g hg' x hx r' hr'
          have hr'' : r' ∈ r :: rest := by
            rcases hr' with h | h
            · simp at h; subst h; simp
            · exact List.mem_cons_of_mem _ h
          rcases List.mem_cons.mp hg' with rfl | hg'
          · have hx := List.mem_reverse.mp hx
            -- the closed group against a future record
            by_cases hc : (view x).chrom = (view r').chrom
            · right
              have hxc := hg.chrom x hx
              have c1 := compare_chrom _ _ (hcmp x hx r (by simp))
              have hrr' : (view r).chrom = (view r').chrom ∧ (view r).start ≤ (view r').start := by
                rcases List.mem_cons.mp hr'' with rfl | h
                · exact ⟨rfl, Nat.le_refl _⟩
                · have c2 := compare_chrom _ _ (hp.1 r' h)
                  rw [← hc] at c2
                  have := cmpBytes_antisymm _ _ c1 c2
                  rw [hc] at this
                  exact ⟨this.symm, compare_start _ _ (hp.1 r' h) this.symm⟩
              have : a.e < (view r).start := by
                rcases hnew' with h | h
                · exfalso; apply h; rw [← hxc, hc, hrr'.1]
                · exact h
              have := (hg.bounds x hx).2
              omega
            · exact Or.inl hc
          · exact hfs g hg' x hx r' (Or.inr hr''))
      refine ⟨gs, e1, e2, e3, ?_⟩
      rw [e4]; simp
    · rw [if_neg hnew]
      have hnew' : a.chrom = (view r).chrom ∧ (view r).start ≤ a.e := by simpa using hnew
      obtain ⟨b0, hb0, hb0s⟩ := hg.cover a.s (Nat.le_refl _) hse
      have hb0s' : (view b0).start = a.s := by have := (hg.bounds b0 hb0).1; omega
      have hs : a.s ≤ (view r).start := by
        have := compare_start _ _ (hcmp b0 hb0 r (by simp)) (by rw [hg.chrom b0 hb0]; exact hnew'.1)
        omega
      rw [if_neg (by omega)]
      have hcmp' : ∀ b ∈ r :: a.recs, ∀ r' ∈ rest, Rec.compare (view b) (view r') ≠ .gt := by
        intro b hb r' hr'
        rcases List.mem_cons.mp hb with rfl | hb
        · exact hp.1 r' hr'
        · exact hcmp b hb r' (List.mem_cons_of_mem _ hr')
      have hfs' : ∀ g ∈ out, ∀ x ∈ g, ∀ r', (r' ∈ r :: a.recs ∨ r' ∈ rest) →
          (view x).chrom ≠ (view r').chrom ∨ (view x).stop < (view r').start := by
        intro g hg' x hx r' hr'
        apply hfs g hg' x hx r'
        rcases hr' with h | h
        · rcases List.mem_cons.mp h with rfl | h
          · exact Or.inr (by simp)
          · exact Or.inl h
        · exact Or.inr (List.mem_cons_of_mem _ h)
      by_cases hext : (view r).stop > a.e
      · rw [if_pos hext]
        have hg2 : GroupOK view (r :: a.recs) a.chrom a.s (view r).stop := by
          refine ⟨by simp, ?_, ?_, ?_⟩
          · intro b hb
            rcases List.mem_cons.mp hb with rfl | hb
            · exact hnew'.1.symm
            · exact hg.chrom b hb
          · intro b hb
            rcases List.mem_cons.mp hb with rfl | hb
            · exact ⟨hs, Nat.le_refl _⟩
            · have := hg.bounds b hb
              omega
          · intro p hp1 hp2
            by_cases hpe : p < a.e
            · obtain ⟨b, hb, e⟩ := hg.cover p hp1 hpe
              exact ⟨b, List.mem_cons_of_mem _ hb, e⟩
            · exact ⟨r, by simp, by omega, hp2⟩
        obtain ⟨gs, e1, e2, e3, e4⟩ := ih { a with e := (view r).stop, recs := r :: a.recs } out hp.2 hne'
          hg2 (by simp only; omega) hcmp' hout hsep hfs'
        refine ⟨gs, e1, e2, e3, ?_⟩
        rw [e4]; simp
      · rw [if_neg hext]
        have hg2 : GroupOK view (r :: a.recs) a.chrom a.s a.e := by
          refine ⟨by simp, ?_, ?_, ?_⟩
          · intro b hb
            rcases List.mem_cons.mp hb with rfl | hb
            · exact hnew'.1.symm
            · exact hg.chrom b hb
          · intro b hb
            rcases List.mem_cons.mp hb with rfl | hb
            · exact ⟨hs, by omega⟩
            · exact hg.bounds b hb
          · intro p hp1 hp2
            obtain ⟨b, hb, e⟩ := hg.cover p hp1 hp2
            exact ⟨b, List.mem_cons_of_mem _ hb, e⟩
        obtain ⟨gs, e1, e2, e3, e4⟩ := ih { a with recs := r :: a.recs } out hp.2 hne'
          hg2 hse hcmp' hout hsep hfs'
        refine ⟨gs, e1, e2, e3, ?_⟩
        rw [e4]; simp


/-- the grouping of a sorted sequence of non-empty records succeeds; every group is non-empty, on one
chromosome and covers one contiguous stretch; the groups concatenate to the input and are pairwise
separated (different chromosome, or every end of the earlier one before every start of the later) -/
theorem groupsOf_ok (view : β → Rec) (xs : List β)
    (hs : xs.Pairwise (fun x y => Rec.compare (view x) (view y) ≠ .gt))
    (hne : ∀ r ∈ xs, (view r).start < (view r).stop) :
    ∃ gs, groupsOf view xs = .ok gs ∧ (∀ g ∈ gs, ∃ c s e, GroupOK view g c s e) ∧
      gs.Pairwise (Sep view) ∧ gs.flatten = xs := by
  cases xs with
  | nil => exact ⟨[], rfl, by simp, by simp, rfl⟩
  | cons r rest =>
    have hp := List.pairwise_cons.mp hs
    have hr := hne r (by simp)
    obtain ⟨gs, e1, e2, e3, e4⟩ := groupsAux_ok view rest ⟨(view r).chrom, (view r).start, (view r).stop, [r]⟩ []
      hp.2 (fun r' h => hne r' (List.mem_cons_of_mem _ h))
      ⟨by simp, by simp, by simp, fun p h1 h2 => ⟨r, by simp, h1, h2⟩⟩ hr
      (fun b hb r' hr' => by simp at hb; subst hb; exact hp.1 r' hr')
      (by simp) (by simp) (by simp)
    refine ⟨gs, ?_, e2, e3, ?_⟩
    · unfold groupsOf; unfold groupsAux; exact e1
    · rw [e4]; simp

end BV.C08
