import BedVerif.Lemmas.C08Single
/-! C08, part 5: from one group to the whole output. -/
namespace BV.C08

def cov (l : List BG) (c : Bytes) (p : Nat) : Prop := ∃ b ∈ l, b.chrom = c ∧ b.toRec.mem p
def csum (l : List BG) (c : Bytes) (p : Nat) : Int :=
  ((l.filter (fun b => decide (b.chrom = c ∧ b.toRec.mem p))).map (·.value)).sum

theorem cov_append (l1 l2 : List BG) (c : Bytes) (p : Nat) : cov (l1 ++ l2) c p ↔ cov l1 c p ∨ cov l2 c p := by
  unfold cov
  constructor
  · intro ⟨b, hb, h⟩
    rcases List.mem_append.mp hb with hb | hb
    · exact Or.inl ⟨b, hb, h⟩
    · exact Or.inr ⟨b, hb, h⟩
  · intro h
    rcases h with ⟨b, hb, h⟩ | ⟨b, hb, h⟩
    · exact ⟨b, List.mem_append_left _ hb, h⟩
    · exact ⟨b, List.mem_append_right _ hb, h⟩

theorem csum_append (l1 l2 : List BG) (c : Bytes) (p : Nat) : csum (l1 ++ l2) c p = csum l1 c p + csum l2 c p := by
  simp [csum, List.filter_append, List.sum_append]

theorem csum_eq_zero (l : List BG) (c : Bytes) (p : Nat) (h : ∀ b ∈ l, ¬ (b.chrom = c ∧ b.toRec.mem p)) :
    csum l c p = 0 := by
  unfold csum
  rw [List.filter_eq_nil_iff.mpr]
  · rfl
  · intro b hb
    simpa using h b hb

theorem csum_eq_gsum (g : List BG) (c : Bytes) (p : Nat) (h : ∀ b ∈ g, b.chrom = c) : csum g c p = gsum g p := by
  unfold csum gsum
  rw [List.filter_congr]
  intro b hb
  simp [Rec.mem, BG.toRec, h b hb]

theorem Adj_imp {α : Type} {R S : α → α → Prop} (h : ∀ a b, R a b → S a b) : ∀ (l : List α), Adj R l → Adj S l := by
  intro l
  induction l with
  | nil => intro _; trivial
  | cons x t ih =>
    rw [Adj_cons, Adj_cons]
    exact fun ⟨h1, h2⟩ => ⟨fun y hy => h _ _ (h1 y hy), ih h2⟩

/-- two groups: sorted and separated -/
def Sep2 (g g' : List BG) : Prop :=
  ∀ a ∈ g, ∀ b ∈ g', Rec.compare a.toRec b.toRec ≠ .gt ∧ (a.chrom ≠ b.chrom ∨ a.stop < b.start)

def foldGroups (gs : List (List BG)) : Out (List BG) :=
  gs.foldr (fun g acc => match acc, bedgraphGroup g with
      | .ok rest, .ok o => .ok (o ++ rest)
      | _, _ => .panic) (.ok [])

theorem foldGroups_cons (g : List BG) (gs : List (List BG)) (o rest : List BG)
    (h1 : bedgraphGroup g = .ok o) (h2 : foldGroups gs = .ok rest) : foldGroups (g :: gs) = .ok (o ++ rest) := by
  unfold foldGroups at h2 ⊢
  rw [List.foldr_cons, h2, h1]

theorem lift (gs : List (List BG)) (hok : ∀ g ∈ gs, ∃ c s e, GroupOK BG.toRec g c s e)
    (hne : ∀ g ∈ gs, ∀ b ∈ g, b.start < b.stop) (hsep : gs.Pairwise Sep2) :
    ∃ out, foldGroups gs = .ok out ∧
      (∀ o ∈ out, o.start < o.stop) ∧
      out.Pairwise (fun x y => Rec.compare x.toRec y.toRec ≠ .gt ∧ (x.chrom ≠ y.chrom ∨ x.stop ≤ y.start)) ∧
      (∀ c p, cov gs.flatten c p ↔ cov out c p) ∧
      (∀ o ∈ out, ∀ p, o.start ≤ p → p < o.stop → o.value = csum gs.flatten o.chrom p) ∧
      Adj (fun x y : BG => x.chrom = y.chrom → x.stop = y.start → x.value ≠ y.value) out := by
  induction gs with
  | nil =>
    refine ⟨[], rfl, by simp, by simp, ?_, by simp, trivial⟩
    intro c p; simp [cov]
  | cons g gs ih =>
    have hps := List.pairwise_cons.mp hsep
    obtain ⟨out', f1, f2, f3, f4, f5, f6⟩ := ih (fun g' h => hok g' (List.mem_cons_of_mem _ h))
      (fun g' h => hne g' (List.mem_cons_of_mem _ h)) hps.2
    obtain ⟨c, s, e, hg⟩ := hok g (by simp)
    have hneg := hne g (by simp)
    obtain ⟨o, o1, o2, o3, o4, o5⟩ := bedgraphGroup_ok g c s e hg hneg
    -- bounds of the group's output
    have hob : ∀ x ∈ o, s ≤ x.start ∧ x.stop ≤ e := by
      intro x hx
      have hx2 := (o2 x hx).2.1
      have h1 := (o4 x.start).mpr ⟨x, hx, Nat.le_refl _, hx2⟩
      have h2 := (o4 (x.stop - 1)).mpr ⟨x, hx, by omega, by omega⟩
      omega
    -- a record of `g` against a record of a later group
    have hgsep : ∀ a ∈ g, ∀ b ∈ gs.flatten, Rec.compare a.toRec b.toRec ≠ .gt ∧ (a.chrom ≠ b.chrom ∨ a.stop < b.start) := by
      intro a ha b hb
      obtain ⟨g', hg', hb'⟩ := List.mem_flatten.mp hb
      exact hps.1 g' hg' a ha b hb'
    have hcross : ∀ x ∈ o, ∀ y ∈ out', Rec.compare x.toRec y.toRec ≠ .gt ∧ (x.chrom ≠ y.chrom ∨ x.stop < y.start) := by
      intro x hx y hy
      obtain ⟨x1, x2, _⟩ := o2 x hx
      have xb := hob x hx
      obtain ⟨a, ha, a1, a2⟩ := hg.cover (x.stop - 1) (by omega) (by omega)
      have y2 := f2 y hy
      obtain ⟨b, hb, b1, b2, b3⟩ := (f4 y.chrom y.start).mpr ⟨y, hy, rfl, Nat.le_refl _, y2⟩
      obtain ⟨s1, s2⟩ := hgsep a ha b hb
      have ac : a.chrom = c := hg.chrom a ha
      simp only [BG.toRec] at a1 a2 b2 b3
      by_cases hc : x.chrom = y.chrom
      · have : a.stop < b.start := by
          rcases s2 with h | h
          · exfalso; apply h; rw [ac, b1, ← hc, x1]
          · exact h
        have hlt : x.stop < y.start := by omega
        refine ⟨?_, Or.inr hlt⟩
        rw [compare_lt_of_start x.toRec y.toRec hc (by simp only [BG.toRec]; omega)]
        exact fun h => by cases h
      · refine ⟨?_, Or.inl hc⟩
        have := compare_chrom _ _ s1
        simp only [BG.toRec] at this
        rw [ac, b1, ← x1] at this
        rw [compare_lt_of_chrom x.toRec y.toRec this hc]
        exact fun h => by cases h
    refine ⟨o ++ out', foldGroups_cons g gs o out' o1 f1, ?_, ?_, ?_, ?_, ?_⟩
    · intro x hx
      rcases List.mem_append.mp hx with hx | hx
      · exact (o2 x hx).2.1
      · exact f2 x hx
    · rw [List.pairwise_append]
      refine ⟨?_, f3, ?_⟩
      · refine List.Pairwise.imp_of_mem ?_ o3
        intro x y hx hy hxy
        have hc : x.chrom = y.chrom := by rw [(o2 x hx).1, (o2 y hy).1]
        have := (o2 x hx).2.1
        refine ⟨?_, Or.inr hxy⟩
        rw [compare_lt_of_start x.toRec y.toRec hc (by simp only [BG.toRec]; omega)]
        exact fun h => by cases h
      · intro x hx y hy
        obtain ⟨h1, h2⟩ := hcross x hx y hy
        exact ⟨h1, h2.imp id Nat.le_of_lt⟩
    · intro c' p
      rw [List.flatten_cons, cov_append, cov_append, f4 c' p]
      have : cov g c' p ↔ cov o c' p := by
        constructor
        · intro ⟨b, hb, b1, b2, b3⟩
          have bb := hg.bounds b hb
          obtain ⟨x, hx, x1, x2⟩ := (o4 p).mp ⟨by omega, by omega⟩
          exact ⟨x, hx, by rw [(o2 x hx).1, ← b1]; exact (hg.chrom b hb).symm, x1, x2⟩
        · intro ⟨x, hx, x1, x2, x3⟩
          have xb := hob x hx
          simp only [BG.toRec] at x2 x3
          obtain ⟨b, hb, b2⟩ := hg.cover p (by omega) (by omega)
          exact ⟨b, hb, by rw [← x1, (o2 x hx).1]; exact hg.chrom b hb, b2⟩
      rw [this]
    · intro x hx p hp1 hp2
      rw [List.flatten_cons, csum_append]
      rcases List.mem_append.mp hx with hx | hx
      · obtain ⟨x1, x2, x3⟩ := o2 x hx
        have xb := hob x hx
        rw [x3 p hp1 hp2, x1, csum_eq_gsum g c p (fun b hb => hg.chrom b hb), csum_eq_zero]
        · simp
        · intro b hb ⟨b1, b2, b3⟩
          obtain ⟨a, ha, a1, a2⟩ := hg.cover p (by omega) (by omega)
          obtain ⟨_, s2⟩ := hgsep a ha b hb
          have ac : a.chrom = c := hg.chrom a ha
          simp only [BG.toRec] at a1 a2 b2 b3
          rcases s2 with h | h
          · apply h; rw [ac, b1]
          · omega
      · rw [f5 x hx p hp1 hp2, csum_eq_zero g]
        · simp
        · intro a ha ⟨a1, a2, a3⟩
          obtain ⟨b, hb, b1, b2, b3⟩ := (f4 x.chrom p).mpr ⟨x, hx, rfl, hp1, hp2⟩
          obtain ⟨_, s2⟩ := hgsep a ha b hb
          simp only [BG.toRec] at a2 a3 b2 b3
          rcases s2 with h | h
          · apply h; rw [a1, b1]
          · omega
    · apply Adj_append_of_all
      · exact Adj_imp (fun a b h _ _ => h) o o5
      · exact f6
      · intro x hx y hy hc hst
        obtain ⟨_, h2⟩ := hcross x hx y hy
        rcases h2 with h | h
        · exact absurd hc h
        · omega

theorem main (xs : List BG) (hs : (xs.map BG.toRec).Pairwise (fun a b => Rec.compare a b ≠ .gt))
    (hne : ∀ b ∈ xs, b.start < b.stop) :
    ∃ out, mergeSortedBedgraph xs = .ok out ∧
      (∀ o ∈ out, o.start < o.stop) ∧
      (out.map BG.toRec).Pairwise (fun a b => Rec.compare a b ≠ .gt) ∧
      (∀ i (h : i + 1 < out.length), out[i].chrom ≠ out[i+1].chrom ∨ out[i].stop ≤ out[i+1].start) ∧
      (∀ c p, cov xs c p ↔ cov out c p) ∧
      (∀ o ∈ out, ∀ p, o.toRec.mem p → o.value = csum xs o.chrom p) ∧
      (∀ i (h : i + 1 < out.length), out[i].chrom = out[i+1].chrom → out[i].stop = out[i+1].start → out[i].value ≠ out[i+1].value) := by
  have hs' := List.pairwise_map.mp hs
  obtain ⟨gs, k1, k2, k3, k4⟩ := groupsOf_ok BG.toRec xs hs' hne
  have hsep : gs.Pairwise Sep2 := by
    rw [← k4] at hs'
    have := (List.pairwise_flatten.mp hs').2
    refine (this.and k3).imp ?_
    intro g g' ⟨h1, h2⟩ a ha b hb
    exact ⟨h1 a ha b hb, h2 a ha b hb⟩
  obtain ⟨out, f1, f2, f3, f4, f5, f6⟩ := lift gs k2
    (fun g hg b hb => hne b (by rw [← k4]; exact List.mem_flatten.mpr ⟨g, hg, hb⟩)) hsep
  rw [k4] at f4 f5
  have hm : mergeSortedBedgraph xs = foldGroups gs := by
    unfold mergeSortedBedgraph foldGroups
    rw [k1]
    rfl
  refine ⟨out, by rw [hm, f1], f2, ?_, ?_, f4, ?_, ?_⟩
  · exact List.pairwise_map.mpr (f3.imp (fun h => h.1))
  · intro i h
    exact (List.pairwise_iff_getElem.mp f3 i (i+1) (by omega) h (by omega)).2
  · intro o ho p hp
    exact f5 o ho p hp.1 hp.2
  · intro i h
    exact Adj_getElem _ _ f6 i h

end BV.C08
