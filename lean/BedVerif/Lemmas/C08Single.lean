import BedVerif.Lemmas.C08Sweep
import BedVerif.Lemmas.C08Group
/-! C08, part 4: the per-group closure `bedgraphGroup` on one group. -/
namespace BV.C08

/-- sum of the values of the records of `g` covering `p` (chromosome ignored) -/
def gsum (g : List BG) (p : Nat) : Int :=
  ((g.filter (fun b => decide (b.start ≤ p ∧ p < b.stop))).map (·.value)).sum

theorem gsum_cons (b : BG) (g : List BG) (p : Nat) :
    gsum (b :: g) p = (if b.start ≤ p ∧ p < b.stop then b.value else 0) + gsum g p := by
  unfold gsum
  by_cases h : b.start ≤ p ∧ p < b.stop
  · simp [h]
  · simp [h]

theorem fsum_breakpoints (g : List BG) (hne : ∀ b ∈ g, b.start < b.stop) (p : Nat) :
    fsum (fun k => decide (k ≤ p)) (breakpointsOf g) = gsum g p := by
  induction g with
  | nil => rfl
  | cons b t ih =>
    have hb := hne b (by simp)
    have : breakpointsOf (b :: t) = (b.start, b.value) :: (b.stop, -b.value) :: breakpointsOf t := by
      simp [breakpointsOf]
    rw [this, fsum_cons, fsum_cons, gsum_cons, ← ih (fun x hx => hne x (List.mem_cons_of_mem _ hx))]
    simp only [decide_eq_true_eq]
    by_cases h1 : b.start ≤ p <;> by_cases h2 : b.stop ≤ p <;> simp [h1, h2] <;> omega

theorem mem_breakpoints (g : List BG) (x : Pt) :
    x ∈ breakpointsOf g ↔ ∃ b ∈ g, x = (b.start, b.value) ∨ x = (b.stop, -b.value) := by
  simp [breakpointsOf, List.mem_flatMap]

theorem ptLe_total : TotalLe (fun a b : Pt => decide (a.1 ≤ b.1)) :=
  ⟨fun a b => by simp; omega, fun a b c => by simp; omega⟩

theorem bedgraphGroup_ok (g : List BG) (c : Bytes) (s e : Nat) (hg : GroupOK BG.toRec g c s e)
    (hne : ∀ b ∈ g, b.start < b.stop) :
    ∃ o, bedgraphGroup g = .ok o ∧
      (∀ x ∈ o, x.chrom = c ∧ x.start < x.stop ∧ ∀ p, x.start ≤ p → p < x.stop → x.value = gsum g p) ∧
      o.Pairwise (fun x y => x.stop ≤ y.start) ∧
      (∀ p, (s ≤ p ∧ p < e) ↔ ∃ x ∈ o, x.start ≤ p ∧ p < x.stop) ∧
      Adj (fun x y : BG => x.value ≠ y.value) o := by
  obtain ⟨g1, g2, g3, g4⟩ := hg
  cases g with
  | nil => exact absurd rfl g1
  | cons b0 t =>
  have hb0 := hne b0 (by simp)
  have hse : s < e := by have := g3 b0 (by simp); simp only [BG.toRec] at this; omega
  -- sorted breakpoints
  let pts := isort (fun a b : Pt => decide (a.1 ≤ b.1)) (breakpointsOf (b0 :: t))
  have hperm : pts.Perm (breakpointsOf (b0 :: t)) := isort_perm _ _
  have hsorted : pts.Pairwise (fun a b => a.1 ≤ b.1) :=
    (isort_sorted ptLe_total _).imp (fun h => by simpa using h)
  have hstrict := chunkSums_strict pts hsorted
  -- positions
  have hpos_in : ∀ x ∈ chunkSums pts, s ≤ x.1 ∧ x.1 ≤ e := by
    intro x hx
    obtain ⟨y, hy, e1⟩ := chunkSums_key_mem pts x hx
    obtain ⟨b, hb, hor⟩ := (mem_breakpoints _ y).mp (hperm.mem_iff.mp hy)
    have h1 := g3 b hb
    have h2 := hne b hb
    simp only [BG.toRec] at h1
    rcases hor with rfl | rfl <;> simp only at e1 <;> omega
  have hs_mem : ∃ v, (s, v) ∈ chunkSums pts := by
    obtain ⟨b, hb, h1, h2⟩ := g4 s (Nat.le_refl _) hse
    have h3 := (g3 b hb).1
    simp only [BG.toRec] at h1 h3
    have : (b.start, b.value) ∈ pts := hperm.mem_iff.mpr ((mem_breakpoints _ _).mpr ⟨b, hb, Or.inl rfl⟩)
    obtain ⟨v, hv⟩ := mem_chunkSums_key pts _ this
    have e1 : b.start = s := by omega
    simp only [e1] at hv
    exact ⟨v, hv⟩
  have he_mem : ∃ v, (e, v) ∈ chunkSums pts := by
    obtain ⟨b, hb, h1, h2⟩ := g4 (e - 1) (by omega) (by omega)
    have h3 := (g3 b hb).2
    simp only [BG.toRec] at h2 h3
    have : (b.stop, -b.value) ∈ pts := hperm.mem_iff.mpr ((mem_breakpoints _ _).mpr ⟨b, hb, Or.inr rfl⟩)
    obtain ⟨v, hv⟩ := mem_chunkSums_key pts _ this
    have e1 : b.stop = e := by omega
    simp only [e1] at hv
    exact ⟨v, hv⟩
  obtain ⟨vs, hvs⟩ := hs_mem
  obtain ⟨ve, hve⟩ := he_mem
  have hF : ∀ p, fsum (fun k => decide (k ≤ p)) (chunkSums pts) = gsum (b0 :: t) p := by
    intro p
    rw [chunkSums_fsum, fsum_perm _ hperm, fsum_breakpoints _ hne]
  have hbg : bedgraphGroup (b0 :: t) = sweepGroup b0.chrom pts := rfl
  have hc0 : b0.chrom = c := g2 b0 (by simp)
  rw [hbg, sweepGroup_eq, hc0]
  -- at least two chunks
  cases hcs : chunkSums pts with
  | nil => rw [hcs] at hvs; simp at hvs
  | cons x0 rest0 =>
  cases rest0 with
  | nil =>
    rw [hcs] at hvs hve
    have e1 := List.mem_singleton.mp hvs
    have e2 := List.mem_singleton.mp hve
    have := (Prod.mk.inj (e1.trans e2.symm)).1
    omega
  | cons x1 rest =>
  obtain ⟨p0, s0⟩ := x0
  obtain ⟨p1, s1⟩ := x1
  rw [hcs] at hstrict hpos_in hvs hve hF
  have hp := List.pairwise_cons.mp hstrict
  have hp0 : p0 = s := by
    have h1 := (hpos_in (p0, s0) (by simp)).1
    rcases List.mem_cons.mp hvs with e1 | h
    · exact (Prod.mk.inj e1).1.symm
    · have := hp.1 _ h
      simp only at this h1
      omega
  obtain ⟨l1, z, hz, l2⟩ := lastPos_spec rest (p1, s1) hp.2
  have hlast : lastPos rest p1 = e := by
    have h1 := (hpos_in z (List.mem_cons_of_mem _ hz)).2
    rcases List.mem_cons.mp hve with e1 | h
    · have := (Prod.mk.inj e1).1
      omega
    · have := l1 _ h
      simp only at this l2
      omega
  obtain ⟨r1, r2, r3, r4⟩ := sweep_result c p0 s0 p1 s1 rest hstrict
  refine ⟨_, rfl, ?_, r2, ?_, r4⟩
  · intro x hx
    obtain ⟨a1, a2, a3⟩ := r1 x hx
    refine ⟨a1, a2, ?_⟩
    intro p h1 h2
    rw [a3 p h1 h2]
    exact hF p
  · intro p
    rw [← r3 p, hp0, hlast]

end BV.C08
