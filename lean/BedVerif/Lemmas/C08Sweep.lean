import BedVerif.Lemmas.C08Chunk
/-! C08, part 2: the sweep over the chunk sums: invariant and result. -/
namespace BV.C08

/-! ### consecutive elements are related -/
def Adj {α : Type} (R : α → α → Prop) : List α → Prop
  | [] => True
  | [_] => True
  | x :: y :: t => R x y ∧ Adj R (y :: t)

theorem Adj_cons {α : Type} (R : α → α → Prop) (x : α) (l : List α) :
    Adj R (x :: l) ↔ (∀ y ∈ l.head?, R x y) ∧ Adj R l := by
  cases l <;> simp [Adj]

theorem Adj_append {α : Type} (R : α → α → Prop) (l1 l2 : List α) :
    Adj R (l1 ++ l2) ↔ Adj R l1 ∧ Adj R l2 ∧ (∀ x ∈ l1.getLast?, ∀ y ∈ l2.head?, R x y) := by
  induction l1 with
  | nil => simp [Adj]
  | cons x t ih =>
    cases t with
    | nil =>
      simp only [List.singleton_append, Adj_cons, List.getLast?_singleton]
      simp [Adj, and_comm]
    | cons z t' =>
      rw [List.cons_append, Adj_cons, ih, Adj_cons R x (z :: t')]
      simp [List.getLast?_cons_cons, and_assoc]

theorem Adj_reverse {α : Type} (R : α → α → Prop) (l : List α) :
    Adj R l.reverse ↔ Adj (fun a b => R b a) l := by
  induction l with
  | nil => simp [Adj]
  | cons x t ih =>
    rw [List.reverse_cons, Adj_append, ih, Adj_cons (fun a b => R b a) x t]
    simp [Adj, and_comm]

theorem Adj_getElem {α : Type} (R : α → α → Prop) (l : List α) (h : Adj R l) :
    ∀ i (hi : i + 1 < l.length), R l[i] l[i+1] := by
  induction l with
  | nil => intro i hi; simp at hi
  | cons x t ih =>
    rw [Adj_cons] at h
    intro i hi
    cases i with
    | zero =>
      cases t with
      | nil => simp at hi
      | cons y t' => exact h.1 y (by simp)
    | succ j =>
      simp only [List.length_cons] at hi
      exact ih h.2 j (by omega)

theorem Adj_append_of_all {α : Type} (R : α → α → Prop) (l1 l2 : List α) (h1 : Adj R l1) (h2 : Adj R l2)
    (h : ∀ x ∈ l1, ∀ y ∈ l2, R x y) : Adj R (l1 ++ l2) := by
  rw [Adj_append]
  refine ⟨h1, h2, ?_⟩
  intro x hx y hy
  exact h x (List.mem_of_getLast? hx) y (List.mem_of_head? hy)

/-! ### reversed tiling: `M` (newest first) tiles `[a, b)` with non-empty records -/
def RT : List BG → Nat → Nat → Prop
  | [], a, b => a = b
  | x :: t, a, b => x.stop = b ∧ x.start < x.stop ∧ RT t a x.start

theorem RT_bounds (M : List BG) : ∀ a b, RT M a b →
    a ≤ b ∧ ∀ x ∈ M, a ≤ x.start ∧ x.start < x.stop ∧ x.stop ≤ b := by
  induction M with
  | nil => intro a b h; simp [RT] at h; simp [h]
  | cons x t ih =>
    intro a b h
    obtain ⟨h1, h2, h3⟩ := h
    obtain ⟨i1, i2⟩ := ih _ _ h3
    refine ⟨by omega, ?_⟩
    intro y hy
    rcases List.mem_cons.mp hy with rfl | hy
    · omega
    · have := i2 y hy; omega

theorem RT_pairwise (M : List BG) : ∀ a b, RT M a b → M.Pairwise (fun x y => y.stop ≤ x.start) := by
  induction M with
  | nil => intro a b _; simp
  | cons x t ih =>
    intro a b h
    obtain ⟨_, _, h3⟩ := h
    refine List.pairwise_cons.mpr ⟨?_, ih _ _ h3⟩
    intro y hy
    exact ((RT_bounds t _ _ h3).2 y hy).2.2

theorem RT_cover (M : List BG) : ∀ a b, RT M a b →
    ∀ p, (a ≤ p ∧ p < b) ↔ ∃ x ∈ M, x.start ≤ p ∧ p < x.stop := by
  induction M with
  | nil => intro a b h p; simp [RT] at h; simp; omega
  | cons x t ih =>
    intro a b h p
    obtain ⟨h1, h2, h3⟩ := h
    have hb := (RT_bounds t _ _ h3).1
    have := ih _ _ h3 p
    constructor
    · intro ⟨pa, pb⟩
      by_cases hp : p < x.start
      · obtain ⟨y, hy, e⟩ := this.mp ⟨pa, hp⟩
        exact ⟨y, List.mem_cons_of_mem _ hy, e⟩
      · exact ⟨x, by simp, by omega, by omega⟩
    · intro ⟨y, hy, e⟩
      rcases List.mem_cons.mp hy with rfl | hy
      · omega
      · have := this.mpr ⟨y, hy, e⟩; omega

/-! ### the invariant -/
structure Inv (c : Bytes) (p0 : Nat) (F : Nat → Int) (st : Sweep) : Prop where
  tiles : RT (st.prev :: st.out) p0 st.prevPos
  vals : ∀ x ∈ st.prev :: st.out, x.chrom = c ∧ ∀ p, x.start ≤ p → p < x.stop → x.value = F p
  adj : Adj (fun x y : BG => y.value ≠ x.value) (st.prev :: st.out)

theorem step_inv (c : Bytes) (p0 : Nat) (F : Nat → Int) (st : Sweep) (q : Nat) (s : Int)
    (h : Inv c p0 F st) (hq : st.prevPos < q) (hF : ∀ p, st.prevPos ≤ p → p < q → F p = st.acc) :
    Inv c p0 F (sweepStep c st (q, s)) ∧ (sweepStep c st (q, s)).prevPos = q ∧
      (sweepStep c st (q, s)).acc = st.acc + s := by
  obtain ⟨ht, hv, ha⟩ := h
  obtain ⟨t1, t2, t3⟩ := ht
  have hne : st.prevPos ≠ q := by omega
  by_cases hacc : st.acc = st.prev.value
  · have e : sweepStep c st (q, s) =
        ⟨q, st.acc + s, { st.prev with stop := q }, st.out⟩ := by
      simp [sweepStep, hne, hacc]
    rw [e]
    refine ⟨⟨?_, ?_, ?_⟩, rfl, rfl⟩
    · exact ⟨rfl, by simp only; omega, t3⟩
    · intro x hx
      rcases List.mem_cons.mp hx with rfl | hx
      · have := hv st.prev (by simp)
        refine ⟨this.1, ?_⟩
        intro p hp1 hp2
        simp only at hp1 hp2 ⊢
        by_cases hp : p < st.prev.stop
        · exact this.2 p hp1 hp
        · rw [hF p (by omega) hp2, hacc]
      · exact hv x (List.mem_cons_of_mem _ hx)
    · rw [Adj_cons] at ha ⊢
      exact ha
  · have e : sweepStep c st (q, s) =
        ⟨q, st.acc + s, ⟨c, st.prevPos, q, st.acc⟩, st.prev :: st.out⟩ := by
      simp [sweepStep, hne, hacc]
    rw [e]
    refine ⟨⟨?_, ?_, ?_⟩, rfl, rfl⟩
    · exact ⟨rfl, hq, t1, t2, t3⟩
    · intro x hx
      rcases List.mem_cons.mp hx with rfl | hx
      · exact ⟨rfl, fun p hp1 hp2 => (hF p hp1 hp2).symm⟩
      · exact hv x hx
    · rw [Adj_cons]
      refine ⟨?_, ha⟩
      intro y hy
      simp at hy
      subst hy
      simp only
      exact fun e => hacc e.symm

/-- the remaining chunks are consistent with the step function `F` -/
def ChunksOK (F : Nat → Int) : Nat → Int → List Pt → Prop
  | _, _, [] => True
  | q, a, (q', s) :: t => q < q' ∧ (∀ p, q ≤ p → p < q' → F p = a) ∧ ChunksOK F q' (a + s) t

def lastPos : List Pt → Nat → Nat
  | [], d => d
  | (q, _) :: t, _ => lastPos t q

theorem fold_inv (c : Bytes) (p0 : Nat) (F : Nat → Int) (rest : List Pt) : ∀ (st : Sweep),
    Inv c p0 F st → ChunksOK F st.prevPos st.acc rest →
    Inv c p0 F (rest.foldl (sweepStep c) st) ∧
      (rest.foldl (sweepStep c) st).prevPos = lastPos rest st.prevPos := by
  induction rest with
  | nil => intro st h _; exact ⟨h, rfl⟩
  | cons x t ih =>
    obtain ⟨q, s⟩ := x
    intro st h hc
    obtain ⟨c1, c2, c3⟩ := hc
    obtain ⟨i1, i2, i3⟩ := step_inv c p0 F st q s h c1 c2
    rw [List.foldl_cons]
    have := ih (sweepStep c st (q, s)) i1 (by rw [i2, i3]; exact c3)
    rw [i2] at this
    exact this

theorem fsum_congr (P Q : Nat → Bool) (l : List Pt) (h : ∀ x ∈ l, P x.1 = Q x.1) : fsum P l = fsum Q l := by
  induction l with
  | nil => rfl
  | cons x t ih =>
    rw [fsum_cons, fsum_cons, h x (by simp), ih (fun y hy => h y (List.mem_cons_of_mem _ hy))]

theorem fsum_eq_zero (P : Nat → Bool) (l : List Pt) (h : ∀ x ∈ l, P x.1 = false) : fsum P l = 0 := by
  induction l with
  | nil => rfl
  | cons x t ih =>
    rw [fsum_cons, h x (by simp), ih (fun y hy => h y (List.mem_cons_of_mem _ hy))]
    simp

theorem chunksOK_of_strict (F : Nat → Int) (rest : List Pt) : ∀ (done : List Pt) (q : Nat),
    (∀ p, F p = fsum (fun k => decide (k ≤ p)) (done ++ rest)) →
    (∀ x ∈ done, x.1 ≤ q) → rest.Pairwise (fun a b => a.1 < b.1) → (∀ x ∈ rest, q < x.1) →
    ChunksOK F q (fsum (fun _ => true) done) rest := by
  induction rest with
  | nil => intros; trivial
  | cons x t ih =>
    obtain ⟨q', s⟩ := x
    intro done q hF hdone hp hq
    have hp' := List.pairwise_cons.mp hp
    refine ⟨hq (q', s) (by simp), ?_, ?_⟩
    · intro p hp1 hp2
      rw [hF p, fsum_append]
      rw [fsum_eq_zero _ ((q', s) :: t)]
      · rw [fsum_congr _ (fun _ => true) done]
        · simp
        · intro y hy
          have := hdone y hy
          simp; omega
      · intro y hy
        have : q' ≤ y.1 := by
          rcases List.mem_cons.mp hy with rfl | hy
          · exact Nat.le_refl _
          · exact Nat.le_of_lt (hp'.1 y hy)
        simp; omega
    · have := ih (done ++ [(q', s)]) q' (by intro p; rw [hF p]; simp) ?_ hp'.2 (fun y hy => hp'.1 y hy)
      · rw [fsum_append, fsum_cons, fsum_nil] at this
        simpa using this
      · intro y hy
        rcases List.mem_append.mp hy with hy | hy
        · have := hdone y hy
          have := hq (q', s) (by simp)
          simp only at this; omega
        · simp at hy; subst hy; exact Nat.le_refl _

theorem lastPos_spec (rest : List Pt) : ∀ (x0 : Pt), (x0 :: rest).Pairwise (fun a b => a.1 < b.1) →
    (∀ x ∈ x0 :: rest, x.1 ≤ lastPos rest x0.1) ∧ ∃ x ∈ x0 :: rest, x.1 = lastPos rest x0.1 := by
  induction rest with
  | nil => intro x0 _; simp [lastPos]
  | cons y t ih =>
    intro x0 hp
    have hp' := List.pairwise_cons.mp hp
    obtain ⟨i1, z, hz, e⟩ := ih y hp'.2
    have : lastPos (y :: t) x0.1 = lastPos t y.1 := rfl
    rw [this]
    refine ⟨?_, z, List.mem_cons_of_mem _ hz, e⟩
    intro x hx
    rcases List.mem_cons.mp hx with rfl | hx
    · have := hp'.1 y (by simp)
      have := i1 y (by simp)
      omega
    · exact i1 x hx

/-- result of the sweep over at least two chunks with strictly increasing positions -/
theorem sweep_result (c : Bytes) (p0 : Nat) (s0 : Int) (p1 : Nat) (s1 : Int) (rest : List Pt)
    (hstrict : ((p0, s0) :: (p1, s1) :: rest).Pairwise (fun a b => a.1 < b.1)) :
    let F : Nat → Int := fun p => fsum (fun k => decide (k ≤ p)) ((p0, s0) :: (p1, s1) :: rest)
    let st := ((p1, s1) :: rest).foldl (sweepStep c) ⟨p0, s0, ⟨c, p0, p0, s0⟩, []⟩
    let L := (st.prev :: st.out).reverse
    (∀ x ∈ L, x.chrom = c ∧ x.start < x.stop ∧ ∀ p, x.start ≤ p → p < x.stop → x.value = F p) ∧
    L.Pairwise (fun x y => x.stop ≤ y.start) ∧
    (∀ p, (p0 ≤ p ∧ p < lastPos rest p1) ↔ ∃ x ∈ L, x.start ≤ p ∧ p < x.stop) ∧
    Adj (fun x y : BG => x.value ≠ y.value) L := by
  intro F st L
  have hp := List.pairwise_cons.mp hstrict
  have hck : ChunksOK F p0 s0 ((p1, s1) :: rest) := by
    have := chunksOK_of_strict F ((p1, s1) :: rest) [(p0, s0)] p0 (fun p => rfl) (by simp) hp.2 hp.1
    simpa [fsum_cons, fsum_nil] using this
  obtain ⟨k1, k2, k3⟩ := hck
  have hne : p0 ≠ p1 := by omega
  have e1 : sweepStep c ⟨p0, s0, ⟨c, p0, p0, s0⟩, []⟩ (p1, s1) = ⟨p1, s0 + s1, ⟨c, p0, p1, s0⟩, []⟩ := by
    simp [sweepStep, hne]
  have hinv1 : Inv c p0 F ⟨p1, s0 + s1, ⟨c, p0, p1, s0⟩, []⟩ := by
    refine ⟨⟨rfl, k1, rfl⟩, ?_, trivial⟩
    intro x hx
    simp at hx
    subst hx
    exact ⟨rfl, fun p h1 h2 => (k2 p h1 h2).symm⟩
  have hst : st = rest.foldl (sweepStep c) ⟨p1, s0 + s1, ⟨c, p0, p1, s0⟩, []⟩ := by
    show List.foldl _ _ _ = _
    rw [List.foldl_cons, e1]
  obtain ⟨⟨ht, hv, ha⟩, hlast⟩ := fold_inv c p0 F rest _ hinv1 k3
  rw [← hst] at ht hv ha hlast
  simp only at hlast
  rw [hlast] at ht
  have hb := RT_bounds _ _ _ ht
  refine ⟨?_, ?_, ?_, ?_⟩
  · intro x hx
    have hx' : x ∈ st.prev :: st.out := List.mem_reverse.mp hx
    exact ⟨(hv x hx').1, (hb.2 x hx').2.1, (hv x hx').2⟩
  · exact List.pairwise_reverse.mpr (RT_pairwise _ _ _ ht)
  · intro p
    rw [RT_cover _ _ _ ht p]
    simp only [L, List.mem_reverse]
  · exact (Adj_reverse _ _).mpr ha

end BV.C08
