import BedVerif.Model.BufRead
import BedVerif.Lemmas.C09Le
import BedVerif.Lemmas.C09Read
/-!
The chunk read through `BufReader` (any capacity, any initial buffer content) over a storage with any
fault plan. The logical remaining stream of a `BufR` is `r.buf ++ r.inner.rest`.
-/
namespace BV

/-- the bytes still to be delivered: buffered, then unread in the storage -/
def BufR.strm (r : BufR) : Bytes := r.buf ++ r.inner.rest

theorem C09_take_drop_min {α : Type} : ∀ (l : List α) (n c : Nat),
    (l.take c).drop n ++ l.drop c = l.drop (min n c) := by
  intro l
  induction l with
  | nil => intro n c; simp
  | cons a l ih =>
    intro n c
    cases c with
    | zero => simp
    | succ c =>
      cases n with
      | zero => simp
      | succ n =>
        rw [Nat.succ_min_succ]
        simp only [List.take_succ_cons, List.drop_succ_cons]
        exact ih n c

/-- one `BufReader::read` of `n > 0` bytes -/
def ReadOut (r : BufR) (n : Nat) (q : RRes × BufR) : Prop :=
  q.2.inner.plan <:+ r.inner.plan ∧
  ((q.1 = .err ∧ RFault.fail ∈ r.inner.plan) ∨
   (q.1 = .interrupted ∧ q.2.strm = r.strm ∧ q.2.inner.plan.length < r.inner.plan.length) ∨
   (∃ m, 1 ≤ m ∧ m ≤ n ∧ q.1 = .data (r.strm.take m) ∧ q.2.strm = r.strm.drop m))

/-- `fill_buf` on an empty buffer, then copy -/
theorem C09_read_fill (cap : Nat) (rest : Bytes) (plan : List RFault) (n : Nat) (hn : 0 < n) (hc : n < cap) :
    ReadOut ⟨cap, [], ⟨rest, plan⟩⟩ n (BufR.read ⟨cap, [], ⟨rest, plan⟩⟩ n) := by
  have hb : ¬ cap ≤ n := by omega
  cases plan with
  | nil =>
    have e : BufR.read ⟨cap, [], ⟨rest, []⟩⟩ n =
        (.data ((rest.take cap).take n), ⟨cap, (rest.take cap).drop n, ⟨rest.drop cap, []⟩⟩) := by
      simp [BufR.read, RStore.read, hb]
    rw [e]
    refine ⟨List.suffix_refl _, .inr (.inr ⟨min n cap, by omega, by omega, ?_, ?_⟩)⟩
    · simp [BufR.strm, List.take_take]
    · simp only [BufR.strm, List.nil_append]
      exact C09_take_drop_min rest n cap
  | cons f p =>
    cases f with
    | fail =>
      have e : BufR.read ⟨cap, [], ⟨rest, .fail :: p⟩⟩ n = (.err, ⟨cap, [], ⟨rest, p⟩⟩) := by
        simp [BufR.read, RStore.read, hb]
      rw [e]
      exact ⟨List.suffix_cons _ _, .inl ⟨rfl, by simp⟩⟩
    | interrupted =>
      have e : BufR.read ⟨cap, [], ⟨rest, .interrupted :: p⟩⟩ n = (.interrupted, ⟨cap, [], ⟨rest, p⟩⟩) := by
        simp [BufR.read, RStore.read, hb]
      rw [e]
      exact ⟨List.suffix_cons _ _, .inr (.inl ⟨rfl, rfl, by simp⟩)⟩
    | give k =>
      have e : BufR.read ⟨cap, [], ⟨rest, .give k :: p⟩⟩ n =
          (.data ((rest.take (min (max k 1) cap)).take n),
            ⟨cap, (rest.take (min (max k 1) cap)).drop n, ⟨rest.drop (min (max k 1) cap), p⟩⟩) := by
        simp [BufR.read, RStore.read, hb]
      rw [e]
      refine ⟨List.suffix_cons _ _, .inr (.inr ⟨min n (min (max k 1) cap), by omega, by omega, ?_, ?_⟩)⟩
      · simp [BufR.strm, List.take_take]
      · simp only [BufR.strm, List.nil_append]
        exact C09_take_drop_min rest n _

/-- bypass: nothing buffered and the request is at least the capacity -/
theorem C09_read_bypass (cap : Nat) (rest : Bytes) (plan : List RFault) (n : Nat) (hn : 0 < n) (hb : cap ≤ n) :
    ReadOut ⟨cap, [], ⟨rest, plan⟩⟩ n (BufR.read ⟨cap, [], ⟨rest, plan⟩⟩ n) := by
  cases plan with
  | nil =>
    have e : BufR.read ⟨cap, [], ⟨rest, []⟩⟩ n = (.data (rest.take n), ⟨cap, [], ⟨rest.drop n, []⟩⟩) := by
      simp [BufR.read, RStore.read, hb]
    rw [e]
    exact ⟨List.suffix_refl _, .inr (.inr ⟨n, by omega, by omega, rfl, rfl⟩)⟩
  | cons f p =>
    cases f with
    | fail =>
      have e : BufR.read ⟨cap, [], ⟨rest, .fail :: p⟩⟩ n = (.err, ⟨cap, [], ⟨rest, p⟩⟩) := by
        simp [BufR.read, RStore.read, hb]
      rw [e]
      exact ⟨List.suffix_cons _ _, .inl ⟨rfl, by simp⟩⟩
    | interrupted =>
      have e : BufR.read ⟨cap, [], ⟨rest, .interrupted :: p⟩⟩ n = (.interrupted, ⟨cap, [], ⟨rest, p⟩⟩) := by
        simp [BufR.read, RStore.read, hb]
      rw [e]
      exact ⟨List.suffix_cons _ _, .inr (.inl ⟨rfl, rfl, by simp⟩)⟩
    | give k =>
      have e : BufR.read ⟨cap, [], ⟨rest, .give k :: p⟩⟩ n =
          (.data (rest.take (min (max k 1) n)), ⟨cap, [], ⟨rest.drop (min (max k 1) n), p⟩⟩) := by
        simp [BufR.read, RStore.read, hb]
      rw [e]
      exact ⟨List.suffix_cons _ _, .inr (.inr ⟨min (max k 1) n, by omega, by omega, rfl, rfl⟩)⟩

theorem BufR.read_spec (r : BufR) (n : Nat) (hn : 0 < n) : ReadOut r n (r.read n) := by
  obtain ⟨cap, buf, rest, plan⟩ := r
  cases buf with
  | cons a buf =>
    have e : BufR.read ⟨cap, a :: buf, ⟨rest, plan⟩⟩ n =
        (.data ((a :: buf).take n), ⟨cap, (a :: buf).drop n, ⟨rest, plan⟩⟩) := by
      simp [BufR.read]
    rw [e]
    refine ⟨List.suffix_refl _, .inr (.inr ⟨min n (a :: buf).length, by simp; omega, by omega, ?_, ?_⟩)⟩
    · simp only [BufR.strm]
      rw [List.take_append]
      have : min n (a :: buf).length - (a :: buf).length = 0 := by omega
      rw [this, List.take_zero, List.append_nil, ← List.take_take, List.take_length]
    · simp only [BufR.strm]
      rw [List.drop_append]
      have : min n (a :: buf).length - (a :: buf).length = 0 := by omega
      rw [this, List.drop_zero]
      congr 1
      by_cases h : n ≤ (a :: buf).length
      · rw [Nat.min_eq_left h]
      · rw [Nat.min_eq_right (by omega), List.drop_length, List.drop_eq_nil_of_le (by omega)]
  | nil =>
    by_cases hb : cap ≤ n
    · exact C09_read_bypass cap rest plan n hn hb
    · exact C09_read_fill cap rest plan n hn (by omega)

/-- outcome of a successful-or-failed exact read of the first `n` bytes of the stream -/
def BGood (r : BufR) (n : Nat) (acc : Bytes) (q : ExactRes × BufR) : Prop :=
  q.2.inner.plan <:+ r.inner.plan ∧
    ((q.1 = .ok (acc ++ r.strm.take n) ∧ q.2.strm = r.strm.drop n) ∨ (q.1 = .err ∧ RFault.fail ∈ r.inner.plan))

theorem BGood.step {r r' : BufR} {n m : Nat} {acc : Bytes} {q : ExactRes × BufR}
    (hm : m ≤ n) (hrest : r'.strm = r.strm.drop m) (hplan : r'.inner.plan <:+ r.inner.plan)
    (h : BGood r' (n - m) (acc ++ r.strm.take m) q) : BGood r n acc q := by
  obtain ⟨h1, h2⟩ := h
  refine ⟨h1.trans hplan, ?_⟩
  rcases h2 with ⟨a, b⟩ | ⟨a, b⟩
  · left
    have e : n = m + (n - m) := by omega
    refine ⟨?_, ?_⟩
    · rw [a, hrest, List.append_assoc]
      conv => rhs; rw [e, List.take_add]
    · rw [b, hrest, List.drop_drop]
      congr 1; omega
  · right
    exact ⟨a, hplan.subset b⟩

theorem C09_take_nonempty {α : Type} (l : List α) (m : Nat) (h1 : 1 ≤ m) (h2 : m ≤ l.length) :
    (l.take m).length = m ∧ (l.take m).isEmpty = false := by
  have hl : (l.take m).length = m := by rw [List.length_take]; omega
  refine ⟨hl, ?_⟩
  cases h : l.take m with
  | nil => rw [h] at hl; simp at hl; omega
  | cons => rfl

theorem BufR.readExactLoop_spec : ∀ (fuel : Nat) (r : BufR) (n : Nat) (acc : Bytes),
    n ≤ r.strm.length → n + r.inner.plan.length < fuel → BGood r n acc (BufR.readExactLoop fuel r n acc) := by
  intro fuel
  induction fuel with
  | zero => intro r n acc _ h; omega
  | succ fuel ih =>
    intro r n acc hn hf
    by_cases h0 : n = 0
    · subst h0
      simp [BufR.readExactLoop, BGood]
    · have h := BufR.read_spec r n (by omega)
      unfold BufR.readExactLoop
      simp only [h0, if_false]
      generalize r.read n = q at h
      obtain ⟨res, r'⟩ := q
      obtain ⟨suf, h⟩ := h
      simp only at suf h
      rcases h with ⟨a, b⟩ | ⟨a, b, c⟩ | ⟨m, hm1, hm2, a, b⟩
      · subst a
        exact ⟨suf, .inr ⟨rfl, b⟩⟩
      · subst a
        simp only
        refine BGood.step (r' := r') (m := 0) (Nat.zero_le n) (by simpa using b) suf ?_
        simp only [List.take_zero, List.append_nil, Nat.sub_zero]
        apply ih
        · rw [b]; exact hn
        · omega
      · subst a
        obtain ⟨hl, hne⟩ := C09_take_nonempty r.strm m hm1 (by omega)
        simp only [hne, hl]
        refine BGood.step (r' := r') hm2 b suf ?_
        apply ih
        · rw [b, List.length_drop]; omega
        · have := suf.length_le; omega

theorem BufR.readExactLoop_eof : ∀ (fuel : Nat) (r : BufR) (n : Nat) (acc : Bytes),
    r.strm = [] → n ≠ 0 → r.inner.plan.length < fuel →
    (BufR.readExactLoop fuel r n acc).1 = .eof ∨
      ((BufR.readExactLoop fuel r n acc).1 = .err ∧ RFault.fail ∈ r.inner.plan) := by
  intro fuel
  induction fuel with
  | zero => intro r n acc _ _ h; omega
  | succ fuel ih =>
    intro r n acc hr h0 hf
    have h := BufR.read_spec r n (by omega)
    unfold BufR.readExactLoop
    simp only [h0, if_false]
    generalize r.read n = q at h
    obtain ⟨res, r'⟩ := q
    obtain ⟨suf, h⟩ := h
    simp only at suf h
    rcases h with ⟨a, b⟩ | ⟨a, b, c⟩ | ⟨m, hm1, hm2, a, b⟩
    · subst a
      exact .inr ⟨rfl, b⟩
    · subst a
      simp only
      rcases ih r' n acc (by rw [b, hr]) h0 (by omega) with h | ⟨h, h'⟩
      · exact .inl h
      · exact .inr ⟨h, suf.subset h'⟩
    · subst a
      left
      simp [hr]

theorem BufR.readExact_spec (fuel : Nat) (r : BufR) (n : Nat)
    (hn : n ≤ r.strm.length) (hf : n + r.inner.plan.length < fuel) : BGood r n [] (r.readExact fuel n) := by
  unfold BufR.readExact
  by_cases h : n ≤ r.buf.length
  · simp only [h, if_true]
    refine ⟨List.suffix_refl _, .inl ⟨?_, ?_⟩⟩
    · have : n - r.buf.length = 0 := by omega
      simp [BufR.strm, List.take_append, this]
    · have : n - r.buf.length = 0 := by omega
      simp [BufR.strm, List.drop_append, this]
  · simp only [h, if_false]
    exact BufR.readExactLoop_spec fuel r n [] hn hf

theorem BufR.readExact_eof (fuel : Nat) (r : BufR) (n : Nat)
    (hr : r.strm = []) (h0 : n ≠ 0) (hf : r.inner.plan.length < fuel) :
    (r.readExact fuel n).1 = .eof ∨ ((r.readExact fuel n).1 = .err ∧ RFault.fail ∈ r.inner.plan) := by
  unfold BufR.readExact
  have hb : r.buf = [] := by
    simp only [BufR.strm, List.append_eq_nil_iff] at hr; exact hr.1
  have h : ¬ n ≤ r.buf.length := by rw [hb]; simp; omega
  simp only [h, if_false]
  exact BufR.readExactLoop_eof fuel r n [] hr h0 hf

theorem chunkNextBuf_nil (r : BufR) (hr : r.strm = []) :
    (chunkNextBuf r).1 = none ∨ ((chunkNextBuf r).1 = some .err ∧ RFault.fail ∈ r.inner.plan) := by
  have h := BufR.readExact_eof (8 + r.inner.plan.length + 2) r 8 hr (by omega) (by omega)
  unfold chunkNextBuf
  generalize r.readExact (8 + r.inner.plan.length + 2) 8 = q at h ⊢
  obtain ⟨q, r1⟩ := q
  rcases h with h | ⟨h, h'⟩
  · simp only at h; subst h; exact .inl rfl
  · simp only at h; subst h; exact .inr ⟨rfl, h'⟩

theorem chunkNextBuf_ok {r r1 r2 : BufR} {hdr p : Bytes} {n : Nat}
    (h1 : r.readExact (8 + r.inner.plan.length + 2) 8 = (.ok hdr, r1)) (hn : unle64 hdr = n)
    (h2 : r1.readExact (n + r1.inner.plan.length + 2) n = (.ok p, r2)) :
    chunkNextBuf r = (some (.ok p), r2) := by
  subst hn
  unfold chunkNextBuf
  rw [h1]
  simp only
  rw [h2]

theorem chunkNextBuf_err1 {r r1 : BufR}
    (h1 : r.readExact (8 + r.inner.plan.length + 2) 8 = (.err, r1)) :
    chunkNextBuf r = (some .err, r1) := by
  unfold chunkNextBuf
  rw [h1]

theorem chunkNextBuf_err2 {r r1 r2 : BufR} {hdr : Bytes} {n : Nat}
    (h1 : r.readExact (8 + r.inner.plan.length + 2) 8 = (.ok hdr, r1)) (hn : unle64 hdr = n)
    (h2 : r1.readExact (n + r1.inner.plan.length + 2) n = (.err, r2)) :
    chunkNextBuf r = (some .err, r2) := by
  subst hn
  unfold chunkNextBuf
  rw [h1]
  simp only
  rw [h2]

theorem chunkNextBuf_cons (p : Bytes) (ps : List Bytes) (r : BufR) (hr : r.strm = frames (p :: ps))
    (hp : p.length < 2^64) :
    (∃ r', chunkNextBuf r = (some (.ok p), r') ∧ r'.strm = frames ps ∧ r'.inner.plan <:+ r.inner.plan) ∨
    ((chunkNextBuf r).1 = some .err ∧ RFault.fail ∈ r.inner.plan) := by
  have hl := C09_le64_length p.length
  have h1 := BufR.readExact_spec (8 + r.inner.plan.length + 2) r 8
    (by rw [hr, frames_cons, List.length_append, hl]; omega) (by omega)
  have t8 : (frames (p :: ps)).take 8 = le64 p.length := by
    rw [frames_cons]; exact List.take_left' hl
  have d8 : (frames (p :: ps)).drop 8 = p ++ frames ps := by
    rw [frames_cons]; exact List.drop_left' hl
  cases e1 : r.readExact (8 + r.inner.plan.length + 2) 8 with
  | mk q1 r1 =>
  rw [e1] at h1
  obtain ⟨suf1, h1⟩ := h1
  simp only [hr, t8, d8, List.nil_append] at h1 suf1
  rcases h1 with ⟨a, b⟩ | ⟨a, b⟩
  · subst a
    have h2 := BufR.readExact_spec (p.length + r1.inner.plan.length + 2) r1 p.length (by rw [b]; simp) (by omega)
    cases e2 : r1.readExact (p.length + r1.inner.plan.length + 2) p.length with
    | mk q2 r2 =>
    rw [e2] at h2
    obtain ⟨suf2, h2⟩ := h2
    rw [b, List.take_left' rfl, List.drop_left' rfl, List.nil_append] at h2
    simp only at h2 suf2
    rcases h2 with ⟨a2, b2⟩ | ⟨a2, b2⟩
    · subst a2
      left
      exact ⟨r2, chunkNextBuf_ok e1 (C09_unle64_le64 _ hp) e2, b2, suf2.trans suf1⟩
    · subst a2
      right
      rw [chunkNextBuf_err2 e1 (C09_unle64_le64 _ hp) e2]
      exact ⟨rfl, suf1.subset b2⟩
  · subst a
    right
    rw [chunkNextBuf_err1 e1]
    exact ⟨rfl, b⟩

theorem chunkItemsBuf_none {r : BufR} (n : Nat) (h : (chunkNextBuf r).1 = none) : chunkItemsBuf (n+1) r = [] := by
  unfold chunkItemsBuf
  cases e : chunkNextBuf r with
  | mk a b => rw [e] at h; simp only at h; subst h; rfl

theorem chunkItemsBuf_err {r : BufR} (n : Nat) (h : (chunkNextBuf r).1 = some .err) :
    chunkItemsBuf (n+1) r = [.err] := by
  unfold chunkItemsBuf
  cases e : chunkNextBuf r with
  | mk a b => rw [e] at h; simp only at h; subst h; rfl

theorem chunkItemsBuf_step {r r' : BufR} {p : Bytes} (n : Nat) (h : chunkNextBuf r = (some (.ok p), r')) :
    chunkItemsBuf (n+1) r = .ok p :: chunkItemsBuf n r' := by
  rw [chunkItemsBuf, h]

/-- generalised to any reader state whose remaining stream is `frames ps` -/
theorem chunkItemsBuf_ok_gen : ∀ (ps : List Bytes) (r : BufR), r.strm = frames ps →
    (∀ f ∈ r.inner.plan, f ≠ RFault.fail) → (∀ p ∈ ps, p.length < 2^64) →
    chunkItemsBuf (ps.length + 1) r = ps.map .ok := by
  intro ps
  induction ps with
  | nil =>
    intro r hr hn _
    rcases chunkNextBuf_nil r hr with h | ⟨_, h⟩
    · exact chunkItemsBuf_none _ h
    · exact absurd rfl (hn _ h)
  | cons p ps ih =>
    intro r hr hn hp
    rcases chunkNextBuf_cons p ps r hr (hp p (List.mem_cons_self ..)) with ⟨r', h, hr', suf⟩ | ⟨_, h⟩
    · rw [List.length_cons, chunkItemsBuf_step _ h, List.map_cons,
        ih r' hr' (fun f hf => hn f (suf.subset hf)) (fun q hq => hp q (List.mem_cons_of_mem _ hq))]
    · exact absurd rfl (hn _ h)

theorem chunkItemsBuf_any_gen : ∀ (ps : List Bytes) (r : BufR), r.strm = frames ps →
    (∀ p ∈ ps, p.length < 2^64) →
    ∃ k, k ≤ ps.length ∧
      (chunkItemsBuf (ps.length + 1) r = (ps.take k).map .ok ++ [.err] ∨
       (chunkItemsBuf (ps.length + 1) r = (ps.take k).map .ok ∧ k = ps.length)) := by
  intro ps
  induction ps with
  | nil =>
    intro r hr _
    refine ⟨0, Nat.le_refl _, ?_⟩
    rcases chunkNextBuf_nil r hr with h | ⟨h, _⟩
    · exact .inr ⟨chunkItemsBuf_none _ h, rfl⟩
    · exact .inl (chunkItemsBuf_err _ h)
  | cons p ps ih =>
    intro r hr hp
    rcases chunkNextBuf_cons p ps r hr (hp p (List.mem_cons_self ..)) with ⟨r', h, hr', _⟩ | ⟨h, _⟩
    · obtain ⟨k, hk, hh⟩ := ih r' hr' (fun q hq => hp q (List.mem_cons_of_mem _ hq))
      refine ⟨k + 1, by simp; omega, ?_⟩
      rw [List.length_cons, chunkItemsBuf_step _ h, List.take_succ_cons, List.map_cons]
      rcases hh with hh | ⟨hh, hk'⟩
      · exact .inl (by rw [hh]; rfl)
      · exact .inr ⟨by rw [hh], by rw [hk']⟩
    · exact ⟨0, Nat.zero_le _, .inl (chunkItemsBuf_err _ h)⟩

/-- no hard error in the plan: every record comes back, identical and in order, then the end -/
theorem chunkItemsBuf_ok (cap : Nat) (ps : List Bytes) (plan : List RFault)
    (h : ∀ f ∈ plan, f ≠ RFault.fail) (hp : ∀ p ∈ ps, p.length < 2^64) :
    chunkItemsBuf (ps.length + 1) ⟨cap, [], ⟨frames ps, plan⟩⟩ = ps.map .ok :=
  chunkItemsBuf_ok_gen ps ⟨cap, [], ⟨frames ps, plan⟩⟩ rfl h hp

/-- any plan: a prefix of the records, unaltered and in order, then at most one error item; a chunk
that ends without an error item is complete -/
theorem chunkItemsBuf_any (cap : Nat) (ps : List Bytes) (plan : List RFault)
    (hp : ∀ p ∈ ps, p.length < 2^64) :
    ∃ k, k ≤ ps.length ∧
      (chunkItemsBuf (ps.length + 1) ⟨cap, [], ⟨frames ps, plan⟩⟩ = (ps.take k).map .ok ++ [.err] ∨
       (chunkItemsBuf (ps.length + 1) ⟨cap, [], ⟨frames ps, plan⟩⟩ = (ps.take k).map .ok ∧ k = ps.length)) :=
  chunkItemsBuf_any_gen ps ⟨cap, [], ⟨frames ps, plan⟩⟩ rfl hp

/-- a hard error met on the very first storage read is reported as the first item -/
theorem chunkItemsBuf_fail_first (cap : Nat) (ps : List Bytes) (plan : List RFault) (n : Nat) :
    chunkItemsBuf (n + 1) ⟨cap, [], ⟨frames ps, .fail :: plan⟩⟩ = [.err] := by
  apply chunkItemsBuf_err
  have e : (BufR.mk cap [] ⟨frames ps, .fail :: plan⟩).readExact
      (8 + (BufR.mk cap [] ⟨frames ps, .fail :: plan⟩).inner.plan.length + 2) 8 =
      (.err, ⟨cap, [], ⟨frames ps, plan⟩⟩) := by
    by_cases hb : cap ≤ 8
    · simp [BufR.readExact, BufR.readExactLoop, BufR.read, RStore.read, hb]
    · simp [BufR.readExact, BufR.readExactLoop, BufR.read, RStore.read, hb]
  rw [chunkNextBuf_err1 e]

end BV
