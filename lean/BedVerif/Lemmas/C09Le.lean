import BedVerif.Model.Store
namespace BV

theorem C09_range8 : List.range 8 = [0,1,2,3,4,5,6,7] := by decide

theorem C09_le64_eq (n : Nat) : le64 n =
    [(n % 256).toUInt8, (n / 256 % 256).toUInt8, (n / 256^2 % 256).toUInt8, (n / 256^3 % 256).toUInt8,
     (n / 256^4 % 256).toUInt8, (n / 256^5 % 256).toUInt8, (n / 256^6 % 256).toUInt8, (n / 256^7 % 256).toUInt8] := by
  unfold le64
  rw [C09_range8]
  simp

theorem C09_le64_length (n : Nat) : (le64 n).length = 8 := by
  rw [C09_le64_eq]; rfl

theorem C09_digits (n : Nat) (h : n < 2^64) : n % 256 + n / 256 % 256 * 256 + n / 65536 % 256 * 65536 + n / 16777216 % 256 * 16777216 +
            n / 4294967296 % 256 * 4294967296 +
          n / 1099511627776 % 256 * 1099511627776 +
        n / 281474976710656 % 256 * 281474976710656 +
      n / 72057594037927936 % 256 * 72057594037927936 =
    n := by omega

theorem C09_le_aux0 (a b c d e f g h : UInt8) : unle64 [a,b,c,d,e,f,g,h] = ([a,b,c,d,e,f,g,h].zip [0,1,2,3,4,5,6,7]).foldl (fun acc x => acc + x.1.toNat * 256^x.2) 0 := by
  unfold unle64
  simp only [List.length_cons, List.length_nil, Nat.zero_add, Nat.reduceAdd, C09_range8]
theorem C09_le_aux1g (B : Nat) (a b c d e f g h : UInt8) :  ([a,b,c,d,e,f,g,h].zip [0,1,2,3,4,5,6,7]).foldl (fun acc x => acc + x.1.toNat * B^x.2) 0 = 0 + a.toNat * B^0 + b.toNat * B^1 + c.toNat * B^2 + d.toNat * B^3 +
            e.toNat * B^4 +
          f.toNat * B^5 +
        g.toNat * B^6 +
      h.toNat * B^7 := by
  simp only [List.zip_cons_cons, List.zip_nil_right, List.foldl_cons, List.foldl_nil]
theorem C09_le_aux1 (a b c d e f g h : UInt8) :  ([a,b,c,d,e,f,g,h].zip [0,1,2,3,4,5,6,7]).foldl (fun acc x => acc + x.1.toNat * 256^x.2) 0 = 0 + a.toNat * 256^0 + b.toNat * 256^1 + c.toNat * 256^2 + d.toNat * 256^3 +
            e.toNat * 256^4 +
          f.toNat * 256^5 +
        g.toNat * 256^6 +
      h.toNat * 256^7 := C09_le_aux1g 256 a b c d e f g h
theorem C09_le_aux2 (a b c d e f g h : UInt8) :  0 + a.toNat * 256^0 + b.toNat * 256^1 + c.toNat * 256^2 + d.toNat * 256^3 +
            e.toNat * 256^4 +
          f.toNat * 256^5 +
        g.toNat * 256^6 +
      h.toNat * 256^7 = a.toNat + b.toNat * 256 + c.toNat * 65536 + d.toNat * 16777216 +
            e.toNat * 4294967296 +
          f.toNat * 1099511627776 +
        g.toNat * 281474976710656 +
      h.toNat * 72057594037927936 := by
  simp only [ Nat.reducePow, Nat.zero_add, Nat.pow_zero, Nat.mul_one, Nat.pow_one]
theorem C09_le_aux3 (x : Nat) : (x % 256).toUInt8.toNat = x % 256 := by
  simp only [Nat.toUInt8_eq, UInt8.toNat_ofNat', Nat.reducePow, Nat.dvd_refl, Nat.mod_mod_of_dvd]
theorem C09_unle64_le64 (n : Nat) (h : n < 2^64) : unle64 (le64 n) = n := by
  rw [C09_le64_eq, C09_le_aux0, C09_le_aux1, C09_le_aux2]
  simp only [C09_le_aux3]
  simp only [Nat.reducePow]
  exact C09_digits n h
theorem frames_cons (p : Bytes) (ps : List Bytes) : frames (p :: ps) = le64 p.length ++ (p ++ frames ps) := by
  simp [frames, frame]

theorem frames_nil : frames [] = [] := rfl

end BV
