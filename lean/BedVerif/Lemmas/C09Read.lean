import BedVerif.Model.Store
import BedVerif.Lemmas.C09Le
namespace BV

/-- outcome of a successful-or-failed exact read of the first `n` bytes of `s.rest` -/
def RGood (s : RStore) (n : Nat) (acc : Bytes) (r : ExactRes × RStore) : Prop :=
  r.2.plan <:+ s.plan ∧
    ((r.1 = .ok (acc ++ s.rest.take n) ∧ r.2.rest = s.rest.drop n) ∨ (r.1 = .err ∧ RFault.fail ∈ s.plan))

theorem RGood.step {s s' : RStore} {n m : Nat} {acc : Bytes} {r : ExactRes × RStore}
    (hm : m ≤ n) (hrest : s'.rest = s.rest.drop m) (hplan : s'.plan <:+ s.plan)
    (h : RGood s' (n - m) (acc ++ s.rest.take m) r) : RGood s n acc r := by
  obtain ⟨h1, h2⟩ := h
  refine ⟨h1.trans hplan, ?_⟩
  rcases h2 with ⟨a, b⟩ | ⟨a, b⟩
  · left
    have e : n = m + (n - m) := by omega
    refine ⟨?_, ?_⟩
    · rw [a, hrest, List.append_assoc]
      conv => rhs; rw [e, List.take_add]
    · rw [b, hrest, List.drop_drop]
      congr 1; omega
  · right
    exact ⟨a, hplan.subset b⟩

theorem readExact_spec : ∀ (fuel : Nat) (s : RStore) (n : Nat) (acc : Bytes),
    n ≤ s.rest.length → n + s.plan.length < fuel → RGood s n acc (readExact fuel s n acc) := by
  intro fuel
  induction fuel with
  | zero => intro s n acc _ h; omega
  | succ fuel ih =>
    intro s n acc hn hf
    by_cases h0 : n = 0
    · subst h0
      simp [readExact, RGood]
    · obtain ⟨rest, plan⟩ := s
      simp only at hn hf
      cases plan with
      | nil =>
        have hl : (rest.take n).length = n := by rw [List.length_take]; omega
        have hne : (rest.take n).isEmpty = false := by
          cases h : rest.take n with
          | nil => rw [h] at hl; simp at hl; omega
          | cons => rfl
        have e : readExact (fuel+1) ⟨rest, []⟩ n acc = readExact fuel ⟨rest.drop n, []⟩ (n - n) (acc ++ rest.take n) := by
          simp only [readExact, RStore.read, h0, if_false, hne, hl]
          simp
        rw [e]
        refine RGood.step (s' := ⟨rest.drop n, []⟩) (Nat.le_refl n) rfl (List.suffix_refl _) ?_
        apply ih
        · simp
        · simp at hf ⊢; omega
      | cons f p =>
        cases f with
        | fail =>
          have e : readExact (fuel+1) ⟨rest, .fail :: p⟩ n acc = (.err, ⟨rest, p⟩) := by
            simp [readExact, RStore.read, h0]
          rw [e]
          exact ⟨List.suffix_cons _ _, .inr ⟨rfl, by simp⟩⟩
        | interrupted =>
          have e : readExact (fuel+1) ⟨rest, .interrupted :: p⟩ n acc = readExact fuel ⟨rest, p⟩ n acc := by
            simp [readExact, RStore.read, h0]
          rw [e]
          refine RGood.step (s' := ⟨rest, p⟩) (m := 0) (Nat.zero_le n) rfl (List.suffix_cons _ _) ?_
          simp only [List.take_zero, List.append_nil, Nat.sub_zero]
          apply ih
          · exact hn
          · simp at hf ⊢; omega
        | give k =>
          obtain ⟨m, hm, hm1, hm2⟩ : ∃ m, min (max k 1) n = m ∧ 1 ≤ m ∧ m ≤ n := ⟨_, rfl, by omega, by omega⟩
          have hl : (rest.take m).length = m := by rw [List.length_take]; omega
          have hne : (rest.take m).isEmpty = false := by
            cases h : rest.take m with
            | nil => rw [h] at hl; simp at hl; omega
            | cons => rfl
          have e : readExact (fuel+1) ⟨rest, .give k :: p⟩ n acc =
              readExact fuel ⟨rest.drop m, p⟩ (n - m) (acc ++ rest.take m) := by
            simp only [readExact, RStore.read, h0, if_false, hm, hne, hl]
            simp
          rw [e]
          refine RGood.step (s' := ⟨rest.drop m, p⟩) hm2 rfl (List.suffix_cons _ _) ?_
          apply ih
          · simp; omega
          · simp at hf ⊢; omega

theorem readExact_eof : ∀ (fuel : Nat) (s : RStore) (n : Nat) (acc : Bytes),
    s.rest = [] → n ≠ 0 → s.plan.length < fuel →
    (readExact fuel s n acc).1 = .eof ∨ ((readExact fuel s n acc).1 = .err ∧ RFault.fail ∈ s.plan) := by
  intro fuel
  induction fuel with
  | zero => intro s n acc _ _ h; omega
  | succ fuel ih =>
    intro s n acc hr h0 hf
    obtain ⟨rest, plan⟩ := s
    simp only at hr hf
    subst hr
    cases plan with
    | nil => left; simp [readExact, RStore.read, h0]
    | cons f p =>
      cases f with
      | fail => right; simp [readExact, RStore.read, h0]
      | give k => left; simp [readExact, RStore.read, h0]
      | interrupted =>
        have e : readExact (fuel+1) ⟨[], .interrupted :: p⟩ n acc = readExact fuel ⟨[], p⟩ n acc := by
          simp [readExact, RStore.read, h0]
        rw [e]
        rcases ih ⟨[], p⟩ n acc rfl h0 (by simp at hf ⊢; omega) with h | ⟨h, h'⟩
        · exact .inl h
        · exact .inr ⟨h, List.mem_cons_of_mem _ h'⟩

theorem chunkNext_nil (plan : List RFault) :
    (chunkNext ⟨[], plan⟩).1 = none ∨ ((chunkNext ⟨[], plan⟩).1 = some .err ∧ RFault.fail ∈ plan) := by
  have h := readExact_eof (8 + plan.length + 1) ⟨[], plan⟩ 8 [] rfl (by omega) (by simp; omega)
  unfold chunkNext
  simp only at h ⊢
  generalize readExact (8 + plan.length + 1) ⟨[], plan⟩ 8 [] = r at h ⊢
  obtain ⟨r, s1⟩ := r
  rcases h with h | ⟨h, h'⟩
  · simp only at h; subst h; exact .inl rfl
  · simp only at h; subst h; exact .inr ⟨rfl, h'⟩

theorem chunkNext_ok {s s1 s2 : RStore} {hdr p : Bytes} {n : Nat}
    (h1 : readExact (8 + s.plan.length + 1) s 8 [] = (.ok hdr, s1)) (hn : unle64 hdr = n)
    (h2 : readExact (n + s1.plan.length + 1) s1 n [] = (.ok p, s2)) :
    chunkNext s = (some (.ok p), s2) := by
  subst hn
  unfold chunkNext
  rw [h1]
  simp only
  rw [h2]

theorem chunkNext_err1 {s s1 : RStore}
    (h1 : readExact (8 + s.plan.length + 1) s 8 [] = (.err, s1)) :
    chunkNext s = (some .err, s1) := by
  unfold chunkNext
  rw [h1]

theorem chunkNext_err2 {s s1 s2 : RStore} {hdr : Bytes} {n : Nat}
    (h1 : readExact (8 + s.plan.length + 1) s 8 [] = (.ok hdr, s1)) (hn : unle64 hdr = n)
    (h2 : readExact (n + s1.plan.length + 1) s1 n [] = (.err, s2)) :
    chunkNext s = (some .err, s2) := by
  subst hn
  unfold chunkNext
  rw [h1]
  simp only
  rw [h2]

theorem chunkNext_cons (p : Bytes) (ps : List Bytes) (plan : List RFault) (hp : p.length < 2^64) :
    (∃ plan', chunkNext ⟨frames (p :: ps), plan⟩ = (some (.ok p), ⟨frames ps, plan'⟩) ∧ plan' <:+ plan) ∨
    ((chunkNext ⟨frames (p :: ps), plan⟩).1 = some .err ∧ RFault.fail ∈ plan) := by
  have hl := C09_le64_length p.length
  have h1 := readExact_spec (8 + plan.length + 1) ⟨frames (p :: ps), plan⟩ 8 []
    (by rw [frames_cons, List.length_append, hl]; omega) (by show 8 + plan.length < _; omega)
  have t8 : (frames (p :: ps)).take 8 = le64 p.length := by
    rw [frames_cons]; exact List.take_left' hl
  have d8 : (frames (p :: ps)).drop 8 = p ++ frames ps := by
    rw [frames_cons]; exact List.drop_left' hl
  cases e1 : readExact (8 + plan.length + 1) ⟨frames (p :: ps), plan⟩ 8 [] with
  | mk r1 s1 =>
  rw [e1] at h1
  obtain ⟨suf1, h1⟩ := h1
  simp only [t8, d8, List.nil_append] at h1 suf1
  rcases h1 with ⟨a, b⟩ | ⟨a, b⟩
  · subst a
    have h2 := readExact_spec (p.length + s1.plan.length + 1) s1 p.length [] (by rw [b]; simp) (by omega)
    cases e2 : readExact (p.length + s1.plan.length + 1) s1 p.length [] with
    | mk r2 s2 =>
    rw [e2] at h2
    obtain ⟨suf2, h2⟩ := h2
    rw [b, List.take_left' rfl, List.drop_left' rfl, List.nil_append] at h2
    simp only at h2 suf2
    rcases h2 with ⟨a2, b2⟩ | ⟨a2, b2⟩
    · subst a2
      left
      obtain ⟨rest2, plan2⟩ := s2
      simp only at b2 suf2
      subst b2
      exact ⟨plan2, chunkNext_ok e1 (C09_unle64_le64 _ hp) e2, suf2.trans suf1⟩
    · subst a2
      right
      rw [chunkNext_err2 e1 (C09_unle64_le64 _ hp) e2]
      exact ⟨rfl, suf1.subset b2⟩
  · subst a
    right
    rw [chunkNext_err1 e1]
    exact ⟨rfl, b⟩

theorem chunkItems_none {s : RStore} (n : Nat) (h : (chunkNext s).1 = none) : chunkItems (n+1) s = [] := by
  unfold chunkItems
  cases e : chunkNext s with
  | mk a b => rw [e] at h; simp only at h; subst h; rfl

theorem chunkItems_err {s : RStore} (n : Nat) (h : (chunkNext s).1 = some .err) : chunkItems (n+1) s = [.err] := by
  unfold chunkItems
  cases e : chunkNext s with
  | mk a b => rw [e] at h; simp only at h; subst h; rfl

theorem chunkItems_step {s s' : RStore} {p : Bytes} (n : Nat) (h : chunkNext s = (some (.ok p), s')) :
    chunkItems (n+1) s = .ok p :: chunkItems n s' := by
  rw [chunkItems, h]

theorem chunkItems_ok : ∀ (ps : List Bytes) (plan : List RFault), (∀ f ∈ plan, f ≠ RFault.fail) →
    (∀ p ∈ ps, p.length < 2^64) → chunkItems (ps.length + 1) ⟨frames ps, plan⟩ = ps.map .ok := by
  intro ps
  induction ps with
  | nil =>
    intro plan hn _
    rcases chunkNext_nil plan with h | ⟨_, h⟩
    · exact chunkItems_none _ h
    · exact absurd rfl (hn _ h)
  | cons p ps ih =>
    intro plan hn hp
    rcases chunkNext_cons p ps plan (hp p (List.mem_cons_self ..)) with ⟨plan', h, suf⟩ | ⟨_, h⟩
    · rw [List.length_cons, chunkItems_step _ h, List.map_cons,
        ih plan' (fun f hf => hn f (suf.subset hf)) (fun q hq => hp q (List.mem_cons_of_mem _ hq))]
    · exact absurd rfl (hn _ h)

theorem chunkItems_any : ∀ (ps : List Bytes) (plan : List RFault), (∀ p ∈ ps, p.length < 2^64) →
    ∃ k, k ≤ ps.length ∧
      (chunkItems (ps.length + 1) ⟨frames ps, plan⟩ = (ps.take k).map .ok ++ [.err] ∨
       (chunkItems (ps.length + 1) ⟨frames ps, plan⟩ = (ps.take k).map .ok ∧ k = ps.length)) := by
  intro ps
  induction ps with
  | nil =>
    intro plan _
    refine ⟨0, Nat.le_refl _, ?_⟩
    rcases chunkNext_nil plan with h | ⟨h, _⟩
    · exact .inr ⟨chunkItems_none _ h, rfl⟩
    · exact .inl (chunkItems_err _ h)
  | cons p ps ih =>
    intro plan hp
    rcases chunkNext_cons p ps plan (hp p (List.mem_cons_self ..)) with ⟨plan', h, _⟩ | ⟨h, _⟩
    · obtain ⟨k, hk, hh⟩ := ih plan' (fun q hq => hp q (List.mem_cons_of_mem _ hq))
      refine ⟨k + 1, by simp; omega, ?_⟩
      rw [List.length_cons, chunkItems_step _ h, List.take_succ_cons, List.map_cons]
      rcases hh with hh | ⟨hh, hk'⟩
      · exact .inl (by rw [hh]; rfl)
      · exact .inr ⟨by rw [hh], by rw [hk']⟩
    · exact ⟨0, Nat.zero_le _, .inl (chunkItems_err _ h)⟩

theorem chunkItems_fail_first (ps : List Bytes) (plan : List RFault) (n : Nat) :
    chunkItems (n + 1) ⟨frames ps, .fail :: plan⟩ = [.err] := by
  apply chunkItems_err
  have : readExact (8 + (RFault.fail :: plan).length + 1) ⟨frames ps, .fail :: plan⟩ 8 [] = (.err, ⟨frames ps, plan⟩) := by
    simp [readExact, RStore.read]
  rw [chunkNext_err1 this]

end BV
