import BedVerif.Model.Store
import BedVerif.Lemmas.C09Le
namespace BV

/-- the outcome of a writer run from plan `p0` to plan `p1` with status `r`: the consumed entries are
explicit; `ok` means `good` holds and no hard error was consumed, `err` means a hard error was consumed -/
def WRun (p0 p1 : List WFault) (r : IoRes Unit) (good : Prop) : Prop :=
  ∃ used, p0 = used ++ p1 ∧
    ((r = .ok () ∧ good ∧ ∀ f ∈ used, f ≠ WFault.fail) ∨ (r = .err ∧ WFault.fail ∈ used))

theorem WRun.refl (p : List WFault) (good : Prop) (h : good) : WRun p p (.ok ()) good :=
  ⟨[], rfl, .inl ⟨rfl, h, by simp⟩⟩

theorem WRun.trans {p0 p1 p2 : List WFault} {r : IoRes Unit} {g1 g2 g : Prop}
    (h1 : WRun p0 p1 (.ok ()) g1) (h2 : WRun p1 p2 r g2) (hg : g1 → g2 → g) : WRun p0 p2 r g := by
  obtain ⟨u1, e1, h1⟩ := h1
  obtain ⟨u2, e2, h2⟩ := h2
  refine ⟨u1 ++ u2, by rw [e1, e2, List.append_assoc], ?_⟩
  rcases h1 with ⟨_, hg1, hu1⟩ | ⟨h, _⟩
  · rcases h2 with ⟨hr, hg2, hu2⟩ | ⟨hr, hu2⟩
    · refine .inl ⟨hr, hg hg1 hg2, ?_⟩
      intro f hf
      rcases List.mem_append.mp hf with hf | hf
      · exact hu1 f hf
      · exact hu2 f hf
    · exact .inr ⟨hr, List.mem_append.mpr (.inr hu2)⟩
  · cases h

theorem WRun.err_of_ok {p0 p1 : List WFault} {g1 g : Prop}
    (h1 : WRun p0 p1 .err g1) : WRun p0 p1 .err g := by
  obtain ⟨u1, e1, h1⟩ := h1
  refine ⟨u1, e1, ?_⟩
  rcases h1 with ⟨h, _⟩ | h
  · cases h
  · exact .inr h

theorem WRun.mono {p0 p1 : List WFault} {r : IoRes Unit} {g1 g : Prop}
    (h1 : WRun p0 p1 r g1) (hg : g1 → g) : WRun p0 p1 r g := by
  obtain ⟨u1, e1, h1⟩ := h1
  refine ⟨u1, e1, ?_⟩
  rcases h1 with ⟨h, h', h''⟩ | h
  · exact .inl ⟨h, hg h', h''⟩
  · exact .inr h

/-- after an `ok` run followed by an `err` run the whole is an `err` run -/
theorem WRun.trans_err {p0 p1 p2 : List WFault} {g1 g2 g : Prop}
    (h1 : WRun p0 p1 (.ok ()) g1) (h2 : WRun p1 p2 .err g2) : WRun p0 p2 .err g :=
  WRun.err_of_ok (WRun.trans h1 h2 (fun _ _ => True.intro))

theorem writeAll_spec : ∀ (fuel : Nat) (s : WStore) (buf : Bytes), buf.length < fuel →
    WRun s.plan (s.writeAll fuel buf).2.plan (s.writeAll fuel buf).1
      ((s.writeAll fuel buf).2.data = s.data ++ buf) := by
  intro fuel
  induction fuel with
  | zero => intro s buf h; omega
  | succ fuel ih =>
    intro s buf hlen
    cases buf with
    | nil => simp [WStore.writeAll]; exact WRun.refl _ _ trivial
    | cons b bs =>
      obtain ⟨data, plan⟩ := s
      cases plan with
      | nil =>
        have e : (WStore.mk data []).writeAll (fuel+1) (b :: bs) =
            (WStore.mk (data ++ (b :: bs)) []).writeAll fuel [] := by
          simp [WStore.writeAll, WStore.write]
        rw [e]
        have := ih ⟨data ++ (b :: bs), []⟩ [] (by simp at hlen ⊢; omega)
        simpa using this
      | cons f p =>
        cases f with
        | fail =>
          have e : (WStore.mk data (.fail :: p)).writeAll (fuel+1) (b :: bs) = (.err, ⟨data, p⟩) := by
            simp [WStore.writeAll, WStore.write]
          rw [e]
          exact ⟨[.fail], rfl, .inr ⟨rfl, by simp⟩⟩
        | accept k =>
          obtain ⟨m, hm⟩ : ∃ m, min (max k 1) (bs.length + 1) = m + 1 := ⟨min (max k 1) (bs.length + 1) - 1, by omega⟩
          have e : (WStore.mk data (.accept k :: p)).writeAll (fuel+1) (b :: bs) =
              (WStore.mk (data ++ (b :: bs).take (m+1)) p).writeAll fuel ((b :: bs).drop (m+1)) := by
            simp [WStore.writeAll, WStore.write, hm]
          rw [e]
          have := ih ⟨data ++ (b :: bs).take (m+1), p⟩ ((b :: bs).drop (m+1)) (by simp at hlen ⊢; omega)
          have h1 : WRun (.accept k :: p) p (.ok ()) True := ⟨[.accept k], rfl, .inl ⟨rfl, trivial, by simp⟩⟩
          refine WRun.trans h1 this ?_
          intro _ h
          rw [h]
          simp only [List.append_assoc, List.take_append_drop]

theorem WRun.ok_of_noHard {p0 p1 : List WFault} {r : IoRes Unit} {g : Prop}
    (h : WRun p0 p1 r g) (hn : ∀ f ∈ p0, f ≠ WFault.fail) :
    r = .ok () ∧ g ∧ ∀ f ∈ p1, f ≠ WFault.fail := by
  obtain ⟨u, e, h⟩ := h
  subst e
  rcases h with ⟨hr, hg, _⟩ | ⟨_, hu⟩
  · exact ⟨hr, hg, fun f hf => hn f (List.mem_append.mpr (.inr hf))⟩
  · exact absurd rfl (hn _ (List.mem_append.mpr (.inl hu)))

theorem WRun.of_ok {p0 p1 : List WFault} {r : IoRes Unit} {g : Prop}
    (h : WRun p0 p1 r g) (hr : r = .ok ()) :
    g ∧ ∀ f ∈ p0.take (p0.length - p1.length), f ≠ WFault.fail := by
  obtain ⟨u, e, h⟩ := h
  subst e
  have : (u ++ p1).take ((u ++ p1).length - p1.length) = u := by
    rw [List.length_append, Nat.add_sub_cancel]
    exact List.take_left'  rfl
  rw [this]
  rcases h with ⟨_, hg, hu⟩ | ⟨hr', _⟩
  · exact ⟨hg, hu⟩
  · rw [hr] at hr'; cases hr'

theorem dumpBare_spec : ∀ (ps : List Bytes) (s : WStore),
    WRun s.plan (dumpBare s ps).2.plan (dumpBare s ps).1 ((dumpBare s ps).2.data = s.data ++ frames ps) := by
  intro ps
  induction ps with
  | nil => intro s; simp [dumpBare, frames_nil]; exact WRun.refl _ _ trivial
  | cons p ps ih =>
    intro s
    have h1 := writeAll_spec 9 s (le64 p.length) (by rw [C09_le64_length]; omega)
    unfold dumpBare
    generalize s.writeAll 9 (le64 p.length) = r1 at h1 ⊢
    obtain ⟨r1, s1⟩ := r1
    cases r1 with
    | err => exact WRun.err_of_ok h1
    | ok u =>
      cases u
      have h2 := writeAll_spec (p.length + 1) s1 p (by omega)
      simp only at h1 h2 ⊢
      generalize s1.writeAll (p.length + 1) p = r2 at h2 ⊢
      obtain ⟨r2, s2⟩ := r2
      cases r2 with
      | err => exact WRun.trans_err h1 h2
      | ok u =>
        cases u
        simp only at h2 ⊢
        have h12 := WRun.trans h1 h2 (g := s2.data = s.data ++ le64 p.length ++ p) (by intro a b; rw [b, a])
        refine WRun.trans h12 (ih s2) ?_
        intro a b
        rw [b, a, frames_cons]
        simp only [List.append_assoc]

/-! ### BufWriter -/

theorem flushBuf_spec (w : BufW) :
    WRun w.inner.plan w.flushBuf.2.inner.plan w.flushBuf.1
      (w.flushBuf.2.inner.data = w.inner.data ++ w.buf ∧ w.flushBuf.2.buf = []) := by
  have h := writeAll_spec (w.buf.length + 1) w.inner w.buf (by omega)
  unfold BufW.flushBuf
  generalize w.inner.writeAll (w.buf.length + 1) w.buf = r at h ⊢
  obtain ⟨r, s⟩ := r
  cases r with
  | err => exact WRun.err_of_ok h
  | ok u => cases u; exact WRun.mono h (fun a => ⟨a, rfl⟩)

def BufW.writeTail (w1 : BufW) (b : Bytes) : IoRes Unit × BufW :=
  if b.length ≥ w1.cap then
    match w1.inner.writeAll (b.length + 1) b with
    | (r, s) => (r, { w1 with inner := s })
  else (.ok (), { w1 with buf := w1.buf ++ b })

theorem BufW.writeAll_eq (w : BufW) (b : Bytes) : w.writeAll b =
    if b.length < w.cap - w.buf.length then (.ok (), { w with buf := w.buf ++ b })
    else
      match (if b.length > w.cap - w.buf.length then w.flushBuf else (.ok (), w)) with
      | (.err, w1) => (.err, w1)
      | (.ok (), w1) => w1.writeTail b := rfl

theorem writeTail_spec (w1 : BufW) (b : Bytes) (h : w1.buf = [] ∨ b = [] ∨ b.length < w1.cap) :
    WRun w1.inner.plan (w1.writeTail b).2.inner.plan (w1.writeTail b).1
      ((w1.writeTail b).2.inner.data ++ (w1.writeTail b).2.buf = w1.inner.data ++ w1.buf ++ b) := by
  unfold BufW.writeTail
  split
  · rename_i hc
    have h1 := writeAll_spec (b.length + 1) w1.inner b (by omega)
    generalize w1.inner.writeAll (b.length + 1) b = r at h1 ⊢
    obtain ⟨r, s⟩ := r
    simp only at h1 ⊢
    refine WRun.mono h1 ?_
    intro a
    rw [a]
    rcases h with h | h | h
    · rw [h]; simp
    · rw [h]; simp
    · omega
  · exact WRun.refl _ _ (by simp)

theorem bufWriteAll_spec (w : BufW) (b : Bytes) :
    WRun w.inner.plan (w.writeAll b).2.inner.plan (w.writeAll b).1
      ((w.writeAll b).2.inner.data ++ (w.writeAll b).2.buf = w.inner.data ++ w.buf ++ b) := by
  rw [BufW.writeAll_eq]
  split
  · exact WRun.refl _ _ (by simp)
  · rename_i h1
    by_cases h2 : b.length > w.cap - w.buf.length
    · rw [if_pos h2]
      have hf := flushBuf_spec w
      generalize w.flushBuf = r at hf ⊢
      obtain ⟨r, w1⟩ := r
      cases r with
      | err => exact WRun.err_of_ok hf
      | ok u =>
        cases u
        simp only at hf ⊢
        have hb : w1.buf = [] := by
          obtain ⟨_, _, hh⟩ := hf
          rcases hh with ⟨_, hh, _⟩ | ⟨hh, _⟩
          · exact hh.2
          · cases hh
        refine WRun.trans hf (writeTail_spec w1 b (.inl hb)) ?_
        intro a c
        rw [c, a.1, a.2]
        simp
    · rw [if_neg h2]
      simp only
      by_cases h3 : b.length < w.cap
      · exact writeTail_spec w b (.inr (.inr h3))
      · have : w.buf.length = 0 ∨ b.length = 0 := by omega
        rcases this with h | h
        · exact writeTail_spec w b (.inl (List.eq_nil_of_length_eq_zero h))
        · exact writeTail_spec w b (.inr (.inl (List.eq_nil_of_length_eq_zero h)))

theorem dumpBuf_spec : ∀ (ps : List Bytes) (w : BufW),
    WRun w.inner.plan (dumpBuf w ps).2.inner.plan (dumpBuf w ps).1
      ((dumpBuf w ps).2.inner.data = w.inner.data ++ w.buf ++ frames ps ∧ (dumpBuf w ps).2.buf = []) := by
  intro ps
  induction ps with
  | nil =>
    intro w
    simp only [dumpBuf, frames_nil, List.append_nil]
    exact flushBuf_spec w
  | cons p ps ih =>
    intro w
    have h1 := bufWriteAll_spec w (le64 p.length)
    unfold dumpBuf
    generalize w.writeAll (le64 p.length) = r1 at h1 ⊢
    obtain ⟨r1, w1⟩ := r1
    cases r1 with
    | err => exact WRun.err_of_ok h1
    | ok u =>
      cases u
      have h2 := bufWriteAll_spec w1 p
      simp only at h1 h2 ⊢
      generalize w1.writeAll p = r2 at h2 ⊢
      obtain ⟨r2, w2⟩ := r2
      cases r2 with
      | err => exact WRun.trans_err h1 h2
      | ok u =>
        cases u
        simp only at h2 ⊢
        have h12 := WRun.trans h1 h2 (g := w2.inner.data ++ w2.buf = w.inner.data ++ w.buf ++ le64 p.length ++ p)
          (by intro a b; rw [b, a])
        refine WRun.trans h12 (ih w2) ?_
        intro a b
        refine ⟨?_, b.2⟩
        rw [b.1, a, frames_cons]
        simp only [List.append_assoc]

end BV
