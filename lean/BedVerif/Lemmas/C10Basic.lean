import BedVerif.Model.Sort
/-!
C10 helper file 1: vocabulary (`A`, `Cov`, `W`, `HeadLe`, `SortedCh`, `popStep`) and list lemmas
(`okItems`, `hasErr`, `beforeFirstErr`, `flatten` of `set`).
-/
namespace BV.C10
variable {ε α : Type}

abbrev Le (cmp : α → α → Ordering) (a b : α) : Prop := cmp a b ≠ .gt

/-- all items still inside the merger: heap values (as `ok` items) and the unread chunk items -/
def A (m : Merger ε α) : List (Item ε α) := m.heap.map (fun p => Item.ok p.1) ++ m.chunks.flatten

/-- every non-empty chunk has a heap entry -/
def Cov (m : Merger ε α) : Prop := ∀ (i : Nat) c, m.chunks[i]? = some c → c ≠ [] → ∃ v, (v, i) ∈ m.heap
def W (m : Merger ε α) : Prop := m.initiated = true → Cov m
/-- every heap entry is below the remaining ok items of its chunk -/
def HeadLe (cmp : α → α → Ordering) (m : Merger ε α) : Prop :=
  ∀ v i, (v, i) ∈ m.heap → ∀ c, m.chunks[i]? = some c → ∀ b ∈ okItems c, Le cmp v b
def SortedCh (cmp : α → α → Ordering) (m : Merger ε α) : Prop :=
  ∀ (i : Nat) c, m.chunks[i]? = some c → (okItems c).Pairwise (Le cmp)

/-! ### okItems / hasErr / beforeFirstErr -/

@[simp] theorem okItems_nil : okItems ([] : List (Item ε α)) = [] := rfl
@[simp] theorem okItems_cons_ok (a : α) (l : List (Item ε α)) : okItems (Item.ok a :: l) = a :: okItems l := by
  simp [okItems]
@[simp] theorem okItems_cons_err (e : ε) (l : List (Item ε α)) : okItems (Item.err e :: l) = okItems l := by
  simp [okItems]
theorem okItems_append (l r : List (Item ε α)) : okItems (l ++ r) = okItems l ++ okItems r := by
  simp [okItems, List.filterMap_append]
theorem okItems_perm {l r : List (Item ε α)} (h : l.Perm r) : (okItems l).Perm (okItems r) :=
  List.Perm.filterMap _ h
theorem mem_okItems {a : α} {l : List (Item ε α)} : a ∈ okItems l ↔ Item.ok a ∈ l := by
  induction l with
  | nil => simp
  | cons x xs ih => cases x <;> simp [ih]
theorem okItems_map_ok (h : List (α × Nat)) :
    okItems (h.map (fun p => (Item.ok p.1 : Item ε α))) = h.map (·.1) := by
  induction h with
  | nil => rfl
  | cons x xs ih => simp [ih]
theorem okItems_reverse (l : List (Item ε α)) : okItems l.reverse = (okItems l).reverse := by
  simp [okItems, List.filterMap_reverse]

@[simp] theorem hasErr_nil : hasErr ([] : List (Item ε α)) = false := rfl
@[simp] theorem hasErr_cons_ok (a : α) (l : List (Item ε α)) : hasErr (Item.ok a :: l) = hasErr l := by
  simp [hasErr]
@[simp] theorem hasErr_cons_err (e : ε) (l : List (Item ε α)) : hasErr (Item.err e :: l) = true := by
  simp [hasErr]
theorem hasErr_iff {l : List (Item ε α)} : hasErr l = true ↔ ∃ e, Item.err e ∈ l := by
  induction l with
  | nil => simp
  | cons x xs ih => cases x <;> simp [ih]
theorem hasErr_reverse (l : List (Item ε α)) : hasErr l.reverse = hasErr l := by
  simp [hasErr]
theorem hasErr_false_allOk {l : List (Item ε α)} (h : hasErr l = false) : ∀ x ∈ l, ∃ a, x = Item.ok a := by
  intro x hx
  cases x with
  | ok a => exact ⟨a, rfl⟩
  | err e => have := hasErr_iff.mpr ⟨e, hx⟩; simp [h] at this

theorem beforeFirstErr_append (l r : List (Item ε α)) :
    beforeFirstErr (l ++ r) = if hasErr l then beforeFirstErr l else okItems l ++ beforeFirstErr r := by
  induction l with
  | nil => simp
  | cons x xs ih =>
    cases x with
    | ok a => simp only [List.cons_append, beforeFirstErr, ih, hasErr_cons_ok, okItems_cons_ok]; split <;> rfl
    | err e => simp [beforeFirstErr]
theorem beforeFirstErr_noErr {l : List (Item ε α)} (h : hasErr l = false) : beforeFirstErr l = okItems l := by
  have := beforeFirstErr_append l []
  simpa [h, beforeFirstErr] using this

/-! ### flatten of `set` -/
theorem flatten_set_perm {β : Type} : ∀ (cs : List (List β)) (i : Nat) (x : β) (xs : List β),
    cs[i]? = some (x :: xs) → cs.flatten.Perm (x :: (cs.set i xs).flatten)
  | [], i, x, xs, h => by simp at h
  | c :: cs, 0, x, xs, h => by
    simp at h; subst h; simp
  | c :: cs, i+1, x, xs, h => by
    simp at h
    have ih := flatten_set_perm cs i x xs h
    simp only [List.flatten_cons, List.set_cons_succ]
    exact (List.Perm.append_left c ih).trans List.perm_middle

theorem flatten_nil_of_all_nil {β : Type} (cs : List (List β)) (h : ∀ (i : Nat) c, cs[i]? = some c → c = []) :
    cs.flatten = [] := by
  rw [List.flatten_eq_nil_iff]
  intro c hc
  obtain ⟨i, hi⟩ := List.mem_iff_getElem?.mp hc
  exact h i c hi

end BV.C10
