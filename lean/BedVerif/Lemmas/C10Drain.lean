import BedVerif.Lemmas.C10Step
/-!
C10 helper file 4: induction principle for `drain` and the six results, stated with the comparator laws as
explicit hypotheses (`TotalPreorder` lives in `C10Targets.lean`).
-/
namespace BV.C10
variable {ε α : Type}

theorem next_measure {cmp : α → α → Ordering} {m m' : Merger ε α} {x : Item ε α}
    (h : m.next cmp = (some x, m')) : (A m').length < (A m).length := by
  cases x with
  | ok v =>
    have := (next_ok_perm h).length_eq
    simp only [List.length_cons] at this
    omega
  | err e =>
    obtain ⟨d, hd⟩ := next_err_perm h
    have := hd.length_eq
    simp only [List.length_cons, List.length_append] at this
    omega

theorem drainAux_ind (cmp : α → α → Ordering) (P : Merger ε α → List (Item ε α) → Prop)
    (hstep : ∀ m acc x m', P m acc → m.next cmp = (some x, m') → P m' (x :: acc)) :
    ∀ (fuel : Nat) (m : Merger ε α) (acc : List (Item ε α)), (A m).length < fuel → P m acc →
      ∃ ml accl, P ml accl ∧ (ml.next cmp).1 = none ∧ drainAux cmp fuel m acc = (accl.reverse, (ml.next cmp).2)
  | 0, m, acc, hf, _ => by omega
  | fuel+1, m, acc, hf, hP => by
    rcases hn : m.next cmp with ⟨o, m'⟩
    cases o with
    | none =>
      refine ⟨m, acc, hP, by rw [hn], ?_⟩
      simp only [drainAux, hn]
    | some x =>
      have hlt := next_measure hn
      obtain ⟨ml, accl, h1, h2, h3⟩ := drainAux_ind cmp P hstep fuel m' (x :: acc) (by omega) (hstep m acc x m' hP hn)
      refine ⟨ml, accl, h1, h2, ?_⟩
      simp only [drainAux, hn]
      exact h3

@[simp] theorem A_new (chunks : List (List (Item ε α))) : A (Merger.new chunks) = chunks.flatten := by
  simp [A, Merger.new]

theorem drain_ind (cmp : α → α → Ordering) (chunks : List (List (Item ε α)))
    (P : Merger ε α → List (Item ε α) → Prop)
    (hstep : ∀ m acc x m', P m acc → m.next cmp = (some x, m') → P m' (x :: acc))
    (h0 : P (Merger.new chunks) []) :
    ∃ ml accl, P ml accl ∧ (ml.next cmp).1 = none ∧ drain cmp chunks = (accl.reverse, (ml.next cmp).2) := by
  unfold drain
  apply drainAux_ind cmp P hstep _ _ _ _ h0
  rw [A_new, List.length_flatten]
  omega

/-! ### stays ended -/
theorem stays_ended (cmp : α → α → Ordering) (chunks : List (List (Item ε α))) :
    (((drain cmp chunks).2).next cmp).1 = none ∧
    (((((drain cmp chunks).2).next cmp).2).next cmp).1 = none := by
  obtain ⟨ml, accl, _, hn, hd⟩ := drain_ind cmp chunks (fun _ _ => True) (fun _ _ _ _ _ _ => trivial) trivial
  rw [hd]
  obtain ⟨hi, h0, _⟩ := next_none hn
  have := next_ended (cmp := cmp) hi h0
  simp only [this, and_self]

/-! ### errors are genuine -/
theorem errors_genuine (cmp : α → α → Ordering) (chunks : List (List (Item ε α))) (e : ε)
    (h : Item.err e ∈ (drain cmp chunks).1) : Item.err e ∈ chunks.flatten := by
  obtain ⟨ml, accl, hP, _, hd⟩ := drain_ind cmp chunks
    (fun m acc => ∀ e, (Item.err e ∈ A m ∨ Item.err e ∈ acc) → Item.err e ∈ chunks.flatten)
    (by
      intro m acc x m' hP hn e he
      cases x with
      | ok v =>
        have hp := next_ok_perm hn
        apply hP e
        rcases he with he | he
        · exact Or.inl (hp.mem_iff.mpr (List.mem_cons_of_mem _ he))
        · simp only [List.mem_cons, reduceCtorEq, false_or] at he
          exact Or.inr he
      | err e0 =>
        obtain ⟨d, hp⟩ := next_err_perm hn
        apply hP e
        rcases he with he | he
        · exact Or.inl (hp.mem_iff.mpr (List.mem_cons_of_mem _ (List.mem_append_right _ he)))
        · rcases List.mem_cons.mp he with heq | he
          · rw [heq]
            exact Or.inl (hp.mem_iff.mpr List.mem_cons_self)
          · exact Or.inr he)
    (by
      intro e he
      simpa using he)
  rw [hd] at h
  exact hP e (Or.inr (List.mem_reverse.mp h))

/-! ### an error inside a chunk is delivered -/
theorem W_new (chunks : List (List (Item ε α))) : W (Merger.new chunks) := by
  intro h; cases h

theorem error_delivered (cmp : α → α → Ordering) (chunks : List (List (Item ε α)))
    (he : ∃ e, Item.err e ∈ chunks.flatten) : hasErr (drain cmp chunks).1 = true := by
  obtain ⟨ml, accl, hP, hn, hd⟩ := drain_ind cmp chunks
    (fun m acc => hasErr acc = true ∨ ((∃ e, Item.err e ∈ A m) ∧ W m))
    (by
      intro m acc x m' hP hn
      cases x with
      | err e0 => left; simp
      | ok v =>
        rcases hP with hP | ⟨⟨e, he⟩, hw⟩
        · left; simpa using hP
        · right
          have hp := next_ok_perm hn
          have := hp.mem_iff.mp he
          simp only [List.mem_cons, reduceCtorEq, false_or] at this
          exact ⟨⟨e, this⟩, fun _ => (next_ok_W hn hw).2⟩)
    (Or.inr ⟨by simpa using he, W_new chunks⟩)
  rw [hd, hasErr_reverse]
  rcases hP with hP | ⟨⟨e, he⟩, hw⟩
  · exact hP
  · have := (next_none hn).2.2 hw
    rw [this] at he
    cases he

/-! ### no error delivered → complete -/
theorem complete (cmp : α → α → Ordering) (chunks : List (List (Item ε α)))
    (hno : hasErr (drain cmp chunks).1 = false) :
    (okItems (drain cmp chunks).1).Perm (okItems chunks.flatten) := by
  obtain ⟨ml, accl, hP, hn, hd⟩ := drain_ind cmp chunks
    (fun m acc => hasErr acc = false → W m ∧ (okItems acc ++ okItems (A m)).Perm (okItems chunks.flatten))
    (by
      intro m acc x m' hP hn hne
      cases x with
      | err e0 => simp at hne
      | ok v =>
        simp only [hasErr_cons_ok] at hne
        obtain ⟨hw, hperm⟩ := hP hne
        refine ⟨fun _ => (next_ok_W hn hw).2, ?_⟩
        have hp := okItems_perm (next_ok_perm hn)
        simp only [okItems_cons_ok] at hp ⊢
        refine List.Perm.trans ?_ hperm
        exact (List.perm_middle.symm).trans (List.Perm.append_left _ hp.symm))
    (by
      intro _
      exact ⟨W_new chunks, by simp⟩)
  rw [hd] at hno ⊢
  rw [hasErr_reverse] at hno
  obtain ⟨hw, hperm⟩ := hP hno
  have := (next_none hn).2.2 hw
  rw [this] at hperm
  rw [okItems_reverse]
  simp only [okItems_nil, List.append_nil] at hperm
  exact (List.reverse_perm _).trans hperm

/-! ### the prefix before the first error is sorted -/
theorem prefix_sorted (cmp : α → α → Ordering) (hswap : ∀ a b, cmp a b = (cmp b a).swap)
    (htrans : ∀ a b c, cmp a b ≠ .gt → cmp b c ≠ .gt → cmp a c ≠ .gt)
    (chunks : List (List (Item ε α))) (hs : ∀ c ∈ chunks, (okItems c).Pairwise (Le cmp)) :
    (beforeFirstErr (drain cmp chunks).1).Pairwise (Le cmp) := by
  obtain ⟨ml, accl, hP, hn, hd⟩ := drain_ind cmp chunks
    (fun m acc => (beforeFirstErr acc.reverse).Pairwise (Le cmp) ∧
      (hasErr acc = false → W m ∧ HeadLe cmp m ∧ SortedCh cmp m ∧
        ∀ a ∈ okItems acc, ∀ b ∈ okItems (A m), Le cmp a b))
    (by
      intro m acc x m' ⟨hsorted, hP⟩ hn
      simp only [List.reverse_cons]
      rw [beforeFirstErr_append]
      cases hacc : hasErr acc
      · -- no error so far
        obtain ⟨hw, hh, hsc, hbound⟩ := hP hacc
        rw [beforeFirstErr_noErr (by rw [hasErr_reverse]; exact hacc)] at hsorted
        simp only [hasErr_reverse, hacc, Bool.false_eq_true, if_false]
        cases x with
        | err e0 =>
          refine ⟨by simpa [beforeFirstErr] using hsorted, ?_⟩
          intro hne; simp at hne
        | ok v =>
          have hp := okItems_perm (next_ok_perm hn)
          simp only [okItems_cons_ok] at hp
          obtain ⟨hh', hsc', hmin⟩ := next_ok_clean hswap htrans hn hw hh hsc
          constructor
          · simp only [beforeFirstErr]
            rw [List.pairwise_append]
            refine ⟨hsorted, by simp, ?_⟩
            intro a ha b hb
            simp only [List.mem_cons, List.not_mem_nil, or_false] at hb
            subst hb
            rw [okItems_reverse, List.mem_reverse] at ha
            exact hbound a ha b (hp.mem_iff.mpr List.mem_cons_self)
          · intro _
            refine ⟨fun _ => (next_ok_W hn hw).2, hh', hsc', ?_⟩
            intro a ha b hb
            have hb' : b ∈ okItems (A m) := hp.mem_iff.mpr (List.mem_cons_of_mem _ hb)
            simp only [okItems_cons_ok, List.mem_cons] at ha
            rcases ha with rfl | ha
            · exact hmin b hb'
            · exact hbound a ha b hb'
      · simp only [hasErr_reverse, hacc, if_true]
        refine ⟨hsorted, ?_⟩
        intro hne
        cases x <;> simp [hacc] at hne)
    (by
      refine ⟨by simp [beforeFirstErr], fun _ => ⟨W_new chunks, ?_, ?_, by simp⟩⟩
      · intro v i hv; simp [Merger.new] at hv
      · intro i c hc
        exact hs c (List.mem_of_getElem? hc))
  rw [hd]
  exact hP.1

end BV.C10
