import BedVerif.Lemmas.C10Basic
/-!
C10 helper file 2: case analyses of `pull`, `popBest`, `prime`, the pop step and `Merger.next`.
-/
namespace BV.C10
variable {ε α : Type}

/-! ### pull -/
theorem pull_some {cs cs' : List (List (Item ε α))} {i : Nat} {x : Item ε α}
    (h : pull cs i = (some x, cs')) : ∃ xs, cs[i]? = some (x :: xs) ∧ cs' = cs.set i xs := by
  unfold pull at h
  split at h
  · rename_i y ys hy
    simp only [Prod.mk.injEq, Option.some.injEq] at h
    obtain ⟨rfl, rfl⟩ := h
    exact ⟨ys, hy, rfl⟩
  · simp at h

theorem pull_none {cs cs' : List (List (Item ε α))} {i : Nat}
    (h : pull cs i = (none, cs')) : cs' = cs ∧ ∀ c, cs[i]? = some c → c = [] := by
  unfold pull at h
  split at h
  · simp at h
  · rename_i hno
    simp only [Prod.mk.injEq, true_and] at h
    refine ⟨h.symm, ?_⟩
    intro c hc
    cases c with
    | nil => rfl
    | cons y ys => exact absurd hc (hno y ys)

/-! ### popBest -/
theorem popBest_none {cmp : α → α → Ordering} {h : List (α × Nat)} (hp : popBest cmp h = none) : h = [] := by
  cases h with
  | nil => rfl
  | cons x xs =>
    simp only [popBest] at hp
    split at hp
    · simp at hp
    · split at hp <;> simp at hp

theorem popBest_perm {cmp : α → α → Ordering} : ∀ {h : List (α × Nat)} {b : α × Nat} {rest : List (α × Nat)},
    popBest cmp h = some (b, rest) → h.Perm (b :: rest)
  | [], b, rest, hp => by simp [popBest] at hp
  | x :: xs, b, rest, hp => by
    simp only [popBest] at hp
    split at hp
    · simp only [Option.some.injEq, Prod.mk.injEq] at hp
      obtain ⟨rfl, rfl⟩ := hp
      rename_i hn
      rw [popBest_none hn]
    · rename_i b' rest' hs
      have ih := popBest_perm hs
      split at hp
      · simp only [Option.some.injEq, Prod.mk.injEq] at hp
        obtain ⟨rfl, rfl⟩ := hp
        exact List.Perm.cons _ ih
      · simp only [Option.some.injEq, Prod.mk.injEq] at hp
        obtain ⟨rfl, rfl⟩ := hp
        exact (List.Perm.cons x ih).trans (List.Perm.swap _ _ _)

theorem better_true_le {cmp : α → α → Ordering} {x y : α × Nat} (h : better cmp x y = true) : Le cmp x.1 y.1 := by
  unfold better at h
  intro hgt
  rw [hgt] at h
  simp at h

theorem better_false_le {cmp : α → α → Ordering} (hswap : ∀ a b, cmp a b = (cmp b a).swap)
    {x y : α × Nat} (h : better cmp x y = false) : Le cmp y.1 x.1 := by
  unfold better at h
  intro hgt
  have := hswap x.1 y.1
  rw [hgt] at this
  rw [this] at h
  simp at h

theorem le_refl_of_swap {cmp : α → α → Ordering} (hswap : ∀ a b, cmp a b = (cmp b a).swap) (a : α) :
    Le cmp a a := by
  intro hgt
  have := hswap a a
  rw [hgt] at this
  simp at this

theorem popBest_min {cmp : α → α → Ordering} (hswap : ∀ a b, cmp a b = (cmp b a).swap)
    (htrans : ∀ a b c, cmp a b ≠ .gt → cmp b c ≠ .gt → cmp a c ≠ .gt) :
    ∀ {h : List (α × Nat)} {b : α × Nat} {rest : List (α × Nat)},
    popBest cmp h = some (b, rest) → ∀ x ∈ h, Le cmp b.1 x.1
  | [], b, rest, hp => by simp [popBest] at hp
  | x :: xs, b, rest, hp => by
    simp only [popBest] at hp
    split at hp
    · simp only [Option.some.injEq, Prod.mk.injEq] at hp
      obtain ⟨rfl, rfl⟩ := hp
      rename_i hn
      rw [popBest_none hn]
      intro y hy
      simp only [List.mem_cons, List.not_mem_nil, or_false] at hy
      subst hy
      exact le_refl_of_swap hswap _
    · rename_i b' rest' hs
      have ih := popBest_min hswap htrans hs
      split at hp
      · rename_i hb
        simp only [Option.some.injEq, Prod.mk.injEq] at hp
        obtain ⟨rfl, rfl⟩ := hp
        intro y hy
        rcases List.mem_cons.mp hy with rfl | hy
        · exact le_refl_of_swap hswap _
        · exact htrans _ _ _ (better_true_le hb) (ih y hy)
      · rename_i hb
        simp only [Option.some.injEq, Prod.mk.injEq] at hp
        obtain ⟨rfl, rfl⟩ := hp
        intro y hy
        rcases List.mem_cons.mp hy with rfl | hy
        · exact better_false_le hswap (by simpa using hb)
        · exact ih y hy

/-! ### the pop step (the part of `next` after priming) -/
def popStep (cmp : α → α → Ordering) (m : Merger ε α) : Option (Item ε α) × Merger ε α :=
  match popBest cmp m.heap with
  | none => (none, m)
  | some ((v, idx), rest) =>
    match pull m.chunks idx with
    | (some (.ok a), cs) => (some (.ok v), { m with heap := (a, idx) :: rest, chunks := cs })
    | (some (.err e), cs) => (some (.err e), { m with heap := rest, chunks := cs })
    | (none, cs) => (some (.ok v), { m with heap := rest, chunks := cs })

theorem next_eq (cmp : α → α → Ordering) (m : Merger ε α) :
    m.next cmp = if m.initiated then popStep cmp m else
      match prime m (m.chunks.length + 1) 0 with
      | (m1, some e) => (some (.err e), m1)
      | (m1, none) => popStep cmp m1 := by
  obtain ⟨hp, cs, ini⟩ := m
  cases ini
  · unfold Merger.next
    simp only [Bool.false_eq_true, if_false]
    rcases hp : prime (⟨hp, cs, false⟩ : Merger ε α) (cs.length + 1) 0 with ⟨m1, r⟩
    cases r <;> rfl
  · rfl

/-- outcome of the pop step -/
inductive PopCase (cmp : α → α → Ordering) (m : Merger ε α) : Option (Item ε α) → Merger ε α → Prop
  | ended : m.heap = [] → PopCase cmp m none m
  | refill (v idx rest a xs) : popBest cmp m.heap = some ((v, idx), rest) → m.chunks[idx]? = some (.ok a :: xs) →
      PopCase cmp m (some (.ok v)) { m with heap := (a, idx) :: rest, chunks := m.chunks.set idx xs }
  | failed (v idx rest e xs) : popBest cmp m.heap = some ((v, idx), rest) → m.chunks[idx]? = some (.err e :: xs) →
      PopCase cmp m (some (.err e)) { m with heap := rest, chunks := m.chunks.set idx xs }
  | dry (v idx rest) : popBest cmp m.heap = some ((v, idx), rest) → (∀ c, m.chunks[idx]? = some c → c = []) →
      PopCase cmp m (some (.ok v)) { m with heap := rest }

theorem popStep_cases (cmp : α → α → Ordering) (m : Merger ε α) :
    PopCase cmp m (popStep cmp m).1 (popStep cmp m).2 := by
  unfold popStep
  split
  · rename_i hn
    exact PopCase.ended (popBest_none hn)
  · rename_i v idx rest hp
    split
    · rename_i a cs hpl
      obtain ⟨xs, hx, rfl⟩ := pull_some hpl
      exact PopCase.refill v idx rest a xs hp hx
    · rename_i e cs hpl
      obtain ⟨xs, hx, rfl⟩ := pull_some hpl
      exact PopCase.failed v idx rest e xs hp hx
    · rename_i cs hpl
      obtain ⟨rfl, hx⟩ := pull_none hpl
      exact PopCase.dry v idx rest hp hx

/-! ### prime -/
/-- `Reach i m k m'`: the priming loop gets from index `i` in state `m` to index `k` in state `m'`
by pulling ok items only -/
inductive Reach : Nat → Merger ε α → Nat → Merger ε α → Prop
  | refl (i m) : Reach i m i m
  | push (i m a xs k m') : i < m.chunks.length → m.chunks[i]? = some (.ok a :: xs) →
      Reach (i+1) { m with heap := (a, i) :: m.heap, chunks := m.chunks.set i xs } k m' → Reach i m k m'
  | skip (i m k m') : i < m.chunks.length → m.chunks[i]? = some [] → Reach (i+1) m k m' → Reach i m k m'

theorem Reach.length_eq {i k : Nat} {m m' : Merger ε α} (h : Reach i m k m') :
    m'.chunks.length = m.chunks.length := by
  induction h with
  | refl => rfl
  | push i m a xs k m' _ _ _ ih => simpa using ih
  | skip i m k m' _ _ _ ih => exact ih

theorem prime_spec : ∀ (fuel i : Nat) (m m' : Merger ε α) (r : Option ε), prime m fuel i = (m', r) →
    ∃ k m'', Reach i m k m'' ∧
      (r = none → m' = { m'' with initiated := true } ∧ (m.chunks.length < fuel + i → m''.chunks.length ≤ k)) ∧
      (∀ e, r = some e → ∃ xs, m''.chunks[k]? = some (.err e :: xs) ∧ m' = { m'' with chunks := m''.chunks.set k xs })
  | 0, i, m, m', r, h => by
    simp only [prime, Prod.mk.injEq] at h
    obtain ⟨rfl, rfl⟩ := h
    refine ⟨i, m, Reach.refl i m, ?_, ?_⟩
    · intro _; exact ⟨rfl, fun h => by omega⟩
    · intro e he; cases he
  | fuel+1, i, m, m', r, h => by
    simp only [prime] at h
    split at h
    · rename_i hlt
      split at h
      · rename_i a cs hpl
        obtain ⟨xs, hx, rfl⟩ := pull_some hpl
        obtain ⟨k, m'', hr, h1, h2⟩ := prime_spec fuel (i+1) _ m' r h
        refine ⟨k, m'', Reach.push i m a xs k m'' hlt hx hr, ?_, h2⟩
        intro hn
        refine ⟨(h1 hn).1, fun hf => (h1 hn).2 ?_⟩
        simp only [List.length_set]
        omega
      · rename_i e cs hpl
        obtain ⟨xs, hx, rfl⟩ := pull_some hpl
        simp only [Prod.mk.injEq] at h
        obtain ⟨rfl, rfl⟩ := h
        refine ⟨i, m, Reach.refl i m, ?_, ?_⟩
        · intro hn; cases hn
        · intro e' he
          cases he
          exact ⟨xs, hx, rfl⟩
      · rename_i cs hpl
        obtain ⟨rfl, hx⟩ := pull_none hpl
        have hx' : m.chunks[i]? = some [] := by
          have : m.chunks[i]? = some m.chunks[i] := List.getElem?_eq_getElem hlt
          rw [this, hx _ this]
        obtain ⟨k, m'', hr, h1, h2⟩ := prime_spec fuel (i+1) m m' r h
        refine ⟨k, m'', Reach.skip i m k m'' hlt hx' hr, ?_, h2⟩
        intro hn
        exact ⟨(h1 hn).1, fun hf => (h1 hn).2 (by omega)⟩
    · rename_i hge
      simp only [Prod.mk.injEq] at h
      obtain ⟨rfl, rfl⟩ := h
      refine ⟨i, m, Reach.refl i m, ?_, ?_⟩
      · intro _; exact ⟨rfl, fun _ => by omega⟩
      · intro e he; cases he

end BV.C10
