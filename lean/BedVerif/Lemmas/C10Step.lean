import BedVerif.Lemmas.C10Ops
/-!
C10 helper file 3: what one priming loop / one pop step / one `next` does to `A`, `Cov`, `HeadLe`, `SortedCh`.
-/
namespace BV.C10
variable {ε α : Type}

/-! ### chunks only shrink -/
def Shrink (cs cs' : List (List (Item ε α))) : Prop :=
  ∀ (j : Nat) c', cs'[j]? = some c' → ∃ c, cs[j]? = some c ∧ c' <:+ c

theorem Shrink.refl (cs : List (List (Item ε α))) : Shrink cs cs :=
  fun _ c' h => ⟨c', h, List.suffix_refl _⟩

theorem getElem?_set_cases {β : Type} {cs : List β} {i j : Nat} {x c : β} (h : (cs.set i x)[j]? = some c) :
    (j = i ∧ c = x) ∨ (j ≠ i ∧ cs[j]? = some c) := by
  rw [List.getElem?_set] at h
  split at h
  · rename_i hij
    split at h
    · simp only [Option.some.injEq] at h; exact Or.inl ⟨hij.symm, h.symm⟩
    · cases h
  · rename_i hij
    exact Or.inr ⟨fun h' => hij h'.symm, h⟩

theorem shrink_set {cs : List (List (Item ε α))} {i : Nat} {x : Item ε α} {xs : List (Item ε α)}
    (h : cs[i]? = some (x :: xs)) : Shrink cs (cs.set i xs) := by
  intro j c' hj
  rcases getElem?_set_cases hj with ⟨rfl, rfl⟩ | ⟨_, hj'⟩
  · exact ⟨_, h, List.suffix_cons _ _⟩
  · exact ⟨c', hj', List.suffix_refl _⟩

theorem okItems_sublist_of_suffix {c c' : List (Item ε α)} (h : c' <:+ c) : (okItems c').Sublist (okItems c) :=
  List.Sublist.filterMap _ h.sublist

theorem sorted_mono {cmp : α → α → Ordering} {m m' : Merger ε α} (hs : SortedCh cmp m)
    (hsh : Shrink m.chunks m'.chunks) : SortedCh cmp m' := by
  intro j c' hj
  obtain ⟨c, hc, hsuf⟩ := hsh j c' hj
  exact (hs j c hc).sublist (okItems_sublist_of_suffix hsuf)

theorem headLe_mono {cmp : α → α → Ordering} {m m' : Merger ε α} (hh : HeadLe cmp m)
    (hsub : ∀ p ∈ m'.heap, p ∈ m.heap) (hsh : Shrink m.chunks m'.chunks) : HeadLe cmp m' := by
  intro v i hv c' hc' b hb
  obtain ⟨c, hc, hsuf⟩ := hsh i c' hc'
  exact hh v i (hsub _ hv) c hc b ((okItems_sublist_of_suffix hsuf).subset hb)

/-- pushing the head of chunk `i` keeps `HeadLe` -/
theorem headLe_push {cmp : α → α → Ordering} {m : Merger ε α} {i : Nat} {a : α} {xs : List (Item ε α)}
    (hh : HeadLe cmp m) (hs : SortedCh cmp m) (hx : m.chunks[i]? = some (.ok a :: xs))
    (h' : List (α × Nat)) (hsub : ∀ p ∈ h', p ∈ m.heap) (ini : Bool) :
    HeadLe cmp ⟨(a, i) :: h', m.chunks.set i xs, ini⟩ := by
  intro v j hv c' hc' b hb
  rcases List.mem_cons.mp hv with heq | hv
  · simp only [Prod.mk.injEq] at heq
    obtain ⟨rfl, rfl⟩ := heq
    rcases getElem?_set_cases hc' with ⟨_, rfl⟩ | ⟨hne, _⟩
    · have := hs j _ hx
      simp only [okItems_cons_ok, List.pairwise_cons] at this
      exact this.1 b hb
    · exact absurd rfl hne
  · obtain ⟨c, hc, hsuf⟩ := shrink_set hx j c' hc'
    exact hh v j (hsub _ hv) c hc b ((okItems_sublist_of_suffix hsuf).subset hb)

/-! ### `A` under the elementary operations -/
theorem A_pull {m : Merger ε α} {i : Nat} {x : Item ε α} {xs : List (Item ε α)}
    (hx : m.chunks[i]? = some (x :: xs)) (h' : List (α × Nat)) (ini : Bool) (hperm : m.heap.Perm h') :
    (A m).Perm (x :: A ⟨h', m.chunks.set i xs, ini⟩) := by
  unfold A
  have h1 := flatten_set_perm m.chunks i x xs hx
  have h2 : (m.heap.map (fun p => (Item.ok p.1 : Item ε α))).Perm (h'.map (fun p => Item.ok p.1)) := hperm.map _
  exact (List.Perm.append h2 h1).trans List.perm_middle

/-! ### the priming loop -/
def CovAt (j : Nat) (m : Merger ε α) : Prop := ∀ c, m.chunks[j]? = some c → c ≠ [] → ∃ v, (v, j) ∈ m.heap

theorem Reach.perm {i k : Nat} {m m' : Merger ε α} (h : Reach i m k m') : (A m').Perm (A m) := by
  induction h with
  | refl => exact List.Perm.refl _
  | push i m a xs k m' _ hx _ ih =>
    refine ih.trans ?_
    have := A_pull hx m.heap m.initiated (List.Perm.refl _)
    -- A m ~ ok a :: (heap ++ F')  and  A m2 = ok a :: heap ++ F'
    exact this.symm
  | skip i m k m' _ _ _ ih => exact ih

theorem Reach.cov {i k : Nat} {m m' : Merger ε α} (h : Reach i m k m') (hc : ∀ j < i, CovAt j m) :
    ∀ j < k, CovAt j m' := by
  induction h with
  | refl => exact hc
  | push i m a xs k m' _ hx _ ih =>
    apply ih
    intro j hj c hcj hne
    rcases getElem?_set_cases hcj with ⟨rfl, _⟩ | ⟨hji, hcj'⟩
    · exact ⟨a, List.mem_cons_self⟩
    · obtain ⟨v, hv⟩ := hc j (by omega) c hcj' hne
      exact ⟨v, List.mem_cons_of_mem _ hv⟩
  | skip i m k m' _ hx _ ih =>
    apply ih
    intro j hj c hcj hne
    by_cases hji : j = i
    · subst hji
      rw [hx] at hcj
      simp only [Option.some.injEq] at hcj
      exact absurd hcj.symm hne
    · exact hc j (by omega) c hcj hne

theorem Reach.ord {cmp : α → α → Ordering} {i k : Nat} {m m' : Merger ε α} (h : Reach i m k m')
    (hh : HeadLe cmp m) (hs : SortedCh cmp m) : HeadLe cmp m' ∧ SortedCh cmp m' := by
  induction h with
  | refl => exact ⟨hh, hs⟩
  | push i m a xs k m' _ hx _ ih =>
    apply ih
    · exact headLe_push hh hs hx m.heap (fun _ h => h) m.initiated
    · exact sorted_mono (m' := ⟨_, _, _⟩) hs (shrink_set hx)
  | skip i m k m' _ _ _ ih => exact ih hh hs

/-- `m1` is `m` after the (possibly void) successful priming -/
structure Primed (m m1 : Merger ε α) : Prop where
  init : m1.initiated = true
  perm : (A m1).Perm (A m)
  cov : W m → Cov m1
  ord : ∀ cmp : α → α → Ordering, HeadLe cmp m → SortedCh cmp m → HeadLe cmp m1 ∧ SortedCh cmp m1

theorem primed_of_reach {k : Nat} {m m'' : Merger ε α} (h : Reach 0 m k m'') (hk : m''.chunks.length ≤ k) :
    Primed m { m'' with initiated := true } := by
  refine ⟨rfl, h.perm, ?_, ?_⟩
  · intro _ j c hcj hne
    have hj : j < m''.chunks.length := by
      have : ({ m'' with initiated := true } : Merger ε α).chunks = m''.chunks := rfl
      rw [this] at hcj
      exact (List.getElem?_eq_some_iff.mp hcj).1
    exact h.cov (fun j hj => absurd hj (Nat.not_lt_zero j)) j (by omega) c hcj hne
  · intro cmp hh hs
    exact h.ord hh hs

/-! ### the pop step -/
theorem pop_none {cmp : α → α → Ordering} {m m' : Merger ε α} (h : PopCase cmp m none m') :
    m.heap = [] ∧ m' = m := by
  cases h with
  | ended h0 => exact ⟨h0, rfl⟩

theorem pop_init {cmp : α → α → Ordering} {m m' : Merger ε α} {o : Option (Item ε α)} (h : PopCase cmp m o m') :
    m'.initiated = m.initiated := by
  cases h <;> rfl

theorem pop_ok_perm {cmp : α → α → Ordering} {m m' : Merger ε α} {v : α} (h : PopCase cmp m (some (.ok v)) m') :
    (A m).Perm (.ok v :: A m') := by
  cases h with
  | refill v idx rest a xs hp hx =>
    have h1 := A_pull hx ((v, idx) :: rest) m.initiated (popBest_perm hp)
    refine h1.trans ?_
    simp only [A, List.map_cons, List.cons_append]
    exact List.Perm.swap _ _ _
  | dry v idx rest hp hx =>
    have h2 : (m.heap.map (fun p => (Item.ok p.1 : Item ε α))).Perm (((v, idx) :: rest).map (fun p => Item.ok p.1)) :=
      (popBest_perm hp).map _
    simp only [A, List.map_cons] at h2 ⊢
    exact List.Perm.append_right _ h2

theorem pop_err_perm {cmp : α → α → Ordering} {m m' : Merger ε α} {e : ε} (h : PopCase cmp m (some (.err e)) m') :
    ∃ v, (A m).Perm (.err e :: .ok v :: A m') := by
  cases h with
  | failed v idx rest e xs hp hx =>
    refine ⟨v, ?_⟩
    have h1 := A_pull hx ((v, idx) :: rest) m.initiated (popBest_perm hp)
    simpa [A] using h1

theorem pop_ok_cov {cmp : α → α → Ordering} {m m' : Merger ε α} {v : α} (h : PopCase cmp m (some (.ok v)) m')
    (hc : Cov m) : Cov m' := by
  cases h with
  | refill v idx rest a xs hp hx =>
    intro j c hcj hne
    rcases getElem?_set_cases hcj with ⟨rfl, _⟩ | ⟨hji, hcj'⟩
    · exact ⟨a, List.mem_cons_self⟩
    · obtain ⟨w, hw⟩ := hc j c hcj' hne
      rcases List.mem_cons.mp ((popBest_perm hp).mem_iff.mp hw) with heq | hw'
      · simp only [Prod.mk.injEq] at heq; exact absurd heq.2 hji
      · exact ⟨w, List.mem_cons_of_mem _ hw'⟩
  | dry v idx rest hp hx =>
    intro j c hcj hne
    obtain ⟨w, hw⟩ := hc j c hcj hne
    rcases List.mem_cons.mp ((popBest_perm hp).mem_iff.mp hw) with heq | hw'
    · simp only [Prod.mk.injEq] at heq
      obtain ⟨_, rfl⟩ := heq
      exact absurd (hx c hcj) hne
    · exact ⟨w, hw'⟩

theorem pop_ok_ord {cmp : α → α → Ordering} {m m' : Merger ε α} {v : α} (h : PopCase cmp m (some (.ok v)) m')
    (hh : HeadLe cmp m) (hs : SortedCh cmp m) : HeadLe cmp m' ∧ SortedCh cmp m' := by
  cases h with
  | refill v idx rest a xs hp hx =>
    have hsub : ∀ p ∈ rest, p ∈ m.heap := fun p hp' => (popBest_perm hp).mem_iff.mpr (List.mem_cons_of_mem _ hp')
    exact ⟨headLe_push hh hs hx rest hsub m.initiated, sorted_mono (m' := ⟨_, _, _⟩) hs (shrink_set hx)⟩
  | dry v idx rest hp hx =>
    have hsub : ∀ p ∈ rest, p ∈ m.heap := fun p hp' => (popBest_perm hp).mem_iff.mpr (List.mem_cons_of_mem _ hp')
    exact ⟨headLe_mono (m' := ⟨_, _, _⟩) hh hsub (Shrink.refl _), sorted_mono (m' := ⟨_, _, _⟩) hs (Shrink.refl _)⟩

/-- the popped value is below every ok item still inside the merger -/
theorem min_all {cmp : α → α → Ordering} (hswap : ∀ a b, cmp a b = (cmp b a).swap)
    (htrans : ∀ a b c, cmp a b ≠ .gt → cmp b c ≠ .gt → cmp a c ≠ .gt)
    {m : Merger ε α} {v : α} {idx : Nat} {rest : List (α × Nat)}
    (hp : popBest cmp m.heap = some ((v, idx), rest)) (hc : Cov m) (hh : HeadLe cmp m) :
    ∀ b ∈ okItems (A m), Le cmp v b := by
  intro b hb
  have hmin := popBest_min hswap htrans hp
  rw [mem_okItems] at hb
  unfold A at hb
  rcases List.mem_append.mp hb with hb | hb
  · obtain ⟨p, hp', heq⟩ := List.mem_map.mp hb
    simp only [Item.ok.injEq] at heq
    subst heq
    exact hmin p hp'
  · obtain ⟨c, hc', hbc⟩ := List.mem_flatten.mp hb
    obtain ⟨j, hj⟩ := List.mem_iff_getElem?.mp hc'
    obtain ⟨w, hw⟩ := hc j c hj (List.ne_nil_of_mem hbc)
    exact htrans _ _ _ (hmin _ hw) (hh w j hw c hj b (mem_okItems.mpr hbc))

theorem pop_ok_min {cmp : α → α → Ordering} (hswap : ∀ a b, cmp a b = (cmp b a).swap)
    (htrans : ∀ a b c, cmp a b ≠ .gt → cmp b c ≠ .gt → cmp a c ≠ .gt)
    {m m' : Merger ε α} {v : α} (h : PopCase cmp m (some (.ok v)) m') (hc : Cov m) (hh : HeadLe cmp m) :
    ∀ b ∈ okItems (A m), Le cmp v b := by
  cases h with
  | refill v idx rest a xs hp hx => exact min_all hswap htrans hp hc hh
  | dry v idx rest hp hx => exact min_all hswap htrans hp hc hh

/-! ### `next` -/
theorem next_cases (cmp : α → α → Ordering) (m : Merger ε α) :
    (∃ m1, Primed m m1 ∧ PopCase cmp m1 (m.next cmp).1 (m.next cmp).2) ∨
    (∃ e, (m.next cmp).1 = some (.err e) ∧ (A m).Perm (.err e :: A (m.next cmp).2)) := by
  rw [next_eq]
  cases hi : m.initiated
  · simp only [Bool.false_eq_true, if_false]
    rcases hp : prime m (m.chunks.length + 1) 0 with ⟨m1, r⟩
    obtain ⟨k, m'', hr, h1, h2⟩ := prime_spec _ _ _ _ _ hp
    cases r with
    | none =>
      left
      obtain ⟨rfl, hk⟩ := h1 rfl
      exact ⟨_, primed_of_reach hr (hk (by omega)), popStep_cases cmp _⟩
    | some e =>
      right
      obtain ⟨xs, hx, rfl⟩ := h2 e rfl
      refine ⟨e, rfl, ?_⟩
      exact hr.perm.symm.trans (A_pull hx m''.heap m''.initiated (List.Perm.refl _))
  · left
    simp only [if_true]
    exact ⟨m, ⟨hi, List.Perm.refl _, fun hw => hw hi, fun _ hh hs => ⟨hh, hs⟩⟩, popStep_cases cmp m⟩

theorem next_ok_perm {cmp : α → α → Ordering} {m m' : Merger ε α} {v : α}
    (h : m.next cmp = (some (.ok v), m')) : (A m).Perm (.ok v :: A m') := by
  rcases next_cases cmp m with ⟨m1, hpr, hpc⟩ | ⟨e, he, _⟩
  · rw [h] at hpc
    exact hpr.perm.symm.trans (pop_ok_perm hpc)
  · rw [h] at he; simp at he

theorem next_err_perm {cmp : α → α → Ordering} {m m' : Merger ε α} {e : ε}
    (h : m.next cmp = (some (.err e), m')) : ∃ d, (A m).Perm (.err e :: (d ++ A m')) := by
  rcases next_cases cmp m with ⟨m1, hpr, hpc⟩ | ⟨e', he, hp⟩
  · rw [h] at hpc
    obtain ⟨v, hv⟩ := pop_err_perm hpc
    exact ⟨[.ok v], hpr.perm.symm.trans hv⟩
  · rw [h] at he hp
    simp only [Option.some.injEq, Item.err.injEq] at he
    subst he
    exact ⟨[], hp⟩

theorem next_ok_W {cmp : α → α → Ordering} {m m' : Merger ε α} {v : α}
    (h : m.next cmp = (some (.ok v), m')) (hw : W m) : m'.initiated = true ∧ Cov m' := by
  rcases next_cases cmp m with ⟨m1, hpr, hpc⟩ | ⟨e, he, _⟩
  · rw [h] at hpc
    exact ⟨(pop_init hpc).trans hpr.init, pop_ok_cov hpc (hpr.cov hw)⟩
  · rw [h] at he; simp at he

theorem next_ok_clean {cmp : α → α → Ordering} (hswap : ∀ a b, cmp a b = (cmp b a).swap)
    (htrans : ∀ a b c, cmp a b ≠ .gt → cmp b c ≠ .gt → cmp a c ≠ .gt) {m m' : Merger ε α} {v : α}
    (h : m.next cmp = (some (.ok v), m')) (hw : W m) (hh : HeadLe cmp m) (hs : SortedCh cmp m) :
    HeadLe cmp m' ∧ SortedCh cmp m' ∧ ∀ b ∈ okItems (A m), Le cmp v b := by
  rcases next_cases cmp m with ⟨m1, hpr, hpc⟩ | ⟨e, he, _⟩
  · rw [h] at hpc
    obtain ⟨hh1, hs1⟩ := hpr.ord cmp hh hs
    obtain ⟨hh', hs'⟩ := pop_ok_ord hpc hh1 hs1
    refine ⟨hh', hs', ?_⟩
    intro b hb
    apply pop_ok_min hswap htrans hpc (hpr.cov hw) hh1
    exact (okItems_perm hpr.perm).mem_iff.mpr hb
  · rw [h] at he; simp at he

theorem next_none {cmp : α → α → Ordering} {m : Merger ε α} (h : (m.next cmp).1 = none) :
    (m.next cmp).2.initiated = true ∧ (m.next cmp).2.heap = [] ∧ (W m → A m = []) := by
  rcases next_cases cmp m with ⟨m1, hpr, hpc⟩ | ⟨e, he, _⟩
  · rw [h] at hpc
    obtain ⟨h0, heq⟩ := pop_none hpc
    rw [heq]
    refine ⟨hpr.init, h0, ?_⟩
    intro hw
    have hc := hpr.cov hw
    have : A m1 = [] := by
      unfold A
      rw [h0, flatten_nil_of_all_nil]
      · rfl
      · intro i c hci
        cases c with
        | nil => rfl
        | cons y ys =>
          obtain ⟨w, hw'⟩ := hc i _ hci (by simp)
          rw [h0] at hw'
          cases hw'
    have hperm := hpr.perm
    rw [this] at hperm
    exact List.Perm.eq_nil hperm.symm
  · rw [h] at he; simp at he

theorem next_ended {cmp : α → α → Ordering} {m : Merger ε α} (hi : m.initiated = true) (h0 : m.heap = []) :
    m.next cmp = (none, m) := by
  rw [next_eq, hi]
  simp only [if_true]
  unfold popStep
  rw [h0]
  rfl

end BV.C10
