import BedVerif.Spec.Text
namespace BV
variable {F : Type}

theorem splitOn_ne_nil (d : UInt8 → Bool) (s : Bytes) : splitOn d s ≠ [] := by
  induction s with
  | nil => simp [splitOn]
  | cons c cs ih =>
    unfold splitOn
    split
    · simp
    · split <;> simp

theorem splitOn_append (d : UInt8 → Bool) (sep : UInt8) (hsep : d sep = true) (s extra : Bytes) :
    splitOn d (s ++ sep :: extra) = splitOn d s ++ splitOn d extra := by
  induction s with
  | nil =>
    have h := splitOn_ne_nil d extra
    simp only [List.nil_append]
    rw [splitOn]
    cases hx : splitOn d extra with
    | nil => exact absurd hx h
    | cons p ps => simp [hsep, splitOn, hx]
  | cons c cs ih =>
    have h := splitOn_ne_nil d cs
    simp only [List.cons_append]
    rw [splitOn, ih, splitOn]
    cases hx : splitOn d cs with
    | nil => exact absurd hx h
    | cons p ps =>
      simp only [List.cons_append]
      split <;> simp

/-! ### parser and expectation as functions of the column list -/
def parseCols (fc : FloatCodec F) (ty : Ty) (cols : List Bytes) : Outcome PErr (TRec F) :=
  match ty with
  | .gr =>
    bindP (pChrom cols) fun chrom r =>
    bindP (pStart r) fun start r => bindP (pEnd r) fun stop _ => .ok { chrom, start, stop }
  | .bed n =>
    bindP (pChrom cols) fun chrom r =>
    bindP (pStart r) fun start r =>
    bindP (pEnd r) fun stop r =>
    bindP (if n > 3 then pName r else .ok (none, r)) fun name r =>
    bindP (if n > 4 then pScore r else .ok (none, r)) fun score r =>
    bindP (if n > 5 then pStrand r else .ok (none, r)) fun strand _ =>
    .ok { chrom, start, stop, name, score, strand }
  | .narrowPeak =>
    bindP (pChrom cols) fun chrom r =>
    bindP (pStart r) fun start r => bindP (pEnd r) fun stop r => bindP (pName r) fun name r =>
    bindP (pScore r) fun score r => bindP (pStrand r) fun strand r =>
    bindP (pFloat fc r) fun signal r => bindP (pPValue fc r) fun p r => bindP (pPValue fc r) fun q r =>
    bindP (pPeak r) fun peak _ => .ok { chrom, start, stop, name, score, strand, signal := some signal, p, q, peak := some peak }
  | .broadPeak =>
    bindP (pChrom cols) fun chrom r =>
    bindP (pStart r) fun start r => bindP (pEnd r) fun stop r => bindP (pName r) fun name r =>
    bindP (pScore r) fun score r => bindP (pStrand r) fun strand r =>
    bindP (pFloat fc r) fun signal r => bindP (pPValue fc r) fun p r => bindP (pPValue fc r) fun q _ =>
    .ok { chrom, start, stop, name, score, strand, signal := some signal, p, q }
  | .bgInt =>
    bindP (pChrom cols) fun chrom r =>
    bindP (pStart r) fun start r => bindP (pEnd r) fun stop r => bindP (pI64 r) fun v _ => .ok { chrom, start, stop, ival := some v }
  | .bgFloat =>
    bindP (pChrom cols) fun chrom r =>
    bindP (pStart r) fun start r => bindP (pEnd r) fun stop r => bindP (pFloat fc r) fun v _ => .ok { chrom, start, stop, signal := some v }

theorem parseT_eq (fc : FloatCodec F) (ty : Ty) (s : Bytes) :
    parseT fc ty s = parseCols fc ty (columnsOfLine ty s) := by
  cases ty <;> rfl

def expectCols (fc : FloatCodec F) (ty : Ty) (cols : List Bytes) : Expect :=
  let nb := bedCols ty
  match (List.range nb).find? (fun k => match cols[k]? with | none => true | some f => !bedColOk k f) with
  | some k => .bedError (bedColErr k (cols[k]?).isNone)
  | none =>
    let ex := extraColOk fc ty
    if (List.range ex.length).any (fun i => match cols[nb + i]?, ex[i]? with | some f, some okf => !okf f | _, _ => true) then .someError
    else .accept

theorem c12Expect_eq (fc : FloatCodec F) (ty : Ty) (s : Bytes) :
    c12Expect fc ty s = expectCols fc ty (columnsOfLine ty s) := rfl

theorem columnsOfLine_ne_nil (ty : Ty) (s : Bytes) : columnsOfLine ty s ≠ [] := by
  cases ty <;> exact splitOn_ne_nil _ _

/-! ### no panic -/
theorem bindP_ne_panic {β γ : Type} (x : Outcome PErr (β × List Bytes)) (k : β → List Bytes → Outcome PErr γ)
    (hx : x ≠ .panic) (hk : ∀ b r, k b r ≠ .panic) : bindP x k ≠ .panic := by
  unfold bindP
  split
  · exact hk _ _
  · simp
  · exact absurd rfl hx

theorem pChrom_ne_panic (r : List Bytes) : pChrom r ≠ .panic := by
  cases r <;> simp [pChrom]
theorem pStart_ne_panic (r : List Bytes) : pStart r ≠ .panic := by
  cases r <;> simp [pStart]; split <;> simp
theorem pEnd_ne_panic (r : List Bytes) : pEnd r ≠ .panic := by
  cases r <;> simp [pEnd]; split <;> simp
theorem pName_ne_panic (r : List Bytes) : pName r ≠ .panic := by
  cases r <;> simp [pName]
theorem pScore_ne_panic (r : List Bytes) : pScore r ≠ .panic := by
  cases r <;> simp [pScore]; split
  · simp
  · split <;> simp
theorem pStrand_ne_panic (r : List Bytes) : pStrand r ≠ .panic := by
  cases r <;> simp [pStrand]; split
  · simp
  · split <;> simp
theorem pFloat_ne_panic (fc : FloatCodec F) (r : List Bytes) : pFloat fc r ≠ .panic := by
  cases r <;> simp [pFloat]; split <;> simp
theorem pPValue_ne_panic (fc : FloatCodec F) (r : List Bytes) : pPValue fc r ≠ .panic := by
  cases r <;> simp [pPValue]; split <;> simp
theorem pPeak_ne_panic (r : List Bytes) : pPeak r ≠ .panic := by
  cases r <;> simp [pPeak]; split <;> simp
theorem pI64_ne_panic (r : List Bytes) : pI64 r ≠ .panic := by
  cases r <;> simp [pI64]; split <;> simp
theorem ite_ne_panic {β : Type} (c : Prop) [Decidable c] (x y : Outcome PErr β)
    (hx : x ≠ .panic) (hy : y ≠ .panic) : (if c then x else y) ≠ .panic := by
  split <;> assumption

theorem parseCols_ne_panic (fc : FloatCodec F) (ty : Ty) (cols : List Bytes) :
    parseCols fc ty cols ≠ .panic := by
  cases ty <;> simp only [parseCols] <;>
  repeat' (first
    | (apply bindP_ne_panic)
    | (apply ite_ne_panic)
    | (intro _ _)
    | (exact pChrom_ne_panic _) | (exact pStart_ne_panic _) | (exact pEnd_ne_panic _)
    | (exact pName_ne_panic _) | (exact pScore_ne_panic _) | (exact pStrand_ne_panic _)
    | (exact pFloat_ne_panic _ _) | (exact pPValue_ne_panic _ _) | (exact pPeak_ne_panic _)
    | (exact pI64_ne_panic _) | (intro h; cases h))

/-! ### extra trailing columns -/
/-- a column parser only looks at the head of the remaining fields -/
def Mono {β : Type} (p : P β) : Prop :=
  ∀ cols more v r, p cols = .ok (v, r) → p (cols ++ more) = .ok (v, r ++ more)

theorem bindP_mono {β γ : Type} (p : P β) (hp : Mono p) (k : β → List Bytes → Outcome PErr γ)
    (hk : ∀ b r more c, k b r = .ok c → k b (r ++ more) = .ok c) :
    ∀ cols more c, bindP (p cols) k = .ok c → bindP (p (cols ++ more)) k = .ok c := by
  intro cols more c h
  cases hx : p cols with
  | ok br =>
    obtain ⟨b, r⟩ := br
    rw [hx] at h
    rw [hp cols more b r hx]
    exact hk b r more c h
  | err e => rw [hx] at h; simp [bindP] at h
  | panic => rw [hx] at h; simp [bindP] at h

theorem pChrom_mono : Mono pChrom := by
  intro cols more v r h
  cases cols with
  | nil => simp [pChrom] at h
  | cons f t => simp only [pChrom, List.cons_append] at h ⊢; cases h; rfl
theorem pName_mono : Mono pName := by
  intro cols more v r h
  cases cols with
  | nil => simp [pName] at h
  | cons f t => simp only [pName, List.cons_append] at h ⊢; cases h; rfl
theorem pStart_mono : Mono pStart := by
  intro cols more v r h
  cases cols with
  | nil => simp [pStart] at h
  | cons f t =>
    simp only [pStart, List.cons_append] at h ⊢
    split at h <;> cases h
    simp [*]
theorem pEnd_mono : Mono pEnd := by
  intro cols more v r h
  cases cols with
  | nil => simp [pEnd] at h
  | cons f t =>
    simp only [pEnd, List.cons_append] at h ⊢
    split at h <;> cases h
    simp [*]
theorem pPeak_mono : Mono pPeak := by
  intro cols more v r h
  cases cols with
  | nil => simp [pPeak] at h
  | cons f t =>
    simp only [pPeak, List.cons_append] at h ⊢
    split at h <;> cases h
    simp [*]
theorem pI64_mono : Mono pI64 := by
  intro cols more v r h
  cases cols with
  | nil => simp [pI64] at h
  | cons f t =>
    simp only [pI64, List.cons_append] at h ⊢
    split at h <;> cases h
    simp [*]
theorem pFloat_mono (fc : FloatCodec F) : Mono (pFloat fc) := by
  intro cols more v r h
  cases cols with
  | nil => simp [pFloat] at h
  | cons f t =>
    simp only [pFloat, List.cons_append] at h ⊢
    split at h <;> cases h
    simp [*]
theorem pPValue_mono (fc : FloatCodec F) : Mono (pPValue fc) := by
  intro cols more v r h
  cases cols with
  | nil => simp [pPValue] at h
  | cons f t =>
    simp only [pPValue, List.cons_append] at h ⊢
    split at h <;> cases h
    simp [*]
theorem pScore_mono : Mono pScore := by
  intro cols more v r h
  cases cols with
  | nil => simp [pScore] at h
  | cons f t =>
    simp only [pScore, List.cons_append] at h ⊢
    split at h
    · cases h; simp [*]
    · split at h <;> cases h
      simp [*]
theorem pStrand_mono : Mono pStrand := by
  intro cols more v r h
  cases cols with
  | nil => simp [pStrand] at h
  | cons f t =>
    simp only [pStrand, List.cons_append] at h ⊢
    split at h
    · cases h; simp [*]
    · split at h <;> cases h
      simp [*]
theorem opt_mono {β : Type} (c : Prop) [Decidable c] (p : P (Option β)) (hp : Mono p) :
    Mono (fun r => if c then p r else .ok (none, r)) := by
  intro cols more v r h
  by_cases hc : c
  · simp only [hc, if_true] at h ⊢; exact hp _ _ _ _ h
  · simp only [hc, if_false] at h ⊢; cases h; rfl

theorem parseCols_mono (fc : FloatCodec F) (ty : Ty) (cols more : List Bytes) (c : TRec F)
    (h : parseCols fc ty cols = .ok c) : parseCols fc ty (cols ++ more) = .ok c := by
  revert cols more c
  cases ty <;> simp only [parseCols] <;>
  repeat' (first
    | (refine bindP_mono pChrom pChrom_mono _ ?_; intro _)
    | (refine bindP_mono pStart pStart_mono _ ?_; intro _)
    | (refine bindP_mono pEnd pEnd_mono _ ?_; intro _)
    | (refine bindP_mono pName pName_mono _ ?_; intro _)
    | (refine bindP_mono pScore pScore_mono _ ?_; intro _)
    | (refine bindP_mono pStrand pStrand_mono _ ?_; intro _)
    | (refine bindP_mono (pFloat fc) (pFloat_mono fc) _ ?_; intro _)
    | (refine bindP_mono (pPValue fc) (pPValue_mono fc) _ ?_; intro _)
    | (refine bindP_mono pPeak pPeak_mono _ ?_; intro _)
    | (refine bindP_mono pI64 pI64_mono _ ?_; intro _)
    | (refine bindP_mono _ (opt_mono _ pName pName_mono) _ ?_; intro _)
    | (refine bindP_mono _ (opt_mono _ pScore pScore_mono) _ ?_; intro _)
    | (refine bindP_mono _ (opt_mono _ pStrand pStrand_mono) _ ?_; intro _)
    | (intro _ _ _ h; exact h))

/-! ### the column-wise expectation -/
theorem pStart_cases (r : List Bytes) :
    (r = [] ∧ pStart r = .err .missingStart) ∨
    (∃ f r', r = f :: r' ∧ bedColOk 1 f = false ∧ pStart r = .err .invalidStart) ∨
    (∃ f r' n, r = f :: r' ∧ bedColOk 1 f = true ∧ pStart r = .ok (n, r')) := by
  cases r with
  | nil => exact .inl ⟨rfl, rfl⟩
  | cons f r' =>
    right
    cases h : parseUnsigned U64MAX f with
    | none => exact .inl ⟨f, r', rfl, by simp [bedColOk, h], by simp [pStart, h]⟩
    | some n => exact .inr ⟨f, r', n, rfl, by simp [bedColOk, h], by simp [pStart, h]⟩

theorem pEnd_cases (r : List Bytes) :
    (r = [] ∧ pEnd r = .err .missingEnd) ∨
    (∃ f r', r = f :: r' ∧ bedColOk 2 f = false ∧ pEnd r = .err .invalidEnd) ∨
    (∃ f r' n, r = f :: r' ∧ bedColOk 2 f = true ∧ pEnd r = .ok (n, r')) := by
  cases r with
  | nil => exact .inl ⟨rfl, rfl⟩
  | cons f r' =>
    right
    cases h : parseUnsigned U64MAX f with
    | none => exact .inl ⟨f, r', rfl, by simp [bedColOk, h], by simp [pEnd, h]⟩
    | some n => exact .inr ⟨f, r', n, rfl, by simp [bedColOk, h], by simp [pEnd, h]⟩

theorem pName_cases (r : List Bytes) :
    (r = [] ∧ pName r = .err .missingName) ∨
    (∃ f r' n, r = f :: r' ∧ pName r = .ok (n, r')) := by
  cases r with
  | nil => exact .inl ⟨rfl, rfl⟩
  | cons f r' => exact .inr ⟨f, r', _, rfl, rfl⟩

theorem pScore_cases (r : List Bytes) :
    (r = [] ∧ pScore r = .err .missingScore) ∨
    (∃ f r', r = f :: r' ∧ bedColOk 4 f = false ∧ pScore r = .err .invalidScore) ∨
    (∃ f r' n, r = f :: r' ∧ bedColOk 4 f = true ∧ pScore r = .ok (n, r')) := by
  cases r with
  | nil => exact .inl ⟨rfl, rfl⟩
  | cons f r' =>
    right
    by_cases hd : f = DOT
    · exact .inr ⟨f, r', none, rfl, by simp [bedColOk, hd], by simp [pScore, hd]⟩
    · cases h : parseScore f with
      | none => exact .inl ⟨f, r', rfl, by simp [bedColOk, h, hd], by simp [pScore, h, hd]⟩
      | some n => exact .inr ⟨f, r', some n, rfl, by simp [bedColOk, h], by simp [pScore, h, hd]⟩

theorem pStrand_cases (r : List Bytes) :
    (r = [] ∧ pStrand r = .err .missingStrand) ∨
    (∃ f r', r = f :: r' ∧ bedColOk 5 f = false ∧ pStrand r = .err .invalidStrand) ∨
    (∃ f r' n, r = f :: r' ∧ bedColOk 5 f = true ∧ pStrand r = .ok (n, r')) := by
  cases r with
  | nil => exact .inl ⟨rfl, rfl⟩
  | cons f r' =>
    right
    by_cases hd : f = DOT
    · exact .inr ⟨f, r', none, rfl, by simp [bedColOk, hd], by simp [pStrand, hd]⟩
    · cases h : parseStrand f with
      | none => exact .inl ⟨f, r', rfl, by simp [bedColOk, h, hd], by simp [pStrand, h, hd]⟩
      | some n => exact .inr ⟨f, r', some n, rfl, by simp [bedColOk, h], by simp [pStrand, h, hd]⟩

theorem pFloat_cases (fc : FloatCodec F) (r : List Bytes) :
    (r = [] ∧ ∃ e, pFloat fc r = .err e) ∨
    (∃ f r', r = f :: r' ∧ fc.parse f = none ∧ ∃ e, pFloat fc r = .err e) ∨
    (∃ f r' n x, r = f :: r' ∧ fc.parse f = some x ∧ pFloat fc r = .ok (n, r')) := by
  cases r with
  | nil => exact .inl ⟨rfl, _, rfl⟩
  | cons f r' =>
    right
    cases h : fc.parse f with
    | none => exact .inl ⟨f, r', rfl, h, _, by simp [pFloat, h]; rfl⟩
    | some n => exact .inr ⟨f, r', n, n, rfl, h, by simp [pFloat, h]⟩

theorem pPValue_cases (fc : FloatCodec F) (r : List Bytes) :
    (r = [] ∧ ∃ e, pPValue fc r = .err e) ∨
    (∃ f r', r = f :: r' ∧ fc.parse f = none ∧ ∃ e, pPValue fc r = .err e) ∨
    (∃ f r' n x, r = f :: r' ∧ fc.parse f = some x ∧ pPValue fc r = .ok (n, r')) := by
  cases r with
  | nil => exact .inl ⟨rfl, _, rfl⟩
  | cons f r' =>
    right
    cases h : fc.parse f with
    | none => exact .inl ⟨f, r', rfl, h, _, by simp [pPValue, h]; rfl⟩
    | some n => exact .inr ⟨f, r', _, n, rfl, h, by simp [pPValue, h]; rfl⟩

theorem pPeak_cases (r : List Bytes) :
    (r = [] ∧ ∃ e, pPeak r = .err e) ∨
    (∃ f r', r = f :: r' ∧ parseUnsigned U64MAX f = none ∧ ∃ e, pPeak r = .err e) ∨
    (∃ f r' n x, r = f :: r' ∧ parseUnsigned U64MAX f = some x ∧ pPeak r = .ok (n, r')) := by
  cases r with
  | nil => exact .inl ⟨rfl, _, rfl⟩
  | cons f r' =>
    right
    cases h : parseUnsigned U64MAX f with
    | none => exact .inl ⟨f, r', rfl, h, _, by simp [pPeak, h]; rfl⟩
    | some n => exact .inr ⟨f, r', n, n, rfl, h, by simp [pPeak, h]⟩

theorem pI64_cases (r : List Bytes) :
    (r = [] ∧ ∃ e, pI64 r = .err e) ∨
    (∃ f r', r = f :: r' ∧ parseI64 f = none ∧ ∃ e, pI64 r = .err e) ∨
    (∃ f r' n x, r = f :: r' ∧ parseI64 f = some x ∧ pI64 r = .ok (n, r')) := by
  cases r with
  | nil => exact .inl ⟨rfl, _, rfl⟩
  | cons f r' =>
    right
    cases h : parseI64 f with
    | none => exact .inl ⟨f, r', rfl, h, _, by simp [pI64, h]; rfl⟩
    | some n => exact .inr ⟨f, r', n, n, rfl, h, by simp [pI64, h]⟩

end BV
