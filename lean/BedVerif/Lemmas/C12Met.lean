import BedVerif.Lemmas.C12Lemmas
namespace BV
variable {F : Type}

def Met (fc : FloatCodec F) (ty : Ty) (cols : List Bytes) : Prop :=
  match expectCols fc ty cols with
  | .accept => ∃ r, parseCols fc ty cols = .ok r
  | .bedError e => parseCols fc ty cols = .err e
  | .someError => ∃ e, parseCols fc ty cols = .err e

theorem range3 : List.range 3 = [0,1,2] := by decide
theorem range4 : List.range 4 = [0,1,2,3] := by decide
theorem range5 : List.range 5 = [0,1,2,3,4] := by decide
theorem range6 : List.range 6 = [0,1,2,3,4,5] := by decide
theorem range1 : List.range 1 = [0] := by decide
theorem bedColOk0 (f : Bytes) : bedColOk 0 f = true := rfl
theorem bedColOk3 (f : Bytes) : bedColOk 3 f = true := rfl

macro "fin_met" : tactic =>
  `(tactic| focus (simp [*, Met, expectCols, parseCols, bedCols, extraColOk, bindP, pChrom, range1, range3, range4, range5, range6,
      bedColOk0, bedColOk3, bedColErr]; done))

theorem met_gr (fc : FloatCodec F) (a : Bytes) (r : List Bytes) : Met fc .gr (a :: r) := by
  rcases pStart_cases r with ⟨rfl, h⟩ | ⟨f, r, rfl, hok, h⟩ | ⟨f, r, n, rfl, hok, h⟩
  · fin_met
  · fin_met
  rcases pEnd_cases r with ⟨rfl, h⟩ | ⟨f, r, rfl, hok, h⟩ | ⟨f, r, n, rfl, hok, h⟩
  · fin_met
  · fin_met
  fin_met

-- one BED column with missing / invalid / ok outcomes
set_option hygiene false in
macro "step3" t:term : tactic =>
  `(tactic| (have hcases := $t; rcases hcases with ⟨rfl, h⟩ | ⟨f, r, rfl, hok, h⟩ | ⟨f, r, n, rfl, hok, h⟩; fin_met; fin_met))
-- the name column: missing / ok
set_option hygiene false in
macro "step2" t:term : tactic =>
  `(tactic| (have hcases := $t; rcases hcases with ⟨rfl, h⟩ | ⟨f, r, n, rfl, h⟩; fin_met))
-- a format-specific column
set_option hygiene false in
macro "stepx" t:term : tactic =>
  `(tactic| (have hcases := $t; rcases hcases with ⟨rfl, e, h⟩ | ⟨f, r, rfl, hok, e, h⟩ | ⟨f, r, n, x, rfl, hok, h⟩; fin_met; fin_met))

theorem met_bgInt (fc : FloatCodec F) (a : Bytes) (r : List Bytes) : Met fc .bgInt (a :: r) := by
  step3 (pStart_cases r)
  step3 (pEnd_cases r)
  stepx (pI64_cases r)
  fin_met

theorem met_bgFloat (fc : FloatCodec F) (a : Bytes) (r : List Bytes) : Met fc .bgFloat (a :: r) := by
  step3 (pStart_cases r)
  step3 (pEnd_cases r)
  stepx (pFloat_cases fc r)
  fin_met

theorem met_broadPeak (fc : FloatCodec F) (a : Bytes) (r : List Bytes) : Met fc .broadPeak (a :: r) := by
  step3 (pStart_cases r)
  step3 (pEnd_cases r)
  step2 (pName_cases r)
  step3 (pScore_cases r)
  step3 (pStrand_cases r)
  stepx (pFloat_cases fc r)
  stepx (pPValue_cases fc r)
  stepx (pPValue_cases fc r)
  fin_met

theorem met_narrowPeak (fc : FloatCodec F) (a : Bytes) (r : List Bytes) : Met fc .narrowPeak (a :: r) := by
  step3 (pStart_cases r)
  step3 (pEnd_cases r)
  step2 (pName_cases r)
  step3 (pScore_cases r)
  step3 (pStrand_cases r)
  stepx (pFloat_cases fc r)
  stepx (pPValue_cases fc r)
  stepx (pPValue_cases fc r)
  stepx (pPeak_cases r)
  fin_met

theorem met_bed3 (fc : FloatCodec F) (a : Bytes) (r : List Bytes) : Met fc (.bed 3) (a :: r) := by
  step3 (pStart_cases r)
  step3 (pEnd_cases r)
  fin_met

theorem met_bed4 (fc : FloatCodec F) (a : Bytes) (r : List Bytes) : Met fc (.bed 4) (a :: r) := by
  step3 (pStart_cases r)
  step3 (pEnd_cases r)
  step2 (pName_cases r)
  fin_met

theorem met_bed5 (fc : FloatCodec F) (a : Bytes) (r : List Bytes) : Met fc (.bed 5) (a :: r) := by
  step3 (pStart_cases r)
  step3 (pEnd_cases r)
  step2 (pName_cases r)
  step3 (pScore_cases r)
  fin_met

theorem met_bed6 (fc : FloatCodec F) (a : Bytes) (r : List Bytes) : Met fc (.bed 6) (a :: r) := by
  step3 (pStart_cases r)
  step3 (pEnd_cases r)
  step2 (pName_cases r)
  step3 (pScore_cases r)
  step3 (pStrand_cases r)
  fin_met

theorem met_bed_le (fc : FloatCodec F) (n : Nat) (hn : n ≤ 3) (cols : List Bytes) :
    Met fc (.bed n) cols ↔ Met fc (.bed 3) cols := by
  have h1 : ¬ n > 3 := by omega
  have h2 : ¬ n > 4 := by omega
  have h3 : ¬ n > 5 := by omega
  have hb : bedCols (.bed n) = 3 := by simp only [bedCols]; omega
  have hp : parseCols fc (.bed n) cols = parseCols fc (.bed 3) cols := by
    simp [parseCols, h1, h2, h3]
  have he : expectCols fc (.bed n) cols = expectCols fc (.bed 3) cols := by
    simp only [expectCols, hb, extraColOk]; rfl
  simp only [Met, hp, he]

theorem met_bed_ge (fc : FloatCodec F) (n : Nat) (hn : 6 ≤ n) (cols : List Bytes) :
    Met fc (.bed n) cols ↔ Met fc (.bed 6) cols := by
  have h1 : n > 3 := by omega
  have h2 : n > 4 := by omega
  have h3 : n > 5 := by omega
  have hb : bedCols (.bed n) = 6 := by simp only [bedCols]; omega
  have hp : parseCols fc (.bed n) cols = parseCols fc (.bed 6) cols := by
    simp [parseCols, h1, h2, h3]
  have he : expectCols fc (.bed n) cols = expectCols fc (.bed 6) cols := by
    simp only [expectCols, hb, extraColOk]; rfl
  simp only [Met, hp, he]

theorem met_all (fc : FloatCodec F) (ty : Ty) (a : Bytes) (r : List Bytes) : Met fc ty (a :: r) := by
  cases ty with
  | gr => exact met_gr fc a r
  | narrowPeak => exact met_narrowPeak fc a r
  | broadPeak => exact met_broadPeak fc a r
  | bgInt => exact met_bgInt fc a r
  | bgFloat => exact met_bgFloat fc a r
  | bed n =>
    by_cases h3 : n ≤ 3
    · exact (met_bed_le fc n h3 _).2 (met_bed3 fc a r)
    · by_cases h6 : 6 ≤ n
      · exact (met_bed_ge fc n h6 _).2 (met_bed6 fc a r)
      · obtain rfl | rfl : n = 4 ∨ n = 5 := by omega
        · exact met_bed4 fc a r
        · exact met_bed5 fc a r

end BV
