import BedVerif.Lemmas.CoverVocab
import BedVerif.Props.C02
import BedVerif.Props.C16
import BedVerif.Props.C17
import BedVerif.Lemmas.C18Merge
/-! Helper lemmas for C18: operation histories. -/
namespace BV
namespace C18h
variable {α : Type}

/-- the bundled history invariant relative to the list `R` of supplied intervals -/
structure G (s : Lapper α) (R : List (Iv α)) : Prop where
  inv : Inv s
  ne : ∀ iv ∈ s.intervals.toList, iv.start < iv.stop
  flag : s.merged = true → Canonical s.intervals.toList
  cov : ∀ p, covered s.intervals.toList p ↔ covered R p

theorem G.weak {s : Lapper α} {R : List (Iv α)} (h : G s R) : Weak s :=
  fun iv hiv => Nat.le_of_lt (h.ne iv hiv)

theorem G_new (l : List (Iv α)) (hne : ∀ iv ∈ l, iv.start < iv.stop) : G (Lapper.new l) l where
  inv := inv_new l
  ne := fun iv hiv => hne iv ((new_intervals_perm l).mem_iff.mp hiv)
  flag := by intro h; simp [Lapper.new] at h
  cov := fun p => covered_perm (new_intervals_perm l) p

theorem G_insert {s : Lapper α} {R : List (Iv α)} (h : G s R) (e : Iv α) (he : e.start < e.stop) :
    G (s.insert e) (R ++ [e]) where
  inv := inv_insert s h.inv e
  ne := by
    intro iv hiv
    rcases List.mem_cons.mp ((insert_intervals_perm s e).mem_iff.mp hiv) with rfl | h'
    · exact he
    · exact h.ne iv h'
  flag := by intro hm; simp [Lapper.insert] at hm
  cov := by
    intro p
    rw [covered_perm (insert_intervals_perm s e) p, covered_cons, covered_append, h.cov p, covered_cons]
    simp [covered_nil, or_comm]

theorem G_merge {s : Lapper α} {R : List (Iv α)} (h : G s R) : G s.mergeOverlaps R := by
  have hm := mergeList_canonical s.intervals.toList h.inv.sortedStart h.ne
  have hi := mergeOverlaps_intervals s
  refine ⟨(inv_merge s h.inv h.weak).1, ?_, ?_, ?_⟩
  · rw [hi]; exact hm.1.1
  · intro _; rw [hi]; exact hm.1
  · intro p; rw [hi, hm.2 p]; exact h.cov p

theorem G_setCov {s : Lapper α} {R : List (Iv α)} (h : G s R) : G s.setCov R :=
  ⟨inv_setCov s h.inv, h.ne, h.flag, h.cov⟩

theorem G_foldl (ops : List (Op α)) (s : Lapper α) (R : List (Iv α)) (h : G s R)
    (hops : ∀ iv ∈ insertedOf ops, iv.start < iv.stop) :
    G (ops.foldl Lapper.step s) (R ++ insertedOf ops) := by
  induction ops generalizing s R with
  | nil => simpa [insertedOf] using h
  | cons o t ih =>
    simp only [List.foldl_cons]
    cases o with
    | insert iv =>
      have hiv : iv.start < iv.stop := hops iv (by simp [insertedOf])
      have := ih _ _ (G_insert h iv hiv) (fun x hx => hops x (by simp [insertedOf] at hx ⊢; exact Or.inr hx))
      simpa [insertedOf, Lapper.step] using this
    | merge =>
      have := ih _ _ (G_merge h) (fun x hx => hops x (by simpa [insertedOf] using hx))
      simpa [insertedOf, Lapper.step] using this
    | setCov =>
      have := ih _ _ (G_setCov h) (fun x hx => hops x (by simpa [insertedOf] using hx))
      simpa [insertedOf, Lapper.step] using this

theorem G_run (l : List (Iv α)) (ops : List (Op α)) (h : NonEmptyIvs l ops) :
    G (Lapper.run l ops) (recordsOf l ops) := by
  unfold Lapper.run recordsOf
  apply G_foldl ops _ _ (G_new l ?_)
  · intro iv hiv; exact h iv (by unfold recordsOf; exact List.mem_append_right _ hiv)
  · intro iv hiv; exact h iv (by unfold recordsOf; exact List.mem_append_left _ hiv)

theorem merge_canonical (l : List (Iv α)) (ops : List (Op α)) (h : NonEmptyIvs l ops) :
    Canonical (Lapper.run l ops).mergeOverlaps.intervals.toList ∧
    (∀ p, covered (Lapper.run l ops).mergeOverlaps.intervals.toList p ↔ covered (Lapper.run l ops).intervals.toList p) ∧
    (Lapper.run l ops).mergeOverlaps.mergeOverlaps.intervals.toList = (Lapper.run l ops).mergeOverlaps.intervals.toList := by
  have g := G_run l ops h
  have hm := mergeList_canonical _ g.inv.sortedStart g.ne
  rw [mergeOverlaps_intervals (Lapper.run l ops).mergeOverlaps, mergeOverlaps_intervals (Lapper.run l ops)]
  exact ⟨hm.1, hm.2, mergeList_of_canonical _ hm.1⟩

theorem queries_after (l : List (Iv α)) (ops : List (Op α)) (h : NonEmptyIvs l ops) (qs qe : Nat) (hq : qs < qe) :
    let s := Lapper.run l ops
    s.find qs qe = s.intervals.toList.filter (·.ov qs qe) ∧
    s.count qs qe = (s.intervals.toList.filter (·.ov qs qe)).length ∧
    (s.seek qs qe 0).1 = s.intervals.toList.filter (·.ov qs qe) := by
  intro s
  have hw := h.weak
  obtain ⟨hinv, _⟩ := inv_run_weak l ops hw
  refine ⟨C02_find_eq_filter_weak l ops hw qs qe, ?_, ?_⟩
  · rw [(C16_count_eq_find l ops hw qs qe hq).2, List.countP_eq_length_filter]
  · exact (seek_step s hinv.sortedStart hinv.maxLen_ge qs qe 0 0 (fun i _ h => by omega) (Nat.zero_le _)).1

theorem insert_after (l : List (Iv α)) (ops : List (Op α)) (iv : Iv α) :
    (Lapper.run l (ops ++ [.insert iv])).intervals.toList.Perm (iv :: (Lapper.run l ops).intervals.toList) := by
  unfold Lapper.run
  rw [List.foldl_append]
  exact insert_intervals_perm _ iv

end C18h
end BV
