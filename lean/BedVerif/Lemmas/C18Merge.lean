import BedVerif.Lemmas.CoverVocab
/-! Helper lemmas for C18: list-level facts about `mergeList`, `covered`, `Canonical`. -/
namespace BV
namespace C18h
variable {α : Type}

theorem covers_iff (iv : Iv α) (p : Nat) : iv.covers p = true ↔ iv.start ≤ p ∧ p < iv.stop := by
  simp [Iv.covers]

theorem covered_nil (p : Nat) : ¬ covered ([] : List (Iv α)) p := by
  simp [covered]

theorem covered_cons (a : Iv α) (l : List (Iv α)) (p : Nat) :
    covered (a :: l) p ↔ a.covers p = true ∨ covered l p := by
  simp [covered]

theorem covered_append (l₁ l₂ : List (Iv α)) (p : Nat) :
    covered (l₁ ++ l₂) p ↔ covered l₁ p ∨ covered l₂ p := by
  simp [covered, or_and_right, exists_or]

theorem covered_of_mem_iff {l₁ l₂ : List (Iv α)} (h : ∀ x, x ∈ l₁ ↔ x ∈ l₂) (p : Nat) :
    covered l₁ p ↔ covered l₂ p := by
  simp [covered, h]

theorem covered_reverse (l : List (Iv α)) (p : Nat) : covered l.reverse p ↔ covered l p :=
  covered_of_mem_iff (fun _ => List.mem_reverse) p

theorem covered_perm {l₁ l₂ : List (Iv α)} (h : l₁.Perm l₂) (p : Nat) : covered l₁ p ↔ covered l₂ p :=
  covered_of_mem_iff (fun _ => h.mem_iff) p

/-! ### the merge loop -/

/-- invariant of the stack during the merge loop, for non-empty intervals -/
structure CInv (acc rest : List (Iv α)) : Prop where
  ne : ∀ iv ∈ acc, iv.start < iv.stop
  sep : acc.Pairwise (fun a b => b.stop < a.start)
  top_le : ∀ top ∈ acc.head?, ∀ iv ∈ rest, top.start ≤ iv.start

theorem mergeStep_cinv (acc : List (Iv α)) (iv : Iv α) (rest : List (Iv α))
    (h : CInv acc (iv :: rest)) (hw : iv.start < iv.stop) (hs : ∀ x ∈ rest, iv.start ≤ x.start) :
    CInv (mergeStep acc iv) rest ∧
    ∀ p, covered (mergeStep acc iv) p ↔ (covered acc p ∨ iv.covers p = true) := by
  cases acc with
  | nil =>
    simp only [mergeStep]
    refine ⟨⟨by simpa using hw, by simp, by simpa using hs⟩, ?_⟩
    intro p
    simp [covered]
  | cons top t =>
    have htw := h.ne top (by simp)
    have hsep := List.pairwise_cons.mp h.sep
    have htl := h.top_le top (by simp)
    have htiv := htl iv (by simp)
    simp only [mergeStep]
    split
    · rename_i hlt
      refine ⟨⟨?_, ?_, by simpa using hs⟩, ?_⟩
      · intro x hx
        rcases List.mem_cons.mp hx with rfl | hx
        · exact hw
        · exact h.ne x hx
      · apply List.pairwise_cons.mpr
        refine ⟨?_, h.sep⟩
        intro b hb
        rcases List.mem_cons.mp hb with rfl | hb
        · exact hlt
        · have := hsep.1 b hb; have := h.ne b (List.mem_cons_of_mem _ hb); omega
      · intro p
        rw [covered_cons]
        exact Or.comm
    · split
      · rename_i hge hlt
        refine ⟨⟨?_, ?_, ?_⟩, ?_⟩
        · intro x hx
          rcases List.mem_cons.mp hx with rfl | hx
          · simp; omega
          · exact h.ne x (List.mem_cons_of_mem _ hx)
        · apply List.pairwise_cons.mpr
          exact ⟨fun b hb => by simpa using hsep.1 b hb, hsep.2⟩
        · intro top' ht' x hx
          simp at ht'; subst ht'
          simpa using htl x (List.mem_cons_of_mem _ hx)
        · intro p
          rw [covered_cons, covered_cons, covers_iff, covers_iff, covers_iff]
          simp only
          by_cases hc : covered t p
          · simp [hc]
          · simp only [hc, or_false]
            omega
      · rename_i hge hle
        refine ⟨⟨h.ne, h.sep, fun top' ht' x hx => h.top_le top' ht' x (List.mem_cons_of_mem _ hx)⟩, ?_⟩
        intro p
        rw [covered_cons, covers_iff, covers_iff]
        by_cases hc : covered t p
        · simp [hc]
        · simp only [hc, or_false]
          omega

theorem mergeFold_cinv (l : List (Iv α)) (acc : List (Iv α)) (h : CInv acc l)
    (hw : ∀ iv ∈ l, iv.start < iv.stop) (hs : SortedStart l) :
    CInv (l.foldl mergeStep acc) [] ∧
    ∀ p, covered (l.foldl mergeStep acc) p ↔ (covered acc p ∨ covered l p) := by
  induction l generalizing acc with
  | nil =>
    refine ⟨by simpa using h, ?_⟩
    intro p
    simp [covered_nil]
  | cons a t ih =>
    have hp := List.pairwise_cons.mp hs
    simp only [List.foldl_cons]
    have h1 := mergeStep_cinv acc a t h (hw a (by simp)) hp.1
    have h2 := ih _ h1.1 (fun iv hiv => hw iv (List.mem_cons_of_mem _ hiv)) hp.2
    refine ⟨h2.1, ?_⟩
    intro p
    rw [h2.2 p, h1.2 p, covered_cons, or_assoc]

theorem mergeList_canonical (l : List (Iv α)) (hs : SortedStart l) (hne : ∀ iv ∈ l, iv.start < iv.stop) :
    Canonical (mergeList l) ∧ ∀ p, covered (mergeList l) p ↔ covered l p := by
  have h := mergeFold_cinv l [] ⟨by simp, by simp, by simp⟩ hne hs
  unfold mergeList
  refine ⟨⟨by simpa using h.1.ne, by rw [List.pairwise_reverse]; exact h.1.sep⟩, ?_⟩
  intro p
  rw [covered_reverse, h.2 p]
  simp [covered_nil]

/-! ### merging a canonical list -/

theorem mergeFold_of_canonical (l : List (Iv α)) (acc : List (Iv α)) (h : Canonical l)
    (ht : ∀ top ∈ acc.head?, ∀ iv ∈ l, top.stop < iv.start) :
    l.foldl mergeStep acc = l.reverse ++ acc := by
  induction l generalizing acc with
  | nil => simp
  | cons a t ih =>
    have hp := List.pairwise_cons.mp h.2
    simp only [List.foldl_cons]
    have hstep : mergeStep acc a = a :: acc := by
      cases acc with
      | nil => simp [mergeStep]
      | cons top r =>
        have := ht top (by simp) a (by simp)
        simp [mergeStep, this]
    rw [hstep, ih (a :: acc) ⟨fun iv hiv => h.1 iv (List.mem_cons_of_mem _ hiv), hp.2⟩
      (by intro top htop iv hiv; simp at htop; subst htop; exact hp.1 iv hiv)]
    simp

theorem mergeList_of_canonical (l : List (Iv α)) (h : Canonical l) : mergeList l = l := by
  unfold mergeList
  rw [mergeFold_of_canonical l [] h (by simp)]
  simp

/-! ### uniqueness of canonical lists -/

theorem canon_tail {a : Iv α} {t : List (Iv α)} (h : Canonical (a :: t)) : Canonical t :=
  ⟨fun iv hiv => h.1 iv (List.mem_cons_of_mem _ hiv), (List.pairwise_cons.mp h.2).2⟩

/-- in a canonical list every covered position is at or after the first start; positions covered by
the tail lie strictly beyond the first stop -/
theorem canon_tail_gt {a : Iv α} {t : List (Iv α)} (h : Canonical (a :: t)) {p : Nat} (hc : covered t p) :
    a.stop < p := by
  obtain ⟨iv, hiv, hcv⟩ := hc
  have := (List.pairwise_cons.mp h.2).1 iv hiv
  rw [covers_iff] at hcv
  omega

theorem canon_ge_head {a : Iv α} {t : List (Iv α)} (h : Canonical (a :: t)) {p : Nat} (hc : covered (a :: t) p) :
    a.start ≤ p := by
  rcases (covered_cons a t p).mp hc with h1 | h1
  · rw [covers_iff] at h1; exact h1.1
  · have := canon_tail_gt h h1
    have := h.1 a (by simp)
    omega

theorem canon_head_start {β : Type} {a : Iv α} {t₁ : List (Iv α)} {b : Iv β} {t₂ : List (Iv β)}
    (h₁ : Canonical (a :: t₁)) (h₂ : Canonical (b :: t₂))
    (h : ∀ p, covered (a :: t₁) p → covered (b :: t₂) p) : b.start ≤ a.start := by
  have ha := h₁.1 a (by simp)
  have : covered (a :: t₁) a.start := ⟨a, by simp, by rw [covers_iff]; omega⟩
  exact canon_ge_head h₂ (h _ this)

theorem canon_head_stop {β : Type} {a : Iv α} {t₁ : List (Iv α)} {b : Iv β} {t₂ : List (Iv β)}
    (h₁ : Canonical (a :: t₁)) (h₂ : Canonical (b :: t₂)) (hst : a.start = b.start)
    (h : ∀ p, covered (b :: t₂) p → covered (a :: t₁) p) : b.stop ≤ a.stop := by
  have ha := h₁.1 a (by simp)
  have hb := h₂.1 b (by simp)
  apply Nat.le_of_not_lt
  intro hlt
  have hc : covered (b :: t₂) a.stop := ⟨b, by simp, by rw [covers_iff]; omega⟩
  rcases (covered_cons a t₁ _).mp (h _ hc) with h1 | h1
  · rw [covers_iff] at h1; omega
  · have := canon_tail_gt h₁ h1; omega

theorem canon_tail_cov {β : Type} {a : Iv α} {t₁ : List (Iv α)} {b : Iv β} {t₂ : List (Iv β)}
    (h₁ : Canonical (a :: t₁)) (_hst : a.start = b.start) (hsp : a.stop = b.stop)
    (h : ∀ p, covered (a :: t₁) p → covered (b :: t₂) p) (p : Nat) (hc : covered t₁ p) : covered t₂ p := by
  have hgt := canon_tail_gt h₁ hc
  rcases (covered_cons b t₂ p).mp (h p ((covered_cons a t₁ p).mpr (Or.inr hc))) with h1 | h1
  · rw [covers_iff] at h1; omega
  · exact h1

theorem canonical_unique {β : Type} (l₁ : List (Iv α)) (l₂ : List (Iv β)) (h₁ : Canonical l₁) (h₂ : Canonical l₂)
    (h : ∀ p, covered l₁ p ↔ covered l₂ p) :
    l₁.map (fun i => (i.start, i.stop)) = l₂.map (fun i => (i.start, i.stop)) := by
  induction l₁ generalizing l₂ with
  | nil =>
    cases l₂ with
    | nil => rfl
    | cons b t₂ =>
      exfalso
      have hb := h₂.1 b (by simp)
      have : covered (b :: t₂) b.start := ⟨b, by simp, by rw [covers_iff]; omega⟩
      exact covered_nil _ ((h _).mpr this)
  | cons a t₁ ih =>
    cases l₂ with
    | nil =>
      exfalso
      have ha := h₁.1 a (by simp)
      have : covered (a :: t₁) a.start := ⟨a, by simp, by rw [covers_iff]; omega⟩
      exact covered_nil _ ((h _).mp this)
    | cons b t₂ =>
      have hst : a.start = b.start :=
        Nat.le_antisymm (canon_head_start h₂ h₁ (fun p => (h p).mpr)) (canon_head_start h₁ h₂ (fun p => (h p).mp))
      have hsp : a.stop = b.stop :=
        Nat.le_antisymm (canon_head_stop h₂ h₁ hst.symm (fun p => (h p).mp)) (canon_head_stop h₁ h₂ hst (fun p => (h p).mpr))
      have htl := ih t₂ (canon_tail h₁) (canon_tail h₂) (fun p =>
        ⟨canon_tail_cov h₁ hst hsp (fun p => (h p).mp) p, canon_tail_cov h₂ hst.symm hsp.symm (fun p => (h p).mpr) p⟩)
      simp only [List.map_cons, hst, hsp, htl]

end C18h
end BV
