import BedVerif.Lemmas.CoverVocab
import BedVerif.Lemmas.C18Merge
/-! Helper lemmas for C18: `runsOf` / `canonicalCover` compute the canonical cover. -/
namespace BV
namespace C18h
variable {α : Type}

/-- the step function of `runsOf`, named -/
def rstep (f : Nat → Bool) (acc : List (Nat × Nat) × Option Nat) (p : Nat) : List (Nat × Nat) × Option Nat :=
  match acc.2, f p with
  | none, true => (acc.1, some p)
  | none, false => acc
  | some s, true => (acc.1, some s)
  | some s, false => (acc.1 ++ [(s, p)], none)

/-- closing the pending run -/
def rfin (r : List (Nat × Nat) × Option Nat) (n : Nat) : List (Nat × Nat) :=
  match r.2 with
  | none => r.1
  | some s => r.1 ++ [(s, n)]

theorem runsOf_eq (f : Nat → Bool) (n : Nat) :
    runsOf f n = rfin ((List.range n).foldl (rstep f) ([], none)) n := rfl

/-- position `q` lies in one of the pairs of `L` -/
def inL (L : List (Nat × Nat)) (q : Nat) : Prop := ∃ pr ∈ L, pr.1 ≤ q ∧ q < pr.2

theorem inL_nil (q : Nat) : ¬ inL [] q := by simp [inL]

theorem inL_append (L₁ L₂ : List (Nat × Nat)) (q : Nat) : inL (L₁ ++ L₂) q ↔ inL L₁ q ∨ inL L₂ q := by
  simp [inL, or_and_right, exists_or]

theorem inL_single (s e q : Nat) : inL [(s, e)] q ↔ s ≤ q ∧ q < e := by
  simp [inL]

/-- loop invariant of `runsOf` after the positions `0 .. k-1` -/
structure J (f : Nat → Bool) (k : Nat) (acc : List (Nat × Nat)) (cur : Option Nat) : Prop where
  ne : ∀ pr ∈ acc, pr.1 < pr.2
  sep : acc.Pairwise (fun a b => a.2 < b.1)
  bnd_none : cur = none → ∀ pr ∈ acc, pr.2 < k
  bnd_some : ∀ s, cur = some s → s < k ∧ ∀ pr ∈ acc, pr.2 < s
  cov : ∀ q, q < k → (f q = true ↔ (inL acc q ∨ ∃ s, cur = some s ∧ s ≤ q))

theorem J.not_inL_none {f : Nat → Bool} {k : Nat} {acc : List (Nat × Nat)} (h : J f k acc none) {q : Nat}
    (hq : k ≤ q) : ¬ inL acc q := by
  rintro ⟨pr, hpr, h1, h2⟩
  have := h.bnd_none rfl pr hpr
  omega

theorem J.not_inL_some {f : Nat → Bool} {k s : Nat} {acc : List (Nat × Nat)} (h : J f k acc (some s)) {q : Nat}
    (hq : s ≤ q) : ¬ inL acc q := by
  rintro ⟨pr, hpr, h1, h2⟩
  have := (h.bnd_some s rfl).2 pr hpr
  omega

theorem J_init (f : Nat → Bool) : J f 0 [] none :=
  ⟨by simp, by simp, by simp, by simp, by intro q hq; omega⟩

theorem J_none_false {f : Nat → Bool} {k : Nat} {acc : List (Nat × Nat)} (h : J f k acc none) (hf : f k = false) :
    J f (k+1) acc none := by
  refine ⟨h.ne, h.sep, ?_, by simp, ?_⟩
  · intro _ pr hpr; have := h.bnd_none rfl pr hpr; omega
  · intro q hq
    by_cases hqk : q < k
    · exact h.cov q hqk
    · have : q = k := by omega
      subst this
      have := h.not_inL_none (Nat.le_refl q)
      simp [hf, this]

theorem J_none_true {f : Nat → Bool} {k : Nat} {acc : List (Nat × Nat)} (h : J f k acc none) (hf : f k = true) :
    J f (k+1) acc (some k) := by
  refine ⟨h.ne, h.sep, by simp, ?_, ?_⟩
  · intro s hs
    simp at hs; subst hs
    exact ⟨by omega, h.bnd_none rfl⟩
  · intro q hq
    by_cases hqk : q < k
    · rw [h.cov q hqk]
      have : ¬ k ≤ q := by omega
      simp [this]
    · have : q = k := by omega
      subst this
      simp [hf]

theorem J_some_true {f : Nat → Bool} {k s : Nat} {acc : List (Nat × Nat)} (h : J f k acc (some s)) (hf : f k = true) :
    J f (k+1) acc (some s) := by
  refine ⟨h.ne, h.sep, by simp, ?_, ?_⟩
  · intro s' hs'
    have := h.bnd_some s' hs'
    exact ⟨by omega, this.2⟩
  · intro q hq
    by_cases hqk : q < k
    · exact h.cov q hqk
    · have : q = k := by omega
      subst this
      have := (h.bnd_some s rfl).1
      have hle : s ≤ q := by omega
      simp [hf, hle]

theorem J_some_false {f : Nat → Bool} {k s : Nat} {acc : List (Nat × Nat)} (h : J f k acc (some s)) (hf : f k = false) :
    J f (k+1) (acc ++ [(s, k)]) none := by
  have hb := h.bnd_some s rfl
  refine ⟨?_, ?_, ?_, by simp, ?_⟩
  · intro pr hpr
    rcases List.mem_append.mp hpr with h1 | h1
    · exact h.ne pr h1
    · simp at h1; subst h1; exact hb.1
  · rw [List.pairwise_append]
    refine ⟨h.sep, by simp, ?_⟩
    intro a ha b hb'
    simp at hb'; subst hb'
    exact hb.2 a ha
  · intro _ pr hpr
    rcases List.mem_append.mp hpr with h1 | h1
    · have := hb.2 pr h1; omega
    · simp at h1; subst h1; simp
  · intro q hq
    rw [inL_append, inL_single]
    by_cases hqk : q < k
    · rw [h.cov q hqk]
      simp [hqk]
    · have : q = k := by omega
      subst this
      have := h.not_inL_some (Nat.le_of_lt hb.1)
      simp [hf, this]

theorem J_step {f : Nat → Bool} {k : Nat} {st : List (Nat × Nat) × Option Nat} (h : J f k st.1 st.2) :
    J f (k+1) (rstep f st k).1 (rstep f st k).2 := by
  obtain ⟨acc, cur⟩ := st
  cases cur with
  | none =>
    cases hf : f k with
    | false => simpa [rstep, hf] using J_none_false h hf
    | true => simpa [rstep, hf] using J_none_true h hf
  | some s =>
    cases hf : f k with
    | false => simpa [rstep, hf] using J_some_false h hf
    | true => simpa [rstep, hf] using J_some_true h hf

theorem J_fold (f : Nat → Bool) (n : Nat) :
    J f n ((List.range n).foldl (rstep f) ([], none)).1 ((List.range n).foldl (rstep f) ([], none)).2 := by
  induction n with
  | zero => simpa using J_init f
  | succ k ih =>
    rw [List.range_succ, List.foldl_append]
    exact J_step ih

/-- `runsOf f n`: non-empty, separated pairs covering exactly `{q < n | f q}` -/
theorem runsOf_spec (f : Nat → Bool) (n : Nat) :
    (∀ pr ∈ runsOf f n, pr.1 < pr.2) ∧ (runsOf f n).Pairwise (fun a b => a.2 < b.1) ∧
    ∀ q, inL (runsOf f n) q ↔ (q < n ∧ f q = true) := by
  rw [runsOf_eq]
  have h := J_fold f n
  generalize (List.range n).foldl (rstep f) ([], none) = st at h
  obtain ⟨acc, cur⟩ := st
  cases cur with
  | none =>
    simp only [rfin]
    refine ⟨h.ne, h.sep, ?_⟩
    intro q
    constructor
    · intro hin
      have hq : q < n := by
        apply Nat.lt_of_not_le
        intro hle
        exact h.not_inL_none hle hin
      exact ⟨hq, (h.cov q hq).mpr (Or.inl hin)⟩
    · rintro ⟨hq, hf⟩
      rcases (h.cov q hq).mp hf with h1 | ⟨s, hs, _⟩
      · exact h1
      · cases hs
  | some s =>
    simp only [rfin]
    have hb := h.bnd_some s rfl
    refine ⟨?_, ?_, ?_⟩
    · intro pr hpr
      rcases List.mem_append.mp hpr with h1 | h1
      · exact h.ne pr h1
      · simp at h1; subst h1; exact hb.1
    · rw [List.pairwise_append]
      refine ⟨h.sep, by simp, ?_⟩
      intro a ha b hb'
      simp at hb'; subst hb'
      exact hb.2 a ha
    · intro q
      rw [inL_append, inL_single]
      constructor
      · rintro (hin | ⟨h1, h2⟩)
        · have hq : q < n := by
            obtain ⟨pr, hpr, h1, h2⟩ := hin
            have := hb.2 pr hpr
            omega
          exact ⟨hq, (h.cov q hq).mpr (Or.inl hin)⟩
        · exact ⟨h2, (h.cov q h2).mpr (Or.inr ⟨s, rfl, h1⟩)⟩
      · rintro ⟨hq, hf⟩
        rcases (h.cov q hq).mp hf with h1 | ⟨s', hs', hle⟩
        · exact Or.inl h1
        · simp at hs'; subst hs'
          exact Or.inr ⟨hle, hq⟩

/-! ### back to intervals -/

def toIv (pr : Nat × Nat) : Iv Unit := ⟨pr.1, pr.2, ()⟩

theorem covered_toIv (L : List (Nat × Nat)) (q : Nat) : covered (L.map toIv) q ↔ inL L q := by
  unfold covered inL
  constructor
  · rintro ⟨iv, hiv, hc⟩
    obtain ⟨pr, hpr, rfl⟩ := List.mem_map.mp hiv
    rw [covers_iff] at hc
    exact ⟨pr, hpr, hc⟩
  · rintro ⟨pr, hpr, hc⟩
    exact ⟨toIv pr, List.mem_map_of_mem hpr, by rw [covers_iff]; exact hc⟩

theorem canonical_toIv (L : List (Nat × Nat)) (hne : ∀ pr ∈ L, pr.1 < pr.2)
    (hsep : L.Pairwise (fun a b => a.2 < b.1)) : Canonical (L.map toIv) := by
  refine ⟨?_, ?_⟩
  · intro iv hiv
    obtain ⟨pr, hpr, rfl⟩ := List.mem_map.mp hiv
    exact hne pr hpr
  · rw [List.pairwise_map]
    exact hsep

theorem map_toIv (L : List (Nat × Nat)) : (L.map toIv).map (fun i => (i.start, i.stop)) = L := by
  simp [List.map_map, Function.comp_def, toIv]

theorem maxStop_foldl_ge (l : List (Iv α)) (m : Nat) :
    m ≤ l.foldl (fun m iv => max m iv.stop) m ∧
    ∀ iv ∈ l, iv.stop ≤ l.foldl (fun m iv => max m iv.stop) m := by
  induction l generalizing m with
  | nil => simp
  | cons a t ih =>
    simp only [List.foldl_cons]
    have h1 := ih (max m a.stop)
    refine ⟨by have := h1.1; omega, ?_⟩
    intro iv hiv
    rcases List.mem_cons.mp hiv with rfl | hiv
    · have := h1.1; omega
    · exact h1.2 iv hiv

theorem maxStop_ge (l : List (Iv α)) : ∀ iv ∈ l, iv.stop ≤ maxStop l := (maxStop_foldl_ge l 0).2

theorem coveredB_iff (l : List (Iv α)) (p : Nat) : coveredB l p = true ↔ covered l p := by
  simp [coveredB, covered, List.any_eq_true]

theorem covered_lt_maxStop (l : List (Iv α)) (p : Nat) (h : covered l p) : p < maxStop l := by
  obtain ⟨iv, hiv, hc⟩ := h
  rw [covers_iff] at hc
  have := maxStop_ge l iv hiv
  omega

theorem canonicalCover_spec (l : List (Iv α)) :
    Canonical ((canonicalCover l).map toIv) ∧ ∀ p, covered ((canonicalCover l).map toIv) p ↔ covered l p := by
  unfold canonicalCover
  obtain ⟨h1, h2, h3⟩ := runsOf_spec (coveredB l) (maxStop l + 1)
  refine ⟨canonical_toIv _ h1 h2, ?_⟩
  intro p
  rw [covered_toIv, h3 p, coveredB_iff]
  constructor
  · exact fun h => h.2
  · intro h
    have := covered_lt_maxStop l p h
    exact ⟨by omega, h⟩

theorem merge_eq_canonicalCover (l : List (Iv α)) (hs : SortedStart l) (hne : ∀ iv ∈ l, iv.start < iv.stop) :
    (mergeList l).map (fun i => (i.start, i.stop)) = canonicalCover l := by
  have hc := mergeList_canonical l hs hne
  have hk := canonicalCover_spec l
  have u := canonical_unique (mergeList l) ((canonicalCover l).map toIv) hc.1 hk.1
    (fun p => (hc.2 p).trans (hk.2 p).symm)
  rw [u, map_toIv]

end C18h
end BV
