import BedVerif.Lemmas.CoverVocab
/-! Counting toolkit for C19: `cnt f n` = number of `p < n` with `f p`. -/
namespace BV
variable {α : Type}

def cnt (f : Nat → Bool) (n : Nat) : Nat := ((List.range n).filter f).length

theorem cnt_zero (f : Nat → Bool) : cnt f 0 = 0 := by simp [cnt]

theorem cnt_succ (f : Nat → Bool) (n : Nat) : cnt f (n+1) = cnt f n + (if f n then 1 else 0) := by
  unfold cnt
  rw [List.range_succ, List.filter_append, List.length_append]
  cases h : f n <;> simp [h]

theorem cnt_congr {f g : Nat → Bool} {n : Nat} (h : ∀ p, p < n → f p = g p) : cnt f n = cnt g n := by
  induction n with
  | zero => simp [cnt_zero]
  | succ n ih =>
    rw [cnt_succ, cnt_succ, ih (fun p hp => h p (by omega)), h n (by omega)]

theorem cnt_false (n : Nat) : cnt (fun _ => false) n = 0 := by
  induction n with
  | zero => simp [cnt_zero]
  | succ n ih => rw [cnt_succ, ih]; simp

theorem cnt_eq_zero {f : Nat → Bool} {n : Nat} (h : ∀ p, p < n → f p = false) : cnt f n = 0 := by
  rw [cnt_congr (g := fun _ => false) h, cnt_false]

/-- inclusion–exclusion -/
theorem cnt_or_and (f g : Nat → Bool) (n : Nat) :
    cnt (fun p => f p || g p) n + cnt (fun p => f p && g p) n = cnt f n + cnt g n := by
  induction n with
  | zero => simp [cnt_zero]
  | succ n ih =>
    simp only [cnt_succ]
    cases hf : f n <;> cases hg : g n <;> simp <;> omega

theorem cnt_mono {f g : Nat → Bool} {n : Nat} (h : ∀ p, p < n → f p = true → g p = true) : cnt f n ≤ cnt g n := by
  induction n with
  | zero => simp [cnt_zero]
  | succ n ih =>
    simp only [cnt_succ]
    have := ih (fun p hp => h p (by omega))
    have hn := h n (by omega)
    cases hf : f n
    · simp; omega
    · simp [hn hf]; omega

/-- disjoint union -/
theorem cnt_or_disj (f g : Nat → Bool) (n : Nat) (h : ∀ p, p < n → f p = true → g p = false) :
    cnt (fun p => f p || g p) n = cnt f n + cnt g n := by
  have h1 := cnt_or_and f g n
  have h2 : cnt (fun p => f p && g p) n = 0 := by
    apply cnt_eq_zero
    intro p hp
    cases hf : f p
    · simp
    · simp [h p hp hf]
  omega

/-- enlarging the bound beyond the support changes nothing -/
theorem cnt_bound {f : Nat → Bool} {n m : Nat} (hnm : n ≤ m) (h : ∀ p, n ≤ p → f p = false) : cnt f m = cnt f n := by
  induction m with
  | zero => have : n = 0 := by omega
            subst this; rfl
  | succ m ih =>
    by_cases hn : n = m + 1
    · subst hn; rfl
    · rw [cnt_succ, ih (by omega), h m (by omega)]; simp

theorem cnt_interval (a b n : Nat) : cnt (fun p => decide (a ≤ p) && decide (p < b)) n = min n b - a := by
  induction n with
  | zero => simp [cnt_zero]
  | succ n ih =>
    rw [cnt_succ, ih]
    by_cases h1 : a ≤ n <;> by_cases h2 : n < b <;> simp [h1, h2] <;> omega

/-! ### covered positions -/

theorem coveredB_iff (l : List (Iv α)) (p : Nat) : coveredB l p = true ↔ covered l p := by
  unfold coveredB covered
  simp

theorem coveredB_nil (p : Nat) : coveredB ([] : List (Iv α)) p = false := by simp [coveredB]

theorem coveredB_cons (iv : Iv α) (l : List (Iv α)) (p : Nat) :
    coveredB (iv :: l) p = (iv.covers p || coveredB l p) := by simp [coveredB]

theorem coveredB_append (l₁ l₂ : List (Iv α)) (p : Nat) :
    coveredB (l₁ ++ l₂) p = (coveredB l₁ p || coveredB l₂ p) := by simp [coveredB]

theorem coveredB_congr {β : Type} {l : List (Iv α)} {l' : List (Iv β)} (h : ∀ p, covered l p ↔ covered l' p) (p : Nat) :
    coveredB l p = coveredB l' p := by
  have := h p
  rw [← coveredB_iff, ← coveredB_iff] at this
  cases h1 : coveredB l p <;> cases h2 : coveredB l' p <;> simp_all

theorem maxStop_foldl_ge (l : List (Iv α)) (m : Nat) :
    m ≤ l.foldl (fun m iv => max m iv.stop) m ∧ ∀ iv ∈ l, iv.stop ≤ l.foldl (fun m iv => max m iv.stop) m := by
  induction l generalizing m with
  | nil => simp
  | cons a t ih =>
    simp only [List.foldl_cons]
    have h1 := ih (max m a.stop)
    refine ⟨by have := h1.1; omega, ?_⟩
    intro iv hiv
    rcases List.mem_cons.mp hiv with rfl | hiv
    · have := h1.1; omega
    · exact h1.2 iv hiv

theorem stop_le_maxStop (l : List (Iv α)) : ∀ iv ∈ l, iv.stop ≤ maxStop l := (maxStop_foldl_ge l 0).2

theorem coveredB_lt_bound {l : List (Iv α)} {n : Nat} (hn : ∀ iv ∈ l, iv.stop ≤ n) {p : Nat} (h : coveredB l p = true) : p < n := by
  rw [coveredB_iff] at h
  obtain ⟨iv, hiv, hc⟩ := h
  have := hn iv hiv
  simp [Iv.covers] at hc
  omega

theorem coveredB_false_of_ge {l : List (Iv α)} {n : Nat} (hn : ∀ iv ∈ l, iv.stop ≤ n) (p : Nat) (hp : n ≤ p) : coveredB l p = false := by
  cases h : coveredB l p
  · rfl
  · have := coveredB_lt_bound hn h; omega

/-- `coveredCount` may be computed with any bound above all stops -/
theorem coveredCount_eq_cnt (l : List (Iv α)) (n : Nat) (hn : maxStop l ≤ n) : coveredCount l = cnt (coveredB l) n := by
  unfold coveredCount
  exact (cnt_bound hn (coveredB_false_of_ge (stop_le_maxStop l))).symm

/-- a bound above all stops suffices (it need not dominate `maxStop` syntactically) -/
theorem coveredCount_eq_cnt' (l : List (Iv α)) (n : Nat) (hn : ∀ iv ∈ l, iv.stop ≤ n) : coveredCount l = cnt (coveredB l) n := by
  rw [coveredCount_eq_cnt l (max n (maxStop l)) (by omega)]
  exact cnt_bound (by omega) (coveredB_false_of_ge hn)

/-- `coveredCount` depends only on the covered set -/
theorem coveredCount_congr {β : Type} {l : List (Iv α)} {l' : List (Iv β)} (h : ∀ p, covered l p ↔ covered l' p) :
    coveredCount l = coveredCount l' := by
  rw [coveredCount_eq_cnt l (max (maxStop l) (maxStop l')) (by omega),
      coveredCount_eq_cnt l' (max (maxStop l) (maxStop l')) (by omega)]
  exact cnt_congr (fun p _ => coveredB_congr h p)

theorem unionCount_eq_cnt {β : Type} (a : List (Iv α)) (b : List (Iv β)) (n : Nat) (ha : maxStop a ≤ n) (hb : maxStop b ≤ n) :
    unionCount a b = cnt (fun p => coveredB a p || coveredB b p) n := by
  unfold unionCount
  refine (cnt_bound (by omega) ?_).symm
  intro p hp
  rw [coveredB_false_of_ge (stop_le_maxStop a) p (by omega), coveredB_false_of_ge (stop_le_maxStop b) p (by omega)]
  rfl

theorem interCount_eq_cnt {β : Type} (a : List (Iv α)) (b : List (Iv β)) (n : Nat) (ha : maxStop a ≤ n) (hb : maxStop b ≤ n) :
    interCount a b = cnt (fun p => coveredB a p && coveredB b p) n := by
  unfold interCount
  refine (cnt_bound (by omega) ?_).symm
  intro p hp
  rw [coveredB_false_of_ge (stop_le_maxStop a) p (by omega)]
  rfl

/-- `|A ∪ B| = |A| + |B| − |A ∩ B|` -/
theorem unionCount_eq {β : Type} (a : List (Iv α)) (b : List (Iv β)) :
    unionCount a b = coveredCount a + coveredCount b - interCount a b := by
  have hN1 : maxStop a ≤ max (maxStop a) (maxStop b) := by omega
  have hN2 : maxStop b ≤ max (maxStop a) (maxStop b) := by omega
  rw [unionCount_eq_cnt a b _ hN1 hN2, interCount_eq_cnt a b _ hN1 hN2,
      coveredCount_eq_cnt a _ hN1, coveredCount_eq_cnt b _ hN2]
  have := cnt_or_and (coveredB a) (coveredB b) (max (maxStop a) (maxStop b))
  omega

theorem unionCount_comm {β : Type} (a : List (Iv α)) (b : List (Iv β)) : unionCount a b = unionCount b a := by
  unfold unionCount
  rw [Nat.max_comm]
  exact cnt_congr (fun p _ => Bool.or_comm _ _)

theorem interCount_comm {β : Type} (a : List (Iv α)) (b : List (Iv β)) : interCount a b = interCount b a := by
  unfold interCount
  rw [Nat.max_comm]
  exact cnt_congr (fun p _ => Bool.and_comm _ _)

theorem unionCount_congr {β α' β' : Type} {a : List (Iv α)} {b : List (Iv β)} {a' : List (Iv α')} {b' : List (Iv β')}
    (ha : ∀ p, covered a p ↔ covered a' p) (hb : ∀ p, covered b p ↔ covered b' p) :
    unionCount a b = unionCount a' b' := by
  let N := max (max (maxStop a) (maxStop b)) (max (maxStop a') (maxStop b'))
  rw [unionCount_eq_cnt a b N (by omega) (by omega), unionCount_eq_cnt a' b' N (by omega) (by omega)]
  exact cnt_congr (fun p _ => by rw [coveredB_congr ha p, coveredB_congr hb p])

theorem interCount_congr {β α' β' : Type} {a : List (Iv α)} {b : List (Iv β)} {a' : List (Iv α')} {b' : List (Iv β')}
    (ha : ∀ p, covered a p ↔ covered a' p) (hb : ∀ p, covered b p ↔ covered b' p) :
    interCount a b = interCount a' b' := by
  let N := max (max (maxStop a) (maxStop b)) (max (maxStop a') (maxStop b'))
  rw [interCount_eq_cnt a b N (by omega) (by omega), interCount_eq_cnt a' b' N (by omega) (by omega)]
  exact cnt_congr (fun p _ => by rw [coveredB_congr ha p, coveredB_congr hb p])

end BV
