import BedVerif.Lemmas.C19Count
import BedVerif.Props.C18
/-! The moving-interval sweep of `calculate_coverage`, and the cache invariant. -/
namespace BV
variable {α : Type}

/-- forward-generalised sweep invariant: from state `((ms, me), c)` with all remaining starts `≥ ms`,
the final `c' + (me' - ms')` is `c` plus the number of positions in `[ms, me) ∪ covered rest`. -/
theorem covFold_spec (rest : List (Iv α)) (hs : SortedStart rest) (hne : ∀ iv ∈ rest, iv.start < iv.stop)
    (N : Nat) (hN : ∀ iv ∈ rest, iv.stop ≤ N) :
    ∀ ms me c, (∀ iv ∈ rest, ms ≤ iv.start) → me ≤ N →
      (rest.foldl covStep ((ms, me), c)).2 + ((rest.foldl covStep ((ms, me), c)).1.2 - (rest.foldl covStep ((ms, me), c)).1.1)
        = c + cnt (fun p => (decide (ms ≤ p) && decide (p < me)) || coveredB rest p) N := by
  induction rest with
  | nil =>
    intro ms me c _ hme
    simp only [List.foldl_nil]
    rw [cnt_congr (g := fun p => decide (ms ≤ p) && decide (p < me)) (fun p _ => by simp [coveredB_nil]), cnt_interval]
    omega
  | cons iv t ih =>
    intro ms me c hms hme
    have hp := List.pairwise_cons.mp hs
    have hiv := hne iv (by simp)
    have hivN := hN iv (by simp)
    have hmsiv := hms iv (by simp)
    have ih' := ih hp.2 (fun x hx => hne x (List.mem_cons_of_mem _ hx)) (fun x hx => hN x (List.mem_cons_of_mem _ hx))
    simp only [List.foldl_cons]
    by_cases hov : ms < iv.stop ∧ me > iv.start
    · have hstep : covStep ((ms, me), c) iv = ((ms, max me iv.stop), c) := by
        simp only [covStep]
        rw [if_pos (by simp; exact hov)]
        rw [Nat.min_eq_left hmsiv]
      rw [hstep, ih' ms (max me iv.stop) c (fun x hx => hms x (List.mem_cons_of_mem _ hx)) (by omega)]
      congr 1
      apply cnt_congr
      intro p _
      rw [coveredB_cons]
      simp only [Iv.covers]
      have h1 := hov.2
      by_cases a1 : ms ≤ p <;> by_cases a2 : p < me <;> by_cases a3 : iv.start ≤ p <;> by_cases a4 : p < iv.stop <;>
        simp [a1, a2, a3, a4] <;> omega
    · have hle : me ≤ iv.start := by omega
      have hstep : covStep ((ms, me), c) iv = ((iv.start, iv.stop), c + (me - ms)) := by
        simp only [covStep]
        rw [if_neg (by simp; omega)]
      rw [hstep, ih' iv.start iv.stop (c + (me - ms)) hp.1 hivN]
      have hdisj : cnt (fun p => (decide (ms ≤ p) && decide (p < me)) || coveredB (iv :: t) p) N
          = cnt (fun p => decide (ms ≤ p) && decide (p < me)) N + cnt (coveredB (iv :: t)) N := by
        apply cnt_or_disj (fun p => decide (ms ≤ p) && decide (p < me)) (coveredB (iv :: t)) N
        intro p _ hpm
        cases hcv : coveredB (iv :: t) p
        · rfl
        · rw [coveredB_iff] at hcv
          obtain ⟨x, hx, hc⟩ := hcv
          have : iv.start ≤ x.start := by
            rcases List.mem_cons.mp hx with rfl | hx
            · omega
            · exact hp.1 x hx
          simp [Iv.covers] at hc hpm
          omega
      rw [hdisj, cnt_interval]
      have : cnt (fun p => (decide (iv.start ≤ p) && decide (p < iv.stop)) || coveredB t p) N = cnt (coveredB (iv :: t)) N := by
        apply cnt_congr
        intro p _
        rw [coveredB_cons]; rfl
      rw [this]
      omega

theorem calcCov_list (l : List (Iv α)) (hs : SortedStart l) (hne : ∀ iv ∈ l, iv.start < iv.stop) :
    (l.foldl covStep ((0, 0), 0)).2 + ((l.foldl covStep ((0, 0), 0)).1.2 - (l.foldl covStep ((0, 0), 0)).1.1) = coveredCount l := by
  rw [covFold_spec l hs hne (maxStop l) (stop_le_maxStop l) 0 0 0 (fun _ _ => Nat.zero_le _) (Nat.zero_le _)]
  rw [coveredCount_eq_cnt l (maxStop l) (Nat.le_refl _)]
  rw [Nat.zero_add]
  apply cnt_congr
  intro p _
  simp

theorem calcCov_spec (s : Lapper α) (hs : SortedStart s.intervals.toList) (hne : ∀ iv ∈ s.intervals.toList, iv.start < iv.stop) :
    s.calcCov = coveredCount s.intervals.toList := by
  rw [← calcCov_list s.intervals.toList hs hne]
  unfold Lapper.calcCov
  rfl

/-! ### the cache invariant -/

/-- invariant: structure invariant, stored intervals non-empty, cache (if any) up to date -/
structure Good (s : Lapper α) : Prop where
  inv : Inv s
  ne : ∀ iv ∈ s.intervals.toList, iv.start < iv.stop
  cache : ∀ c, s.cov = some c → c = coveredCount s.intervals.toList

theorem Good.getCov {s : Lapper α} (h : Good s) : s.getCov = coveredCount s.intervals.toList := by
  unfold Lapper.getCov
  cases hc : s.cov with
  | none => exact calcCov_spec s h.inv.sortedStart h.ne
  | some c => exact h.cache c hc

theorem good_new (l : List (Iv α)) (hne : ∀ iv ∈ l, iv.start < iv.stop) : Good (Lapper.new l) where
  inv := inv_new l
  ne := fun iv hiv => hne iv ((new_intervals_perm l).mem_iff.mp hiv)
  cache := fun c hc => by simp [Lapper.new] at hc

theorem good_insert (s : Lapper α) (h : Good s) (e : Iv α) (he : e.start < e.stop) : Good (s.insert e) where
  inv := inv_insert s h.inv e
  ne := by
    intro iv hiv
    rcases List.mem_cons.mp ((insert_intervals_perm s e).mem_iff.mp hiv) with rfl | h'
    · exact he
    · exact h.ne iv h'
  cache := fun c hc => by simp [Lapper.insert] at hc

theorem good_setCov (s : Lapper α) (h : Good s) : Good s.setCov where
  inv := inv_setCov s h.inv
  ne := h.ne
  cache := by
    intro c hc
    simp only [Lapper.setCov, Option.some.injEq] at hc
    rw [← hc]
    exact calcCov_spec s h.inv.sortedStart h.ne

theorem good_merge (s : Lapper α) (h : Good s) : Good s.mergeOverlaps where
  inv := (inv_merge s h.inv (fun iv hiv => Nat.le_of_lt (h.ne iv hiv))).1
  ne := by
    rw [mergeOverlaps_intervals]
    exact (C18_mergeList_canonical s.intervals.toList h.inv.sortedStart h.ne).1.1
  cache := by
    intro c hc
    have hc' : s.cov = some c := by simpa [Lapper.mergeOverlaps] using hc
    rw [h.cache c hc', mergeOverlaps_intervals]
    exact coveredCount_congr (fun p => ((C18_mergeList_canonical s.intervals.toList h.inv.sortedStart h.ne).2 p).symm)

theorem good_foldl (ops : List (Op α)) (s : Lapper α) (h : Good s)
    (hops : ∀ iv ∈ insertedOf ops, iv.start < iv.stop) : Good (ops.foldl Lapper.step s) := by
  induction ops generalizing s with
  | nil => exact h
  | cons o t ih =>
    simp only [List.foldl_cons]
    cases o with
    | insert iv =>
      exact ih _ (good_insert s h iv (hops iv (by simp [insertedOf])))
        (fun x hx => hops x (by simp [insertedOf] at hx ⊢; exact Or.inr hx))
    | merge => exact ih _ (good_merge s h) (fun x hx => hops x (by simpa [insertedOf] using hx))
    | setCov => exact ih _ (good_setCov s h) (fun x hx => hops x (by simpa [insertedOf] using hx))

theorem good_run (l : List (Iv α)) (ops : List (Op α)) (h : NonEmptyIvs l ops) : Good (Lapper.run l ops) := by
  unfold Lapper.run
  apply good_foldl ops _ (good_new l (fun iv hiv => h iv (by unfold recordsOf; exact List.mem_append_left _ hiv)))
  intro iv hiv; exact h iv (by unfold recordsOf; exact List.mem_append_right _ hiv)

theorem cov_spec (l : List (Iv α)) (ops : List (Op α)) (h : NonEmptyIvs l ops) :
    (Lapper.run l ops).getCov = coveredCount (Lapper.run l ops).intervals.toList := (good_run l ops h).getCov

theorem cov_supplied (l : List (Iv α)) (ops : List (Op α)) (h : NonEmptyIvs l ops) :
    (Lapper.run l ops).getCov = coveredCount (recordsOf l ops) := by
  rw [cov_spec l ops h]
  exact coveredCount_congr (C18_covered_supplied l ops h)

end BV
