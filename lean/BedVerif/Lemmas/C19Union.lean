import BedVerif.Lemmas.C19Sweep
/-! `union_and_intersect`: both code paths compute `(|A ∪ B|, |A ∩ B|)`. -/
namespace BV
variable {α β : Type}

/-- the carried-cursor fold over the queries `as` (ascending starts) sees, for every query, exactly the
filter of the stored intervals -/
theorem seekFold {X : Type} (b : Lapper β)
    (hsorted : SortedStart b.intervals.toList)
    (hmax : ∀ iv ∈ b.intervals.toList, iv.len ≤ b.maxLen)
    (comb : X → Iv α → List (Iv β) → X)
    (as : List (Iv α)) (hasc : SortedStart as) :
    ∀ x c prevBound, Below b.intervals c prevBound → (∀ siv ∈ as, prevBound ≤ siv.start - b.maxLen) →
      (as.foldl (fun (acc : X × Nat) siv =>
          (comb acc.1 siv (b.seek siv.start siv.stop acc.2).1, (b.seek siv.start siv.stop acc.2).2)) (x, c)).1
        = as.foldl (fun x siv => comb x siv (b.intervals.toList.filter (·.ov siv.start siv.stop))) x := by
  induction as with
  | nil => intro x c pb _ _; rfl
  | cons q rest ih =>
    intro x c pb hinv hb
    have hp := List.pairwise_cons.mp hasc
    obtain ⟨h1, h2⟩ := seek_step b hsorted hmax q.start q.stop c pb hinv (hb q (List.mem_cons_self))
    simp only [List.foldl_cons]
    rw [h1]
    apply ih hp.2 _ _ (q.start - b.maxLen) h2
    intro q' hq'
    have := hp.1 q' hq'
    omega

/-- the intersection piece of a pair -/
def piece (siv : Iv α) (oiv : Iv β) : Iv Bool := ⟨max siv.start oiv.start, min siv.stop oiv.stop, true⟩

/-- all pieces, as a list-level function -/
def piecesOf (A : List (Iv α)) (B : List (Iv β)) : List (Iv Bool) :=
  A.flatMap (fun siv => (B.filter (·.ov siv.start siv.stop)).map (piece siv))

theorem foldl_append_flatMap {γ δ : Type} (f : γ → List δ) (l : List γ) (x : List δ) :
    l.foldl (fun x a => x ++ f a) x = x ++ l.flatMap f := by
  induction l generalizing x with
  | nil => simp
  | cons a t ih => simp [ih]

theorem foldl_add_sum {γ : Type} (f : γ → Nat) (l : List γ) (x : Nat) :
    l.foldl (fun x a => x + f a) x = x + (l.map f).sum := by
  induction l generalizing x with
  | nil => simp
  | cons a t ih => simp [ih]; omega

theorem piece_covers (siv : Iv α) (oiv : Iv β) (p : Nat) :
    (piece siv oiv).covers p = (siv.covers p && oiv.covers p) := by
  simp only [piece, Iv.covers]
  by_cases a1 : siv.start ≤ p <;> by_cases a2 : oiv.start ≤ p <;> by_cases a3 : p < siv.stop <;> by_cases a4 : p < oiv.stop <;>
    simp [a1, a2, a3, a4, Nat.max_le, Nat.lt_min]

theorem ov_of_covers (siv : Iv α) (oiv : Iv β) (p : Nat) (h1 : siv.covers p = true) (h2 : oiv.covers p = true) :
    oiv.ov siv.start siv.stop = true := by
  simp [Iv.covers, Iv.ov] at *
  omega

theorem covered_piecesOf (A : List (Iv α)) (B : List (Iv β)) (p : Nat) :
    covered (piecesOf A B) p ↔ covered A p ∧ covered B p := by
  unfold covered piecesOf
  constructor
  · rintro ⟨iv, hiv, hc⟩
    rw [List.mem_flatMap] at hiv
    obtain ⟨siv, hsiv, hiv⟩ := hiv
    rw [List.mem_map] at hiv
    obtain ⟨oiv, hoiv, rfl⟩ := hiv
    rw [piece_covers, Bool.and_eq_true] at hc
    exact ⟨⟨siv, hsiv, hc.1⟩, ⟨oiv, (List.mem_filter.mp hoiv).1, hc.2⟩⟩
  · rintro ⟨⟨siv, hsiv, h1⟩, ⟨oiv, hoiv, h2⟩⟩
    refine ⟨piece siv oiv, ?_, by rw [piece_covers, h1, h2]; rfl⟩
    rw [List.mem_flatMap]
    exact ⟨siv, hsiv, List.mem_map.mpr ⟨oiv, List.mem_filter.mpr ⟨hoiv, ov_of_covers siv oiv p h1 h2⟩, rfl⟩⟩

theorem piecesOf_nonempty (A : List (Iv α)) (B : List (Iv β))
    (hA : ∀ iv ∈ A, iv.start < iv.stop) (hB : ∀ iv ∈ B, iv.start < iv.stop) :
    ∀ iv ∈ piecesOf A B, iv.start < iv.stop := by
  intro iv hiv
  unfold piecesOf at hiv
  rw [List.mem_flatMap] at hiv
  obtain ⟨siv, hsiv, hiv⟩ := hiv
  rw [List.mem_map] at hiv
  obtain ⟨oiv, hoiv, rfl⟩ := hiv
  have h1 := hA siv hsiv
  have hm := List.mem_filter.mp hoiv
  have h2 := hB oiv hm.1
  have h3 := hm.2
  simp [Iv.ov] at h3
  simp only [piece]
  omega

/-! ### the pairwise sums of the both-merged path -/

theorem inter_eq_cnt (siv : Iv α) (oiv : Iv β) (N : Nat) (hN : siv.stop ≤ N) :
    siv.inter oiv = cnt (fun p => siv.covers p && oiv.covers p) N := by
  rw [cnt_congr (g := fun p => decide (max siv.start oiv.start ≤ p) && decide (p < min siv.stop oiv.stop))
    (fun p _ => by rw [← piece_covers]; rfl), cnt_interval]
  unfold Iv.inter
  omega

theorem inter_eq_zero_of_not_ov (siv : Iv α) (oiv : Iv β) (h : oiv.ov siv.start siv.stop = false) : siv.inter oiv = 0 := by
  simp [Iv.ov] at h
  unfold Iv.inter
  omega

theorem sum_filter_eq {γ : Type} (l : List γ) (p : γ → Bool) (f : γ → Nat) (h : ∀ x ∈ l, p x = false → f x = 0) :
    ((l.filter p).map f).sum = (l.map f).sum := by
  induction l with
  | nil => rfl
  | cons a t ih =>
    have ih' := ih (fun x hx => h x (List.mem_cons_of_mem _ hx))
    cases hp : p a
    · rw [List.filter_cons_of_neg (by simp [hp]), ih']
      simp [h a (by simp) hp]
    · rw [List.filter_cons_of_pos hp]
      simp [ih']

/-- for a list with pairwise disjoint members, counting `covered ∧ g` splits into a sum over members -/
theorem sum_cnt_disjoint (L : List (Iv α)) (hL : L.Pairwise (fun a b => a.stop < b.start)) (g : Nat → Bool) (N : Nat) :
    (L.map (fun iv => cnt (fun p => iv.covers p && g p) N)).sum = cnt (fun p => coveredB L p && g p) N := by
  induction L with
  | nil =>
    simp only [List.map_nil, List.sum_nil]
    exact (cnt_eq_zero (fun p _ => by simp [coveredB_nil])).symm
  | cons a t ih =>
    have hp := List.pairwise_cons.mp hL
    rw [List.map_cons, List.sum_cons, ih hp.2]
    rw [← cnt_or_disj (fun p => a.covers p && g p) (fun p => coveredB t p && g p) N]
    · apply cnt_congr
      intro p _
      rw [coveredB_cons]
      cases a.covers p <;> cases coveredB t p <;> cases g p <;> rfl
    · intro p _ h1
      simp only [Bool.and_eq_true] at h1
      cases hc : coveredB t p
      · rfl
      · rw [coveredB_iff] at hc
        obtain ⟨x, hx, hxc⟩ := hc
        have := hp.1 x hx
        have h2 := h1.1
        simp [Iv.covers] at hxc h2
        omega

/-- the double sum over overlapping pairs is the size of the intersection when both lists are
pairwise disjoint -/
theorem isect_sum_eq (A : List (Iv α)) (B : List (Iv β))
    (hA : A.Pairwise (fun a b => a.stop < b.start)) (hB : B.Pairwise (fun a b => a.stop < b.start))
    (N : Nat) (hNA : ∀ iv ∈ A, iv.stop ≤ N) :
    (A.map (fun siv => ((B.filter (·.ov siv.start siv.stop)).map (fun oiv => siv.inter oiv)).sum)).sum
      = cnt (fun p => coveredB A p && coveredB B p) N := by
  rw [← sum_cnt_disjoint A hA (coveredB B) N]
  congr 1
  apply List.map_congr_left
  intro siv hsiv
  rw [sum_filter_eq B (·.ov siv.start siv.stop) (fun oiv => siv.inter oiv)
    (fun oiv _ h => inter_eq_zero_of_not_ov siv oiv h)]
  have : B.map (fun oiv => siv.inter oiv) = B.map (fun oiv => cnt (fun p => oiv.covers p && siv.covers p) N) := by
    apply List.map_congr_left
    intro oiv _
    rw [inter_eq_cnt siv oiv N (hNA siv hsiv)]
    exact cnt_congr (fun p _ => Bool.and_comm _ _)
  rw [this, sum_cnt_disjoint B hB siv.covers N]
  exact cnt_congr (fun p _ => Bool.and_comm _ _)

/-! ### the two code paths, for states satisfying `Good` -/

theorem pieces_fold_eq (a : Lapper α) (b : Lapper β) (ha : Good a) (hb : Good b) :
    (a.intervals.toList.foldl (fun (acc : List (Iv Bool) × Nat) siv =>
      let (hits, c) := b.seek siv.start siv.stop acc.2
      (acc.1 ++ hits.map (fun oiv => (⟨max siv.start oiv.start, min siv.stop oiv.stop, true⟩ : Iv Bool)), c)) ([], 0)).1
      = piecesOf a.intervals.toList b.intervals.toList := by
  have := seekFold b hb.inv.sortedStart hb.inv.maxLen_ge
    (fun (x : List (Iv Bool)) (siv : Iv α) hits => x ++ hits.map (piece siv))
    a.intervals.toList ha.inv.sortedStart [] 0 0 (fun i _ h => by omega) (fun _ _ => Nat.zero_le _)
  rw [foldl_append_flatMap, List.nil_append] at this
  exact this

theorem isect_fold_eq (a : Lapper α) (b : Lapper β) (ha : Good a) (hb : Good b) :
    (a.intervals.toList.foldl (fun (acc : Nat × Nat) c1 =>
      let (hits, c) := b.seek c1.start c1.stop acc.2
      (acc.1 + (hits.map (fun c2 => c1.inter c2)).sum, c)) (0, 0)).1
      = (a.intervals.toList.map (fun siv => ((b.intervals.toList.filter (·.ov siv.start siv.stop)).map (fun oiv => siv.inter oiv)).sum)).sum := by
  have := seekFold b hb.inv.sortedStart hb.inv.maxLen_ge
    (fun (x : Nat) (siv : Iv α) hits => x + (hits.map (fun oiv => siv.inter oiv)).sum)
    a.intervals.toList ha.inv.sortedStart 0 0 0 (fun i _ h => by omega) (fun _ _ => Nat.zero_le _)
  rw [foldl_add_sum, Nat.zero_add] at this
  exact this

end BV

namespace BV
variable {α β : Type}

/-- the helper lapper built from the pieces reports the size of the intersection -/
theorem tCov_eq (A : List (Iv α)) (B : List (Iv β))
    (hA : ∀ iv ∈ A, iv.start < iv.stop) (hB : ∀ iv ∈ B, iv.start < iv.stop) :
    ((Lapper.new (piecesOf A B)).mergeOverlaps).setCov.getCov = interCount A B := by
  have hne : NonEmptyIvs (piecesOf A B) [.merge, .setCov] := by
    intro iv hiv
    have : iv ∈ piecesOf A B := by simpa [recordsOf, insertedOf] using hiv
    exact piecesOf_nonempty A B hA hB iv this
  have h := cov_supplied (piecesOf A B) [.merge, .setCov] hne
  have hrec : recordsOf (piecesOf A B) [Op.merge, Op.setCov] = piecesOf A B := by simp [recordsOf, insertedOf]
  rw [hrec] at h
  have hrun : Lapper.run (piecesOf A B) [.merge, .setCov] = ((Lapper.new (piecesOf A B)).mergeOverlaps).setCov := rfl
  rw [hrun] at h
  rw [h]
  let N := max (maxStop (piecesOf A B)) (max (maxStop A) (maxStop B))
  rw [coveredCount_eq_cnt _ N (by omega), interCount_eq_cnt A B N (by omega) (by omega)]
  apply cnt_congr
  intro p _
  have := covered_piecesOf A B p
  rw [← coveredB_iff, ← coveredB_iff, ← coveredB_iff] at this
  cases h1 : coveredB (piecesOf A B) p <;> cases h2 : coveredB A p <;> cases h3 : coveredB B p <;> simp_all

/-- the intersection is contained in the first set: `cov(a) - inter` does not truncate -/
theorem interCount_le_coveredCount (A : List (Iv α)) (B : List (Iv β)) : interCount A B ≤ coveredCount A := by
  have hN1 : maxStop A ≤ max (maxStop A) (maxStop B) := by omega
  have hN2 : maxStop B ≤ max (maxStop A) (maxStop B) := by omega
  rw [interCount_eq_cnt A B _ hN1 hN2, coveredCount_eq_cnt A _ hN1]
  apply cnt_mono
  intro p _ h
  rw [Bool.and_eq_true] at h
  exact h.1
theorem interCount_le_coveredCount_right (A : List (Iv α)) (B : List (Iv β)) : interCount A B ≤ coveredCount B := by
  rw [interCount_comm]; exact interCount_le_coveredCount B A

/-- `|A ∪ B| = |A| − |A ∩ B| + |B|`, the order of operations of the repaired code; the truncated
subtraction is exact -/
theorem unionCount_eq_sub_add (A : List (Iv α)) (B : List (Iv β)) :
    coveredCount A - interCount A B + coveredCount B = unionCount A B := by
  have h1 := interCount_le_coveredCount A B
  have h2 := unionCount_eq A B
  omega

/-- the union lies below the greatest stop -/
theorem unionCount_le_maxStop (A : List (Iv α)) (B : List (Iv β)) : unionCount A B ≤ max (maxStop A) (maxStop B) := by
  unfold unionCount
  exact Nat.le_trans (List.length_filter_le _ _) (by rw [List.length_range]; exact Nat.le_refl _)

/-- both code paths, for two states satisfying the invariant whose `merged` flags are honest -/
theorem union_good (a : Lapper α) (b : Lapper β) (ha : Good a) (hb : Good b)
    (hma : a.merged = true → a.intervals.toList.Pairwise (fun x y => x.stop < y.start))
    (hmb : b.merged = true → b.intervals.toList.Pairwise (fun x y => x.stop < y.start)) :
    a.unionAndIntersect b =
      (unionCount a.intervals.toList b.intervals.toList, interCount a.intervals.toList b.intervals.toList) := by
  rw [← unionCount_eq_sub_add, ← ha.getCov, ← hb.getCov]
  unfold Lapper.unionAndIntersect
  split
  · have hp := pieces_fold_eq a b ha hb
    generalize List.foldl _ _ a.intervals.toList = r at hp ⊢
    obtain ⟨pieces, c⟩ := r
    simp only at hp ⊢
    rw [hp, tCov_eq _ _ ha.ne hb.ne]
  · rename_i hm
    have hm' : a.merged = true ∧ b.merged = true := by
      cases h1 : a.merged <;> cases h2 : b.merged <;> simp [h1, h2] at hm ⊢
    have hp := isect_fold_eq a b ha hb
    generalize List.foldl _ _ a.intervals.toList = r at hp ⊢
    obtain ⟨isect, c⟩ := r
    simp only at hp ⊢
    let N := max (maxStop a.intervals.toList) (maxStop b.intervals.toList)
    rw [hp, isect_sum_eq _ _ (hma hm'.1) (hmb hm'.2) N (fun iv hiv => by have := stop_le_maxStop _ iv hiv; omega),
      interCount_eq_cnt _ _ N (by omega) (by omega)]

theorem recordsOf_append_merge (l : List (Iv α)) (ops : List (Op α)) : recordsOf l (ops ++ [.merge]) = recordsOf l ops := by
  simp [recordsOf, insertedOf]

theorem union_intersect (la : List (Iv α)) (oa : List (Op α)) (lb : List (Iv β)) (ob : List (Op β))
    (ha : NonEmptyIvs la oa) (hb : NonEmptyIvs lb ob) :
    (Lapper.run la oa).unionAndIntersect (Lapper.run lb ob) =
      (unionCount (recordsOf la oa) (recordsOf lb ob), interCount (recordsOf la oa) (recordsOf lb ob)) := by
  rw [union_good _ _ (good_run la oa ha) (good_run lb ob hb)
    (fun h => (C18_merged_flag la oa ha h).2) (fun h => (C18_merged_flag lb ob hb h).2)]
  rw [unionCount_congr (C18_covered_supplied la oa ha) (C18_covered_supplied lb ob hb),
    interCount_congr (C18_covered_supplied la oa ha) (C18_covered_supplied lb ob hb)]

end BV
