import BedVerif.Lemmas.C20Walk
/-! C20, part 2: index facts about a canonical (merged) list. -/
namespace BV
variable {β : Type}

theorem canon_lt {ml : List (Iv β)} (hc : Canonical ml) {j k : Nat} (hj : j < k) (hk : k < ml.length) :
    (ml[j]'(by omega)).stop < ml[k].start :=
  (List.pairwise_iff_getElem.mp hc.2) j k (by omega) hk hj

theorem canon_ne {ml : List (Iv β)} (hc : Canonical ml) {k : Nat} (hk : k < ml.length) :
    ml[k].start < ml[k].stop := hc.1 _ (List.getElem_mem hk)

/-- a covered position that no later interval covers lies below the stop of interval `k` -/
theorem canon_covered_below {ml : List (Iv β)} (hc : Canonical ml) {k : Nat} (hk : k < ml.length) (p : Nat)
    (hcov : covered ml p) (hlater : ∀ j (hj : j < ml.length), k < j → p < ml[j].start) :
    p < ml[k].stop := by
  obtain ⟨iv, hmem, hcv⟩ := hcov
  obtain ⟨j, hj, rfl⟩ := List.getElem_of_mem hmem
  simp only [Iv.covers, Bool.and_eq_true, decide_eq_true_eq] at hcv
  rcases Nat.lt_trichotomy j k with h | h | h
  · have := canon_lt hc h hk
    have := canon_ne hc hk
    omega
  · subst h; exact hcv.2
  · have := hlater j hj h; omega

/-- nothing is covered strictly between two consecutive canonical intervals -/
theorem canon_gap {ml : List (Iv β)} (hc : Canonical ml) {k : Nat} (hk : k + 1 < ml.length) (p : Nat)
    (hcov : covered ml p) (hp : p < ml[k+1].start) : p < (ml[k]'(by omega)).stop := by
  apply canon_covered_below hc (by omega) p hcov
  intro j hj hkj
  by_cases h : j = k + 1
  · subst h; exact hp
  · have := canon_lt hc (j := k+1) (k := j) (by omega) hj
    have := canon_ne hc hk
    omega

/-- nothing is covered at or after the stop of the last canonical interval -/
theorem canon_last {ml : List (Iv β)} (hc : Canonical ml) {k : Nat} (hk : k < ml.length) (hlast : k + 1 = ml.length)
    (p : Nat) (hcov : covered ml p) : p < ml[k].stop :=
  canon_covered_below hc hk p hcov (fun j hj hkj => by omega)

/-- nothing is covered before the start of the first canonical interval -/
theorem canon_first {ml : List (Iv β)} (hc : Canonical ml) (h0 : 0 < ml.length) (p : Nat)
    (hcov : covered ml p) : ml[0].start ≤ p := by
  obtain ⟨iv, hmem, hcv⟩ := hcov
  obtain ⟨j, hj, rfl⟩ := List.getElem_of_mem hmem
  simp only [Iv.covers, Bool.and_eq_true, decide_eq_true_eq] at hcv
  by_cases h : j = 0
  · subst h; exact hcv.1
  · have := canon_lt hc (j := 0) (k := j) (by omega) hj
    have := canon_ne hc h0
    omega

theorem covered_of_getElem {ml : List (Iv β)} {k : Nat} (hk : k < ml.length) (p : Nat)
    (h1 : ml[k].start ≤ p) (h2 : p < ml[k].stop) : covered ml p :=
  ⟨ml[k], List.getElem_mem hk, by simp [Iv.covers, h1, h2]⟩

end BV
