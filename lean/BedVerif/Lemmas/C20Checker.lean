import BedVerif.Lemmas.C20Walk
/-! C20, part 7: soundness of the Boolean checker `isDepthRLEB`. -/
namespace BV
variable {α : Type}

/-- the pointwise test of the checker -/
def okB (l : List (Iv α)) (runs : List (Iv Nat)) (p : Nat) : Bool :=
  match runs.filter (·.covers p) with
  | [] => depthOf l p == 0
  | [r] => depthOf l p == r.val && r.val > 0
  | _ => false

theorem isDepthRLEB_parts (l : List (Iv α)) (runs : List (Iv Nat)) (h : isDepthRLEB l runs = true) :
    runs.all (fun r => r.start < r.stop) = true ∧
    (runs.zip (runs.drop 1)).all (fun ab => ab.1.stop ≤ ab.2.start && (ab.1.stop != ab.2.start || ab.1.val != ab.2.val)) = true ∧
    (breakpoints l runs).all (okB l runs) = true := by
  unfold isDepthRLEB at h
  simp only [Bool.and_eq_true] at h
  exact ⟨h.1.1, h.1.2, h.2⟩

/-- the largest element `≤ p` of a list, if there is one -/
theorem exists_max_le (B : List Nat) (p : Nat) :
    (∀ x ∈ B, p < x) ∨ ∃ q ∈ B, q ≤ p ∧ ∀ x ∈ B, x ≤ p → x ≤ q := by
  induction B with
  | nil => left; simp
  | cons a t ih =>
    by_cases ha : a ≤ p
    · right
      rcases ih with h | ⟨q, hq, hqp, hmax⟩
      · refine ⟨a, List.mem_cons_self, ha, ?_⟩
        intro x hx hxp
        rcases List.mem_cons.mp hx with rfl | hx
        · exact Nat.le_refl _
        · have := h x hx; omega
      · by_cases haq : a ≤ q
        · refine ⟨q, List.mem_cons_of_mem _ hq, hqp, ?_⟩
          intro x hx hxp
          rcases List.mem_cons.mp hx with rfl | hx
          · exact haq
          · exact hmax x hx hxp
        · refine ⟨a, List.mem_cons_self, ha, ?_⟩
          intro x hx hxp
          rcases List.mem_cons.mp hx with rfl | hx
          · exact Nat.le_refl _
          · have := hmax x hx hxp; omega
    · rcases ih with h | ⟨q, hq, hqp, hmax⟩
      · left
        intro x hx
        rcases List.mem_cons.mp hx with rfl | hx
        · omega
        · exact h x hx
      · right
        refine ⟨q, List.mem_cons_of_mem _ hq, hqp, ?_⟩
        intro x hx hxp
        rcases List.mem_cons.mp hx with rfl | hx
        · omega
        · exact hmax x hx hxp

theorem mem_breakpoints_left {l : List (Iv α)} {runs : List (Iv Nat)} {iv : Iv α} (h : iv ∈ l) :
    iv.start ∈ breakpoints l runs ∧ iv.stop ∈ breakpoints l runs := by
  unfold breakpoints
  constructor
  · apply List.mem_append_left
    exact List.mem_flatMap.mpr ⟨iv, h, by simp⟩
  · apply List.mem_append_left
    exact List.mem_flatMap.mpr ⟨iv, h, by simp⟩

theorem mem_breakpoints_right {l : List (Iv α)} {runs : List (Iv Nat)} {r : Iv Nat} (h : r ∈ runs) :
    r.start ∈ breakpoints l runs ∧ r.stop ∈ breakpoints l runs := by
  unfold breakpoints
  constructor
  · apply List.mem_append_right
    exact List.mem_flatMap.mpr ⟨r, h, by simp⟩
  · apply List.mem_append_right
    exact List.mem_flatMap.mpr ⟨r, h, by simp⟩

/-- an interval whose endpoints are among `B` covers `p` iff it covers the largest element of `B` below `p` -/
theorem covers_max {β : Type} (B : List Nat) (p q : Nat) (hqp : q ≤ p) (hmax : ∀ x ∈ B, x ≤ p → x ≤ q)
    (iv : Iv β) (h1 : iv.start ∈ B) (h2 : iv.stop ∈ B) : iv.covers p = iv.covers q := by
  rw [Bool.eq_iff_iff]
  simp only [Iv.covers, Bool.and_eq_true, decide_eq_true_eq]
  have := hmax _ h1
  have := hmax _ h2
  omega

theorem covers_none {β : Type} (B : List Nat) (p : Nat) (hnone : ∀ x ∈ B, p < x)
    (iv : Iv β) (h1 : iv.start ∈ B) : iv.covers p = false := by
  have := hnone _ h1
  simp [Iv.covers]
  omega

/-- the pointwise test holds everywhere once it holds at the breakpoints -/
theorem okB_everywhere (l : List (Iv α)) (runs : List (Iv Nat))
    (h : (breakpoints l runs).all (okB l runs) = true) (p : Nat) : okB l runs p = true := by
  rcases exists_max_le (breakpoints l runs) p with hnone | ⟨q, hq, hqp, hmax⟩
  · have hf : runs.filter (·.covers p) = [] := by
      rw [List.filter_eq_nil_iff]
      intro r hr
      rw [covers_none _ p hnone r (mem_breakpoints_right hr).1]
      simp
    have hd : depthOf l p = 0 := by
      unfold depthOf
      rw [List.countP_eq_zero]
      intro iv hiv
      rw [covers_none _ p hnone iv (mem_breakpoints_left hiv).1]
      simp
    unfold okB
    rw [hf, hd]
    rfl
  · have hqok : okB l runs q = true := (List.all_eq_true.mp h) q hq
    have hf : runs.filter (·.covers p) = runs.filter (·.covers q) := by
      apply List.filter_congr
      intro r hr
      exact covers_max _ p q hqp hmax r (mem_breakpoints_right hr).1 (mem_breakpoints_right hr).2
    have hd : depthOf l p = depthOf l q := by
      unfold depthOf
      apply List.countP_congr
      intro iv hiv
      rw [covers_max _ p q hqp hmax iv (mem_breakpoints_left hiv).1 (mem_breakpoints_left hiv).2]
    unfold okB at hqok ⊢
    rw [hf, hd]
    exact hqok

/-- what the pointwise test says about a run covering `p` -/
theorem okB_value (l : List (Iv α)) (runs : List (Iv Nat)) (p : Nat) (h : okB l runs p = true)
    (r : Iv Nat) (hr : r ∈ runs) (hc : r.covers p = true) : depthOf l p = r.val ∧ 0 < r.val := by
  have hmem : r ∈ runs.filter (·.covers p) := List.mem_filter.mpr ⟨hr, hc⟩
  unfold okB at h
  generalize runs.filter (·.covers p) = fl at h hmem
  match fl, h, hmem with
  | [], _, hmem => cases hmem
  | [r'], h, hmem =>
    have : r = r' := by simpa using hmem
    subst this
    simpa using h
  | _ :: _ :: _, h, _ => cases h

theorem okB_covered (l : List (Iv α)) (runs : List (Iv Nat)) (p : Nat) (h : okB l runs p = true)
    (hpos : 0 < depthOf l p) : ∃ r ∈ runs, r.covers p = true := by
  unfold okB at h
  generalize hfl : runs.filter (·.covers p) = fl at h
  match fl, h, hfl with
  | [], h, _ =>
    have : depthOf l p = 0 := by simpa using h
    omega
  | [r'], _, hfl =>
    have : r' ∈ runs.filter (·.covers p) := by rw [hfl]; simp
    have := List.mem_filter.mp this
    exact ⟨r', this.1, this.2⟩
  | _ :: _ :: _, h, _ => cases h

theorem zip_drop_all {β : Type} (l : List β) (f : β × β → Bool) (h : (l.zip (l.drop 1)).all f = true) :
    ∀ i (hi : i + 1 < l.length), f (l[i], l[i+1]) = true := by
  intro i hi
  have hlen : i < (l.zip (l.drop 1)).length := by simp; omega
  have hmem := List.getElem_mem hlen
  have := (List.all_eq_true.mp h) _ hmem
  rw [List.getElem_zip, List.getElem_drop] at this
  have e : l[1 + i]'(by omega) = l[i + 1] := getElem_congr_idx (by omega)
  rw [e] at this
  exact this

theorem asc_of_adj (runs : List (Iv Nat)) (hne : ∀ r ∈ runs, r.start < r.stop)
    (hadj : ∀ i (hi : i + 1 < runs.length), runs[i].stop ≤ runs[i+1].start) :
    runs.Pairwise (fun a b => a.stop ≤ b.start) := by
  rw [List.pairwise_iff_getElem]
  intro i j hi hj hij
  induction j with
  | zero => omega
  | succ k ih =>
    by_cases hik : i = k
    · subst hik; exact hadj i hj
    · have h1 := ih (by omega) (by omega)
      have h2 := hadj k hj
      have h3 := hne runs[k] (List.getElem_mem _)
      omega

end BV
