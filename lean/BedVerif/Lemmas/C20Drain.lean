import BedVerif.Lemmas.C20Inv
/-! C20, part 5: the drain loop and the fuel bound. -/
namespace BV
variable {α : Type}

theorem effPos_of_pos (st : DepthSt) (iv : Iv Bool) (h : 0 < st.currMergedPos) : effPos st iv = st.currMergedPos := by
  unfold effPos
  have : (st.currMergedPos == 0) = false := by simp; omega
  simp [this]

theorem drain_none (s : Lapper α) (m : Array (Iv Bool)) (n : Nat) (st : DepthSt) (acc : List (Iv Nat))
    (h : (depthNext s m st).1 = none) : depthDrain s m (n+1) st acc = acc.reverse := by
  simp only [depthDrain]
  split
  · rfl
  · rename_i r st' heq
    rw [heq] at h; cases h

theorem drain_some (s : Lapper α) (m : Array (Iv Bool)) (n : Nat) (st : DepthSt) (acc : List (Iv Nat))
    (r : Iv Nat) (st' : DepthSt) (h : depthNext s m st = (some r, st')) :
    depthDrain s m (n+1) st acc = depthDrain s m n st' (r :: acc) := by
  simp only [depthDrain, h]

/-- total length of the merged intervals from index `k` on -/
def restLen (m : Array (Iv Bool)) (k : Nat) : Nat := ((m.toList.drop k).map (·.len)).sum

theorem restLen_step (m : Array (Iv Bool)) (k : Nat) (iv : Iv Bool) (h : m[k]? = some iv) :
    restLen m k = iv.len + restLen m (k+1) := by
  have hk : k < m.toList.length := by
    rcases Nat.lt_or_ge k m.size with h' | h'
    · simpa using h'
    · simp [Array.getElem?_eq_none h'] at h
  have hiv : m.toList[k] = iv := by
    have : m[k]? = some m.toList[k] := by simp [Array.getElem?_eq_getElem (by simpa using hk)]
    rw [this] at h; exact Option.some.inj h
  unfold restLen
  rw [List.drop_eq_getElem_cons hk, hiv]
  simp

theorem lt_size_of_some {β : Type} (m : Array β) (k : Nat) (x : β) (h : m[k]? = some x) : k < m.size := by
  rcases Nat.lt_or_ge k m.size with h' | h'
  · exact h'
  · simp [Array.getElem?_eq_none h'] at h

theorem toList_getElem_of_some {β : Type} (m : Array β) (k : Nat) (x : β) (h : m[k]? = some x) :
    ∃ hk : k < m.toList.length, m.toList[k] = x := by
  have hk := lt_size_of_some m k x h
  refine ⟨by simpa using hk, ?_⟩
  have : m[k]? = some m[k] := Array.getElem?_eq_getElem hk
  rw [this] at h
  simpa using Option.some.inj h

/-- effect of the emitting part of `next()` on the invariant -/
theorem emit_inv {s : Lapper α} (hs : SOK s) {m : Array (Iv Bool)}
    (hcov : ∀ p, covered m.toList p ↔ covered s.intervals.toList p)
    {acc : List (Iv Nat)} {e : Nat} (h : AInv s m acc e)
    (iv : Iv Bool) (pos cp cursor : Nat) (hcp : m[cp]? = some iv)
    (hlo : iv.start ≤ pos) (hlt : pos < iv.stop) (hg : Good s cursor pos) (hpos : e ≤ pos)
    (hgap : ∀ p, covered m.toList p → p < pos → p < e)
    (hadj : ∀ r1 ∈ acc.head?, r1.stop = pos → depthOf s.intervals.toList pos ≠ r1.val) :
    let st' := emitSt s iv pos cp cursor
    let r := emitRun s iv pos cursor
    effPos st' iv = (emitW s iv pos cursor).1 ∧ pos < effPos st' iv ∧ effPos st' iv ≤ iv.stop ∧
    Good s st'.cursor (effPos st' iv) ∧
    AInv s m (r :: acc) (effPos st' iv) ∧
    (∀ r1 ∈ (r :: acc).head?, effPos st' iv < iv.stop → depthOf s.intervals.toList (effPos st' iv) ≠ r1.val) := by
  intro st' r
  obtain ⟨e1, e2, e3, e4, e5, e6⟩ := emit_spec hs iv pos cursor hg hlt
  have heff : effPos st' iv = (emitW s iv pos cursor).1 := effPos_of_pos st' iv (by show 0 < (emitW s iv pos cursor).1; omega)
  obtain ⟨hk, hget⟩ := toList_getElem_of_some m cp iv hcp
  have hcovpos : ∀ p, pos ≤ p → p < (emitW s iv pos cursor).1 → covered m.toList p := by
    intro p h1 h2
    apply covered_of_getElem hk p
    · rw [hget]; omega
    · rw [hget]; omega
  have hdpos : 0 < depthOf s.intervals.toList pos := by
    rw [depthOf_pos_iff, ← hcov]
    exact hcovpos pos (Nat.le_refl _) e2
  rw [heff]
  refine ⟨rfl, e2, e3, e6, ?_, ?_⟩
  · have hp := h.push r (by show e ≤ pos; exact hpos) (by show pos < (emitW s iv pos cursor).1; exact e2)
      (by
        intro p h1 h2
        show depthOf s.intervals.toList p = emitD s pos cursor
        rw [e1]; exact e4 p h1 h2)
      (by show 0 < emitD s pos cursor; rw [e1]; exact hdpos)
      (by intro p h1 h2; exact hgap p h1 h2)
      (by intro p h1 h2; exact hcovpos p h1 h2)
      (by
        intro r1 hr1 hst
        show r1.val ≠ emitD s pos cursor
        rw [e1]
        exact fun hh => hadj r1 hr1 hst hh.symm)
    exact hp
  · intro r1 hr1 hlt'
    simp only [List.head?_cons, Option.mem_def, Option.some.injEq] at hr1
    subst hr1
    show _ ≠ emitD s pos cursor
    rw [e1]
    exact e5 hlt'

/-- the drain loop: with enough fuel it ends with the specified runs -/
theorem drain_spec {s : Lapper α} (hs : SOK s) {m : Array (Iv Bool)} (hc : Canonical m.toList)
    (hcov : ∀ p, covered m.toList p ↔ covered s.intervals.toList p) :
    ∀ fuel st acc iv0, m[st.currPos]? = some iv0 → iv0.start ≤ effPos st iv0 → effPos st iv0 ≤ iv0.stop →
      Good s st.cursor (effPos st iv0) → AInv s m acc (effPos st iv0) →
      (∀ r1 ∈ acc.head?, effPos st iv0 < iv0.stop → depthOf s.intervals.toList (effPos st iv0) ≠ r1.val) →
      restLen m (st.currPos + 1) + (iv0.stop - effPos st iv0) + (m.size - st.currPos) < fuel →
      IsDepthRLE s.intervals.toList (depthDrain s m fuel st acc) := by
  intro fuel
  induction fuel with
  | zero => intro st acc iv0 _ _ _ _ _ _ hf; omega
  | succ n ih =>
    intro st acc iv0 hk hlo hhi hg hA hlast hf
    obtain ⟨hkl, hget⟩ := toList_getElem_of_some m st.currPos iv0 hk
    have hksz := lt_size_of_some m _ _ hk
    by_cases heq : iv0.stop = effPos st iv0
    · cases h1 : m[st.currPos + 1]? with
      | none =>
        rw [drain_none s m n st acc (depthNext_none1 s m st iv0 hk heq h1)]
        apply hA.final _ hcov
        intro p hp
        have hlen : st.currPos + 1 = m.toList.length := by
          rcases Nat.lt_or_ge (st.currPos + 1) m.size with h' | h'
          · rw [Array.getElem?_eq_getElem h'] at h1; cases h1
          · simp; omega
        have := canon_last hc hkl hlen p hp
        rw [hget] at this; omega
      | some iv1 =>
        obtain ⟨hkl1, hget1⟩ := toList_getElem_of_some m (st.currPos + 1) iv1 h1
        have hsep : iv0.stop < iv1.start := by
          have := canon_lt hc (j := st.currPos) (k := st.currPos + 1) (by omega) hkl1
          rw [hget, hget1] at this; exact this
        have hne1 : iv1.start < iv1.stop := by
          have := canon_ne hc hkl1; rw [hget1] at this; exact this
        rw [drain_some s m n st acc _ _ (depthNext_B s m st iv0 iv1 hk heq h1)]
        obtain ⟨f1, f2, f3, f4, f5, f6⟩ := emit_inv hs hcov hA iv1 iv1.start (st.currPos + 1) st.cursor h1
          (Nat.le_refl _) hne1 (hg.mono (by omega)) (by omega)
          (by
            intro p hp hlt
            have := canon_gap hc hkl1 p hp (by rw [hget1]; exact hlt)
            rw [hget] at this; omega)
          (by
            intro r1 hr1 hst
            have hr1' : r1 ∈ acc := List.mem_of_mem_head? hr1
            have := hA.bound r1 hr1'
            omega)
        apply ih (emitSt s iv1 iv1.start (st.currPos + 1) st.cursor) _ iv1 h1 (by omega) f3 f4 f5 f6
        have hrl := restLen_step m (st.currPos + 1) iv1 h1
        show restLen m (st.currPos + 1 + 1) + _ + (m.size - (st.currPos + 1)) < n
        unfold Iv.len at hrl
        omega
    · rw [drain_some s m n st acc _ _ (depthNext_A s m st iv0 hk heq)]
      obtain ⟨f1, f2, f3, f4, f5, f6⟩ := emit_inv hs hcov hA iv0 (effPos st iv0) st.currPos st.cursor hk
        hlo (by omega) hg (Nat.le_refl _) (fun p _ h => h)
        (by
          intro r1 hr1 _
          exact hlast r1 hr1 (by omega))
      apply ih (emitSt s iv0 (effPos st iv0) st.currPos st.cursor) _ iv0 hk (by omega) f3 f4 f5 f6
      show restLen m (st.currPos + 1) + _ + (m.size - st.currPos) < n
      omega

end BV
