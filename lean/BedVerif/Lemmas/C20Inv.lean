import BedVerif.Lemmas.C20Step
/-! C20, part 4: the invariant of the accumulated runs, and the drain loop. -/
namespace BV
variable {α : Type}

/-- the runs emitted so far (`acc`, newest first) are the maximal RLE of the depth over the covered
positions below `e` -/
structure AInv (s : Lapper α) (m : Array (Iv Bool)) (acc : List (Iv Nat)) (e : Nat) : Prop where
  ne : ∀ r ∈ acc, r.start < r.stop
  asc : acc.Pairwise (fun a b => b.stop ≤ a.start)
  bound : ∀ r ∈ acc, r.stop ≤ e
  value : ∀ r ∈ acc, ∀ p, r.covers p = true → depthOf s.intervals.toList p = r.val ∧ 0 < r.val
  tiles : ∀ p, (covered m.toList p ∧ p < e) ↔ ∃ r ∈ acc, r.covers p = true
  maxi : ∀ i (h : i + 1 < acc.length), acc[i+1].stop = acc[i].start → acc[i+1].val ≠ acc[i].val

theorem covers_iff {β : Type} (r : Iv β) (p : Nat) : r.covers p = true ↔ r.start ≤ p ∧ p < r.stop := by
  simp only [Iv.covers, Bool.and_eq_true, decide_eq_true_eq]

theorem AInv.nil (s : Lapper α) (m : Array (Iv Bool)) (e : Nat) (h : ∀ p, covered m.toList p → e ≤ p) :
    AInv s m [] e where
  ne := by simp
  asc := by simp
  bound := by simp
  value := by simp
  tiles := by
    intro p
    constructor
    · intro ⟨h1, h2⟩; have := h p h1; omega
    · simp
  maxi := by intro i h; simp at h

theorem AInv.push {s : Lapper α} {m : Array (Iv Bool)} {acc : List (Iv Nat)} {e : Nat}
    (h : AInv s m acc e) (r : Iv Nat) (hpos : e ≤ r.start) (hne : r.start < r.stop)
    (hval : ∀ p, r.start ≤ p → p < r.stop → depthOf s.intervals.toList p = r.val) (hvpos : 0 < r.val)
    (hgap : ∀ p, covered m.toList p → p < r.start → p < e)
    (hcov : ∀ p, r.start ≤ p → p < r.stop → covered m.toList p)
    (hadj : ∀ r1 ∈ acc.head?, r1.stop = r.start → r1.val ≠ r.val) :
    AInv s m (r :: acc) r.stop where
  ne := by
    intro x hx
    rcases List.mem_cons.mp hx with rfl | hx
    · exact hne
    · exact h.ne x hx
  asc := by
    apply List.pairwise_cons.mpr
    refine ⟨fun b hb => ?_, h.asc⟩
    have := h.bound b hb; omega
  bound := by
    intro x hx
    rcases List.mem_cons.mp hx with rfl | hx
    · exact Nat.le_refl _
    · have := h.bound x hx; omega
  value := by
    intro x hx p hp
    rcases List.mem_cons.mp hx with rfl | hx
    · rw [covers_iff] at hp
      exact ⟨hval p hp.1 hp.2, hvpos⟩
    · exact h.value x hx p hp
  tiles := by
    intro p
    constructor
    · intro ⟨h1, h2⟩
      by_cases hp : p < r.start
      · obtain ⟨x, hx, hxc⟩ := (h.tiles p).mp ⟨h1, hgap p h1 hp⟩
        exact ⟨x, List.mem_cons_of_mem _ hx, hxc⟩
      · exact ⟨r, List.mem_cons_self, (covers_iff r p).mpr ⟨by omega, h2⟩⟩
    · intro ⟨x, hx, hxc⟩
      rcases List.mem_cons.mp hx with rfl | hx
      · rw [covers_iff] at hxc
        exact ⟨hcov p hxc.1 hxc.2, hxc.2⟩
      · obtain ⟨h1, h2⟩ := (h.tiles p).mpr ⟨x, hx, hxc⟩
        exact ⟨h1, by omega⟩
  maxi := by
    intro i hi
    cases i with
    | zero =>
      cases acc with
      | nil => simp at hi
      | cons a t =>
        simp only [List.getElem_cons_succ, List.getElem_cons_zero]
        exact hadj a (by simp)
    | succ j =>
      simp only [List.getElem_cons_succ]
      exact h.maxi j (by simpa using hi)

theorem adj_reverse {β : Type} (l : List β) (R : β → β → Prop)
    (h : ∀ i (h : i + 1 < l.length), R l[i+1] l[i]) :
    ∀ i (h : i + 1 < l.reverse.length), R l.reverse[i] l.reverse[i+1] := by
  intro i hi
  have hl : i + 1 < l.length := by simpa using hi
  have key := h (l.length - 2 - i) (by omega)
  have e1 : l.reverse[i] = l[l.length - 2 - i + 1] := by
    rw [List.getElem_reverse]; exact getElem_congr_idx (by omega)
  have e2 : l.reverse[i+1] = l[l.length - 2 - i] := by
    rw [List.getElem_reverse]; exact getElem_congr_idx (by omega)
  rw [e1, e2]; exact key

/-- at the end of the iteration the accumulated runs satisfy the specification -/
theorem AInv.final {s : Lapper α} {m : Array (Iv Bool)} {acc : List (Iv Nat)} {e : Nat}
    (h : AInv s m acc e) (hall : ∀ p, covered m.toList p → p < e)
    (hcov : ∀ p, covered m.toList p ↔ covered s.intervals.toList p) :
    IsDepthRLE s.intervals.toList acc.reverse where
  nonempty := by intro r hr; exact h.ne r (List.mem_reverse.mp hr)
  ascending := by rw [List.pairwise_reverse]; exact h.asc
  value := by intro r hr; exact h.value r (List.mem_reverse.mp hr)
  tiles := by
    intro p
    rw [← hcov p]
    constructor
    · intro hp
      obtain ⟨r, hr, hrc⟩ := (h.tiles p).mp ⟨hp, hall p hp⟩
      exact ⟨r, List.mem_reverse.mpr hr, hrc⟩
    · intro ⟨r, hr, hrc⟩
      exact ((h.tiles p).mpr ⟨r, List.mem_reverse.mp hr, hrc⟩).1
  maximal := adj_reverse acc (fun a b => a.stop = b.start → a.val ≠ b.val) h.maxi

end BV
