import BedVerif.Lemmas.C20Canon
/-! C20, part 3: one `next()` of the depth iterator. -/
namespace BV
variable {α : Type}

/-- the sentinel-decoded current position -/
def effPos (st : DepthSt) (iv0 : Iv Bool) : Nat := if st.currMergedPos == 0 then iv0.start else st.currMergedPos

/-- result of the emitting part of `next()`, started at `pos` inside `iv`, in projection form -/
def emitD (s : Lapper α) (pos cursor : Nat) : Nat := (depthAt s pos cursor).1
def emitW (s : Lapper α) (iv : Iv Bool) (pos cursor : Nat) : Nat × Nat :=
  walk s (depthAt s pos cursor).1 iv.stop (iv.stop - pos + 1) pos (depthAt s pos cursor).2
def emitRun (s : Lapper α) (iv : Iv Bool) (pos cursor : Nat) : Iv Nat :=
  ⟨pos, (emitW s iv pos cursor).1, emitD s pos cursor⟩
def emitSt (s : Lapper α) (iv : Iv Bool) (pos cp cursor : Nat) : DepthSt :=
  ⟨(emitW s iv pos cursor).1, cp, (emitW s iv pos cursor).2⟩

theorem depthNext_none0 (s : Lapper α) (m : Array (Iv Bool)) (st : DepthSt) (h : m[st.currPos]? = none) :
    (depthNext s m st).1 = none := by
  simp only [depthNext, h]

theorem depthNext_A (s : Lapper α) (m : Array (Iv Bool)) (st : DepthSt) (iv0 : Iv Bool)
    (h : m[st.currPos]? = some iv0) (hne : iv0.stop ≠ effPos st iv0) :
    depthNext s m st = (some (emitRun s iv0 (effPos st iv0) st.cursor), emitSt s iv0 (effPos st iv0) st.currPos st.cursor) := by
  have hne' : (iv0.stop == effPos st iv0) = false := by simpa using hne
  unfold effPos at hne'
  simp only [depthNext, h, hne']
  rfl

theorem depthNext_B (s : Lapper α) (m : Array (Iv Bool)) (st : DepthSt) (iv0 iv1 : Iv Bool)
    (h : m[st.currPos]? = some iv0) (heq : iv0.stop = effPos st iv0) (h1 : m[st.currPos + 1]? = some iv1) :
    depthNext s m st = (some (emitRun s iv1 iv1.start st.cursor), emitSt s iv1 iv1.start (st.currPos + 1) st.cursor) := by
  have heq' : (iv0.stop == effPos st iv0) = true := by simpa using heq
  have hsz : (st.currPos + 1 != m.size) = true := by
    have : st.currPos + 1 < m.size := by
      rcases Nat.lt_or_ge (st.currPos + 1) m.size with h | h
      · exact h
      · simp [Array.getElem?_eq_none h] at h1
    simp; omega
  unfold effPos at heq'
  simp only [depthNext, h, heq', hsz, h1]
  rfl

theorem depthNext_none1 (s : Lapper α) (m : Array (Iv Bool)) (st : DepthSt) (iv0 : Iv Bool)
    (h : m[st.currPos]? = some iv0) (heq : iv0.stop = effPos st iv0) (h1 : m[st.currPos + 1]? = none) :
    (depthNext s m st).1 = none := by
  have heq' : (iv0.stop == effPos st iv0) = true := by simpa using heq
  unfold effPos at heq'
  simp only [depthNext, h, heq', h1, if_true, ite_self]

/-- the emitted run `[pos, pos')`: constant depth, ends at a depth change or at the end of the merged interval -/
theorem emit_spec {s : Lapper α} (hs : SOK s) (iv : Iv Bool) (pos cursor : Nat)
    (hg : Good s cursor pos) (hlt : pos < iv.stop) :
    emitD s pos cursor = depthOf s.intervals.toList pos ∧
    pos < (emitW s iv pos cursor).1 ∧ (emitW s iv pos cursor).1 ≤ iv.stop ∧
    (∀ q, pos ≤ q → q < (emitW s iv pos cursor).1 → depthOf s.intervals.toList q = depthOf s.intervals.toList pos) ∧
    ((emitW s iv pos cursor).1 < iv.stop →
      depthOf s.intervals.toList (emitW s iv pos cursor).1 ≠ depthOf s.intervals.toList pos) ∧
    Good s (emitW s iv pos cursor).2 (emitW s iv pos cursor).1 := by
  obtain ⟨hd, hg1⟩ := depthAt_spec hs pos cursor hg
  obtain ⟨w1, w2, w3, w4, w5, w6⟩ :=
    walk_spec hs (depthAt s pos cursor).1 iv.stop (iv.stop - pos + 1) pos (depthAt s pos cursor).2 hg1 (by omega)
  unfold emitD emitW
  rw [hd] at w2 w3 w4 w5 w6 ⊢
  refine ⟨rfl, w2 hlt, w3 (by omega), ?_, w5, w6⟩
  intro q hq1 hq2
  by_cases h : q = pos
  · rw [h]
  · exact w4 q (by omega) hq2

end BV
