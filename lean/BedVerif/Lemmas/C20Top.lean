import BedVerif.Lemmas.C20Drain
/-! C20, part 6: the merged helper index, and `depth()` for a state with the structural invariant. -/
namespace BV
variable {α : Type}

theorem covered_map_flag (l : List (Iv α)) (p : Nat) :
    covered (l.map (fun i => (⟨i.start, i.stop, true⟩ : Iv Bool))) p ↔ covered l p := by
  unfold covered
  constructor
  · intro ⟨iv, hm, hc⟩
    obtain ⟨a, ha, rfl⟩ := List.mem_map.mp hm
    exact ⟨a, ha, hc⟩
  · intro ⟨a, ha, hc⟩
    exact ⟨_, List.mem_map.mpr ⟨a, ha, rfl⟩, hc⟩

theorem covered_perm {β : Type} {l₁ l₂ : List (Iv β)} (h : l₁.Perm l₂) (p : Nat) : covered l₁ p ↔ covered l₂ p := by
  unfold covered
  constructor
  · intro ⟨iv, hm, hc⟩; exact ⟨iv, h.mem_iff.mp hm, hc⟩
  · intro ⟨iv, hm, hc⟩; exact ⟨iv, h.mem_iff.mpr hm, hc⟩

/-- the merged helper of `depth()` is canonical and covers exactly the stored intervals' positions -/
theorem depthMerged_spec (s : Lapper α) (hne : ∀ iv ∈ s.intervals.toList, iv.start < iv.stop) :
    Canonical s.depthMerged.toList ∧ ∀ p, covered s.depthMerged.toList p ↔ covered s.intervals.toList p := by
  have hm : s.depthMerged.toList =
      mergeList (Lapper.new (s.intervals.toList.map (fun i => (⟨i.start, i.stop, true⟩ : Iv Bool)))).intervals.toList := by
    unfold Lapper.depthMerged; rw [mergeOverlaps_intervals]
  have hperm := new_intervals_perm (s.intervals.toList.map (fun i => (⟨i.start, i.stop, true⟩ : Iv Bool)))
  have hsorted := (inv_new (s.intervals.toList.map (fun i => (⟨i.start, i.stop, true⟩ : Iv Bool)))).sortedStart
  have hne' : ∀ iv ∈ (Lapper.new (s.intervals.toList.map (fun i => (⟨i.start, i.stop, true⟩ : Iv Bool)))).intervals.toList,
      iv.start < iv.stop := by
    intro iv hiv
    obtain ⟨a, ha, rfl⟩ := List.mem_map.mp (hperm.mem_iff.mp hiv)
    exact hne a ha
  obtain ⟨c1, c2⟩ := C18_mergeList_canonical _ hsorted hne'
  rw [hm]
  refine ⟨c1, fun p => ?_⟩
  rw [c2 p, covered_perm hperm p, covered_map_flag]

theorem depth_eq (s : Lapper α) :
    s.depth = depthDrain s s.depthMerged (restLen s.depthMerged 0 + s.depthMerged.size + 2) ⟨0, 0, 0⟩ [] := by
  simp [Lapper.depth, restLen]

/-- `depth()` on any state that has the structural invariant and stores non-empty intervals -/
theorem depth_spec_of (s : Lapper α) (hs : SOK s) (hne : ∀ iv ∈ s.intervals.toList, iv.start < iv.stop) :
    IsDepthRLE s.intervals.toList s.depth := by
  obtain ⟨hc, hcov⟩ := depthMerged_spec s hne
  rw [depth_eq]
  cases h0 : s.depthMerged[0]? with
  | none =>
    rw [drain_none s _ _ ⟨0, 0, 0⟩ [] (depthNext_none0 s _ ⟨0, 0, 0⟩ h0)]
    have hnil : s.depthMerged.toList = [] := by
      rcases Nat.lt_or_ge 0 s.depthMerged.size with h' | h'
      · rw [Array.getElem?_eq_getElem h'] at h0; cases h0
      · have : s.depthMerged.size = 0 := by omega
        simp [Array.eq_empty_of_size_eq_zero this]
    have hno : ∀ p, ¬ covered s.depthMerged.toList p := by
      intro p ⟨iv, hm, _⟩; rw [hnil] at hm; cases hm
    exact (AInv.nil s s.depthMerged 0 (fun p hp => absurd hp (hno p))).final (fun p hp => absurd hp (hno p)) hcov
  | some iv0 =>
    obtain ⟨hkl, hget⟩ := toList_getElem_of_some _ 0 iv0 h0
    have heff : effPos ⟨0, 0, 0⟩ iv0 = iv0.start := rfl
    have hne0 : iv0.start < iv0.stop := by have := canon_ne hc hkl; rw [hget] at this; exact this
    apply drain_spec hs hc hcov _ ⟨0, 0, 0⟩ [] iv0 h0
    · rw [heff]; exact Nat.le_refl _
    · rw [heff]; omega
    · exact good_zero s _
    · rw [heff]
      apply AInv.nil
      intro p hp
      have := canon_first hc hkl p hp
      rw [hget] at this; exact this
    · intro r1 hr1; cases hr1
    · rw [heff]
      have := restLen_step s.depthMerged 0 iv0 h0
      unfold Iv.len at this
      show restLen s.depthMerged (0 + 1) + _ + _ < _
      omega

end BV
