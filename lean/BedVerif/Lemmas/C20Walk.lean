import BedVerif.Props.C18
/-! C20, part 1: the carried cursor, `depthAt`, and the inner `walk` loop. -/
namespace BV
variable {α : Type}

/-- what the depth iterator needs from the index -/
structure SOK (s : Lapper α) : Prop where
  sorted : SortedStart s.intervals.toList
  maxLen_ge : ∀ iv ∈ s.intervals.toList, iv.len ≤ s.maxLen
  /-- all coordinates fit in u64 (needed by the saturating probe of the inner loop) -/
  fits : ∀ iv ∈ s.intervals.toList, iv.stop ≤ U64MAX

/-- the cursor `c` is usable for every query position `≥ p` -/
def Good (s : Lapper α) (c p : Nat) : Prop := Below s.intervals c (p - s.maxLen)

theorem Good.mono {s : Lapper α} {c p p' : Nat} (h : Good s c p) (hp : p ≤ p') : Good s c p' :=
  Below.mono h (by omega)

theorem good_zero (s : Lapper α) (p : Nat) : Good s 0 p := fun i _ h => by omega

theorem ov_unit_eq_covers (iv : Iv α) (p : Nat) : iv.ov p (p+1) = iv.covers p := by
  unfold Iv.ov Iv.covers
  rw [Bool.eq_iff_iff]
  simp only [Bool.and_eq_true, decide_eq_true_eq]
  omega

theorem depthAt_fst (s : Lapper α) (p c : Nat) : (depthAt s p c).1 = (s.seek p (p+1) c).1.length := rfl
theorem depthAt_snd (s : Lapper α) (p c : Nat) : (depthAt s p c).2 = (s.seek p (p+1) c).2 := rfl

theorem depthAt_spec {s : Lapper α} (hs : SOK s) (p c : Nat) (h : Good s c p) :
    (depthAt s p c).1 = depthOf s.intervals.toList p ∧ Good s (depthAt s p c).2 p := by
  obtain ⟨h1, h2⟩ := seek_step s hs.sorted hs.maxLen_ge p (p+1) c (p - s.maxLen) h (Nat.le_refl _)
  refine ⟨?_, ?_⟩
  · rw [depthAt_fst, h1, depthOf, List.countP_eq_length_filter]
    congr 1
    apply List.filter_congr
    intro iv _
    exact ov_unit_eq_covers iv p
  · rw [depthAt_snd]; exact h2

/-- the saturating unit query `[p, p.saturating_add(1))` hits exactly the intervals covering `p`,
as long as the interval ends within u64 (at `p ≥ u64::MAX` neither side holds) -/
theorem ov_sat_eq_covers (iv : Iv α) (p : Nat) (h : iv.stop ≤ U64MAX) : iv.ov p (satAdd p 1) = iv.covers p := by
  unfold Iv.ov Iv.covers satAdd
  rw [Bool.eq_iff_iff]
  simp only [Bool.and_eq_true, decide_eq_true_eq]
  omega

theorem depthAtSat_fst (s : Lapper α) (p c : Nat) : (depthAtSat s p c).1 = (s.seek p (satAdd p 1) c).1.length := rfl
theorem depthAtSat_snd (s : Lapper α) (p c : Nat) : (depthAtSat s p c).2 = (s.seek p (satAdd p 1) c).2 := rfl

/-- the repaired probe of the inner loop meets the same specification as `depthAt` -/
theorem depthAtSat_spec {s : Lapper α} (hs : SOK s) (p c : Nat) (h : Good s c p) :
    (depthAtSat s p c).1 = depthOf s.intervals.toList p ∧ Good s (depthAtSat s p c).2 p := by
  obtain ⟨h1, h2⟩ := seek_step s hs.sorted hs.maxLen_ge p (satAdd p 1) c (p - s.maxLen) h (Nat.le_refl _)
  refine ⟨?_, ?_⟩
  · rw [depthAtSat_fst, h1, depthOf, List.countP_eq_length_filter]
    congr 1
    apply List.filter_congr
    intro iv hiv
    exact ov_sat_eq_covers iv p (hs.fits iv hiv)
  · rw [depthAtSat_snd]; exact h2

theorem depthOf_pos_iff (l : List (Iv α)) (p : Nat) : 0 < depthOf l p ↔ covered l p := by
  unfold depthOf covered
  rw [List.countP_pos_iff]

/-- the inner loop: from `pos` (inside the merged interval ending at `stop`) it returns the first
later position where the depth differs from `d`, or `stop`. -/
theorem walk_spec {s : Lapper α} (hs : SOK s) (d stop : Nat) :
    ∀ fuel pos cur, Good s cur pos → stop - pos ≤ fuel →
      pos ≤ (walk s d stop fuel pos cur).1 ∧
      (pos < stop → pos < (walk s d stop fuel pos cur).1) ∧
      (pos ≤ stop → (walk s d stop fuel pos cur).1 ≤ stop) ∧
      (∀ q, pos < q → q < (walk s d stop fuel pos cur).1 → depthOf s.intervals.toList q = d) ∧
      ((walk s d stop fuel pos cur).1 < stop → depthOf s.intervals.toList (walk s d stop fuel pos cur).1 ≠ d) ∧
      Good s (walk s d stop fuel pos cur).2 (walk s d stop fuel pos cur).1 := by
  intro fuel
  induction fuel with
  | zero =>
    intro pos cur hg hf
    simp only [walk]
    refine ⟨Nat.le_refl _, by omega, fun h => h, fun q h1 h2 => by omega, by omega, hg⟩
  | succ n ih =>
    intro pos cur hg hf
    simp only [walk]
    split
    · rename_i hlt
      obtain ⟨hd, hg'⟩ := depthAtSat_spec hs (pos+1) cur (hg.mono (Nat.le_succ _))
      split
      · rename_i heq
        have heq' : (depthAtSat s (pos+1) cur).1 = d := by simpa using heq
        obtain ⟨i1, i2, i3, i4, i5, i6⟩ := ih (pos+1) (depthAtSat s (pos+1) cur).2 hg' (by omega)
        refine ⟨by omega, fun _ => by omega, fun _ => i3 (by omega), ?_, i5, i6⟩
        intro q hq1 hq2
        by_cases hq : q = pos + 1
        · subst hq; rw [← hd]; exact heq'
        · exact i4 q (by omega) hq2
      · rename_i hne
        have hne' : (depthAtSat s (pos+1) cur).1 ≠ d := by simpa using hne
        refine ⟨by simp, fun _ => by simp, fun _ => hlt, fun q h1 h2 => ?_, fun _ => ?_, hg'⟩
        · simp at h2; omega
        · simp only; rw [← hd]; exact hne'
    · rename_i hge
      refine ⟨Nat.le_refl _, fun h => absurd h hge, fun h => h, fun q h1 h2 => by omega, fun h => absurd h hge, hg⟩

end BV
