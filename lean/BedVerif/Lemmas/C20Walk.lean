import BedVerif.Props.C18
/-! C20, part 1: the carried cursor, `depthAt`, and the inner `walk` loop. -/
namespace BV
variable {α : Type}

/-- what the depth iterator needs from the index -/
structure SOK (s : Lapper α) : Prop where
  sorted : SortedStart s.intervals.toList
  maxLen_ge : ∀ iv ∈ s.intervals.toList, iv.len ≤ s.maxLen

/-- the cursor `c` is usable for every query position `≥ p` -/
def Good (s : Lapper α) (c p : Nat) : Prop := Below s.intervals c (p - s.maxLen)

theorem Good.mono {s : Lapper α} {c p p' : Nat} (h : Good s c p) (hp : p ≤ p') : Good s c p' :=
  Below.mono h (by omega)

theorem good_zero (s : Lapper α) (p : Nat) : Good s 0 p := fun i _ h => by omega

theorem ov_unit_eq_covers (iv : Iv α) (p : Nat) : iv.ov p (p+1) = iv.covers p := by
  unfold Iv.ov Iv.covers
  rw [Bool.eq_iff_iff]
  simp only [Bool.and_eq_true, decide_eq_true_eq]
  omega

theorem depthAt_fst (s : Lapper α) (p c : Nat) : (depthAt s p c).1 = (s.seek p (p+1) c).1.length := rfl
theorem depthAt_snd (s : Lapper α) (p c : Nat) : (depthAt s p c).2 = (s.seek p (p+1) c).2 := rfl

theorem depthAt_spec {s : Lapper α} (hs : SOK s) (p c : Nat) (h : Good s c p) :
    (depthAt s p c).1 = depthOf s.intervals.toList p ∧ Good s (depthAt s p c).2 p := by
  obtain ⟨h1, h2⟩ := seek_step s hs.sorted hs.maxLen_ge p (p+1) c (p - s.maxLen) h (Nat.le_refl _)
  refine ⟨?_, ?_⟩
  · rw [depthAt_fst, h1, depthOf, List.countP_eq_length_filter]
    congr 1
    apply List.filter_congr
    intro iv _
    exact ov_unit_eq_covers iv p
  · rw [depthAt_snd]; exact h2

theorem depthOf_pos_iff (l : List (Iv α)) (p : Nat) : 0 < depthOf l p ↔ covered l p := by
  unfold depthOf covered
  rw [List.countP_pos_iff]

/-- the inner loop: from `pos` (inside the merged interval ending at `stop`) it returns the first
later position where the depth differs from `d`, or `stop`. -/
theorem walk_spec {s : Lapper α} (hs : SOK s) (d stop : Nat) :
    ∀ fuel pos cur, Good s cur pos → stop - pos ≤ fuel →
      pos ≤ (walk s d stop fuel pos cur).1 ∧
      (pos < stop → pos < (walk s d stop fuel pos cur).1) ∧
      (pos ≤ stop → (walk s d stop fuel pos cur).1 ≤ stop) ∧
      (∀ q, pos < q → q < (walk s d stop fuel pos cur).1 → depthOf s.intervals.toList q = d) ∧
      ((walk s d stop fuel pos cur).1 < stop → depthOf s.intervals.toList (walk s d stop fuel pos cur).1 ≠ d) ∧
      Good s (walk s d stop fuel pos cur).2 (walk s d stop fuel pos cur).1 := by
  intro fuel
  induction fuel with
  | zero =>
    intro pos cur hg hf
    simp only [walk]
    refine ⟨Nat.le_refl _, by omega, fun h => h, fun q h1 h2 => by omega, by omega, hg⟩
  | succ n ih =>
    intro pos cur hg hf
    simp only [walk]
    split
    · rename_i hlt
      obtain ⟨hd, hg'⟩ := depthAt_spec hs (pos+1) cur (hg.mono (Nat.le_succ _))
      split
      · rename_i heq
        have heq' : (depthAt s (pos+1) cur).1 = d := by simpa using heq
        obtain ⟨i1, i2, i3, i4, i5, i6⟩ := ih (pos+1) (depthAt s (pos+1) cur).2 hg' (by omega)
        refine ⟨by omega, fun _ => by omega, fun _ => i3 (by omega), ?_, i5, i6⟩
        intro q hq1 hq2
        by_cases hq : q = pos + 1
        · subst hq; rw [← hd]; exact heq'
        · exact i4 q (by omega) hq2
      · rename_i hne
        have hne' : (depthAt s (pos+1) cur).1 ≠ d := by simpa using hne
        refine ⟨by simp, fun _ => by simp, fun _ => hlt, fun q h1 h2 => ?_, fun _ => ?_, hg'⟩
        · simp at h2; omega
        · simp only; rw [← hd]; exact hne'
    · rename_i hge
      refine ⟨Nat.le_refl _, fun h => absurd h hge, fun h => h, fun q h1 h2 => by omega, fun h => absurd h hge, hg⟩

end BV
