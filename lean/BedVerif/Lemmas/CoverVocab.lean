import BedVerif.Lemmas.LapperInv
import BedVerif.Lemmas.LapperSeek
import BedVerif.Spec.Lapper
/-! Vocabulary shared by the statements of C18, C19, C20. -/
namespace BV
variable {α : Type}

/-- position `p` is covered by some interval of `l` -/
def covered (l : List (Iv α)) (p : Nat) : Prop := ∃ iv ∈ l, iv.covers p = true

/-- non-empty intervals, ascending, pairwise disjoint and non-adjacent -/
def Canonical (l : List (Iv α)) : Prop :=
  (∀ iv ∈ l, iv.start < iv.stop) ∧ l.Pairwise (fun a b => a.stop < b.start)

/-- every interval entering the structure during the history is non-empty (`start < stop`) -/
def NonEmptyIvs (l : List (Iv α)) (ops : List (Op α)) : Prop := ∀ iv ∈ recordsOf l ops, iv.start < iv.stop

theorem NonEmptyIvs.weak {l : List (Iv α)} {ops : List (Op α)} (h : NonEmptyIvs l ops) : WeakIvs l ops :=
  fun iv hiv => Nat.le_of_lt (h iv hiv)

/-- `runs` is the maximal run-length encoding of the pointwise depth of `l` -/
structure IsDepthRLE (l : List (Iv α)) (runs : List (Iv Nat)) : Prop where
  nonempty : ∀ r ∈ runs, r.start < r.stop
  ascending : runs.Pairwise (fun a b => a.stop ≤ b.start)
  /-- inside a run the depth is constant, positive, and equal to the run's value -/
  value : ∀ r ∈ runs, ∀ p, r.covers p = true → depthOf l p = r.val ∧ 0 < r.val
  /-- the runs tile exactly the covered positions -/
  tiles : ∀ p, covered l p ↔ ∃ r ∈ runs, r.covers p = true
  /-- two adjacent runs differ in depth -/
  maximal : ∀ i (h : i + 1 < runs.length), runs[i].stop = runs[i+1].start → runs[i].val ≠ runs[i+1].val

end BV
