import BedVerif.Spec.Coverage
import BedVerif.Props.C11
/-! Invariants of the dense and sparse region counters (C05). -/
namespace BV




theorem length_addAt (l : List Int) (i : Nat) (k : Int) : (addAt l i k).length = l.length := by
  unfold addAt; split <;> simp

theorem getElem?_addAt (l : List Int) (i j : Nat) (k : Int) :
    (addAt l i k)[j]? = if j = i then l[j]?.map (· + k) else l[j]? := by
  unfold addAt
  split
  · rename_i x hx
    obtain ⟨hlt, hxe⟩ := List.getElem?_eq_some_iff.mp hx
    by_cases hji : j = i
    · subst hji; simp [hlt, hxe]
    · have : ¬ i = j := fun h => hji h.symm
      simp [hji, this]
  · rename_i hx
    by_cases hji : j = i
    · subst hji; simp [hx]
    · simp [hji]

/-- what a list of hit indices adds to slot `j` -/
def hits (idxs : List Nat) (j : Nat) (k : Int) : Int := (idxs.map (fun i => if i = j then k else 0)).sum

theorem hits_nil (j : Nat) (k : Int) : hits [] j k = 0 := rfl

theorem hits_cons (i : Nat) (rest : List Nat) (j : Nat) (k : Int) :
    hits (i :: rest) j k = (if i = j then k else 0) + hits rest j k := by
  simp [hits]

theorem hits_append (a b : List Nat) (j : Nat) (k : Int) : hits (a ++ b) j k = hits a j k + hits b j k := by
  simp [hits]

theorem hits_perm {a b : List Nat} (h : a.Perm b) (j : Nat) (k : Int) : hits a j k = hits b j k := by
  induction h with
  | nil => rfl
  | cons x _ ih => simp only [hits_cons, ih]
  | swap x y l => simp only [hits_cons]; omega
  | trans _ _ ih1 ih2 => rw [ih1, ih2]

theorem hits_filter_range (p : Nat → Bool) (n j : Nat) (k : Int) :
    hits ((List.range n).filter p) j k = if j < n ∧ p j = true then k else 0 := by
  induction n with
  | zero => simp [hits_nil]
  | succ n ih =>
    rw [List.range_succ, List.filter_append, hits_append, ih]
    by_cases hjn : j = n
    · subst hjn
      by_cases hp : p j = true
      · simp [hp, hits_cons, hits_nil]
      · simp [hp, hits_nil]
    · have hne : ¬ n = j := fun h => hjn h.symm
      have h0 : hits (List.filter p [n]) j k = 0 := by
        by_cases hp : p n = true
        · simp [hp, hits_cons, hits_nil, hne]
        · simp [hp, hits_nil]
      rw [h0]
      by_cases hp : p j = true
      · by_cases hlt : j < n
        · have : j < n + 1 := by omega
          simp [hp, hlt, this]
        · have : ¬ j < n + 1 := by omega
          simp [hlt, this]
      · simp [hp]

theorem getElem?_foldl_addAt (idxs : List Nat) (k : Int) (c : List Int) (j : Nat) :
    (idxs.foldl (fun c i => addAt c i k) c)[j]? = c[j]?.map (· + hits idxs j k) := by
  induction idxs generalizing c with
  | nil => simp [hits_nil]
  | cons i rest ih =>
    rw [List.foldl_cons, ih, getElem?_addAt, hits_cons]
    by_cases h : j = i
    · subst h
      cases c[j]? with
      | none => simp
      | some x => simp; omega
    · have : ¬ i = j := fun e => h e.symm
      simp [h, this]

theorem length_foldl_addAt (idxs : List Nat) (k : Int) (c : List Int) :
    (idxs.foldl (fun c i => addAt c i k) c).length = c.length := by
  induction idxs generalizing c with
  | nil => rfl
  | cons i rest ih => rw [List.foldl_cons, ih, length_addAt]

/-- one step of `sinceReset` -/
def srStep (acc : List COp) (o : COp) : List COp := match o with | .reset => [] | o => acc ++ [o]

theorem sinceReset_eq (ops : List COp) : sinceReset ops = ops.foldl srStep [] := rfl

def DInv (regions : List Rec) (pre : List COp) (s : Dense) : Prop :=
  s.counts = (List.range regions.length).map (fun i => (pre.map (contrib regions i)).sum) ∧
  s.total = (pre.map mult).sum

theorem dense_step (regions : List Rec) (pre : List COp) (s : Dense) (o : COp)
    (ho : ∀ i k, o = .insertAt i k → i < regions.length) (hs : DInv regions pre s) :
    DInv regions (srStep pre o) (Dense.step (IndexSet.fromIter regions) s o) := by
  obtain ⟨hc, ht⟩ := hs
  cases o with
  | insert tag k =>
    refine ⟨?_, ?_⟩
    · show (((IndexSet.fromIter regions).findIndexOf tag).foldl (fun c i => addAt c i k) s.counts) = _
      apply List.ext_getElem?
      intro j
      rw [getElem?_foldl_addAt, hits_perm (C11_findIndexOf_perm regions tag), hits_filter_range, hc]
      by_cases hj : j < regions.length
      · simp [srStep, hj, contrib]
      · simp [hj]
    · show s.total + k = _
      simp [srStep, mult, ht]
  | insertAt i k =>
    have hi := ho i k rfl
    refine ⟨?_, ?_⟩
    · show addAt s.counts i k = _
      apply List.ext_getElem?
      intro j
      rw [getElem?_addAt, hc]
      by_cases hj : j < regions.length
      · by_cases hji : j = i
        · simp [srStep, hji, hi, contrib]
        · simp [srStep, hj, hji, contrib]
      · have : ¬ j = i := by omega
        simp [hj, this]
    · show s.total + k = _
      simp [srStep, mult, ht]
  | reset =>
    refine ⟨?_, ?_⟩
    · show s.counts.map (fun _ => 0) = _
      rw [hc]; simp [srStep]
    · show (0 : Int) = _
      simp [srStep]

theorem InRange_cons {n : Nat} {o : COp} {ops : List COp} (h : InRange n (o :: ops)) :
    (∀ i k, o = .insertAt i k → i < n) ∧ InRange n ops :=
  ⟨fun i k e => h o (List.mem_cons_self) i k e, fun o' ho' => h o' (List.mem_cons_of_mem _ ho')⟩

theorem dense_run_inv (regions : List Rec) (ops : List COp) (pre : List COp) (s : Dense)
    (h : InRange regions.length ops) (hs : DInv regions pre s) :
    DInv regions (ops.foldl srStep pre) (ops.foldl (Dense.step (IndexSet.fromIter regions)) s) := by
  induction ops generalizing pre s with
  | nil => exact hs
  | cons o ops ih =>
    obtain ⟨ho, hr⟩ := InRange_cons h
    exact ih _ _ hr (dense_step regions pre s o ho hs)

theorem dense_init_inv (regions : List Rec) : DInv regions [] (Dense.init regions) := by
  refine ⟨?_, rfl⟩
  show regions.map (fun _ => (0 : Int)) = _
  apply List.ext_getElem?
  intro j
  by_cases hj : j < regions.length
  · simp [hj]
  · simp [hj]

theorem length_dense_step (ix : IndexSet) (s : Dense) (o : COp) :
    (Dense.step ix s o).counts.length = s.counts.length := by
  cases o with
  | insert tag k => exact length_foldl_addAt _ _ _
  | insertAt i k => exact length_addAt _ _ _
  | reset => simp [Dense.step]

theorem length_dense_foldl (ix : IndexSet) (ops : List COp) (s : Dense) :
    (ops.foldl (Dense.step ix) s).counts.length = s.counts.length := by
  induction ops generalizing s with
  | nil => rfl
  | cons o ops ih => rw [List.foldl_cons, ih, length_dense_step]

/-- first-match lookup with default -/
def lkD : List (Nat × Int) → Nat → Int → Int
  | [], _, d => d
  | (a, b) :: r, j, d => if j = a then b else lkD r j d

def SortedKeys (m : List (Nat × Int)) : Prop := m.Pairwise (fun x y => x.1 < y.1)

theorem lkD_of_ne (m : List (Nat × Int)) (j : Nat) (d : Int) (h : ∀ kv ∈ m, j ≠ kv.1) : lkD m j d = d := by
  induction m with
  | nil => rfl
  | cons ab r ih =>
    obtain ⟨a, b⟩ := ab
    have h1 : j ≠ a := h (a, b) List.mem_cons_self
    simp only [lkD, h1, if_false]
    exact ih (fun kv hkv => h kv (List.mem_cons_of_mem _ hkv))

theorem getElem?_foldl_set (m : List (Nat × Int)) (hs : SortedKeys m) (v : List Int) (j : Nat) :
    (m.foldl (fun v (ix : Nat × Int) => v.set ix.1 ix.2) v)[j]? = v[j]?.map (fun x => lkD m j x) := by
  induction m generalizing v with
  | nil => simp [lkD]
  | cons ab r ih =>
    obtain ⟨a, b⟩ := ab
    obtain ⟨h1, h2⟩ := List.pairwise_cons.mp hs
    rw [List.foldl_cons, ih h2, List.getElem?_set]
    by_cases hja : j = a
    · subst hja
      have hr : ∀ x, lkD r j x = x := fun x => lkD_of_ne r j x (fun kv hkv => Nat.ne_of_lt (h1 kv hkv))
      by_cases hlt : j < v.length
      · simp [hlt, lkD, hr]
      · simp [hlt]
    · have : ¬ a = j := fun e => hja e.symm
      simp [this, lkD, hja]

theorem getElem?_asVec (n : Nat) (m : List (Nat × Int)) (hs : SortedKeys m) (j : Nat) :
    (asVec n m)[j]? = if j < n then some (lkD m j 0) else none := by
  unfold asVec
  rw [getElem?_foldl_set m hs, List.getElem?_replicate]
  by_cases h : j < n <;> simp [h]

theorem mapAdd_mem (m : List (Nat × Int)) (i : Nat) (k : Int) (kv : Nat × Int) (h : kv ∈ mapAdd m i k) :
    kv.1 = i ∨ ∃ kv' ∈ m, kv'.1 = kv.1 := by
  induction m with
  | nil =>
    simp only [mapAdd, List.mem_singleton] at h
    subst h; exact Or.inl rfl
  | cons ab r ih =>
    obtain ⟨a, b⟩ := ab
    simp only [mapAdd] at h
    split at h
    · rcases List.mem_cons.mp h with h | h
      · subst h; exact Or.inl rfl
      · exact Or.inr ⟨kv, h, rfl⟩
    · split at h
      · rcases List.mem_cons.mp h with h | h
        · subst h; exact Or.inr ⟨(a, b), List.mem_cons_self, rfl⟩
        · exact Or.inr ⟨kv, List.mem_cons_of_mem _ h, rfl⟩
      · rcases List.mem_cons.mp h with h | h
        · subst h; exact Or.inr ⟨(a, b), List.mem_cons_self, rfl⟩
        · rcases ih h with h | ⟨kv', h, e⟩
          · exact Or.inl h
          · exact Or.inr ⟨kv', List.mem_cons_of_mem _ h, e⟩

theorem mapAdd_sorted (m : List (Nat × Int)) (i : Nat) (k : Int) (hs : SortedKeys m) :
    SortedKeys (mapAdd m i k) := by
  induction m with
  | nil => simp [mapAdd, SortedKeys]
  | cons ab r ih =>
    obtain ⟨a, b⟩ := ab
    obtain ⟨h1, h2⟩ := List.pairwise_cons.mp hs
    simp only [mapAdd]
    split
    · rename_i hia
      refine List.pairwise_cons.mpr ⟨?_, hs⟩
      intro kv hkv
      rcases List.mem_cons.mp hkv with e | hkv
      · subst e; exact hia
      · exact Nat.lt_trans hia (h1 kv hkv)
    · split
      · exact List.pairwise_cons.mpr ⟨h1, h2⟩
      · rename_i hn1 hn2
        refine List.pairwise_cons.mpr ⟨?_, ih h2⟩
        intro kv hkv
        rcases mapAdd_mem r i k kv hkv with e | ⟨kv', hkv', e⟩
        · show a < kv.1
          omega
        · show a < kv.1
          rw [← e]; exact h1 kv' hkv'

theorem mapAdd_bound (n : Nat) (m : List (Nat × Int)) (i : Nat) (k : Int) (hi : i < n)
    (hb : ∀ kv ∈ m, kv.1 < n) : ∀ kv ∈ mapAdd m i k, kv.1 < n := by
  intro kv hkv
  rcases mapAdd_mem m i k kv hkv with e | ⟨kv', hkv', e⟩
  · omega
  · rw [← e]; exact hb kv' hkv'

theorem lkD_mapAdd (m : List (Nat × Int)) (i : Nat) (k : Int) (j : Nat) (hs : SortedKeys m) :
    lkD (mapAdd m i k) j 0 = if j = i then lkD m j 0 + k else lkD m j 0 := by
  induction m with
  | nil => by_cases h : j = i <;> simp [mapAdd, lkD, h]
  | cons ab r ih =>
    obtain ⟨a, b⟩ := ab
    obtain ⟨h1, h2⟩ := List.pairwise_cons.mp hs
    simp only [mapAdd]
    split
    · rename_i hia
      by_cases hji : j = i
      · subst hji
        have : lkD ((a, b) :: r) j 0 = 0 := by
          apply lkD_of_ne
          intro kv hkv
          rcases List.mem_cons.mp hkv with e | hkv
          · subst e; exact Nat.ne_of_lt hia
          · exact Nat.ne_of_lt (Nat.lt_trans hia (h1 kv hkv))
        rw [this]; simp [lkD]
      · simp only [hji, if_false]
        rw [lkD]; simp only [hji, if_false]
    · split
      · rename_i _ hia
        subst hia
        by_cases hji : j = i <;> simp [lkD, hji]
      · rename_i hn1 hn2
        by_cases hja : j = a
        · have : ¬ j = i := by omega
          simp [lkD, hja]
          intro e; omega
        · simp only [lkD, hja, if_false]
          exact ih h2

theorem asVec_mapAdd (n : Nat) (m : List (Nat × Int)) (i : Nat) (k : Int) (hs : SortedKeys m) :
    asVec n (mapAdd m i k) = addAt (asVec n m) i k := by
  apply List.ext_getElem?
  intro j
  rw [getElem?_addAt, getElem?_asVec n _ (mapAdd_sorted m i k hs), getElem?_asVec n m hs, lkD_mapAdd m i k j hs]
  by_cases hj : j < n <;> by_cases hji : j = i <;> simp [hj, hji]

theorem sparse_fold (n : Nat) (idxs : List Nat) (k : Int) (m : List (Nat × Int)) (hs : SortedKeys m)
    (hb : ∀ kv ∈ m, kv.1 < n) (hi : ∀ i ∈ idxs, i < n) :
    SortedKeys (idxs.foldl (fun m i => mapAdd m i k) m) ∧
    (∀ kv ∈ idxs.foldl (fun m i => mapAdd m i k) m, kv.1 < n) ∧
    asVec n (idxs.foldl (fun m i => mapAdd m i k) m) = idxs.foldl (fun c i => addAt c i k) (asVec n m) := by
  induction idxs generalizing m with
  | nil => exact ⟨hs, hb, rfl⟩
  | cons i rest ih =>
    have hin : i < n := hi i List.mem_cons_self
    have := ih (mapAdd m i k) (mapAdd_sorted m i k hs) (mapAdd_bound n m i k hin hb)
      (fun x hx => hi x (List.mem_cons_of_mem _ hx))
    rw [List.foldl_cons, List.foldl_cons, ← asVec_mapAdd n m i k hs]
    exact this

theorem findIndexOf_lt (regions : List Rec) (tag : Rec) :
    ∀ i ∈ (IndexSet.fromIter regions).findIndexOf tag, i < regions.length := by
  intro i hi
  have := (C11_findIndexOf_perm regions tag).mem_iff.mp hi
  exact List.mem_range.mp (List.mem_filter.mp this).1

def SInv (n : Nat) (s : Sparse) (d : Dense) : Prop :=
  SortedKeys s.m ∧ (∀ kv ∈ s.m, kv.1 < n) ∧ asVec n s.m = d.counts ∧ s.total = d.total ∧ d.counts.length = n

theorem sparse_step (regions : List Rec) (s : Sparse) (d : Dense) (o : COp)
    (ho : ∀ i k, o = .insertAt i k → i < regions.length) (h : SInv regions.length s d) :
    SInv regions.length (Sparse.step (IndexSet.fromIter regions) s o) (Dense.step (IndexSet.fromIter regions) d o) := by
  obtain ⟨hs, hb, hv, ht, hl⟩ := h
  cases o with
  | insert tag k =>
    obtain ⟨h1, h2, h3⟩ := sparse_fold regions.length _ k s.m hs hb (findIndexOf_lt regions tag)
    refine ⟨h1, h2, ?_, ?_, ?_⟩
    · show asVec regions.length (((IndexSet.fromIter regions).findIndexOf tag).foldl (fun m i => mapAdd m i k) s.m)
        = ((IndexSet.fromIter regions).findIndexOf tag).foldl (fun c i => addAt c i k) d.counts
      rw [← hv]; exact h3
    · show s.total + k = d.total + k
      rw [ht]
    · rw [length_dense_step]; exact hl
  | insertAt i k =>
    have hi := ho i k rfl
    refine ⟨mapAdd_sorted _ _ _ hs, mapAdd_bound _ _ _ _ hi hb, ?_, ?_, ?_⟩
    · show asVec regions.length (mapAdd s.m i k) = addAt d.counts i k
      rw [← hv]; exact asVec_mapAdd _ _ _ _ hs
    · show s.total + k = d.total + k
      rw [ht]
    · rw [length_dense_step]; exact hl
  | reset =>
    refine ⟨List.Pairwise.nil, ?_, ?_, rfl, ?_⟩
    · intro kv hkv; cases hkv
    · show asVec regions.length [] = d.counts.map (fun _ => 0)
      apply List.ext_getElem?
      intro j
      simp [asVec, List.getElem?_replicate]
      by_cases hj : j < regions.length
      · simp [hj, hl]
      · simp [hj, hl]
    · rw [length_dense_step]; exact hl

theorem sparse_run_inv (regions : List Rec) (ops : List COp) (s : Sparse) (d : Dense)
    (h : InRange regions.length ops) (hs : SInv regions.length s d) :
    SInv regions.length (ops.foldl (Sparse.step (IndexSet.fromIter regions)) s)
      (ops.foldl (Dense.step (IndexSet.fromIter regions)) d) := by
  induction ops generalizing s d with
  | nil => exact hs
  | cons o ops ih =>
    obtain ⟨ho, hr⟩ := InRange_cons h
    exact ih _ _ hr (sparse_step regions s d o ho hs)

theorem sparse_init_inv (regions : List Rec) : SInv regions.length ⟨[], 0⟩ (Dense.init regions) := by
  refine ⟨List.Pairwise.nil, ?_, ?_, rfl, ?_⟩
  · intro kv hkv; cases hkv
  · show asVec regions.length [] = regions.map (fun _ => (0 : Int))
    apply List.ext_getElem?
    intro j
    by_cases hj : j < regions.length
    · simp [asVec, hj]
    · simp [asVec, hj]
  · simp [Dense.init]

theorem sparse_run_SInv (regions : List Rec) (ops : List COp) (h : InRange regions.length ops) :
    SInv regions.length (Sparse.run regions ops) (Dense.run regions ops) :=
  sparse_run_inv regions ops _ _ h (sparse_init_inv regions)

end BV
