import BedVerif.Props.C08
import BedVerif.Lemmas.FastDepth
/-!
The specification of `merge_sorted_bedgraph` (`BedgraphSpec`, the six clauses of `C08_bedgraph` /
`C08_bedgraphOkB_sound`) determines the output, and the output is computed without enumerating
positions:

* `bedgraphSpec_unique`: two outputs meeting the six clauses for the same input are equal (for EVERY
  input list, sorted or not);
* `bedgraphSpec_iff_eq_model`: for a sorted input of non-empty records, meeting the six clauses is
  the same as being the model's output;
* `fastBedgraph` computes the output per chromosome (maximal runs of equal `chrom`, which on a sorted
  input are the chromosomes: `chromGroups_ok`) from the sorted endpoints; coverage and sum at each
  breakpoint are evaluated directly (`O(n²)` per chromosome); `fastBedgraph_spec`,
  `bedgraphSpec_iff_eq_fast`, `mergeSortedBedgraph_eq_fast`;
* `fastBedgraph'` is the `O(n log n)` form (running totals over the sorted starts, stops and weighted
  events), proved equal to `fastBedgraph` for every list (`fastBedgraph'_eq`), hence
  `BedgraphSpec xs out ↔ out = fastBedgraph' xs` (`bedgraphSpec_iff_eq_fast'`).

Per chromosome the pair (covered?, sum) is coded as a step function into `ℕ` (`lineF`), so that the
sweep of `Lemmas/FastDepth.lean` (`RLEFrom`, `fuse_segs_spec`, `pushRun`, proved there for every step
function) is reused as it stands. `Props/Sound.lean` cannot be imported next to `Lemmas/FastDepth.lean`
(`BV.Inv` is declared in both `Lemmas/MergeBed.lean` and `Lemmas/LapperInv.lean`); nothing of it is needed.
-/
namespace BV

/-- the six clauses of `C08_bedgraph` / `C08_bedgraphOkB_sound` -/
def BedgraphSpec (xs out : List BG) : Prop :=
  (∀ o ∈ out, o.start < o.stop) ∧
  SortedBGs out ∧
  (∀ i (h : i + 1 < out.length), out[i].chrom ≠ out[i+1].chrom ∨ out[i].stop ≤ out[i+1].start) ∧
  (∀ c p, coveredByBG xs c p ↔ coveredByBG out c p) ∧
  (∀ o ∈ out, ∀ p, o.toRec.mem p → o.value = sumAt xs o.chrom p) ∧
  (∀ i (h : i + 1 < out.length), out[i].chrom = out[i+1].chrom → out[i].stop = out[i+1].start → out[i].value ≠ out[i+1].value)

/-! ## Uniqueness -/

/-- the clauses that speak about the output alone, relative to a value function `V` -/
structure Tidy (V : Bytes → Nat → Int) (L : List BG) : Prop where
  ne : ∀ o ∈ L, o.start < o.stop
  sorted : L.Pairwise (fun a b => Rec.compare a.toRec b.toRec ≠ .gt)
  adj : ∀ i (h : i + 1 < L.length), L[i].chrom ≠ L[i+1].chrom ∨ L[i].stop ≤ L[i+1].start
  val : ∀ o ∈ L, ∀ p, o.start ≤ p → p < o.stop → o.value = V o.chrom p
  maxi : ∀ i (h : i + 1 < L.length), L[i].chrom = L[i+1].chrom → L[i].stop = L[i+1].start → L[i].value ≠ L[i+1].value

theorem Tidy.tail {V : Bytes → Nat → Int} {a : BG} {as : List BG} (h : Tidy V (a :: as)) : Tidy V as where
  ne := fun o ho => h.ne o (List.mem_cons_of_mem _ ho)
  sorted := (List.pairwise_cons.mp h.sorted).2
  adj := fun i hi => by
    have := h.adj (i+1) (by simpa using hi)
    simpa using this
  val := fun o ho => h.val o (List.mem_cons_of_mem _ ho)
  maxi := fun i hi => by
    have := h.maxi (i+1) (by simpa using hi)
    simpa using this

theorem Tidy.head_le {V : Bytes → Nat → Int} {a : BG} {as : List BG} (h : Tidy V (a :: as)) :
    ∀ o ∈ as, cmpBytes a.chrom o.chrom ≠ .gt ∧ (a.chrom = o.chrom → a.start ≤ o.start) := by
  intro o ho
  have := (List.pairwise_cons.mp h.sorted).1 o ho
  exact ⟨C08.compare_chrom _ _ this, fun hc => C08.compare_start _ _ this hc⟩

/-- later records on the chromosome of the head begin at or after its end -/
theorem Tidy.head_sep {V : Bytes → Nat → Int} : ∀ {as : List BG} {a : BG}, Tidy V (a :: as) →
    ∀ o ∈ as, o.chrom = a.chrom → a.stop ≤ o.start
  | [], _, _ => fun o ho => by cases ho
  | a' :: rest, a, h => by
    intro o ho hc
    have h0 := h.adj 0 (by simp)
    simp only [List.getElem_cons_zero, List.getElem_cons_succ, Nat.zero_add] at h0
    rcases List.mem_cons.mp ho with rfl | ho'
    · rcases h0 with h0 | h0
      · exact absurd hc.symm h0
      · exact h0
    · have h1 := (h.head_le a' List.mem_cons_self).1
      have h2 := (h.tail.head_le o ho').1
      rw [hc] at h2
      have hca : a.chrom = a'.chrom := C08.cmpBytes_antisymm _ _ h1 h2
      have h3 := Tidy.head_sep h.tail o ho' (by rw [hc, hca])
      have h4 := h.ne a' (List.mem_cons_of_mem _ List.mem_cons_self)
      rcases h0 with h0 | h0
      · exact absurd hca h0
      · omega

theorem covered_cons (a : BG) (as : List BG) (c : Bytes) (p : Nat) :
    coveredByBG (a :: as) c p ↔ (a.chrom = c ∧ a.toRec.mem p) ∨ coveredByBG as c p := by
  unfold coveredByBG
  constructor
  · rintro ⟨b, hb, h⟩
    rcases List.mem_cons.mp hb with rfl | hb
    · exact Or.inl h
    · exact Or.inr ⟨b, hb, h⟩
  · rintro (h | ⟨b, hb, h⟩)
    · exact ⟨a, List.mem_cons_self, h⟩
    · exact ⟨b, List.mem_cons_of_mem _ hb, h⟩

theorem bg_mem_iff (o : BG) (p : Nat) : o.toRec.mem p ↔ o.start ≤ p ∧ p < o.stop := Iff.rfl

theorem Tidy.cov_tail {V : Bytes → Nat → Int} {a : BG} {as : List BG} (h : Tidy V (a :: as)) (c : Bytes) (p : Nat) :
    coveredByBG as c p ↔ coveredByBG (a :: as) c p ∧ ¬ (a.chrom = c ∧ a.toRec.mem p) := by
  rw [covered_cons]
  constructor
  · intro hc
    refine ⟨Or.inr hc, ?_⟩
    rintro ⟨h1, h2⟩
    obtain ⟨o, ho, ho1, ho2⟩ := hc
    have := h.head_sep o ho (by rw [ho1, h1])
    rw [bg_mem_iff] at h2 ho2
    omega
  · rintro ⟨h1 | h1, h2⟩
    · exact absurd h1 h2
    · exact h1

/-- the head of one list is not after the head of the other -/
theorem Tidy.heads_le {V : Bytes → Nat → Int} {a b : BG} {as bs : List BG}
    (ha : Tidy V (a :: as)) (hb : Tidy V (b :: bs))
    (hcov : ∀ c p, coveredByBG (a :: as) c p → coveredByBG (b :: bs) c p) :
    cmpBytes b.chrom a.chrom ≠ .gt ∧ (b.chrom = a.chrom → b.start ≤ a.start) := by
  have hane := ha.ne a List.mem_cons_self
  obtain ⟨o, ho, ho1, ho2⟩ := hcov a.chrom a.start
    ⟨a, List.mem_cons_self, rfl, (bg_mem_iff _ _).mpr ⟨Nat.le_refl _, hane⟩⟩
  rw [bg_mem_iff] at ho2
  rcases List.mem_cons.mp ho with rfl | ho'
  · rw [ho1]
    exact ⟨by rw [C08.cmpBytes_refl]; simp, fun _ => ho2.1⟩
  · have := hb.head_le o ho'
    rw [ho1] at this
    exact ⟨this.1, fun hc => by have := this.2 hc; omega⟩

theorem Tidy.stop_not_lt {V : Bytes → Nat → Int} {a b : BG} {as bs : List BG}
    (ha : Tidy V (a :: as)) (hb : Tidy V (b :: bs))
    (hcov : ∀ c p, coveredByBG (b :: bs) c p → coveredByBG (a :: as) c p)
    (hc : a.chrom = b.chrom) (hs : a.start = b.start) (hv : a.value = b.value) : ¬ a.stop < b.stop := by
  intro hlt
  have hane := ha.ne a List.mem_cons_self
  obtain ⟨o, ho, ho1, ho2⟩ := hcov b.chrom a.stop
    ⟨b, List.mem_cons_self, rfl, (bg_mem_iff _ _).mpr ⟨by omega, hlt⟩⟩
  rw [bg_mem_iff] at ho2
  rcases List.mem_cons.mp ho with rfl | ho'
  · omega
  · have hsep := ha.head_sep o ho' (by rw [ho1, hc])
    cases as with
    | nil => cases ho'
    | cons a' rest =>
      have h0 := ha.adj 0 (by simp)
      have hm := ha.maxi 0 (by simp)
      simp only [List.getElem_cons_zero, List.getElem_cons_succ, Nat.zero_add] at h0 hm
      have ha'ne := ha.ne a' (List.mem_cons_of_mem _ List.mem_cons_self)
      have h1 := (ha.head_le a' List.mem_cons_self).1
      -- `a'` lies on the chromosome of `a` and begins where `a` ends
      have key : a.chrom = a'.chrom ∧ a'.start ≤ o.start := by
        rcases List.mem_cons.mp ho' with rfl | ho''
        · exact ⟨by rw [ho1, hc], Nat.le_refl _⟩
        · have h2 := ha.tail.head_le o ho''
          have h2' := h2.1
          rw [ho1, ← hc] at h2'
          have hca : a.chrom = a'.chrom := C08.cmpBytes_antisymm _ _ h1 h2'
          exact ⟨hca, h2.2 (by rw [← hca, ho1, hc])⟩
      obtain ⟨hca, hle⟩ := key
      have hst : a.stop = a'.start := by
        rcases h0 with h0 | h0
        · exact absurd hca h0
        · omega
      have hv1 := ha.val a' (List.mem_cons_of_mem _ List.mem_cons_self) a'.start (Nat.le_refl _) ha'ne
      have hv2 := hb.val b List.mem_cons_self a.stop (by omega) hlt
      rw [← hca, hc, ← hst, ← hv2] at hv1
      exact hm hca hst (by rw [hv, hv1])

/-- two tidy lists with the same values covering the same positions are equal -/
theorem tidy_unique {V : Bytes → Nat → Int} : ∀ (L₁ L₂ : List BG), Tidy V L₁ → Tidy V L₂ →
    (∀ c p, coveredByBG L₁ c p ↔ coveredByBG L₂ c p) → L₁ = L₂
  | [], [], _, _, _ => rfl
  | [], b :: bs, _, h2, hcov => by
    have hb := h2.ne b List.mem_cons_self
    obtain ⟨o, ho, _⟩ := (hcov b.chrom b.start).mpr
      ⟨b, List.mem_cons_self, rfl, (bg_mem_iff _ _).mpr ⟨Nat.le_refl _, hb⟩⟩
    cases ho
  | a :: as, [], h1, _, hcov => by
    have ha := h1.ne a List.mem_cons_self
    obtain ⟨o, ho, _⟩ := (hcov a.chrom a.start).mp
      ⟨a, List.mem_cons_self, rfl, (bg_mem_iff _ _).mpr ⟨Nat.le_refl _, ha⟩⟩
    cases ho
  | a :: as, b :: bs, h1, h2, hcov => by
    have hab := Tidy.heads_le h1 h2 (fun c p => (hcov c p).mp)
    have hba := Tidy.heads_le h2 h1 (fun c p => (hcov c p).mpr)
    have hc : a.chrom = b.chrom := C08.cmpBytes_antisymm _ _ hba.1 hab.1
    have hs : a.start = b.start := by
      have := hab.2 hc.symm
      have := hba.2 hc
      omega
    have ha := h1.ne a List.mem_cons_self
    have hv : a.value = b.value := by
      rw [h1.val a List.mem_cons_self a.start (Nat.le_refl _) ha,
        h2.val b List.mem_cons_self a.start (by omega) (by have := h2.ne b List.mem_cons_self; omega), hc]
    have he : a.stop = b.stop := by
      have := Tidy.stop_not_lt h1 h2 (fun c p => (hcov c p).mpr) hc hs hv
      have := Tidy.stop_not_lt h2 h1 (fun c p => (hcov c p).mp) hc.symm hs.symm hv.symm
      omega
    have hab : a = b := by
      cases a; cases b; simp only at hc hs hv he; subst hc hs hv he; rfl
    subst hab
    rw [tidy_unique as bs h1.tail h2.tail]
    intro c p
    rw [h1.cov_tail, h2.cov_tail, hcov c p]

theorem BedgraphSpec.tidy {xs out : List BG} (h : BedgraphSpec xs out) : Tidy (sumAt xs) out where
  ne := h.1
  sorted := List.pairwise_map.mp h.2.1
  adj := h.2.2.1
  val := fun o ho p h1 h2 => h.2.2.2.2.1 o ho p ⟨h1, h2⟩
  maxi := h.2.2.2.2.2

/-- (1) UNIQUENESS: two outputs meeting the six clauses for the same input are equal -/
theorem bedgraphSpec_unique (xs out₁ out₂ : List BG) (h₁ : BedgraphSpec xs out₁) (h₂ : BedgraphSpec xs out₂) :
    out₁ = out₂ :=
  tidy_unique out₁ out₂ h₁.tidy h₂.tidy (fun c p => (h₁.2.2.2.1 c p).symm.trans (h₂.2.2.2.1 c p))

/-- for a sorted input of non-empty records, meeting the six clauses is being the model's output -/
theorem bedgraphSpec_iff_eq_model (xs out : List BG) (hs : SortedBGs xs) (hne : ∀ b ∈ xs, b.start < b.stop) :
    BedgraphSpec xs out ↔ mergeSortedBedgraph xs = .ok out := by
  obtain ⟨o, ho, hspec⟩ := C08_bedgraph xs hs hne
  constructor
  · intro h
    rw [ho, bedgraphSpec_unique xs out o h hspec]
  · intro h
    rw [ho] at h
    cases h
    exact hspec

/-! ## (2) The fast computation

Per chromosome the covered positions and the sums form a step function of the position that changes
at the endpoints only. It is coded as a function into `ℕ` (`0` = not covered, `1 + encZ v` = covered
with sum `v`), so that the sweep of `FastDepth` (`fuse_segs_spec`, proved for every step function)
yields its maximal run-length encoding. -/

/-- an injective coding of `ℤ` in `ℕ` -/
def encZ (v : Int) : Nat := if 0 ≤ v then 2 * v.toNat else 2 * (-v).toNat + 1
def decZ (n : Nat) : Int := if n % 2 = 0 then ((n / 2 : Nat) : Int) else -((n / 2 : Nat) : Int)

theorem decZ_encZ (v : Int) : decZ (encZ v) = v := by
  unfold decZ encZ
  split <;> split <;> omega

/-- the records of one chromosome as weighted intervals -/
def ivsOf (g : List BG) : List (Iv Int) := g.map (fun b => ⟨b.start, b.stop, b.value⟩)

/-- sum of the values of the intervals covering `p` -/
def wsum (l : List (Iv Int)) (p : Nat) : Int := ((l.filter (·.covers p)).map (·.val)).sum

/-- `0` where nothing covers `p`, else `1 +` the code of the sum at `p` -/
def lineF (l : List (Iv Int)) (p : Nat) : Nat := if depthOf l p = 0 then 0 else encZ (wsum l p) + 1

theorem wsum_step (l : List (Iv Int)) (p x : Nat) (hpx : p ≤ x)
    (h : ∀ e ∈ endpoints l, ¬ (p < e ∧ e ≤ x)) : wsum l x = wsum l p := by
  unfold wsum
  congr 2
  apply List.filter_congr
  intro iv hiv
  have h1 := h _ (start_mem_endpoints hiv)
  have h2 := h _ (stop_mem_endpoints hiv)
  rw [Bool.eq_iff_iff, fd_covers_iff, fd_covers_iff]
  omega

theorem lineF_step (l : List (Iv Int)) (p x : Nat) (hpx : p ≤ x)
    (h : ∀ e ∈ endpoints l, ¬ (p < e ∧ e ≤ x)) : lineF l x = lineF l p := by
  unfold lineF
  rw [depthOf_step l p x hpx h, wsum_step l p x hpx h]

theorem lineF_beyond (l : List (Iv Int)) (x : Nat) (h : ∀ e ∈ endpoints l, e ≤ x) : lineF l x = 0 := by
  unfold lineF
  rw [depthOf_beyond l x h]
  rfl

/-- what a positive value of `lineF` says -/
theorem lineF_pos {l : List (Iv Int)} {p v : Nat} (h : lineF l p = v) (hv : 0 < v) :
    0 < depthOf l p ∧ decZ (v - 1) = wsum l p ∧ v = encZ (decZ (v - 1)) + 1 := by
  unfold lineF at h
  split at h
  · omega
  · rename_i hd
    have hv1 : v - 1 = encZ (wsum l p) := by omega
    refine ⟨by omega, ?_, ?_⟩
    · rw [hv1, decZ_encZ]
    · rw [hv1, decZ_encZ]; omega

theorem lineF_pos_iff (l : List (Iv Int)) (p : Nat) : 0 < lineF l p ↔ 0 < depthOf l p := by
  unfold lineF
  split <;> omega

/-- the maximal run-length encoding of `lineF l`; the value at each breakpoint is computed directly
(`O(n)` each) -/
def lineRuns (l : List (Iv Int)) : List (Iv Nat) := fuseRuns (segsOf (lineF l) (depthBreaks l))

theorem lineRuns_spec (l : List (Iv Int)) : RLEFrom (lineF l) 0 (lineRuns l) := by
  apply fuse_segs_spec (lineF l) (endpoints l) (lineF_step l) (lineF_beyond l) _ 0 (depthBreaks_sorted l)
  intro e he _
  exact (List.mergeSort_perm _ _).mem_iff.mpr he

theorem RLEFrom.stop_ne {f : Nat → Nat} : ∀ {rs : List (Iv Nat)} {lo : Nat}, RLEFrom f lo rs →
    ∀ r ∈ rs, f r.stop ≠ r.val
  | [], _, _ => fun r hr => by cases hr
  | r0 :: rs, lo, h => by
    obtain ⟨_, _, _, _, _, h6, h7⟩ := h
    intro r hr
    rcases List.mem_cons.mp hr with rfl | hr
    · exact h6
    · exact RLEFrom.stop_ne h7 r hr

/-! ### The chromosomes -/

/-- put a record in front of the groups of the records after it -/
def pushChrom (x : BG) : List (Bytes × List BG) → List (Bytes × List BG)
  | [] => [(x.chrom, [x])]
  | (k, g) :: rest => if x.chrom = k then (k, x :: g) :: rest else (x.chrom, [x]) :: (k, g) :: rest

/-- the maximal runs of records of equal chromosome, in order (one pass, from the right) -/
def chromGroups (xs : List BG) : List (Bytes × List BG) := xs.foldr pushChrom []

/-- on a sorted input the runs are the chromosomes -/
structure GroupsOK (xs : List BG) (gs : List (Bytes × List BG)) : Prop where
  filt : ∀ kg ∈ gs, kg.2 = xs.filter (fun b => decide (b.chrom = kg.1))
  all : ∀ b ∈ xs, ∃ kg ∈ gs, kg.1 = b.chrom
  asc : gs.Pairwise (fun a b => cmpBytes a.1 b.1 = .lt)
  inh : ∀ kg ∈ gs, ∃ b ∈ xs, b.chrom = kg.1

theorem cmpBytes_lt_of {a b : Bytes} (h : cmpBytes a b ≠ .gt) (hne : a ≠ b) : cmpBytes a b = .lt := by
  cases e : cmpBytes a b with
  | lt => rfl
  | gt => exact absurd e h
  | eq => exact absurd (C08.cmpBytes_eq _ _ e) hne

theorem cmpBytes_ne_of_lt {a b : Bytes} (h : cmpBytes a b = .lt) : a ≠ b := by
  intro e
  rw [e, C08.cmpBytes_refl] at h
  cases h

theorem chromGroups_ok : ∀ (xs : List BG), xs.Pairwise (fun a b => Rec.compare a.toRec b.toRec ≠ .gt) →
    GroupsOK xs (chromGroups xs)
  | [], _ => ⟨fun _ h => (by cases h), fun _ h => (by cases h), List.Pairwise.nil, fun _ h => (by cases h)⟩
  | x :: t, hs => by
    have hp := List.pairwise_cons.mp hs
    have ih := chromGroups_ok t hp.2
    have hx : ∀ kg ∈ chromGroups t, cmpBytes x.chrom kg.1 ≠ .gt := by
      intro kg hkg
      obtain ⟨b, hb, hbc⟩ := ih.inh kg hkg
      rw [← hbc]
      exact C08.compare_chrom _ _ (hp.1 b hb)
    show GroupsOK (x :: t) (pushChrom x (chromGroups t))
    generalize chromGroups t = gs at ih hx
    cases gs with
    | nil =>
      have ht : t = [] := by
        cases t with
        | nil => rfl
        | cons b _ =>
          obtain ⟨kg, hkg, _⟩ := ih.all b List.mem_cons_self
          cases hkg
      subst ht
      refine ⟨?_, ?_, ?_, ?_⟩
      · intro kg hkg
        simp only [pushChrom, List.mem_singleton] at hkg
        subst hkg
        simp
      · intro b hb
        simp only [List.mem_singleton] at hb
        subst hb
        exact ⟨_, List.mem_cons_self, rfl⟩
      · simp [pushChrom]
      · intro kg hkg
        simp only [pushChrom, List.mem_singleton] at hkg
        subst hkg
        exact ⟨x, List.mem_cons_self, rfl⟩
    | cons kg0 rest =>
      obtain ⟨k, g⟩ := kg0
      have hasc := List.pairwise_cons.mp ih.asc
      simp only [pushChrom]
      split
      · rename_i hxk
        -- `x` joins the first group
        have hrest : ∀ kg ∈ rest, x.chrom ≠ kg.1 := fun kg hkg => by
          rw [hxk]; exact cmpBytes_ne_of_lt (hasc.1 kg hkg)
        refine ⟨?_, ?_, ?_, ?_⟩
        · intro kg hkg
          rcases List.mem_cons.mp hkg with rfl | hkg
          · have := ih.filt (k, g) List.mem_cons_self
            simp only at this ⊢
            rw [List.filter_cons_of_pos (by simpa using hxk), ← this]
          · rw [List.filter_cons_of_neg (by simpa using hrest kg hkg)]
            exact ih.filt kg (List.mem_cons_of_mem _ hkg)
        · intro b hb
          rcases List.mem_cons.mp hb with rfl | hb
          · exact ⟨_, List.mem_cons_self, hxk.symm⟩
          · obtain ⟨kg, hkg, e⟩ := ih.all b hb
            rcases List.mem_cons.mp hkg with rfl | hkg
            · exact ⟨_, List.mem_cons_self, e⟩
            · exact ⟨kg, List.mem_cons_of_mem _ hkg, e⟩
        · exact List.pairwise_cons.mpr ⟨hasc.1, hasc.2⟩
        · intro kg hkg
          rcases List.mem_cons.mp hkg with rfl | hkg
          · exact ⟨x, List.mem_cons_self, hxk⟩
          · obtain ⟨b, hb, e⟩ := ih.inh kg (List.mem_cons_of_mem _ hkg)
            exact ⟨b, List.mem_cons_of_mem _ hb, e⟩
      · rename_i hxk
        -- `x` opens a new group, before all the others
        have hlt : ∀ kg ∈ (k, g) :: rest, cmpBytes x.chrom kg.1 = .lt := by
          intro kg hkg
          apply cmpBytes_lt_of (hx kg hkg)
          rcases List.mem_cons.mp hkg with rfl | hkg'
          · exact hxk
          · intro e
            have h1 : cmpBytes k x.chrom = .lt := by rw [e]; exact hasc.1 kg hkg'
            have h2 := hx (k, g) List.mem_cons_self
            exact hxk (C08.cmpBytes_antisymm _ _ h2 (by rw [h1]; simp))
        refine ⟨?_, ?_, ?_, ?_⟩
        · intro kg hkg
          rcases List.mem_cons.mp hkg with rfl | hkg
          · simp only
            rw [List.filter_cons_of_pos (by simp), List.filter_eq_nil_iff.mpr]
            intro b hb
            obtain ⟨kg, hkg, e⟩ := ih.all b hb
            have := cmpBytes_ne_of_lt (hlt kg hkg)
            simp only [decide_eq_true_eq]
            rw [← e]
            exact fun h => this h.symm
          · rw [List.filter_cons_of_neg (by simpa using cmpBytes_ne_of_lt (hlt kg hkg))]
            exact ih.filt kg hkg
        · intro b hb
          rcases List.mem_cons.mp hb with rfl | hb
          · exact ⟨_, List.mem_cons_self, rfl⟩
          · obtain ⟨kg, hkg, e⟩ := ih.all b hb
            exact ⟨kg, List.mem_cons_of_mem _ hkg, e⟩
        · exact List.pairwise_cons.mpr ⟨hlt, ih.asc⟩
        · intro kg hkg
          rcases List.mem_cons.mp hkg with rfl | hkg
          · exact ⟨x, List.mem_cons_self, rfl⟩
          · obtain ⟨b, hb, e⟩ := ih.inh kg hkg
            exact ⟨b, List.mem_cons_of_mem _ hb, e⟩

/-! ### The output -/

def toBG (k : Bytes) (r : Iv Nat) : BG := ⟨k, r.start, r.stop, decZ (r.val - 1)⟩

/-- the output records of chromosome `k`, whose records are `g` -/
def chromOut (k : Bytes) (g : List BG) : List BG := (lineRuns (ivsOf g)).map (toBG k)

/-- THE output of `merge_sorted_bedgraph` on a sorted input: per chromosome, the maximal runs of
constant (coverage, sum) between the sorted endpoints. No position is enumerated. -/
def fastBedgraph (xs : List BG) : List BG := (chromGroups xs).flatMap (fun kg => chromOut kg.1 kg.2)

theorem depth_group (xs : List BG) (k : Bytes) (p : Nat) :
    0 < depthOf (ivsOf (xs.filter (fun b => decide (b.chrom = k)))) p ↔ coveredByBG xs k p := by
  unfold depthOf ivsOf coveredByBG
  rw [List.countP_map, List.countP_pos_iff]
  constructor
  · rintro ⟨b, hb, h⟩
    rw [List.mem_filter] at hb
    simp only [Function.comp, fd_covers_iff] at h
    exact ⟨b, hb.1, by simpa using hb.2, h⟩
  · rintro ⟨b, hb, hc, hm⟩
    refine ⟨b, List.mem_filter.mpr ⟨hb, by simpa using hc⟩, ?_⟩
    simp only [Function.comp, fd_covers_iff]
    exact hm

theorem wsum_group (xs : List BG) (k : Bytes) (p : Nat) :
    wsum (ivsOf (xs.filter (fun b => decide (b.chrom = k)))) p = sumAt xs k p := by
  unfold wsum ivsOf sumAt
  rw [List.filter_map, List.map_map, List.filter_filter]
  congr 1
  show List.map (fun b : BG => b.value) _ = _
  congr 1
  apply List.filter_congr
  intro b _
  rw [Bool.eq_iff_iff]
  simp only [Function.comp, Bool.and_eq_true, fd_covers_iff, decide_eq_true_eq, bg_mem_iff]
  constructor
  · exact fun ⟨h1, h2⟩ => ⟨h2, h1⟩
  · exact fun ⟨h1, h2⟩ => ⟨h2, h1⟩

theorem mem_fast {xs : List BG} {o : BG} (h : o ∈ fastBedgraph xs) :
    ∃ kg ∈ chromGroups xs, ∃ r ∈ lineRuns (ivsOf kg.2), toBG kg.1 r = o := by
  unfold fastBedgraph chromOut at h
  obtain ⟨kg, hkg, h⟩ := List.mem_flatMap.mp h
  obtain ⟨r, hr, e⟩ := List.mem_map.mp h
  exact ⟨kg, hkg, r, hr, e⟩

theorem run_facts (l : List (Iv Int)) (r : Iv Nat) (hr : r ∈ lineRuns l) :
    r.start < r.stop ∧ 0 < r.val ∧ (∀ p, r.start ≤ p → p < r.stop → lineF l p = r.val) ∧
      lineF l r.stop ≠ r.val := by
  obtain ⟨_, h2, h3, h4⟩ := (lineRuns_spec l).mem r hr
  exact ⟨h2, h3, h4, (lineRuns_spec l).stop_ne r hr⟩

/-- (2) `fastBedgraph` meets the six clauses for every sorted input (`hne` is not needed: empty and
inverted records cover nothing and add nothing) -/
theorem fastBedgraph_spec (xs : List BG) (hs : SortedBGs xs) (_hne : ∀ b ∈ xs, b.start < b.stop) :
    BedgraphSpec xs (fastBedgraph xs) := by
  have G := chromGroups_ok xs (List.pairwise_map.mp hs)
  have P : (fastBedgraph xs).Pairwise (fun a b =>
      Rec.compare a.toRec b.toRec ≠ .gt ∧ (a.chrom = b.chrom → a.stop ≤ b.start)) := by
    unfold fastBedgraph
    rw [List.pairwise_flatMap]
    constructor
    · intro kg _
      unfold chromOut
      rw [List.pairwise_map]
      apply List.Pairwise.imp_of_mem _ (lineRuns_spec _).pairwise
      intro a b ha _ hab
      have := (run_facts _ a ha).1
      refine ⟨?_, fun _ => hab⟩
      rw [C08.compare_lt_of_start (toBG kg.1 a).toRec (toBG kg.1 b).toRec rfl (by show a.start < b.start; omega)]
      decide
    · apply G.asc.imp
      intro kg kg' hlt x hx y hy
      unfold chromOut at hx hy
      obtain ⟨r, _, rfl⟩ := List.mem_map.mp hx
      obtain ⟨r', _, rfl⟩ := List.mem_map.mp hy
      have hne := cmpBytes_ne_of_lt hlt
      refine ⟨?_, fun h => absurd h hne⟩
      rw [C08.compare_lt_of_chrom (toBG kg.1 r).toRec (toBG kg'.1 r').toRec (by show cmpBytes kg.1 kg'.1 ≠ .gt; rw [hlt]; decide) hne]
      decide
  refine ⟨?_, ?_, ?_, ?_, ?_, ?_⟩
  · intro o ho
    obtain ⟨kg, _, r, hr, rfl⟩ := mem_fast ho
    exact (run_facts _ r hr).1
  · unfold SortedBGs
    rw [List.pairwise_map]
    exact P.imp (·.1)
  · intro i hi
    by_cases hc : (fastBedgraph xs)[i].chrom = (fastBedgraph xs)[i+1].chrom
    · exact Or.inr ((List.pairwise_iff_getElem.mp P i (i+1) (by omega) hi (by omega)).2 hc)
    · exact Or.inl hc
  · intro c p
    constructor
    · rintro ⟨b, hb, hc, hm⟩
      obtain ⟨kg, hkg, e⟩ := G.all b hb
      have hf := G.filt kg hkg
      have hcov : coveredByBG xs kg.1 p := ⟨b, hb, e.symm, hm⟩
      rw [← depth_group, ← hf, ← lineF_pos_iff, (lineRuns_spec _).tiles p (Nat.zero_le _)] at hcov
      obtain ⟨r, hr, hrc⟩ := hcov
      refine ⟨toBG kg.1 r, ?_, by rw [← hc, ← e]; rfl, ?_⟩
      · exact List.mem_flatMap.mpr ⟨kg, hkg, List.mem_map.mpr ⟨r, hr, rfl⟩⟩
      · exact (fd_covers_iff r p).mp hrc
    · rintro ⟨o, ho, hc, hm⟩
      obtain ⟨kg, hkg, r, hr, rfl⟩ := mem_fast ho
      have hf := G.filt kg hkg
      obtain ⟨_, hv, hin, _⟩ := run_facts _ r hr
      have hd := (lineF_pos (hin p hm.1 hm.2) hv).1
      rw [hf, depth_group] at hd
      exact hc ▸ hd
  · intro o ho p hm
    obtain ⟨kg, hkg, r, hr, rfl⟩ := mem_fast ho
    have hf := G.filt kg hkg
    obtain ⟨_, hv, hin, _⟩ := run_facts _ r hr
    have hd := (lineF_pos (hin p hm.1 hm.2) hv).2.1
    rw [hf, wsum_group] at hd
    exact hd
  · intro i hi hc hst hval
    obtain ⟨kg, hkg, r, hr, ea⟩ := mem_fast (List.getElem_mem (by omega : i < (fastBedgraph xs).length))
    obtain ⟨kg', hkg', r', hr', eb⟩ := mem_fast (List.getElem_mem hi)
    rw [← ea, ← eb] at hc hst hval
    have hk : kg.1 = kg'.1 := hc
    have hkk : kg = kg' := Prod.ext hk (by rw [G.filt kg hkg, G.filt kg' hkg', hk])
    subst hkk
    obtain ⟨hne, hv, hin, hstop⟩ := run_facts _ r hr
    obtain ⟨hne', hv', hin', _⟩ := run_facts _ r' hr'
    have hst' : r.stop = r'.start := hst
    have hval' : decZ (r.val - 1) = decZ (r'.val - 1) := hval
    have h1 := hin' r'.start (Nat.le_refl _) hne'
    have e1 := (lineF_pos (hin r.start (Nat.le_refl _) hne) hv).2.2
    have e2 := (lineF_pos h1 hv').2.2
    have : r.val = r'.val := e1.trans ((congrArg (fun z => encZ z + 1) hval').trans e2.symm)
    rw [hst', h1] at hstop
    exact hstop this.symm

/-- (3) whatever meets the six clauses IS `fastBedgraph xs` -/
theorem bedgraphSpec_iff_eq_fast (xs out : List BG) (hs : SortedBGs xs) (hne : ∀ b ∈ xs, b.start < b.stop) :
    BedgraphSpec xs out ↔ out = fastBedgraph xs :=
  ⟨fun h => bedgraphSpec_unique xs _ _ h (fastBedgraph_spec xs hs hne), fun h => h ▸ fastBedgraph_spec xs hs hne⟩

/-- the model's output is `fastBedgraph` -/
theorem mergeSortedBedgraph_eq_fast (xs : List BG) (hs : SortedBGs xs) (hne : ∀ b ∈ xs, b.start < b.stop) :
    mergeSortedBedgraph xs = .ok (fastBedgraph xs) :=
  (bedgraphSpec_iff_eq_model xs _ hs hne).mp (fastBedgraph_spec xs hs hne)

/-! ## (2') The `O(n log n)` computation: coverage and sum at the breakpoints as running totals -/

/-- sum of the weights of the events at positions `≤ p` -/
def wle (X : List (Nat × Int)) (p : Nat) : Int := C08.fsum (fun q => decide (q ≤ p)) X

theorem wle_cons (e : Nat × Int) (X : List (Nat × Int)) (p : Nat) :
    wle (e :: X) p = (if e.1 ≤ p then e.2 else 0) + wle X p := by
  unfold wle
  rw [C08.fsum_cons]
  simp only [decide_eq_true_eq]

/-- drop the leading events at positions `≤ p`, adding their weights to `n` -/
def dropLEW (p : Nat) : List (Nat × Int) → Int → List (Nat × Int) × Int
  | [], n => ([], n)
  | e :: X, n => if e.1 ≤ p then dropLEW p X (n + e.2) else (e :: X, n)

theorem dropLEW_sum (p : Nat) : ∀ (X : List (Nat × Int)) (n : Int) (x : Nat), p ≤ x →
    n + wle X x = (dropLEW p X n).2 + wle (dropLEW p X n).1 x
  | [], n, x, _ => rfl
  | e :: X, n, x, hpx => by
    unfold dropLEW
    split
    · rename_i he
      rw [← dropLEW_sum p X (n + e.2) x hpx, wle_cons, if_pos (by omega)]
      omega
    · rfl

theorem dropLEW_sorted (p : Nat) : ∀ (X : List (Nat × Int)) (n : Int), X.Pairwise (fun a b => a.1 ≤ b.1) →
    (dropLEW p X n).1.Pairwise (fun a b => a.1 ≤ b.1) ∧ wle (dropLEW p X n).1 p = 0
  | [], n, _ => ⟨List.Pairwise.nil, rfl⟩
  | e :: X, n, h => by
    have hp := List.pairwise_cons.mp h
    unfold dropLEW
    split
    · exact dropLEW_sorted p X (n + e.2) hp.2
    · rename_i he
      refine ⟨h, ?_⟩
      unfold wle C08.fsum
      rw [List.filter_eq_nil_iff.mpr]
      · rfl
      · intro y hy
        simp only [decide_eq_true_eq]
        rcases List.mem_cons.mp hy with rfl | hy
        · exact he
        · have := hp.1 y hy
          omega

/-- the segments between consecutive breakpoints with the value of `lineF`, by a single sweep: `S`,
`E`, `W` are the not yet consumed sorted starts, stops and weighted events, `nS`, `nE`, `w` the
numbers of starts and stops and the total weight already consumed -/
def sweepBG : List Nat → List Nat → List Nat → List (Nat × Int) → Nat → Nat → Int → List (Iv Nat)
  | p :: q :: ps, S, E, W, nS, nE, w =>
    let dS := dropLE p S nS
    let dE := dropLE p E nE
    let dW := dropLEW p W w
    ⟨p, q, if dS.2 - dE.2 = 0 then 0 else encZ dW.2 + 1⟩ :: sweepBG (q :: ps) dS.1 dE.1 dW.1 dS.2 dE.2 dW.2
  | [_], _, _, _, _, _, _ => []
  | [], _, _, _, _, _, _ => []

/-- the same, accumulating in reverse (tail recursive) -/
def sweepBGRev : List (Iv Nat) → List Nat → List Nat → List Nat → List (Nat × Int) → Nat → Nat → Int → List (Iv Nat)
  | acc, p :: q :: ps, S, E, W, nS, nE, w =>
    let dS := dropLE p S nS
    let dE := dropLE p E nE
    let dW := dropLEW p W w
    sweepBGRev (⟨p, q, if dS.2 - dE.2 = 0 then 0 else encZ dW.2 + 1⟩ :: acc) (q :: ps) dS.1 dE.1 dW.1 dS.2 dE.2 dW.2
  | acc, [_], _, _, _, _, _, _ => acc
  | acc, [], _, _, _, _, _, _ => acc

theorem sweepBGRev_eq : ∀ (bps : List Nat) (acc : List (Iv Nat)) (S E : List Nat) (W : List (Nat × Int))
    (nS nE : Nat) (w : Int),
    sweepBGRev acc bps S E W nS nE w = (sweepBG bps S E W nS nE w).reverse ++ acc
  | [], _, _, _, _, _, _, _ => rfl
  | [_], _, _, _, _, _, _, _ => rfl
  | p :: q :: ps, acc, S, E, W, nS, nE, w => by
    rw [sweepBGRev, sweepBG, sweepBGRev_eq (q :: ps)]
    simp

/-- the sweep computes the segments of any `f` given by the two counts and the weighted sum -/
theorem sweepBG_eq (f : Nat → Nat) (SF EF : List Nat) (WF : List (Nat × Int))
    (hf : ∀ p, f p = if cle SF p - cle EF p = 0 then 0 else encZ (wle WF p) + 1) :
    ∀ (t : List Nat) (a : Nat) (S E : List Nat) (W : List (Nat × Int)) (nS nE : Nat) (w : Int),
      (a :: t).Pairwise (· ≤ ·) →
      S.Pairwise (· ≤ ·) → E.Pairwise (· ≤ ·) → W.Pairwise (fun a b => a.1 ≤ b.1) →
      (∀ x, a ≤ x → cle SF x = nS + cle S x) → (∀ x, a ≤ x → cle EF x = nE + cle E x) →
      (∀ x, a ≤ x → wle WF x = w + wle W x) →
      sweepBG (a :: t) S E W nS nE w = segsOf f (a :: t)
  | [], a, _, _, _, _, _, _, _, _, _, _, _, _, _ => rfl
  | b :: t, a, S, E, W, nS, nE, w, hpw, hS, hE, hW, iS, iE, iW => by
    have hp := List.pairwise_cons.mp hpw
    have hab : a ≤ b := hp.1 b List.mem_cons_self
    obtain ⟨sS, zS⟩ := dropLE_sorted a S nS hS
    obtain ⟨sE, zE⟩ := dropLE_sorted a E nE hE
    obtain ⟨sW, zW⟩ := dropLEW_sorted a W w hW
    rw [sweepBG, segsOf_cons_cons]
    have hS2 : (dropLE a S nS).2 = cle SF a := by
      rw [iS a (Nat.le_refl _), dropLE_count a S nS a (Nat.le_refl _), zS]; rfl
    have hE2 : (dropLE a E nE).2 = cle EF a := by
      rw [iE a (Nat.le_refl _), dropLE_count a E nE a (Nat.le_refl _), zE]; rfl
    have hW2 : (dropLEW a W w).2 = wle WF a := by
      rw [iW a (Nat.le_refl _), dropLEW_sum a W w a (Nat.le_refl _), zW]; omega
    have hval : (if (dropLE a S nS).2 - (dropLE a E nE).2 = 0 then 0 else encZ (dropLEW a W w).2 + 1) = f a := by
      rw [hf a, hS2, hE2, hW2]
    simp only [hval]
    congr 1
    apply sweepBG_eq f SF EF WF hf t b _ _ _ _ _ _ hp.2 sS sE sW
    · intro x hx
      rw [iS x (by omega), dropLE_count a S nS x (by omega)]
    · intro x hx
      rw [iE x (by omega), dropLE_count a E nE x (by omega)]
    · intro x hx
      rw [iW x (by omega), dropLEW_sum a W w x (by omega)]

/-- the weighted events of a list of intervals: `+val` at the start, `−val` at the stop -/
def wevents (l : List (Iv Int)) : List (Nat × Int) := l.flatMap fun iv => [(iv.start, iv.val), (iv.stop, -iv.val)]

theorem wsum_cons (iv : Iv Int) (t : List (Iv Int)) (p : Nat) :
    wsum (iv :: t) p = (if iv.start ≤ p ∧ p < iv.stop then iv.val else 0) + wsum t p := by
  unfold wsum
  by_cases h : iv.start ≤ p ∧ p < iv.stop
  · rw [List.filter_cons_of_pos (a := iv) (by simpa [fd_covers_iff] using h), if_pos h]
    simp
  · rw [List.filter_cons_of_neg (a := iv) (by simpa [fd_covers_iff] using h), if_neg h]
    simp

/-- sum at `p` = (weights of the starts `≤ p`) − (weights of the stops `≤ p`), for intervals with
`start ≤ stop` -/
theorem wsum_eq_events (l : List (Iv Int)) (hl : ∀ iv ∈ l, iv.start ≤ iv.stop) (p : Nat) :
    wsum l p = wle (wevents l) p := by
  induction l with
  | nil => rfl
  | cons iv t ih =>
    have ih' := ih (fun x hx => hl x (List.mem_cons_of_mem _ hx))
    have hiv := hl iv List.mem_cons_self
    show _ = wle ((iv.start, iv.val) :: (iv.stop, -iv.val) :: wevents t) p
    rw [wsum_cons, wle_cons, wle_cons, ih']
    simp only
    by_cases h1 : iv.start ≤ p
    · rcases Nat.lt_or_ge p iv.stop with h2 | h2
      · rw [if_pos ⟨h1, h2⟩, if_pos h1, if_neg (by omega)]; omega
      · rw [if_neg (by omega), if_pos h1, if_pos h2]; omega
    · rw [if_neg (by omega), if_neg h1, if_neg (by omega)]; omega

theorem sorted_mergeSort_ev (X : List (Nat × Int)) :
    (X.mergeSort (fun a b => decide (a.1 ≤ b.1))).Pairwise (fun a b => a.1 ≤ b.1) := by
  have := List.pairwise_mergeSort (le := fun (a b : Nat × Int) => decide (a.1 ≤ b.1))
    (fun a b c hab hbc => by simp only [decide_eq_true_eq] at *; omega)
    (fun a b => by simp only [Bool.or_eq_true, decide_eq_true_eq]; omega) X
  exact this.imp (fun hab => by simpa using hab)

theorem wle_mergeSort (X : List (Nat × Int)) (p : Nat) :
    wle (X.mergeSort (fun a b => decide (a.1 ≤ b.1))) p = wle X p :=
  C08.fsum_perm _ (List.mergeSort_perm X _)

/-- the runs of one line in `O(n log n)`: four merge sorts (endpoints, starts, stops, weighted
events), one linear sweep giving coverage and sum at every breakpoint as running totals, one linear
fusing pass. Empty and inverted intervals are dropped first (they cover nothing). -/
def lineRuns' (l : List (Iv Int)) : List (Iv Nat) :=
  let l' := l.filter (fun iv => iv.start < iv.stop)
  let S := (l'.map (·.start)).mergeSort (fun a b => decide (a ≤ b))
  let E := (l'.map (·.stop)).mergeSort (fun a b => decide (a ≤ b))
  let W := (wevents l').mergeSort (fun a b => decide (a.1 ≤ b.1))
  (sweepBGRev [] (depthBreaks l') S E W 0 0 0).foldl (fun acc r => pushRun r acc) []

theorem wsum_filter_nonempty (l : List (Iv Int)) (p : Nat) :
    wsum (l.filter (fun iv => iv.start < iv.stop)) p = wsum l p := by
  unfold wsum
  rw [List.filter_filter]
  congr 2
  apply List.filter_congr
  intro iv _
  rw [Bool.eq_iff_iff]
  simp only [Iv.covers, Bool.and_eq_true, decide_eq_true_eq]
  omega

theorem lineRuns'_eq_filter (l : List (Iv Int)) :
    lineRuns' l = lineRuns (l.filter (fun iv => iv.start < iv.stop)) := by
  unfold lineRuns' lineRuns
  simp only
  generalize hl' : l.filter (fun iv => iv.start < iv.stop) = l'
  have hne : ∀ iv ∈ l', iv.start ≤ iv.stop := by
    intro iv hiv
    rw [← hl', List.mem_filter] at hiv
    have := hiv.2
    simp only [decide_eq_true_eq] at this
    omega
  rw [sweepBGRev_eq, List.append_nil, List.foldl_reverse]
  show fuseRuns _ = _
  congr 1
  apply sweepBG_eq (lineF l') _ _ _ _ _ 0 _ _ _ 0 0 0 (depthBreaks_sorted l')
    (sorted_mergeSort_nat _) (sorted_mergeSort_nat _) (sorted_mergeSort_ev _)
    (fun x _ => (Nat.zero_add _).symm) (fun x _ => (Nat.zero_add _).symm) (fun x _ => (Int.zero_add _).symm)
  intro p
  rw [cle_mergeSort, cle_mergeSort, wle_mergeSort, depthOf_eq_counts l' hne p, ← wsum_eq_events l' hne p]
  unfold lineF
  congr 1
  rw [Nat.add_sub_cancel]

/-- the `O(n log n)` runs are the runs -/
theorem lineRuns'_eq (l : List (Iv Int)) : lineRuns' l = lineRuns l := by
  rw [lineRuns'_eq_filter]
  have h := lineRuns_spec (l.filter (fun iv => iv.start < iv.stop))
  have hf : lineF (l.filter (fun iv => iv.start < iv.stop)) = lineF l := by
    funext p
    unfold lineF
    rw [depthOf_filter_nonempty, wsum_filter_nonempty]
  rw [hf] at h
  exact h.unique (lineRuns_spec l)

/-- THE output of `merge_sorted_bedgraph` on a sorted input in `O(n log n)` -/
def fastBedgraph' (xs : List BG) : List BG :=
  (chromGroups xs).flatMap (fun kg => (lineRuns' (ivsOf kg.2)).map (toBG kg.1))

theorem fastBedgraph'_eq (xs : List BG) : fastBedgraph' xs = fastBedgraph xs := by
  unfold fastBedgraph' fastBedgraph chromOut
  simp only [lineRuns'_eq]

theorem fastBedgraph'_spec (xs : List BG) (hs : SortedBGs xs) (hne : ∀ b ∈ xs, b.start < b.stop) :
    BedgraphSpec xs (fastBedgraph' xs) := by
  rw [fastBedgraph'_eq]; exact fastBedgraph_spec xs hs hne

/-- (3') whatever meets the six clauses IS `fastBedgraph' xs` -/
theorem bedgraphSpec_iff_eq_fast' (xs out : List BG) (hs : SortedBGs xs) (hne : ∀ b ∈ xs, b.start < b.stop) :
    BedgraphSpec xs out ↔ out = fastBedgraph' xs := by
  rw [fastBedgraph'_eq]; exact bedgraphSpec_iff_eq_fast xs out hs hne

/-! ## Non-vacuity checks

`decide` cannot evaluate `List.mergeSort`, so the values are obtained through the theorems: the model
is evaluated by the kernel and `mergeSortedBedgraph_eq_fast` transfers the value. The compiled
definitions give the same values (`#guard`). -/

theorem fast_of_model {xs out : List BG} (hs : SortedBGs xs) (hne : ∀ b ∈ xs, b.start < b.stop)
    (h : mergeSortedBedgraph xs = .ok out) : fastBedgraph' xs = out := by
  rw [fastBedgraph'_eq]
  have := (mergeSortedBedgraph_eq_fast xs hs hne).symm.trans h
  cases this
  rfl

/-- a covered stretch of sum 0 IS an output record -/
example : fastBedgraph' [⟨[], 0, 10, 1⟩, ⟨[], 0, 10, -1⟩] = [⟨[], 0, 10, 0⟩] :=
  fast_of_model (by unfold SortedBGs; decide) (by decide) (by decide +kernel)
example : fastBedgraph' [⟨[], 0, 10, -2⟩, ⟨[], 0, 12, 3⟩] = [⟨[], 0, 10, 1⟩, ⟨[], 10, 12, 3⟩] :=
  fast_of_model (by unfold SortedBGs; decide) (by decide) (by decide +kernel)
/-- two chromosomes, a gap, touching runs of equal sum fused, a run of sum 0 between two others -/
example : fastBedgraph' [⟨[1], 0, 5, 2⟩, ⟨[1], 5, 9, 2⟩, ⟨[1], 20, 30, 4⟩, ⟨[1], 22, 25, -4⟩, ⟨[2], 3, 4, 7⟩]
    = [⟨[1], 0, 9, 2⟩, ⟨[1], 20, 22, 4⟩, ⟨[1], 22, 25, 0⟩, ⟨[1], 25, 30, 4⟩, ⟨[2], 3, 4, 7⟩] :=
  fast_of_model (by unfold SortedBGs; decide) (by decide) (by decide +kernel)

#guard fastBedgraph' [⟨[], 0, 10, 1⟩, ⟨[], 0, 10, -1⟩] = [⟨[], 0, 10, 0⟩]
#guard fastBedgraph [⟨[], 0, 10, 1⟩, ⟨[], 0, 10, -1⟩] = [⟨[], 0, 10, 0⟩]
#guard fastBedgraph' [⟨[1], 0, 5, 2⟩, ⟨[1], 5, 9, 2⟩, ⟨[1], 20, 30, 4⟩, ⟨[1], 22, 25, -4⟩, ⟨[2], 3, 4, 7⟩]
    = [⟨[1], 0, 9, 2⟩, ⟨[1], 20, 22, 4⟩, ⟨[1], 22, 25, 0⟩, ⟨[1], 25, 30, 4⟩, ⟨[2], 3, 4, 7⟩]
#guard fastBedgraph [⟨[1], 0, 5, 2⟩, ⟨[1], 5, 9, 2⟩, ⟨[1], 20, 30, 4⟩, ⟨[1], 22, 25, -4⟩, ⟨[2], 3, 4, 7⟩]
    = [⟨[1], 0, 9, 2⟩, ⟨[1], 20, 22, 4⟩, ⟨[1], 22, 25, 0⟩, ⟨[1], 25, 30, 4⟩, ⟨[2], 3, 4, 7⟩]
#guard mergeSortedBedgraph [⟨[1], 0, 5, 2⟩, ⟨[1], 5, 9, 2⟩, ⟨[1], 20, 30, 4⟩, ⟨[1], 22, 25, -4⟩, ⟨[2], 3, 4, 7⟩]
    = .ok (fastBedgraph' [⟨[1], 0, 5, 2⟩, ⟨[1], 5, 9, 2⟩, ⟨[1], 20, 30, 4⟩, ⟨[1], 22, 25, -4⟩, ⟨[2], 3, 4, 7⟩])

#print axioms bedgraphSpec_unique
#print axioms bedgraphSpec_iff_eq_model
#print axioms tidy_unique
#print axioms chromGroups_ok
#print axioms lineRuns_spec
#print axioms fastBedgraph_spec
#print axioms bedgraphSpec_iff_eq_fast
#print axioms mergeSortedBedgraph_eq_fast
#print axioms sweepBG_eq
#print axioms lineRuns'_eq
#print axioms fastBedgraph'_eq
#print axioms fastBedgraph'_spec
#print axioms bedgraphSpec_iff_eq_fast'
end BV
