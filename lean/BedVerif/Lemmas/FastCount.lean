import BedVerif.Lemmas.FastCover
import BedVerif.Lemmas.C19Count
/-!
Fast (O(n log n)) evaluation of the specification-level counts `coveredCount`, `unionCount`,
`interCount`, proved equal to them for every input (empty and inverted intervals included).
-/
namespace BV
variable {α : Type}

/-- total length of a cover -/
def coverLen (c : List (Nat × Nat)) : Nat := (c.map (fun x => x.2 - x.1)).sum

/-- number of covered positions in O(n log n) -/
def fastCov (l : List (Iv α)) : Nat := coverLen (fastCover l)

def fastUnion {β : Type} (a : List (Iv α)) (b : List (Iv β)) : Nat :=
  fastCov ((a.map fun i => (⟨i.start, i.stop, ()⟩ : Iv Unit)) ++ (b.map fun i => (⟨i.start, i.stop, ()⟩ : Iv Unit)))

def fastInter {β : Type} (a : List (Iv α)) (b : List (Iv β)) : Nat := fastCov a + fastCov b - fastUnion a b

/-- the covered positions of a canonical list below any bound above all stops: the sum of the lengths -/
theorem cnt_canonical (L : List (Iv α)) (hc : Canonical L) (N : Nat) (hN : ∀ iv ∈ L, iv.stop ≤ N) :
    cnt (coveredB L) N = (L.map (fun i => i.stop - i.start)).sum := by
  induction L with
  | nil =>
    rw [cnt_congr (g := fun _ => false) (fun p _ => coveredB_nil p), cnt_false]; rfl
  | cons iv t ih =>
    have hp := List.pairwise_cons.mp hc.2
    have ht : Canonical t := ⟨fun x hx => hc.1 x (List.mem_cons_of_mem _ hx), hp.2⟩
    have ih' := ih ht (fun x hx => hN x (List.mem_cons_of_mem _ hx))
    have hivN := hN iv (by simp)
    have h1 : cnt (coveredB (iv :: t)) N
        = cnt (fun p => (decide (iv.start ≤ p) && decide (p < iv.stop)) || coveredB t p) N := by
      apply cnt_congr
      intro p _
      rw [coveredB_cons]; rfl
    rw [h1, cnt_or_disj (fun p => decide (iv.start ≤ p) && decide (p < iv.stop)) (coveredB t) N, cnt_interval, ih']
    · simp only [List.map_cons, List.sum_cons]
      omega
    · intro p _ hpm
      cases hcv : coveredB t p
      · rfl
      · rw [coveredB_iff] at hcv
        obtain ⟨x, hx, hcx⟩ := hcv
        have := hp.1 x hx
        simp [Iv.covers] at hcx hpm
        omega

theorem coveredCount_canonical (L : List (Iv α)) (hc : Canonical L) :
    coveredCount L = (L.map (fun i => i.stop - i.start)).sum := by
  rw [coveredCount_eq_cnt L (maxStop L) (Nat.le_refl _)]
  exact cnt_canonical L hc (maxStop L) (stop_le_maxStop L)

theorem coverLen_canonicalCover (l : List (Iv α)) : coverLen (canonicalCover l) = coveredCount l := by
  have h := C18h.canonicalCover_spec l
  rw [← coveredCount_congr h.2, coveredCount_canonical _ h.1]
  unfold coverLen
  rw [List.map_map]
  rfl

theorem fastCov_eq_coveredCount (l : List (Iv α)) : fastCov l = coveredCount l := by
  unfold fastCov
  rw [fastCover_eq_canonicalCover, coverLen_canonicalCover]

theorem covered_strip (a : List (Iv α)) (p : Nat) :
    covered (a.map fun i => (⟨i.start, i.stop, ()⟩ : Iv Unit)) p ↔ covered a p := by
  unfold covered
  constructor
  · rintro ⟨iv, hiv, hcv⟩
    obtain ⟨x, hx, rfl⟩ := List.mem_map.mp hiv
    exact ⟨x, hx, hcv⟩
  · rintro ⟨x, hx, hcv⟩
    exact ⟨_, List.mem_map.mpr ⟨x, hx, rfl⟩, hcv⟩

theorem fastUnion_eq_unionCount {β : Type} (a : List (Iv α)) (b : List (Iv β)) : fastUnion a b = unionCount a b := by
  unfold fastUnion
  rw [fastCov_eq_coveredCount]
  generalize ha' : (a.map fun i => (⟨i.start, i.stop, ()⟩ : Iv Unit)) = a'
  generalize hb' : (b.map fun i => (⟨i.start, i.stop, ()⟩ : Iv Unit)) = b'
  have hca : ∀ p, covered a' p ↔ covered a p := by subst ha'; exact covered_strip a
  have hcb : ∀ p, covered b' p ↔ covered b p := by subst hb'; exact covered_strip b
  rw [← unionCount_congr hca hcb]
  let N := max (maxStop (a' ++ b')) (max (maxStop a') (maxStop b'))
  rw [coveredCount_eq_cnt _ N (by omega), unionCount_eq_cnt a' b' N (by omega) (by omega)]
  exact cnt_congr (fun p _ => coveredB_append a' b' p)

theorem fastInter_eq_interCount {β : Type} (a : List (Iv α)) (b : List (Iv β)) : fastInter a b = interCount a b := by
  unfold fastInter
  rw [fastUnion_eq_unionCount, fastCov_eq_coveredCount, fastCov_eq_coveredCount]
  have hN1 : maxStop a ≤ max (maxStop a) (maxStop b) := by omega
  have hN2 : maxStop b ≤ max (maxStop a) (maxStop b) := by omega
  rw [unionCount_eq_cnt a b _ hN1 hN2, interCount_eq_cnt a b _ hN1 hN2,
      coveredCount_eq_cnt a _ hN1, coveredCount_eq_cnt b _ hN2]
  have := cnt_or_and (coveredB a) (coveredB b) (max (maxStop a) (maxStop b))
  omega

#print axioms fastCov_eq_coveredCount
#print axioms fastUnion_eq_unionCount
#print axioms fastInter_eq_interCount

end BV
