import BedVerif.Props.C18
/-!
A fast (O(n log n)) evaluation of the specification-level `canonicalCover`, proved equal to it for
every input list: drop the empty intervals, sort by start (core `List.mergeSort`), run the linear
merge loop `mergeList`.
-/
namespace BV
variable {α : Type}

/-- canonical cover in O(n log n): drop the empty intervals, sort by start with the core merge sort, run the linear merge loop -/
def fastCover (l : List (Iv α)) : List (Nat × Nat) :=
  (mergeList ((l.filter (fun iv => iv.start < iv.stop)).mergeSort (fun a b => a.start ≤ b.start))).map (fun i => (i.start, i.stop))

/-- `canonicalCover` depends only on the set of covered positions (the lists may even carry
different value types) -/
theorem canonicalCover_congr {β : Type} (l : List (Iv α)) (l' : List (Iv β))
    (h : ∀ p, covered l p ↔ covered l' p) : canonicalCover l = canonicalCover l' := by
  have h1 := C18h.canonicalCover_spec l
  have h2 := C18h.canonicalCover_spec l'
  have u := C18h.canonical_unique _ _ h1.1 h2.1 (fun p => (h1.2 p).trans ((h p).trans (h2.2 p).symm))
  rwa [C18h.map_toIv, C18h.map_toIv] at u

/-- the filtered and sorted list: sorted by start, all intervals non-empty, same covered positions -/
theorem fastCover_prep (l : List (Iv α)) :
    let l' := (l.filter (fun iv => iv.start < iv.stop)).mergeSort (fun a b => a.start ≤ b.start)
    SortedStart l' ∧ (∀ iv ∈ l', iv.start < iv.stop) ∧ ∀ p, covered l' p ↔ covered l p := by
  intro l'
  have hperm : l'.Perm (l.filter (fun iv => iv.start < iv.stop)) := List.mergeSort_perm _ _
  have hmem : ∀ iv, iv ∈ l' ↔ iv ∈ l ∧ iv.start < iv.stop := by
    intro iv
    rw [hperm.mem_iff, List.mem_filter]
    simp
  refine ⟨?_, fun iv hiv => ((hmem iv).mp hiv).2, ?_⟩
  · have := List.pairwise_mergeSort (le := fun (a b : Iv α) => decide (a.start ≤ b.start))
      (fun a b c hab hbc => by simp only [decide_eq_true_eq] at *; omega)
      (fun a b => by simp only [Bool.or_eq_true, decide_eq_true_eq]; omega)
      (l.filter (fun iv => iv.start < iv.stop))
    unfold SortedStart
    refine this.imp ?_
    intro a b hab
    simpa using hab
  · intro p
    constructor
    · rintro ⟨iv, hiv, hc⟩
      exact ⟨iv, ((hmem iv).mp hiv).1, hc⟩
    · rintro ⟨iv, hiv, hc⟩
      refine ⟨iv, (hmem iv).mpr ⟨hiv, ?_⟩, hc⟩
      simp only [Iv.covers, Bool.and_eq_true, decide_eq_true_eq] at hc
      omega

/-- `fastCover` computes the specification-level canonical cover of EVERY list (unsorted, with empty
intervals, with `start > stop`) -/
theorem fastCover_eq_canonicalCover (l : List (Iv α)) : fastCover l = canonicalCover l := by
  obtain ⟨hs, hne, hc⟩ := fastCover_prep l
  unfold fastCover
  rw [C18_merge_eq_canonicalCover _ hs hne]
  exact canonicalCover_congr _ _ hc

/-! Non-vacuity checks. `decide` cannot evaluate `List.mergeSort` (well-founded recursion does not
reduce in the kernel), so the value of `fastCover` on an unsorted list with an empty and a reversed
interval is obtained through the theorem, the specification side being evaluated by the kernel; the
linear merge loop is evaluated directly on the filtered, sorted list. -/
example : fastCover [(⟨5, 9, ()⟩ : Iv Unit), ⟨1, 3, ()⟩, ⟨3, 4, ()⟩, ⟨7, 7, ()⟩, ⟨20, 2, ()⟩] = [(1, 4), (5, 9)] := by
  rw [fastCover_eq_canonicalCover]; decide

example : canonicalCover [(⟨5, 9, ()⟩ : Iv Unit), ⟨1, 3, ()⟩, ⟨3, 4, ()⟩, ⟨7, 7, ()⟩, ⟨20, 2, ()⟩] = [(1, 4), (5, 9)] := by decide

example : (mergeList [(⟨1, 3, ()⟩ : Iv Unit), ⟨3, 4, ()⟩, ⟨5, 9, ()⟩]).map (fun i => (i.start, i.stop)) = [(1, 4), (5, 9)] := by decide

#print axioms fastCover_eq_canonicalCover
end BV
