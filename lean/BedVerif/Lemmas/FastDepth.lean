import BedVerif.Props.C20
/-!
The maximal run-length encoding of the pointwise depth (`IsDepthRLE`, the specification of C20):

* it is UNIQUE (`isDepthRLE_unique`): comparing an output for equality with one run list that meets
  the specification is exactly the specification;
* `fastDepth` computes it without enumerating positions, for EVERY list (`fastDepth_spec`); the depth
  at each breakpoint is counted directly (`O(n²)`);
* `fastDepth'` is the `O(n log n)` form (running count over the sorted starts and stops), proved equal
  to `fastDepth` (`fastDepth'_eq`), hence `IsDepthRLE l runs ↔ runs = fastDepth' l`.

Both go through `RLEFrom f lo runs`, a recursive reformulation of the specification ("`runs` is the
maximal run-length encoding of `f` over the positions `≥ lo`") which is equivalent to the five
clauses of `IsDepthRLE` (`rleFrom_of_clauses`, `isDepthRLE_of_rleFrom`).
-/
namespace BV
variable {α : Type}

/-! ## The recursive form of the specification -/

/-- `runs` is the maximal run-length encoding of the positive values of `f` over the positions `≥ lo` -/
def RLEFrom (f : Nat → Nat) : Nat → List (Iv Nat) → Prop
  | lo, [] => ∀ p, lo ≤ p → f p = 0
  | lo, r :: rs =>
      lo ≤ r.start ∧ r.start < r.stop ∧ 0 < r.val ∧
      (∀ p, lo ≤ p → p < r.start → f p = 0) ∧
      (∀ p, r.start ≤ p → p < r.stop → f p = r.val) ∧
      f r.stop ≠ r.val ∧ RLEFrom f r.stop rs

theorem fd_covers_iff {β : Type} (r : Iv β) (p : Nat) : r.covers p = true ↔ r.start ≤ p ∧ p < r.stop := by
  simp only [Iv.covers, Bool.and_eq_true, decide_eq_true_eq]

/-- every run of an `RLEFrom f lo` list starts at or after `lo`, is non-empty, carries a positive
value, and `f` takes that value inside it -/
theorem RLEFrom.mem {f : Nat → Nat} : ∀ {rs : List (Iv Nat)} {lo : Nat}, RLEFrom f lo rs →
    ∀ r ∈ rs, lo ≤ r.start ∧ r.start < r.stop ∧ 0 < r.val ∧ ∀ p, r.start ≤ p → p < r.stop → f p = r.val
  | [], _, _ => fun r hr => by cases hr
  | r0 :: rs, lo, h => by
    obtain ⟨h1, h2, h3, _, h5, _, h7⟩ := h
    intro r hr
    rcases List.mem_cons.mp hr with rfl | hr
    · exact ⟨h1, h2, h3, h5⟩
    · obtain ⟨i1, i2, i3, i4⟩ := RLEFrom.mem h7 r hr
      exact ⟨by omega, i2, i3, i4⟩

theorem RLEFrom.pairwise {f : Nat → Nat} : ∀ {rs : List (Iv Nat)} {lo : Nat}, RLEFrom f lo rs →
    rs.Pairwise (fun a b => a.stop ≤ b.start)
  | [], _, _ => List.Pairwise.nil
  | _ :: _, _, h => by
    obtain ⟨_, _, _, _, _, _, h7⟩ := h
    exact List.pairwise_cons.mpr ⟨fun b hb => (RLEFrom.mem h7 b hb).1, RLEFrom.pairwise h7⟩

theorem RLEFrom.tiles {f : Nat → Nat} : ∀ {rs : List (Iv Nat)} {lo : Nat}, RLEFrom f lo rs →
    ∀ p, lo ≤ p → (0 < f p ↔ ∃ r ∈ rs, r.covers p = true)
  | [], lo, h => fun p hp => by
    have : f p = 0 := h p hp
    simp [this]
  | r0 :: rs, lo, h => by
    obtain ⟨h1, h2, h3, h4, h5, _, h7⟩ := h
    intro p hp
    by_cases hlt : p < r0.start
    · have : f p = 0 := h4 p hp hlt
      constructor
      · intro h0; omega
      · rintro ⟨r, hr, hc⟩
        rw [fd_covers_iff] at hc
        rcases List.mem_cons.mp hr with rfl | hr
        · omega
        · have := (RLEFrom.mem h7 r hr).1; omega
    · by_cases hin : p < r0.stop
      · have : f p = r0.val := h5 p (by omega) hin
        constructor
        · intro _; exact ⟨r0, List.mem_cons_self, (fd_covers_iff _ _).mpr ⟨by omega, hin⟩⟩
        · intro _; omega
      · rw [RLEFrom.tiles h7 p (by omega)]
        constructor
        · rintro ⟨r, hr, hc⟩; exact ⟨r, List.mem_cons_of_mem _ hr, hc⟩
        · rintro ⟨r, hr, hc⟩
          rcases List.mem_cons.mp hr with rfl | hr
          · rw [fd_covers_iff] at hc; omega
          · exact ⟨r, hr, hc⟩

theorem RLEFrom.maximal {f : Nat → Nat} : ∀ {rs : List (Iv Nat)} {lo : Nat}, RLEFrom f lo rs →
    ∀ i (h : i + 1 < rs.length), rs[i].stop = rs[i+1].start → rs[i].val ≠ rs[i+1].val
  | [], _, _ => fun i h => by simp at h
  | [_], _, _ => fun i h => by simp at h
  | r0 :: r1 :: rs, lo, h => by
    obtain ⟨_, _, _, _, _, h6, h7⟩ := h
    intro i hi
    cases i with
    | zero =>
      intro heq hval
      simp only [List.getElem_cons_zero, List.getElem_cons_succ] at heq hval
      obtain ⟨_, k2, _, _, k5, _, _⟩ := h7
      have := k5 r0.stop (by omega) (by omega)
      omega
    | succ j =>
      simp only [List.getElem_cons_succ]
      exact RLEFrom.maximal h7 j (by simpa using hi)

/-- the five clauses of the specification (relative to `lo`) give the recursive form -/
theorem rleFrom_of_clauses (f : Nat → Nat) : ∀ (rs : List (Iv Nat)) (lo : Nat),
    (∀ r ∈ rs, r.start < r.stop) →
    rs.Pairwise (fun a b => a.stop ≤ b.start) →
    (∀ r ∈ rs, ∀ p, r.covers p = true → f p = r.val ∧ 0 < r.val) →
    (∀ p, lo ≤ p → (0 < f p ↔ ∃ r ∈ rs, r.covers p = true)) →
    (∀ r ∈ rs, lo ≤ r.start) →
    (∀ i (h : i + 1 < rs.length), rs[i].stop = rs[i+1].start → rs[i].val ≠ rs[i+1].val) →
    RLEFrom f lo rs
  | [], lo, _, _, _, h4, _, _ => by
    intro p hp
    have := h4 p hp
    simp at this
    exact this
  | r0 :: rs, lo, h1, h2, h3, h4, h5, h6 => by
    have hne := h1 r0 List.mem_cons_self
    have hlo := h5 r0 List.mem_cons_self
    have hpw := List.pairwise_cons.mp h2
    have hv := h3 r0 List.mem_cons_self
    refine ⟨hlo, hne, (hv r0.start ((fd_covers_iff _ _).mpr ⟨Nat.le_refl _, hne⟩)).2, ?_,
      fun p hp1 hp2 => (hv p ((fd_covers_iff _ _).mpr ⟨hp1, hp2⟩)).1, ?_, ?_⟩
    · intro p hp hlt
      have := h4 p hp
      cases hfp : f p with
      | zero => rfl
      | succ n =>
        obtain ⟨r, hr, hc⟩ := this.mp (by omega)
        rw [fd_covers_iff] at hc
        rcases List.mem_cons.mp hr with rfl | hr
        · omega
        · have := hpw.1 r hr; omega
    · intro hfs
      have hpos : 0 < f r0.stop := by
        have := (hv r0.start ((fd_covers_iff _ _).mpr ⟨Nat.le_refl _, hne⟩)).2
        omega
      obtain ⟨r, hr, hc⟩ := (h4 r0.stop (by omega)).mp hpos
      rw [fd_covers_iff] at hc
      rcases List.mem_cons.mp hr with rfl | hr
      · omega
      · cases rs with
        | nil => cases hr
        | cons r1 rs' =>
          have h01 := hpw.1 r1 List.mem_cons_self
          rcases List.mem_cons.mp hr with rfl | hr'
          · have hst : r0.stop = r.start := by omega
            have := h6 0 (by simp) (by simpa using hst)
            have hv1 := (h3 r (List.mem_cons_of_mem _ List.mem_cons_self) r0.stop
              ((fd_covers_iff _ _).mpr hc)).1
            simp only [List.getElem_cons_zero, List.getElem_cons_succ] at this
            omega
          · have := (List.pairwise_cons.mp hpw.2).1 r hr'
            have := h1 r1 (List.mem_cons_of_mem _ List.mem_cons_self)
            omega
    · apply rleFrom_of_clauses f rs r0.stop
      · exact fun r hr => h1 r (List.mem_cons_of_mem _ hr)
      · exact hpw.2
      · exact fun r hr => h3 r (List.mem_cons_of_mem _ hr)
      · intro p hp
        rw [h4 p (by omega)]
        constructor
        · rintro ⟨r, hr, hc⟩
          rcases List.mem_cons.mp hr with rfl | hr
          · rw [fd_covers_iff] at hc; omega
          · exact ⟨r, hr, hc⟩
        · rintro ⟨r, hr, hc⟩; exact ⟨r, List.mem_cons_of_mem _ hr, hc⟩
      · exact hpw.1
      · intro i hi
        have := h6 (i+1) (by simpa using hi)
        simpa using this

/-- two maximal run-length encodings of the same function from the same bound are equal -/
theorem RLEFrom.unique {f : Nat → Nat} : ∀ {r₁ r₂ : List (Iv Nat)} {lo : Nat},
    RLEFrom f lo r₁ → RLEFrom f lo r₂ → r₁ = r₂
  | [], [], _, _, _ => rfl
  | [], b :: _, lo, h1, h2 => by
    obtain ⟨k1, k2, k3, _, k5, _, _⟩ := h2
    have := h1 b.start k1
    have := k5 b.start (Nat.le_refl _) k2
    omega
  | a :: _, [], lo, h1, h2 => by
    obtain ⟨k1, k2, k3, _, k5, _, _⟩ := h1
    have := h2 a.start k1
    have := k5 a.start (Nat.le_refl _) k2
    omega
  | a :: as, b :: bs, lo, h1, h2 => by
    obtain ⟨a1, a2, a3, a4, a5, a6, a7⟩ := h1
    obtain ⟨b1, b2, b3, b4, b5, b6, b7⟩ := h2
    have hstart : a.start = b.start := by
      rcases Nat.lt_trichotomy a.start b.start with h | h | h
      · have := a5 a.start (Nat.le_refl _) a2
        have := b4 a.start a1 h
        omega
      · exact h
      · have := b5 b.start (Nat.le_refl _) b2
        have := a4 b.start b1 h
        omega
    have hval : a.val = b.val := by
      have := a5 a.start (Nat.le_refl _) a2
      have := b5 a.start (by omega) (by omega)
      omega
    have hstop : a.stop = b.stop := by
      rcases Nat.lt_trichotomy a.stop b.stop with h | h | h
      · have := b5 a.stop (by omega) h
        omega
      · exact h
      · have := a5 b.stop (by omega) h
        omega
    have hab : a = b := by
      cases a; cases b; simp only at hstart hval hstop; subst hstart hval hstop; rfl
    subst hab
    rw [RLEFrom.unique a7 b7]

/-! ## `IsDepthRLE` and the recursive form are the same thing -/

theorem rleFrom_of_isDepthRLE (l : List (Iv α)) (runs : List (Iv Nat)) (h : IsDepthRLE l runs) :
    RLEFrom (depthOf l) 0 runs :=
  rleFrom_of_clauses (depthOf l) runs 0 h.nonempty h.ascending h.value
    (fun p _ => (depthOf_pos_iff l p).trans (h.tiles p)) (fun _ _ => Nat.zero_le _) h.maximal

theorem isDepthRLE_of_rleFrom (l : List (Iv α)) (runs : List (Iv Nat)) (h : RLEFrom (depthOf l) 0 runs) :
    IsDepthRLE l runs where
  nonempty := fun r hr => (h.mem r hr).2.1
  ascending := h.pairwise
  value := fun r hr p hc => by
    obtain ⟨_, _, k3, k4⟩ := h.mem r hr
    rw [fd_covers_iff] at hc
    exact ⟨k4 p hc.1 hc.2, k3⟩
  tiles := fun p => (depthOf_pos_iff l p).symm.trans (h.tiles p (Nat.zero_le _))
  maximal := h.maximal

theorem isDepthRLE_iff_rleFrom (l : List (Iv α)) (runs : List (Iv Nat)) :
    IsDepthRLE l runs ↔ RLEFrom (depthOf l) 0 runs :=
  ⟨rleFrom_of_isDepthRLE l runs, isDepthRLE_of_rleFrom l runs⟩

/-- (1) UNIQUENESS: two run lists meeting the specification for the same `l` are equal -/
theorem isDepthRLE_unique (l : List (Iv α)) (r₁ r₂ : List (Iv Nat))
    (h₁ : IsDepthRLE l r₁) (h₂ : IsDepthRLE l r₂) : r₁ = r₂ :=
  (rleFrom_of_isDepthRLE l r₁ h₁).unique (rleFrom_of_isDepthRLE l r₂ h₂)

/-! ## Fusing a list of segments into the maximal run list -/

/-- put one segment `r = [r.start, r.stop)` of value `r.val` in front of an already fused run list:
segments of value 0 and empty segments are skipped, a segment that touches the first run and has its
value is merged into it -/
def pushRun (r : Iv Nat) (rs : List (Iv Nat)) : List (Iv Nat) :=
  if r.val = 0 ∨ r.stop ≤ r.start then rs
  else match rs with
    | [] => [r]
    | r' :: rs' =>
      if r.stop = r'.start ∧ r.val = r'.val then ⟨r.start, r'.stop, r.val⟩ :: rs' else r :: r' :: rs'

/-- fuse a list of consecutive segments, from the right (`List.foldr` is compiled to a loop over an array) -/
def fuseRuns (segs : List (Iv Nat)) : List (Iv Nat) := segs.foldr pushRun []

/-- the segments between consecutive depthBreaks, each carrying the value `d` of its left end -/
def segsOf (d : Nat → Nat) (bps : List Nat) : List (Iv Nat) :=
  (bps.zip bps.tail).map (fun pq => ⟨pq.1, pq.2, d pq.1⟩)

theorem segsOf_single (d : Nat → Nat) (a : Nat) : segsOf d [a] = [] := rfl

theorem segsOf_cons_cons (d : Nat → Nat) (a b : Nat) (t : List Nat) :
    segsOf d (a :: b :: t) = ⟨a, b, d a⟩ :: segsOf d (b :: t) := rfl

/-- lowering the bound over a stretch where `f` vanishes -/
theorem RLEFrom.lower {f : Nat → Nat} {p q : Nat} {rs : List (Iv Nat)} (h : RLEFrom f q rs) (hpq : p ≤ q)
    (hz : ∀ x, p ≤ x → x < q → f x = 0) : RLEFrom f p rs := by
  cases rs with
  | nil =>
    intro x hx
    by_cases hxq : x < q
    · exact hz x hx hxq
    · exact h x (by omega)
  | cons r rs =>
    obtain ⟨h1, h2, h3, h4, h5, h6, h7⟩ := h
    refine ⟨by omega, h2, h3, ?_, h5, h6, h7⟩
    intro x hx hlt
    by_cases hxq : x < q
    · exact hz x hx hxq
    · exact h4 x (by omega) hlt

theorem pushRun_spec {f : Nat → Nat} {p q d : Nat} {rs : List (Iv Nat)} (hpq : p ≤ q)
    (hconst : ∀ x, p ≤ x → x < q → f x = d) (h : RLEFrom f q rs) :
    RLEFrom f p (pushRun ⟨p, q, d⟩ rs) := by
  unfold pushRun
  simp only
  split
  · rename_i hskip
    apply h.lower hpq
    intro x hx hxq
    rcases hskip with h0 | h0
    · rw [hconst x hx hxq, h0]
    · omega
  · rename_i hns
    have hd : 0 < d := by omega
    have hlt : p < q := by omega
    cases rs with
    | nil =>
      refine ⟨Nat.le_refl _, hlt, hd, fun x h1 h2 => by simp only at h2; omega, hconst, ?_, h⟩
      have := h q (Nat.le_refl _)
      simp only
      omega
    | cons r' rs' =>
      obtain ⟨h1, h2, h3, h4, h5, h6, h7⟩ := h
      simp only
      split
      · rename_i hm
        obtain ⟨hm1, hm2⟩ := hm
        refine ⟨Nat.le_refl _, by simp only; omega, hd, fun x h1 h2 => by simp only at h2; omega, ?_, ?_, h7⟩
        · intro x hx1 hx2
          simp only at hx1 hx2 ⊢
          by_cases hxq : x < q
          · exact hconst x hx1 hxq
          · rw [h5 x (by omega) hx2, hm2]
        · simp only; rw [hm2]; exact h6
      · rename_i hm
        refine ⟨Nat.le_refl _, hlt, hd, fun x h1 h2 => by simp only at h2; omega, hconst, ?_, h1, h2, h3, h4, h5, h6, h7⟩
        simp only
        by_cases hq : q = r'.start
        · have := h5 q (by omega) (by omega)
          intro hfd
          exact hm ⟨hq, by omega⟩
        · have := h4 q (Nat.le_refl _) (by omega)
          omega

/-- the generic correctness statement of the sweep: `E` is a set of positions outside which `f` does
not change, `a :: t` an ascending list containing every element of `E` above `a` -/
theorem fuse_segs_spec (f : Nat → Nat) (E : List Nat)
    (hstep : ∀ p x, p ≤ x → (∀ e ∈ E, ¬ (p < e ∧ e ≤ x)) → f x = f p)
    (hzero : ∀ x, (∀ e ∈ E, e ≤ x) → f x = 0) :
    ∀ (t : List Nat) (a : Nat), (a :: t).Pairwise (· ≤ ·) → (∀ e ∈ E, a < e → e ∈ t) →
      RLEFrom f a (fuseRuns (segsOf f (a :: t)))
  | [], a, _, hin => by
    rw [segsOf_single]
    intro x hx
    apply hzero
    intro e he
    by_cases hae : a < e
    · exact absurd (hin e he hae) (by simp)
    · omega
  | b :: t, a, hpw, hin => by
    rw [segsOf_cons_cons]
    have hp := List.pairwise_cons.mp hpw
    have hp' := List.pairwise_cons.mp hp.2
    have hab : a ≤ b := hp.1 b List.mem_cons_self
    show RLEFrom f a (pushRun ⟨a, b, f a⟩ (fuseRuns (segsOf f (b :: t))))
    apply pushRun_spec hab
    · intro x hx1 hx2
      apply hstep a x hx1
      intro e he ⟨h1, h2⟩
      rcases List.mem_cons.mp (hin e he h1) with rfl | het
      · omega
      · have := hp'.1 e het; omega
    · apply fuse_segs_spec f E hstep hzero t b hp.2
      intro e he hbe
      rcases List.mem_cons.mp (hin e he (by omega)) with rfl | het
      · omega
      · exact het

/-! ## The depth function between the endpoints -/

/-- all starts and stops -/
def endpoints (l : List (Iv α)) : List Nat := l.flatMap fun iv => [iv.start, iv.stop]

theorem start_mem_endpoints {l : List (Iv α)} {iv : Iv α} (h : iv ∈ l) : iv.start ∈ endpoints l :=
  List.mem_flatMap.mpr ⟨iv, h, by simp⟩

theorem stop_mem_endpoints {l : List (Iv α)} {iv : Iv α} (h : iv ∈ l) : iv.stop ∈ endpoints l :=
  List.mem_flatMap.mpr ⟨iv, h, by simp⟩

/-- the depth does not change from `p` to `x` when no endpoint lies in `(p, x]` -/
theorem depthOf_step (l : List (Iv α)) (p x : Nat) (hpx : p ≤ x)
    (h : ∀ e ∈ endpoints l, ¬ (p < e ∧ e ≤ x)) : depthOf l x = depthOf l p := by
  unfold depthOf
  apply List.countP_congr
  intro iv hiv
  have h1 := h _ (start_mem_endpoints hiv)
  have h2 := h _ (stop_mem_endpoints hiv)
  rw [fd_covers_iff, fd_covers_iff]
  omega

/-- at or after every endpoint the depth is 0 -/
theorem depthOf_beyond (l : List (Iv α)) (x : Nat) (h : ∀ e ∈ endpoints l, e ≤ x) : depthOf l x = 0 := by
  unfold depthOf
  rw [List.countP_eq_zero]
  intro iv hiv
  have := h _ (stop_mem_endpoints hiv)
  rw [fd_covers_iff]
  omega

/-- empty and inverted intervals cover nothing -/
theorem depthOf_filter_nonempty (l : List (Iv α)) (p : Nat) :
    depthOf (l.filter (fun iv => iv.start < iv.stop)) p = depthOf l p := by
  unfold depthOf
  rw [List.countP_filter]
  apply List.countP_congr
  intro iv _
  simp only [Iv.covers, Bool.and_eq_true, decide_eq_true_eq]
  omega

/-! ## (2) The fast computation -/

/-- the depthBreaks: position 0 followed by all endpoints in ascending order (duplicates are kept;
they produce empty segments, which `pushRun` skips) -/
def depthBreaks (l : List (Iv α)) : List Nat := 0 :: (endpoints l).mergeSort (fun a b => decide (a ≤ b))

/-- THE maximal run-length encoding of the depth of `l`: drop the empty and inverted intervals, sort
the endpoints, evaluate the depth at each breakpoint, fuse. No position is enumerated; the depth at
a breakpoint is computed directly (`O(n)` each, `O(n²)` in all); see `fastDepth'` for `O(n log n)`. -/
def fastDepth (l : List (Iv α)) : List (Iv Nat) :=
  let l' := l.filter (fun iv => iv.start < iv.stop)
  fuseRuns (segsOf (depthOf l') (depthBreaks l'))

theorem depthBreaks_sorted (l : List (Iv α)) : (depthBreaks l).Pairwise (· ≤ ·) := by
  unfold depthBreaks
  refine List.pairwise_cons.mpr ⟨fun _ _ => Nat.zero_le _, ?_⟩
  have := List.pairwise_mergeSort (le := fun (a b : Nat) => decide (a ≤ b))
    (fun a b c hab hbc => by simp only [decide_eq_true_eq] at *; omega)
    (fun a b => by simp only [Bool.or_eq_true, decide_eq_true_eq]; omega)
    (endpoints l)
  exact this.imp (fun hab => by simpa using hab)

/-- the sweep over the depthBreaks of any list yields the maximal run-length encoding of its depth -/
theorem fuse_breaks_spec (l : List (Iv α)) :
    RLEFrom (depthOf l) 0 (fuseRuns (segsOf (depthOf l) (depthBreaks l))) := by
  apply fuse_segs_spec (depthOf l) (endpoints l) (depthOf_step l) (depthOf_beyond l) _ 0 (depthBreaks_sorted l)
  intro e he _
  exact (List.mergeSort_perm _ _).mem_iff.mpr he

/-- (2) `fastDepth` meets the specification for EVERY list -/
theorem fastDepth_spec (l : List (Iv α)) : IsDepthRLE l (fastDepth l) := by
  apply isDepthRLE_of_rleFrom
  have h := fuse_breaks_spec (l.filter (fun iv => iv.start < iv.stop))
  have hf : depthOf (l.filter (fun iv => iv.start < iv.stop)) = depthOf l :=
    funext (depthOf_filter_nonempty l)
  unfold fastDepth
  simp only
  rw [hf] at h ⊢
  exact h

/-- whatever meets the specification IS `fastDepth` -/
theorem isDepthRLE_iff_eq_fastDepth (l : List (Iv α)) (runs : List (Iv Nat)) :
    IsDepthRLE l runs ↔ runs = fastDepth l :=
  ⟨fun h => isDepthRLE_unique l _ _ h (fastDepth_spec l), fun h => h ▸ fastDepth_spec l⟩

/-! ## (2') The `O(n log n)` computation: the depth at the breakpoints as a running count -/

/-- number of elements `≤ p` -/
def cle (X : List Nat) (p : Nat) : Nat := X.countP (fun s => decide (s ≤ p))

/-- drop the leading elements `≤ p`, adding their number to `n` -/
def dropLE (p : Nat) : List Nat → Nat → List Nat × Nat
  | [], n => ([], n)
  | s :: X, n => if s ≤ p then dropLE p X (n+1) else (s :: X, n)

/-- the dropped elements are `≤ p`, hence counted by every later query -/
theorem dropLE_count (p : Nat) : ∀ (X : List Nat) (n x : Nat), p ≤ x →
    n + cle X x = (dropLE p X n).2 + cle (dropLE p X n).1 x
  | [], n, x, _ => rfl
  | s :: X, n, x, hpx => by
    unfold dropLE
    split
    · rename_i hs
      rw [← dropLE_count p X (n+1) x hpx]
      have : decide (s ≤ x) = true := by simp; omega
      simp only [cle, List.countP_cons, this, if_true]
      omega
    · rfl

/-- on a sorted list nothing `≤ p` is left -/
theorem dropLE_sorted (p : Nat) : ∀ (X : List Nat) (n : Nat), X.Pairwise (· ≤ ·) →
    (dropLE p X n).1.Pairwise (· ≤ ·) ∧ cle (dropLE p X n).1 p = 0
  | [], n, _ => ⟨List.Pairwise.nil, rfl⟩
  | s :: X, n, h => by
    have hp := List.pairwise_cons.mp h
    unfold dropLE
    split
    · exact dropLE_sorted p X (n+1) hp.2
    · rename_i hs
      refine ⟨h, ?_⟩
      unfold cle
      rw [List.countP_eq_zero]
      intro y hy
      rcases List.mem_cons.mp hy with rfl | hy
      · simpa using hs
      · have := hp.1 y hy
        simp only [decide_eq_true_eq]; omega

/-- the segments between consecutive breakpoints with their depths, by a single sweep: `S`, `E` are
the not yet consumed sorted starts and stops, `nS`, `nE` the numbers already consumed -/
def sweepSegs : List Nat → List Nat → List Nat → Nat → Nat → List (Iv Nat)
  | p :: q :: ps, S, E, nS, nE =>
    let dS := dropLE p S nS
    let dE := dropLE p E nE
    ⟨p, q, dS.2 - dE.2⟩ :: sweepSegs (q :: ps) dS.1 dE.1 dS.2 dE.2
  | [_], _, _, _, _ => []
  | [], _, _, _, _ => []

/-- the same, accumulating in reverse (tail recursive) -/
def sweepSegsRev : List (Iv Nat) → List Nat → List Nat → List Nat → Nat → Nat → List (Iv Nat)
  | acc, p :: q :: ps, S, E, nS, nE =>
    let dS := dropLE p S nS
    let dE := dropLE p E nE
    sweepSegsRev (⟨p, q, dS.2 - dE.2⟩ :: acc) (q :: ps) dS.1 dE.1 dS.2 dE.2
  | acc, [_], _, _, _, _ => acc
  | acc, [], _, _, _, _ => acc

theorem sweepSegsRev_eq : ∀ (bps : List Nat) (acc : List (Iv Nat)) (S E : List Nat) (nS nE : Nat),
    sweepSegsRev acc bps S E nS nE = (sweepSegs bps S E nS nE).reverse ++ acc
  | [], _, _, _, _, _ => rfl
  | [_], _, _, _, _, _ => rfl
  | p :: q :: ps, acc, S, E, nS, nE => by
    rw [sweepSegsRev, sweepSegs, sweepSegsRev_eq (q :: ps)]
    simp

/-- the sweep computes the segments of any `f` that is the difference of the two counts -/
theorem sweepSegs_eq (f : Nat → Nat) (SF EF : List Nat) (hf : ∀ p, f p = cle SF p - cle EF p) :
    ∀ (t : List Nat) (a : Nat) (S E : List Nat) (nS nE : Nat), (a :: t).Pairwise (· ≤ ·) →
      S.Pairwise (· ≤ ·) → E.Pairwise (· ≤ ·) →
      (∀ x, a ≤ x → cle SF x = nS + cle S x) → (∀ x, a ≤ x → cle EF x = nE + cle E x) →
      sweepSegs (a :: t) S E nS nE = segsOf f (a :: t)
  | [], a, _, _, _, _, _, _, _, _, _ => rfl
  | b :: t, a, S, E, nS, nE, hpw, hS, hE, iS, iE => by
    have hp := List.pairwise_cons.mp hpw
    have hab : a ≤ b := hp.1 b List.mem_cons_self
    obtain ⟨sS, zS⟩ := dropLE_sorted a S nS hS
    obtain ⟨sE, zE⟩ := dropLE_sorted a E nE hE
    rw [sweepSegs, segsOf_cons_cons]
    have hval : (dropLE a S nS).2 - (dropLE a E nE).2 = f a := by
      rw [hf a, iS a (Nat.le_refl _), iE a (Nat.le_refl _),
        dropLE_count a S nS a (Nat.le_refl _), dropLE_count a E nE a (Nat.le_refl _), zS, zE]
      rfl
    rw [hval]
    congr 1
    apply sweepSegs_eq f SF EF hf t b _ _ _ _ hp.2 sS sE
    · intro x hx
      rw [iS x (by omega), dropLE_count a S nS x (by omega)]
    · intro x hx
      rw [iE x (by omega), dropLE_count a E nE x (by omega)]

/-- depth = (number of starts `≤ p`) − (number of stops `≤ p`), for intervals with `start ≤ stop` -/
theorem cle_cons (s : Nat) (X : List Nat) (p : Nat) : cle (s :: X) p = cle X p + if s ≤ p then 1 else 0 := by
  simp [cle, List.countP_cons]

theorem depthOf_cons (iv : Iv α) (t : List (Iv α)) (p : Nat) :
    depthOf (iv :: t) p = depthOf t p + if iv.start ≤ p ∧ p < iv.stop then 1 else 0 := by
  simp [depthOf, List.countP_cons, Iv.covers]

theorem depthOf_eq_counts (l : List (Iv α)) (hl : ∀ iv ∈ l, iv.start ≤ iv.stop) (p : Nat) :
    cle (l.map (·.start)) p = depthOf l p + cle (l.map (·.stop)) p := by
  induction l with
  | nil => rfl
  | cons iv t ih =>
    have ih' := ih (fun x hx => hl x (List.mem_cons_of_mem _ hx))
    have hiv := hl iv List.mem_cons_self
    rw [List.map_cons, List.map_cons, cle_cons, cle_cons, depthOf_cons, ih']
    by_cases h1 : iv.start ≤ p
    · rcases Nat.lt_or_ge p iv.stop with h2 | h2
      · have h3 : ¬ iv.stop ≤ p := by omega
        simp only [h1, h2, h3, and_self, if_true, if_false]; omega
      · have h3 : ¬ p < iv.stop := by omega
        simp only [h1, h2, h3, and_false, if_true, if_false]; omega
    · have h3 : ¬ iv.stop ≤ p := by omega
      simp only [h1, h3, false_and, if_false]; omega

theorem sorted_mergeSort_nat (X : List Nat) : (X.mergeSort (fun a b => decide (a ≤ b))).Pairwise (· ≤ ·) := by
  have := List.pairwise_mergeSort (le := fun (a b : Nat) => decide (a ≤ b))
    (fun a b c hab hbc => by simp only [decide_eq_true_eq] at *; omega)
    (fun a b => by simp only [Bool.or_eq_true, decide_eq_true_eq]; omega) X
  exact this.imp (fun hab => by simpa using hab)

theorem cle_mergeSort (X : List Nat) (p : Nat) : cle (X.mergeSort (fun a b => decide (a ≤ b))) p = cle X p :=
  (List.mergeSort_perm X _).countP_eq _

/-- THE maximal run-length encoding of the depth of `l` in `O(n log n)`: three merge sorts (endpoints,
starts, stops), one linear sweep giving the depth at every breakpoint as (starts passed) − (stops
passed), one linear fusing pass. Every loop is tail recursive or a core `List` function compiled to one. -/
def fastDepth' (l : List (Iv α)) : List (Iv Nat) :=
  let l' := l.filter (fun iv => iv.start < iv.stop)
  let S := (l'.map (·.start)).mergeSort (fun a b => decide (a ≤ b))
  let E := (l'.map (·.stop)).mergeSort (fun a b => decide (a ≤ b))
  (sweepSegsRev [] (depthBreaks l') S E 0 0).foldl (fun acc r => pushRun r acc) []

theorem fastDepth'_eq (l : List (Iv α)) : fastDepth' l = fastDepth l := by
  unfold fastDepth' fastDepth
  simp only
  generalize hl' : l.filter (fun iv => iv.start < iv.stop) = l'
  have hne : ∀ iv ∈ l', iv.start ≤ iv.stop := by
    intro iv hiv
    rw [← hl', List.mem_filter] at hiv
    have := hiv.2
    simp only [decide_eq_true_eq] at this
    omega
  rw [sweepSegsRev_eq, List.append_nil, List.foldl_reverse]
  show fuseRuns _ = _
  congr 1
  apply sweepSegs_eq (depthOf l') _ _ _ _ 0 _ _ 0 0 (depthBreaks_sorted l')
    (sorted_mergeSort_nat _) (sorted_mergeSort_nat _) (fun x _ => (Nat.zero_add _).symm)
    (fun x _ => (Nat.zero_add _).symm)
  intro p
  rw [cle_mergeSort, cle_mergeSort, depthOf_eq_counts l' hne p]
  omega

theorem fastDepth'_spec (l : List (Iv α)) : IsDepthRLE l (fastDepth' l) := by
  rw [fastDepth'_eq]; exact fastDepth_spec l

/-- whatever meets the specification IS `fastDepth'` -/
theorem isDepthRLE_iff_eq_fastDepth' (l : List (Iv α)) (runs : List (Iv Nat)) :
    IsDepthRLE l runs ↔ runs = fastDepth' l := by
  rw [fastDepth'_eq]; exact isDepthRLE_iff_eq_fastDepth l runs

/-! ## Non-vacuity checks

`decide` cannot evaluate `List.mergeSort` (well-founded recursion does not reduce in the kernel), so
the values below are obtained through the theorems: the expected run list passes the Boolean checker
`isDepthRLEB` (evaluated by the kernel), the checker is sound (`C20_isDepthRLEB_sound`), and whatever
meets the specification is `fastDepth` / `fastDepth'`. The compiled definitions give the same values:
```
#eval fastDepth  [(⟨1,10,()⟩ : Iv Unit), ⟨2,5,()⟩, ⟨3,8,()⟩, ⟨3,8,()⟩, ⟨3,8,()⟩, ⟨5,8,()⟩, ⟨9,11,()⟩, ⟨15,20,()⟩]
#eval fastDepth' [(⟨1,10,()⟩ : Iv Unit), ⟨2,5,()⟩, ⟨3,8,()⟩, ⟨3,8,()⟩, ⟨3,8,()⟩, ⟨5,8,()⟩, ⟨9,11,()⟩, ⟨15,20,()⟩]
-- both: [⟨1,2,1⟩, ⟨2,3,2⟩, ⟨3,8,5⟩, ⟨8,9,1⟩, ⟨9,10,2⟩, ⟨10,11,1⟩, ⟨15,20,1⟩]
```
-/

/-- fixture `test_depth_harder` of the crate -/
example : fastDepth [(⟨1,10,()⟩ : Iv Unit), ⟨2,5,()⟩, ⟨3,8,()⟩, ⟨3,8,()⟩, ⟨3,8,()⟩, ⟨5,8,()⟩, ⟨9,11,()⟩, ⟨15,20,()⟩]
    = [⟨1,2,1⟩, ⟨2,3,2⟩, ⟨3,8,5⟩, ⟨8,9,1⟩, ⟨9,10,2⟩, ⟨10,11,1⟩, ⟨15,20,1⟩] :=
  ((isDepthRLE_iff_eq_fastDepth _ _).mp (C20_isDepthRLEB_sound _ _ (by decide))).symm

example : fastDepth' [(⟨1,10,()⟩ : Iv Unit), ⟨2,5,()⟩, ⟨3,8,()⟩, ⟨3,8,()⟩, ⟨3,8,()⟩, ⟨5,8,()⟩, ⟨9,11,()⟩, ⟨15,20,()⟩]
    = [⟨1,2,1⟩, ⟨2,3,2⟩, ⟨3,8,5⟩, ⟨8,9,1⟩, ⟨9,10,2⟩, ⟨10,11,1⟩, ⟨15,20,1⟩] :=
  ((isDepthRLE_iff_eq_fastDepth' _ _).mp (C20_isDepthRLEB_sound _ _ (by decide))).symm

/-- unsorted, starting at 0, with an empty and an inverted interval, touching intervals of equal depth fused -/
example : fastDepth' [(⟨0,5,()⟩ : Iv Unit), ⟨5,7,()⟩, ⟨9,2,()⟩, ⟨7,9,()⟩, ⟨4,4,()⟩, ⟨0,1,()⟩]
    = [⟨0,1,2⟩, ⟨1,9,1⟩] :=
  ((isDepthRLE_iff_eq_fastDepth' _ _).mp (C20_isDepthRLEB_sound _ _ (by decide))).symm

/-- nothing covered: no runs -/
example : fastDepth' [(⟨5,5,()⟩ : Iv Unit), ⟨9,2,()⟩] = [] :=
  ((isDepthRLE_iff_eq_fastDepth' _ _).mp (C20_isDepthRLEB_sound _ _ (by decide))).symm

#guard fastDepth' [(⟨1,10,()⟩ : Iv Unit), ⟨2,5,()⟩, ⟨3,8,()⟩, ⟨3,8,()⟩, ⟨3,8,()⟩, ⟨5,8,()⟩, ⟨9,11,()⟩, ⟨15,20,()⟩]
    = [⟨1,2,1⟩, ⟨2,3,2⟩, ⟨3,8,5⟩, ⟨8,9,1⟩, ⟨9,10,2⟩, ⟨10,11,1⟩, ⟨15,20,1⟩]
#guard fastDepth [(⟨1,10,()⟩ : Iv Unit), ⟨2,5,()⟩, ⟨3,8,()⟩, ⟨3,8,()⟩, ⟨3,8,()⟩, ⟨5,8,()⟩, ⟨9,11,()⟩, ⟨15,20,()⟩]
    = [⟨1,2,1⟩, ⟨2,3,2⟩, ⟨3,8,5⟩, ⟨8,9,1⟩, ⟨9,10,2⟩, ⟨10,11,1⟩, ⟨15,20,1⟩]

#print axioms RLEFrom.unique
#print axioms isDepthRLE_iff_rleFrom
#print axioms isDepthRLE_unique
#print axioms fuse_segs_spec
#print axioms fastDepth_spec
#print axioms isDepthRLE_iff_eq_fastDepth
#print axioms sweepSegs_eq
#print axioms fastDepth'_eq
#print axioms fastDepth'_spec
#print axioms isDepthRLE_iff_eq_fastDepth'
end BV
