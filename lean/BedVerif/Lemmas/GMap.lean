import BedVerif.Lemmas.LapperInv
import BedVerif.Spec.Lapper
/-! Helper lemmas for the map level of C02 and for C11. -/
namespace BV
variable {α : Type}

def toRec (k : Bytes) (iv : Iv α) : Rec × α := (⟨k, iv.start, iv.stop⟩, iv.val)
def ents (k : Bytes) (t : Lapper α) : List (Rec × α) := t.intervals.toList.map (toRec k)
def gents (g : List (Bytes × List (Iv α))) : List (Rec × α) :=
  g.flatMap (fun kv => kv.2.map (toRec kv.1))

theorem iter_nil : GMap.iter ([] : GMap α) = [] := rfl
theorem iter_cons (k : Bytes) (t : Lapper α) (rest : GMap α) :
    GMap.iter ((k, t) :: rest) = ents k t ++ GMap.iter rest := by
  simp [GMap.iter, ents, toRec]

theorem gents_cons (k : Bytes) (l : List (Iv α)) (rest : List (Bytes × List (Iv α))) :
    gents ((k, l) :: rest) = l.map (toRec k) ++ gents rest := by
  simp [gents]

theorem mem_iter_chrom (m : GMap α) : ∀ x ∈ GMap.iter m, x.1.chrom ∈ m.map (·.1) := by
  induction m with
  | nil => intro x hx; simp [iter_nil] at hx
  | cons kv rest ih =>
    obtain ⟨k, t⟩ := kv
    intro x hx
    rw [iter_cons, List.mem_append] at hx
    cases hx with
    | inl h =>
      simp only [ents, List.mem_map] at h
      obtain ⟨iv, _, rfl⟩ := h
      simp [toRec]
    | inr h =>
      have := ih x h
      simp only [List.map_cons, List.mem_cons]
      exact Or.inr this

/-! ### groupPush -/
theorem groupPush_keys (g : List (Bytes × List (Iv α))) (c : Bytes) (iv : Iv α) (k : Bytes) :
    k ∈ (groupPush g c iv).map (·.1) ↔ k ∈ g.map (·.1) ∨ k = c := by
  induction g with
  | nil => simp [groupPush]
  | cons kv rest ih =>
    obtain ⟨k', l⟩ := kv
    simp only [groupPush]
    split
    · rename_i h
      subst h
      simp only [List.map_cons, List.mem_cons]
      constructor
      · intro h; exact Or.inl h
      · intro h
        rcases h with h | h
        · exact h
        · exact Or.inl h
    · simp only [List.map_cons, List.mem_cons, ih]
      constructor
      · intro h
        rcases h with h | h | h
        · exact Or.inl (Or.inl h)
        · exact Or.inl (Or.inr h)
        · exact Or.inr h
      · intro h
        rcases h with (h | h) | h
        · exact Or.inl h
        · exact Or.inr (Or.inl h)
        · exact Or.inr (Or.inr h)

theorem groupPush_nodup (g : List (Bytes × List (Iv α))) (c : Bytes) (iv : Iv α)
    (h : (g.map (·.1)).Nodup) : ((groupPush g c iv).map (·.1)).Nodup := by
  induction g with
  | nil => simp [groupPush]
  | cons kv rest ih =>
    obtain ⟨k', l⟩ := kv
    simp only [List.map_cons, List.nodup_cons] at h
    simp only [groupPush]
    split
    · simp only [List.map_cons, List.nodup_cons]
      exact h
    · rename_i hne
      simp only [List.map_cons, List.nodup_cons]
      refine ⟨?_, ih h.2⟩
      intro hk
      rw [groupPush_keys] at hk
      rcases hk with hk | hk
      · exact h.1 hk
      · exact hne hk

theorem groupPush_perm (g : List (Bytes × List (Iv α))) (c : Bytes) (iv : Iv α) :
    (gents (groupPush g c iv)).Perm (gents g ++ [toRec c iv]) := by
  induction g with
  | nil => simp [groupPush, gents]
  | cons kv rest ih =>
    obtain ⟨k', l⟩ := kv
    simp only [groupPush]
    split
    · rename_i h
      subst h
      rw [gents_cons, gents_cons, List.map_append, List.append_assoc, List.append_assoc]
      apply List.Perm.append_left
      exact List.perm_append_comm
    · rw [gents_cons, gents_cons, List.append_assoc]
      exact List.Perm.append_left _ ih

def pushRec (g : List (Bytes × List (Iv α))) (x : Rec × α) : List (Bytes × List (Iv α)) :=
  groupPush g x.1.chrom ⟨x.1.start, x.1.stop, x.2⟩

theorem toRec_self (x : Rec × α) : toRec x.1.chrom (⟨x.1.start, x.1.stop, x.2⟩ : Iv α) = x := rfl

theorem foldl_push_nodup (xs : List (Rec × α)) (g : List (Bytes × List (Iv α)))
    (h : (g.map (·.1)).Nodup) : ((xs.foldl pushRec g).map (·.1)).Nodup := by
  induction xs generalizing g with
  | nil => exact h
  | cons x xs ih =>
    simp only [List.foldl_cons]
    exact ih _ (groupPush_nodup g _ _ h)

theorem foldl_push_perm (xs : List (Rec × α)) (g : List (Bytes × List (Iv α))) :
    (gents (xs.foldl pushRec g)).Perm (gents g ++ xs) := by
  induction xs generalizing g with
  | nil => simp
  | cons x xs ih =>
    simp only [List.foldl_cons]
    refine (ih _).trans ?_
    have := groupPush_perm g x.1.chrom (⟨x.1.start, x.1.stop, x.2⟩ : Iv α)
    rw [toRec_self] at this
    have h2 := List.Perm.append_right xs this
    simpa [pushRec] using h2

def treeOf (kv : Bytes × List (Iv α)) : Bytes × Lapper α := (kv.1, Lapper.new kv.2)

theorem fromIter_eq (xs : List (Rec × α)) :
    GMap.fromIter xs = (xs.foldl pushRec []).map treeOf := rfl

theorem iter_treeOf_perm (g : List (Bytes × List (Iv α))) :
    (GMap.iter (g.map treeOf)).Perm (gents g) := by
  induction g with
  | nil => simp [iter_nil, gents]
  | cons kv rest ih =>
    obtain ⟨k, l⟩ := kv
    simp only [List.map_cons, treeOf]
    rw [iter_cons, gents_cons]
    apply List.Perm.append _ ih
    exact (new_intervals_perm l).map _

theorem keys_treeOf (g : List (Bytes × List (Iv α))) : (g.map treeOf).map (·.1) = g.map (·.1) := by
  simp [List.map_map, treeOf, Function.comp_def]

theorem fromIter_iter_perm (xs : List (Rec × α)) : (GMap.iter (GMap.fromIter xs)).Perm xs := by
  rw [fromIter_eq]
  refine (iter_treeOf_perm _).trans ?_
  simpa [gents] using foldl_push_perm xs []

theorem fromIter_nodup (xs : List (Rec × α)) : ((GMap.fromIter xs).map (·.1)).Nodup := by
  rw [fromIter_eq, keys_treeOf]
  exact foldl_push_nodup xs [] (by simp)

theorem fromIter_inv (xs : List (Rec × α)) : ∀ kv ∈ GMap.fromIter xs, Inv kv.2 := by
  rw [fromIter_eq]
  intro kv hkv
  simp only [List.mem_map] at hkv
  obtain ⟨g, _, rfl⟩ := hkv
  exact inv_new _

/-! ### insert -/
theorem insert_nil (r : Rec) (v : α) :
    GMap.insert ([] : GMap α) r v = [(r.chrom, (Lapper.new []).insert ⟨r.start, r.stop, v⟩)] := rfl

theorem insert_cons (k : Bytes) (w : Lapper α) (rest : GMap α) (r : Rec) (v : α) :
    GMap.insert ((k, w) :: rest) r v =
      if k = r.chrom then (k, w.insert ⟨r.start, r.stop, v⟩) :: rest
      else (k, w) :: GMap.insert rest r v := by
  simp only [GMap.insert, GMap.get?, GMap.put]
  split
  · simp
  · rfl

theorem insert_keys (m : GMap α) (r : Rec) (v : α) (k : Bytes) :
    k ∈ (GMap.insert m r v).map (·.1) ↔ k ∈ m.map (·.1) ∨ k = r.chrom := by
  induction m with
  | nil => simp [insert_nil]
  | cons kv rest ih =>
    obtain ⟨k', w⟩ := kv
    rw [insert_cons]
    split
    · rename_i h
      subst h
      simp only [List.map_cons, List.mem_cons]
      constructor
      · intro h; exact Or.inl h
      · intro h
        rcases h with h | h
        · exact h
        · exact Or.inl h
    · simp only [List.map_cons, List.mem_cons, ih]
      constructor
      · intro h
        rcases h with h | h | h
        · exact Or.inl (Or.inl h)
        · exact Or.inl (Or.inr h)
        · exact Or.inr h
      · intro h
        rcases h with (h | h) | h
        · exact Or.inl h
        · exact Or.inr (Or.inl h)
        · exact Or.inr (Or.inr h)

theorem insert_nodup (m : GMap α) (r : Rec) (v : α) (h : (m.map (·.1)).Nodup) :
    ((GMap.insert m r v).map (·.1)).Nodup := by
  induction m with
  | nil => simp [insert_nil]
  | cons kv rest ih =>
    obtain ⟨k', w⟩ := kv
    simp only [List.map_cons, List.nodup_cons] at h
    rw [insert_cons]
    split
    · simp only [List.map_cons, List.nodup_cons]
      exact h
    · rename_i hne
      simp only [List.map_cons, List.nodup_cons]
      refine ⟨?_, ih h.2⟩
      intro hk
      rw [insert_keys] at hk
      rcases hk with hk | hk
      · exact h.1 hk
      · exact hne hk

theorem insert_inv (m : GMap α) (r : Rec) (v : α) (h : ∀ kv ∈ m, Inv kv.2) :
    ∀ kv ∈ GMap.insert m r v, Inv kv.2 := by
  induction m with
  | nil =>
    intro kv hkv
    simp only [insert_nil, List.mem_singleton] at hkv
    subst hkv
    exact inv_insert _ (inv_new _) _
  | cons kv' rest ih =>
    obtain ⟨k', w⟩ := kv'
    have hw : Inv w := h (k', w) (List.mem_cons_self)
    have hrest : ∀ kv ∈ rest, Inv kv.2 := fun kv hkv => h kv (List.mem_cons_of_mem _ hkv)
    rw [insert_cons]
    split
    · intro kv hkv
      rw [List.mem_cons] at hkv
      rcases hkv with rfl | hkv
      · exact inv_insert _ hw _
      · exact hrest kv hkv
    · intro kv hkv
      rw [List.mem_cons] at hkv
      rcases hkv with rfl | hkv
      · exact hw
      · exact ih hrest kv hkv

theorem insert_iter_perm (m : GMap α) (r : Rec) (v : α) :
    (GMap.iter (GMap.insert m r v)).Perm ((r, v) :: GMap.iter m) := by
  induction m with
  | nil =>
    rw [insert_nil, iter_cons, iter_nil, List.append_nil, ents]
    have h1 := insert_intervals_perm (Lapper.new ([] : List (Iv α))) ⟨r.start, r.stop, v⟩
    have h2 := new_intervals_perm ([] : List (Iv α))
    have h3 : (Lapper.new ([] : List (Iv α))).intervals.toList = [] := List.Perm.eq_nil h2
    rw [h3] at h1
    exact h1.map (toRec r.chrom)
  | cons kv' rest ih =>
    obtain ⟨k', w⟩ := kv'
    rw [insert_cons]
    split
    · rename_i hk
      subst hk
      rw [iter_cons, iter_cons, ents]
      have h1 := (insert_intervals_perm w ⟨r.start, r.stop, v⟩).map (toRec r.chrom)
      have h2 := List.Perm.append_right (GMap.iter rest) h1
      refine h2.trans ?_
      simp [toRec, ents]
    · rw [iter_cons, iter_cons]
      refine (List.Perm.append_left _ ih).trans ?_
      exact List.perm_middle

/-! ### enumFrom -/
theorem enumFrom_map_fst {β : Type} (n : Nat) (xs : List β) : (enumFrom n xs).map (·.1) = xs := by
  induction xs generalizing n with
  | nil => rfl
  | cons x xs ih => simp [enumFrom, ih]

theorem enumFrom_map_snd {β : Type} (n : Nat) (xs : List β) :
    (enumFrom n xs).map (·.2) = List.range' n xs.length := by
  induction xs generalizing n with
  | nil => rfl
  | cons x xs ih => simp [enumFrom, ih, List.range'_succ]

theorem mem_enumFrom {β : Type} (n : Nat) (xs : List β) :
    ∀ e ∈ enumFrom n xs, n ≤ e.2 ∧ xs[e.2 - n]? = some e.1 := by
  induction xs generalizing n with
  | nil => intro e he; simp [enumFrom] at he
  | cons x xs ih =>
    intro e he
    simp only [enumFrom, List.mem_cons] at he
    rcases he with rfl | he
    · simp
    · obtain ⟨h1, h2⟩ := ih (n+1) e he
      refine ⟨by omega, ?_⟩
      have : e.2 - n = (e.2 - (n+1)) + 1 := by omega
      rw [this, List.getElem?_cons_succ]
      exact h2

theorem mem_enumFrom0 {β : Type} (xs : List β) : ∀ e ∈ enumFrom 0 xs, xs[e.2]? = some e.1 := by
  intro e he
  simpa using (mem_enumFrom 0 xs e he).2

theorem enumFrom_map {β γ : Type} (f : β → γ) (n : Nat) (xs : List β) :
    enumFrom n (xs.map f) = (enumFrom n xs).map (fun p => (f p.1, p.2)) := by
  induction xs generalizing n with
  | nil => rfl
  | cons x xs ih => simp [enumFrom, ih]

theorem enumFrom_eq_range {β : Type} [Inhabited β] (n : Nat) (xs : List β) :
    enumFrom n xs = (List.range xs.length).map (fun i => (xs.getD i default, i + n)) := by
  induction xs generalizing n with
  | nil => rfl
  | cons x xs ih =>
    rw [List.length_cons, List.range_succ_eq_map, List.map_cons, List.map_map, enumFrom, ih]
    simp only [List.getD_cons_zero, Nat.zero_add, List.cons.injEq, true_and]
    apply List.map_congr_left
    intro i _
    simp only [Function.comp, List.getD_cons_succ, Prod.mk.injEq, true_and]
    omega

end BV
