import BedVerif.Lemmas.GMap
/-! Well-formed maps and `find` on them (map level of C02). -/
namespace BV
variable {α : Type}

/-- well-formed map: unique keys, every tree satisfies the Lapper invariant -/
structure WFMap (m : GMap α) : Prop where
  nodup : (m.map (·.1)).Nodup
  inv : ∀ kv ∈ m, Inv kv.2

/-! ### helpers -/
theorem wf_fromIter (xs : List (Rec × α)) : WFMap (GMap.fromIter xs) :=
  ⟨fromIter_nodup xs, fromIter_inv xs⟩

theorem wf_insert (m : GMap α) (h : WFMap m) (r : Rec) (v : α) : WFMap (GMap.insert m r v) :=
  ⟨insert_nodup m r v h.nodup, insert_inv m r v h.inv⟩

def insRec (m : GMap α) (x : Rec × α) : GMap α := GMap.insert m x.1 x.2

theorem build_eq (bulk ins : List (Rec × α)) :
    GMap.build bulk ins = ins.foldl insRec (GMap.fromIter bulk) := rfl

theorem wf_foldl (ins : List (Rec × α)) (m : GMap α) (h : WFMap m) : WFMap (ins.foldl insRec m) := by
  induction ins generalizing m with
  | nil => exact h
  | cons x xs ih =>
    simp only [List.foldl_cons]
    exact ih _ (wf_insert m h x.1 x.2)

theorem foldl_iter_perm (ins : List (Rec × α)) (m : GMap α) :
    (GMap.iter (ins.foldl insRec m)).Perm (GMap.iter m ++ ins) := by
  induction ins generalizing m with
  | nil => simp
  | cons x xs ih =>
    simp only [List.foldl_cons]
    refine (ih _).trans ?_
    have h1 : (GMap.iter (insRec m x)).Perm (x :: GMap.iter m) := insert_iter_perm m x.1 x.2
    refine (List.Perm.append_right xs h1).trans ?_
    simpa using (List.perm_middle (l₁ := GMap.iter m) (l₂ := xs) (a := x)).symm

theorem len_eq_iter_length (m : GMap α) : GMap.len m = (GMap.iter m).length := by
  induction m with
  | nil => rfl
  | cons kv rest ih =>
    obtain ⟨k, t⟩ := kv
    rw [iter_cons, List.length_append, ← ih]
    simp [GMap.len, ents]

theorem ov_toRec (k : Bytes) (q : Rec) (iv : Iv α) :
    (toRec k iv).1.ov q = (decide (k = q.chrom) && iv.ov q.start q.stop) := by
  simp only [toRec, Rec.ov, Iv.ov, Bool.and_assoc]
  by_cases h : k = q.chrom
  · subst h
    simp only [BEq.rfl, gt_iff_lt, Bool.true_and, decide_true]
    rfl
  · simp [h]

theorem filter_ents_same (q : Rec) (t : Lapper α) :
    (ents q.chrom t).filter (fun x => x.1.ov q) =
      (t.intervals.toList.filter (·.ov q.start q.stop)).map (toRec q.chrom) := by
  rw [ents, List.filter_map]
  congr 1
  apply List.filter_congr
  intro iv _
  simp [ov_toRec]

theorem filter_ents_other (k : Bytes) (q : Rec) (t : Lapper α) (h : k ≠ q.chrom) :
    (ents k t).filter (fun x => x.1.ov q) = [] := by
  rw [List.filter_eq_nil_iff]
  intro x hx
  simp only [ents, List.mem_map] at hx
  obtain ⟨iv, _, rfl⟩ := hx
  simp [ov_toRec, h]

theorem filter_iter_absent (m : GMap α) (q : Rec) (h : q.chrom ∉ m.map (·.1)) :
    (GMap.iter m).filter (fun x => x.1.ov q) = [] := by
  rw [List.filter_eq_nil_iff]
  intro x hx hov
  have hc := mem_iter_chrom m x hx
  simp only [Rec.ov, Bool.and_eq_true, beq_iff_eq] at hov
  rw [hov.1.1] at hc
  exact h hc

theorem find_cons (k : Bytes) (t : Lapper α) (rest : GMap α) (q : Rec) :
    GMap.find ((k, t) :: rest) q =
      if k = q.chrom then (t.find q.start q.stop).map (toRec q.chrom) else GMap.find rest q := by
  simp only [GMap.find, GMap.get?]
  by_cases hk : k = q.chrom
  · simp only [if_pos hk]
    rfl
  · simp only [if_neg hk]

/-- the map built by `from_iter` followed by any inserts is well-formed -/
theorem wf_build (bulk ins : List (Rec × α)) : WFMap (GMap.build bulk ins) := by
  rw [build_eq]
  exact wf_foldl ins _ (wf_fromIter bulk)

/-- on a well-formed map `find` is exactly the stored records overlapping the query on the same
chromosome, in storage order -/
theorem gfind_eq_filter (m : GMap α) (h : WFMap m) (q : Rec) :
    GMap.find m q = (GMap.iter m).filter (fun x => x.1.ov q) := by
  induction m with
  | nil => rfl
  | cons kv rest ih =>
    obtain ⟨k, t⟩ := kv
    have hnd := h.nodup
    simp only [List.map_cons, List.nodup_cons] at hnd
    have hrest : WFMap rest := ⟨hnd.2, fun kv hkv => h.inv kv (List.mem_cons_of_mem _ hkv)⟩
    have ht : Inv t := h.inv (k, t) List.mem_cons_self
    rw [find_cons, iter_cons, List.filter_append]
    split
    · rename_i hk
      subst hk
      rw [filter_iter_absent rest q hnd.1, List.append_nil, filter_ents_same,
        find_eq_filter t ht.sortedStart ht.maxLen_ge]
    · rename_i hk
      rw [filter_ents_other k q t hk, List.nil_append]
      exact ih hrest

end BV
