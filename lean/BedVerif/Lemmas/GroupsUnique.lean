import BedVerif.Props.Sound
/-!
# The C07 specification determines the grouping (and the merged ranges)

`GroupsSpec xs gs` is the conclusion of `C07_goodGroupsB_sound` (the clauses of `GoodGroups`, written
as a conjunction). Two groupings of one input with these clauses are equal (`groupsSpec_unique`; no
sortedness is needed: the first groups must have the same length, because a group is chained
internally while the first record of the next group does not chain onto it), hence for sorted input
the specification holds of exactly the model's result (`groupsSpec_iff_eq_model`). The conclusion of
`C07_mergedOkB_sound` likewise pins down the merged ranges (`mergedSpec_iff_eq_model`).
-/
namespace BV

/-- the clauses `C07_goodGroupsB_sound` concludes (`GoodGroups xs gs`, field by field) -/
def GroupsSpec (xs : List Rec) (gs : List (List Rec)) : Prop :=
  gs.flatten = xs ∧
  (∀ g ∈ gs, g ≠ []) ∧
  (∀ g ∈ gs, ∀ a ∈ g, ∀ b ∈ g, a.chrom = b.chrom) ∧
  (∀ g ∈ gs, ∀ i (h : i + 1 < g.length), g[i+1].start ≤ runMaxEnd (g.take (i+1))) ∧
  (∀ i (h : i + 1 < gs.length), ∀ a ∈ gs[i], ∀ b ∈ gs[i+1], a.chrom ≠ b.chrom ∨ a.stop < b.start)

theorem groupsSpec_iff_goodGroups (xs : List Rec) (gs : List (List Rec)) :
    GroupsSpec xs gs ↔ GoodGroups xs gs :=
  ⟨fun ⟨h1, h2, h3, h4, h5⟩ => ⟨h1, h2, h3, h4, h5⟩,
   fun h => ⟨h.flatten, h.nonempty, h.oneChrom, h.chained, h.maximal⟩⟩

/-- `C07_goodGroupsB_sound`, restated for `GroupsSpec` -/
theorem groupsSpec_of_goodGroupsB (xs : List Rec) (gs : List (List Rec)) (h : goodGroupsB xs gs = true) :
    GroupsSpec xs gs :=
  (groupsSpec_iff_goodGroups xs gs).mpr (C07_goodGroupsB_sound xs gs h)

/-- the clauses of `GroupsSpec` other than the flattening -/
def GroupsLocal (gs : List (List Rec)) : Prop :=
  (∀ g ∈ gs, g ≠ []) ∧
  (∀ g ∈ gs, ∀ a ∈ g, ∀ b ∈ g, a.chrom = b.chrom) ∧
  (∀ g ∈ gs, Chained g) ∧
  (∀ i (h : i + 1 < gs.length), ∀ a ∈ gs[i], ∀ b ∈ gs[i+1], sepR a b)

theorem GroupsLocal.tail {g : List Rec} {gs : List (List Rec)} (h : GroupsLocal (g :: gs)) : GroupsLocal gs := by
  obtain ⟨h1, h2, h3, h4⟩ := h
  refine ⟨fun g' hg => h1 g' (List.mem_cons_of_mem _ hg), fun g' hg => h2 g' (List.mem_cons_of_mem _ hg),
    fun g' hg => h3 g' (List.mem_cons_of_mem _ hg), ?_⟩
  intro i hi a ha b hb
  exact h4 (i + 1) (by simpa using hi) a ha b hb

/-- a chained one-chromosome group cannot continue with a record that is separated from every record
of a non-empty prefix -/
theorem chained_prefix_not_sep {A t : List Rec} {x : Rec} (hA : A ≠ [])
    (hc : ∀ a ∈ A ++ x :: t, ∀ b ∈ A ++ x :: t, a.chrom = b.chrom) (hch : Chained (A ++ x :: t))
    (hsep : ∀ a ∈ A, sepR a x) : False := by
  cases A with
  | nil => exact hA rfl
  | cons a0 A' =>
    have hlen : A'.length + 1 < ((a0 :: A') ++ x :: t).length := by simp
    have h := hch A'.length hlen
    have hx : ((a0 :: A') ++ x :: t)[A'.length + 1] = x := by
      rw [List.getElem_append_right (by simp)]
      simp
    have ht : ((a0 :: A') ++ x :: t).take (A'.length + 1) = a0 :: A' := by
      rw [List.take_append_of_le_length (by simp)]
      simp
    rw [hx, ht] at h
    have hmem : listMax ((a0 :: A').map (·.stop)) ∈ (a0 :: A').map (·.stop) := listMax_mem (by simp)
    obtain ⟨m, hm, hms⟩ := List.mem_map.mp hmem
    have hxm : x ∈ (a0 :: A') ++ x :: t := by simp
    have hmm : m ∈ (a0 :: A') ++ x :: t := List.mem_append_left _ hm
    rcases hsep m hm with h1 | h1
    · exact h1 (hc m hmm x hxm)
    · unfold runMaxEnd at h
      have hms' : m.stop = listMax ((a0 :: A').map (·.stop)) := hms
      omega

/-- a non-empty flattening of non-empty groups starts with the first record of the first group -/
theorem flatten_head_group {gs : List (List Rec)} (hne : ∀ g ∈ gs, g ≠ []) {x : Rec} {r : List Rec}
    (h : gs.flatten = x :: r) : ∃ t gs', gs = (x :: t) :: gs' := by
  cases gs with
  | nil => simp at h
  | cons g gs' =>
    cases g with
    | nil => exact absurd rfl (hne [] List.mem_cons_self)
    | cons y t =>
      simp only [List.flatten_cons, List.cons_append, List.cons.injEq] at h
      exact ⟨t, gs', by rw [h.1]⟩

/-- the group `A` followed by the groups `r₁` cannot be a proper prefix of a group `B` of another
grouping of the same records -/
theorem first_group_not_longer {A B : List Rec} {r₁ : List (List Rec)} {x : Rec} {t Y : List Rec}
    (hL : GroupsLocal (A :: r₁)) (hB1 : ∀ a ∈ B, ∀ b ∈ B, a.chrom = b.chrom) (hB2 : Chained B)
    (hB : B = A ++ x :: t) (hX : r₁.flatten = (x :: t) ++ Y) : False := by
  obtain ⟨t', r', hr⟩ := flatten_head_group hL.tail.1 hX
  subst hr
  subst hB
  refine chained_prefix_not_sep (hL.1 A List.mem_cons_self) hB1 hB2 ?_
  intro a ha
  exact hL.2.2.2 0 (by simp) a ha x (by simp)

theorem groupsLocal_unique : ∀ (g₁ g₂ : List (List Rec)), g₁.flatten = g₂.flatten →
    GroupsLocal g₁ → GroupsLocal g₂ → g₁ = g₂
  | [], [], _, _, _ => rfl
  | [], B :: r₂, hf, _, h₂ => by
    have hB := h₂.1 B List.mem_cons_self
    cases B with
    | nil => exact absurd rfl hB
    | cons b B' => simp at hf
  | A :: r₁, [], hf, h₁, _ => by
    have hA := h₁.1 A List.mem_cons_self
    cases A with
    | nil => exact absurd rfl hA
    | cons a A' => simp at hf
  | A :: r₁, B :: r₂, hf, h₁, h₂ => by
    simp only [List.flatten_cons] at hf
    have hAB : A = B := by
      rcases List.append_eq_append_iff.mp hf with ⟨a', hB, hX⟩ | ⟨c', hA, hY⟩
      · cases a' with
        | nil => simpa using hB.symm
        | cons x t =>
          exact (first_group_not_longer h₁ (h₂.2.1 B List.mem_cons_self) (h₂.2.2.1 B List.mem_cons_self)
            hB hX).elim
      · cases c' with
        | nil => simpa using hA
        | cons x t =>
          exact (first_group_not_longer h₂ (h₁.2.1 A List.mem_cons_self) (h₁.2.2.1 A List.mem_cons_self)
            hA hY).elim
    subst hAB
    have hr : r₁ = r₂ := groupsLocal_unique r₁ r₂ (List.append_cancel_left hf) h₁.tail h₂.tail
    rw [hr]

theorem GroupsSpec.local {xs : List Rec} {gs : List (List Rec)} (h : GroupsSpec xs gs) : GroupsLocal gs :=
  ⟨h.2.1, h.2.2.1, h.2.2.2.1, h.2.2.2.2⟩

/-- a grouping with the C07 clauses is determined by the input (sorted or not) -/
theorem groupsSpec_unique (xs : List Rec) (g₁ g₂ : List (List Rec)) (h₁ : GroupsSpec xs g₁)
    (h₂ : GroupsSpec xs g₂) : g₁ = g₂ :=
  groupsLocal_unique g₁ g₂ (h₁.1.trans h₂.1.symm) h₁.local h₂.local

/-- for sorted input the C07 clauses hold of exactly the model's grouping -/
theorem groupsSpec_iff_eq_model (xs : List Rec) (gs : List (List Rec)) (hs : SortedRecs xs) :
    GroupsSpec xs gs ↔ groups xs = .ok gs := by
  constructor
  · intro h
    obtain ⟨gs', hg, hG⟩ := groups_good xs hs
    rw [groupsSpec_unique xs gs gs' h ((groupsSpec_iff_goodGroups xs gs').mpr hG)]
    exact hg
  · intro hg
    exact (groupsSpec_iff_goodGroups xs gs).mpr (good_of_ok hs hg)

/-- the checker `goodGroupsB` accepts only the model's grouping (sorted input) -/
theorem goodGroupsB_eq_model (xs : List Rec) (gs : List (List Rec)) (hs : SortedRecs xs)
    (h : goodGroupsB xs gs = true) : groups xs = .ok gs :=
  (groupsSpec_iff_eq_model xs gs hs).mp (groupsSpec_of_goodGroupsB xs gs h)

/-- the clauses `C07_mergedOkB_sound` concludes -/
def MergedSpec (xs out : List Rec) (gs : List (List Rec)) : Prop :=
  out = gs.map mergeGroup ∧ SortedRecs out ∧
  (∀ i (hi : i + 1 < out.length), out[i].chrom ≠ out[i+1].chrom ∨ out[i].stop < out[i+1].start) ∧
  (∀ c p, coveredBy xs c p ↔ coveredBy out c p)

theorem mergedSpec_of_mergedOkB (xs out : List Rec) (gs : List (List Rec)) (h : mergedOkB xs out gs = true) :
    MergedSpec xs out gs := C07_mergedOkB_sound xs out gs h

/-- given the grouping, the merged-output clauses hold of exactly the model's output -/
theorem mergedSpec_iff_eq_model_of_groups (xs out : List Rec) (gs : List (List Rec)) (hs : SortedRecs xs)
    (hv : ∀ r ∈ xs, r.start ≤ r.stop) (hG : GroupsSpec xs gs) :
    MergedSpec xs out gs ↔ mergeSortedBed xs = .ok out := by
  have hg := (groupsSpec_iff_eq_model xs gs hs).mp hG
  have hG' := (groupsSpec_iff_goodGroups xs gs).mp hG
  constructor
  · intro h
    rw [h.1]
    exact mergeSortedBed_ok hg
  · intro h
    rw [mergeSortedBed_ok hg] at h
    cases h
    exact ⟨rfl, merged_sorted hs hv hG', merged_adjacent hs hG', merged_cover hs hG'⟩

/-- for sorted input: `out` is accepted together with some grouping iff it is the model's output -/
theorem mergedSpec_iff_eq_model (xs out : List Rec) (hs : SortedRecs xs) (hv : ∀ r ∈ xs, r.start ≤ r.stop) :
    (∃ gs, GroupsSpec xs gs ∧ MergedSpec xs out gs) ↔ mergeSortedBed xs = .ok out := by
  constructor
  · rintro ⟨gs, hG, hM⟩
    exact (mergedSpec_iff_eq_model_of_groups xs out gs hs hv hG).mp hM
  · intro h
    obtain ⟨gs, hg, hG⟩ := groups_good xs hs
    have hG' := (groupsSpec_iff_goodGroups xs gs).mpr hG
    exact ⟨gs, hG', (mergedSpec_iff_eq_model_of_groups xs out gs hs hv hG').mpr h⟩

/-- both checkers accept only the model's output (sorted input) -/
theorem mergedOkB_eq_model (xs out : List Rec) (gs : List (List Rec)) (hs : SortedRecs xs)
    (h₁ : goodGroupsB xs gs = true) (h₂ : mergedOkB xs out gs = true) : mergeSortedBed xs = .ok out := by
  have hg := goodGroupsB_eq_model xs gs hs h₁
  rw [(C07_mergedOkB_sound xs out gs h₂).1]
  exact mergeSortedBed_ok hg

#print axioms groupsSpec_of_goodGroupsB
#print axioms groupsSpec_unique
#print axioms groupsSpec_iff_eq_model
#print axioms goodGroupsB_eq_model
#print axioms mergedSpec_iff_eq_model_of_groups
#print axioms mergedSpec_iff_eq_model
#print axioms mergedOkB_eq_model

end BV
