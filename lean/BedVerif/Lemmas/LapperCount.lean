import BedVerif.Model.Lapper
/-! `count`: the binary search is the lower bound; inclusion–exclusion over the sorted projections. -/
namespace BV
variable {α : Type}

def cLt (k : Nat) (l : List Nat) : Nat := l.countP (· < k)
def cLe (k : Nat) (l : List Nat) : Nat := l.countP (· ≤ k)
def SortedN (l : List Nat) : Prop := l.Pairwise (· ≤ ·)

theorem idx_lt_cLt (l : List Nat) (hs : SortedN l) (k i : Nat) (hi : i < l.length) : l[i] < k ↔ i < cLt k l := by
  induction l generalizing i with
  | nil => simp at hi
  | cons a t ih =>
    have hp := List.pairwise_cons.mp hs
    unfold cLt at *
    by_cases hak : a < k
    · cases i with
      | zero => simp [hak]
      | succ j => simp at hi; have := ih hp.2 j hi; simp [hak, this]
    · have hall : ∀ x ∈ t, ¬ x < k := fun x hx => by have := hp.1 x hx; omega
      have h0 : List.countP (fun x => decide (x < k)) t = 0 := by
        rw [List.countP_eq_zero]; intro x hx; simpa using hall x hx
      cases i with
      | zero => simp [hak, h0]
      | succ j => simp at hi; have hj := hall _ (List.getElem_mem hi); simp [hak, h0, hj]

theorem idx_lt_cLe (l : List Nat) (hs : SortedN l) (k i : Nat) (hi : i < l.length) : l[i] ≤ k ↔ i < cLe k l := by
  have := idx_lt_cLt l hs (k+1) i hi
  unfold cLt cLe at *
  have e : (fun x => decide (x < k + 1)) = (fun x => decide (x ≤ k)) := by funext x; simp [Nat.lt_succ_iff]
  rw [e] at this
  omega

theorem cmp_lt_iff (a b : Nat) : (compare a b == Ordering.lt) = true ↔ a < b := by
  simp [Nat.compare_eq_lt]

theorem bsLoop_spec (k : Nat) (l : Array Nat) (hs : SortedN l.toList) :
    ∀ fuel low high, high - low ≤ fuel + 1 → low < high → high ≤ l.size →
      (∀ h : low < l.size, l[low] < k) → (∀ h : high < l.size, ¬ l[high] < k) →
      bsLoop compare k l fuel low high = cLt k l.toList := by
  intro fuel
  induction fuel with
  | zero =>
    intro low high hf hlh hhl hlow hhigh
    simp [bsLoop]
    have h1 := (idx_lt_cLt l.toList hs k low (by simp; omega)).mp (by simpa using hlow (by omega))
    have hc : cLt k l.toList ≤ l.size := by unfold cLt; simpa using (List.countP_le_length (l := l.toList))
    by_cases hh : high < l.size
    · have h2 := mt (idx_lt_cLt l.toList hs k high (by simpa using hh)).mpr (by simpa using hhigh hh)
      omega
    · omega
  | succ n ih =>
    intro low high hf hlh hhl hlow hhigh
    simp only [bsLoop]
    split
    · have hmid : (high + low) / 2 < l.size := by omega
      have hget : l[(high + low) / 2]? = some l[(high + low) / 2] := by simp [hmid]
      rw [hget]; simp only
      split
      · rename_i hlt
        have hlt' := (cmp_lt_iff _ _).mp hlt
        apply ih <;> first | omega | assumption | (intro _; exact hlt')
      · rename_i hge
        have hge' : ¬ l[(high + low) / 2] < k := fun h => hge ((cmp_lt_iff _ _).mpr h)
        apply ih <;> first | omega | assumption | (intro _; exact hge')
    · have h1 := (idx_lt_cLt l.toList hs k low (by simp; omega)).mp (by simpa using hlow (by omega))
      have hc : cLt k l.toList ≤ l.size := by unfold cLt; simpa using (List.countP_le_length (l := l.toList))
      by_cases hh : high < l.size
      · have h2 := mt (idx_lt_cLt l.toList hs k high (by simpa using hh)).mpr (by simpa using hhigh hh)
        omega
      · omega

/-- the repaired `bsearch_seq` is the lower bound -/
theorem bsearchSeq_fixed (k : Nat) (l : Array Nat) (hs : SortedN l.toList) :
    bsearchSeq compare k l = cLt k l.toList := by
  unfold bsearchSeq
  cases hsz : l.size with
  | zero =>
    have : l = #[] := Array.eq_empty_of_size_eq_zero hsz
    subst this; simp [cLt]
  | succ n =>
    have h0 : l[0]? = some l[0] := by simp [hsz]
    rw [h0]; simp only
    by_cases hlt : l[0] < k
    · have : (compare l[0] k != Ordering.lt) = false := by simp [Nat.compare_eq_lt, hlt]
      simp only [this, Bool.false_eq_true, if_false]
      rw [← hsz]
      apply bsLoop_spec k l hs <;> first | omega | (intro _; exact hlt) | (intro h; omega)
    · have : (compare l[0] k != Ordering.lt) = true := by simp [Nat.compare_eq_lt, hlt]
      simp only [this, Bool.false_eq_true, if_false, if_true]
      have := mt (idx_lt_cLt l.toList hs k 0 (by simp; omega)).mpr (by simpa using hlt)
      omega

theorem skipEq_spec (l : Array Nat) (hs : SortedN l.toList) (k : Nat) :
    ∀ fuel f, l.size - f ≤ fuel → cLt k l.toList ≤ f → f ≤ cLe k l.toList →
      skipEq l k fuel f = cLe k l.toList := by
  intro fuel
  have hc : cLe k l.toList ≤ l.size := by unfold cLe; simpa using (List.countP_le_length (l := l.toList))
  induction fuel with
  | zero => intro f hf h1 h2; simp [skipEq]; omega
  | succ n ih =>
    intro f hf h1 h2
    simp only [skipEq]
    by_cases hfl : f < l.size
    · have hget : l[f]? = some l[f] := by simp [hfl]
      rw [hget]; simp only
      have a := idx_lt_cLt l.toList hs k f (by simpa using hfl)
      have b := idx_lt_cLe l.toList hs k f (by simpa using hfl)
      simp only [Array.getElem_toList] at a b
      split
      · rename_i heq
        have : l[f] = k := by simpa using heq
        apply ih <;> omega
      · rename_i hne
        have : l[f] ≠ k := by simpa using hne
        omega
    · have : l[f]? = none := by simp; omega
      rw [this]; simp only; omega

/-- counting lemma: with start ≤ stop and qs < qe the two excluded classes are disjoint -/
theorem countP_ov (l : List (Iv α)) (qs qe : Nat) (hq : qs < qe) (hw : ∀ iv ∈ l, iv.start ≤ iv.stop) :
    l.countP (·.ov qs qe) + l.countP (fun iv => iv.stop ≤ qs) + (l.length - l.countP (fun iv => iv.start < qe)) = l.length := by
  induction l with
  | nil => simp
  | cons a t ih =>
    have hw' : ∀ iv ∈ t, iv.start ≤ iv.stop := fun iv h => hw iv (List.mem_cons_of_mem _ h)
    have ha := hw a (List.mem_cons_self)
    have := ih hw'
    have c1 : t.countP (fun iv => decide (iv.start < qe)) ≤ t.length := List.countP_le_length
    have hov : a.ov qs qe = (decide (a.start < qe) && decide (a.stop > qs)) := rfl
    by_cases h1 : a.start < qe <;> by_cases h2 : a.stop > qs
    · have h3 : ¬ a.stop ≤ qs := by omega
      simp only [List.countP_cons, List.length_cons, hov, h1, h2, h3, decide_true, decide_false, Bool.and_self, if_true, if_false, Bool.false_eq_true] at *
      omega
    · have h3 : a.stop ≤ qs := by omega
      simp only [List.countP_cons, List.length_cons, hov, h1, h2, h3, decide_true, decide_false, Bool.and_false, if_true, if_false, Bool.false_eq_true] at *
      omega
    · have h3 : ¬ a.stop ≤ qs := by omega
      simp only [List.countP_cons, List.length_cons, hov, h1, h2, h3, decide_true, decide_false, Bool.false_and, if_true, if_false, Bool.false_eq_true] at *
      omega
    · omega

theorem count_eq (s : Lapper α)
    (hst : SortedN s.starts.toList) (hsp : s.starts.toList.Perm (s.intervals.toList.map (·.start)))
    (hso : SortedN s.stops.toList) (hop : s.stops.toList.Perm (s.intervals.toList.map (·.stop)))
    (hw : ∀ iv ∈ s.intervals.toList, iv.start ≤ iv.stop) (qs qe : Nat) (hq : qs < qe) :
    s.count qs qe = s.intervals.toList.countP (·.ov qs qe) := by
  unfold Lapper.count
  dsimp only
  rw [bsearchSeq_fixed qs _ hso, bsearchSeq_fixed qe _ hst]
  have hlen1 : s.stops.size = s.intervals.size := by have := hop.length_eq; simpa using this
  have hlen2 : s.starts.size = s.intervals.size := by have := hsp.length_eq; simpa using this
  have hcl : cLt qs s.stops.toList ≤ cLe qs s.stops.toList := by
    unfold cLt cLe; apply List.countP_mono_left; intro x _ hx; simp at hx ⊢; omega
  rw [skipEq_spec s.stops hso qs _ _ (by omega) (Nat.le_refl _) hcl]
  have e1 : cLe qs s.stops.toList = s.intervals.toList.countP (fun iv => iv.stop ≤ qs) := by
    unfold cLe; rw [hop.countP_eq, List.countP_map]; rfl
  have e2 : cLt qe s.starts.toList = s.intervals.toList.countP (fun iv => iv.start < qe) := by
    unfold cLt; rw [hsp.countP_eq, List.countP_map]; rfl
  rw [e1, e2]
  have := countP_ov s.intervals.toList qs qe hq hw
  have c1 : s.intervals.toList.countP (fun iv => decide (iv.start < qe)) ≤ s.intervals.toList.length := List.countP_le_length
  simp at this c1 ⊢
  omega
end BV
