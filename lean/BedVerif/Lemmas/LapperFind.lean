import BedVerif.Model.Lapper
/-! `find` = `filter` on start-sorted lists: lower bound, `max_len` pruning, early `break`. -/
namespace BV
variable {α : Type}

def cntLt (s : Nat) (l : List (Iv α)) : Nat := l.countP (fun iv => iv.start < s)

def SortedStart (l : List (Iv α)) : Prop := l.Pairwise (fun a b => a.start ≤ b.start)

theorem cntLt_le_length (s : Nat) (l : List (Iv α)) : cntLt s l ≤ l.length := List.countP_le_length

/-- on a start-sorted list, "element i has start < s" iff i < cntLt -/
theorem lt_iff_idx_lt_cnt (l : List (Iv α)) (hs : SortedStart l) (s i : Nat) (hi : i < l.length) :
    (l[i]).start < s ↔ i < cntLt s l := by
  induction l generalizing i with
  | nil => simp at hi
  | cons a t ih =>
    have hp := List.pairwise_cons.mp hs
    unfold cntLt at *
    by_cases hak : a.start < s
    · cases i with
      | zero => simp [List.countP_cons, hak]
      | succ j =>
        simp at hi
        have := ih hp.2 j hi
        simp [List.countP_cons, hak, this]
    · have hall : ∀ x ∈ t, ¬ x.start < s := fun x hx => by have := hp.1 x hx; omega
      have h0 : List.countP (fun iv => decide (iv.start < s)) t = 0 := by
        rw [List.countP_eq_zero]; intro x hx; simpa using hall x hx
      cases i with
      | zero => simp [List.countP_cons, hak, h0]
      | succ j =>
        simp at hi
        have hj : ¬ (t[j]).start < s := hall _ (List.getElem_mem hi)
        simp [List.countP_cons, hak, h0, hj]

theorem lbLoop_spec (s : Nat) (l : Array (Iv α)) (hs : SortedStart l.toList) :
    ∀ fuel size low, size ≤ fuel → low + size ≤ l.size →
      low ≤ cntLt s l.toList → cntLt s l.toList ≤ low + size →
      lbLoop s l fuel size low = cntLt s l.toList := by
  intro fuel
  induction fuel with
  | zero =>
    intro size low hf hb h1 h2
    simp [lbLoop]; omega
  | succ n ih =>
    intro size low hf hb h1 h2
    simp only [lbLoop]
    split
    · rename_i hpos
      have hprobe : low + size / 2 < l.size := by omega
      have hget : l[low + size / 2]? = some l[low + size / 2] := by simp [hprobe]
      rw [hget]
      simp only
      have key := lt_iff_idx_lt_cnt l.toList hs s (low + size / 2) (by simpa using hprobe)
      simp only [Array.getElem_toList] at key
      split
      · rename_i hlt
        have := key.mp hlt
        apply ih <;> omega
      · rename_i hge
        have := mt key.mpr hge
        apply ih <;> omega
    · omega

theorem lowerBound_eq (s : Nat) (l : Array (Iv α)) (hs : SortedStart l.toList) :
    lowerBound s l = cntLt s l.toList := by
  unfold lowerBound
  apply lbLoop_spec s l hs <;> first | omega | (have := cntLt_le_length s l.toList; simp at this ⊢; omega)

theorem scan_eq_filter (l : List (Iv α)) (s e : Nat) (hs : SortedStart l) :
    scan l s e = l.filter (·.ov s e) := by
  induction l with
  | nil => simp [scan]
  | cons iv rest ih =>
    have hrest := (List.pairwise_cons.mp hs)
    simp only [scan, List.filter_cons]
    split
    · simp [ih hrest.2]
    · split
      · symm
        rw [List.filter_eq_nil_iff]
        intro a ha
        have := hrest.1 a ha
        simp [Iv.ov]; omega
      · exact ih hrest.2

/-- dropping a prefix of non-hits does not change the filter -/
theorem filter_drop_of_prefix_nohit (l : List (Iv α)) (p : Iv α → Bool) (k : Nat)
    (h : ∀ i (hi : i < l.length), i < k → p l[i] = false) :
    (l.drop k).filter p = l.filter p := by
  induction l generalizing k with
  | nil => simp
  | cons a t ih =>
    cases k with
    | zero => simp
    | succ k =>
      have ha : p a = false := h 0 (by simp) (by omega)
      simp only [List.drop_succ_cons, List.filter_cons, ha]
      simp
      apply ih
      intro i hi hik
      exact h (i+1) (by simp; omega) (by omega)

theorem find_eq_filter (s : Lapper α)
    (hsorted : SortedStart s.intervals.toList)
    (hmax : ∀ iv ∈ s.intervals.toList, iv.len ≤ s.maxLen)
    (qs qe : Nat) :
    s.find qs qe = s.intervals.toList.filter (·.ov qs qe) := by
  unfold Lapper.find
  rw [lowerBound_eq _ _ hsorted]
  have hdrop : SortedStart (s.intervals.toList.drop (cntLt (qs - s.maxLen) s.intervals.toList)) :=
    List.Pairwise.sublist (List.drop_sublist _ _) hsorted
  rw [scan_eq_filter _ _ _ hdrop]
  apply filter_drop_of_prefix_nohit
  intro i hi hik
  have hlt := (lt_iff_idx_lt_cnt s.intervals.toList hsorted (qs - s.maxLen) i hi).mpr hik
  have hlen := hmax _ (List.getElem_mem hi)
  simp [Iv.ov, Iv.len] at *
  intro _
  omega
end BV
