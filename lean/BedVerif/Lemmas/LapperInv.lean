import BedVerif.Lemmas.BSearch
import BedVerif.Lemmas.LapperFind
/-! The structural invariant of `Lapper` and its preservation by `new`, `insert`, `set_cov`
and (for intervals with `start ≤ stop`) `merge_overlaps`; lifted to every state reachable by an
operation history. -/
namespace BV
variable {α : Type}

/-! ### facts about `Iv.cmp` -/
theorem Iv.cmp_lt_iff (a b : Iv α) : (Iv.cmp a b == .lt) = true ↔ a.start < b.start ∨ (a.start = b.start ∧ a.stop < b.stop) := by
  unfold Iv.cmp
  rcases Nat.lt_trichotomy a.start b.start with h | h | h
  · simp [Nat.compare_eq_lt.mpr h, Ordering.then]; omega
  · rcases Nat.lt_trichotomy a.stop b.stop with h' | h' | h'
    · simp [Nat.compare_eq_eq.mpr h, Nat.compare_eq_lt.mpr h', Ordering.then]; omega
    · simp [Nat.compare_eq_eq.mpr h, Nat.compare_eq_eq.mpr h', Ordering.then]; omega
    · simp [Nat.compare_eq_eq.mpr h, Nat.compare_eq_gt.mpr h', Ordering.then]; omega
  · simp [Nat.compare_eq_gt.mpr h, Ordering.then]; omega

theorem Iv.le_iff (a b : Iv α) : a.le b = true ↔ a.start < b.start ∨ (a.start = b.start ∧ a.stop ≤ b.stop) := by
  unfold Iv.le Iv.cmp
  rcases Nat.lt_trichotomy a.start b.start with h | h | h
  · simp [Nat.compare_eq_lt.mpr h, Ordering.then]; omega
  · rcases Nat.lt_trichotomy a.stop b.stop with h' | h' | h'
    · simp [Nat.compare_eq_eq.mpr h, Nat.compare_eq_lt.mpr h', Ordering.then]; omega
    · simp [Nat.compare_eq_eq.mpr h, Nat.compare_eq_eq.mpr h', Ordering.then]; omega
    · simp [Nat.compare_eq_eq.mpr h, Nat.compare_eq_gt.mpr h', Ordering.then]; omega
  · simp [Nat.compare_eq_gt.mpr h, Ordering.then]; omega

theorem ivLe_total : TotalLe (Iv.le (α := α)) :=
  ⟨fun a b => by simp only [Iv.le_iff]; omega, fun a b c => by simp only [Iv.le_iff]; omega⟩

theorem sortedStart_of_le {l : List (Iv α)} (h : l.Pairwise (fun a b => a.le b = true)) : SortedStart l :=
  h.imp (fun hab => by rw [Iv.le_iff] at hab; omega)

theorem natcmp_lt_iff (a b : Nat) : (compare a b == Ordering.lt) = true ↔ a < b := by
  simp [Nat.compare_eq_lt]

/-! ### the invariant -/
structure Inv (s : Lapper α) : Prop where
  sorted : s.intervals.toList.Pairwise (fun a b => a.le b = true)
  starts_sorted : s.starts.toList.Pairwise (· ≤ ·)
  starts_perm : s.starts.toList.Perm (s.intervals.toList.map (·.start))
  stops_sorted : s.stops.toList.Pairwise (· ≤ ·)
  stops_perm : s.stops.toList.Perm (s.intervals.toList.map (·.stop))
  maxLen_ge : ∀ iv ∈ s.intervals.toList, iv.len ≤ s.maxLen

def Weak (s : Lapper α) : Prop := ∀ iv ∈ s.intervals.toList, iv.start ≤ iv.stop

theorem Inv.sortedStart {s : Lapper α} (h : Inv s) : SortedStart s.intervals.toList := sortedStart_of_le h.sorted

theorem maxLenOf_foldl_ge (l : List (Iv α)) (m : Nat) :
    m ≤ l.foldl (fun m iv => if iv.len > m then iv.len else m) m ∧
    ∀ iv ∈ l, iv.len ≤ l.foldl (fun m iv => if iv.len > m then iv.len else m) m := by
  induction l generalizing m with
  | nil => simp
  | cons a t ih =>
    simp only [List.foldl_cons]
    have h1 := ih (if a.len > m then a.len else m)
    have hm : m ≤ (if a.len > m then a.len else m) ∧ a.len ≤ (if a.len > m then a.len else m) := by
      split <;> omega
    refine ⟨by have := h1.1; omega, ?_⟩
    intro iv hiv
    rcases List.mem_cons.mp hiv with rfl | hiv
    · have := h1.1; omega
    · exact h1.2 iv hiv

theorem maxLenOf_ge (l : List (Iv α)) : ∀ iv ∈ l, iv.len ≤ maxLenOf l := (maxLenOf_foldl_ge l 0).2

theorem inv_of_sorted_list (ivs : List (Iv α)) (hs : ivs.Pairwise (fun a b => a.le b = true)) (cov : Option Nat) (mg : Bool) :
    Inv { intervals := ivs.toArray, starts := (sortNat (ivs.map (·.start))).toArray,
          stops := (sortNat (ivs.map (·.stop))).toArray, maxLen := maxLenOf ivs, cov := cov, merged := mg } where
  sorted := by simpa using hs
  starts_sorted := by simpa using sortNat_sorted _
  starts_perm := by simpa using sortNat_perm _
  stops_sorted := by simpa using sortNat_sorted _
  stops_perm := by simpa using sortNat_perm _
  maxLen_ge := by simpa using maxLenOf_ge ivs

theorem inv_new (l : List (Iv α)) : Inv (Lapper.new l) := by
  unfold Lapper.new
  exact inv_of_sorted_list _ (isort_sorted ivLe_total l) none false

theorem new_intervals_perm (l : List (Iv α)) : (Lapper.new l).intervals.toList.Perm l := by
  unfold Lapper.new; simpa using isort_perm Iv.le l

theorem insertAt_toList {β : Type} (a : Array β) (i : Nat) (x : β) :
    (insertAt a i x).toList = a.toList.take i ++ x :: a.toList.drop i := by
  unfold insertAt; simp

theorem prefixClosed_nat (l : List Nat) (hs : l.Pairwise (· ≤ ·)) (k : Nat) :
    PrefixClosed (fun x => compare x k == Ordering.lt) l :=
  hs.imp (fun {a b} hab hb => by rw [natcmp_lt_iff] at hb ⊢; omega)

theorem prefixClosed_iv (l : List (Iv α)) (hs : l.Pairwise (fun a b => a.le b = true)) (e : Iv α) :
    PrefixClosed (fun x => Iv.cmp x e == Ordering.lt) l :=
  hs.imp (fun {a b} hab hb => by rw [Iv.cmp_lt_iff] at hb ⊢; rw [Iv.le_iff] at hab; omega)

theorem insert_nat_sorted (l : Array Nat) (hs : l.toList.Pairwise (· ≤ ·)) (k : Nat) :
    (insertAt l (bsearchSeq compare k l) k).toList.Pairwise (· ≤ ·) := by
  rw [insertAt_toList, bsearchSeq_countP compare k l (prefixClosed_nat _ hs k)]
  have := insert_at_countP_sorted (le := fun a b : Nat => decide (a ≤ b)) natLe_total.trans l.toList k
    (fun x => compare x k == Ordering.lt)
    (fun y hy => by rw [natcmp_lt_iff] at hy; simp; omega)
    (fun y hy => by
      have : ¬ y < k := fun h => by rw [(natcmp_lt_iff y k).mpr h] at hy; cases hy
      simp; omega)
    (hs.imp (fun h => by simpa using h)) (prefixClosed_nat _ hs k)
  exact this.imp (fun h => by simpa using h)

theorem insert_nat_perm (l : Array Nat) (k i : Nat) : (insertAt l i k).toList.Perm (k :: l.toList) := by
  rw [insertAt_toList]; exact insert_at_perm _ _ _

theorem inv_insert (s : Lapper α) (h : Inv s) (e : Iv α) : Inv (s.insert e) where
  sorted := by
    unfold Lapper.insert; simp only
    rw [insertAt_toList, bsearchSeq_countP Iv.cmp e s.intervals (prefixClosed_iv _ h.sorted e)]
    exact insert_at_countP_sorted ivLe_total.trans s.intervals.toList e (fun x => Iv.cmp x e == Ordering.lt)
      (fun y hy => by rw [Iv.cmp_lt_iff] at hy; rw [Iv.le_iff]; omega)
      (fun y hy => by
        have : ¬ (y.start < e.start ∨ (y.start = e.start ∧ y.stop < e.stop)) := fun h' => by
          rw [(Iv.cmp_lt_iff y e).mpr h'] at hy; cases hy
        rw [Iv.le_iff]; omega)
      h.sorted (prefixClosed_iv _ h.sorted e)
  starts_sorted := by unfold Lapper.insert; exact insert_nat_sorted _ h.starts_sorted _
  starts_perm := by
    unfold Lapper.insert; simp only
    refine (insert_nat_perm _ _ _).trans ?_
    rw [insertAt_toList]
    have := (insert_at_perm s.intervals.toList e (bsearchSeq Iv.cmp e s.intervals)).map (·.start)
    exact (List.Perm.cons _ h.starts_perm).trans (by simpa using this.symm)
  stops_sorted := by unfold Lapper.insert; exact insert_nat_sorted _ h.stops_sorted _
  stops_perm := by
    unfold Lapper.insert; simp only
    refine (insert_nat_perm _ _ _).trans ?_
    rw [insertAt_toList]
    have := (insert_at_perm s.intervals.toList e (bsearchSeq Iv.cmp e s.intervals)).map (·.stop)
    exact (List.Perm.cons _ h.stops_perm).trans (by simpa using this.symm)
  maxLen_ge := by
    unfold Lapper.insert; simp only
    intro iv hiv
    rw [insertAt_toList] at hiv
    have hm := (insert_at_perm s.intervals.toList e _).mem_iff.mp hiv
    rcases List.mem_cons.mp hm with rfl | hm
    · split <;> omega
    · have := h.maxLen_ge iv hm; split <;> omega

theorem insert_intervals_perm (s : Lapper α) (e : Iv α) : (s.insert e).intervals.toList.Perm (e :: s.intervals.toList) := by
  unfold Lapper.insert; simp only; rw [insertAt_toList]; exact insert_at_perm _ _ _

theorem inv_setCov (s : Lapper α) (h : Inv s) : Inv s.setCov := by
  unfold Lapper.setCov; exact ⟨h.sorted, h.starts_sorted, h.starts_perm, h.stops_sorted, h.stops_perm, h.maxLen_ge⟩

/-! ### merge_overlaps -/

/-- the merged list, as a function on lists -/
def mergeList (l : List (Iv α)) : List (Iv α) := (l.foldl mergeStep []).reverse

/-- invariant of the stack during the merge loop (`acc` head = stack top) -/
structure MInv (acc rest : List (Iv α)) : Prop where
  weak : ∀ iv ∈ acc, iv.start ≤ iv.stop
  sep : acc.Pairwise (fun a b => b.stop < a.start)
  top_le : ∀ top ∈ acc.head?, ∀ iv ∈ rest, top.start ≤ iv.start

theorem mergeStep_inv (acc : List (Iv α)) (iv : Iv α) (rest : List (Iv α))
    (h : MInv acc (iv :: rest)) (hw : iv.start ≤ iv.stop) (hs : ∀ x ∈ rest, iv.start ≤ x.start) :
    MInv (mergeStep acc iv) rest := by
  cases acc with
  | nil =>
    simp only [mergeStep]
    exact ⟨by simpa using hw, by simp, by simpa using hs⟩
  | cons top t =>
    have htw := h.weak top (by simp)
    have hsep := List.pairwise_cons.mp h.sep
    have htl := h.top_le top (by simp)
    simp only [mergeStep]
    split
    · rename_i hlt
      refine ⟨?_, ?_, by simpa using hs⟩
      · intro x hx
        rcases List.mem_cons.mp hx with rfl | hx
        · exact hw
        · exact h.weak x hx
      · apply List.pairwise_cons.mpr
        refine ⟨?_, h.sep⟩
        intro b hb
        rcases List.mem_cons.mp hb with rfl | hb
        · exact hlt
        · have := hsep.1 b hb; omega
    · split
      · rename_i hge hlt
        refine ⟨?_, ?_, ?_⟩
        · intro x hx
          rcases List.mem_cons.mp hx with rfl | hx
          · simp; omega
          · exact h.weak x (List.mem_cons_of_mem _ hx)
        · apply List.pairwise_cons.mpr
          exact ⟨fun b hb => by simpa using hsep.1 b hb, hsep.2⟩
        · intro top' ht' x hx
          simp at ht'; subst ht'
          simpa using htl x (List.mem_cons_of_mem _ hx)
      · exact ⟨h.weak, h.sep, fun top' ht' x hx => h.top_le top' ht' x (List.mem_cons_of_mem _ hx)⟩

theorem mergeFold_inv (l : List (Iv α)) (acc : List (Iv α)) (h : MInv acc l)
    (hw : ∀ iv ∈ l, iv.start ≤ iv.stop) (hs : SortedStart l) :
    MInv (l.foldl mergeStep acc) [] := by
  induction l generalizing acc with
  | nil => simpa using h
  | cons a t ih =>
    have hp := List.pairwise_cons.mp hs
    simp only [List.foldl_cons]
    exact ih _ (mergeStep_inv acc a t h (hw a (by simp)) hp.1) (fun iv hiv => hw iv (List.mem_cons_of_mem _ hiv)) hp.2

/-- the result of the merge loop: weak intervals, strictly separated, ascending -/
theorem mergeList_sep (l : List (Iv α)) (hw : ∀ iv ∈ l, iv.start ≤ iv.stop) (hs : SortedStart l) :
    (∀ iv ∈ mergeList l, iv.start ≤ iv.stop) ∧ (mergeList l).Pairwise (fun a b => a.stop < b.start) := by
  have h := mergeFold_inv l [] ⟨by simp, by simp, by simp⟩ hw hs
  unfold mergeList
  exact ⟨by simpa using h.weak, by rw [List.pairwise_reverse]; exact h.sep⟩

theorem sorted_of_sep (l : List (Iv α)) (hw : ∀ iv ∈ l, iv.start ≤ iv.stop)
    (hp : l.Pairwise (fun a b => a.stop < b.start)) : l.Pairwise (fun a b => a.le b = true) := by
  induction l with
  | nil => simp
  | cons a t ih =>
    have h := List.pairwise_cons.mp hp
    apply List.pairwise_cons.mpr
    refine ⟨fun b hb => ?_, ih (fun iv hiv => hw iv (List.mem_cons_of_mem _ hiv)) h.2⟩
    have := h.1 b hb; have := hw a (by simp)
    rw [Iv.le_iff]; omega

theorem mergeOverlaps_intervals (s : Lapper α) : s.mergeOverlaps.intervals.toList = mergeList s.intervals.toList := by
  unfold Lapper.mergeOverlaps mergeList; simp

theorem inv_merge (s : Lapper α) (h : Inv s) (hw : Weak s) : Inv s.mergeOverlaps ∧ Weak s.mergeOverlaps := by
  have hm := mergeList_sep s.intervals.toList hw h.sortedStart
  refine ⟨?_, ?_⟩
  · unfold Lapper.mergeOverlaps
    exact inv_of_sorted_list _ (sorted_of_sep _ hm.1 hm.2) _ _
  · unfold Weak; rw [mergeOverlaps_intervals]; exact hm.1

theorem weak_insert (s : Lapper α) (hw : Weak s) (e : Iv α) (he : e.start ≤ e.stop) : Weak (s.insert e) := by
  intro iv hiv
  rcases List.mem_cons.mp ((insert_intervals_perm s e).mem_iff.mp hiv) with rfl | h
  · exact he
  · exact hw iv h

/-! ### histories -/
def insertedOf (ops : List (Op α)) : List (Iv α) := ops.filterMap (fun | .insert iv => some iv | _ => none)
/-- every interval that enters the structure during the history -/
def recordsOf (l : List (Iv α)) (ops : List (Op α)) : List (Iv α) := l ++ insertedOf ops
def WeakIvs (l : List (Iv α)) (ops : List (Op α)) : Prop := ∀ iv ∈ recordsOf l ops, iv.start ≤ iv.stop
def NoMerge (ops : List (Op α)) : Prop := Op.merge ∉ ops

theorem inv_foldl_weak (ops : List (Op α)) (s : Lapper α) (h : Inv s) (hw : Weak s)
    (hops : ∀ iv ∈ insertedOf ops, iv.start ≤ iv.stop) :
    Inv (ops.foldl Lapper.step s) ∧ Weak (ops.foldl Lapper.step s) := by
  induction ops generalizing s with
  | nil => exact ⟨h, hw⟩
  | cons o t ih =>
    simp only [List.foldl_cons]
    cases o with
    | insert iv =>
      have hiv : iv.start ≤ iv.stop := hops iv (by simp [insertedOf])
      exact ih _ (inv_insert s h iv) (weak_insert s hw iv hiv) (fun x hx => hops x (by simp [insertedOf] at hx ⊢; exact Or.inr hx))
    | merge =>
      have := inv_merge s h hw
      exact ih _ this.1 this.2 (fun x hx => hops x (by simpa [insertedOf] using hx))
    | setCov =>
      exact ih _ (inv_setCov s h) (by simpa [Weak, Lapper.setCov, Lapper.step] using hw) (fun x hx => hops x (by simpa [insertedOf] using hx))

/-- every state reachable by a history over intervals with `start ≤ stop` satisfies the invariant -/
theorem inv_run_weak (l : List (Iv α)) (ops : List (Op α)) (h : WeakIvs l ops) :
    Inv (Lapper.run l ops) ∧ Weak (Lapper.run l ops) := by
  unfold Lapper.run
  apply inv_foldl_weak ops _ (inv_new l)
  · intro iv hiv
    exact h iv (by unfold recordsOf; exact List.mem_append_left _ ((new_intervals_perm l).mem_iff.mp hiv))
  · intro iv hiv; exact h iv (by unfold recordsOf; exact List.mem_append_right _ hiv)

theorem inv_foldl_nomerge (ops : List (Op α)) (s : Lapper α) (h : Inv s) (hn : NoMerge ops) :
    Inv (ops.foldl Lapper.step s) ∧ (ops.foldl Lapper.step s).intervals.toList.Perm (s.intervals.toList ++ insertedOf ops) := by
  induction ops generalizing s with
  | nil => simpa [insertedOf] using h
  | cons o t ih =>
    simp only [List.foldl_cons]
    have hn' : NoMerge t := fun hm => hn (List.mem_cons_of_mem _ hm)
    cases o with
    | insert iv =>
      have := ih _ (inv_insert s h iv) hn'
      refine ⟨this.1, this.2.trans ?_⟩
      have hp := insert_intervals_perm s iv
      simp only [insertedOf, List.filterMap_cons]
      exact (List.Perm.append_right _ hp).trans (by simpa using List.perm_middle.symm)
    | merge => exact absurd (by simp) hn
    | setCov =>
      have := ih _ (inv_setCov s h) hn'
      simpa [insertedOf, Lapper.setCov, Lapper.step] using this

/-- without a merge (arbitrary intervals, even `start > stop`): invariant, and the structure holds
exactly the history's records -/
theorem inv_run_nomerge (l : List (Iv α)) (ops : List (Op α)) (hn : NoMerge ops) :
    Inv (Lapper.run l ops) ∧ (Lapper.run l ops).intervals.toList.Perm (recordsOf l ops) := by
  unfold Lapper.run recordsOf
  have := inv_foldl_nomerge ops _ (inv_new l) hn
  exact ⟨this.1, this.2.trans (List.Perm.append_right _ (new_intervals_perm l))⟩

end BV
