import BedVerif.Lemmas.LapperFind
/-! the carried cursor of `seek`. -/
namespace BV
variable {α : Type}

/-- every index below the cursor holds an interval starting before `bound` -/
def Below (l : Array (Iv α)) (c bound : Nat) : Prop := ∀ i (h : i < l.size), i < c → l[i].start < bound

theorem advance_spec (l : Array (Iv α)) (hs : SortedStart l.toList) (bound : Nat) :
    ∀ fuel c, Below l c bound → Below l (advance l bound fuel c) bound := by
  intro fuel
  induction fuel with
  | zero => intro c h; simpa [advance] using h
  | succ n ih =>
    intro c h
    simp only [advance]
    split
    · rename_i hlt
      have hget : l[c+1]? = some l[c+1] := by simp [hlt]
      rw [hget]; simp only
      split
      · rename_i hb
        apply ih
        intro i hi hic
        by_cases hic' : i < c
        · exact h i hi hic'
        · have : i = c := by omega
          subst this
          have hsorted := (List.pairwise_iff_getElem.mp hs) i (i+1) (by simpa using hi) (by simpa using hlt) (by omega)
          simp only [Array.getElem_toList] at hsorted
          omega
      · exact h
    · exact h

theorem Below.mono {l : Array (Iv α)} {c b b' : Nat} (h : Below l c b) (hb : b ≤ b') : Below l c b' :=
  fun i hi hic => Nat.lt_of_lt_of_le (h i hi hic) hb

theorem below_lowerBound (l : Array (Iv α)) (hs : SortedStart l.toList) (bound : Nat) :
    Below l (lowerBound bound l) bound := by
  intro i hi hic
  rw [lowerBound_eq _ _ hs] at hic
  have := (lt_iff_idx_lt_cnt l.toList hs bound i (by simpa using hi)).mpr hic
  simpa using this

/-- one `seek` call: result = filter, and the cursor invariant is re-established for this query -/
theorem seek_step (s : Lapper α)
    (hsorted : SortedStart s.intervals.toList)
    (hmax : ∀ iv ∈ s.intervals.toList, iv.len ≤ s.maxLen)
    (qs qe c prevBound : Nat) (hinv : Below s.intervals c prevBound) (hmono : prevBound ≤ qs - s.maxLen) :
    (s.seek qs qe c).1 = s.intervals.toList.filter (·.ov qs qe) ∧
    Below s.intervals (s.seek qs qe c).2 (qs - s.maxLen) := by
  unfold Lapper.seek
  simp only
  generalize (c == 0 || match s.intervals[c]? with | some v => decide (v.start > qs) | none => false) = r
  generalize hc1 : (if r = true then lowerBound (qs - s.maxLen) s.intervals else c) = c1
  have hb1 : Below s.intervals c1 (qs - s.maxLen) := by
    subst hc1
    cases r with
    | true => simpa using below_lowerBound _ hsorted _
    | false => simpa using hinv.mono hmono
  have hb2 := advance_spec s.intervals hsorted (qs - s.maxLen) s.intervals.size c1 hb1
  refine ⟨?_, hb2⟩
  have hdrop : SortedStart (s.intervals.toList.drop (advance s.intervals (qs - s.maxLen) s.intervals.size c1)) :=
    List.Pairwise.sublist (List.drop_sublist _ _) hsorted
  rw [scan_eq_filter _ _ _ hdrop]
  apply filter_drop_of_prefix_nohit
  intro i hi hik
  have hlt := hb2 i (by simpa using hi) hik
  have hlen := hmax _ (List.getElem_mem hi)
  simp [Iv.ov, Iv.len] at *
  intro _
  omega

def seekAll (s : Lapper α) : List (Nat × Nat) → Nat → List (List (Iv α))
  | [], _ => []
  | (qs, qe) :: rest, c => (s.seek qs qe c).1 :: seekAll s rest (s.seek qs qe c).2

theorem seekAll_eq (s : Lapper α)
    (hsorted : SortedStart s.intervals.toList)
    (hmax : ∀ iv ∈ s.intervals.toList, iv.len ≤ s.maxLen)
    (qs : List (Nat × Nat)) (hasc : qs.Pairwise (fun a b => a.1 ≤ b.1)) :
    ∀ c prevBound, Below s.intervals c prevBound → (∀ q ∈ qs, prevBound ≤ q.1 - s.maxLen) →
      seekAll s qs c = qs.map (fun q => s.intervals.toList.filter (·.ov q.1 q.2)) := by
  induction qs with
  | nil => intro c b _ _; simp [seekAll]
  | cons q rest ih =>
    intro c b hinv hb
    have hp := List.pairwise_cons.mp hasc
    obtain ⟨h1, h2⟩ := seek_step s hsorted hmax q.1 q.2 c b hinv (hb q (List.mem_cons_self))
    simp only [seekAll, List.map_cons]
    rw [h1]
    congr 1
    apply ih hp.2 _ (q.1 - s.maxLen) h2
    intro q' hq'
    have := hp.1 q' hq'
    omega

/-- C17: one cursor that began at 0, queries with non-decreasing start -/
theorem C17 (s : Lapper α)
    (hsorted : SortedStart s.intervals.toList)
    (hmax : ∀ iv ∈ s.intervals.toList, iv.len ≤ s.maxLen)
    (qs : List (Nat × Nat)) (hasc : qs.Pairwise (fun a b => a.1 ≤ b.1)) :
    seekAll s qs 0 = qs.map (fun q => s.find q.1 q.2) := by
  rw [seekAll_eq s hsorted hmax qs hasc 0 0 (fun i _ h => by omega) (fun _ _ => Nat.zero_le _)]
  apply List.map_congr_left
  intro q _
  exact (find_eq_filter s hsorted hmax q.1 q.2).symm
end BV
