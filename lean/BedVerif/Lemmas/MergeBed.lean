import BedVerif.Spec.Rec
/-! Loop invariant of `MergeBed` (the grouping of sorted records) and the vocabulary of C07. -/
namespace BV



def SortedRecs (xs : List Rec) : Prop := xs.Pairwise (fun a b => Rec.compare a b ≠ .gt)

def runMaxEnd (g : List Rec) : Nat := listMax (g.map (·.stop))

def coveredBy (xs : List Rec) (c : Bytes) (p : Nat) : Prop := ∃ r ∈ xs, r.chrom = c ∧ r.mem p

/-- the groups handed to the merge closure -/
structure GoodGroups (xs : List Rec) (gs : List (List Rec)) : Prop where
  /-- every input record in exactly one group, in input order -/
  flatten : gs.flatten = xs
  nonempty : ∀ g ∈ gs, g ≠ []
  oneChrom : ∀ g ∈ gs, ∀ a ∈ g, ∀ b ∈ g, a.chrom = b.chrom
  /-- chained: each non-first record starts at or before the largest end seen so far in its group
  (overlap or adjacency) -/
  chained : ∀ g ∈ gs, ∀ i (h : i + 1 < g.length), g[i+1].start ≤ runMaxEnd (g.take (i+1))
  /-- maximal: no record of the next group overlaps or abuts any record of this group -/
  maximal : ∀ i (h : i + 1 < gs.length), ∀ a ∈ gs[i], ∀ b ∈ gs[i+1], a.chrom ≠ b.chrom ∨ a.stop < b.start

theorem cmpBytes_eq_iff : ∀ (x y : Bytes), cmpBytes x y = .eq ↔ x = y
  | [], [] => by simp [cmpBytes]
  | [], _ :: _ => by simp [cmpBytes]
  | _ :: _, [] => by simp [cmpBytes]
  | a :: as, b :: bs => by
    have ih := cmpBytes_eq_iff as bs
    simp only [cmpBytes, List.cons.injEq]
    by_cases h1 : a < b
    · simp only [h1, if_true]
      have : a ≠ b := by
        intro h; subst h; exact absurd h1 (by simp)
      simp [this]
    · simp only [h1, if_false]
      by_cases h2 : a > b
      · simp only [h2, if_true]
        have : a ≠ b := by
          intro h; subst h; exact absurd h2 (by simp)
        simp [this]
      · simp only [h2, if_false]
        have : a = b := by
          apply UInt8.toNat_inj.mp
          have h2' : ¬ b < a := h2
          rw [UInt8.lt_iff_toNat_lt] at h1 h2'
          omega
        simp [this, ih]

theorem cmpBytes_swap : ∀ (x y : Bytes), cmpBytes x y = (cmpBytes y x).swap
  | [], [] => by simp [cmpBytes]
  | [], _ :: _ => by simp [cmpBytes]
  | _ :: _, [] => by simp [cmpBytes]
  | a :: as, b :: bs => by
    have ih := cmpBytes_swap as bs
    simp only [cmpBytes]
    by_cases h1 : a < b
    · have h2 : ¬ b < a := by rw [UInt8.lt_iff_toNat_lt] at h1 ⊢; omega
      have h2' : ¬ a > b := h2
      simp [h1, h2]
    · by_cases h2 : b < a
      · have h2' : a > b := h2
        simp [h1, h2]
      · have h2' : ¬ a > b := h2
        have h1' : ¬ b > a := h1
        simp [h1, h2, ih]

theorem cmpBytes_antisymm {x y : Bytes} (h1 : cmpBytes x y ≠ .gt) (h2 : cmpBytes y x ≠ .gt) : x = y := by
  apply (cmpBytes_eq_iff x y).mp
  rw [cmpBytes_swap y x] at h2
  cases h : cmpBytes x y <;> simp_all

theorem cmpBytes_refl (x : Bytes) : cmpBytes x x = .eq := (cmpBytes_eq_iff x x).mpr rfl

theorem compare_chrom {a b : Rec} (h : Rec.compare a b ≠ .gt) : cmpBytes a.chrom b.chrom ≠ .gt := by
  intro hc; apply h; simp [Rec.compare, hc, Ordering.then]

theorem compare_start {a b : Rec} (h : Rec.compare a b ≠ .gt) (hc : a.chrom = b.chrom) : a.start ≤ b.start := by
  apply Nat.le_of_not_lt
  intro hlt
  apply h
  have : Ord.compare a.start b.start = .gt := Nat.compare_eq_gt.mpr hlt
  simp [Rec.compare, hc, cmpBytes_refl, Ordering.then, this]

theorem compare_ne_gt_of_chrom_lt {a b : Rec} (h : cmpBytes a.chrom b.chrom = .lt) : Rec.compare a b ≠ .gt := by
  simp [Rec.compare, h, Ordering.then]

theorem compare_ne_gt_of_start_lt {a b : Rec} (hc : a.chrom = b.chrom) (h : a.start < b.start) : Rec.compare a b ≠ .gt := by
  have : Ord.compare a.start b.start = .lt := Nat.compare_eq_lt.mpr h
  simp [Rec.compare, hc, cmpBytes_refl, Ordering.then, this]

theorem foldl_max_ge_init (l : List Nat) : ∀ i, i ≤ l.foldl max i := by
  induction l with
  | nil => intro i; exact Nat.le_refl _
  | cons x xs ih => intro i; simp only [List.foldl_cons]; exact Nat.le_trans (Nat.le_max_left _ _) (ih _)

theorem foldl_max_ge_mem (l : List Nat) : ∀ i, ∀ x ∈ l, x ≤ l.foldl max i := by
  induction l with
  | nil => intro i x hx; cases hx
  | cons y ys ih =>
    intro i x hx
    simp only [List.foldl_cons]
    rcases List.mem_cons.mp hx with h | h
    · subst h; exact Nat.le_trans (Nat.le_max_right _ _) (foldl_max_ge_init ys _)
    · exact ih _ x h

theorem le_listMax {l : List Nat} {x : Nat} (h : x ∈ l) : x ≤ listMax l := foldl_max_ge_mem l 0 x h

theorem listMax_append_singleton (l : List Nat) (x : Nat) : listMax (l ++ [x]) = max (listMax l) x := by
  simp [listMax, List.foldl_append]

theorem foldl_max_mem (l : List Nat) : ∀ i, l.foldl max i = i ∨ l.foldl max i ∈ l := by
  induction l with
  | nil => intro i; left; rfl
  | cons y ys ih =>
    intro i
    simp only [List.foldl_cons]
    rcases ih (max i y) with h | h
    · rw [h]
      by_cases hle : i ≤ y
      · right; rw [Nat.max_eq_right hle]; exact List.mem_cons_self
      · left; exact Nat.max_eq_left (by omega)
    · right; exact List.mem_cons_of_mem _ h

theorem listMax_mem {l : List Nat} (h : l ≠ []) : listMax l ∈ l := by
  rcases foldl_max_mem l 0 with h0 | h0
  · cases l with
    | nil => exact absurd rfl h
    | cons y ys =>
      have : y ≤ listMax (y :: ys) := le_listMax List.mem_cons_self
      have h0' : listMax (y :: ys) = 0 := h0
      have : y = 0 := by omega
      rw [h0', ← this]; exact List.mem_cons_self
  · exact h0

theorem foldl_min_eq_init (l : List Nat) : ∀ i, (∀ x ∈ l, i ≤ x) → l.foldl min i = i := by
  induction l with
  | nil => intro i _; rfl
  | cons y ys ih =>
    intro i h
    simp only [List.foldl_cons]
    have hy : i ≤ y := h y List.mem_cons_self
    rw [Nat.min_eq_left hy]
    exact ih i (fun x hx => h x (List.mem_cons_of_mem _ hx))

theorem listMin_cons_of_le (y : Nat) (ys : List Nat) (h : ∀ x ∈ ys, y ≤ x) : listMin (y :: ys) = y := by
  unfold listMin
  apply foldl_min_eq_init
  intro x hx
  rcases List.mem_cons.mp hx with h' | h'
  · subst h'; simp
  · simpa using h x h'

def accCur : Option (Acc Rec) → List Rec
  | none => []
  | some a => a.recs.reverse

theorem groupsAux_flatten : ∀ (rest : List Rec) (acc : Option (Acc Rec)) (out gs : List (List Rec)),
    groupsAux id acc rest out = .ok gs → gs.flatten = out.reverse.flatten ++ accCur acc ++ rest := by
  intro rest
  induction rest with
  | nil =>
    intro acc out gs h
    cases acc with
    | none =>
      simp only [groupsAux, Out.ok.injEq] at h
      subst h; simp [accCur]
    | some a =>
      simp only [groupsAux, Out.ok.injEq] at h
      subst h; simp [accCur]
  | cons r rest ih =>
    intro acc out gs h
    cases acc with
    | none =>
      simp only [groupsAux] at h
      have := ih _ _ _ h
      simpa [accCur] using this
    | some a =>
      simp only [groupsAux] at h
      split at h
      · have := ih _ _ _ h
        simpa [accCur] using this
      · split at h
        · cases h
        · split at h
          · have := ih _ _ _ h
            simpa [accCur] using this
          · have := ih _ _ _ h
            simpa [accCur] using this

theorem groups_flatten_any (xs : List Rec) (gs : List (List Rec)) (hg : groups xs = .ok gs) : gs.flatten = xs := by
  have := groupsAux_flatten xs none [] gs hg
  simpa [accCur] using this

def sepR (a b : Rec) : Prop := a.chrom ≠ b.chrom ∨ a.stop < b.start

def Chained (g : List Rec) : Prop :=
  ∀ i (h : i + 1 < g.length), g[i+1].start ≤ runMaxEnd (g.take (i+1))

def GoodGroup (g : List Rec) : Prop :=
  g ≠ [] ∧ (∀ a ∈ g, ∀ b ∈ g, a.chrom = b.chrom) ∧ Chained g

def SepRev : List (List Rec) → Prop
  | [] => True
  | [_] => True
  | g2 :: g1 :: rest => (∀ a ∈ g1, ∀ b ∈ g2, sepR a b) ∧ SepRev (g1 :: rest)

structure Inv (a : Acc Rec) (rest : List Rec) (out : List (List Rec)) : Prop where
  first : ∃ f ∈ a.recs, f.start = a.s
  sle : ∀ b ∈ a.recs, a.s ≤ b.start
  chr : ∀ b ∈ a.recs, b.chrom = a.chrom
  e : a.e = runMaxEnd a.recs.reverse
  chain : Chained a.recs.reverse
  sorted : SortedRecs (a.recs.reverse ++ rest)
  outGood : ∀ g ∈ out, GoodGroup g
  sep : SepRev out
  prev : ∀ g ∈ out.head?, ∀ x ∈ g, x.chrom ≠ a.chrom ∨ x.stop < a.s

theorem runMaxEnd_append_singleton (g : List Rec) (x : Rec) :
    runMaxEnd (g ++ [x]) = max (runMaxEnd g) x.stop := by
  simp [runMaxEnd, listMax_append_singleton]

theorem stop_le_runMaxEnd {g : List Rec} {x : Rec} (h : x ∈ g) : x.stop ≤ runMaxEnd g :=
  le_listMax (List.mem_map_of_mem h)

theorem Chained_append {g : List Rec} {x : Rec} (hg : Chained g) (hx : x.start ≤ runMaxEnd g) :
    Chained (g ++ [x]) := by
  intro i h
  by_cases hi : i + 1 < g.length
  · rw [List.getElem_append_left hi, List.take_append_of_le_length (Nat.le_of_lt hi)]
    exact hg i hi
  · have hlen : i + 1 = g.length := by
      simp only [List.length_append, List.length_cons, List.length_nil] at h; omega
    rw [List.getElem_append_right (by omega)]
    simp only [hlen, Nat.sub_self, List.getElem_cons_zero, List.take_left']
    exact hx

theorem Inv.goodCur {a : Acc Rec} {rest out} (h : Inv a rest out) : GoodGroup a.recs.reverse := by
  refine ⟨?_, ?_, h.chain⟩
  · obtain ⟨f, hf, _⟩ := h.first
    intro hnil
    rw [List.reverse_eq_nil_iff] at hnil
    rw [hnil] at hf; cases hf
  · intro x hx y hy
    rw [h.chr x (List.mem_reverse.mp hx), h.chr y (List.mem_reverse.mp hy)]

theorem Inv.sepCur {a : Acc Rec} {rest out} (h : Inv a rest out) : SepRev (a.recs.reverse :: out) := by
  cases out with
  | nil => trivial
  | cons g1 tl =>
    refine ⟨?_, h.sep⟩
    intro x hx b hb
    have hb' := List.mem_reverse.mp hb
    rcases h.prev g1 (by simp) x hx with h1 | h1
    · left; rw [h.chr b hb']; exact h1
    · right; exact Nat.lt_of_lt_of_le h1 (h.sle b hb')

theorem Inv.close {a : Acc Rec} {r : Rec} {rest out} (h : Inv a (r :: rest) out)
    (hc : a.chrom ≠ r.chrom ∨ a.e < r.start) :
    Inv ⟨r.chrom, r.start, r.stop, [r]⟩ rest (a.recs.reverse :: out) where
  first := ⟨r, List.mem_singleton.mpr rfl, rfl⟩
  sle := by intro b hb; rw [List.mem_singleton.mp hb]; exact Nat.le_refl _
  chr := by intro b hb; rw [List.mem_singleton.mp hb]
  e := by simp [runMaxEnd, listMax]
  chain := by intro i hi; simp at hi
  sorted := by
    have := h.sorted
    exact List.Pairwise.sublist (List.sublist_append_right _ _) this
  outGood := by
    intro g hg
    rcases List.mem_cons.mp hg with h1 | h1
    · rw [h1]; exact h.goodCur
    · exact h.outGood g h1
  sep := h.sepCur
  prev := by
    intro g hg x hx
    simp only [List.head?_cons, Option.mem_def, Option.some.injEq] at hg
    subst hg
    have hx' := List.mem_reverse.mp hx
    rcases hc with h1 | h1
    · left; rw [h.chr x hx']; exact h1
    · right
      have := stop_le_runMaxEnd hx
      rw [← h.e] at this
      exact Nat.lt_of_le_of_lt this h1

theorem Inv.start_ge {a : Acc Rec} {r : Rec} {rest out} (h : Inv a (r :: rest) out)
    (hc : a.chrom = r.chrom) : a.s ≤ r.start := by
  obtain ⟨f, hf, hfs⟩ := h.first
  have hs := h.sorted
  unfold SortedRecs at hs
  rw [List.pairwise_append] at hs
  have := hs.2.2 f (List.mem_reverse.mpr hf) r List.mem_cons_self
  rw [← hfs]
  exact compare_start this (by rw [h.chr f hf, hc])

theorem Inv.extend {a : Acc Rec} {r : Rec} {rest out} (h : Inv a (r :: rest) out)
    (hc : a.chrom = r.chrom) (hle : r.start ≤ a.e) (e' : Nat) (he' : e' = max a.e r.stop) :
    Inv ⟨a.chrom, a.s, e', r :: a.recs⟩ rest out where
  first := by
    obtain ⟨f, hf, hfs⟩ := h.first
    exact ⟨f, List.mem_cons_of_mem _ hf, hfs⟩
  sle := by
    intro b hb
    rcases List.mem_cons.mp hb with h1 | h1
    · rw [h1]; exact h.start_ge hc
    · exact h.sle b h1
  chr := by
    intro b hb
    rcases List.mem_cons.mp hb with h1 | h1
    · rw [h1]; exact hc.symm
    · exact h.chr b h1
  e := by
    simp only [List.reverse_cons, runMaxEnd_append_singleton, ← h.e]
    exact he'
  chain := by
    simp only [List.reverse_cons]
    apply Chained_append h.chain
    rw [← h.e]; exact hle
  sorted := by
    have := h.sorted
    simpa [List.reverse_cons, List.append_assoc] using this
  outGood := h.outGood
  sep := h.sep
  prev := h.prev

theorem groupsAux_inv : ∀ (rest : List Rec) (a : Acc Rec) (out : List (List Rec)), Inv a rest out →
    ∃ L, groupsAux id (some a) rest out = .ok L.reverse ∧ (∀ g ∈ L, GoodGroup g) ∧ SepRev L := by
  intro rest
  induction rest with
  | nil =>
    intro a out h
    refine ⟨a.recs.reverse :: out, by simp [groupsAux], ?_, h.sepCur⟩
    intro g hg
    rcases List.mem_cons.mp hg with h1 | h1
    · rw [h1]; exact h.goodCur
    · exact h.outGood g h1
  | cons r rest ih =>
    intro a out h
    simp only [groupsAux, id]
    split
    · rename_i hcond
      apply ih
      apply h.close
      simp only [Bool.or_eq_true, bne_iff_ne, ne_eq, decide_eq_true_eq] at hcond
      exact hcond
    · rename_i hcond
      simp only [Bool.or_eq_true, bne_iff_ne, ne_eq, decide_eq_true_eq, not_or, Decidable.not_not, Nat.not_lt] at hcond
      have hs := h.start_ge hcond.1
      rw [if_neg (by omega)]
      split
      · rename_i hgt
        apply ih
        apply h.extend hcond.1 hcond.2
        omega
      · rename_i hgt
        apply ih
        apply h.extend hcond.1 hcond.2
        omega

theorem SepRev_getElem : ∀ (L : List (List Rec)), SepRev L →
    ∀ i j (hi : i < L.length) (hj : j < L.length), j = i + 1 → ∀ a ∈ L[j], ∀ b ∈ L[i], sepR a b := by
  intro L
  induction L with
  | nil => intro _ i j hi; simp at hi
  | cons g2 tl ih =>
    intro h i j hi hj hji a ha b hb
    subst hji
    cases tl with
    | nil => simp at hj
    | cons g1 tl' =>
      cases i with
      | zero => exact h.1 a ha b hb
      | succ i' =>
        exact ih h.2 i' (i' + 1) (by simpa using hi) (by simpa using hj) rfl a ha b hb

theorem Inv.init (r : Rec) (rest : List Rec) (hs : SortedRecs (r :: rest)) :
    Inv ⟨r.chrom, r.start, r.stop, [r]⟩ rest [] where
  first := ⟨r, List.mem_singleton.mpr rfl, rfl⟩
  sle := by intro b hb; rw [List.mem_singleton.mp hb]; exact Nat.le_refl _
  chr := by intro b hb; rw [List.mem_singleton.mp hb]
  e := by simp [runMaxEnd, listMax]
  chain := by intro i hi; simp at hi
  sorted := hs
  outGood := by intro g hg; cases hg
  sep := trivial
  prev := by intro g hg; simp at hg

theorem groups_good (xs : List Rec) (hs : SortedRecs xs) :
    ∃ gs, groups xs = .ok gs ∧ GoodGroups xs gs := by
  cases xs with
  | nil =>
    refine ⟨[], rfl, ⟨rfl, ?_, ?_, ?_, ?_⟩⟩
    · intro g hg; cases hg
    · intro g hg; cases hg
    · intro g hg; cases hg
    · intro i h; simp at h
  | cons r rest =>
    obtain ⟨L, hL, hgood, hsep⟩ := groupsAux_inv rest _ [] (Inv.init r rest hs)
    have hg : groups (r :: rest) = .ok L.reverse := hL
    refine ⟨L.reverse, hg, ⟨groups_flatten_any _ _ hg, ?_, ?_, ?_, ?_⟩⟩
    · intro g hg; exact (hgood g (List.mem_reverse.mp hg)).1
    · intro g hg; exact (hgood g (List.mem_reverse.mp hg)).2.1
    · intro g hg; exact (hgood g (List.mem_reverse.mp hg)).2.2
    · intro i h a ha b hb
      have hlen : i + 1 < L.length := by simpa using h
      rw [List.getElem_reverse] at ha hb
      exact SepRev_getElem L hsep (L.length - 1 - (i + 1)) (L.length - 1 - i) (by omega) (by omega)
        (by omega) a ha b hb

theorem cross_sorted {xs : List Rec} {gs : List (List Rec)} (hs : SortedRecs xs) (hf : gs.flatten = xs) :
    (∀ g ∈ gs, SortedRecs g) ∧
    ∀ i j (hi : i < gs.length) (hj : j < gs.length), i < j → ∀ a ∈ gs[i], ∀ b ∈ gs[j], Rec.compare a b ≠ .gt := by
  unfold SortedRecs at hs
  rw [← hf, List.pairwise_flatten] at hs
  refine ⟨hs.1, ?_⟩
  intro i j hi hj hij a ha b hb
  exact (List.pairwise_iff_getElem.mp hs.2) i j hi hj hij a ha b hb

theorem separated_of_good {xs : List Rec} {gs : List (List Rec)} (hs : SortedRecs xs) (hG : GoodGroups xs gs) :
    ∀ i j (hi : i < gs.length) (hj : j < gs.length), i < j → ∀ a ∈ gs[i], ∀ b ∈ gs[j], a.chrom ≠ b.chrom ∨ a.stop < b.start := by
  intro i j hi hj hij a ha b hb
  have hcross := (cross_sorted hs hG.flatten).2
  by_cases hji : j = i + 1
  · subst hji; exact hG.maximal i hj a ha b hb
  · have hi1 : i + 1 < gs.length := by omega
    obtain ⟨b', hb'⟩ := List.exists_mem_of_ne_nil _ (hG.nonempty gs[i+1] (List.getElem_mem hi1))
    by_cases hc : a.chrom = b.chrom
    · right
      have h1 := hcross i (i+1) hi hi1 (by omega) a ha b' hb'
      have h2 := hcross (i+1) j hi1 hj (by omega) b' hb' b hb
      have c1 := compare_chrom h1
      have c2 := compare_chrom h2
      rw [← hc] at c2
      have hab' : a.chrom = b'.chrom := cmpBytes_antisymm c1 c2
      have hle : b'.start ≤ b.start := compare_start h2 (by rw [← hab', hc])
      rcases hG.maximal i hi1 a ha b' hb' with h3 | h3
      · exact absurd hab' h3
      · omega
    · left; exact hc

theorem head_start_le {h : Rec} {t : List Rec} (hs : SortedRecs (h :: t))
    (hc : ∀ a ∈ h :: t, ∀ b ∈ h :: t, a.chrom = b.chrom) : ∀ a ∈ h :: t, h.start ≤ a.start := by
  intro a ha
  rcases List.mem_cons.mp ha with h1 | h1
  · rw [h1]; exact Nat.le_refl _
  · have := (List.pairwise_cons.mp hs).1 a h1
    exact compare_start this (hc h List.mem_cons_self a ha)

theorem mergeGroup_facts {g : List Rec} (hne : g ≠ []) (hs : SortedRecs g)
    (hc : ∀ a ∈ g, ∀ b ∈ g, a.chrom = b.chrom) :
    (mergeGroup g).start = (g.headD default).start ∧
      (∀ a ∈ g, (mergeGroup g).start ≤ a.start ∧ a.stop ≤ (mergeGroup g).stop) ∧
      (∃ a ∈ g, a.stop = (mergeGroup g).stop) := by
  cases g with
  | nil => exact absurd rfl hne
  | cons h t =>
    have hle := head_start_le hs hc
    have hstart : (mergeGroup (h :: t)).start = h.start := by
      simp only [mergeGroup, List.map_cons]
      apply listMin_cons_of_le
      intro x hx
      obtain ⟨a, ha, rfl⟩ := List.mem_map.mp hx
      exact hle a (List.mem_cons_of_mem _ ha)
    refine ⟨hstart, ?_, ?_⟩
    · intro a ha
      refine ⟨by rw [hstart]; exact hle a ha, ?_⟩
      exact stop_le_runMaxEnd ha
    · have : listMax ((h :: t).map (·.stop)) ∈ (h :: t).map (·.stop) := listMax_mem (by simp)
      obtain ⟨a, ha, hst⟩ := List.mem_map.mp this
      exact ⟨a, ha, hst⟩

theorem mergeGroup_chrom (h : Rec) (t : List Rec) : (mergeGroup (h :: t)).chrom = h.chrom := rfl

theorem mergeGroup_stop (g : List Rec) : (mergeGroup g).stop = runMaxEnd g := rfl

theorem cover_of_chained {g : List Rec}
    (hch : ∀ i (h : i + 1 < g.length), g[i+1].start ≤ runMaxEnd (g.take (i+1))) :
    ∀ k, k ≤ g.length → ∀ p, (g.headD default).start ≤ p → p < runMaxEnd (g.take k) →
      ∃ r ∈ g.take k, r.mem p := by
  intro k
  induction k with
  | zero => intro _ p _ h; simp [runMaxEnd, listMax] at h
  | succ k ih =>
    intro hk p hp hlt
    have hk' : k < g.length := hk
    rw [List.take_succ_eq_append_getElem hk'] at hlt ⊢
    rw [runMaxEnd_append_singleton] at hlt
    by_cases hlt' : p < runMaxEnd (g.take k)
    · obtain ⟨r, hr, hm⟩ := ih (Nat.le_of_lt hk') p hp hlt'
      exact ⟨r, List.mem_append_left _ hr, hm⟩
    · refine ⟨g[k], List.mem_append_right _ (List.mem_singleton.mpr rfl), ?_, by omega⟩
      cases k with
      | zero =>
        cases g with
        | nil => simp at hk'
        | cons h t => simpa using hp
      | succ k' =>
        have := hch k' hk'
        omega

theorem cover_group {g : List Rec}
    (hch : ∀ i (h : i + 1 < g.length), g[i+1].start ≤ runMaxEnd (g.take (i+1)))
    (p : Nat) (hp : (mergeGroup g).mem p) (hst : (mergeGroup g).start = (g.headD default).start) :
    ∃ r ∈ g, r.mem p := by
  have := cover_of_chained hch g.length (Nat.le_refl _) p (by rw [← hst]; exact hp.1)
    (by rw [List.take_length]; exact hp.2)
  rw [List.take_length] at this
  exact this

theorem good_of_ok {xs : List Rec} (hs : SortedRecs xs) {gs : List (List Rec)} (hg : groups xs = .ok gs) :
    GoodGroups xs gs := by
  obtain ⟨gs', hg', hG⟩ := groups_good xs hs
  rw [hg] at hg'
  cases hg'
  exact hG

theorem mergeSortedBed_ok {xs : List Rec} {gs : List (List Rec)} (hg : groups xs = .ok gs) :
    mergeSortedBed xs = .ok (gs.map mergeGroup) := by
  simp [mergeSortedBed, hg]

theorem merged_sorted {xs : List Rec} (hs : SortedRecs xs) (hv : ∀ r ∈ xs, r.start ≤ r.stop)
    {gs : List (List Rec)} (hG : GoodGroups xs gs) : SortedRecs (gs.map mergeGroup) := by
  unfold SortedRecs
  rw [List.pairwise_map, List.pairwise_iff_getElem]
  intro i j hi hj hij
  have hcs := cross_sorted hs hG.flatten
  have hmi := List.getElem_mem hi
  have hmj := List.getElem_mem hj
  have hfi := mergeGroup_facts (hG.nonempty _ hmi) (hcs.1 _ hmi) (hG.oneChrom _ hmi)
  have hfj := mergeGroup_facts (hG.nonempty _ hmj) (hcs.1 _ hmj) (hG.oneChrom _ hmj)
  have hsep := separated_of_good hs hG i j hi hj hij
  have hcr := hcs.2 i j hi hj hij
  have hni := hG.nonempty _ hmi
  have hnj := hG.nonempty _ hmj
  generalize gs[i] = gi at *
  generalize gs[j] = gj at *
  cases gi with
  | nil => exact absurd rfl hni
  | cons a ta =>
  cases gj with
  | nil => exact absurd rfl hnj
  | cons b tb =>
    have hab := hcr a List.mem_cons_self b List.mem_cons_self
    have hc := compare_chrom hab
    cases hcmp : cmpBytes a.chrom b.chrom with
    | lt => exact compare_ne_gt_of_chrom_lt (by rw [mergeGroup_chrom, mergeGroup_chrom]; exact hcmp)
    | gt => exact absurd hcmp hc
    | eq =>
      have hce : a.chrom = b.chrom := (cmpBytes_eq_iff _ _).mp hcmp
      apply compare_ne_gt_of_start_lt (by rw [mergeGroup_chrom, mergeGroup_chrom]; exact hce)
      rw [hfi.1, hfj.1]
      simp only [List.headD_cons]
      have hva : a.start ≤ a.stop := by
        apply hv; rw [← hG.flatten]; exact List.mem_flatten.mpr ⟨_, hmi, List.mem_cons_self⟩
      rcases hsep a List.mem_cons_self b List.mem_cons_self with h | h
      · exact absurd hce h
      · omega

theorem merged_adjacent {xs : List Rec} (hs : SortedRecs xs)
    {gs : List (List Rec)} (hG : GoodGroups xs gs) :
    ∀ i (h : i + 1 < (gs.map mergeGroup).length),
      (gs.map mergeGroup)[i].chrom ≠ (gs.map mergeGroup)[i+1].chrom ∨
      (gs.map mergeGroup)[i].stop < (gs.map mergeGroup)[i+1].start := by
  intro i h
  have hi1 : i + 1 < gs.length := by simpa using h
  have hi : i < gs.length := by omega
  rw [List.getElem_map, List.getElem_map]
  have hcs := cross_sorted hs hG.flatten
  have hmi := List.getElem_mem hi
  have hmj := List.getElem_mem hi1
  have hfi := mergeGroup_facts (hG.nonempty _ hmi) (hcs.1 _ hmi) (hG.oneChrom _ hmi)
  have hfj := mergeGroup_facts (hG.nonempty _ hmj) (hcs.1 _ hmj) (hG.oneChrom _ hmj)
  have hmax := hG.maximal i hi1
  have hni := hG.nonempty _ hmi
  have hnj := hG.nonempty _ hmj
  have hoi := hG.oneChrom _ hmi
  generalize gs[i] = gi at *
  generalize gs[i+1] = gj at *
  cases gi with
  | nil => exact absurd rfl hni
  | cons a ta =>
  cases gj with
  | nil => exact absurd rfl hnj
  | cons b tb =>
    obtain ⟨m, hm, hms⟩ := hfi.2.2
    rw [mergeGroup_chrom, mergeGroup_chrom, hfj.1, ← hms]
    simp only [List.headD_cons]
    rw [hoi a List.mem_cons_self m hm]
    exact hmax m hm b List.mem_cons_self

theorem merged_cover {xs : List Rec} (hs : SortedRecs xs)
    {gs : List (List Rec)} (hG : GoodGroups xs gs) (c : Bytes) (p : Nat) :
    coveredBy xs c p ↔ coveredBy (gs.map mergeGroup) c p := by
  have hcs := cross_sorted hs hG.flatten
  constructor
  · rintro ⟨r, hr, hc, hp⟩
    rw [← hG.flatten] at hr
    obtain ⟨g, hg, hrg⟩ := List.mem_flatten.mp hr
    have hf := mergeGroup_facts (hG.nonempty _ hg) (hcs.1 _ hg) (hG.oneChrom _ hg)
    refine ⟨mergeGroup g, List.mem_map_of_mem hg, ?_, ?_⟩
    · cases g with
      | nil => cases hrg
      | cons h t => rw [mergeGroup_chrom, hG.oneChrom _ hg h List.mem_cons_self r hrg]; exact hc
    · have := (hf.2.1 r hrg)
      exact ⟨Nat.le_trans this.1 hp.1, Nat.lt_of_lt_of_le hp.2 this.2⟩
  · rintro ⟨o, ho, hc, hp⟩
    obtain ⟨g, hg, rfl⟩ := List.mem_map.mp ho
    have hf := mergeGroup_facts (hG.nonempty _ hg) (hcs.1 _ hg) (hG.oneChrom _ hg)
    obtain ⟨r, hr, hm⟩ := cover_group (hG.chained g hg) p hp hf.1
    refine ⟨r, by rw [← hG.flatten]; exact List.mem_flatten.mpr ⟨g, hg, hr⟩, ?_, hm⟩
    cases g with
    | nil => cases hr
    | cons h t => rw [← hc, mergeGroup_chrom]; exact (hG.oneChrom _ hg h List.mem_cons_self r hr).symm

end BV
