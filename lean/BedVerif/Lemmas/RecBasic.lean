import BedVerif.Spec.Rec
/-! Helper lemmas for C13 (overlap / compare) and C14 (tilings), and the tiling predicates. -/
namespace BV



theorem cmpBytes_refl (x : Bytes) : cmpBytes x x = .eq := by
  induction x with
  | nil => rfl
  | cons a as ih => simp [cmpBytes, UInt8.lt_irrefl, ih]

theorem cmpBytes_eq_iff (x y : Bytes) : cmpBytes x y = .eq ↔ x = y := by
  induction x generalizing y with
  | nil => cases y <;> simp [cmpBytes]
  | cons a as ih =>
    cases y with
    | nil => simp [cmpBytes]
    | cons b bs =>
      simp only [cmpBytes, List.cons.injEq]
      split
      · rename_i h
        have : a ≠ b := fun e => UInt8.lt_irrefl b (e ▸ h)
        simp [this]
      · split
        · rename_i h
          have : a ≠ b := fun e => UInt8.lt_irrefl b (e ▸ h)
          simp [this]
        · rename_i h1 h2
          have : a = b := UInt8.le_antisymm (UInt8.not_lt.mp h2) (UInt8.not_lt.mp h1)
          simp [this, ih]

theorem cmpBytes_swap (x y : Bytes) : cmpBytes x y = (cmpBytes y x).swap := by
  induction x generalizing y with
  | nil => cases y <;> simp [cmpBytes]
  | cons a as ih =>
    cases y with
    | nil => simp [cmpBytes]
    | cons b bs =>
      simp only [cmpBytes, GT.gt]
      by_cases h1 : a < b
      · have h2 : ¬ b < a := UInt8.lt_asymm h1
        simp [h1, h2]
      · by_cases h2 : b < a
        · simp [h1, h2]
        · simp [h1, h2, ih bs]

theorem cmpBytes_lt_iff (x y : Bytes) : cmpBytes x y = .lt ↔ x < y := by
  induction x generalizing y with
  | nil => cases y <;> simp [cmpBytes, List.not_lt_nil, List.nil_lt_cons]
  | cons a as ih =>
    cases y with
    | nil => simp [cmpBytes, List.not_lt_nil]
    | cons b bs =>
      rw [List.cons_lt_cons_iff]
      simp only [cmpBytes, GT.gt]
      by_cases h1 : a < b
      · simp [h1]
      · by_cases h2 : b < a
        · have : a ≠ b := fun e => UInt8.lt_irrefl b (e ▸ h2)
          simp [h1, h2, this]
        · have : a = b := UInt8.le_antisymm (UInt8.not_lt.mp h2) (UInt8.not_lt.mp h1)
          subst this
          simp [h1, ih bs]

theorem cmpBytes_lt_trans (x y z : Bytes) (h1 : cmpBytes x y = .lt) (h2 : cmpBytes y z = .lt) :
    cmpBytes x z = .lt := by
  induction x generalizing y z with
  | nil =>
    cases z with
    | nil => cases y <;> simp [cmpBytes] at h1 h2
    | cons c cs => rfl
  | cons a as ih =>
    cases y with
    | nil => simp [cmpBytes] at h1
    | cons b bs =>
      cases z with
      | nil => simp [cmpBytes] at h2
      | cons c cs =>
        rw [cmpBytes_lt_iff, List.cons_lt_cons_iff] at h1 h2 ⊢
        rcases h1 with h1 | ⟨rfl, h1⟩
        · rcases h2 with h2 | ⟨rfl, h2⟩
          · exact Or.inl (UInt8.lt_trans h1 h2)
          · exact Or.inl h1
        · rcases h2 with h2 | ⟨rfl, h2⟩
          · exact Or.inl h2
          · refine Or.inr ⟨rfl, ?_⟩
            rw [← cmpBytes_lt_iff] at h1 h2 ⊢
            exact ih _ _ h1 h2

theorem compare_lex' (a b : Rec) :
    Rec.compare a b = .lt ↔ (cmpBytes a.chrom b.chrom = .lt ∨ (a.chrom = b.chrom ∧ (a.start < b.start ∨ (a.start = b.start ∧ a.stop < b.stop)))) := by
  simp only [Rec.compare, Ordering.then_eq_lt, cmpBytes_eq_iff, Nat.compare_eq_lt, Nat.compare_eq_eq]

theorem overlap_eq (a b : Rec) :
    Rec.overlap a b = if a.chrom = b.chrom ∧ max a.start b.start < min a.stop b.stop
      then some ⟨a.chrom, max a.start b.start, min a.stop b.stop⟩ else none := by
  unfold Rec.overlap
  by_cases hc : a.chrom = b.chrom
  · by_cases hs : max a.start b.start < min a.stop b.stop
    · have : ¬ (max a.start b.start ≥ min a.stop b.stop) := by omega
      simp [hc, hs, this]
    · have : (max a.start b.start ≥ min a.stop b.stop) := by omega
      simp [hc, hs, this]
  · simp [hc]

theorem nOverlap_eq (a b : Rec) :
    Rec.nOverlap a b = if a.chrom = b.chrom then min a.stop b.stop - max a.start b.start else 0 := by
  unfold Rec.nOverlap
  rw [overlap_eq]
  by_cases hc : a.chrom = b.chrom
  · by_cases hs : max a.start b.start < min a.stop b.stop
    · simp [hc, hs, Rec.blen]
    · simp only [hc, hs, and_false, if_false, if_true]; omega
  · simp [hc]

theorem filter_range_count (n a b : Nat) :
    ((List.range n).filter (fun p => decide (a ≤ p ∧ p < b))).length = min n b - a := by
  induction n with
  | zero => simp
  | succ n ih =>
    rw [List.range_succ, List.filter_append, List.length_append, ih]
    by_cases h : a ≤ n ∧ n < b
    · simp [h]; omega
    · simp [h]; omega

theorem compare_lt_trans' (a b c : Rec) (h₁ : Rec.compare a b = .lt) (h₂ : Rec.compare b c = .lt) : Rec.compare a c = .lt := by
  rw [compare_lex'] at h₁ h₂ ⊢
  rcases h₁ with h₁ | ⟨e₁, h₁⟩
  · rcases h₂ with h₂ | ⟨e₂, h₂⟩
    · exact Or.inl (cmpBytes_lt_trans _ _ _ h₁ h₂)
    · exact Or.inl (e₂ ▸ h₁)
  · rcases h₂ with h₂ | ⟨e₂, h₂⟩
    · exact Or.inl (e₁ ▸ h₂)
    · exact Or.inr ⟨e₁.trans e₂, by omega⟩

structure Tiles (r : Rec) (bin : Nat) (ps : List Rec) : Prop where
  chrom : ∀ p ∈ ps, p.chrom = r.chrom
  count : ps.length = (r.blen + bin - 1) / bin
  first : ∀ h : 0 < ps.length, ps[0].start = r.start
  last : ∀ h : 0 < ps.length, ps[ps.length - 1].stop = r.stop
  consecutive : ∀ i (h : i + 1 < ps.length), ps[i].stop = ps[i+1].start
  full : ∀ i (h : i + 1 < ps.length), ps[i].blen = bin
  lastLen : ∀ h : 0 < ps.length, 0 < ps[ps.length - 1].blen ∧ ps[ps.length - 1].blen ≤ bin

theorem ceil_facts (len bin : Nat) (hb : 1 ≤ bin) :
    ((len + bin - 1) / bin = 0 → len = 0) ∧
    (0 < (len + bin - 1) / bin → ((len + bin - 1) / bin - 1) * bin < len ∧ len ≤ ((len + bin - 1) / bin - 1) * bin + bin) := by
  have h1 := Nat.div_add_mod (len + bin - 1) bin
  have h2 := Nat.mod_lt (len + bin - 1) hb
  generalize (len + bin - 1) / bin = n at *
  generalize (len + bin - 1) % bin = m at *
  rw [Nat.mul_comm] at h1
  constructor
  · intro hn; subst hn; omega
  · intro hn
    obtain ⟨k, rfl⟩ : ∃ k, n = k + 1 := ⟨n - 1, by omega⟩
    rw [Nat.add_mul] at h1
    simp only [Nat.add_sub_cancel]
    omega

theorem mul_le_of_lt_pred {i n bin : Nat} (h : i + 1 < n) : i * bin + bin ≤ (n - 1) * bin := by
  have := Nat.mul_le_mul_right bin (show i + 1 ≤ n - 1 by omega)
  rw [Nat.add_mul] at this; omega

theorem splitByLen_eq (r : Rec) (bin : Nat) (hb : 1 ≤ bin) (hmax : r.stop ≤ U64MAX) :
    splitByLen r bin = .ok ((List.range ((r.blen + bin - 1) / bin)).map
      (fun i => ⟨r.chrom, r.start + i * bin, min (r.start + i * bin + bin) r.stop⟩)) := by
  unfold splitByLen stepPoints
  have : bin ≠ 0 := by omega
  simp only [this, if_false, Rec.blen]
  congr 1
  apply List.ext_getElem
  · simp
  · intro i h1 h2
    simp only [List.getElem_map, List.getElem_range', List.getElem_range, satAdd]
    rw [Nat.mul_comm bin i]
    congr 1
    omega

/-- mirror tiling: from the end backwards, only the piece touching the start may be short -/
structure RTiles (r : Rec) (bin : Nat) (ps : List Rec) : Prop where
  chrom : ∀ p ∈ ps, p.chrom = r.chrom
  count : ps.length = (r.blen + bin - 1) / bin
  first : ∀ h : 0 < ps.length, ps[0].stop = r.stop
  last : ∀ h : 0 < ps.length, ps[ps.length - 1].start = r.start
  consecutive : ∀ i (h : i + 1 < ps.length), ps[i].start = ps[i+1].stop
  full : ∀ i (h : i + 1 < ps.length), ps[i].blen = bin
  lastLen : ∀ h : 0 < ps.length, 0 < ps[ps.length - 1].blen ∧ ps[ps.length - 1].blen ≤ bin

theorem rsplitByLen_eq (r : Rec) (bin : Nat) (hb : 1 ≤ bin) :
    rsplitByLen r bin = .ok ((List.range ((r.blen + bin - 1) / bin)).map
      (fun i => ⟨r.chrom, max (r.stop - i * bin - bin) r.start, r.stop - i * bin⟩)) := by
  unfold rsplitByLen rstepPoints
  have : bin ≠ 0 := by omega
  simp only [this, if_false, Rec.blen, List.map_map]
  rfl

theorem tile_start {r : Rec} {bin : Nat} {ps : List Rec} (hb : 1 ≤ bin) (h : Tiles r bin ps) :
    ∀ i (hi : i < ps.length), ps[i].start = r.start + i * bin := by
  intro i
  induction i with
  | zero => intro hi; simpa using h.first hi
  | succ i ih =>
    intro hi
    have h1 := h.consecutive i hi
    have h2 := h.full i hi
    have h3 := ih (by omega)
    unfold Rec.blen at h2
    rw [Nat.add_mul]
    omega

theorem tile_bounds {r : Rec} {bin : Nat} {ps : List Rec} (hb : 1 ≤ bin) (h : Tiles r bin ps) :
    ∀ i (hi : i < ps.length), ps[i].start < ps[i].stop ∧ ps[i].stop ≤ ps[i].start + bin ∧ ps[i].stop ≤ r.stop := by
  intro i hi
  have hpos : 0 < ps.length := by omega
  have hl1 := h.last hpos
  have hl2 := h.lastLen hpos
  have hl3 := tile_start hb h (ps.length - 1) (by omega)
  unfold Rec.blen at hl2
  by_cases hlt : i + 1 < ps.length
  · have h1 := h.consecutive i hlt
    have h2 := h.full i hlt
    have h3 := tile_start hb h (i + 1) hlt
    have h4 := mul_le_of_lt_pred (bin := bin) hlt
    unfold Rec.blen at h2
    rw [Nat.add_mul] at h3
    omega
  · have : i = ps.length - 1 := by omega
    subst this
    omega

theorem idx_unique {s bin j p : Nat} (h1 : s + j * bin ≤ p) (h2 : p < s + j * bin + bin) :
    j = (p - s) / bin := by
  symm
  apply Nat.div_eq_of_lt_le
  · omega
  · rw [Nat.add_mul]; omega

theorem headD_eq_getElem {α} (l : List α) (d : α) (h : 0 < l.length) : l.headD d = l[0] := by
  cases l with
  | nil => simp at h
  | cons x xs => rfl

theorem getLastD_eq_getElem {α} (l : List α) (d : α) (h : 0 < l.length) : l.getLastD d = l[l.length - 1] := by
  have hne : l ≠ [] := by intro e; simp [e] at h
  rw [List.getLastD_eq_getLast?, List.getLast?_eq_some_getLast hne, Option.getD_some, List.getLast_eq_getElem]

theorem zip_drop_all {α} (l : List α) (P : α × α → Prop) (h : ∀ x ∈ l.zip (l.drop 1), P x) :
    ∀ i (hi : i + 1 < l.length), P (l[i], l[i+1]) := by
  intro i hi
  apply h
  have hlen : i < (l.zip (l.drop 1)).length := by simp; omega
  have := List.getElem_mem hlen
  rw [List.getElem_zip, List.getElem_drop] at this
  simpa [Nat.add_comm] using this

end BV
