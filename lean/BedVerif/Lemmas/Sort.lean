import BedVerif.Basic
/-! The structural insertion sort is a sorting function: permutation + sorted (for a total,
transitive `le`), and it is stable enough for our purposes (we never need stability in proofs). -/
namespace BV
variable {β : Type}

structure TotalLe (le : β → β → Bool) : Prop where
  total : ∀ a b, le a b = true ∨ le b a = true
  trans : ∀ a b c, le a b = true → le b c = true → le a c = true

theorem insertBy_perm (le : β → β → Bool) (x : β) (l : List β) : (insertBy le x l).Perm (x :: l) := by
  induction l with
  | nil => simp [insertBy]
  | cons y ys ih =>
    simp only [insertBy]
    split
    · exact List.Perm.refl _
    · exact (List.Perm.cons y ih).trans (List.Perm.swap x y ys)

theorem isort_perm (le : β → β → Bool) (l : List β) : (isort le l).Perm l := by
  induction l with
  | nil => simp [isort]
  | cons x xs ih =>
    have : isort le (x :: xs) = insertBy le x (isort le xs) := rfl
    rw [this]
    exact (insertBy_perm le x _).trans (List.Perm.cons x ih)

theorem insertBy_sorted {le : β → β → Bool} (h : TotalLe le) (x : β) (l : List β)
    (hl : l.Pairwise (fun a b => le a b = true)) : (insertBy le x l).Pairwise (fun a b => le a b = true) := by
  induction l with
  | nil => simp [insertBy]
  | cons y ys ih =>
    have hp := List.pairwise_cons.mp hl
    simp only [insertBy]
    split
    · rename_i hxy
      apply List.pairwise_cons.mpr
      refine ⟨?_, hl⟩
      intro a ha
      rcases List.mem_cons.mp ha with rfl | ha
      · exact hxy
      · exact h.trans _ _ _ hxy (hp.1 a ha)
    · rename_i hxy
      have hyx : le y x = true := by
        rcases h.total x y with h1 | h1
        · exact absurd h1 hxy
        · exact h1
      apply List.pairwise_cons.mpr
      refine ⟨?_, ih hp.2⟩
      intro a ha
      have := (insertBy_perm le x ys).mem_iff.mp ha
      rcases List.mem_cons.mp this with rfl | ha'
      · exact hyx
      · exact hp.1 a ha'

theorem isort_sorted {le : β → β → Bool} (h : TotalLe le) (l : List β) :
    (isort le l).Pairwise (fun a b => le a b = true) := by
  induction l with
  | nil => simp [isort]
  | cons x xs ih =>
    have : isort le (x :: xs) = insertBy le x (isort le xs) := rfl
    rw [this]
    exact insertBy_sorted h x _ ih

theorem natLe_total : TotalLe (fun a b : Nat => decide (a ≤ b)) :=
  ⟨fun a b => by simp; omega, fun a b c => by simp; omega⟩

theorem sortNat_perm (l : List Nat) : (sortNat l).Perm l := isort_perm _ l
theorem sortNat_sorted (l : List Nat) : (sortNat l).Pairwise (· ≤ ·) := by
  have := isort_sorted natLe_total l
  unfold sortNat
  exact this.imp (fun h => by simpa using h)

/-! ### Inserting at the lower bound keeps a list sorted -/

/-- `P` is prefix-closed along `l` -/
def PrefixClosed (P : β → Bool) (l : List β) : Prop := l.Pairwise (fun a b => P b = true → P a = true)

theorem idx_lt_countP (P : β → Bool) (l : List β) (h : PrefixClosed P l) (i : Nat) (hi : i < l.length) :
    P l[i] = true ↔ i < l.countP P := by
  induction l generalizing i with
  | nil => simp at hi
  | cons a t ih =>
    have hp := List.pairwise_cons.mp h
    by_cases ha : P a = true
    · cases i with
      | zero => simp [ha]
      | succ j => simp at hi; have := ih hp.2 j hi; simp [ha, this]
    · have hall : ∀ x ∈ t, ¬ P x = true := fun x hx hpx => ha (hp.1 x hx hpx)
      have h0 : t.countP P = 0 := by rw [List.countP_eq_zero]; exact hall
      cases i with
      | zero => simp [ha, h0]
      | succ j => simp at hi; have hj := hall _ (List.getElem_mem hi); simp [ha, h0, hj]

theorem take_countP_all (P : β → Bool) (l : List β) (h : PrefixClosed P l) :
    ∀ y ∈ l.take (l.countP P), P y = true := by
  intro y hy
  obtain ⟨i, hi, rfl⟩ := List.getElem_of_mem hy
  simp only [List.length_take] at hi
  rw [List.getElem_take]
  exact (idx_lt_countP P l h i (by omega)).mpr (by omega)

theorem drop_countP_none (P : β → Bool) (l : List β) (h : PrefixClosed P l) :
    ∀ y ∈ l.drop (l.countP P), P y = false := by
  intro y hy
  obtain ⟨i, hi, rfl⟩ := List.getElem_of_mem hy
  simp only [List.length_drop] at hi
  rw [List.getElem_drop]
  have := mt (idx_lt_countP P l h (l.countP P + i) (by omega)).mp (by omega)
  simpa using this

theorem insert_at_countP_sorted {le : β → β → Bool} (htr : ∀ a b c, le a b = true → le b c = true → le a c = true)
    (l : List β) (x : β) (P : β → Bool)
    (hP1 : ∀ y, P y = true → le y x = true) (hP2 : ∀ y, P y = false → le x y = true)
    (hl : l.Pairwise (fun a b => le a b = true)) (hpc : PrefixClosed P l) :
    (l.take (l.countP P) ++ x :: l.drop (l.countP P)).Pairwise (fun a b => le a b = true) := by
  rw [List.pairwise_append]
  refine ⟨hl.sublist (List.take_sublist _ _), ?_, ?_⟩
  · apply List.pairwise_cons.mpr
    exact ⟨fun y hy => hP2 y (drop_countP_none P l hpc y hy), hl.sublist (List.drop_sublist _ _)⟩
  · intro a ha b hb
    have h1 := hP1 a (take_countP_all P l hpc a ha)
    rcases List.mem_cons.mp hb with rfl | hb
    · exact h1
    · exact htr _ _ _ h1 (hP2 b (drop_countP_none P l hpc b hb))

theorem insert_at_perm (l : List β) (x : β) (k : Nat) : (l.take k ++ x :: l.drop k).Perm (x :: l) := by
  have : (l.take k ++ x :: l.drop k).Perm (x :: (l.take k ++ l.drop k)) := List.perm_middle
  simpa using this

end BV
