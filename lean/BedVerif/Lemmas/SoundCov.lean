import BedVerif.Props.C07
import BedVerif.Props.C08
import BedVerif.Props.C14
import BedVerif.Props.C13
/-! Coverage lemmas: agreement at the breakpoints is agreement everywhere. -/
namespace BV

theorem Rec.cov_iff (r : Rec) (c : Bytes) (p : Nat) :
    r.cov c p = true ↔ r.chrom = c ∧ r.start ≤ p ∧ p < r.stop := by
  simp [Rec.cov, Rec.memB]

/-- `p` is an endpoint of some record of `zs` on chromosome `c` -/
def IsBreak (zs : List Rec) (c : Bytes) (p : Nat) : Prop :=
  ∃ r ∈ zs, r.chrom = c ∧ (r.start = p ∨ r.stop = p)

theorem mem_recPoints_of_break {zs : List Rec} {c : Bytes} {p : Nat} (h : IsBreak zs c p) :
    (c, p) ∈ recPoints zs := by
  obtain ⟨r, hr, hc, hp⟩ := h
  unfold recPoints
  rw [List.mem_flatMap]
  refine ⟨r, hr, ?_⟩
  subst hc
  rcases hp with hp | hp <;> subst hp <;> simp

theorem Rec.cov_pred (r : Rec) (c : Bytes) (p : Nat)
    (h : ¬ (r.chrom = c ∧ (r.start = p + 1 ∨ r.stop = p + 1))) :
    r.cov c (p + 1) = r.cov c p := by
  rw [Bool.eq_iff_iff, Rec.cov_iff, Rec.cov_iff]
  constructor
  · rintro ⟨hc, h1, h2⟩
    refine ⟨hc, ?_, by omega⟩
    have : ¬ (r.start = p + 1) := fun e => h ⟨hc, Or.inl e⟩
    omega
  · rintro ⟨hc, h1, h2⟩
    refine ⟨hc, by omega, ?_⟩
    have : ¬ (r.stop = p + 1) := fun e => h ⟨hc, Or.inr e⟩
    omega

theorem Rec.cov_zero (r : Rec) (c : Bytes)
    (h : ¬ (r.chrom = c ∧ (r.start = 0 ∨ r.stop = 0))) :
    r.cov c 0 = false := by
  rw [Bool.eq_false_iff]
  intro hc
  rw [Rec.cov_iff] at hc
  obtain ⟨hc, h1, h2⟩ := hc
  exact h ⟨hc, Or.inl (by omega)⟩

theorem coveredByB_pred (zs : List Rec) (c : Bytes) (p : Nat) (h : ¬ IsBreak zs c (p + 1)) :
    coveredByB zs c (p + 1) = coveredByB zs c p := by
  unfold coveredByB
  induction zs with
  | nil => rfl
  | cons z zs ih =>
    simp only [List.any_cons]
    rw [ih (fun ⟨r, hr, hh⟩ => h ⟨r, List.mem_cons_of_mem _ hr, hh⟩),
      Rec.cov_pred z c p (fun hh => h ⟨z, List.mem_cons_self, hh⟩)]

theorem coveredByB_zero (zs : List Rec) (c : Bytes) (h : ¬ IsBreak zs c 0) :
    coveredByB zs c 0 = false := by
  unfold coveredByB
  rw [List.any_eq_false]
  intro r hr
  rw [Rec.cov_zero r c (fun hh => h ⟨r, hr, hh⟩)]
  simp

theorem covered_eq_of_breakpoints' (xs ys : List Rec)
    (h : ∀ cp ∈ recPoints xs ++ recPoints ys, coveredByB xs cp.1 cp.2 = coveredByB ys cp.1 cp.2) :
    ∀ c p, coveredByB xs c p = coveredByB ys c p := by
  intro c p
  induction p with
  | zero =>
    by_cases hx : IsBreak xs c 0
    · exact h (c, 0) (List.mem_append_left _ (mem_recPoints_of_break hx))
    · by_cases hy : IsBreak ys c 0
      · exact h (c, 0) (List.mem_append_right _ (mem_recPoints_of_break hy))
      · rw [coveredByB_zero xs c hx, coveredByB_zero ys c hy]
  | succ p ih =>
    by_cases hx : IsBreak xs c (p + 1)
    · exact h (c, p + 1) (List.mem_append_left _ (mem_recPoints_of_break hx))
    · by_cases hy : IsBreak ys c (p + 1)
      · exact h (c, p + 1) (List.mem_append_right _ (mem_recPoints_of_break hy))
      · rw [coveredByB_pred xs c p hx, coveredByB_pred ys c p hy, ih]

theorem coveredByB_iff (xs : List Rec) (c : Bytes) (p : Nat) :
    coveredByB xs c p = true ↔ coveredBy xs c p := by
  unfold coveredByB coveredBy Rec.mem
  rw [List.any_eq_true]
  constructor
  · rintro ⟨r, hr, hc⟩
    rw [Rec.cov_iff] at hc
    exact ⟨r, hr, hc⟩
  · rintro ⟨r, hr, hc⟩
    exact ⟨r, hr, (Rec.cov_iff r c p).mpr hc⟩

theorem coveredByB_map_iff (xs : List BG) (c : Bytes) (p : Nat) :
    coveredByB (xs.map BG.toRec) c p = true ↔ coveredByBG xs c p := by
  unfold coveredByB coveredByBG Rec.mem
  rw [List.any_eq_true]
  constructor
  · rintro ⟨r, hr, hc⟩
    rw [List.mem_map] at hr
    obtain ⟨b, hb, rfl⟩ := hr
    rw [Rec.cov_iff] at hc
    exact ⟨b, hb, hc⟩
  · rintro ⟨b, hb, hc⟩
    exact ⟨b.toRec, List.mem_map_of_mem hb, (Rec.cov_iff b.toRec c p).mpr hc⟩

/-- consecutive-pair sortedness gives pairwise sortedness (transitivity of `compare`) -/
theorem sortedRecsB_sound (xs : List Rec) (h : sortedRecsB xs = true) : SortedRecs xs := by
  unfold SortedRecs
  unfold sortedRecsB at h
  induction xs with
  | nil => exact List.Pairwise.nil
  | cons a t ih =>
    cases t with
    | nil => simp
    | cons b t =>
      simp only [List.drop_succ_cons, List.drop_zero, List.zip_cons_cons, List.all_cons,
        Bool.and_eq_true, bne_iff_ne, ne_eq] at h
      have hb : (b :: t).Pairwise (fun a b => Rec.compare a b ≠ .gt) := by
        apply ih
        simpa using h.2
      rw [List.pairwise_cons]
      refine ⟨?_, hb⟩
      intro z hz
      rcases List.mem_cons.mp hz with rfl | hz
      · exact h.1
      · exact C13_compare_trans a b z h.1 ((List.pairwise_cons.mp hb).1 z hz)

/-! ### sums -/

theorem sumAtB_eq_sumAt (xs : List BG) (c : Bytes) (p : Nat) : sumAtB xs c p = sumAt xs c p := by
  unfold sumAtB sumAt
  congr 2
  apply List.filter_congr
  intro b _
  rw [Bool.eq_iff_iff, Rec.cov_iff, decide_eq_true_iff]
  simp [Rec.mem, BG.toRec]

theorem sumAtB_pred (xs : List BG) (c : Bytes) (p : Nat) (h : ¬ IsBreak (xs.map BG.toRec) c (p + 1)) :
    sumAtB xs c (p + 1) = sumAtB xs c p := by
  unfold sumAtB
  congr 1
  congr 1
  apply List.filter_congr
  intro b hb
  apply Rec.cov_pred
  intro hh
  exact h ⟨b.toRec, List.mem_map_of_mem hb, hh⟩

end BV
