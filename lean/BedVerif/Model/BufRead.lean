import BedVerif.Model.Store
/-!
Model of the uncompressed read stack of `ExternalChunk::new` (`src/extsort/chunk.rs`): the chunk reads
through `BufReader<File>`. `BufReader::{read, read_exact}` and `Buffer::{fill_buf, consume_with}` are
transcribed from std (`library/std/src/io/buffered/bufreader.rs`, `bufreader/buffer.rs`); the storage
underneath is the fault-plan reader `RStore` of `Model/Store.lean`.

`buf` is the unread part of the internal buffer (`buffer[pos..filled]`); `cap` its capacity (any
value, 0 included: then every read bypasses the buffer).
-/
namespace BV

structure BufR where
  cap : Nat
  buf : Bytes
  inner : RStore
deriving Repr, DecidableEq

/-- `BufReader::read` into a buffer of `n` bytes: bypass when nothing is buffered and the request is at
least the capacity; otherwise `fill_buf` (one `read` of the storage into the whole internal buffer when
it is empty; an error of that read — `Interrupted` included — is returned) and copy -/
def BufR.read (r : BufR) (n : Nat) : RRes × BufR :=
  if r.buf.isEmpty && n ≥ r.cap then
    match r.inner.read n with
    | (res, s) => (res, { r with inner := s })
  else if r.buf.isEmpty then
    match r.inner.read r.cap with
    | (.data b, s) => (.data (b.take n), { r with buf := b.drop n, inner := s })
    | (.interrupted, s) => (.interrupted, { r with inner := s })
    | (.err, s) => (.err, { r with inner := s })
  else (.data (r.buf.take n), { r with buf := r.buf.drop n })

/-- `default_read_exact` over `BufReader::read` -/
def BufR.readExactLoop : Nat → BufR → Nat → Bytes → ExactRes × BufR
  | 0, r, _, _ => (.err, r)
  | fuel+1, r, n, acc =>
    if n = 0 then (.ok acc, r) else
    match r.read n with
    | (.err, r') => (.err, r')
    | (.interrupted, r') => BufR.readExactLoop fuel r' n acc
    | (.data b, r') => if b.isEmpty then (.eof, r') else BufR.readExactLoop fuel r' (n - b.length) (acc ++ b)

/-- `BufReader::read_exact`: served from the buffer when it holds at least `n` bytes
(`consume_with`), otherwise the default loop -/
def BufR.readExact (fuel : Nat) (r : BufR) (n : Nat) : ExactRes × BufR :=
  if n ≤ r.buf.length then (.ok (r.buf.take n), { r with buf := r.buf.drop n })
  else BufR.readExactLoop fuel r n []

/-- `ExternalChunk::next` over the buffered reader -/
def chunkNextBuf (r : BufR) : Option (IoRes Bytes) × BufR :=
  match r.readExact (8 + r.inner.plan.length + 2) 8 with
  | (.eof, r1) => (none, r1)
  | (.err, r1) => (some .err, r1)
  | (.ok hdr, r1) =>
    match r1.readExact (unle64 hdr + r1.inner.plan.length + 2) (unle64 hdr) with
    | (.ok p, r2) => (some (.ok p), r2)
    | (_, r2) => (some .err, r2)

/-- the items a chunk yields up to and including its first error item -/
def chunkItemsBuf : Nat → BufR → List (IoRes Bytes)
  | 0, _ => []
  | fuel+1, r =>
    match chunkNextBuf r with
    | (none, _) => []
    | (some .err, _) => [.err]
    | (some (.ok p), r') => .ok p :: chunkItemsBuf fuel r'

end BV
