import BedVerif.Model.Rec
import BedVerif.Spec.Lapper
/-!
Model of `src/coverage.rs`: `Coverage`, `SparseCoverage`, `BinnedCoverage`,
`SparseBinnedCoverage`, on top of the `GIntervalIndexSet` model (`IndexSet`), i.e. the tag lookup
goes through the per-chromosome Lapper `find` exactly as in the Rust.
Counters are `Int` (the Rust is generic over `N`; the harness uses `i64` and `u64`); `total_count`
(an `f64` accumulator of the multiplicities) is an `Int` — exact while all partial sums are below 2^53.
-/
namespace BV

inductive COp | insert (tag : Rec) (k : Int) | insertAt (i : Nat) (k : Int) | reset
deriving Repr

/-- `v[i] += k` (no-op out of range; the Rust would panic — histories keep `i` in range) -/
def addAt (l : List Int) (i : Nat) (k : Int) : List Int :=
  match l[i]? with
  | some x => l.set i (x + k)
  | none => l

/-! ## `Coverage` -/
structure Dense where
  counts : List Int
  total : Int
deriving Repr, DecidableEq

def Dense.init (regions : List Rec) : Dense := ⟨regions.map (fun _ => 0), 0⟩
def Dense.step (ix : IndexSet) (s : Dense) : COp → Dense
  | .insert tag k => ⟨(ix.findIndexOf tag).foldl (fun c i => addAt c i k) s.counts, s.total + k⟩
  | .insertAt i k => ⟨addAt s.counts i k, s.total + k⟩
  | .reset => ⟨s.counts.map (fun _ => 0), 0⟩
def Dense.run (regions : List Rec) (ops : List COp) : Dense :=
  ops.foldl (Dense.step (IndexSet.fromIter regions)) (Dense.init regions)

/-! ## `SparseCoverage` (`BTreeMap<usize, N>`: sorted by key, unique keys) -/
structure Sparse where
  m : List (Nat × Int)
  total : Int
deriving Repr, DecidableEq

/-- `entry(i).and_modify(|x| *x += k).or_insert(k)` -/
def mapAdd : List (Nat × Int) → Nat → Int → List (Nat × Int)
  | [], i, k => [(i, k)]
  | (j, v) :: rest, i, k =>
    if i < j then (i, k) :: (j, v) :: rest
    else if i = j then (j, v + k) :: rest
    else (j, v) :: mapAdd rest i k

def Sparse.step (ix : IndexSet) (s : Sparse) : COp → Sparse
  | .insert tag k => ⟨(ix.findIndexOf tag).foldl (fun m i => mapAdd m i k) s.m, s.total + k⟩
  | .insertAt i k => ⟨mapAdd s.m i k, s.total + k⟩
  | .reset => ⟨[], 0⟩
/-- `get_coverage_as_vec` -/
def asVec (n : Nat) (m : List (Nat × Int)) : List Int :=
  m.foldl (fun v (ix : Nat × Int) => v.set ix.1 ix.2) (List.replicate n 0)
def Sparse.run (regions : List Rec) (ops : List COp) : Sparse :=
  ops.foldl (Sparse.step (IndexSet.fromIter regions)) ⟨[], 0⟩

/-! ## binned counters -/
/-- `len().div_ceil(bin_size)` -/
def nbins (r : Rec) (bin : Nat) : Nat := (r.blen + bin - 1) / bin
/-- bin `b` of region `r`: the `b`-th piece of `split_by_len` -/
def binOf (r : Rec) (bin b : Nat) : Rec := ⟨r.chrom, r.start + b * bin, min (r.start + (b+1) * bin) r.stop⟩

/-- the inclusive bin range a tag touches (coverage.rs: `i`, `j`); the unsigned subtractions
`tag.end() - 1 - region.start()` and `region.len() - 1` panic on underflow, `div_floor(0)` panics -/
def binRange (r tag : Rec) (bin : Nat) : Out (Nat × Nat) :=
  if bin = 0 then .panic else
  if tag.stop < 1 + r.start then .panic else if r.blen < 1 then .panic else
  .ok ((tag.start - r.start) / bin, (min (tag.stop - 1 - r.start) (r.blen - 1)) / bin)

structure BDense where
  cov : List (List Int)
  total : Int
deriving Repr, DecidableEq

def addRange (l : List Int) (i j : Nat) (k : Int) : List Int :=
  (List.range' i (j + 1 - i)).foldl (fun c b => addAt c b k) l

inductive BOp | insert (tag : Rec) (k : Int) | reset
deriving Repr

def BDense.init (regions : List Rec) (bin : Nat) : BDense := ⟨regions.map (fun r => List.replicate (nbins r bin) 0), 0⟩
def BDense.step (ix : IndexSet) (bin : Nat) (s : Out BDense) : BOp → Out BDense
  | .reset => match s with | .panic => .panic | .ok s => .ok ⟨s.cov.map (fun v => v.map (fun _ => 0)), 0⟩
  | .insert tag k =>
    match s with
    | .panic => .panic
    | .ok s =>
      (ix.findFull tag).foldl (fun (acc : Out BDense) (hit : Rec × Nat) =>
        match acc with
        | .panic => .panic
        | .ok a =>
          match binRange hit.1 tag bin, a.cov[hit.2]? with
          | .ok (i, j), some row =>
            if j < row.length then .ok { a with cov := a.cov.set hit.2 (addRange row i j k) } else .panic
          | _, _ => .panic) (.ok { s with total := s.total + k })
def BDense.run (regions : List Rec) (bin : Nat) (ops : List BOp) : Out BDense :=
  ops.foldl (BDense.step (IndexSet.fromIter regions) bin) (.ok (BDense.init regions bin))

/-- `accu_size` (exclusive prefix sums of the bin counts) and `len` -/
def accu (regions : List Rec) (bin : Nat) : List Nat × Nat :=
  regions.foldl (fun (acc : List Nat × Nat) r => (acc.1 ++ [acc.2], acc.2 + nbins r bin)) ([], 0)

structure BSparse where
  m : List (Nat × Int)
  total : Int
deriving Repr, DecidableEq

/-- `entry(n + in_idx).or_insert(0) += k` -/
def BSparse.step (ix : IndexSet) (regions : List Rec) (bin : Nat) (s : Out BSparse) : BOp → Out BSparse
  | .reset => match s with | .panic => .panic | .ok _ => .ok ⟨[], 0⟩
  | .insert tag k =>
    match s with
    | .panic => .panic
    | .ok s =>
      (ix.findFull tag).foldl (fun (acc : Out BSparse) (hit : Rec × Nat) =>
        match acc with
        | .panic => .panic
        | .ok a =>
          match binRange hit.1 tag bin, (accu regions bin).1[hit.2]? with
          | .ok (i, j), some n => .ok { a with m := (List.range' i (j + 1 - i)).foldl (fun m b => mapAdd m (n + b) k) a.m }
          | _, _ => .panic) (.ok { s with total := s.total + k })
def BSparse.run (regions : List Rec) (bin : Nat) (ops : List BOp) : Out BSparse :=
  ops.foldl (BSparse.step (IndexSet.fromIter regions) regions bin) (.ok ⟨[], 0⟩)

/-- `slice::binary_search` on a strictly increasing vector: `Ok(position)` or `Err(insertion point)` -/
def binarySearch (v : List Nat) (x : Nat) : Except Nat Nat :=
  match v.findIdx? (· == x) with
  | some j => .ok j
  | none => .error (v.countP (· < x))

/-- `SparseBinnedCoverage::get_region` (with the `index >= len → None` guard; `start.saturating_add(bin_size).min(end)` as repaired) -/
def getRegion (regions : List Rec) (bin idx : Nat) : Out (Option Rec) :=
  let al := accu regions bin
  if idx ≥ al.2 then .ok none else
  match binarySearch al.1 idx with
  | .ok j =>
    if j < al.2 then
      match regions[j]? with
      | some site => .ok (some ⟨site.chrom, site.start, min (satAdd site.start bin) site.stop⟩)
      | none => .panic
    else .ok none
  | .error j =>
    if j < 1 then .panic else       -- `j - 1` on usize
    if j - 1 < al.2 then
      match regions[j-1]?, al.1[j-1]? with
      | some site, some prev =>
        let start := site.start + (idx - prev) * bin
        .ok (some ⟨site.chrom, start, min (satAdd start bin) site.stop⟩)
      | _, _ => .panic
    else .ok none

/-- `get_region` with unbounded addition (what the saturating version computes for coordinates ≤ u64::MAX:
`C06_getRegion_eq_ideal`) -/
def getRegionIdeal (regions : List Rec) (bin idx : Nat) : Out (Option Rec) :=
  let al := accu regions bin
  if idx ≥ al.2 then .ok none else
  match binarySearch al.1 idx with
  | .ok j =>
    if j < al.2 then
      match regions[j]? with
      | some site => .ok (some ⟨site.chrom, site.start, min (site.start + bin) site.stop⟩)
      | none => .panic
    else .ok none
  | .error j =>
    if j < 1 then .panic else       -- `j - 1` on usize
    if j - 1 < al.2 then
      match regions[j-1]?, al.1[j-1]? with
      | some site, some prev =>
        let start := site.start + (idx - prev) * bin
        .ok (some ⟨site.chrom, start, min (start + bin) site.stop⟩)
      | _, _ => .panic
    else .ok none

/-- `SparseBinnedCoverage::get_chrom` -/
def getChrom (regions : List Rec) (bin idx : Nat) : Out (Option Bytes) :=
  let al := accu regions bin
  if idx ≥ al.2 then .ok none else
  match binarySearch al.1 idx with
  | .ok j => if j < al.2 then (match regions[j]? with | some site => .ok (some site.chrom) | none => .panic) else .ok none
  | .error j =>
    if j < 1 then .panic else
    if j - 1 < al.2 then (match regions[j-1]? with | some site => .ok (some site.chrom) | none => .panic) else .ok none

/-- all bins, region by region, in tiling order -/
def allBins (regions : List Rec) (bin : Nat) : List Rec :=
  regions.flatMap (fun r => (List.range (nbins r bin)).map (binOf r bin))

end BV
