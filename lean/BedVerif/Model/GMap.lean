import BedVerif.Model.Lapper
/-!
Model of `src/bed/map.rs`: `GIntervalMap<D>` (a `HashMap<String, Lapper<u64, D>>`, modelled as an
association list with unique keys — iteration order of the hash map is not an observable),
`GIntervalIndexSet`, `GIntervalIndexMap`.
-/
namespace BV

/-- the BEDLike view of a record: chromosome, start, end -/
structure Rec where
  chrom : Bytes
  start : Nat
  stop : Nat          -- `end` is a keyword
deriving Repr, DecidableEq, Inhabited

abbrev GMap (α : Type) := List (Bytes × Lapper α)

variable {α : Type}

def GMap.get? (m : GMap α) (c : Bytes) : Option (Lapper α) :=
  match m with
  | [] => none
  | (k, v) :: rest => if k = c then some v else GMap.get? rest c

/-- replace or append the entry for `c` -/
def GMap.put (m : GMap α) (c : Bytes) (v : Lapper α) : GMap α :=
  match m with
  | [] => [(c, v)]
  | (k, w) :: rest => if k = c then (k, v) :: rest else (k, w) :: GMap.put rest c v

/-- the `hmap.entry(chr).or_insert(Vec::new()).push(interval)` loop of `from_iter` -/
def groupPush (g : List (Bytes × List (Iv α))) (c : Bytes) (iv : Iv α) : List (Bytes × List (Iv α)) :=
  match g with
  | [] => [(c, [iv])]
  | (k, l) :: rest => if k = c then (k, l ++ [iv]) :: rest else (k, l) :: groupPush rest c iv

/-- `GIntervalMap::from_iter` -/
def GMap.fromIter (xs : List (Rec × α)) : GMap α :=
  (xs.foldl (fun g (x : Rec × α) => groupPush g x.1.chrom ⟨x.1.start, x.1.stop, x.2⟩) []).map
    (fun (kv : Bytes × List (Iv α)) => (kv.1, Lapper.new kv.2))

/-- `GIntervalMap::insert` -/
def GMap.insert (m : GMap α) (r : Rec) (v : α) : GMap α :=
  let tree := (GMap.get? m r.chrom).getD (Lapper.new [])
  GMap.put m r.chrom (tree.insert ⟨r.start, r.stop, v⟩)

/-- `GIntervalMap::find`, drained -/
def GMap.find (m : GMap α) (q : Rec) : List (Rec × α) :=
  match GMap.get? m q.chrom with
  | none => []
  | some t => (t.find q.start q.stop).map (fun iv => (⟨q.chrom, iv.start, iv.stop⟩, iv.val))

def GMap.isOverlapped (m : GMap α) (q : Rec) : Bool := !(GMap.find m q).isEmpty
def GMap.len (m : GMap α) : Nat := (m.map (fun (kv : Bytes × Lapper α) => kv.2.intervals.size)).sum
def GMap.iter (m : GMap α) : List (Rec × α) :=
  m.flatMap (fun (kv : Bytes × Lapper α) => kv.2.intervals.toList.map (fun iv => (⟨kv.1, iv.start, iv.stop⟩, iv.val)))

inductive BuildOp (α : Type) | ins (r : Rec) (v : α)
def GMap.build (bulk : List (Rec × α)) (inserts : List (Rec × α)) : GMap α :=
  inserts.foldl (fun m (x : Rec × α) => GMap.insert m x.1 x.2) (GMap.fromIter bulk)

/-! `GIntervalIndexSet` / `GIntervalIndexMap` -/
structure IndexSet where
  data : List Rec
  indices : GMap Nat

def enumFrom {β : Type} : Nat → List β → List (β × Nat)
  | _, [] => []
  | n, x :: xs => (x, n) :: enumFrom (n+1) xs

def IndexSet.fromIter (xs : List Rec) : IndexSet :=
  { data := xs, indices := GMap.fromIter (enumFrom 0 xs) }

def IndexSet.len (s : IndexSet) : Nat := s.data.length
def IndexSet.get (s : IndexSet) (i : Nat) : Option Rec := s.data[i]?
def IndexSet.findFull (s : IndexSet) (q : Rec) : List (Rec × Nat) := GMap.find s.indices q
def IndexSet.findIndexOf (s : IndexSet) (q : Rec) : List Nat := (s.findFull q).map (·.2)
def IndexSet.find (s : IndexSet) (q : Rec) : List Rec := (s.findFull q).map (·.1)
def IndexSet.isOverlapped (s : IndexSet) (q : Rec) : Bool := !(s.findFull q).isEmpty

structure IndexMap (δ : Type) where
  data : List δ
  indices : GMap Nat

def IndexMap.fromIter {δ : Type} (xs : List (Rec × δ)) : IndexMap δ :=
  { data := xs.map (·.2), indices := GMap.fromIter (enumFrom 0 (xs.map (·.1))) }
def IndexMap.len {δ : Type} (s : IndexMap δ) : Nat := s.data.length
def IndexMap.get {δ : Type} (s : IndexMap δ) (i : Nat) : Option δ := s.data[i]?
def IndexMap.findIndexOf {δ : Type} (s : IndexMap δ) (q : Rec) : List (Rec × Nat) := GMap.find s.indices q
/-- `find` indexes `data[*i]` unguarded -/
def IndexMap.find {δ : Type} (s : IndexMap δ) (q : Rec) : Out (List (Rec × δ)) :=
  (GMap.find s.indices q).foldr (fun (x : Rec × Nat) acc =>
    match acc, s.data[x.2]? with
    | .ok rest, some d => .ok ((x.1, d) :: rest)
    | _, _ => .panic) (.ok [])

end BV
