import BedVerif.Basic
/-!
Model of `src/intervaltree.rs` (`Lapper<u64, T>`), mirroring the algorithms:
the hand-written binary searches with their probe arithmetic, the `max_len` offset and the
early `break` of `IterFind`, the BITS count, the carried cursor of `seek`, the stack-based
`merge_overlaps`, the moving-interval coverage sweep, both code paths of
`union_and_intersect`, and the `IterDepth` state machine with its sentinel.

`u64`/`usize` are `Nat`; `checked_sub(..).unwrap_or(0)` is Nat subtraction. Indexing that the
Rust guards is guarded here the same way (`arr[i]?`); indexing the Rust does not guard yields
`Out.panic`.
-/
namespace BV

structure Iv (α : Type) where
  start : Nat
  stop : Nat
  val : α
deriving Repr, DecidableEq, Inhabited

namespace Iv
variable {α : Type}
/-- `Interval::overlap` -/
def ov (iv : Iv α) (s e : Nat) : Bool := iv.start < e && iv.stop > s
/-- `stop.checked_sub(start).unwrap_or(0)` -/
def len (iv : Iv α) : Nat := iv.stop - iv.start
/-- `Ord for Interval`: (start, stop) lexicographic -/
def cmp (a b : Iv α) : Ordering := (compare a.start b.start).then (compare a.stop b.stop)
def le (a b : Iv α) : Bool := cmp a b != .gt
/-- `Interval::intersect` -/
def inter {β : Type} (a : Iv α) (b : Iv β) : Nat := min a.stop b.stop - max a.start b.start
end Iv

/-- loop of `bsearch_seq_ref` (`while high - low > 1`) -/
def bsLoop {κ : Type} (cmp : κ → κ → Ordering) (key : κ) (l : Array κ) : Nat → Nat → Nat → Nat
  | 0, _, high => high
  | fuel+1, low, high =>
    if high - low > 1 then
      let mid := (high + low) / 2
      match l[mid]? with
      | some x => if cmp x key == .lt then bsLoop cmp key l fuel mid high else bsLoop cmp key l fuel low mid
      | none => high
    else high

/-- `bsearch_seq_ref`: empty → 0; `elems[0] >= key` → 0; else the loop. -/
def bsearchSeq {κ : Type} (cmp : κ → κ → Ordering) (key : κ) (l : Array κ) : Nat :=
  match l[0]? with
  | none => 0
  | some x0 =>
    if cmp x0 key != .lt then 0
    else bsLoop cmp key l (l.size + 1) 0 l.size

/-- loop of `Lapper::lower_bound` -/
def lbLoop {α} (s : Nat) (l : Array (Iv α)) : Nat → Nat → Nat → Nat
  | 0, _, low => low
  | fuel+1, size, low =>
    if size > 0 then
      let half := size / 2
      let otherHalf := size - half
      let probe := low + half
      let otherLow := low + otherHalf
      match l[probe]? with
      | some v => lbLoop s l fuel half (if v.start < s then otherLow else low)
      | none => low
    else low
def lowerBound {α} (s : Nat) (l : Array (Iv α)) : Nat := lbLoop s l (l.size + 1) l.size 0

structure Lapper (α : Type) where
  intervals : Array (Iv α)
  starts : Array Nat
  stops : Array Nat
  maxLen : Nat
  cov : Option Nat
  merged : Bool
deriving Repr

variable {α : Type}

def maxLenOf (l : List (Iv α)) : Nat := l.foldl (fun m iv => if iv.len > m then iv.len else m) 0

/-- `Lapper::new` -/
def Lapper.new (l : List (Iv α)) : Lapper α :=
  let ivs := isort Iv.le l
  { intervals := ivs.toArray
    starts := (sortNat (ivs.map (·.start))).toArray
    stops := (sortNat (ivs.map (·.stop))).toArray
    maxLen := maxLenOf ivs, cov := none, merged := false }

/-- `Vec::insert` -/
def insertAt {β} (a : Array β) (i : Nat) (x : β) : Array β := ((a.toList.take i) ++ x :: (a.toList.drop i)).toArray

/-- `Lapper::insert` -/
def Lapper.insert (s : Lapper α) (e : Iv α) : Lapper α :=
  let si := bsearchSeq compare e.start s.starts
  let ti := bsearchSeq compare e.stop s.stops
  let ii := bsearchSeq Iv.cmp e s.intervals
  { intervals := insertAt s.intervals ii e
    starts := insertAt s.starts si e.start
    stops := insertAt s.stops ti e.stop
    maxLen := if e.len > s.maxLen then e.len else s.maxLen
    cov := none, merged := false }

/-- `IterFind::next` drained: the scan with its early `break` -/
def scan (l : List (Iv α)) (s e : Nat) : List (Iv α) :=
  match l with
  | [] => []
  | iv :: rest => if iv.ov s e then iv :: scan rest s e else if iv.start ≥ e then [] else scan rest s e

/-- `Lapper::find` -/
def Lapper.find (s : Lapper α) (qs qe : Nat) : List (Iv α) :=
  scan (s.intervals.toList.drop (lowerBound (qs - s.maxLen) s.intervals)) qs qe

/-- the `while *cursor + 1 < len && intervals[*cursor+1].start < bound` loop of `seek` -/
def advance (l : Array (Iv α)) (bound : Nat) : Nat → Nat → Nat
  | 0, c => c
  | fuel+1, c =>
    if c + 1 < l.size then
      match l[c+1]? with
      | some v => if v.start < bound then advance l bound fuel (c+1) else c
      | none => c
    else c

/-- `Lapper::seek`: returns the hits and the new cursor -/
def Lapper.seek (s : Lapper α) (qs qe : Nat) (cursor : Nat) : List (Iv α) × Nat :=
  let reseed := cursor == 0 || (match s.intervals[cursor]? with | some v => decide (v.start > qs) | none => false)
  let c1 := if reseed then lowerBound (qs - s.maxLen) s.intervals else cursor
  let c2 := advance s.intervals (qs - s.maxLen) s.intervals.size c1
  (scan (s.intervals.toList.drop c2) qs qe, c2)

/-- the `while first < len && stops[first] == start` loop of `count` -/
def skipEq (stops : Array Nat) (start : Nat) : Nat → Nat → Nat
  | 0, f => f
  | fuel+1, f => match stops[f]? with
    | some x => if x == start then skipEq stops start fuel (f+1) else f
    | none => f

/-- `Lapper::count` -/
def Lapper.count (s : Lapper α) (qs qe : Nat) : Nat :=
  let len := s.intervals.size
  let first := skipEq s.stops qs len (bsearchSeq compare qs s.stops)
  let last := bsearchSeq compare qe s.starts
  len - first - (len - last)

/-- one iteration of the stack loop of `merge_overlaps` (stack top = list head) -/
def mergeStep (acc : List (Iv α)) (iv : Iv α) : List (Iv α) :=
  match acc with
  | [] => [iv]
  | top :: rest =>
    if top.stop < iv.start then iv :: top :: rest
    else if top.stop < iv.stop then { top with stop := iv.stop } :: rest
    else top :: rest

/-- `Lapper::merge_overlaps` -/
def Lapper.mergeOverlaps (s : Lapper α) : Lapper α :=
  let ivs := (s.intervals.toList.foldl mergeStep []).reverse
  { intervals := ivs.toArray
    starts := (sortNat (ivs.map (·.start))).toArray
    stops := (sortNat (ivs.map (·.stop))).toArray
    maxLen := maxLenOf ivs
    cov := s.cov
    merged := if s.intervals.isEmpty then s.merged else true }

/-- loop body of `calculate_coverage` -/
def covStep (st : (Nat × Nat) × Nat) (iv : Iv α) : (Nat × Nat) × Nat :=
  let ((ms, me), c) := st
  if ms < iv.stop && me > iv.start then ((min ms iv.start, max me iv.stop), c)
  else ((iv.start, iv.stop), c + (me - ms))
def Lapper.calcCov (s : Lapper α) : Nat :=
  let ((ms, me), c) := s.intervals.toList.foldl covStep ((0, 0), 0)
  c + (me - ms)
/-- `Lapper::cov` -/
def Lapper.getCov (s : Lapper α) : Nat := match s.cov with | none => s.calcCov | some c => c
/-- `Lapper::set_cov` -/
def Lapper.setCov (s : Lapper α) : Lapper α := { s with cov := some s.calcCov }

/-- `union_and_intersect` -/
def Lapper.unionAndIntersect {β : Type} (a : Lapper α) (b : Lapper β) : Nat × Nat :=
  if !a.merged || !b.merged then
    let (pieces, _) := a.intervals.toList.foldl (fun (acc : List (Iv Bool) × Nat) siv =>
      let (hits, c) := b.seek siv.start siv.stop acc.2
      (acc.1 ++ hits.map (fun oiv => ⟨max siv.start oiv.start, min siv.stop oiv.stop, true⟩), c)) ([], 0)
    let t := ((Lapper.new pieces).mergeOverlaps).setCov
    (a.getCov - t.getCov + b.getCov, t.getCov)          -- as repaired: the intersection is subtracted first (no u64 overflow)
  else
    let (isect, _) := a.intervals.toList.foldl (fun (acc : Nat × Nat) c1 =>
      let (hits, c) := b.seek c1.start c1.stop acc.2
      (acc.1 + (hits.map (fun c2 => c1.inter c2)).sum, c)) (0, 0)
    (a.getCov - isect + b.getCov, isect)

/-! `IterDepth` -/
structure DepthSt where
  currMergedPos : Nat
  currPos : Nat
  cursor : Nat
deriving Repr

def depthAt (s : Lapper α) (p : Nat) (cursor : Nat) : Nat × Nat :=
  let (h, c) := s.seek p (p+1) cursor; (h.length, c)

/-- the probe inside the loop, as repaired: `seek(pos, pos.saturating_add(1))` (the last probe of a block
ending at u64::MAX has `pos = u64::MAX`) -/
def depthAtSat (s : Lapper α) (p : Nat) (cursor : Nat) : Nat × Nat :=
  let (h, c) := s.seek p (satAdd p 1) cursor; (h.length, c)

/-- the inner `while new_depth == depth && pos < interval.stop` loop -/
def walk (s : Lapper α) (d : Nat) (stop : Nat) : Nat → Nat → Nat → Nat × Nat
  | 0, pos, cur => (pos, cur)
  | fuel+1, pos, cur =>
    if pos < stop then
      let pos' := pos + 1
      let (nd, cur') := depthAtSat s pos' cur
      if nd == d then walk s d stop fuel pos' cur' else (pos', cur')
    else (pos, cur)

/-- one `IterDepth::next()`; `none` from the index = the guard added by the repair
(`merged` is empty ⇒ the iterator is exhausted) -/
def depthNext (s : Lapper α) (m : Array (Iv Bool)) (st : DepthSt) : Option (Iv Nat) × DepthSt :=
  match m[st.currPos]? with
  | none => (none, st)
  | some iv0 =>
    let cmp0 := if st.currMergedPos == 0 then iv0.start else st.currMergedPos
    let step : Option (Iv Bool × Nat × Nat) :=
      if iv0.stop == cmp0 then
        if st.currPos + 1 != m.size then
          match m[st.currPos + 1]? with
          | some iv1 => some (iv1, iv1.start, st.currPos + 1)
          | none => none
        else none
      else some (iv0, cmp0, st.currPos)
    match step with
    | none => (none, { st with currMergedPos := cmp0 })
    | some (iv, pos, cp) =>
      let (d, cur1) := depthAt s pos st.cursor
      let (pos', cur2) := walk s d iv.stop (iv.stop - pos + 1) pos cur1
      (some ⟨pos, pos', d⟩, { currMergedPos := pos', currPos := cp, cursor := cur2 })

def depthDrain (s : Lapper α) (m : Array (Iv Bool)) : Nat → DepthSt → List (Iv Nat) → List (Iv Nat)
  | 0, _, acc => acc.reverse
  | fuel+1, st, acc =>
    match depthNext s m st with
    | (none, _) => acc.reverse
    | (some r, st') => depthDrain s m fuel st' (r :: acc)

/-- the merged helper lapper built by `depth()` -/
def Lapper.depthMerged (s : Lapper α) : Array (Iv Bool) :=
  ((Lapper.new (s.intervals.toList.map (fun i => (⟨i.start, i.stop, true⟩ : Iv Bool)))).mergeOverlaps).intervals

/-- `Lapper::depth().collect()` -/
def Lapper.depth (s : Lapper α) : List (Iv Nat) :=
  let m := s.depthMerged
  let total := (m.toList.map (·.len)).sum
  depthDrain s m (total + m.size + 2) ⟨0, 0, 0⟩ []

/-! Operation histories -/
inductive Op (α : Type) | insert (iv : Iv α) | merge | setCov
deriving Repr
def Lapper.step (s : Lapper α) : Op α → Lapper α
  | .insert iv => s.insert iv
  | .merge => s.mergeOverlaps
  | .setCov => s.setCov
def Lapper.run (l : List (Iv α)) (ops : List (Op α)) : Lapper α := ops.foldl Lapper.step (Lapper.new l)

end BV
