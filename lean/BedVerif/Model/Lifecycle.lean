import BedVerif.Basic
/-!
Model of the lifetime of the temporary data of `ExternalSorter` (`src/extsort/sort.rs`,
`chunk.rs`): who owns what, and what each event does under Rust's drop order.

* `build()` creates ONE directory entry (`tempfile::tempdir_in(dir)`), owned by the sorter's
  `TempDir`, removed recursively when the sorter is dropped (also while unwinding).
* every chunk is an *anonymous* file (`tempfile::tempfile_in(&tmp_dir)`): it never has a directory
  entry; it lives as long as some owner holds its handle: the `external_chunks` vector of a running
  `sort_by`, then the returned iterator.
* `sort_by` failing (an `Err` from chunk creation, or a panic raised by the input iterator or the
  comparator) drops the chunks created so far; the sorter itself is borrowed during `sort_by`, so it
  cannot be dropped before `sort_by` has returned or unwound.
The file system is abstracted to: does the directory entry exist, how many entries are inside it,
how many anonymous chunk files are open.
-/
namespace BV

inductive Ev
  | beginSort | createChunk | sortReturns | sortFails      -- `sortFails`: Err or panic inside sort_by
  | yieldItem | dropIter | dropSorter
deriving Repr, DecidableEq

structure FS where
  dirEntry : Bool        -- the `.tmpXXXXXX` entry under the configured directory exists
  inside : Nat           -- directory entries inside it
  building : Nat         -- open chunk files owned by the running `sort_by`
  iterFiles : Nat        -- open chunk files owned by the returned iterator
  sorterAlive : Bool
  iterAlive : Bool
  sorting : Bool
deriving Repr, DecidableEq

/-- state right after `build()` -/
def FS.init : FS := ⟨true, 0, 0, 0, true, false, false⟩

def FS.step (s : FS) : Ev → FS
  | .beginSort => if s.sorterAlive && !s.sorting then { s with sorting := true } else s
  | .createChunk => if s.sorting then { s with building := s.building + 1 } else s
  | .sortReturns =>
    -- a second sort on the same sorter would return a second iterator; the model tracks one
    if s.sorting && !s.iterAlive then { s with sorting := false, iterAlive := true, iterFiles := s.building, building := 0 } else s
  | .sortFails => if s.sorting then { s with sorting := false, building := 0 } else s
  | .yieldItem => s
  | .dropIter => if s.iterAlive then { s with iterAlive := false, iterFiles := 0 } else s
  | .dropSorter =>
    -- the sorter is borrowed while `sort_by` runs
    if s.sorterAlive && !s.sorting then { s with sorterAlive := false, dirEntry := false, inside := 0 } else s

def FS.run (evs : List Ev) : FS := evs.foldl FS.step FS.init

/-- number of open anonymous chunk files -/
def FS.openFiles (s : FS) : Nat := s.building + s.iterFiles

end BV
