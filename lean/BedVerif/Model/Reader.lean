import BedVerif.Model.Text
/-!
Model of `src/bed/io.rs`: `read_line` (std `BufRead::read_line` + strip of one LF then one CR),
`Reader::read_record` (skip prefix), the iterators `Records` / `IntoRecords` (as the loop they are
after the repair of the unbounded recursion), `Writer::write_record`; plus a model of
`BufRead::read_until` over a fragmented, interruptible byte source.
-/
namespace BV

/-- UTF-8 validity (Unicode Table 3-7), as `std::str::from_utf8` decides it -/
def utf8Valid : Bytes → Bool
  | [] => true
  | b0 :: rest =>
    if b0 < 0x80 then utf8Valid rest
    else if 0xC2 ≤ b0 && b0 ≤ 0xDF then
      match rest with
      | b1 :: r => 0x80 ≤ b1 && b1 ≤ 0xBF && utf8Valid r
      | _ => false
    else if 0xE0 ≤ b0 && b0 ≤ 0xEF then
      match rest with
      | b1 :: b2 :: r =>
        (if b0 == 0xE0 then 0xA0 ≤ b1 && b1 ≤ 0xBF else if b0 == 0xED then 0x80 ≤ b1 && b1 ≤ 0x9F else 0x80 ≤ b1 && b1 ≤ 0xBF) &&
        0x80 ≤ b2 && b2 ≤ 0xBF && utf8Valid r
      | _ => false
    else if 0xF0 ≤ b0 && b0 ≤ 0xF4 then
      match rest with
      | b1 :: b2 :: b3 :: r =>
        (if b0 == 0xF0 then 0x90 ≤ b1 && b1 ≤ 0xBF else if b0 == 0xF4 then 0x80 ≤ b1 && b1 ≤ 0x8F else 0x80 ≤ b1 && b1 ≤ 0xBF) &&
        0x80 ≤ b2 && b2 ≤ 0xBF && 0x80 ≤ b3 && b3 ≤ 0xBF && utf8Valid r
      | _ => false
    else false

/-- `read_until(b'\n')` on contiguous input: the raw line (including its LF if any) and the rest -/
def takeLine : Bytes → Bytes × Bytes
  | [] => ([], [])
  | c :: cs => if c == LF then ([c], cs) else let r := takeLine cs; (c :: r.1, r.2)

/-- the strip of `read_line`: one trailing LF, then (only then) one trailing CR -/
def stripEol (raw : Bytes) : Bytes :=
  match raw.reverse with
  | 10 :: 13 :: r => r.reverse
  | 10 :: r => r.reverse
  | _ => raw

/-- `str::starts_with` -/
def isPrefix : Bytes → Bytes → Bool
  | [], _ => true
  | _ :: _, [] => false
  | a :: as, b :: bs => a == b && isPrefix as bs

inductive RItem (β : Type) | record (b : β) | parseErr (e : PErr) | ioErr
deriving Repr, DecidableEq

/-- one raw line → what the iterator does with it: `none` = skipped -/
def classifyLine {β : Type} (parse : Bytes → Outcome PErr β) (pfx : Option Bytes) (raw : Bytes) : Option (RItem β) :=
  if !utf8Valid raw then some .ioErr else
  let line := stripEol raw
  if (match pfx with | some p => isPrefix p line | none => false) then none
  else some (match parse line with | .ok b => .record b | .err e => .parseErr e | .panic => .ioErr)

/-- the iterator drained (`Records` and `IntoRecords` are the same loop over the same state) -/
def items {β : Type} (parse : Bytes → Outcome PErr β) (pfx : Option Bytes) : Nat → Bytes → List (RItem β)
  | 0, _ => []
  | fuel+1, input =>
    if input.isEmpty then [] else
    let lr := takeLine input
    match classifyLine parse pfx lr.1 with
    | none => items parse pfx fuel lr.2
    | some it => it :: items parse pfx fuel lr.2
def readAll {β : Type} (parse : Bytes → Outcome PErr β) (pfx : Option Bytes) (input : Bytes) : List (RItem β) :=
  items parse pfx (input.length + 1) input

/-- specification of the line structure: plain split at LF; a final unterminated non-empty segment
is a line; raw lines keep their terminator -/
def rawLines : Nat → Bytes → List Bytes
  | 0, _ => []
  | fuel+1, input => if input.isEmpty then [] else let lr := takeLine input; lr.1 :: rawLines fuel lr.2
def specItems {β : Type} (parse : Bytes → Outcome PErr β) (pfx : Option Bytes) (input : Bytes) : List (RItem β) :=
  (rawLines (input.length + 1) input).filterMap (classifyLine parse pfx)

/-- `Writer::write_record`: `writeln!("{}", record)` -/
def writeRecord (shw : Bytes) : Bytes := shw ++ [LF]

/-! ### a fragmented, interruptible source behind `BufReader` -/
inductive Chunk | data (b : Bytes) | interrupted
deriving Repr

def flattenChunks : List Chunk → Bytes
  | [] => []
  | .data b :: rest => b ++ flattenChunks rest
  | .interrupted :: rest => flattenChunks rest

/-- split at the first LF (inclusive) -/
def splitAtLF : Bytes → Option (Bytes × Bytes)
  | [] => none
  | c :: cs => if c == LF then some ([c], cs) else (splitAtLF cs).map (fun pq => (c :: pq.1, pq.2))

/-- std `read_until`: `fill_buf` (retrying on `Interrupted`), memchr, append, consume; a fragment is
what one `read` of the inner source returned (never empty before the end) -/
def readUntilLF : Nat → List Chunk → Bytes → Bytes × List Chunk
  | 0, src, acc => (acc, src)
  | _, [], acc => (acc, [])
  | fuel+1, .interrupted :: rest, acc => readUntilLF fuel rest acc
  | fuel+1, .data b :: rest, acc =>
    if b.isEmpty then (acc, []) else          -- `read` returned 0: end of input
    match splitAtLF b with
    | some (pre, post) => (acc ++ pre, if post.isEmpty then rest else .data post :: rest)
    | none => readUntilLF fuel rest (acc ++ b)

end BV
