import BedVerif.Model.GMap
/-!
Model of `src/bed/bed_trait.rs`: `BEDLike::{len, compare, overlap, n_overlap, split_by_len,
rsplit_by_len}`, `MergeBed` / `merge_sorted_bed(_with)`, `merge_sorted_bedgraph`.
Records are seen through `BEDLike` only, i.e. as `Rec` (chrom, start, end).
-/
namespace BV

namespace Rec
/-- `BEDLike::len`: `end.saturating_sub(start)` (same as `Rec.len` of the spec vocabulary) -/
def blen (r : Rec) : Nat := r.stop - r.start
/-- `BEDLike::compare` -/
def compare (a b : Rec) : Ordering :=
  (cmpBytes a.chrom b.chrom).then ((Ord.compare a.start b.start).then (Ord.compare a.stop b.stop))
/-- `BEDLike::overlap` -/
def overlap (a b : Rec) : Option Rec :=
  if a.chrom != b.chrom then none
  else
    let s := max a.start b.start
    let e := min a.stop b.stop
    if s ≥ e then none else some ⟨a.chrom, s, e⟩
/-- `BEDLike::n_overlap` -/
def nOverlap (a b : Rec) : Nat := match overlap a b with | none => 0 | some g => g.blen
/-- position `p` lies in the record's half-open range -/
def mem (r : Rec) (p : Nat) : Prop := r.start ≤ p ∧ p < r.stop
instance (r : Rec) (p : Nat) : Decidable (r.mem p) := by unfold mem; infer_instance
end Rec

/-- `(start..end).step_by(bin)`: std contract — `start, start+bin, …` while `< end` -/
def stepPoints (s e bin : Nat) : List Nat := List.range' s ((e - s + bin - 1) / bin) bin

/-- `split_by_len` (`step_by(0)` panics; the piece end is `x.saturating_add(bin).min(end)`) -/
def splitByLen (r : Rec) (bin : Nat) : Out (List Rec) :=
  if bin = 0 then .panic else
  .ok ((stepPoints r.start r.stop bin).map (fun x => ⟨r.chrom, x, min (satAdd x bin) r.stop⟩))

/-- points `end, end-bin, …` while `> start` -/
def rstepPoints (s e bin : Nat) : List Nat :=
  (List.range ((e - s + bin - 1) / bin)).map (fun i => e - i * bin)

/-- `rsplit_by_len`: pieces `[max(x ∸ bin, start), x)` from the end backwards -/
def rsplitByLen (r : Rec) (bin : Nat) : Out (List Rec) :=
  if bin = 0 then .panic else
  .ok ((rstepPoints r.start r.stop bin).map (fun x => ⟨r.chrom, max (x - bin) r.start, x⟩))

/-! ## `MergeBed` -/
structure Acc (β : Type) where
  chrom : Bytes
  s : Nat
  e : Nat
  recs : List β   -- reversed

/-- `MergeBed::next` drained: the groups in order, or panic ("input is not sorted").
`view` is the `BEDLike` view of an item. -/
def groupsAux {β : Type} (view : β → Rec) : Option (Acc β) → List β → List (List β) → Out (List (List β))
  | none, [], out => .ok out.reverse
  | some a, [], out => .ok ((a.recs.reverse :: out).reverse)
  | none, r :: rest, out => groupsAux view (some ⟨(view r).chrom, (view r).start, (view r).stop, [r]⟩) rest out
  | some a, r :: rest, out =>
    if a.chrom != (view r).chrom || (view r).start > a.e then
      groupsAux view (some ⟨(view r).chrom, (view r).start, (view r).stop, [r]⟩) rest (a.recs.reverse :: out)
    else if (view r).start < a.s then .panic
    else if (view r).stop > a.e then groupsAux view (some { a with e := (view r).stop, recs := r :: a.recs }) rest out
    else groupsAux view (some { a with recs := r :: a.recs }) rest out

def groupsOf {β : Type} (view : β → Rec) (xs : List β) : Out (List (List β)) := groupsAux view none xs []
def groups (xs : List Rec) : Out (List (List Rec)) := groupsOf id xs

/-- the closure of `merge_sorted_bed`: `(x[0].chrom, min start, max end)` -/
def mergeGroup (g : List Rec) : Rec :=
  ⟨(g.headD default).chrom, listMin (g.map (·.start)), listMax (g.map (·.stop))⟩

/-- `merge_sorted_bed` -/
def mergeSortedBed (xs : List Rec) : Out (List Rec) :=
  match groups xs with
  | .panic => .panic
  | .ok gs => .ok (gs.map mergeGroup)

/-! ## `merge_sorted_bedgraph` (values in `Int`) -/
structure BG where
  chrom : Bytes
  start : Nat
  stop : Nat
  value : Int
deriving Repr, DecidableEq, Inhabited
def BG.toRec (b : BG) : Rec := ⟨b.chrom, b.start, b.stop⟩

/-- maximal runs of equal key (itertools `chunk_by`) -/
def chunkBy {β κ : Type} [DecidableEq κ] (key : β → κ) : List β → List (κ × List β)
  | [] => []
  | x :: xs =>
    match chunkBy key xs with
    | (k, g) :: rest => if key x = k then (k, x :: g) :: rest else (key x, [x]) :: (k, g) :: rest
    | [] => [(key x, [x])]

structure Sweep where
  prevPos : Nat
  acc : Int
  prev : BG
  out : List BG   -- reversed

/-- loop body of the `flat_map` over the remaining breakpoint groups -/
def sweepStep (chrom : Bytes) (st : Sweep) (c : Nat × Int) : Sweep :=
  let st1 : Sweep :=
    if st.prevPos != c.1 then
      if st.acc == st.prev.value then { st with prev := { st.prev with stop := c.1 } }
      else { st with out := st.prev :: st.out, prev := ⟨chrom, st.prevPos, c.1, st.acc⟩ }
    else st
  { st1 with acc := st1.acc + c.2, prevPos := c.1 }

/-- breakpoints `(start,+v), (end,−v)` of a group -/
def breakpointsOf (g : List BG) : List (Nat × Int) :=
  g.flatMap (fun b => [(b.start, b.value), (b.stop, -b.value)])

/-- the per-group closure, given the breakpoints sorted by position (`pts`): chunk by position,
sum each chunk, sweep -/
def sweepGroup (chrom : Bytes) (pts : List (Nat × Int)) : Out (List BG) :=
  let chunks : List (Nat × Int) := (chunkBy (fun (x : Nat × Int) => x.1) pts).map (fun kg => (kg.1, (kg.2.map (·.2)).sum))
  match chunks with
  | [] => .panic            -- `point_groups.next().unwrap()`
  | (p0, s0) :: rest =>
    let st0 : Sweep := ⟨p0, s0, ⟨chrom, p0, p0, s0⟩, []⟩
    let st := rest.foldl (sweepStep chrom) st0
    .ok ((st.prev :: st.out).reverse)

/-- the per-group closure with the sort modelled by the stable insertion sort. The real sort is
`sorted_unstable_by_key`; `C08_order_independent` shows the result is the same for every
key-sorted permutation. -/
def bedgraphGroup (g : List BG) : Out (List BG) :=
  match g with
  | [] => .panic            -- `bdgs[0]`
  | b0 :: _ => sweepGroup b0.chrom (isort (fun a b => decide (a.1 ≤ b.1)) (breakpointsOf g))

/-- `merge_sorted_bedgraph` -/
def mergeSortedBedgraph (xs : List BG) : Out (List BG) :=
  match groupsOf BG.toRec xs with
  | .panic => .panic
  | .ok gs => gs.foldr (fun g acc => match acc, bedgraphGroup g with
      | .ok rest, .ok o => .ok (o ++ rest)
      | _, _ => .panic) (.ok [])

end BV
