import BedVerif.Basic
/-!
Model of `src/extsort/merger.rs` (`BinaryHeapMerger`) and of the run formation of
`ExternalSorter::sort_by` (`src/extsort/sort.rs`).
Chunks are streams of `Result<T, E>` items; the heap is a list from which the greatest element for
`(Reverse(value), chunk index)` is popped — std's `BinaryHeap::pop` contract.
-/
namespace BV

inductive Item (ε α : Type) | ok (a : α) | err (e : ε)
deriving Repr, DecidableEq

structure Merger (ε α : Type) where
  heap : List (α × Nat)
  chunks : List (List (Item ε α))       -- remaining items of every chunk
  initiated : Bool
deriving Repr

variable {ε α : Type}

/-- `x` is popped before `y`: smaller value first; ties → larger chunk index
(tuple order of `(Reverse(OrderedWrapper v), idx)` in a max-heap) -/
def better (cmp : α → α → Ordering) (x y : α × Nat) : Bool :=
  match cmp x.1 y.1 with
  | .lt => true
  | .gt => false
  | .eq => x.2 > y.2

/-- `BinaryHeap::pop` -/
def popBest (cmp : α → α → Ordering) : List (α × Nat) → Option ((α × Nat) × List (α × Nat))
  | [] => none
  | x :: xs =>
    match popBest cmp xs with
    | none => some (x, [])
    | some (b, rest) => if better cmp x b then some (x, b :: rest) else some (b, x :: rest)

/-- `chunks[i].next()` -/
def pull (chunks : List (List (Item ε α))) (i : Nat) : Option (Item ε α) × List (List (Item ε α)) :=
  match chunks[i]? with
  | some (x :: xs) => (some x, chunks.set i xs)
  | _ => (none, chunks)

/-- the priming loop `for (idx, chunk) in chunks.iter_mut().enumerate()`; returns at the first `Err`
leaving `initiated = false` (so the next call primes again, from chunk 0) -/
def prime (m : Merger ε α) : Nat → Nat → Merger ε α × Option ε
  | 0, _ => ({ m with initiated := true }, none)
  | fuel+1, i =>
    if i < m.chunks.length then
      match pull m.chunks i with
      | (some (.ok a), cs) => prime { m with heap := (a, i) :: m.heap, chunks := cs } fuel (i+1)
      | (some (.err e), cs) => ({ m with chunks := cs }, some e)
      | (none, cs) => prime { m with chunks := cs } fuel (i+1)
    else ({ m with initiated := true }, none)

/-- `BinaryHeapMerger::next` -/
def Merger.next (cmp : α → α → Ordering) (m : Merger ε α) : Option (Item ε α) × Merger ε α :=
  let pr := if m.initiated then (m, none) else prime m (m.chunks.length + 1) 0
  match pr.2 with
  | some e => (some (.err e), pr.1)
  | none =>
    match popBest cmp pr.1.heap with
    | none => (none, pr.1)
    | some ((v, idx), rest) =>
      match pull pr.1.chunks idx with
      | (some (.ok a), cs) => (some (.ok v), { pr.1 with heap := (a, idx) :: rest, chunks := cs })
      | (some (.err e), cs) => (some (.err e), { pr.1 with heap := rest, chunks := cs })   -- the popped `v` is dropped
      | (none, cs) => (some (.ok v), { pr.1 with heap := rest, chunks := cs })

def Merger.new (chunks : List (List (Item ε α))) : Merger ε α := ⟨[], chunks, false⟩

def drainAux (cmp : α → α → Ordering) : Nat → Merger ε α → List (Item ε α) → List (Item ε α) × Merger ε α
  | 0, m, acc => (acc.reverse, m)
  | fuel+1, m, acc =>
    match m.next cmp with
    | (none, m') => (acc.reverse, m')
    | (some x, m') => drainAux cmp fuel m' (x :: acc)

/-- all items until the stream ends, and the state it ends in -/
def drain (cmp : α → α → Ordering) (chunks : List (List (Item ε α))) : List (Item ε α) × Merger ε α :=
  drainAux cmp ((chunks.map List.length).sum + chunks.length + 2) (Merger.new chunks) []

/-! ## run formation of `sort_by` -/
/-- push; flush when `buf.len() >= chunk_size`; finally flush a non-empty buffer -/
def runsAux (c : Nat) : List α → List α → List (List α) → List (List α)
  | [], buf, out => (if buf.length > 0 then buf.reverse :: out else out).reverse
  | x :: xs, buf, out =>
    if (x :: buf).length ≥ c then runsAux c xs [] ((x :: buf).reverse :: out) else runsAux c xs (x :: buf) out
def runs (c : Nat) (xs : List α) : List (List α) := runsAux c xs [] []

/-- `sort_by`: (initial `len()`, merged stream); `srt` is the in-memory sort of one run
(`par_sort_unstable_by` under any schedule: any function returning a sorted permutation), `store` the
chunk write-and-read-back (identity for a healthy storage; with faults see C09) -/
def sortBy (srt : (α → α → Ordering) → List α → List α) (cmp : α → α → Ordering)
    (store : List α → List (Item ε α)) (c : Nat) (xs : List α) : Nat × List (Item ε α) :=
  (xs.length, (drain cmp ((runs c xs).map (fun r => store (srt cmp r)))).1)

def okItems (l : List (Item ε α)) : List α := l.filterMap (fun | .ok a => some a | .err _ => none)
def beforeFirstErr : List (Item ε α) → List α
  | [] => []
  | .ok a :: xs => a :: beforeFirstErr xs
  | .err _ :: _ => []
def hasErr (l : List (Item ε α)) : Bool := l.any (fun | .err _ => true | _ => false)

end BV
