import BedVerif.Model.Sort
import BedVerif.Model.Store
import BedVerif.Model.BufRead
/-!
`ExternalSorter::sort_by` over a storage that misbehaves: the composition of run formation
(`Model/Sort.lean`), the chunk write path `dump` behind `BufWriter` + `flush`, the chunk read path through
`BufReader` (`Model/Store.lean`, `Model/BufRead.lean`) and the k-way merge. Every run has its own file, hence
its own fault plans; a chunk is read lazily during the merge, but only its own reads consume its plan, so
the item sequence of a chunk is a function of its file and its plan alone.
Serialisation (bincode) is a parameter: `enc`, `dec`.
-/
namespace BV
variable {α : Type}

/-- the faults one run meets: the plan of the storage writes of its dump (behind a `BufWriter` of capacity
`wcap`) and the plan of the storage reads of its read-back (through a `BufReader` of capacity `rcap`) -/
structure RunFaults where
  wcap : Nat
  wplan : List WFault
  rcap : Nat
  rplan : List RFault

/-- one item of a chunk as the merger sees it: a payload that does not deserialise is an error item -/
def decodeItem (dec : Bytes → Option α) : IoRes Bytes → Item Unit α
  | .ok b => match dec b with | some a => .ok a | none => .err ()
  | .err => .err ()

/-- `ExternalChunk::new` without compression on one sorted run: serialise, `dump` behind `BufWriter`,
`flush`; a failure is the `Err` of `create_chunk` (`none`); on success the file is rewound and the chunk
yields its items through `BufReader` -/
def chunkOfRun (enc : α → Bytes) (dec : Bytes → Option α) (f : RunFaults) (run : List α) : Option (List (Item Unit α)) :=
  match dumpBuf ⟨f.wcap, [], ⟨[], f.wplan⟩⟩ (run.map enc) with
  | (.err, _) => none
  | (.ok (), w) => some ((chunkItemsBuf (run.length + 1) ⟨f.rcap, [], ⟨w.inner.data, f.rplan⟩⟩).map (decodeItem dec))

/-- the chunks of the runs in order; the first failing `create_chunk` makes `sort_by` return `Err` -/
def chunksOf (enc : α → Bytes) (dec : Bytes → Option α) (faults : Nat → RunFaults) : Nat → List (List α) → Option (List (List (Item Unit α)))
  | _, [] => some []
  | i, r :: rs =>
    match chunkOfRun enc dec (faults i) r with
    | none => none
    | some c => (chunksOf enc dec faults (i + 1) rs).map (c :: ·)

/-- `sort_by` over the faulty storage: `none` = `Err(SortError)`; otherwise (initial `len()`, merged stream) -/
def sortByStore (srt : (α → α → Ordering) → List α → List α) (cmp : α → α → Ordering)
    (enc : α → Bytes) (dec : Bytes → Option α) (faults : Nat → RunFaults) (c : Nat) (xs : List α) :
    Option (Nat × List (Item Unit α)) :=
  match chunksOf enc dec faults 0 ((runs c xs).map (srt cmp)) with
  | none => none
  | some chunks => some (xs.length, (drain cmp chunks).1)

end BV
