import BedVerif.Basic
/-!
Model of the chunk framing of `src/extsort/chunk.rs` (`dump`, `ExternalChunk::next`) over a storage
with a *fault plan*: every `write` call on the storage may accept only part of the buffer or fail;
every `read` call may return fewer bytes than requested, be interrupted, or fail.
`Write::write_all`, `Read::read_exact` and `BufWriter` are transcribed from std.
Serialisation (bincode) is external: a record is its payload bytes.
-/
namespace BV

inductive WFault | accept (k : Nat) | fail
deriving Repr, DecidableEq
inductive RFault | give (k : Nat) | interrupted | fail
deriving Repr, DecidableEq

inductive IoRes (β : Type) | ok (b : β) | err
deriving Repr, DecidableEq

/-- the storage being written: what reached it, and the remaining fault plan (one entry per `write`
call; an exhausted plan accepts everything) -/
structure WStore where
  data : Bytes
  plan : List WFault
deriving Repr, DecidableEq

/-- `Write::write` on the storage (never called with an empty buffer by the code under study);
`accept k` takes `min (max k 1) n` bytes -/
def WStore.write (s : WStore) (buf : Bytes) : IoRes Nat × WStore :=
  match s.plan with
  | [] => (.ok buf.length, { s with data := s.data ++ buf })
  | .fail :: p => (.err, { s with plan := p })
  | .accept k :: p =>
    let n := min (max k 1) buf.length
    (.ok n, { data := s.data ++ buf.take n, plan := p })

/-- std `Write::write_all`: loop; `Ok(0)` → `WriteZero` error -/
def WStore.writeAll (s : WStore) : Nat → Bytes → IoRes Unit × WStore
  | 0, _ => (.err, s)
  | fuel+1, buf =>
    if buf.isEmpty then (.ok (), s) else
    match s.write buf with
    | (.ok 0, s') => (.err, s')
    | (.ok n, s') => WStore.writeAll s' fuel (buf.drop n)
    | (.err, s') => (.err, s')

/-- `BufWriter` with capacity `cap` -/
structure BufW where
  cap : Nat
  buf : Bytes
  inner : WStore
deriving Repr, DecidableEq

/-- std `BufWriter::flush_buf`: write the buffered bytes with a loop of `write` -/
def BufW.flushBuf (w : BufW) : IoRes Unit × BufW :=
  match w.inner.writeAll (w.buf.length + 1) w.buf with
  | (.ok (), s) => (.ok (), { w with buf := [], inner := s })
  | (.err, s) => (.err, { w with inner := s })

/-- std `BufWriter::write_all` (`write_all_cold` when the input does not fit the spare capacity) -/
def BufW.writeAll (w : BufW) (b : Bytes) : IoRes Unit × BufW :=
  if b.length < w.cap - w.buf.length then (.ok (), { w with buf := w.buf ++ b })
  else
    let fl := if b.length > w.cap - w.buf.length then w.flushBuf else (.ok (), w)
    match fl with
    | (.err, w1) => (.err, w1)
    | (.ok (), w1) =>
      if b.length ≥ w1.cap then
        match w1.inner.writeAll (b.length + 1) b with
        | (r, s) => (r, { w1 with inner := s })
      else (.ok (), { w1 with buf := w1.buf ++ b })

/-- 8-byte little-endian length header (`write_u64::<LittleEndian>`) -/
def le64 (n : Nat) : Bytes := (List.range 8).map (fun i => (n / 256^i % 256).toUInt8)
def unle64 (b : Bytes) : Nat := (b.zip (List.range b.length)).foldl (fun acc x => acc + x.1.toNat * 256^x.2) 0
def frame (p : Bytes) : Bytes := le64 p.length ++ p
def frames (ps : List Bytes) : Bytes := ps.flatMap frame

/-- `dump` on the bare storage: per record `write_all(len)` then `write_all(payload)` -/
def dumpBare (s : WStore) : List Bytes → IoRes Unit × WStore
  | [] => (.ok (), s)
  | p :: ps =>
    match s.writeAll 9 (le64 p.length) with
    | (.err, s1) => (.err, s1)
    | (.ok (), s1) =>
      match s1.writeAll (p.length + 1) p with
      | (.err, s2) => (.err, s2)
      | (.ok (), s2) => dumpBare s2 ps

/-- `dump` behind a `BufWriter`, followed by `flush()` -/
def dumpBuf (w : BufW) : List Bytes → IoRes Unit × BufW
  | [] => w.flushBuf
  | p :: ps =>
    match w.writeAll (le64 p.length) with
    | (.err, w1) => (.err, w1)
    | (.ok (), w1) =>
      match w1.writeAll p with
      | (.err, w2) => (.err, w2)
      | (.ok (), w2) => dumpBuf w2 ps

/-! ### read side -/
structure RStore where
  rest : Bytes
  plan : List RFault
deriving Repr, DecidableEq

inductive RRes | data (b : Bytes) | interrupted | err
deriving Repr, DecidableEq

/-- `Read::read` into a buffer of `n > 0` bytes; `give k` returns `min (max k 1) n` bytes (fewer at the
end of the data; zero bytes = end of data) -/
def RStore.read (s : RStore) (n : Nat) : RRes × RStore :=
  match s.plan with
  | [] => (.data (s.rest.take n), { s with rest := s.rest.drop n })
  | .fail :: p => (.err, { s with plan := p })
  | .interrupted :: p => (.interrupted, { s with plan := p })
  | .give k :: p => let m := min (max k 1) n; (.data (s.rest.take m), { rest := s.rest.drop m, plan := p })

inductive ExactRes | ok (b : Bytes) | eof | err
deriving Repr, DecidableEq

/-- std `default_read_exact`: retry on `Interrupted`; `Ok(0)` before the buffer is full →
`UnexpectedEof` -/
def readExact : Nat → RStore → Nat → Bytes → ExactRes × RStore
  | 0, s, _, _ => (.err, s)
  | fuel+1, s, n, acc =>
    if n = 0 then (.ok acc, s) else
    match s.read n with
    | (.err, s') => (.err, s')
    | (.interrupted, s') => readExact fuel s' n acc
    | (.data b, s') => if b.isEmpty then (.eof, s') else readExact fuel s' (n - b.length) (acc ++ b)

/-- `ExternalChunk::next`: `UnexpectedEof` on the length header ends the chunk; any other failure is
an error item -/
def chunkNext (s : RStore) : Option (IoRes Bytes) × RStore :=
  match readExact (8 + s.plan.length + 1) s 8 [] with
  | (.eof, s1) => (none, s1)
  | (.err, s1) => (some .err, s1)
  | (.ok hdr, s1) =>
    match readExact (unle64 hdr + s1.plan.length + 1) s1 (unle64 hdr) [] with
    | (.ok p, s2) => (some (.ok p), s2)
    | (_, s2) => (some .err, s2)

/-- the items a chunk yields up to and including its first error item -/
def chunkItems : Nat → RStore → List (IoRes Bytes)
  | 0, _ => []
  | fuel+1, s =>
    match chunkNext s with
    | (none, _) => []
    | (some .err, _) => [.err]
    | (some (.ok p), s') => .ok p :: chunkItems fuel s'

end BV
