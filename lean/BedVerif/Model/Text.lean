import BedVerif.Basic
/-!
Model of the text formats of `src/bed.rs`, `src/bed/score.rs`, `src/bed/strand.rs`:
`Display` and `FromStr` of `GenomicRange`, `BED<N>`, `NarrowPeak`, `BroadPeak`, `BedGraph<i64>`,
`BedGraph<f64>`, `GenomicRange::pretty_show`, `Score`, `Strand`.

Text is `List UInt8`. `lexical::parse::<u64/u32>` and std's integer `FromStr` are modelled
concretely (optional `+`, at least one ASCII digit, leading zeros allowed, `-` only for the
signed type, overflow is an error). `f64` `Display`/`FromStr` are an external contract: a
`FloatCodec` over an opaque carrier `F` (bit patterns in the driver).
-/
namespace BV

def TAB : UInt8 := 9
def LF : UInt8 := 10
def CR : UInt8 := 13
def COLON : UInt8 := 58
def DASH : UInt8 := 45
def PLUS : UInt8 := 43
def DOT : Bytes := [46]

/-- `str::split(pat)` for a single-byte pattern set: always at least one piece -/
def splitOn (isDelim : UInt8 → Bool) : Bytes → List Bytes
  | [] => [[]]
  | c :: cs =>
    match splitOn isDelim cs with
    | [] => [[]]          -- unreachable
    | p :: ps => if isDelim c then [] :: p :: ps else (c :: p) :: ps

def intercalate (sep : Bytes) : List Bytes → Bytes
  | [] => []
  | [x] => x
  | x :: y :: xs => x ++ sep ++ intercalate sep (y :: xs)

/-- decimal digits of a natural number (`Display for u64/u32/u16`) -/
def digitsAux : Nat → Nat → Bytes → Bytes
  | 0, _, acc => acc
  | fuel+1, n, acc => if n < 10 then (48 + n.toUInt8) :: acc else digitsAux fuel (n / 10) ((48 + (n % 10).toUInt8) :: acc)
def showNat (n : Nat) : Bytes := digitsAux (n + 1) n []
/-- `Display for i64` -/
def showInt (i : Int) : Bytes := if i < 0 then DASH :: showNat i.natAbs else showNat i.natAbs

def isDigit (c : UInt8) : Bool := 48 ≤ c && c ≤ 57
def digitsVal (body : Bytes) : Nat := body.foldl (fun acc c => acc * 10 + (c.toNat - 48)) 0
/-- `lexical::parse::<u64/u32>` / `u64::from_str`: optional `+`, ≥ 1 digit, overflow → error -/
def parseUnsigned (max : Nat) (s : Bytes) : Option Nat :=
  let body := match s with | 43 :: rest => rest | _ => s
  if body.isEmpty || !body.all isDigit then none else
  let n := digitsVal body
  if n ≤ max then some n else none
/-- `i64::from_str`: optional `+` or `-`, ≥ 1 digit, overflow → error -/
def parseI64 (s : Bytes) : Option Int :=
  match s with
  | 45 :: rest =>
    if rest.isEmpty || !rest.all isDigit then none else
    let n := digitsVal rest
    if n ≤ 2^63 then some (-(n : Int)) else none
  | _ => (parseUnsigned (2^63 - 1) s).map (fun n => (n : Int))

inductive Strand | fwd | rev deriving Repr, DecidableEq, Inhabited
/-- `bed::ParseError`, at the granularity the property distinguishes: the ten BED-column errors,
and one class for the format-specific columns -/
inductive PErr | missingChrom | missingStart | invalidStart | missingEnd | invalidEnd | missingName
  | missingScore | invalidScore | missingStrand | invalidStrand | missingValue | invalidValue
deriving Repr, DecidableEq, Inhabited

/-- external: the `f64` text codec of std -/
structure FloatCodec (F : Type) where
  parse : Bytes → Option F
  render : F → Bytes
  ltZero : F → Bool
  negOne : F
  isNaN : F → Bool

/-- the columns every record type may carry -/
structure TRec (F : Type) where
  chrom : Bytes
  start : Nat
  stop : Nat
  name : Option Bytes := none
  score : Option Nat := none
  strand : Option Strand := none
  signal : Option F := none       -- NarrowPeak / BroadPeak signal_value, BedGraph<f64> value
  p : Option F := none
  q : Option F := none
  peak : Option Nat := none
  ival : Option Int := none       -- BedGraph<i64> value
deriving Repr, DecidableEq, Inhabited

inductive Ty | gr | bed (n : Nat) | narrowPeak | broadPeak | bgInt | bgFloat
deriving Repr, DecidableEq, Inhabited

/-- column helpers operate on the remaining fields, like the `&mut I` field iterator -/
abbrev P (β : Type) := List Bytes → Outcome PErr (β × List Bytes)
def pChrom : P Bytes | [] => .err .missingChrom | f :: r => .ok (f, r)
def pStart : P Nat | [] => .err .missingStart | f :: r => match parseUnsigned U64MAX f with | some n => .ok (n, r) | none => .err .invalidStart
def pEnd : P Nat | [] => .err .missingEnd | f :: r => match parseUnsigned U64MAX f with | some n => .ok (n, r) | none => .err .invalidEnd
def pName : P (Option Bytes) | [] => .err .missingName | f :: r => .ok (if f = DOT then none else some f, r)
/-- `Score::from_str`: a `u32`, clamped to 1000 -/
def parseScore (s : Bytes) : Option Nat := (parseUnsigned U32MAX s).map (fun n => if n > 1000 then 1000 else n)
/-- `Score::try_from(u32)` -/
def scoreTryFrom (n : Nat) : Option Nat := if n > 1000 then none else some n
def pScore : P (Option Nat) | [] => .err .missingScore | f :: r => if f = DOT then .ok (none, r) else match parseScore f with | some n => .ok (some n, r) | none => .err .invalidScore
def parseStrand : Bytes → Option Strand | [43] => some .fwd | [45] => some .rev | _ => none
def pStrand : P (Option Strand) | [] => .err .missingStrand | f :: r => if f = DOT then .ok (none, r) else match parseStrand f with | some s => .ok (some s, r) | none => .err .invalidStrand
def pFloat {F : Type} (fc : FloatCodec F) : P F
  | [] => .err .missingValue
  | f :: r => match fc.parse f with | some x => .ok (x, r) | none => .err .invalidValue
/-- `parse_pvalue`: missing column is reported as `MissingScore`; negative means absent -/
def pPValue {F : Type} (fc : FloatCodec F) : P (Option F)
  | [] => .err .missingScore
  | f :: r => match fc.parse f with | some x => .ok (if fc.ltZero x then none else some x, r) | none => .err .invalidValue
def pPeak : P Nat
  | [] => .err .missingValue
  | f :: r => match parseUnsigned U64MAX f with | some n => .ok (n, r) | none => .err .invalidValue
def pI64 : P Int
  | [] => .err .missingValue
  | f :: r => match parseI64 f with | some n => .ok (n, r) | none => .err .invalidValue

def bindP {β γ : Type} (x : Outcome PErr (β × List Bytes)) (k : β → List Bytes → Outcome PErr γ) : Outcome PErr γ :=
  match x with | .ok (b, r) => k b r | .err e => .err e | .panic => .panic

/-- `FromStr` of every record type -/
def parseT {F : Type} (fc : FloatCodec F) (ty : Ty) (s : Bytes) : Outcome PErr (TRec F) :=
  match ty with
  | .gr =>
    bindP (pChrom (splitOn (fun c => c == TAB || c == COLON || c == DASH) s)) fun chrom r =>
    bindP (pStart r) fun start r => bindP (pEnd r) fun stop _ => .ok { chrom, start, stop }
  | .bed n =>
    bindP (pChrom (splitOn (· == TAB) s)) fun chrom r =>
    bindP (pStart r) fun start r =>
    bindP (pEnd r) fun stop r =>
    bindP (if n > 3 then pName r else .ok (none, r)) fun name r =>
    bindP (if n > 4 then pScore r else .ok (none, r)) fun score r =>
    bindP (if n > 5 then pStrand r else .ok (none, r)) fun strand _ =>
    .ok { chrom, start, stop, name, score, strand }
  | .narrowPeak =>
    bindP (pChrom (splitOn (· == TAB) s)) fun chrom r =>
    bindP (pStart r) fun start r => bindP (pEnd r) fun stop r => bindP (pName r) fun name r =>
    bindP (pScore r) fun score r => bindP (pStrand r) fun strand r =>
    bindP (pFloat fc r) fun signal r => bindP (pPValue fc r) fun p r => bindP (pPValue fc r) fun q r =>
    bindP (pPeak r) fun peak _ => .ok { chrom, start, stop, name, score, strand, signal := some signal, p, q, peak := some peak }
  | .broadPeak =>
    bindP (pChrom (splitOn (· == TAB) s)) fun chrom r =>
    bindP (pStart r) fun start r => bindP (pEnd r) fun stop r => bindP (pName r) fun name r =>
    bindP (pScore r) fun score r => bindP (pStrand r) fun strand r =>
    bindP (pFloat fc r) fun signal r => bindP (pPValue fc r) fun p r => bindP (pPValue fc r) fun q _ =>
    .ok { chrom, start, stop, name, score, strand, signal := some signal, p, q }
  | .bgInt =>
    bindP (pChrom (splitOn (· == TAB) s)) fun chrom r =>
    bindP (pStart r) fun start r => bindP (pEnd r) fun stop r => bindP (pI64 r) fun v _ => .ok { chrom, start, stop, ival := some v }
  | .bgFloat =>
    bindP (pChrom (splitOn (· == TAB) s)) fun chrom r =>
    bindP (pStart r) fun start r => bindP (pEnd r) fun stop r => bindP (pFloat fc r) fun v _ => .ok { chrom, start, stop, signal := some v }

def showStrand : Strand → Bytes | .fwd => [43] | .rev => [45]
def optCol (o : Option Bytes) : Bytes := o.getD DOT

/-- the standard-order column list of a record (the specification of the layout) -/
def columnsT {F : Type} (fc : FloatCodec F) (ty : Ty) (x : TRec F) : List Bytes :=
  let base := [x.chrom, showNat x.start, showNat x.stop]
  let nameC := optCol x.name
  let scoreC := optCol (x.score.map showNat)
  let strandC := optCol (x.strand.map showStrand)
  let fl (o : Option F) : Bytes := fc.render (o.getD fc.negOne)
  match ty with
  | .gr => base
  | .bed n => base ++ (if n > 3 then [nameC] else []) ++ (if n > 4 then [scoreC] else []) ++ (if n > 5 then [strandC] else [])
  | .narrowPeak => base ++ [nameC, scoreC, strandC, fl x.signal, fl x.p, fl x.q, showNat (x.peak.getD 0)]
  | .broadPeak => base ++ [nameC, scoreC, strandC, fl x.signal, fl x.p, fl x.q]
  | .bgInt => base ++ [showInt (x.ival.getD 0)]
  | .bgFloat => base ++ [fl x.signal]

/-- `Display` of every record type, mirroring the `write!` sequences of the Rust -/
def showT {F : Type} (fc : FloatCodec F) (ty : Ty) (x : TRec F) : Bytes :=
  let head := x.chrom ++ [TAB] ++ showNat x.start ++ [TAB] ++ showNat x.stop
  let scoreB := match x.score with | some s => showNat s | none => DOT
  let strandB := match x.strand with | some s => showStrand s | none => DOT
  let fl (o : Option F) : Bytes := fc.render (o.getD fc.negOne)
  match ty with
  | .gr => head
  | .bed n =>
    head ++ (if n > 3 then [TAB] ++ x.name.getD DOT ++
      (if n > 4 then [TAB] ++ scoreB ++ (if n > 5 then [TAB] ++ strandB else []) else []) else [])
  | .narrowPeak =>
    head ++ [TAB] ++ x.name.getD DOT ++ [TAB] ++ scoreB ++ [TAB] ++ strandB ++
      [TAB] ++ fl x.signal ++ [TAB] ++ fl x.p ++ [TAB] ++ fl x.q ++ [TAB] ++ showNat (x.peak.getD 0)
  | .broadPeak =>
    head ++ [TAB] ++ x.name.getD DOT ++ [TAB] ++ scoreB ++ [TAB] ++ strandB ++
      [TAB] ++ fl x.signal ++ [TAB] ++ fl x.p ++ [TAB] ++ fl x.q
  | .bgInt => head ++ [TAB] ++ showInt (x.ival.getD 0)
  | .bgFloat => head ++ [TAB] ++ fl x.signal

/-- `GenomicRange::pretty_show`: `chr:start-end` -/
def prettyShow {F : Type} (x : TRec F) : Bytes := x.chrom ++ [COLON] ++ showNat x.start ++ [DASH] ++ showNat x.stop

end BV
