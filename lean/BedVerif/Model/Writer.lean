import BedVerif.Model.Store
/-!
`bed::io::Writer::write_record` over a sink that may accept only part of each buffer (`src/bed/io.rs`):
`writeln!(self.inner, "{}", record)` is `Write::write_fmt`, whose adapter hands every fragment the record's
`Display` implementation produces (column texts, TAB characters) and finally the LF to `write_all`. The sink
is the faulty storage of `Model/Store.lean`: one plan entry per `write` call (`accept k`: take at most
`max k 1` bytes; `fail`: a hard error). Which fragments `Display` produces is not fixed here: a record is any
list of fragments whose concatenation is its text.
-/
namespace BV

/-- `write_all` for every fragment in turn; stops at the first error (`fmt::Error` → `io::Error`) -/
def writeFrags (s : WStore) : List Bytes → IoRes Unit × WStore
  | [] => (.ok (), s)
  | f :: fs =>
    match s.writeAll (f.length + 1) f with
    | (.err, s1) => (.err, s1)
    | (.ok (), s1) => writeFrags s1 fs

/-- `write_record` for each record of a sequence: the record's fragments, then LF; stops at the first error
(the caller's `?`) -/
def writerWrite (s : WStore) : List (List Bytes) → IoRes Unit × WStore
  | [] => (.ok (), s)
  | r :: rs =>
    match writeFrags s (r ++ [[10]]) with
    | (.err, s1) => (.err, s1)
    | (.ok (), s1) => writerWrite s1 rs

end BV
