import BedVerif.Props.C10
import BedVerif.Lemmas.Sort
/-!
# C01 — external sort yields the sorted permutation of its input

`sortBy` = run formation of `sort_by` + in-memory sort of each run + chunk store + the k-way merge of
C10. The in-memory sort (`par_sort_unstable_by` on the worker pool) and the chunk storage are
parameters with contracts: `SortSpec` (ANY function returning a sorted permutation — this is how
all schedules are quantified over) and a store that returns what was written (faults: C09).
-/
namespace BV
variable {ε α : Type}

/-- contract of the in-memory sort of one run (`par_sort_unstable_by` under any schedule of the
worker pool): some sorted permutation of its input -/
structure SortSpec (cmp : α → α → Ordering) (srt : List α → List α) : Prop where
  perm : ∀ l, (srt l).Perm l
  sorted : ∀ l, (srt l).Pairwise (le cmp)


/-! ### helper lemmas -/

theorem C01_runsAux_out (c : Nat) (xs buf : List α) (out : List (List α)) :
    runsAux c xs buf out = out.reverse ++ runsAux c xs buf [] := by
  induction xs generalizing buf out with
  | nil => simp only [runsAux]; split <;> simp
  | cons x xs ih =>
    simp only [runsAux]
    split
    · rw [ih [] (_ :: out), ih [] [_]]; simp
    · exact ih _ _

/-- the four properties of a list of runs, for run size `m` and target concatenation `tgt` -/
def C01Good (m : Nat) (tgt : List α) (L : List (List α)) : Prop :=
  L.flatten = tgt ∧ (∀ r ∈ L, r ≠ []) ∧
  (∀ i (h : i + 1 < L.length), (L[i]).length = m) ∧ (∀ r ∈ L, r.length ≤ m)

theorem C01Good_single (m : Nat) (r : List α) (h0 : 0 < r.length) (hm : r.length ≤ m) :
    C01Good m r [r] := by
  refine ⟨by simp, ?_, ?_, ?_⟩
  · intro r' hr
    rw [List.mem_singleton] at hr
    subst hr
    intro h; rw [h] at h0; simp at h0
  · intro i h; simp at h
  · intro r' hr
    rw [List.mem_singleton] at hr
    subst hr
    exact hm

theorem C01Good_nil (m : Nat) : C01Good m ([] : List α) [] := by
  refine ⟨rfl, ?_, ?_, ?_⟩
  · intro r hr; simp at hr
  · intro i h; simp at h
  · intro r hr; simp at hr

theorem C01Good_cons (m : Nat) (r tgt : List α) (L : List (List α)) (hm : r.length = m) (h0 : 0 < m)
    (hL : C01Good m tgt L) : C01Good m (r ++ tgt) (r :: L) := by
  obtain ⟨h1, h2, h3, h4⟩ := hL
  refine ⟨by simp [h1], ?_, ?_, ?_⟩
  · intro r' hr
    rcases List.mem_cons.mp hr with rfl | hr
    · intro h; rw [h] at hm; simp at hm; omega
    · exact h2 r' hr
  · intro i h
    cases i with
    | zero => simpa using hm
    | succ j =>
      simp only [List.getElem_cons_succ]
      apply h3
      simp at h; omega
  · intro r' hr
    rcases List.mem_cons.mp hr with rfl | hr
    · omega
    · exact h4 r' hr

theorem C01_runsAux_spec (c : Nat) (xs buf : List α) (hb : buf.length < max c 1) :
    C01Good (max c 1) (buf.reverse ++ xs) (runsAux c xs buf []) := by
  induction xs generalizing buf with
  | nil =>
    simp only [runsAux]
    split
    · rename_i hpos
      simpa using C01Good_single (max c 1) buf.reverse (by simpa using hpos) (by simp; omega)
    · rename_i hpos
      have : buf = [] := by
        cases buf with
        | nil => rfl
        | cons a t => simp at hpos
      subst this
      simpa using C01Good_nil (α := α) (max c 1)
  | cons x xs ih =>
    simp only [runsAux]
    split
    · rename_i hge
      have hlen : ((x :: buf).reverse).length = max c 1 := by
        simp only [List.length_reverse, List.length_cons] at hge ⊢; omega
      rw [C01_runsAux_out]
      have := C01Good_cons (max c 1) (x :: buf).reverse _ _ hlen (by omega) (ih [] (by simp; omega))
      simpa using this
    · rename_i hge
      have := ih (x :: buf) (by simp at hge ⊢; omega)
      simpa using this

theorem C01_okItems_map_ok (l : List α) : okItems (l.map (Item.ok (ε := ε))) = l := by
  induction l with
  | nil => rfl
  | cons a t ih => simp [okItems] at ih ⊢; exact ih

theorem C01_allOk_map_ok (l : List α) : AllOk (l.map (Item.ok (ε := ε))) := by
  intro x hx
  obtain ⟨a, _, rfl⟩ := List.mem_map.mp hx
  exact ⟨a, rfl⟩

theorem C01_okItems_flatten (L : List (List (Item ε α))) :
    okItems L.flatten = (L.map okItems).flatten := by
  induction L with
  | nil => rfl
  | cons a t ih =>
    have : okItems (a ++ t.flatten) = okItems a ++ okItems t.flatten := by
      simp [okItems]
    simp [this, ih]

theorem C01_perm_flatten_map (f : List α → List α) (hf : ∀ l, (f l).Perm l) (L : List (List α)) :
    ((L.map f).flatten).Perm L.flatten := by
  induction L with
  | nil => simp
  | cons a t ih => simpa using List.Perm.append (hf a) ih

theorem C01_totalLe (cmp : α → α → Ordering) (h : TotalPreorder cmp) :
    TotalLe (fun a b => cmp a b != .gt) := by
  constructor
  · intro a b
    have := h.swap a b
    cases hba : cmp b a <;> simp [hba] at this ⊢ <;> simp [this]
  · intro a b c hab hbc
    have := h.trans a b c (by simpa using hab) (by simpa using hbc)
    simpa using this

/-- run formation: the runs concatenate to the input in order, none is empty, all but the last have
exactly `max c 1` items and the last at most that many — for every chunk size, including 0 and 1 and
sizes larger than the input -/
theorem C01_runs (c : Nat) (xs : List α) :
    (runs c xs).flatten = xs ∧ (∀ r ∈ runs c xs, r ≠ []) ∧
    (∀ i (h : i + 1 < (runs c xs).length), ((runs c xs)[i]).length = max c 1) ∧
    (∀ r ∈ runs c xs, r.length ≤ max c 1) := by
  have := C01_runsAux_spec c xs [] (by simp; omega)
  simpa [runs, C01Good] using this

/-- C01: for every comparator that is a total preorder, every in-memory sort meeting its contract
(this is how all worker-pool schedules are quantified over), a healthy chunk storage (write and
read back is the identity), every chunk size and every input: the returned stream has the initial
`len()` of the input, yields only `Ok` items, every input record exactly once, in non-decreasing
comparator order. Thread count, compression and tmp dir do not occur in the model. -/
theorem C01_sortBy (cmp : α → α → Ordering) (h : TotalPreorder cmp)
    (srt : (α → α → Ordering) → List α → List α) (hsrt : SortSpec cmp (srt cmp))
    (store : List α → List (Item ε α)) (hstore : ∀ l, store l = l.map .ok) (c : Nat) (xs : List α) :
    (sortBy srt cmp store c xs).1 = xs.length ∧
    AllOk (sortBy srt cmp store c xs).2 ∧
    (okItems (sortBy srt cmp store c xs).2).Perm xs ∧
    (okItems (sortBy srt cmp store c xs).2).Pairwise (le cmp) := by
  have hm := C10_merge_ok (ε := ε) cmp h ((runs c xs).map (fun r => store (srt cmp r)))
    (by
      intro ch hch
      obtain ⟨r, _, rfl⟩ := List.mem_map.mp hch
      rw [hstore]; exact C01_allOk_map_ok _)
    (by
      intro ch hch
      obtain ⟨r, _, rfl⟩ := List.mem_map.mp hch
      rw [hstore, C01_okItems_map_ok]; exact hsrt.sorted r)
  obtain ⟨hm1, hm2, hm3⟩ := hm
  refine ⟨rfl, hm1, ?_, hm3⟩
  refine hm2.trans ?_
  rw [C01_okItems_flatten, List.map_map]
  have hfun : (okItems ∘ fun r => store (srt cmp r)) = srt cmp := by
    funext r
    simp only [Function.comp, hstore, C01_okItems_map_ok]
  rw [hfun]
  have := C01_perm_flatten_map (srt cmp) hsrt.perm (runs c xs)
  rw [(C01_runs c xs).1] at this
  exact this

/-- the stable insertion sort used by the driver's executable model meets the contract, so the
theorem applies to it -/
theorem C01_isort_sortspec (cmp : α → α → Ordering) (h : TotalPreorder cmp) :
    SortSpec cmp (fun l => isort (fun a b => cmp a b != .gt) l) := by
  constructor
  · intro l; exact isort_perm _ l
  · intro l
    have := isort_sorted (C01_totalLe cmp h) l
    exact this.imp (fun hab => by simpa [le] using hab)

/-- schedule independence: two runs with different in-memory sorts (different schedules) return the
same multiset, both sorted — they can differ only in the order of ties -/
theorem C01_schedule_independent (cmp : α → α → Ordering) (h : TotalPreorder cmp)
    (srt₁ srt₂ : (α → α → Ordering) → List α → List α) (h₁ : SortSpec cmp (srt₁ cmp)) (h₂ : SortSpec cmp (srt₂ cmp))
    (c₁ c₂ : Nat) (xs : List α) :
    (okItems (sortBy (ε := ε) srt₁ cmp (fun l => l.map .ok) c₁ xs).2).Perm (okItems (sortBy (ε := ε) srt₂ cmp (fun l => l.map .ok) c₂ xs).2) := by
  have a := (C01_sortBy (ε := ε) cmp h srt₁ h₁ (fun l => l.map .ok) (fun _ => rfl) c₁ xs).2.2.1
  have b := (C01_sortBy (ε := ε) cmp h srt₂ h₂ (fun l => l.map .ok) (fun _ => rfl) c₂ xs).2.2.1
  exact a.trans b.symm

/-- witness: chunk size 3, ties, seven records -/
example : (sortBy (ε := Unit) (fun cm l => isort (fun a b => cm a b != .gt) l) (compare : Nat → Nat → Ordering) (fun l => l.map .ok) 3 [5, 3, 9, 1, 1, 8, 2]).2
    = [.ok 1, .ok 1, .ok 2, .ok 3, .ok 5, .ok 8, .ok 9] := by decide +kernel
example : runs 0 [1, 2, 3] = [[1], [2], [3]] ∧ runs 2 [1, 2, 3, 4, 5] = [[1, 2], [3, 4], [5]] ∧ runs 7 [1, 2, 3] = [[1, 2, 3]] ∧ runs 3 ([] : List Nat) = [] := by decide

end BV
