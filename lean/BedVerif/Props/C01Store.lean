import BedVerif.Lemmas.C01Store
/-!
# C01 and C09 together — `sort_by` over a misbehaving storage

`sortByStore` (`Model/SortStore.lean`) composes run formation, the chunk write path (`dump` behind
`BufWriter`, `flush`), the chunk read path through `BufReader` and the k-way merge; every run has its own
fault plans. The serialisation (bincode + serde) is the contract `Codec`. This is the clause of C09 observed
at `ExternalSorter::sort_by` ("result and items"), and C01 under every legal storage behaviour.
-/
namespace BV
variable {α : Type}

/-- storage that only ever writes short, reads short or is interrupted (no hard error on any run): the sort
succeeds and yields the sorted permutation, for every chunk size, every buffer capacity, every schedule -/
theorem C01_store_ok (cmp : α → α → Ordering) (h : TotalPreorder cmp)
    (srt : (α → α → Ordering) → List α → List α) (hsrt : SortSpec cmp (srt cmp))
    (enc : α → Bytes) (dec : Bytes → Option α) (hc : Codec enc dec)
    (faults : Nat → RunFaults) (hw : ∀ i, NoHardW (faults i).wplan) (hr : ∀ i, NoHardR (faults i).rplan)
    (c : Nat) (xs : List α) :
    ∃ out, sortByStore srt cmp enc dec faults c xs = some (xs.length, out) ∧
      AllOk out ∧ (okItems out).Perm xs ∧ (okItems out).Pairwise (le cmp) := by
  refine ⟨_, ?_, C01s_merge_complete cmp h srt hsrt c xs⟩
  unfold sortByStore
  rw [C01s_chunksOf_ok hc faults hw hr]

/-- ANY storage behaviour: `sort_by` returns `Err` (then some dump met a hard write error), or the merged
stream delivers an error item (then some read-back met a hard read error), or the output is the sorted
permutation of the input — never a silently wrong or incomplete result -/
theorem C01_store_never_silent (cmp : α → α → Ordering) (h : TotalPreorder cmp)
    (srt : (α → α → Ordering) → List α → List α) (hsrt : SortSpec cmp (srt cmp))
    (enc : α → Bytes) (dec : Bytes → Option α) (hc : Codec enc dec)
    (faults : Nat → RunFaults) (c : Nat) (xs : List α) :
    match sortByStore srt cmp enc dec faults c xs with
    | none => ∃ i, WFault.fail ∈ (faults i).wplan
    | some (n, out) =>
      n = xs.length ∧
      (hasErr out = true ∨ ((okItems out).Perm xs ∧ (okItems out).Pairwise (le cmp))) ∧
      (hasErr out = true → ∃ i, RFault.fail ∈ (faults i).rplan) := by
  have hch := C01s_chunksOf hc faults ((runs c xs).map (srt cmp)) 0
  unfold sortByStore
  generalize chunksOf enc dec faults 0 ((runs c xs).map (srt cmp)) = o at hch ⊢
  cases o with
  | none => exact hch
  | some cs =>
    obtain ⟨ha, hb⟩ := hch
    refine ⟨rfl, ?_, ?_⟩
    · rcases ha with ha | he
      · right
        rw [ha]
        exact (C01s_merge_complete cmp h srt hsrt c xs).2
      · left
        exact C10_error_delivered cmp cs he
    · intro he
      obtain ⟨e, hee⟩ := C10.hasErr_iff.mp he
      obtain ⟨c', hc', hec⟩ := C10_errors_genuine cmp cs e hee
      exact hb c' hc' (C10.hasErr_iff.mpr ⟨e, hec⟩)

/-- witness: chunk size 2, five records; the second run's storage writes short (3 then 1 bytes accepted) and its
read-back returns 2 bytes, is interrupted, returns 1 byte: the sort is unaffected; a hard read error on that
run instead is delivered as an error item -/
example :
    sortByStore (fun cm l => isort (fun a b => cm a b != .gt) l) (compare : Nat → Nat → Ordering)
      (fun n => [n.toUInt8]) (fun b => match b with | [x] => some x.toNat | _ => none)
      (fun i => if i == 1 then ⟨4, [.accept 3, .accept 1], 3, [.give 2, .interrupted, .give 1]⟩ else ⟨16, [], 16, []⟩) 2 [5, 3, 9, 1, 4]
    = some (5, [.ok 1, .ok 3, .ok 4, .ok 5, .ok 9]) := by decide +kernel
example :
    (sortByStore (fun cm l => isort (fun a b => cm a b != .gt) l) (compare : Nat → Nat → Ordering)
      (fun n => [n.toUInt8]) (fun b => match b with | [x] => some x.toNat | _ => none)
      (fun i => if i == 1 then ⟨4, [], 3, [.give 2, .fail]⟩ else ⟨16, [], 16, []⟩) 2 [5, 3, 9, 1, 4]).map (fun r => hasErr r.2)
    = some true := by decide +kernel

end BV
