import BedVerif.Lemmas.LapperInv
import BedVerif.Spec.Lapper
/-!
# C02 — genomic interval lookup returns exactly the overlapping records

Lapper level: for every history of `new` / `insert` / `set_cov` over *arbitrary* intervals
(zero-length and even `start > stop` included; coordinates are unbounded naturals, and only
comparison and saturating subtraction occur, so the statements hold verbatim up to `u64::MAX`),
`find` returns exactly the stored intervals that overlap the query — as a sublist of the stored
intervals, hence each stored record once, with its own value — and the stored intervals are a
permutation of the records supplied by the history.
-/
namespace BV
variable {α : Type}

/-- `find` = the overlapping stored intervals, in storage order (no hypothesis on the query) -/
theorem C02_find_eq_filter (l : List (Iv α)) (ops : List (Op α)) (hn : NoMerge ops) (qs qe : Nat) :
    (Lapper.run l ops).find qs qe = (Lapper.run l ops).intervals.toList.filter (·.ov qs qe) := by
  obtain ⟨hinv, _⟩ := inv_run_nomerge l ops hn
  exact find_eq_filter _ hinv.sortedStart hinv.maxLen_ge qs qe

/-- the structure holds every supplied record exactly once -/
theorem C02_intervals_perm (l : List (Iv α)) (ops : List (Op α)) (hn : NoMerge ops) :
    (Lapper.run l ops).intervals.toList.Perm (recordsOf l ops) := (inv_run_nomerge l ops hn).2

/-- hence `find` is a permutation of the supplied records that overlap the query -/
theorem C02_find_perm_records (l : List (Iv α)) (ops : List (Op α)) (hn : NoMerge ops) (qs qe : Nat) :
    ((Lapper.run l ops).find qs qe).Perm ((recordsOf l ops).filter (·.ov qs qe)) := by
  rw [C02_find_eq_filter l ops hn]
  exact (C02_intervals_perm l ops hn).filter _

/-- the same holds after merges for intervals with `start ≤ stop` (for the merged content) -/
theorem C02_find_eq_filter_weak (l : List (Iv α)) (ops : List (Op α)) (h : WeakIvs l ops) (qs qe : Nat) :
    (Lapper.run l ops).find qs qe = (Lapper.run l ops).intervals.toList.filter (·.ov qs qe) := by
  obtain ⟨hinv, _⟩ := inv_run_weak l ops h
  exact find_eq_filter _ hinv.sortedStart hinv.maxLen_ge qs qe

/-- non-vacuity / witness: one very long interval among short ones, a zero-length one, a duplicate
with another value; query ends coincide with record boundaries -/
example : (Lapper.run [(⟨0, 100, 1⟩ : Iv Nat), ⟨40, 41, 2⟩, ⟨50, 50, 3⟩] [.insert ⟨40, 41, 4⟩, .insert ⟨41, 45, 5⟩]).find 41 50
    = [⟨0, 100, 1⟩, ⟨41, 45, 5⟩] := by decide

end BV
