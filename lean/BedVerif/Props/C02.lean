import BedVerif.Lemmas.GMapFind
/-!
# C02 — genomic interval lookup returns exactly the overlapping records

Lapper level: for every history of `new` / `insert` / `set_cov` over *arbitrary* intervals
(zero-length and even `start > stop` included; coordinates are unbounded naturals, and only
comparison and saturating subtraction occur, so the statements hold verbatim up to `u64::MAX`),
`find` returns exactly the stored intervals that overlap the query — as a sublist of the stored
intervals, hence each stored record once, with its own value — and the stored intervals are a
permutation of the records supplied by the history.
-/
namespace BV
variable {α : Type}

/-- `find` = the overlapping stored intervals, in storage order (no hypothesis on the query) -/
theorem C02_find_eq_filter (l : List (Iv α)) (ops : List (Op α)) (hn : NoMerge ops) (qs qe : Nat) :
    (Lapper.run l ops).find qs qe = (Lapper.run l ops).intervals.toList.filter (·.ov qs qe) := by
  obtain ⟨hinv, _⟩ := inv_run_nomerge l ops hn
  exact find_eq_filter _ hinv.sortedStart hinv.maxLen_ge qs qe

/-- the structure holds every supplied record exactly once -/
theorem C02_intervals_perm (l : List (Iv α)) (ops : List (Op α)) (hn : NoMerge ops) :
    (Lapper.run l ops).intervals.toList.Perm (recordsOf l ops) := (inv_run_nomerge l ops hn).2

/-- hence `find` is a permutation of the supplied records that overlap the query -/
theorem C02_find_perm_records (l : List (Iv α)) (ops : List (Op α)) (hn : NoMerge ops) (qs qe : Nat) :
    ((Lapper.run l ops).find qs qe).Perm ((recordsOf l ops).filter (·.ov qs qe)) := by
  rw [C02_find_eq_filter l ops hn]
  exact (C02_intervals_perm l ops hn).filter _

/-- the same holds after merges for intervals with `start ≤ stop` (for the merged content) -/
theorem C02_find_eq_filter_weak (l : List (Iv α)) (ops : List (Op α)) (h : WeakIvs l ops) (qs qe : Nat) :
    (Lapper.run l ops).find qs qe = (Lapper.run l ops).intervals.toList.filter (·.ov qs qe) := by
  obtain ⟨hinv, _⟩ := inv_run_weak l ops h
  exact find_eq_filter _ hinv.sortedStart hinv.maxLen_ge qs qe

/-! ## Map level (`GIntervalMap`): `from_iter` followed by any inserts -/

/-- `iter` accounts for every loaded record exactly once -/
theorem C02_iter_perm (bulk ins : List (Rec × α)) : (GMap.iter (GMap.build bulk ins)).Perm (bulk ++ ins) := by
  rw [build_eq]
  exact (foldl_iter_perm ins _).trans (List.Perm.append_right ins (fromIter_iter_perm bulk))

theorem C02_len (bulk ins : List (Rec × α)) : GMap.len (GMap.build bulk ins) = (bulk ++ ins).length := by
  rw [len_eq_iter_length]
  exact (C02_iter_perm bulk ins).length_eq

/-- C02 at map level: the result is a permutation of the loaded records that overlap the query on
its chromosome (`specFind`), each once with its own value -/
theorem C02_gfind_perm (bulk ins : List (Rec × α)) (q : Rec) :
    (GMap.find (GMap.build bulk ins) q).Perm (specFind (bulk ++ ins) q) := by
  rw [gfind_eq_filter _ (wf_build bulk ins) q]
  exact (C02_iter_perm bulk ins).filter _

theorem C02_isOverlapped (bulk ins : List (Rec × α)) (q : Rec) :
    GMap.isOverlapped (GMap.build bulk ins) q = true ↔ specFind (bulk ++ ins) q ≠ [] := by
  have hp := C02_gfind_perm bulk ins q
  simp only [GMap.isOverlapped, Bool.not_eq_true', List.isEmpty_eq_false_iff]
  constructor
  · intro h1 h2
    rw [h2] at hp
    exact h1 hp.eq_nil
  · intro h1 h2
    rw [h2] at hp
    exact h1 hp.symm.eq_nil

/-- never a record from another chromosome -/
theorem C02_same_chrom (bulk ins : List (Rec × α)) (q : Rec) :
    ∀ x ∈ GMap.find (GMap.build bulk ins) q, x.1.chrom = q.chrom := by
  intro x hx
  have := (C02_gfind_perm bulk ins q).mem_iff.mp hx
  simp only [specFind, List.mem_filter, Rec.ov, Bool.and_eq_true, beq_iff_eq] at this
  exact this.2.1.1

/-- non-vacuity / witness: one very long interval among short ones, a zero-length one, a duplicate
with another value; query ends coincide with record boundaries -/
example : (Lapper.run [(⟨0, 100, 1⟩ : Iv Nat), ⟨40, 41, 2⟩, ⟨50, 50, 3⟩] [.insert ⟨40, 41, 4⟩, .insert ⟨41, 45, 5⟩]).find 41 50
    = [⟨0, 100, 1⟩, ⟨41, 45, 5⟩] := by decide

/-- map-level witness: two chromosomes whose names are prefixes of each other, a duplicate with its
own value, a book-ended record (not a hit) and a bulk + insert history -/
example : GMap.find (GMap.build [(⟨[1], 10, 20⟩, 0), (⟨[1, 2], 10, 20⟩, 1), (⟨[1], 20, 30⟩, 2)] [(⟨[1], 10, 20⟩, 3)]) ⟨[1], 15, 20⟩
    = [(⟨[1], 10, 20⟩, 3), (⟨[1], 10, 20⟩, 0)] := by decide

end BV
