import BedVerif.Spec.Text
import BedVerif.Lemmas.C03Round
/-!
# C03 — BED text formats round-trip and follow the standard column layout

Text is bytes; `lexical::parse` / `Display` of integers are modelled concretely and their round
trip is proved; the `f64` text codec of std is an arbitrary `FloatCodec` assumed `Lawful` (parse ∘ render
= id on non-NaN values, no TAB/CR/LF in rendered text, `-1` renders to something that parses `< 0`).
`WF` (Spec/Text.lean) is exactly the quantifier of the property: what the text format can carry.
-/
namespace BV
variable {F : Type}

/-- decimal text of a number parses back (this is `lexical::parse ∘ Display` for u64 / u32 / u16) -/
theorem C03_parseUnsigned_showNat (max n : Nat) (h : n ≤ max) : parseUnsigned max (showNat n) = some n :=
  C03.parseUnsigned_showNat max n h
theorem C03_showNat_digits (n : Nat) : (showNat n).all isDigit = true ∧ showNat n ≠ [] :=
  ⟨C03.showNat_all n, C03.showNat_ne_nil n⟩
theorem C03_parseI64_showInt (i : Int) (h : -(2^63 : Int) ≤ i ∧ i < 2^63) : parseI64 (showInt i) = some i :=
  C03.parseI64_showInt i h

/-- splitting the TAB-joined columns gives the columns back -/
theorem C03_split_intercalate (fs : List Bytes) (hne : fs ≠ []) (h : ∀ f ∈ fs, TAB ∉ f) :
    splitOn (· == TAB) (intercalate [TAB] fs) = fs :=
  C03.split_intercalate_tab fs hne h

/-- layout: `Display` of every record type is its standard-order column list joined by TAB
(chrom, start, end, then name, score, strand with `.` when absent, then the format's own columns
with `-1` for an absent p- or q-value) -/
theorem C03_layout (fc : FloatCodec F) (ty : Ty) (x : TRec F) :
    showT fc ty x = intercalate [TAB] (columnsT fc ty x) :=
  C03.layout fc ty x

/-- round trip: parsing the formatted record as the same type returns the record -/
theorem C03_roundtrip (fc : FloatCodec F) (hfc : fc.Lawful) (ty : Ty) (x : TRec F) (hwf : WF fc ty x) :
    parseT fc ty (showT fc ty x) = .ok x :=
  C03.roundtrip fc hfc ty x hwf

/-- a single line -/
theorem C03_single_line (fc : FloatCodec F) (hfc : fc.Lawful) (ty : Ty) (x : TRec F) (hwf : WF fc ty x) :
    LF ∉ showT fc ty x ∧ CR ∉ showT fc ty x :=
  C03.single_line fc hfc ty x hwf

/-- `GenomicRange` also parses back the `chr:start-end` form of `pretty_show` -/
theorem C03_pretty_roundtrip (fc : FloatCodec F) (x : TRec F) (hwf : WF fc .gr x) :
    parseT fc .gr (prettyShow x) = .ok x :=
  C03.rt_pretty fc x hwf

/-- a score obtained by parsing is never above 1000 (larger integers are clamped) … -/
theorem C03_score_le (s : Bytes) (v : Nat) (h : parseScore s = some v) : v ≤ 1000 :=
  C03.parseScore_le s v h
theorem C03_score_parse_show (n : Nat) (h : n ≤ U32MAX) : parseScore (showNat n) = some (min n 1000) :=
  C03.parseScore_showNat n h
/-- … and conversion rejects them -/
theorem C03_score_tryFrom (n v : Nat) : scoreTryFrom n = some v ↔ n ≤ 1000 ∧ v = n :=
  C03.scoreTryFrom_iff n v

/-- non-vacuity: a lawful codec exists (floats = naturals rendered in decimal, none negative except a
designated `-1`), and a NarrowPeak with all optional columns absent is well-formed for it -/
def natCodec : FloatCodec (Option Nat) :=
  { parse := fun s => if s = DASH :: showNat 1 then some none else (parseUnsigned (2^64) s).map some
    render := fun o => match o with | none => DASH :: showNat 1 | some n => showNat n
    ltZero := fun o => o.isNone, negOne := none, isNaN := fun o => match o with | some n => decide (n > 2^64) | none => false }
open C03 in
theorem C03_natCodec_lawful : natCodec.Lawful := by
  have hneg : Clean (DASH :: showNat 1) := by
    obtain ⟨a, b, c⟩ := Clean_showNat 1
    refine ⟨?_, ?_, ?_⟩ <;> simp [DASH, TAB, LF, CR] <;> assumption
  refine ⟨?_, ?_, ⟨rfl, rfl⟩⟩
  · intro x hx
    cases x with
    | none => simp [natCodec]
    | some n =>
      have hn : n ≤ 2^64 := by
        simp only [natCodec, decide_eq_false_iff_not] at hx; omega
      obtain ⟨c, t, hs, hc⟩ := showNat_cons n
      have hne : showNat n ≠ DASH :: showNat 1 := by
        rw [hs]; intro he
        simp only [List.cons.injEq] at he
        exact (isDigit_ne hc).2.1 he.1
      simp only [natCodec, if_neg hne, parseUnsigned_showNat _ _ hn, Option.map_some]
  · intro x
    cases x with
    | none => exact hneg
    | some n => exact Clean_showNat n
example : WF natCodec .narrowPeak { chrom := [99], start := 0, stop := U64MAX, signal := some (some 7), peak := some 3 } := by
  refine ⟨by simp [Clean, TAB, LF, CR], by decide, by decide, ?_⟩
  refine ⟨⟨by simp, by simp, by simp, by simp, by simp⟩, ⟨some 7, rfl, by decide⟩, by simp [PvalOk], by simp [PvalOk], ⟨3, rfl, by decide⟩, rfl⟩

end BV
