import BedVerif.Spec.Text
import BedVerif.Props.C03
import BedVerif.Lemmas.C04Lines
import BedVerif.Lemmas.C04Strip
import BedVerif.Lemmas.C04Frag
/-!
# C04 — Reader and Writer preserve a record stream line for line

`items` / `readAll` model the iterators `Records` and `IntoRecords` (one loop over the same reader
state; after the repair a skipped line continues the loop instead of recursing); `specItems` is
the line-level specification. The stack clause (any number of consecutive skipped lines) is a
runtime fact: the model is a loop, and the tie to the code for that clause is the child-process
run of the correspondence check on a 256 KiB stack.
-/
namespace BV
variable {F β : Type}

/-- the raw lines of a stream: they concatenate to the stream, none is empty, every line but possibly
the last ends with LF, and LF occurs nowhere else in a line -/
theorem C04_rawLines (input : Bytes) :
    (rawLines (input.length + 1) input).flatten = input ∧
    (∀ l ∈ rawLines (input.length + 1) input, l ≠ [] ∧ LF ∉ l.dropLast) ∧
    (∀ l ∈ (rawLines (input.length + 1) input).dropLast, l.getLast? = some LF) :=
  ⟨rawLines_flatten _ input (Nat.le_succ _), rawLines_mem _ input, rawLines_dropLast _ input⟩

/-- the reader yields exactly one item per input line that is not skipped, in order — the record
for a well-formed line, an error for a malformed one, never a silent drop — then ends -/
theorem C04_items_spec (parse : Bytes → Outcome PErr β) (pfx : Option Bytes) (input : Bytes) :
    readAll parse pfx input = specItems parse pfx input :=
  items_eq_filterMap parse pfx _ input

/-- … and stays ended -/
theorem C04_stays_ended (parse : Bytes → Outcome PErr β) (pfx : Option Bytes) (n : Nat) :
    items parse pfx n [] = [] := by
  cases n <;> simp [items]

/-- one terminator choice per line: LF or CRLF -/
def term (crlf : Bool) : Bytes := if crlf then [CR, LF] else [LF]

/-- a stream written line by line: each record's text followed by LF or CRLF; the last line may be
left unterminated -/
def written (texts : List Bytes) (crlf : List Bool) (lastTerminated : Bool) : Bytes :=
  match texts, crlf with
  | [], _ => []
  | [t], c :: _ => if lastTerminated then t ++ term c else t
  | [t], [] => if lastTerminated then t ++ term false else t
  | t :: ts, c :: cs => t ++ term c ++ written ts cs lastTerminated
  | t :: ts, [] => t ++ term false ++ written ts [] lastTerminated

theorem written_nil (crlf : List Bool) (lt : Bool) : written [] crlf lt = [] := by
  unfold written; rfl

theorem written_single (t : Bytes) (crlf : List Bool) (lt : Bool) :
    written [t] crlf lt = if lt then t ++ term (crlf.head?.getD false) else t := by
  cases crlf <;> simp [written]

theorem written_cons (t u : Bytes) (ts : List Bytes) (crlf : List Bool) (lt : Bool) :
    written (t :: u :: ts) crlf lt = t ++ term (crlf.head?.getD false) ++ written (u :: ts) crlf.tail lt := by
  cases crlf <;> simp [written]

/-- a terminated line in front of a stream is peeled off as one raw line -/
theorem lines_term (t rest : Bytes) (c : Bool) (h : LF ∉ t) :
    lines (t ++ term c ++ rest) = (t ++ term c) :: lines rest := by
  cases c
  · have e : t ++ term false ++ rest = t ++ LF :: rest := by simp [term]
    rw [e, lines_cons t rest h]; simp [term]
  · have e : t ++ term true ++ rest = (t ++ [CR]) ++ LF :: rest := by simp [term]
    have h' : LF ∉ t ++ [CR] := by
      intro hm
      rcases List.mem_append.mp hm with h1 | h1
      · exact h h1
      · simp [LF, CR] at h1
    rw [e, lines_cons _ rest h']; simp [term]

/-- the general write/read lemma: any texts that classify to the intended items, terminated or not -/
theorem readAll_written {α : Type} (parse : Bytes → Outcome PErr β) (pfx : Option Bytes)
    (sh : α → Bytes) (g : α → RItem β) (xs : List α)
    (h : ∀ x ∈ xs, sh x ≠ [] ∧ LF ∉ sh x ∧ classifyLine parse pfx (sh x) = some (g x) ∧
      ∀ c, classifyLine parse pfx (sh x ++ term c) = some (g x)) :
    ∀ (crlf : List Bool) (lt : Bool),
      (lines (written (xs.map sh) crlf lt)).filterMap (classifyLine parse pfx) = xs.map g := by
  induction xs with
  | nil => intro crlf lt; simp [written_nil, lines_nil]
  | cons x xs ih =>
    intro crlf lt
    obtain ⟨hne, hlf, hc1, hc2⟩ := h x List.mem_cons_self
    cases xs with
    | nil =>
      simp only [List.map_cons, List.map_nil, written_single]
      cases lt
      · simp [lines_single _ hlf hne, hc1]
      · have := lines_term (sh x) [] (crlf.head?.getD false) hlf
        simp only [List.append_nil, lines_nil] at this
        simp [this, hc2]
    | cons y ys =>
      have ih' := ih (fun z hz => h z (List.mem_cons_of_mem _ hz)) crlf.tail lt
      simp only [List.map_cons] at ih' ⊢
      rw [written_cons, lines_term _ _ _ hlf, List.filterMap_cons, hc2, ih']

/-- a valid raw line whose stripped text parses and does not start with the skip prefix is a record -/
theorem classifyLine_record (parse : Bytes → Outcome PErr β) (pfx : Option Bytes) (raw t : Bytes) (b : β)
    (hu : utf8Valid raw = true) (hs : stripEol raw = t)
    (hpx : ∀ p, pfx = some p → isPrefix p t = false) (hrt : parse t = .ok b) :
    classifyLine parse pfx raw = some (.record b) := by
  unfold classifyLine
  cases pfx with
  | none => simp only [hu, hs, hrt, Bool.not_true, Bool.false_eq_true, ↓reduceIte]
  | some p => simp only [hu, hs, hrt, hpx p rfl, Bool.not_true, Bool.false_eq_true, ↓reduceIte]

theorem utf8Valid_term (c : Bool) : utf8Valid (term c) = true := by
  cases c <;> decide

/-- records written with the Writer and read back with the Reader come back equal, in the same
order and number, whether lines end in LF or CRLF and whether or not the last line is terminated
(no skip prefix, or a prefix no record text starts with) -/
theorem C04_write_read (fc : FloatCodec F) (hfc : fc.Lawful) (ty : Ty) (xs : List (TRec F))
    (hwf : ∀ x ∈ xs, WF fc ty x ∧ showT fc ty x ≠ [])
    (pfx : Option Bytes) (hp : ∀ p, pfx = some p → ∀ x ∈ xs, isPrefix p (showT fc ty x) = false)
    (hutf : ∀ x ∈ xs, ∀ t, utf8Valid (showT fc ty x ++ t) = utf8Valid t)
    (crlf : List Bool) (lastTerminated : Bool) :
    readAll (parseT fc ty) pfx (written (xs.map (showT fc ty)) crlf lastTerminated) = xs.map .record := by
  rw [readAll_eq_lines]
  apply readAll_written (parseT fc ty) pfx (showT fc ty) RItem.record xs
  intro x hx
  obtain ⟨hw, hne⟩ := hwf x hx
  obtain ⟨hlf, hcr⟩ := C03_single_line fc hfc ty x hw
  have hrt := C03_roundtrip fc hfc ty x hw
  have hcls : ∀ raw, utf8Valid raw = true → stripEol raw = showT fc ty x →
      classifyLine (parseT fc ty) pfx raw = some (.record x) :=
    fun raw hu hs => classifyLine_record _ pfx raw _ x hu hs (fun p hpf => hp p hpf x hx) hrt
  refine ⟨hne, hlf, ?_, ?_⟩
  · apply hcls
    · have := hutf x hx []
      rw [List.append_nil] at this
      rw [this]; rfl
    · exact stripEol_noLF _ (getLast?_ne_of_not_mem _ LF hlf)
  · intro c
    apply hcls
    · rw [hutf x hx, utf8Valid_term]
    · cases c
      · exact stripEol_lf _ (getLast?_ne_of_not_mem _ CR hcr)
      · exact stripEol_crlf _

/-- comment lines (skip prefix followed by anything without LF) inserted anywhere are dropped and
nothing else changes -/
theorem C04_comments_skipped (parse : Bytes → Outcome PErr β) (p body pre post : Bytes)
    (hp : p ≠ []) (hcr : CR ∉ p) (hb : LF ∉ p ++ body) (hu : utf8Valid (p ++ body ++ [LF]) = true)
    (hpre : pre = [] ∨ pre.getLast? = some LF) :
    readAll parse (some p) (pre ++ (p ++ body ++ [LF]) ++ post) = readAll parse (some p) (pre ++ post) := by
  have _ := hp  -- not needed: with `p = []` every line is skipped, the comment too
  have hcls : classifyLine parse (some p) (p ++ body ++ [LF]) = none := by
    unfold classifyLine
    simp only [hu, isPrefix_stripEol_comment p body hcr, Bool.not_true, Bool.false_eq_true, ↓reduceIte]
  have e : p ++ body ++ [LF] ++ post = (p ++ body) ++ LF :: post := by simp
  rw [readAll_eq_lines, readAll_eq_lines, List.append_assoc, lines_append _ pre _ (Nat.le_refl _) hpre,
    lines_append _ pre post (Nat.le_refl _) hpre, e, lines_cons _ post hb,
    List.filterMap_append, List.filterMap_append, List.filterMap_cons]
  rw [hcls]

/-- however the underlying byte source fragments its reads (no empty read before the end,
`Interrupted` errors anywhere), `read_until` returns the same line and leaves the same rest -/
def NoEmptyData (src : List Chunk) : Prop := ∀ c ∈ src, ∀ b, c = .data b → b ≠ []
theorem C04_fragmentation (src : List Chunk) (h : NoEmptyData src) :
    let r := readUntilLF ((flattenChunks src).length + src.length + 1) src []
    r.1 = (takeLine (flattenChunks src)).1 ∧ flattenChunks r.2 = (takeLine (flattenChunks src)).2 ∧ NoEmptyData r.2 := by
  have := readUntilLF_spec ((flattenChunks src).length + src.length + 1) src [] (by omega) h
  simpa [NoEmptyData] using this

/-- witness: CRLF, an unterminated last line, a comment, a blank line (an error, not a drop) -/
example : (readAll (parseT (F := Nat) ⟨fun _ => none, fun _ => [], fun _ => false, 0, fun _ => false⟩ (.bed 3)) (some [35])
    [99, 9, 49, 9, 50, 13, 10, 35, 120, 10, 10, 99, 9, 51, 9, 52]).map (fun | .record r => (r.start, r.stop) | _ => (0, 0))
    = [(1, 2), (0, 0), (3, 4)] := by decide +kernel

end BV
