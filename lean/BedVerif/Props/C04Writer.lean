import BedVerif.Model.Writer
import BedVerif.Lemmas.C09Write
import BedVerif.Props.C04
import BedVerif.Props.C09
/-!
C04, Writer side: whatever the sink does with the individual `write` calls (accept 1 byte, half, all but
one), the bytes that reach it are exactly the records' texts, each followed by LF, in order — unless a hard
error is met, and then `write_record` reports it. Composed with `C04_write_read`: what the Reader gets back
from such a sink is the records that were written.
-/
namespace BV

theorem writeFrags_spec : ∀ (fs : List Bytes) (s : WStore),
    WRun s.plan (writeFrags s fs).2.plan (writeFrags s fs).1 ((writeFrags s fs).2.data = s.data ++ fs.flatten) := by
  intro fs
  induction fs with
  | nil => intro s; simp [writeFrags]; exact WRun.refl _ _ trivial
  | cons f fs ih =>
    intro s
    have h1 := writeAll_spec (f.length + 1) s f (by omega)
    unfold writeFrags
    generalize s.writeAll (f.length + 1) f = r1 at h1 ⊢
    obtain ⟨r1, s1⟩ := r1
    cases r1 with
    | err => exact WRun.err_of_ok h1
    | ok u =>
      cases u
      simp only at h1 ⊢
      refine WRun.trans h1 (ih s1) ?_
      intro a b
      rw [b, a, List.flatten_cons, List.append_assoc]

/-- the bytes a sequence of records puts on the wire: text, LF, text, LF, … -/
def wire (rs : List (List Bytes)) : Bytes := (rs.map (fun r => r.flatten ++ [10])).flatten

theorem writerWrite_spec : ∀ (rs : List (List Bytes)) (s : WStore),
    WRun s.plan (writerWrite s rs).2.plan (writerWrite s rs).1 ((writerWrite s rs).2.data = s.data ++ wire rs) := by
  intro rs
  induction rs with
  | nil => intro s; simp [writerWrite, wire]; exact WRun.refl _ _ trivial
  | cons r rs ih =>
    intro s
    have h1 := writeFrags_spec (r ++ [[10]]) s
    unfold writerWrite
    generalize writeFrags s (r ++ [[10]]) = r1 at h1 ⊢
    obtain ⟨r1, s1⟩ := r1
    cases r1 with
    | err => exact WRun.err_of_ok h1
    | ok u =>
      cases u
      simp only at h1 ⊢
      refine WRun.trans h1 (ih s1) ?_
      intro a b
      rw [b, a]
      simp [wire, List.append_assoc]

/-- a sink that never reports a hard error, however short its writes: every `write_record` succeeds and the
sink holds exactly the records' lines, in order -/
theorem C04_writer_any_sink (plan : List WFault) (h : NoHardW plan) (rs : List (List Bytes)) :
    (writerWrite ⟨[], plan⟩ rs).1 = .ok () ∧ (writerWrite ⟨[], plan⟩ rs).2.data = wire rs := by
  have := (writerWrite_spec rs ⟨[], plan⟩).ok_of_noHard h
  exact ⟨this.1, by simpa using this.2.1⟩

/-- under ANY plan: if every `write_record` reported Ok, the sink holds exactly the records' lines — a
short write is never a silently truncated line -/
theorem C04_writer_never_silent (plan : List WFault) (rs : List (List Bytes))
    (h : (writerWrite ⟨[], plan⟩ rs).1 = .ok ()) :
    (writerWrite ⟨[], plan⟩ rs).2.data = wire rs ∧ NoHardW (consumedW plan (writerWrite ⟨[], plan⟩ rs).2.plan) := by
  have := (writerWrite_spec rs ⟨[], plan⟩).of_ok h
  exact ⟨by simpa using this.1, this.2⟩

/-- what the Writer puts on the wire is the LF-terminated stream of `C04_write_read` -/
theorem wire_eq_written : ∀ (rs : List (List Bytes)),
    wire rs = written (rs.map List.flatten) [] true := by
  intro rs
  induction rs with
  | nil => simp [wire, written_nil]
  | cons r rs ih =>
    cases rs with
    | nil => simp [wire, written_single, term, LF]
    | cons r2 rs =>
      have : wire (r :: r2 :: rs) = r.flatten ++ [10] ++ wire (r2 :: rs) := by simp [wire]
      rw [this, ih]
      simp [written_cons, term, LF]

/-- Writer → (any sink without hard errors) → Reader: the records come back equal, in the same order and
number, whatever fragments `Display` produced and however short the sink's writes were -/
theorem C04_writer_sink_reader (fc : FloatCodec F) (hfc : fc.Lawful) (ty : Ty) (xs : List (TRec F))
    (hwf : ∀ x ∈ xs, WF fc ty x ∧ showT fc ty x ≠ [])
    (pfx : Option Bytes) (hp : ∀ p, pfx = some p → ∀ x ∈ xs, isPrefix p (showT fc ty x) = false)
    (hutf : ∀ x ∈ xs, ∀ t, utf8Valid (showT fc ty x ++ t) = utf8Valid t)
    (frags : List (List Bytes)) (hfr : frags.map List.flatten = xs.map (showT fc ty))
    (plan : List WFault) (hplan : NoHardW plan) :
    readAll (parseT fc ty) pfx (writerWrite ⟨[], plan⟩ frags).2.data = xs.map .record := by
  rw [(C04_writer_any_sink plan hplan frags).2, wire_eq_written, hfr]
  exact C04_write_read fc hfc ty xs hwf pfx hp hutf [] true

/-- non-vacuity: two records in three fragments each, a sink that takes one byte, then two, then everything -/
example : (writerWrite ⟨[], [.accept 1, .accept 2, .accept 1]⟩ [[[99], [9], [49, 9, 50]], [[100]]]).2.data
    = [99, 9, 49, 9, 50, 10, 100, 10] := by decide
example : (writerWrite ⟨[], [.accept 1, .fail]⟩ [[[99, 104]]]).1 = .err := by decide

end BV
