import BedVerif.Lemmas.Coverage05
/-!
# C05 — region coverage counters hold the exact overlap-weighted tag sums

The counters run on top of the `GIntervalIndexSet` model (tag lookup through the per-chromosome
Lapper `find`, C11/C02). Multiplicities and counts are integers; `total_count` (an `f64` in the
Rust) is exact while all partial sums stay below 2^53. `insert_at_index` indices are in range
(`InRange`), as the Rust would panic otherwise.
-/
namespace BV

/-- after any history, the dense counter holds for each region, in supply order, the sum of the
multiplicities of the tags inserted since the last reset that overlap it on the same chromosome
(duplicated regions each receive the full count), plus what `insert_at_index` added to exactly that
index; `total_count` is the sum of all multiplicities since the last reset -/
theorem C05_dense (regions : List Rec) (ops : List COp) (h : InRange regions.length ops) :
    (Dense.run regions ops).counts = specCounts regions ops ∧
    (Dense.run regions ops).total = specTotal ops :=
  dense_run_inv regions ops [] (Dense.init regions) h (dense_init_inv regions)

theorem C05_len (regions : List Rec) (ops : List COp) :
    (Dense.run regions ops).counts.length = regions.length := by
  unfold Dense.run
  rw [length_dense_foldl]; simp [Dense.init]

/-- the dense and the sparse counter always agree -/
theorem C05_sparse_eq_dense (regions : List Rec) (ops : List COp) (h : InRange regions.length ops) :
    asVec regions.length (Sparse.run regions ops).m = (Dense.run regions ops).counts ∧
    (Sparse.run regions ops).total = (Dense.run regions ops).total :=
  let ⟨_, _, hv, ht, _⟩ := sparse_run_SInv regions ops h
  ⟨hv, ht⟩

/-- the sparse map keeps the `BTreeMap` shape: keys strictly increasing and in range -/
theorem C05_sparse_keys (regions : List Rec) (ops : List COp) (h : InRange regions.length ops) :
    ((Sparse.run regions ops).m.map (·.1)).Pairwise (· < ·) ∧ ∀ kv ∈ (Sparse.run regions ops).m, kv.1 < regions.length :=
  let ⟨hs, hb, _, _, _⟩ := sparse_run_SInv regions ops h
  ⟨List.pairwise_map.mpr hs, hb⟩

/-- a tag that merely touches a region boundary, or lies on another chromosome, adds nothing to it -/
theorem C05_touching_adds_nothing (regions : List Rec) (i : Nat) (tag : Rec) (k : Int)
    (h : (regions.getD i default).chrom ≠ tag.chrom ∨ (regions.getD i default).stop ≤ tag.start ∨ tag.stop ≤ (regions.getD i default).start) :
    contrib regions i (.insert tag k) = 0 := by
  simp only [contrib, Rec.ov]
  generalize regions.getD i default = r at h
  rcases h with h | h | h
  · simp [h]
  · have : ¬ (tag.start < r.stop) := by omega
    simp [this]
  · have : ¬ (r.start < tag.stop) := by omega
    simp [this]

/-- witness (fixture `test_coverage` of the crate: duplicated region, touching tag, spanning tag) -/
example : (Dense.run [⟨[1], 200, 500⟩, ⟨[1], 1000, 2000⟩, ⟨[1], 10000, 11000⟩, ⟨[2], 10, 20⟩, ⟨[1], 200, 500⟩]
    [.insert ⟨[1], 100, 210⟩ 1, .insert ⟨[1], 100, 500⟩ 1, .insert ⟨[1], 100, 5000⟩ 1, .insert ⟨[1], 100, 200⟩ 1, .insert ⟨[1], 1000, 1001⟩ 1]).counts
    = [3, 2, 0, 0, 3] := by decide +kernel

/-- the linear-time evaluation of the C05 spec the driver uses on large region lists (`specCountsFast`, regions paired
with their positions instead of list indexing) is the spec -/
theorem C05_specCountsFast_eq (regions : List Rec) (ops : List COp) :
    specCountsFast regions ops = specCounts regions ops := by
  unfold specCountsFast specCounts
  apply List.ext_getElem
  · simp
  · intro i h1 h2
    have hi : i < regions.length := by simpa using h2
    simp only [List.getElem_map, List.getElem_zipIdx, List.getElem_range]
    congr 1
    apply List.map_congr_left
    intro o _
    cases o with
    | insert tag k =>
      have : regions[i]?.getD default = regions[i] := by
        simp [List.getElem?_eq_getElem hi]
      simp [contrib, this]
    | insertAt j k => simp [contrib]
    | reset => simp [contrib]

end BV
