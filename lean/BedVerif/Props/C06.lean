import BedVerif.Spec.Coverage
import BedVerif.Props.C11
import BedVerif.Props.C14
import BedVerif.Lemmas.C06Arith
import BedVerif.Lemmas.C06Accu
import BedVerif.Lemmas.C06Dense
import BedVerif.Lemmas.C06Sparse
/-!
# C06 — binned coverage counts every bin a tag overlaps, and only those

`NoOverflow`: coordinates are naturals; the Rust's `start + bin_size` in the lookups does not
overflow while `region.end + bin <= u64::MAX`.
-/
namespace BV

/-- arithmetic core: for a non-empty region overlapped by a non-empty tag, the inclusive bin range
`i ..= j` computed by the code (no underflow, `j` in range) consists of exactly the bins the tag
overlaps -/
theorem C06_bin_iff (r tag : Rec) (bin b : Nat) (hbin : 0 < bin) (hr : r.start < r.stop) (ht : tag.start < tag.stop)
    (hov : r.ov tag = true) (hb : b < nbins r bin) :
    ∃ i j, binRange r tag bin = .ok (i, j) ∧ j < nbins r bin ∧ i ≤ j ∧ ((i ≤ b ∧ b ≤ j) ↔ (binOf r bin b).ov tag = true) :=
  ⟨binLo r tag bin, binHi r tag bin, binRange_ok r tag bin hbin hr hov, binHi_lt r tag bin hbin hr,
    binLo_le_hi r tag bin hr ht hov, bin_mem_iff r tag bin b hbin hr hov hb⟩

/-- the bins are the pieces of `split_by_len` (shared geometry with C14): each region is tiled from
its start into consecutive bins of width `bin`, the last one possibly shorter -/
theorem C06_bins_are_split (r : Rec) (bin : Nat) (hbin : 0 < bin) (hmax : r.stop ≤ U64MAX) :
    splitByLen r bin = .ok ((List.range (nbins r bin)).map (binOf r bin)) := by
  rw [splitByLen_eq r bin hbin hmax]
  unfold nbins
  congr 2
  funext i
  exact (binOf_eq r bin i).symm

def BTagsNonEmpty (ops : List BOp) : Prop := ∀ o ∈ ops, ∀ t k, o = .insert t k → t.start < t.stop

/-- after any history of insertions and resets each bin's count is the summed multiplicity of the
inserted tags that overlap that bin on the same chromosome; no panic (no underflow, no out-of-range
write) -/
theorem C06_dense (regions : List Rec) (bin : Nat) (ops : List BOp) (hbin : 0 < bin)
    (hr : ∀ r ∈ regions, r.start < r.stop) (ht : BTagsNonEmpty ops) :
    BDense.run regions bin ops = .ok ⟨specBinned regions bin ops, specBTotal ops⟩ :=
  -- (`ht` is not needed: for an empty tag the computed range is still exactly the overlapped bins)
  have _ := ht
  dense_run regions bin ops hbin hr

/-- `len()` is the total number of bins, and the flat index `accu[i] + b` enumerates bins region by
region in tiling order -/
theorem C06_len (regions : List Rec) (bin : Nat) :
    (accu regions bin).2 = (allBins regions bin).length ∧ (accu regions bin).1.length = regions.length := by
  rw [accu_eq]
  exact ⟨rfl, psums_length bin regions 0⟩
theorem C06_flat_index (regions : List Rec) (bin : Nat) (i b : Nat) (hi : i < regions.length) (hb : b < nbins regions[i] bin) :
    ∃ n, (accu regions bin).1[i]? = some n ∧ (allBins regions bin)[n + b]? = some (binOf regions[i] bin b) := by
  rw [accu_eq]
  obtain ⟨k, h1, h2⟩ := flat_index_gen bin regions 0 i b hi hb
  exact ⟨k, by simpa using h1, h2⟩

/-- the dense and sparse binned counters agree bin for bin -/
theorem C06_sparse_eq_dense (regions : List Rec) (bin : Nat) (ops : List BOp) (hbin : 0 < bin)
    (hr : ∀ r ∈ regions, r.start < r.stop) (ht : BTagsNonEmpty ops) :
    ∃ s, BSparse.run regions bin ops = .ok s ∧
      asVec (accu regions bin).2 s.m = (specBinned regions bin ops).flatten ∧ s.total = specBTotal ops :=
  have _ := ht
  sparse_run regions bin ops hbin hr

/-- the lookup with unbounded addition -/
theorem C06_getRegionIdeal (regions : List Rec) (bin idx : Nat) (hbin : 0 < bin) (hr : ∀ r ∈ regions, r.start < r.stop) :
    getRegionIdeal regions bin idx = .ok ((allBins regions bin)[idx]?) := by
  unfold getRegionIdeal
  simp only [accu_eq]
  by_cases hge : idx ≥ (allBins regions bin).length
  · simp [hge]
  · simp only [hge, if_false]
    rcases locate regions bin idx hbin hr (by omega) with ⟨j, h1, h2, hj, h3⟩ | ⟨c, p, h1, h2, h3, hc, h4⟩
    · rw [h1, h3]
      simp only [h2, if_true, List.getElem?_eq_getElem hj, binOf_zero]
    · rw [h1, h4]
      have : ¬ c + 1 < 1 := by omega
      simp only [this, if_false, Nat.add_sub_cancel, h2, if_true, List.getElem?_eq_getElem hc, h3, binOf_eq]
/-- saturating addition is exact below a bound that is itself ≤ u64::MAX -/
theorem C06_satAdd_min (a b c : Nat) (hc : c ≤ U64MAX) : min (satAdd a b) c = min (a + b) c := by
  unfold satAdd; omega

/-- the repaired `get_region` (saturating addition on u64) computes what unbounded addition computes,
for all regions with coordinates ≤ u64::MAX — no `NoOverflow` hypothesis is needed -/
theorem C06_getRegion_eq_ideal (regions : List Rec) (bin idx : Nat) (hmax : ∀ r ∈ regions, r.stop ≤ U64MAX) :
    getRegion regions bin idx = getRegionIdeal regions bin idx := by
  unfold getRegion getRegionIdeal
  simp only
  split
  · rfl
  · split
    · split
      · split
        · rename_i site hs
          rw [C06_satAdd_min _ _ _ (hmax site (List.mem_of_getElem? hs))]
        · rfl
      · rfl
    · split
      · rfl
      · split
        · split
          · rename_i site prev hs _
            rw [C06_satAdd_min _ _ _ (hmax site (List.mem_of_getElem? hs))]
          · rfl
        · rfl

/-- index-to-region / index-to-chromosome lookups return exactly that bin for every valid index and
`None` for every index `>= len()` (in particular on the empty region list), for regions anywhere in
the u64 range (top of the range included) -/
theorem C06_getRegion (regions : List Rec) (bin idx : Nat) (hbin : 0 < bin) (hr : ∀ r ∈ regions, r.start < r.stop)
    (hmax : ∀ r ∈ regions, r.stop ≤ U64MAX) :
    getRegion regions bin idx = .ok ((allBins regions bin)[idx]?) := by
  rw [C06_getRegion_eq_ideal regions bin idx hmax]
  exact C06_getRegionIdeal regions bin idx hbin hr
theorem C06_getChrom (regions : List Rec) (bin idx : Nat) (hbin : 0 < bin) (hr : ∀ r ∈ regions, r.start < r.stop) :
    getChrom regions bin idx = .ok (((allBins regions bin)[idx]?).map (·.chrom)) := by
  unfold getChrom
  simp only [accu_eq]
  by_cases hge : idx ≥ (allBins regions bin).length
  · simp [hge]
  · simp only [hge, if_false]
    rcases locate regions bin idx hbin hr (by omega) with ⟨j, h1, h2, hj, h3⟩ | ⟨c, p, h1, h2, h3, hc, h4⟩
    · rw [h1, h3]
      simp only [h2, if_true, List.getElem?_eq_getElem hj, Option.map_some, binOf_chrom]
    · rw [h1, h4]
      have : ¬ c + 1 < 1 := by omega
      simp only [this, if_false, Nat.add_sub_cancel, h2, if_true, List.getElem?_eq_getElem hc, Option.map_some, binOf_chrom]

/-- witnesses (regression of the repaired defect): index = len is `None`; empty region list -/
example : getRegion [⟨[], 0, 1000⟩] 400 3 = .ok none ∧ getRegion [⟨[], 0, 1000⟩] 400 2 = .ok (some ⟨[], 800, 1000⟩) ∧
    getRegion [] 10 0 = .ok none := by decide +kernel

/-- witness of the repaired top-of-range defect: region [u64::MAX-3, u64::MAX), bin 2: `get_region(1)` is the
last bin (the unrepaired code computed `start + bin_size` past u64::MAX) -/
example : getRegion [⟨[99], 18446744073709551612, 18446744073709551615⟩] 2 1
    = .ok (some ⟨[99], 18446744073709551614, 18446744073709551615⟩) := by decide +kernel

end BV
