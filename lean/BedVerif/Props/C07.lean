import BedVerif.Lemmas.MergeBed
/-!
# C07 — merging sorted records groups exactly the connected runs

For input sorted by (chromosome, start, end): `merge_sorted_bed_with` hands every record to the
closure in exactly one group, in input order; the groups are the maximal runs chained by overlap or
adjacency on one chromosome; `merge_sorted_bed` emits one range per group from the smallest start
to the largest end; its output is sorted, pairwise disjoint and non-adjacent within a chromosome and
covers exactly the input's positions. (`SortedRecs`, `GoodGroups`, `coveredBy` are defined in
`Lemmas/MergeBed.lean`.)
-/
namespace BV

theorem C07_groups (xs : List Rec) (hs : SortedRecs xs) (hv : ∀ r ∈ xs, r.start ≤ r.stop) :
    ∃ gs, groups xs = .ok gs ∧ GoodGroups xs gs := by
  have _ := hv   -- not needed for this statement
  exact groups_good xs hs

/-- stronger separation: records of *any* later group neither overlap nor abut records of an earlier
one on the same chromosome -/
theorem C07_groups_separated (xs : List Rec) (hs : SortedRecs xs) (hv : ∀ r ∈ xs, r.start ≤ r.stop)
    (gs : List (List Rec)) (hg : groups xs = .ok gs) :
    ∀ i j (hi : i < gs.length) (hj : j < gs.length), i < j → ∀ a ∈ gs[i], ∀ b ∈ gs[j], a.chrom ≠ b.chrom ∨ a.stop < b.start := by
  have _ := hv   -- not needed for this statement
  exact separated_of_good hs (good_of_ok hs hg)

/-- `merge_sorted_bed`: one range per group, from the smallest start to the largest end -/
theorem C07_merged_ranges (xs : List Rec) (hs : SortedRecs xs) (hv : ∀ r ∈ xs, r.start ≤ r.stop)
    (gs : List (List Rec)) (hg : groups xs = .ok gs) :
    mergeSortedBed xs = .ok (gs.map mergeGroup) ∧
    ∀ g ∈ gs, (mergeGroup g).start = (g.headD default).start ∧
      (∀ a ∈ g, (mergeGroup g).start ≤ a.start ∧ a.stop ≤ (mergeGroup g).stop) ∧
      (∃ a ∈ g, a.stop = (mergeGroup g).stop) := by
  have _ := hv   -- not needed for this statement
  have hG := good_of_ok hs hg
  refine ⟨mergeSortedBed_ok hg, ?_⟩
  intro g hgm
  exact mergeGroup_facts (hG.nonempty g hgm) ((cross_sorted hs hG.flatten).1 g hgm) (hG.oneChrom g hgm)

/-- the output is sorted, pairwise disjoint and non-adjacent within a chromosome, and covers exactly
the positions covered by the input -/
theorem C07_merged (xs : List Rec) (hs : SortedRecs xs) (hv : ∀ r ∈ xs, r.start ≤ r.stop) :
    ∃ out, mergeSortedBed xs = .ok out ∧ SortedRecs out ∧
      (∀ i (h : i + 1 < out.length), out[i].chrom ≠ out[i+1].chrom ∨ out[i].stop < out[i+1].start) ∧
      (∀ c p, coveredBy xs c p ↔ coveredBy out c p) := by
  obtain ⟨gs, hg, hG⟩ := groups_good xs hs
  exact ⟨gs.map mergeGroup, mergeSortedBed_ok hg, merged_sorted hs hv hG, merged_adjacent hs hG,
    merged_cover hs hG⟩

/-- unsorted input is rejected by a panic or still partitioned — never silently dropped: whenever
`groups` returns, the groups flatten to the input -/
theorem C07_groups_flatten_any (xs : List Rec) (gs : List (List Rec)) (hg : groups xs = .ok gs) : gs.flatten = xs :=
  groups_flatten_any xs gs hg

/-- witness: chromosome change with overlapping coordinates, a book-ended record, a nested record
with a smaller end, a gap of one base -/
example : groups [⟨[1], 0, 10⟩, ⟨[1], 2, 5⟩, ⟨[1], 10, 12⟩, ⟨[1], 13, 14⟩, ⟨[2], 0, 10⟩]
    = .ok [[⟨[1], 0, 10⟩, ⟨[1], 2, 5⟩, ⟨[1], 10, 12⟩], [⟨[1], 13, 14⟩], [⟨[2], 0, 10⟩]] := by decide
example : SortedRecs [⟨[1], 0, 10⟩, ⟨[1], 2, 5⟩, ⟨[1], 10, 12⟩, ⟨[1], 13, 14⟩, ⟨[2], 0, 10⟩] := by
  unfold SortedRecs; decide

end BV
