import BedVerif.Lemmas.GroupsUnique
/-!
C07: the clauses of the property determine the grouping and the merged ranges UNIQUELY — a grouping of a sorted input satisfies
them exactly when it is the model's (`groups`, the linear loop that mirrors `MergeBed::next`), and likewise for the output of
`merge_sorted_bed`. On inputs of 10^4–10^5 records the driver therefore compares the implementation's output with the model's
for equality (the Boolean checkers are quadratic in the size of a group).
-/
namespace BV

theorem C07_groupsSpec_unique (xs : List Rec) (g₁ g₂ : List (List Rec)) (h₁ : GroupsSpec xs g₁) (h₂ : GroupsSpec xs g₂) : g₁ = g₂ :=
  groupsSpec_unique xs g₁ g₂ h₁ h₂
theorem C07_groupsSpec_iff_eq_model (xs : List Rec) (gs : List (List Rec)) (hs : SortedRecs xs) :
    GroupsSpec xs gs ↔ groups xs = .ok gs := groupsSpec_iff_eq_model xs gs hs
theorem C07_mergedSpec_iff_eq_model (xs out : List Rec) (hs : SortedRecs xs) (hv : ∀ r ∈ xs, r.start ≤ r.stop) :
    (∃ gs, GroupsSpec xs gs ∧ MergedSpec xs out gs) ↔ mergeSortedBed xs = .ok out := mergedSpec_iff_eq_model xs out hs hv

end BV
