import BedVerif.Spec.Rec
import BedVerif.Lemmas.C08Lift
/-!
# C08 — bedGraph merge is the pointwise sum, run-length encoded

For every sorted sequence of non-empty bedGraph records with values in ℤ. The sort of the
breakpoints is unstable in the Rust; `C08_order_independent` shows that every position-sorted
permutation gives the same result, so modelling it by the stable insertion sort loses nothing.
Lemmas: `Lemmas/C08{Chunk,Sweep,Group,Single,Lift}.lean`.
-/
namespace BV

def SortedBGs (xs : List BG) : Prop := (xs.map BG.toRec).Pairwise (fun a b => Rec.compare a b ≠ .gt)
def coveredByBG (xs : List BG) (c : Bytes) (p : Nat) : Prop := ∃ b ∈ xs, b.chrom = c ∧ b.toRec.mem p
/-- sum of the values of the records covering position `p` of chromosome `c` -/
def sumAt (xs : List BG) (c : Bytes) (p : Nat) : Int :=
  ((xs.filter (fun b => decide (b.chrom = c ∧ b.toRec.mem p))).map (·.value)).sum

/-- the sort of the breakpoints is unstable in the Rust (`sorted_unstable_by_key`): the result of
the per-group sweep is the same for every position-sorted permutation of the breakpoints -/
theorem C08_order_independent (chrom : Bytes) (pts pts' : List (Nat × Int)) (hp : pts'.Perm pts)
    (hs : pts.Pairwise (fun a b => a.1 ≤ b.1)) (hs' : pts'.Pairwise (fun a b => a.1 ≤ b.1)) :
    sweepGroup chrom pts' = sweepGroup chrom pts := C08.order_independent chrom pts pts' hp hs hs'

/-- C08: for every sorted sequence of non-empty bedGraph records with values in ℤ the output is
non-empty records, sorted, pairwise non-overlapping, covering exactly the covered positions,
carrying at every covered position the sum of the covering input values, and maximal (adjacent
output records on one chromosome differ in value). -/
theorem C08_bedgraph (xs : List BG) (hs : SortedBGs xs) (hne : ∀ b ∈ xs, b.start < b.stop) :
    ∃ out, mergeSortedBedgraph xs = .ok out ∧
      (∀ o ∈ out, o.start < o.stop) ∧
      SortedBGs out ∧
      (∀ i (h : i + 1 < out.length), out[i].chrom ≠ out[i+1].chrom ∨ out[i].stop ≤ out[i+1].start) ∧
      (∀ c p, coveredByBG xs c p ↔ coveredByBG out c p) ∧
      (∀ o ∈ out, ∀ p, o.toRec.mem p → o.value = sumAt xs o.chrom p) ∧
      (∀ i (h : i + 1 < out.length), out[i].chrom = out[i+1].chrom → out[i].stop = out[i+1].start → out[i].value ≠ out[i+1].value) := C08.main xs hs hne

/-- regression witness of the repaired defect: mixed-sign values starting at one position used to
yield an empty record `[0,0)` -/
example : mergeSortedBedgraph [⟨[], 0, 10, 1⟩, ⟨[], 0, 10, -1⟩] = .ok [⟨[], 0, 10, 0⟩] := by decide +kernel
example : mergeSortedBedgraph [⟨[], 0, 10, -2⟩, ⟨[], 0, 12, 3⟩] = .ok [⟨[], 0, 10, 1⟩, ⟨[], 10, 12, 3⟩] := by decide +kernel

end BV
