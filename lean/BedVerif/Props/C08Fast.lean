import BedVerif.Lemmas.FastBedgraph
/-!
C08, large inputs: the output the driver compares `merge_sorted_bedgraph` with on inputs of 10^4–10^5 records —
`fastBedgraph'` (per chromosome: merge sorts of the endpoints and of the weighted events, one linear sweep carrying the running
coverage count and the running sum, fusion of touching equal-valued neighbours) — is THE list satisfying the six clauses of the
specification (`BedgraphSpec` = the clauses of `C08_bedgraph`): a list satisfies them exactly when it equals `fastBedgraph' xs`.
-/
namespace BV

theorem C08_bedgraphSpec_unique (xs out₁ out₂ : List BG) (h₁ : BedgraphSpec xs out₁) (h₂ : BedgraphSpec xs out₂) : out₁ = out₂ :=
  bedgraphSpec_unique xs out₁ out₂ h₁ h₂
theorem C08_bedgraphSpec_iff_eq_model (xs out : List BG) (hs : SortedBGs xs) (hne : ∀ b ∈ xs, b.start < b.stop) :
    BedgraphSpec xs out ↔ mergeSortedBedgraph xs = .ok out := bedgraphSpec_iff_eq_model xs out hs hne
theorem C08_bedgraphSpec_iff_eq_fast (xs out : List BG) (hs : SortedBGs xs) (hne : ∀ b ∈ xs, b.start < b.stop) :
    BedgraphSpec xs out ↔ out = fastBedgraph' xs := bedgraphSpec_iff_eq_fast' xs out hs hne

end BV
