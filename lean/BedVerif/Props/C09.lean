import BedVerif.Model.Store
import BedVerif.Lemmas.C09Le
import BedVerif.Lemmas.C09Write
import BedVerif.Lemmas.C09Read
import BedVerif.Lemmas.C09BufRead
/-!
# C09 — sort chunks survive short writes, short reads and surface I/O errors

The storage is a state machine with a fault plan: every `write` call may accept only part of the
buffer or fail hard; every `read` call may return fewer bytes, be interrupted, or fail hard.
`write_all`, `read_exact` and `BufWriter` are transcribed from std. The theorems quantify over ALL
fault plans (any number of faults, any positions), all record lists and all payload sizes
(below, at and above the `BufWriter` capacity — the capacity itself is a parameter).
`BufReader` (the uncompressed read stack of `ExternalChunk::new`) is transcribed from std as well
(`Model/BufRead.lean`), with its capacity as a parameter. The lz4 encoder/decoder is not modelled: for it
the correspondence check applies the specification directly to the implementation's behaviour.
-/
namespace BV

def NoHardW (plan : List WFault) : Prop := ∀ f ∈ plan, f ≠ .fail
def NoHardR (plan : List RFault) : Prop := ∀ f ∈ plan, f ≠ .fail
/-- the part of the fault plan a run consumed -/
def consumedW (plan rest : List WFault) : List WFault := plan.take (plan.length - rest.length)

/-- the 8-byte little-endian length header round-trips for every length below 2^64 -/
theorem C09_le64_roundtrip (n : Nat) (h : n < 2^64) : unle64 (le64 n) = n ∧ (le64 n).length = 8 :=
  ⟨C09_unle64_le64 n h, C09_le64_length n⟩

/-- `write_all` under any plan without hard errors (writes that accept only part of a buffer): all
bytes reach the storage, in order -/
theorem C09_writeAll_ok (s : WStore) (h : NoHardW s.plan) (buf : Bytes) (fuel : Nat) (hf : buf.length < fuel) :
    (s.writeAll fuel buf).1 = .ok () ∧ (s.writeAll fuel buf).2.data = s.data ++ buf ∧ NoHardW (s.writeAll fuel buf).2.plan :=
  (writeAll_spec fuel s buf hf).ok_of_noHard h

/-- bare writer: with no hard error the dump succeeds and the storage holds exactly the framed records -/
theorem C09_dumpBare_ok (plan : List WFault) (h : NoHardW plan) (ps : List Bytes) :
    (dumpBare ⟨[], plan⟩ ps).1 = .ok () ∧ (dumpBare ⟨[], plan⟩ ps).2.data = frames ps := by
  have := (dumpBare_spec ps ⟨[], plan⟩).ok_of_noHard h
  exact ⟨this.1, by simpa using this.2.1⟩

/-- … and under ANY plan a dump that reports Ok has stored exactly the framed records (never a
silently missing, truncated or altered record), and has not met a hard error -/
theorem C09_dumpBare_never_silent (plan : List WFault) (ps : List Bytes) (h : (dumpBare ⟨[], plan⟩ ps).1 = .ok ()) :
    (dumpBare ⟨[], plan⟩ ps).2.data = frames ps ∧ NoHardW (consumedW plan (dumpBare ⟨[], plan⟩ ps).2.plan) := by
  have := (dumpBare_spec ps ⟨[], plan⟩).of_ok h
  exact ⟨by simpa using this.1, this.2⟩

/-- behind `BufWriter` (any capacity ≥ 1, in particular records below, at and above the capacity):
same two statements for `dump` followed by `flush` -/
theorem C09_dumpBuf_ok (cap : Nat) (hcap : 0 < cap) (plan : List WFault) (h : NoHardW plan) (ps : List Bytes) :
    (dumpBuf ⟨cap, [], ⟨[], plan⟩⟩ ps).1 = .ok () ∧
    (dumpBuf ⟨cap, [], ⟨[], plan⟩⟩ ps).2.inner.data = frames ps ∧ (dumpBuf ⟨cap, [], ⟨[], plan⟩⟩ ps).2.buf = [] := by
  have _ := hcap  -- the capacity bound is not needed
  have := (dumpBuf_spec ps ⟨cap, [], ⟨[], plan⟩⟩).ok_of_noHard h
  exact ⟨this.1, by simpa using this.2.1.1, this.2.1.2⟩
theorem C09_dumpBuf_never_silent (cap : Nat) (hcap : 0 < cap) (plan : List WFault) (ps : List Bytes)
    (h : (dumpBuf ⟨cap, [], ⟨[], plan⟩⟩ ps).1 = .ok ()) :
    (dumpBuf ⟨cap, [], ⟨[], plan⟩⟩ ps).2.inner.data = frames ps ∧
    NoHardW (consumedW plan (dumpBuf ⟨cap, [], ⟨[], plan⟩⟩ ps).2.inner.plan) := by
  have _ := hcap  -- the capacity bound is not needed
  have := (dumpBuf_spec ps ⟨cap, [], ⟨[], plan⟩⟩).of_ok h
  exact ⟨by simpa using this.1.1, this.2⟩

def PayloadsFit (ps : List Bytes) : Prop := ∀ p ∈ ps, p.length < 2^64

/-- reading back under any plan of short reads and interrupts (no hard error): every record,
identical and in order, then the end -/
theorem C09_read_ok (plan : List RFault) (h : NoHardR plan) (ps : List Bytes) (hp : PayloadsFit ps) :
    chunkItems (ps.length + 1) ⟨frames ps, plan⟩ = ps.map .ok :=
  chunkItems_ok ps plan h hp

/-- under ANY read plan: the items yielded are a prefix of the dumped records, unaltered and in
order, followed by at most one error item; a chunk that ends without an error item is complete -/
theorem C09_read_never_silent (plan : List RFault) (ps : List Bytes) (hp : PayloadsFit ps) :
    ∃ k, k ≤ ps.length ∧
      (chunkItems (ps.length + 1) ⟨frames ps, plan⟩ = (ps.take k).map .ok ++ [.err] ∨
       (chunkItems (ps.length + 1) ⟨frames ps, plan⟩ = (ps.take k).map .ok ∧ k = ps.length)) :=
  chunkItems_any ps plan hp

/-- a hard read error that is reached is reported: if the plan's first entry is a hard error the
first item is an error -/
theorem C09_read_error_surfaces (plan : List RFault) (ps : List Bytes) (hne : ps ≠ []) :
    chunkItems (ps.length + 1) ⟨frames ps, .fail :: plan⟩ = [.err] := by
  have _ := hne  -- holds for the empty chunk too
  exact chunkItems_fail_first ps plan ps.length

/-- through `BufReader` of ANY capacity (0 included), under any plan of short reads and interrupts: every
record, identical and in order, then the end -/
theorem C09_bufread_ok (cap : Nat) (plan : List RFault) (h : NoHardR plan) (ps : List Bytes) (hp : PayloadsFit ps) :
    chunkItemsBuf (ps.length + 1) ⟨cap, [], ⟨frames ps, plan⟩⟩ = ps.map .ok :=
  chunkItemsBuf_ok cap ps plan h hp

/-- … and under ANY read plan: a prefix of the dumped records, unaltered and in order, then at most one
error item; a chunk that ends without an error item is complete -/
theorem C09_bufread_never_silent (cap : Nat) (plan : List RFault) (ps : List Bytes) (hp : PayloadsFit ps) :
    ∃ k, k ≤ ps.length ∧
      (chunkItemsBuf (ps.length + 1) ⟨cap, [], ⟨frames ps, plan⟩⟩ = (ps.take k).map .ok ++ [.err] ∨
       (chunkItemsBuf (ps.length + 1) ⟨cap, [], ⟨frames ps, plan⟩⟩ = (ps.take k).map .ok ∧ k = ps.length)) :=
  chunkItemsBuf_any cap ps plan hp

/-- a hard error on the first storage read is the first item -/
theorem C09_bufread_error_surfaces (cap : Nat) (plan : List RFault) (ps : List Bytes) :
    chunkItemsBuf (ps.length + 1) ⟨cap, [], ⟨frames ps, .fail :: plan⟩⟩ = [.err] :=
  chunkItemsBuf_fail_first cap ps plan ps.length

/-- witness: capacity 4 (below the 8-byte header), short reads and an interrupt -/
example : chunkItemsBuf 3 ⟨4, [], ⟨frames [[1, 2, 3], [4]], [.give 3, .interrupted, .give 1, .give 100, .give 2]⟩⟩
    = [.ok [1, 2, 3], .ok [4]] := by decide +kernel

/-- witness of the repaired defect: a 20-byte record through a 16-byte `BufWriter` over a storage whose
second write accepts 5 bytes -/
example : (dumpBuf ⟨16, [], ⟨[], [.accept 100, .accept 5]⟩⟩ [List.replicate 20 7]).1 = .ok () ∧
    (dumpBuf ⟨16, [], ⟨[], [.accept 100, .accept 5]⟩⟩ [List.replicate 20 7]).2.inner.data = frames [List.replicate 20 7] := by decide +kernel

end BV
