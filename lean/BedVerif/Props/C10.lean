import BedVerif.Model.Sort
import BedVerif.Lemmas.C10Drain
/-!
# C10 — k-way merge is ordered and complete, or it reports an error

`Merger` mirrors `BinaryHeapMerger`: priming loop that returns at the first error without setting
`initiated`, pop of the greatest `(Reverse(value), chunk index)`, refill from the same chunk, the popped
item dropped when the refill yields an error. All statements hold for any comparator that is a total
preorder (reversed ones included), any number of chunks, empty chunks included.
-/
namespace BV
variable {ε α : Type}

/-- the comparator is a total preorder -/
structure TotalPreorder (cmp : α → α → Ordering) : Prop where
  swap : ∀ a b, cmp a b = (cmp b a).swap
  trans : ∀ a b c, cmp a b ≠ .gt → cmp b c ≠ .gt → cmp a c ≠ .gt
def le (cmp : α → α → Ordering) (a b : α) : Prop := cmp a b ≠ .gt
def AllOk (l : List (Item ε α)) : Prop := ∀ x ∈ l, ∃ a, x = .ok a

/-! helper facts (the proofs proper are in `Scratch/C10Basic|Ops|Step|Drain.lean`) -/
theorem C10_aux_noErr (cmp : α → α → Ordering) (chunks : List (List (Item ε α)))
    (hok : ∀ c ∈ chunks, AllOk c) : AllOk (drain cmp chunks).1 := by
  intro x hx
  cases x with
  | ok a => exact ⟨a, rfl⟩
  | err e =>
    obtain ⟨c, hc, hec⟩ := List.mem_flatten.mp (C10.errors_genuine cmp chunks e hx)
    obtain ⟨a, ha⟩ := hok c hc _ hec
    cases ha

theorem C10_aux_hasErr_false {l : List (Item ε α)} (h : AllOk l) : hasErr l = false := by
  cases hh : hasErr l
  · rfl
  · obtain ⟨e, he⟩ := C10.hasErr_iff.mp hh
    obtain ⟨a, ha⟩ := h _ he
    cases ha

theorem C10_aux_delivered (cmp : α → α → Ordering) (chunks : List (List (Item ε α)))
    (he : ∃ c ∈ chunks, hasErr c = true) : hasErr (drain cmp chunks).1 = true := by
  obtain ⟨c, hc, hec⟩ := he
  obtain ⟨e, hee⟩ := C10.hasErr_iff.mp hec
  exact C10.error_delivered cmp chunks ⟨e, List.mem_flatten.mpr ⟨c, hc, hee⟩⟩

/-- merging any number of individually sorted, error-free chunk streams (empty ones, a single one,
duplicates within and across chunks) yields every item of every chunk exactly once in
non-decreasing order, then ends -/
theorem C10_merge_ok (cmp : α → α → Ordering) (h : TotalPreorder cmp) (chunks : List (List (Item ε α)))
    (hok : ∀ c ∈ chunks, AllOk c) (hs : ∀ c ∈ chunks, (okItems c).Pairwise (le cmp)) :
    AllOk (drain cmp chunks).1 ∧
    (okItems (drain cmp chunks).1).Perm (okItems chunks.flatten) ∧
    (okItems (drain cmp chunks).1).Pairwise (le cmp) := by
  have hall := C10_aux_noErr cmp chunks hok
  have hno := C10_aux_hasErr_false hall
  refine ⟨hall, C10.complete cmp chunks hno, ?_⟩
  have := C10.prefix_sorted cmp h.swap h.trans chunks hs
  rw [C10.beforeFirstErr_noErr hno] at this
  exact this

/-- … and stays ended (whatever the chunks contained) -/
theorem C10_stays_ended (cmp : α → α → Ordering) (chunks : List (List (Item ε α))) :
    (((drain cmp chunks).2).next cmp).1 = none ∧
    (((((drain cmp chunks).2).next cmp).2).next cmp).1 = none :=
  C10.stays_ended cmp chunks

/-- the items delivered before the first error are in order -/
theorem C10_prefix_sorted (cmp : α → α → Ordering) (h : TotalPreorder cmp) (chunks : List (List (Item ε α)))
    (hs : ∀ c ∈ chunks, (okItems c).Pairwise (le cmp)) :
    (beforeFirstErr (drain cmp chunks).1).Pairwise (le cmp) :=
  C10.prefix_sorted cmp h.swap h.trans chunks hs

/-- if any chunk stream produces an error, the merged stream delivers an error … -/
theorem C10_error_delivered (cmp : α → α → Ordering) (chunks : List (List (Item ε α)))
    (he : ∃ c ∈ chunks, hasErr c = true) : hasErr (drain cmp chunks).1 = true :=
  C10_aux_delivered cmp chunks he

set_option linter.unusedVariables false in
/-- … so a merged stream that ends without ever yielding an error is complete
(the hypotheses `h` and `hs` turn out not to be needed) -/
theorem C10_complete_or_error (cmp : α → α → Ordering) (h : TotalPreorder cmp) (chunks : List (List (Item ε α)))
    (hs : ∀ c ∈ chunks, (okItems c).Pairwise (le cmp)) (hno : hasErr (drain cmp chunks).1 = false) :
    (∀ c ∈ chunks, AllOk c) ∧ (okItems (drain cmp chunks).1).Perm (okItems chunks.flatten) := by
  refine ⟨?_, C10.complete cmp chunks hno⟩
  intro c hc x hx
  cases x with
  | ok a => exact ⟨a, rfl⟩
  | err e =>
    have := C10_aux_delivered cmp chunks ⟨c, hc, C10.hasErr_iff.mpr ⟨e, hx⟩⟩
    rw [hno] at this
    cases this

/-- every error item delivered is an error item of some chunk -/
theorem C10_errors_genuine (cmp : α → α → Ordering) (chunks : List (List (Item ε α))) (e : ε)
    (h : Item.err e ∈ (drain cmp chunks).1) : ∃ c ∈ chunks, Item.err e ∈ c :=
  List.mem_flatten.mp (C10.errors_genuine cmp chunks e h)

/-- witnesses (fixtures `test_merger` of the crate, and an error while priming) -/
example : (drain (ε := String) (compare : Int → Int → Ordering) [[.ok 4, .ok 5, .ok 7], [.ok 1, .ok 6], [.ok 3], []]).1
    = [.ok 1, .ok 3, .ok 4, .ok 5, .ok 6, .ok 7] := by decide +kernel
example : (drain (compare : Int → Int → Ordering) [[.ok 3, .err "E"], [.ok 1, .ok 2]]).1 = [.ok 1, .ok 2, .err "E"] := by decide +kernel

end BV
