import BedVerif.Props.C02
/-!
# C11 — indexed region sets keep positional identity

`GIntervalIndexSet` / `GIntervalIndexMap` built from a sequence: element `i` is the `i`-th supplied
region / value, `len` is the sequence length, `get` beyond it is `none`; a query returns exactly
the positions (resp. the `i`-th values) whose region overlaps the query on the same chromosome,
once per occurrence. Corollaries of the map-level theorems of C02.
-/
namespace BV
variable {α : Type}

theorem build_nil (xs : List (Rec × α)) : GMap.build xs [] = GMap.fromIter xs := rfl

theorem find_fromIter_perm (xs : List (Rec × α)) (q : Rec) :
    (GMap.find (GMap.fromIter xs) q).Perm (xs.filter (fun x => x.1.ov q)) := by
  have := C02_gfind_perm xs [] q
  rwa [build_nil, List.append_nil] at this

theorem C11_get (xs : List Rec) (i : Nat) : (IndexSet.fromIter xs).get i = xs[i]? := rfl
theorem C11_len (xs : List Rec) : (IndexSet.fromIter xs).len = xs.length := rfl
theorem C11_get_none (xs : List Rec) (i : Nat) (h : xs.length ≤ i) : (IndexSet.fromIter xs).get i = none := by
  rw [C11_get]
  exact List.getElem?_eq_none h

theorem findFull_perm (xs : List Rec) (q : Rec) :
    ((IndexSet.fromIter xs).findFull q).Perm ((enumFrom 0 xs).filter (fun x => x.1.ov q)) :=
  find_fromIter_perm (enumFrom 0 xs) q

/-- positions returned by a query: exactly the `i` whose region overlaps the query on the same
chromosome, each occurrence once -/
theorem C11_findIndexOf_perm (xs : List Rec) (q : Rec) :
    ((IndexSet.fromIter xs).findIndexOf q).Perm ((List.range xs.length).filter (fun i => (xs.getD i default).ov q)) := by
  have h := (findFull_perm xs q).map (·.2)
  refine h.trans ?_
  rw [enumFrom_eq_range, List.filter_map, List.map_map]
  simp [Function.comp_def]

/-- `find_full` pairs every reported position with the region stored at that position -/
theorem C11_findFull (xs : List Rec) (q : Rec) :
    ∀ x ∈ (IndexSet.fromIter xs).findFull q, xs[x.2]? = some x.1 := by
  intro x hx
  have := (findFull_perm xs q).mem_iff.mp hx
  exact mem_enumFrom0 xs x (List.mem_filter.mp this).1

theorem C11_find (xs : List Rec) (q : Rec) :
    ((IndexSet.fromIter xs).find q).Perm (xs.filter (·.ov q)) := by
  have h := (findFull_perm xs q).map (·.1)
  refine h.trans ?_
  have : (xs.filter (·.ov q)) = ((enumFrom 0 xs).map (·.1)).filter (·.ov q) := by
    rw [enumFrom_map_fst]
  rw [this, List.filter_map]
  exact List.Perm.refl _

theorem C11_isOverlapped (xs : List Rec) (q : Rec) :
    (IndexSet.fromIter xs).isOverlapped q = true ↔ ∃ r ∈ xs, r.ov q = true := by
  have hp := C11_find xs q
  have hne : (IndexSet.fromIter xs).isOverlapped q = true ↔ (IndexSet.fromIter xs).find q ≠ [] := by
    simp [IndexSet.isOverlapped, IndexSet.find]
  rw [hne]
  constructor
  · intro h1
    have : xs.filter (·.ov q) ≠ [] := by
      intro h2
      rw [h2] at hp
      exact h1 hp.eq_nil
    obtain ⟨r, hr⟩ := List.exists_mem_of_ne_nil _ this
    rw [List.mem_filter] at hr
    exact ⟨r, hr.1, hr.2⟩
  · intro ⟨r, hr, hov⟩ h2
    rw [h2] at hp
    have := hp.symm.eq_nil
    have hmem : r ∈ xs.filter (·.ov q) := List.mem_filter.mpr ⟨hr, hov⟩
    rw [this] at hmem
    exact List.not_mem_nil hmem

theorem filterMap_eq_map_of {β γ : Type} (l : List β) (g : β → Option γ) (f : β → γ)
    (h : ∀ x ∈ l, g x = some (f x)) : l.filterMap g = l.map f := by
  induction l with
  | nil => rfl
  | cons x l ih =>
    rw [List.filterMap_cons, h x List.mem_cons_self, List.map_cons,
      ih (fun y hy => h y (List.mem_cons_of_mem _ hy))]

def lookup {δ : Type} (data : List δ) (x : Rec × Nat) : Option (Rec × δ) :=
  (data[x.2]?).map (fun d => (x.1, d))

theorem foldr_find_ok {δ : Type} (data : List δ) (F : List (Rec × Nat))
    (h : ∀ x ∈ F, x.2 < data.length) :
    F.foldr (fun (x : Rec × Nat) acc =>
      match acc, data[x.2]? with
      | Out.ok rest, some d => Out.ok ((x.1, d) :: rest)
      | _, _ => Out.panic) (Out.ok []) = Out.ok (F.filterMap (lookup data)) := by
  induction F with
  | nil => rfl
  | cons x F ih =>
    have hx := h x List.mem_cons_self
    have ih' := ih (fun y hy => h y (List.mem_cons_of_mem _ hy))
    rw [List.foldr_cons, ih']
    simp [lookup, List.getElem?_eq_getElem hx]

/-- `GIntervalIndexMap::find` never indexes out of range and returns the i-th values -/
theorem C11_map_find {δ : Type} (xs : List (Rec × δ)) (q : Rec) :
    ∃ out, (IndexMap.fromIter xs).find q = .ok out ∧ out.Perm (xs.filter (·.1.ov q)) := by
  let h : (Rec × δ) × Nat → Rec × Nat := fun p => (p.1.1, p.2)
  let E' := enumFrom 0 xs
  let data := xs.map (·.2)
  let F := GMap.find (GMap.fromIter (enumFrom 0 (xs.map (·.1)))) q
  have hF : F.Perm ((E'.filter (fun e => e.1.1.ov q)).map h) := by
    have := find_fromIter_perm (enumFrom 0 (xs.map (·.1))) q
    have e : (enumFrom 0 (xs.map (·.1))).filter (fun x => x.1.ov q) =
        (E'.filter (fun e => e.1.1.ov q)).map h := by
      rw [enumFrom_map, List.filter_map]
      rfl
    rw [e] at this
    exact this
  have hE : ∀ e ∈ E', lookup data (h e) = some e.1 := by
    intro e he
    have := mem_enumFrom0 xs e he
    simp [lookup, data, h, List.getElem?_map, this]
  have hlt : ∀ x ∈ F, x.2 < data.length := by
    intro x hx
    have := hF.mem_iff.mp hx
    rw [List.mem_map] at this
    obtain ⟨e, he, rfl⟩ := this
    have h1 := mem_enumFrom0 xs e (List.mem_filter.mp he).1
    have h2 : e.2 < xs.length := by
      rcases Nat.lt_or_ge e.2 xs.length with h | h
      · exact h
      · rw [List.getElem?_eq_none h] at h1; cases h1
    simpa [data, h] using h2
  refine ⟨F.filterMap (lookup data), foldr_find_ok data F hlt, ?_⟩
  refine (hF.filterMap (lookup data)).trans ?_
  rw [List.filterMap_map]
  have h3 : (E'.filter (fun e => e.1.1.ov q)).filterMap (lookup data ∘ h) =
      (E'.filter (fun e => e.1.1.ov q)).map (·.1) := by
    apply filterMap_eq_map_of
    intro e he
    exact hE e (List.mem_filter.mp he).1
  rw [h3]
  have h4 : xs.filter (·.1.ov q) = (E'.map (·.1)).filter (·.1.ov q) := by
    rw [enumFrom_map_fst]
  rw [h4, List.filter_map]
  exact List.Perm.refl _

theorem C11_map_get {δ : Type} (xs : List (Rec × δ)) (i : Nat) :
    (IndexMap.fromIter xs).get i = (xs[i]?).map (·.2) ∧ (IndexMap.fromIter xs).len = xs.length := by
  constructor
  · simp [IndexMap.get, IndexMap.fromIter, List.getElem?_map]
  · simp [IndexMap.len, IndexMap.fromIter]

/-- witness: interleaved chromosomes, a duplicated region reported once per occurrence with its own
position -/
example : (IndexSet.fromIter [⟨[2], 5, 9⟩, ⟨[1], 0, 4⟩, ⟨[2], 5, 9⟩, ⟨[2], 9, 12⟩]).findIndexOf ⟨[2], 8, 9⟩ = [0, 2] := by decide

end BV
