import BedVerif.Spec.Text
import BedVerif.Lemmas.C12Lemmas
import BedVerif.Lemmas.C12Met
/-!
# C12 — record parsers are total and name the offending column

The parsers are modelled column by column as in `src/bed.rs` (after the repair that turned the
`unwrap`s of the format-specific columns into `ParseError::MissingValue` / `InvalidValue`);
`c12Expect` (Spec/Text.lean) is the column-wise statement of the property and is also what the
driver evaluates on the implementation's result. Float columns go through an arbitrary `FloatCodec`.
-/
namespace BV
variable {F : Type}

/-- parsing any string as any record type returns Ok or Err; it never panics -/
theorem C12_no_panic (fc : FloatCodec F) (ty : Ty) (s : Bytes) : parseT fc ty s ≠ .panic := by
  rw [parseT_eq]; exact parseCols_ne_panic fc ty _

/-- the column-wise expectation is met: a line whose required columns are all well-formed parses
successfully whatever extra columns follow; a line whose first missing or malformed BED column is
column k is rejected with the error for column k (missing versus invalid start, end, name, score,
strand); a line whose BED columns are fine but whose format-specific columns are not is rejected -/
theorem C12_expect_met (fc : FloatCodec F) (ty : Ty) (line : Bytes) :
    match c12Expect fc ty line with
    | .accept => ∃ r, parseT fc ty line = .ok r
    | .bedError e => parseT fc ty line = .err e
    | .someError => ∃ e, parseT fc ty line = .err e := by
  rw [c12Expect_eq]
  simp only [parseT_eq]
  obtain ⟨a, r, h⟩ : ∃ a r, columnsOfLine ty line = a :: r := by
    cases hc : columnsOfLine ty line with
    | nil => exact absurd hc (columnsOfLine_ne_nil ty line)
    | cons a r => exact ⟨a, r, rfl⟩
  rw [h]
  exact met_all fc ty a r

/-- extra trailing columns never change the result of an accepted line -/
theorem C12_extra_columns (fc : FloatCodec F) (ty : Ty) (s extra : Bytes) (r : TRec F)
    (h : parseT fc ty s = .ok r) : parseT fc ty (s ++ TAB :: extra) = .ok r := by
  rw [parseT_eq] at h ⊢
  have hs : columnsOfLine ty (s ++ TAB :: extra) = columnsOfLine ty s ++ columnsOfLine ty extra := by
    cases ty <;> exact splitOn_append _ TAB (by decide) s extra
  rw [hs]
  exact parseCols_mono fc ty _ _ r h

/-- `str::split` always yields at least one piece, so the chromosome column is never missing -/
theorem C12_split_nonempty (d : UInt8 → Bool) (s : Bytes) : splitOn d s ≠ [] := splitOn_ne_nil d s

/-- witnesses: first bad column decides; extra columns are ignored -/
example : parseT (F := Nat) ⟨fun _ => none, fun _ => [], fun _ => false, 0, fun _ => false⟩ (.bed 6) [99, 9, 49, 9, 120] = .err .invalidEnd := by decide
example : parseT (F := Nat) ⟨fun _ => none, fun _ => [], fun _ => false, 0, fun _ => false⟩ (.bed 3) [99, 9, 49, 9, 50, 9, 120, 9, 9] = .ok { chrom := [99], start := 1, stop := 2 } := by decide

end BV
