import BedVerif.Lemmas.RecBasic
/-!
# C13 — overlap, length and ordering of records follow half-open set semantics

`Rec` is the `BEDLike` view (chrom, start, end) every record type exposes; `u64` is `Nat` — only
comparison, `max`/`min` and saturating subtraction occur, so the statements hold up to `u64::MAX`.
-/
namespace BV

theorem C13_overlap_some_iff (a b : Rec) :
    (Rec.overlap a b).isSome ↔ a.chrom = b.chrom ∧ ∃ p, a.mem p ∧ b.mem p := by
  rw [overlap_eq]
  simp only [Rec.mem]
  constructor
  · intro h
    split at h
    · rename_i h'
      exact ⟨h'.1, max a.start b.start, by omega⟩
    · simp at h
  · rintro ⟨hc, p, hp⟩
    have : max a.start b.start < min a.stop b.stop := by omega
    simp [hc, this]

theorem C13_overlap_positions (a b g : Rec) (h : Rec.overlap a b = some g) :
    g = ⟨a.chrom, max a.start b.start, min a.stop b.stop⟩ ∧ ∀ p, g.mem p ↔ a.mem p ∧ b.mem p := by
  rw [overlap_eq] at h
  split at h
  · simp only [Option.some.injEq] at h
    subst h
    refine ⟨rfl, fun p => ?_⟩
    simp only [Rec.mem]; omega
  · simp at h

/-- symmetric (the chromosome of the result is the common one) -/
theorem C13_overlap_comm (a b : Rec) : Rec.overlap a b = Rec.overlap b a := by
  rw [overlap_eq, overlap_eq, Nat.max_comm a.start, Nat.min_comm a.stop]
  by_cases hc : a.chrom = b.chrom
  · simp [hc]
  · have : ¬ b.chrom = a.chrom := fun e => hc e.symm
    simp [hc, this]

/-- `n_overlap` is the number of shared positions (all of which lie below `min a.stop b.stop`) -/
theorem C13_nOverlap_card (a b : Rec) :
    Rec.nOverlap a b = if a.chrom = b.chrom then ((List.range (min a.stop b.stop)).filter (fun p => decide (a.mem p ∧ b.mem p))).length else 0 := by
  rw [nOverlap_eq]
  split
  · have : (fun p => decide (a.mem p ∧ b.mem p)) = (fun p => decide (max a.start b.start ≤ p ∧ p < min a.stop b.stop)) := by
      funext p; exact decide_eq_decide.mpr (by unfold Rec.mem; omega)
    rw [this, filter_range_count]; omega
  · rfl

theorem C13_nOverlap_comm (a b : Rec) : Rec.nOverlap a b = Rec.nOverlap b a := by
  unfold Rec.nOverlap; rw [C13_overlap_comm]

/-- 0 when disjoint or merely adjacent -/
theorem C13_nOverlap_adjacent (a b : Rec) (h : a.stop ≤ b.start) : Rec.nOverlap a b = 0 := by
  rw [nOverlap_eq]; split <;> omega

theorem C13_len (a : Rec) : a.blen = a.stop - a.start ∧ (a.stop < a.start → a.blen = 0) := by
  unfold Rec.blen; omega

/-- `len` is the number of positions of the record -/
theorem C13_len_card (a : Rec) : a.blen = ((List.range a.stop).filter (fun p => decide (a.mem p))).length := by
  have := filter_range_count a.stop a.start a.stop
  unfold Rec.mem Rec.blen
  rw [this]; omega

theorem C13_compare_refl (a : Rec) : Rec.compare a a = .eq := by
  simp [Rec.compare, cmpBytes_refl]

theorem C13_compare_eq_iff (a b : Rec) : Rec.compare a b = .eq ↔ a = b := by
  simp only [Rec.compare, Ordering.then_eq_eq, cmpBytes_eq_iff, Nat.compare_eq_eq]
  cases a; cases b; simp

theorem C13_compare_swap (a b : Rec) : Rec.compare a b = (Rec.compare b a).swap := by
  simp only [Rec.compare, Ordering.swap_then, Nat.compare_swap, ← cmpBytes_swap]

theorem C13_compare_trans (a b c : Rec) (h₁ : Rec.compare a b ≠ .gt) (h₂ : Rec.compare b c ≠ .gt) : Rec.compare a c ≠ .gt := by
  cases hab : Rec.compare a b with
  | gt => exact absurd hab h₁
  | eq => rw [C13_compare_eq_iff] at hab; subst hab; exact h₂
  | lt =>
    cases hbc : Rec.compare b c with
    | gt => exact absurd hbc h₂
    | eq => rw [C13_compare_eq_iff] at hbc; subst hbc; simp [hab]
    | lt => simp [compare_lt_trans' a b c hab hbc]

theorem C13_compare_lt_trans (a b c : Rec) (h₁ : Rec.compare a b = .lt) (h₂ : Rec.compare b c = .lt) : Rec.compare a c = .lt :=
  compare_lt_trans' a b c h₁ h₂

/-- `compare` is the order by chromosome name (byte-lexicographic), then start, then end -/
theorem C13_compare_lex (a b : Rec) :
    Rec.compare a b = .lt ↔ (cmpBytes a.chrom b.chrom = .lt ∨ (a.chrom = b.chrom ∧ (a.start < b.start ∨ (a.start = b.start ∧ a.stop < b.stop)))) :=
  compare_lex' a b

/-- `cmpBytes` is the lexicographic order on byte strings -/
theorem C13_cmpBytes_lt_iff (x y : Bytes) : cmpBytes x y = .lt ↔ x < y := cmpBytes_lt_iff x y

/-- witnesses: adjacent records share nothing; one-base overlap; nested; different chromosome -/
example : Rec.overlap ⟨[1], 0, 5⟩ ⟨[1], 5, 9⟩ = none ∧ Rec.nOverlap ⟨[1], 0, 5⟩ ⟨[1], 4, 9⟩ = 1 ∧
    Rec.overlap ⟨[1], 0, 9⟩ ⟨[1], 2, 3⟩ = some ⟨[1], 2, 3⟩ ∧ Rec.overlap ⟨[1], 0, 9⟩ ⟨[1, 0], 2, 3⟩ = none := by decide

end BV
