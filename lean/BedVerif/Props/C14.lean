import BedVerif.Lemmas.RecBasic
/-!
# C14 — splitting a record tiles it exactly

For `start ≤ end ≤ u64::MAX` and `1 ≤ bin ≤ u64::MAX`, with the `u64` additions modelled exactly
(`saturating_add` in `split_by_len`; `rsplit_by_len` performs no addition that can overflow).
The predicates `Tiles` / `RTiles` are defined in `Lemmas/RecBasic.lean`.
-/
namespace BV

theorem C14_split_tiles (r : Rec) (bin : Nat) (hr : r.start ≤ r.stop) (hmax : r.stop ≤ U64MAX) (hb : 1 ≤ bin) (hbm : bin ≤ U64MAX) :
    ∃ ps, splitByLen r bin = .ok ps ∧ Tiles r bin ps := by
  have _ := hbm
  refine ⟨_, splitByLen_eq r bin hb hmax, ?_⟩
  obtain ⟨hc1, hc2⟩ := ceil_facts r.blen bin hb
  generalize hn : (r.blen + bin - 1) / bin = n at *
  have hlen : r.blen = r.stop - r.start := rfl
  refine ⟨?_, ?_, ?_, ?_, ?_, ?_, ?_⟩
  · intro p hp
    simp only [List.mem_map] at hp
    obtain ⟨i, _, rfl⟩ := hp
    rfl
  · simp [hn]
  · intro h; simp
  · intro h
    simp only [List.length_map, List.length_range] at h ⊢
    simp only [List.getElem_map, List.getElem_range]
    have := hc2 h
    omega
  · intro i h
    simp only [List.length_map, List.length_range] at h
    simp only [List.getElem_map, List.getElem_range]
    have := hc2 (by omega)
    have := mul_le_of_lt_pred (bin := bin) h
    rw [Nat.add_mul]
    omega
  · intro i h
    simp only [List.length_map, List.length_range] at h
    simp only [List.getElem_map, List.getElem_range, Rec.blen]
    have := hc2 (by omega)
    have := mul_le_of_lt_pred (bin := bin) h
    omega
  · intro h
    simp only [List.length_map, List.length_range] at h ⊢
    simp only [List.getElem_map, List.getElem_range, Rec.blen]
    have := hc2 h
    omega

theorem C14_rsplit_tiles (r : Rec) (bin : Nat) (hr : r.start ≤ r.stop) (hmax : r.stop ≤ U64MAX) (hb : 1 ≤ bin) (hbm : bin ≤ U64MAX) :
    ∃ ps, rsplitByLen r bin = .ok ps ∧ RTiles r bin ps := by
  have _ := hmax; have _ := hbm
  refine ⟨_, rsplitByLen_eq r bin hb, ?_⟩
  obtain ⟨hc1, hc2⟩ := ceil_facts r.blen bin hb
  generalize hn : (r.blen + bin - 1) / bin = n at *
  have hlen : r.blen = r.stop - r.start := rfl
  refine ⟨?_, ?_, ?_, ?_, ?_, ?_, ?_⟩
  · intro p hp
    simp only [List.mem_map] at hp
    obtain ⟨i, _, rfl⟩ := hp
    rfl
  · simp [hn]
  · intro h; simp
  · intro h
    simp only [List.length_map, List.length_range] at h ⊢
    simp only [List.getElem_map, List.getElem_range]
    have := hc2 h
    omega
  · intro i h
    simp only [List.length_map, List.length_range] at h
    simp only [List.getElem_map, List.getElem_range]
    have := hc2 (by omega)
    have := mul_le_of_lt_pred (bin := bin) h
    rw [Nat.add_mul]
    omega
  · intro i h
    simp only [List.length_map, List.length_range] at h
    simp only [List.getElem_map, List.getElem_range, Rec.blen]
    have := hc2 (by omega)
    have := mul_le_of_lt_pred (bin := bin) h
    omega
  · intro h
    simp only [List.length_map, List.length_range] at h ⊢
    simp only [List.getElem_map, List.getElem_range, Rec.blen]
    have := hc2 h
    omega

/-- a tiling partitions `[start, end)`: every position of the record lies in exactly one piece, and
no piece contains a position outside the record -/
theorem C14_partition (r : Rec) (bin : Nat) (ps : List Rec) (hb : 1 ≤ bin) (h : Tiles r bin ps) (p : Nat) :
    r.mem p ↔ ∃ i, ∃ _ : i < ps.length, ps[i].mem p ∧ ∀ j (_ : j < ps.length), ps[j].mem p → j = i := by
  constructor
  · intro ⟨hp1, hp2⟩
    have hpos : 0 < ps.length := by
      rw [h.count]
      apply Nat.pos_of_ne_zero
      intro hz
      have := (ceil_facts r.blen bin hb).1 hz
      unfold Rec.blen at this
      omega
    have hl1 := h.last hpos
    have hl3 := tile_start hb h (ps.length - 1) (by omega)
    have hl4 := tile_bounds hb h (ps.length - 1) (by omega)
    have hi : (p - r.start) / bin < ps.length := by
      rw [Nat.div_lt_iff_lt_mul (by omega)]
      have : ps.length * bin = (ps.length - 1) * bin + bin := by
        obtain ⟨k, hk⟩ : ∃ k, ps.length = k + 1 := ⟨ps.length - 1, by omega⟩
        rw [hk, Nat.add_mul]; simp
      omega
    have hd1 := Nat.div_mul_le_self (p - r.start) bin
    have hd2 := Nat.lt_mul_div_succ (p - r.start) (show 0 < bin by omega)
    rw [Nat.mul_comm, Nat.add_mul] at hd2
    refine ⟨(p - r.start) / bin, hi, ⟨?_, ?_⟩, ?_⟩
    · rw [tile_start hb h _ hi]; omega
    · by_cases hlt : (p - r.start) / bin + 1 < ps.length
      · have h1 := h.consecutive _ hlt
        have h3 := tile_start hb h _ hlt
        rw [Nat.add_mul] at h3
        omega
      · have : ps.length - 1 = (p - r.start) / bin := by omega
        simp only [this] at hl1
        omega
    · intro j hj ⟨hm1, hm2⟩
      have := tile_start hb h j hj
      have := tile_bounds hb h j hj
      apply idx_unique (s := r.start) <;> omega
  · rintro ⟨i, hi, ⟨hm1, hm2⟩, _⟩
    have := tile_start hb h i hi
    have := tile_bounds hb h i hi
    constructor <;> omega

theorem C14_split_empty (r : Rec) (bin : Nat) (hb : 1 ≤ bin) (h : r.start = r.stop) :
    splitByLen r bin = .ok [] ∧ rsplitByLen r bin = .ok [] := by
  have hz : (r.stop - r.start + bin - 1) / bin = 0 := by
    rw [h, Nat.sub_self, Nat.zero_add]
    exact Nat.div_eq_of_lt (by omega)
  have : bin ≠ 0 := by omega
  simp [splitByLen, rsplitByLen, stepPoints, rstepPoints, this, hz]

/-- the Boolean checker used by the driver is sound for the specification -/
theorem C14_tilesB_sound (r : Rec) (bin : Nat) (ps : List Rec) (h : tilesB r bin ps = true) : Tiles r bin ps := by
  unfold tilesB at h
  simp only [Bool.and_eq_true, beq_iff_eq, Bool.or_eq_true, List.all_eq_true, List.isEmpty_iff,
    decide_eq_true_eq] at h
  obtain ⟨⟨⟨⟨hcount, hchrom⟩, hfl⟩, hz⟩, hll⟩ := h
  have hz' := zip_drop_all ps _ hz
  have hne : ∀ h : 0 < ps.length, ¬ ps = [] := by intro h e; simp [e] at h
  refine ⟨hchrom, hcount, ?_, ?_, ?_, ?_, ?_⟩
  · intro hp
    have := hfl.resolve_left (hne hp)
    rw [headD_eq_getElem _ _ hp] at this
    exact this.1
  · intro hp
    have := hfl.resolve_left (hne hp)
    rw [getLastD_eq_getElem _ _ hp] at this
    exact this.2
  · intro i hi
    exact (hz' i hi).1
  · intro i hi
    exact (hz' i hi).2
  · intro hp
    have := hll.resolve_left (hne hp)
    rw [getLastD_eq_getElem _ _ hp] at this
    exact this

/-- witnesses (regressions of the repaired overflow): a bin of `u64::MAX`, a record ending at `u64::MAX` -/
example : splitByLen ⟨[], 10, 20⟩ U64MAX = .ok [⟨[], 10, 20⟩] := by decide +kernel
example : splitByLen ⟨[], U64MAX - 5, U64MAX⟩ 3 = .ok [⟨[], U64MAX - 5, U64MAX - 2⟩, ⟨[], U64MAX - 2, U64MAX⟩] := by decide +kernel
example : rsplitByLen ⟨[], 0, 1230⟩ 500 = .ok [⟨[], 730, 1230⟩, ⟨[], 230, 730⟩, ⟨[], 0, 230⟩] := by decide +kernel

end BV
