import BedVerif.Model.Lifecycle
/-!
# C15 — external sort leaves no temporary files behind

The theorems are about ownership and drop order in the lifecycle model (`Model/Lifecycle.lean`):
whatever the event history — any number of chunks, full or partial consumption, either drop order,
`sort_by` failing by error or panic at any point — once the sorter and the iterator (if any) are
dropped, the configured directory has no entry left from the sort and no chunk file is open; and at
every moment everything the sort has created is the one directory entry (chunk files are anonymous
and never appear in any directory). That `tempfile` and the kernel behave as modelled (the entry is
created under the configured directory and nowhere else, unlinked files vanish when closed) is
observed by the correspondence check, not proved: **partial**.
-/
namespace BV

/-- invariants of every reachable state -/
structure FS.Inv (s : FS) : Prop where
  inside_zero : s.inside = 0
  dir_iff : s.dirEntry = s.sorterAlive
  iter_files : s.iterAlive = false → s.iterFiles = 0
  building_zero : s.sorting = false → s.building = 0
  sorting_alive : s.sorting = true → s.sorterAlive = true

theorem FS.inv_init : FS.init.Inv := ⟨rfl, rfl, fun _ => rfl, fun _ => rfl, fun h => by cases h⟩

theorem FS.inv_step (s : FS) (h : s.Inv) (e : Ev) : (s.step e).Inv := by
  obtain ⟨h1, h2, h3, h4, h5⟩ := h
  cases e <;> simp only [FS.step]
  case yieldItem => exact ⟨h1, h2, h3, h4, h5⟩
  all_goals
    split
    · rename_i hc
      constructor <;> simp_all
    · exact ⟨h1, h2, h3, h4, h5⟩

theorem FS.inv_run (evs : List Ev) : (FS.run evs).Inv := by
  unfold FS.run
  have : ∀ s : FS, s.Inv → (evs.foldl FS.step s).Inv := by
    induction evs with
    | nil => intro s h; exact h
    | cons e t ih => intro s h; exact ih _ (FS.inv_step s h e)
  exact this _ FS.inv_init

/-- C15, "after": once the sorter and the iterator are both dropped (in either order, after any
history) the configured directory holds nothing of the sort and no chunk file is open -/
theorem C15_after_drops (evs : List Ev) (hs : (FS.run evs).sorterAlive = false) (hi : (FS.run evs).iterAlive = false) :
    (FS.run evs).dirEntry = false ∧ (FS.run evs).inside = 0 ∧ (FS.run evs).openFiles = 0 := by
  have h := FS.inv_run evs
  have hsort : (FS.run evs).sorting = false := by
    cases hso : (FS.run evs).sorting with
    | false => rfl
    | true => have := h.sorting_alive hso; rw [hs] at this; cases this
  refine ⟨by rw [h.dir_iff, hs], h.inside_zero, ?_⟩
  unfold FS.openFiles
  rw [h.iter_files hi, h.building_zero hsort]

/-- C15, "during": at every moment of every history the only directory entry the sort has created is
the one temporary directory, and nothing is ever visible inside it -/
theorem C15_during (evs : List Ev) : (FS.run evs).inside = 0 ∧ ((FS.run evs).dirEntry = true → (FS.run evs).sorterAlive = true) := by
  have h := FS.inv_run evs
  exact ⟨h.inside_zero, fun hd => by rw [← h.dir_iff]; exact hd⟩

/-- a failing `sort_by` (error or panic at any point) releases every chunk created so far -/
theorem C15_failure_releases (evs : List Ev) : (FS.run (evs ++ [.sortFails])).building = 0 := by
  have h := FS.inv_run (evs ++ [.sortFails])
  apply h.building_zero
  unfold FS.run
  rw [List.foldl_append]
  simp only [List.foldl_cons, List.foldl_nil, FS.step]
  split
  · rfl
  · rename_i hc; simpa using hc

/-- non-vacuity: partial consumption, iterator dropped after the sorter -/
example : (FS.run [.beginSort, .createChunk, .createChunk, .sortReturns, .yieldItem, .dropSorter, .yieldItem, .dropIter]).sorterAlive = false ∧
    (FS.run [.beginSort, .createChunk, .createChunk, .sortReturns, .yieldItem, .dropSorter, .yieldItem, .dropIter]).iterAlive = false ∧
    (FS.run [.beginSort, .createChunk, .createChunk, .sortReturns, .yieldItem, .dropSorter]).openFiles = 2 := by decide

end BV
