import BedVerif.Lemmas.LapperInv
import BedVerif.Lemmas.LapperCount
/-!
# C16 — the fast overlap count equals the number of overlapping intervals

For every set of intervals with `start ≤ stop`, every build history (`new`, inserts,
`merge_overlaps`, `set_cov`, in any order and number) and every query `qs < qe`,
`count` equals the length of `find` and equals the number of stored intervals overlapping the
query under half-open semantics.
-/
namespace BV
variable {α : Type}

theorem C16_count_eq_find (l : List (Iv α)) (ops : List (Op α)) (h : WeakIvs l ops)
    (qs qe : Nat) (hq : qs < qe) :
    (Lapper.run l ops).count qs qe = ((Lapper.run l ops).find qs qe).length ∧
    (Lapper.run l ops).count qs qe = (Lapper.run l ops).intervals.toList.countP (·.ov qs qe) := by
  obtain ⟨hinv, hw⟩ := inv_run_weak l ops h
  have hc := count_eq (Lapper.run l ops) hinv.starts_sorted hinv.starts_perm hinv.stops_sorted hinv.stops_perm hw qs qe hq
  have hf := find_eq_filter (Lapper.run l ops) hinv.sortedStart hinv.maxLen_ge qs qe
  refine ⟨?_, hc⟩
  rw [hc, hf, List.countP_eq_length_filter]

/-- without a merge the stored intervals are exactly the history's records, so the count is the
number of *supplied* intervals overlapping the query -/
theorem C16_count_eq_records (l : List (Iv α)) (ops : List (Op α)) (h : WeakIvs l ops) (hn : NoMerge ops)
    (qs qe : Nat) (hq : qs < qe) :
    (Lapper.run l ops).count qs qe = (recordsOf l ops).countP (·.ov qs qe) := by
  rw [(C16_count_eq_find l ops h qs qe hq).2]
  exact (inv_run_nomerge l ops hn).2.countP_eq _

/-- non-vacuity: a history with duplicates, a zero-length interval, a merge and later inserts
meets the hypotheses -/
example : WeakIvs [(⟨10, 20, ()⟩ : Iv Unit), ⟨10, 20, ()⟩, ⟨5, 5, ()⟩] [.insert ⟨1, 3, ()⟩, .merge, .insert ⟨20, 25, ()⟩, .setCov] := by
  intro iv hiv; simp [recordsOf, insertedOf] at hiv; rcases hiv with h | h | h | h <;> subst h <;> decide

/-- regression witness of the repaired defect (`count(5,10)` on `{[10,20)}` was 1) -/
example : (Lapper.new [(⟨10, 20, ()⟩ : Iv Unit)]).count 5 10 = 0 := by decide

end BV
