import BedVerif.Lemmas.LapperInv
import BedVerif.Lemmas.LapperSeek
/-!
# C17 — cursor-based seek agrees with find on ascending queries

For every reachable interval set (any history of intervals with `start ≤ stop`; without a merge
even arbitrary intervals) and every finite sequence of queries with non-decreasing start issued
through one cursor that began at 0, each `seek` returns exactly what `find` returns.
All index reads of the model's `seek` are guarded (`arr[i]?`) exactly where the Rust guards them
with `cursor < len` / `cursor + 1 < len`, so no out-of-range access exists in the model; the
correspondence check observes the absence of a panic in the implementation.
-/
namespace BV
variable {α : Type}

theorem C17_seek_eq_find (l : List (Iv α)) (ops : List (Op α)) (h : WeakIvs l ops)
    (qs : List (Nat × Nat)) (hasc : qs.Pairwise (fun a b => a.1 ≤ b.1)) :
    seekAll (Lapper.run l ops) qs 0 = qs.map (fun q => (Lapper.run l ops).find q.1 q.2) := by
  obtain ⟨hinv, _⟩ := inv_run_weak l ops h
  exact C17 _ hinv.sortedStart hinv.maxLen_ge qs hasc

theorem C17_seek_eq_find_nomerge (l : List (Iv α)) (ops : List (Op α)) (hn : NoMerge ops)
    (qs : List (Nat × Nat)) (hasc : qs.Pairwise (fun a b => a.1 ≤ b.1)) :
    seekAll (Lapper.run l ops) qs 0 = qs.map (fun q => (Lapper.run l ops).find q.1 q.2) := by
  obtain ⟨hinv, _⟩ := inv_run_nomerge l ops hn
  exact C17 _ hinv.sortedStart hinv.maxLen_ge qs hasc

/-- each result is exactly the overlapping stored intervals, in storage order -/
theorem C17_seek_eq_filter (l : List (Iv α)) (ops : List (Op α)) (h : WeakIvs l ops)
    (qs : List (Nat × Nat)) (hasc : qs.Pairwise (fun a b => a.1 ≤ b.1)) :
    seekAll (Lapper.run l ops) qs 0 = qs.map (fun q => (Lapper.run l ops).intervals.toList.filter (·.ov q.1 q.2)) := by
  obtain ⟨hinv, _⟩ := inv_run_weak l ops h
  exact seekAll_eq _ hinv.sortedStart hinv.maxLen_ge qs hasc 0 0 (fun i _ h => by omega) (fun _ _ => Nat.zero_le _)

/-- non-vacuity: repeated query, jump past the last interval, query before the first -/
example : ([(3, 4), (3, 9), (3, 4), (500, 501)] : List (Nat × Nat)).Pairwise (fun a b => a.1 ≤ b.1) := by decide
example : seekAll (Lapper.new [(⟨5, 50, ()⟩ : Iv Unit), ⟨6, 7, ()⟩, ⟨8, 9, ()⟩]) [(3, 4), (6, 9), (6, 7), (500, 501)] 0
    = [[], [⟨5, 50, ()⟩, ⟨6, 7, ()⟩, ⟨8, 9, ()⟩], [⟨5, 50, ()⟩, ⟨6, 7, ()⟩], []] := by decide

end BV
